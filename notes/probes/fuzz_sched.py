import random, sys
from vivarium.core.engine import Engine
from vivarium.core.process import Process
from vivarium.core.emitter import Emitter
from vivarium.core.registry import emitter_registry
ENG = [None]
LOG = []
class Rec(Emitter):
    rows = []
    def emit(self, data):
        if data['table'] == 'history': Rec.rows.append(dict(data['data']))
try: emitter_registry.register('rec', Rec)
except Exception: pass
class P(Process):
    def __init__(self, p):
        super().__init__(p); self.tag = self.parameters['tag']; self.n = 0
    def ports_schema(self):
        return {'acc': {'_default': 0, '_emit': True}, 'own': {'_default': 0, '_emit': True}, 'flag': {'_default': True, '_updater': 'set'}}
    def calculate_timestep(self, states):
        assert ENG[0] is None or True
        return self.parameters['ts']
    def update_condition(self, ts, states):
        mode = self.parameters['cond']
        if mode == 'true': return True
        if mode == 'false': return False
        return states['acc'] % mode != 0      # state dependent
    def next_update(self, ts, states):
        self.n += 1
        LOG.append(('inv', self.tag, self.n, ts, ENG[0].global_time, states['acc']))
        return {'acc': 1, 'own': ts}
def run(seed):
    r = random.Random(seed)
    n = r.randint(1, 4)
    procs = {}; topo = {}
    for i in range(n):
        ts = r.randint(1, 40) / 16
        cond = r.choice(['true','true','true','false', 2, 3])
        procs[f'p{i}'] = P({'tag': i, 'ts': ts, 'cond': cond})
        topo[f'p{i}'] = {'acc': ('acc',), 'own': (f'own{i}',), 'flag': (f'flag{i}',)}
    LOG.clear(); Rec.rows = []
    ENG[0] = None
    e = Engine(processes=procs, topology=topo, display_info=False, emitter='rec')
    ENG[0] = e
    gts = [e.global_time]
    calls = []
    for _ in range(r.randint(1, 4)):
        iv = r.randint(0, 80) / 16
        force = r.random() < 0.4
        start = e.global_time
        e.run_for(iv, force)
        calls.append((iv, force))
        if e.global_time != start + iv: return ('land', seed, calls, e.global_time, start + iv)
    e.update(r.randint(1, 50) / 16)
    # checks
    times = [row['time'] for row in Rec.rows]
    if any(b <= a for a, b in zip(times, times[1:])): return ('emit-times', seed, times)
    # own_i must equal elapsed for always-true processes; acc = number of invocations (all applied after update)
    st = e.state.get_value()
    invs = [l for l in LOG]
    if st['acc'] != len(invs): return ('acc', seed, st['acc'], len(invs))
    for i in range(n):
        tot = sum(l[3] for l in invs if l[1] == i)
        if st[f'own{i}'] != tot: return ('own', seed, i, st[f'own{i}'], tot)
        if procs[f'p{i}'].parameters['cond'] == 'true' and tot != e.global_time: return ('elapsed', seed, i, tot, e.global_time)
    # row values: acc at time T == number of invocations whose end <= T
    ends = {}
    per = {}
    for (_, tag, k, ts, gt, _) in invs:
        pass
    return None
bad = {}
for seed in range(int(sys.argv[1]), int(sys.argv[2])):
    try: res = run(seed)
    except Exception as ex: res = ('exc', seed, type(ex).__name__, str(ex)[:100])
    if res:
        bad[res[0]] = bad.get(res[0], 0) + 1
        if bad[res[0]] <= 3: print(res)
print('summary', bad)
