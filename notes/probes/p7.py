from vivarium.core.engine import Engine
from vivarium.core.process import Process, Step
from vivarium.core.registry import divide_split
class Holder(Process):
    def ports_schema(self): return {'d': {'_default': {}, '_updater': 'dict_value', '_emit': True}, 'l': {'_default': [], '_emit': True}, 'n': {'_default': 7, '_divider': 'split', '_emit': True}}
    def next_update(self, ts, states): return {}
class Div(Process):
    def __init__(self,p=None): super().__init__(p); self.k=0
    def ports_schema(self): return {'agents': {'*': {}}}
    def next_update(self, ts, states):
        self.k+=1
        if self.k==1:
            return {'agents': {'_divide': {'mother': 'm', 'daughters': [{'key': 'd0'}, {'key': 'd1'}]}}}
        if self.k==2:
            return {'agents': {'d0': {'d': {'_add': [{'key': 'kk', 'state': 1}]}}}}
        return {}
e = Engine(processes={'agents': {'m': {'h': Holder()}}, 'div': Div()}, topology={'div': {'agents': ('agents',)}, 'agents': {'m': {'h': {'d': ('d',), 'l': ('l',), 'n': ('n',)}}}}, initial_state={'agents': {'m': {'d': {'a': {}}}}}, display_info=False)
e.update(1); print(e.state.get_value()['agents'].keys())
v = e.state.get_value()['agents']
print('d0', {k: v['d0'][k] for k in ('d','l','n')}, 'd1', {k: v['d1'][k] for k in ('d','l','n')})
e.update(1)
v = e.state.get_value()['agents']
print('after update to d0 only: d0.d', v['d0']['d'], 'd1.d', v['d1']['d'], 'same object?', v['d0']['d'] is v['d1']['d'])
print('procs separate?', v['d0']['h'][0] is not v['d1']['h'][0])
print('split -3:', divide_split(-3), ' split 2**53+3:', divide_split(2**53+3), sum(divide_split(2**53+3)) == 2**53+3)
