import copy
from vivarium.core.engine import Engine
from vivarium.core.process import Process, Step
from vivarium.core.composer import Composite
LOG=[]
class Cnt(Process):
    def ports_schema(self): return {'s': {'n': {'_default': 0, '_emit': True}}}
    def next_update(self, ts, states): LOG.append(('P', self.parameters.get('tag'))); return {'s': {'n': 1}}
class Drv(Step):   # legacy deriver (no flow)
    def ports_schema(self): return {'s': {'n': {'_default': 0}, 'd': {'_default': 0, '_updater': 'set', '_emit': True}}}
    def next_update(self, ts, states): LOG.append(('D', self.parameters.get('tag'))); return {'s': {'d': states['s']['n'] * 2}}
class Fst(Step):
    def ports_schema(self): return {'s': {'n': {'_default': 0}, 'f': {'_default': 0, '_updater': 'set', '_emit': True}}}
    def next_update(self, ts, states): LOG.append(('F', self.parameters.get('tag'))); return {'s': {'f': states['s']['n'] * 3}}
class Mover(Process):
    def ports_schema(self): sub={'s': {'n': {'_default': 0}}}; return {'a': {'*': sub}, 'b': {'*': sub}}
    def next_update(self, ts, states):
        if 'x' in states['a']:
            return {'a': {'_move': [{'source': ('x',), 'target': ('b',)}]}}
        return {}
def build(kind):
    procs = {'mover': Mover({'timestep': 2}), 'A': {'x': {'cnt': Cnt({'tag':'x'})}}}
    topo = {'mover': {'a': ('A',), 'b': ('B',)}, 'A': {'x': {'cnt': {'s': ('s',)}}}}
    steps = {}; flow = {}
    if kind == 'deriver':
        procs['A']['x']['drv'] = Drv({'tag': 'x'}); topo['A']['x']['drv'] = {'s': ('s',)}
    elif kind == 'flow':
        steps = {'A': {'x': {'fst': Fst({'tag': 'x'})}}}; flow = {'A': {'x': {'fst': []}}}; topo['A']['x']['fst'] = {'s': ('s',)}
    return Engine(processes=procs, topology=topo, steps=steps, flow=flow, initial_state={'B': {}, 'A': {'y': {'s': {'n': 0}}}}, display_info=False)
for kind in ('deriver', 'flow'):
    LOG.clear()
    try:
        e = build(kind); e.update(2); LOG.clear(); e.update(1)
        print(kind, 'after move, one more tick calls:', LOG)
        print('  step seq', e._step_graph._sequential_steps, 'graph', list(e._step_graph._graph.nodes))
        print('  published steps', e.steps, 'flow', e.flow)
        print('  procs keys', {k: (list(v.keys()) if isinstance(v, dict) else v) for k, v in e.processes.items()})
    except Exception as ex:
        import traceback; print(kind, 'EXC', type(ex).__name__, ex)
