import random, sys, copy, itertools, traceback
from vivarium.core.engine import Engine
from vivarium.core.process import Process

KEYS = ['a','b','c','d']
def gen_schema(r, depth):
    """returns nested dict; leaves are {'_default': n, '_updater': 'set'}"""
    n = r.randint(1,3)
    out = {}
    for k in r.sample(KEYS, n):
        if depth > 0 and r.random() < 0.45:
            out[k] = gen_schema(r, depth-1)
        else:
            out[k] = {'_default': r.randint(0, 9), '_updater': 'set'}
    return out
def is_leaf(s): return '_default' in s
def gen_path(r, depth_here):
    # path relative; may include '..' in the middle, never escaping root
    p = []
    cur = depth_here
    for _ in range(r.randint(1,3)):
        if cur > 0 and r.random() < 0.25:
            p.append('..'); cur -= 1
        else:
            p.append(r.choice(['s','t','u','v'])); cur += 1
    if p and all(x == '..' for x in p): p.append('s')
    return tuple(p)
def gen_topo(r, schema, depth_here, top=True):
    topo = {}
    for port, sub in schema.items():
        c = r.random()
        if is_leaf(sub) or c < 0.5:
            topo[port] = gen_path(r, depth_here)
        else:
            # dict topology
            d = {}
            if r.random() < 0.7:
                d['_path'] = gen_path(r, depth_here)
                for k, ss in sub.items():
                    if r.random() < 0.5:
                        # wire subkey relative to _path node (depth unknown -> no '..')
                        if is_leaf(ss) or r.random()<0.6: d[k] = (r.choice(['w','x','y']),)
                        else: d[k] = gen_topo(r, {k: ss}, 99, False)[k] if False else (r.choice(['w','x','y']),)
            else:
                for k, ss in sub.items():
                    d[k] = gen_path(r, depth_here)
            topo[port] = d
    return topo
def leaves(schema, pre=()):
    for k, s in schema.items():
        if is_leaf(s): yield pre+(k,)
        else: yield from leaves(s, pre+(k,))
def mk_update(path, val):
    d = val
    for k in reversed(path): d = {k: d}
    return d
def get(d, path):
    for k in path: d = d[k]
    return d
def flat(d, pre=()):
    for k, v in d.items():
        if isinstance(v, dict): yield from flat(v, pre+(k,))
        elif not isinstance(v, tuple): yield pre+(k,), v
class P(Process):
    def __init__(self, schema):
        self._s = schema; self.calls = []; self.todo = None
        super().__init__({})
    def ports_schema(self): return copy.deepcopy(self._s)
    def next_update(self, ts, states):
        self.calls.append(copy.deepcopy(states))
        return self.todo or {}
def run(seed):
    r = random.Random(seed)
    schema = gen_schema(r, 2)
    depth = r.randint(0,2)
    ppath = tuple(r.choice(['m','n']) for _ in range(depth))
    topo = gen_topo(r, schema, depth)
    p = P(schema)
    procs = p; tp = topo
    for k in reversed(ppath + ('proc',)):
        procs = {k: procs}; tp = {k: tp}
    try:
        e = Engine(processes=procs, topology=tp, display_info=False)
    except Exception as ex:
        return ('build-exc', type(ex).__name__, str(ex)[:80], schema, topo)
    lv = list(leaves(schema))
    problems = []
    token = 100
    for pv in lv:
        token += 1
        before = dict(flat(e.state.get_value()))
        p.todo = mk_update(pv, token)
        try:
            e.update(1)   # invoke: returns update; applied at end
            p.todo = None
            e.update(1)   # next call sees it
        except Exception as ex:
            return ('run-exc', type(ex).__name__, str(ex)[:100], schema, topo, pv)
        after = dict(flat(e.state.get_value()))
        seen = get(p.calls[-1], pv)
        changed = {k for k in after if before.get(k) != after[k]}
        if seen != token: problems.append(('read-back', pv, seen, token))
        if len(changed) != 1: problems.append(('frame', pv, sorted(changed)))
        # view shape
        if set(dict(flat(p.calls[-1])).keys()) != set(lv): problems.append(('shape', sorted(dict(flat(p.calls[-1])).keys())))
    if problems: return ('PROBLEM', problems[:3], schema, topo, ppath)
    return None
bad = 0
kinds = {}
for seed in range(int(sys.argv[1]), int(sys.argv[2])):
    res = run(seed)
    if res:
        kinds[res[0]] = kinds.get(res[0], 0) + 1
        if res[0] == 'PROBLEM' or kinds[res[0]] <= 3:
            bad += 1
            if bad <= 12: print(seed, res)
print('summary', kinds)
