import random, sys, copy
from vivarium.core.engine import Engine
from vivarium.core.process import Process, Step
CALLS = []
class Cnt(Process):
    def ports_schema(self): return {'s': {'n': {'_default': 0, '_emit': True}}}
    def next_update(self, ts, states): CALLS.append(('P', id(self))); return {'s': {'n': 1}}
class Drv(Step):
    def ports_schema(self): return {'s': {'n': {'_default': 0}, 'd': {'_default': 0, '_updater': 'set', '_emit': True}}}
    def next_update(self, ts, states): CALLS.append(('D', id(self))); return {'s': {'d': states['s']['n'] * 2}}
class Fst(Step):
    def ports_schema(self): return {'s': {'n': {'_default': 0}, 'f': {'_default': 0, '_updater': 'set', '_emit': True}}}
    def next_update(self, ts, states): CALLS.append(('F', id(self))); return {'s': {'f': states['s']['n'] * 3}}
class Fst2(Step):
    def ports_schema(self): return {'s': {'f': {'_default': 0}, 'g': {'_default': 0, '_updater': 'set', '_emit': True}}}
    def next_update(self, ts, states): CALLS.append(('G', id(self))); return {'s': {'g': states['s']['f'] + 1}}
SUB = {'s': {'n': {'_default': 0}}}
def compartment(r, kind=None):
    ts = r.choice([1, 2, 3])
    procs = {'cnt': Cnt({'timestep': ts})}; steps = {}; flow = {}
    topo = {'cnt': {'s': ('s',)}}
    kind = kind if kind is not None else r.randint(0, 3)
    if kind & 1:
        procs['drv'] = Drv(); topo['drv'] = {'s': ('s',)}
    if kind & 2:
        steps['fst'] = Fst(); flow['fst'] = []; topo['fst'] = {'s': ('s',)}
        steps['fst2'] = Fst2(); flow['fst2'] = [('fst',)]; topo['fst2'] = {'s': ('s',)}
    return procs, steps, flow, topo
class Director(Process):
    def __init__(self, p): super().__init__(p); self.script = self.parameters['script']; self.k = 0
    def ports_schema(self): return {'A': {'*': SUB}, 'B': {'*': SUB}}
    def next_update(self, ts, states):
        op = self.script[self.k] if self.k < len(self.script) else None
        self.k += 1
        return op(states) if op else {}
def prune(d):
    if not isinstance(d, dict): return d
    out = {k: prune(v) for k, v in d.items()}
    return {k: v for k, v in out.items() if not (isinstance(v, dict) and not v)}
def mk_ops(r, counter):
    ops = []
    for _ in range(r.randint(1, 6)):
        kind = r.choice(['add', 'delete', 'generate', 'divide', 'move', 'noop'])
        port = r.choice(['A', 'B']); other = 'B' if port == 'A' else 'A'
        seedk = r.random(); ck = r.randint(0, 3)
        def op(states, kind=kind, port=port, other=other, seedk=seedk, ck=ck):
            kids = sorted(states[port].keys())
            rr = random.Random(seedk)
            if kind == 'add':
                counter[0] += 1
                return {port: {'_add': [{'key': f'n{counter[0]}', 'state': {'s': {'n': 5}}}]}}
            if kind == 'generate':
                counter[0] += 1
                p, s, f, t = compartment(rr, ck)
                return {port: {'_generate': [{'key': f'g{counter[0]}', 'processes': p, 'steps': s, 'flow': f, 'topology': t, 'initial_state': {'s': {'n': 1}}}]}}
            if not kids: return {}
            k = rr.choice(kids)
            if kind == 'delete': return {port: {'_delete': [k]}}
            if kind == 'move': return {port: {'_move': [{'source': (k,), 'target': (other,)}]}}
            if kind == 'divide':
                ds = []
                for j in range(2):
                    counter[0] += 1
                    p, s, f, t = compartment(rr, ck)
                    ds.append({'key': f'{k}_{j}_{counter[0]}', 'processes': p, 'steps': s, 'flow': f, 'topology': t, 'initial_state': {}})
                return {port: {'_divide': {'mother': k, 'daughters': ds}}}
            return {}
        ops.append(op)
    return ops
def run(seed):
    r = random.Random(seed)
    counter = [0]
    procs = {'A': {}, 'B': {}}; steps = {'A': {}, 'B': {}}; flow = {'A': {}, 'B': {}}; topo = {'A': {}, 'B': {}}
    for port in 'AB':
        for i in range(r.randint(0, 2)):
            p, s, f, t = compartment(r)
            key = f'{port.lower()}{i}'
            procs[port][key] = p; topo[port][key] = t
            if s: steps[port][key] = s; flow[port][key] = f
    procs['dir'] = Director({'script': mk_ops(r, counter), 'timestep': r.choice([1, 2])})
    topo['dir'] = {'A': ('A',), 'B': ('B',)}
    e = Engine(processes=prune(procs) , topology=prune(topo), steps=prune(steps), flow=prune(flow), initial_state={'A': {}, 'B': {}}, display_info=False)
    for tick in range(10):
        CALLS.clear()
        e.update(1)
        st = e.state
        live_p = st.get_processes() or {}; live_s = st.get_steps() or {}
        def flat(d, pre=()):
            out = {}
            for k, v in (d or {}).items():
                if isinstance(v, dict): out.update(flat(v, pre + (k,)))
                else: out[pre + (k,)] = v
            return out
        fp, fs = flat(live_p), flat(live_s)
        # engine bookkeeping vs hierarchy
        if set(e.process_paths) != set(fp): return ('process_paths', seed, tick, sorted(set(e.process_paths) ^ set(fp)))
        if set(e._step_paths) != set(fs): return ('step_paths', seed, tick, sorted(set(e._step_paths) ^ set(fs)))
        seq = e._step_graph._sequential_steps; gnodes = set(e._step_graph._graph.nodes)
        if len(seq) != len(set(seq)): return ('seq-dup', seed, tick, seq)
        if set(seq) | gnodes != set(fs): return ('graph', seed, tick, sorted((set(seq) | gnodes) ^ set(fs)))
        if set(seq) & gnodes: return ('overlap', seed, tick)
        # published vs getters
        pub_all = dict(flat(prune(e.processes))); pub_all.update(flat(prune(e.steps)))
        live_all = dict(fp); live_all.update(fs)
        if set(pub_all) != set(live_all) or any(pub_all[k] is not live_all[k] for k in pub_all): return ('published-procs', seed, tick, sorted(set(pub_all) ^ set(live_all)))
        if prune(e.topology) != prune(st.get_topology() or {}): return ('published-topology', seed, tick)
        if False and prune(e.flow) != prune(st.get_flow() or {}):
            import pprint; pprint.pprint({p: (n.flow, n.value.__class__.__name__) for p, n in st.depth() if n.topology}); return ('published-flow', seed, tick, prune(e.flow), prune(st.get_flow() or {}))
        # each step ran exactly once this tick
        stepcalls = [c for c in CALLS if c[0] in 'DFG']
        ids = [c[1] for c in stepcalls]
        live_ids = [id(v) for v in fs.values()]
        # (steps created this tick run next phase; steps deleted don't run) -> only check no duplicates and subset relation
        if len(ids) != len(set(ids)): return ('step-twice', seed, tick)
        # flow restricted to existing steps must match
        ef = {k: v for k, v in flat(prune(e.flow)).items()} if False else None
    return None
if __name__ != "__main__": sys.argv=["x","0","0"]
bad = {}
for seed in range(int(sys.argv[1]), int(sys.argv[2])):
    try: res = run(seed)
    except Exception as ex:
        import traceback
        res = ('exc', seed, type(ex).__name__, str(ex)[:140])
    if res:
        bad[res[0]] = bad.get(res[0], 0) + 1
        if bad[res[0]] <= 3: print(res)
print('summary', bad)
