From Coq Require Import List ZArith Lia Bool.
Import ListNotations.
Open Scope Z_scope.

(* Prototype of the run_for scheduler model (scratch / feasibility). *)
Section Sched.
Variables (Sg U W : Type).
Definition pid := nat.
Variable poll : W -> pid -> Sg -> Z * W.             (* calculate_timestep *)
Variable cond : W -> pid -> Z -> Sg -> bool * W.     (* update_condition *)
Variable next : W -> pid -> Z -> Sg -> U * W.        (* next_update *)
Variable commit : Sg -> list pid -> list (pid * U) -> Sg * list pid. (* apply batch + steps; may change process set *)

Record fe := { ft : Z; fu : option U; fq : bool }.
Definition front := list (pid * fe).

Fixpoint flook (f : front) (p : pid) : option fe :=
  match f with [] => None | (q, e) :: r => if Nat.eqb q p then Some e else flook r p end.
Fixpoint fset (f : front) (p : pid) (e : fe) : front :=
  match f with
  | [] => [(p, e)]
  | (q, e0) :: r => if Nat.eqb q p then (q, e) :: r else (q, e0) :: fset r p e
  end.

Inductive event :=
| EInvoke (p : pid) (start fin ts now : Z)
| EQuiet (p : pid) (now : Z)
| EApply (p : pid) (fin now : Z)
| EEmit (now : Z).

Record st := { gt : Z; procs : list pid; frt : front; sto : Sg; wld : W; log : list event }.

Definition omin (a : option Z) (b : Z) : option Z :=
  match a with None => Some b | Some x => Some (Z.min x b) end.

(* state of the poll loop *)
Record pl := { pf : front; pw : W; pfull : option Z; pquiet : list pid; plog : list event; pok : bool }.

Definition poll_one (now endt : Z) (force : bool) (s : Sg) (a : pl) (p : pid) : pl :=
  let e := match flook (pf a) p with Some e => e | None => {| ft := now; fu := None; fq := false |} end in
  let f0 := match flook (pf a) p with Some _ => pf a | None => fset (pf a) p e end in
  if ft e <=? now then
    let '(ts, w1) := poll (pw a) p s in
    let fut := if force then Z.min (ft e + ts) endt else ft e + ts in
    if fut <=? endt then
      let ts' := fut - ft e in
      let '(c, w2) := cond w1 p ts' s in
      if c then
        let '(u, w3) := next w2 p ts' s in
        {| pf := fset f0 p {| ft := fut; fu := Some u; fq := false |};
           pw := w3; pfull := omin (pfull a) (fut - now); pquiet := pquiet a;
           plog := EInvoke p (ft e) fut ts' now :: plog a;
           pok := pok a && ((now <? fut) || (force && (fut =? endt))) |}
      else
        {| pf := fset f0 p {| ft := ft e; fu := None; fq := true |};
           pw := w2; pfull := pfull a; pquiet := p :: pquiet a;
           plog := EQuiet p now :: plog a; pok := pok a |}
    else
      {| pf := f0; pw := w1; pfull := omin (pfull a) (fut - now); pquiet := pquiet a;
         plog := plog a; pok := pok a && (now <? fut) |}
  else
    {| pf := f0; pw := pw a; pfull := omin (pfull a) (ft e - now); pquiet := pquiet a;
       plog := plog a; pok := pok a |}.

Definition keep_live (ps : list pid) (f : front) : front :=
  filter (fun pe => existsb (Nat.eqb (fst pe)) ps) f.

Definition advance_quiet (now : Z) (q : list pid) (f : front) : front :=
  map (fun pe => if existsb (Nat.eqb (fst pe)) q
                 then (fst pe, {| ft := now; fu := fu (snd pe); fq := fq (snd pe) |}) else pe) f.

(* collect due updates, in front order; clear them *)
Fixpoint collect (now : Z) (f : front) : front * list (pid * U) * list event :=
  match f with
  | [] => ([], [], [])
  | (p, e) :: r =>
    let '(r', us, ev) := collect now r in
    if (ft e <=? now) then
      match fu e with
      | Some u => ((p, {| ft := ft e; fu := None; fq := false |}) :: r', (p, u) :: us, EApply p (ft e) now :: ev)
      | None => ((p, {| ft := ft e; fu := None; fq := false |}) :: r', us, ev)
      end
    else ((p, e) :: r', us, ev)
  end.

(* one iteration of the while loop; returns new state, new force flag, ok flag *)
Definition iter (endt : Z) (force : bool) (s : st) : st * bool * bool :=
  let f0 := keep_live (procs s) (frt s) in
  let a := fold_left (poll_one (gt s) endt force (sto s)) (procs s)
             {| pf := f0; pw := wld s; pfull := None; pquiet := []; plog := log s; pok := true |} in
  let s' :=
    match pfull a with
    | None =>
      {| gt := endt; procs := procs s;
         frt := map (fun pe => (fst pe, {| ft := ft (snd pe); fu := fu (snd pe); fq := false |}))
                    (advance_quiet endt (pquiet a) (pf a));
         sto := sto s; wld := pw a; log := plog a |}
    | Some d =>
      if gt s + d <=? endt then
        let now := gt s + d in
        let f1 := advance_quiet now (pquiet a) (pf a) in
        let '(f2, us, ev) := collect now f1 in
        let '(sto', procs') := commit (sto s) (procs s) us in
        {| gt := now; procs := procs'; frt := f2; sto := sto'; wld := pw a;
           log := EEmit now :: rev ev ++ plog a |}
      else
        {| gt := endt; procs := procs s; frt := pf a; sto := sto s; wld := pw a; log := plog a |}
    end in
  let force' := if force && (gt s' =? endt) then false else force in
  (s', force', pok a).

Fixpoint run (fuel : nat) (endt : Z) (force : bool) (s : st) : option (st * bool) :=
  if (gt s <? endt) || force then
    match fuel with
    | O => None
    | S n => let '(s', force', ok) := iter endt force s in
             match run n endt force' s' with
             | Some (r, ok') => Some (r, ok && ok')
             | None => None
             end
    end
  else Some (s, true).

(* ---------- monotonicity of the clock ---------- *)

Definition full_ok (now endt : Z) (a : pl) : Prop :=
  pok a = true -> forall d, pfull a = Some d -> 0 <= d.

Definition fronts_ahead (now : Z) (f : front) : Prop := True.

Lemma omin_ge a b d : (forall x, a = Some x -> 0 <= x) -> 0 <= b -> omin a b = Some d -> 0 <= d.
Proof. destruct a as [x|]; cbn; intros Ha Hb [= <-]; [specialize (Ha x eq_refl)|]; lia. Qed.

Lemma poll_one_full now endt force s a p :
  now <= endt ->
  (pok a = true -> forall d, pfull a = Some d -> 0 <= d) ->
  (pok (poll_one now endt force s a p) = true ->
     pok a = true /\ forall d, pfull (poll_one now endt force s a p) = Some d -> 0 <= d).
Proof.
  intros Hne Ha. unfold poll_one.
  set (e := match flook (pf a) p with Some e => e | None => _ end).
  set (f0 := match flook (pf a) p with Some _ => pf a | None => _ end).
  destruct (ft e <=? now) eqn:Ht.
  - destruct (poll (pw a) p s) as [ts w1].
    set (fut := if force then Z.min (ft e + ts) endt else ft e + ts).
    destruct (fut <=? endt) eqn:Hf.
    + destruct (cond w1 p (fut - ft e) s) as [c w2]. destruct c.
      * destruct (next w2 p (fut - ft e) s) as [u w3]. cbn [pok pfull].
        intros Hok. apply andb_true_iff in Hok as [Hoka Hlag]. split; [exact Hoka|].
        intros d Hd. eapply omin_ge; [| |exact Hd]; [intros x Hx; eapply Ha; eauto|].
        apply orb_true_iff in Hlag as [Hlag|Hlag]; [lia|].
        apply andb_true_iff in Hlag as [_ Hlag]. lia.
      * cbn [pok pfull]. intros Hok. split; [exact Hok|]. intros d Hd. eapply Ha; eauto.
    + cbn [pok pfull]. intros Hok. apply andb_true_iff in Hok as [Hoka Hlag]. split; [exact Hoka|].
      intros d Hd. eapply omin_ge; [| |exact Hd]; [intros x Hx; eapply Ha; eauto|lia].
  - cbn [pok pfull]. intros Hok. split; [exact Hok|].
    intros d Hd. eapply omin_ge; [| |exact Hd]; [intros x Hx; eapply Ha; eauto|lia].
Qed.

Lemma poll_fold_full now endt force s ps : forall a,
  now <= endt ->
  (pok a = true -> forall d, pfull a = Some d -> 0 <= d) ->
  let a' := fold_left (poll_one now endt force s) ps a in
  pok a' = true -> forall d, pfull a' = Some d -> 0 <= d.
Proof.
  induction ps as [|p ps IH]; intros a Hne Ha; cbn [fold_left]; [exact Ha|].
  apply IH; [exact Hne|]. intros Hok. eapply poll_one_full; eauto.
Qed.

Theorem iter_mono endt force s s' force' ok :
  gt s <= endt -> iter endt force s = (s', force', ok) -> ok = true ->
  gt s <= gt s' <= endt.
Proof.
  intros Hle Hit Hok. unfold iter in Hit.
  set (a := fold_left _ _ _) in Hit.
  assert (Hfull : forall d, pfull a = Some d -> 0 <= d).
  { assert (Hpok : pok a = true) by (injection Hit; intros; congruence). intros d Hd.
    eapply (poll_fold_full (gt s) endt force (sto s) (procs s)); [exact Hle| |exact Hpok|exact Hd].
    cbn. intros _ d0 Hd0. discriminate. }
  destruct (pfull a) as [d|] eqn:Hpf.
  - specialize (Hfull d eq_refl).
    destruct (gt s + d <=? endt) eqn:Hin.
    + destruct (collect _ _) as [[f2 us] ev]. destruct (commit _ _ _) as [sto' procs'].
      injection Hit as <- _ _. cbn [gt]. lia.
    + injection Hit as <- _ _. cbn [gt]. lia.
  - injection Hit as <- _ _. cbn [gt]. lia.
Qed.

End Sched.
Print Assumptions iter_mono.
