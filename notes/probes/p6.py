import multiprocessing, time
from vivarium.core.engine import Engine
from vivarium.core.process import Process, Step
class Cnt(Process):
    def ports_schema(self): return {'s': {'n': {'_default': 0, '_emit': True}}}
    def next_update(self, ts, states): return {'s': {'n': 1}}
class Killer(Process):
    def ports_schema(self): return {'a': {'*': {'s': {'n': {'_default': 0}}}}}
    def next_update(self, ts, states):
        if 'x' in states['a']: return {'a': {'_delete': ['x']}}
        return {}
def main():
    procs = {'killer': Killer({'timestep': 1}), 'A': {'x': {'cnt': Cnt({'timestep': 3, '_parallel': True})}, 'y': {'cnt': Cnt({'timestep': 3})}}}
    topo = {'killer': {'a': ('A',)}, 'A': {'x': {'cnt': {'s': ('s',)}}, 'y': {'cnt': {'s': ('s',)}}}}
    e = Engine(processes=procs, topology=topo, display_info=False)
    try:
        e.update(4)
        print('ok', e.state.get_value())
    except Exception as ex:
        print('EXC', type(ex).__name__, str(ex)[:150])
    try:
        e.end()
    except Exception as ex: print('end EXC', type(ex).__name__, ex)
    time.sleep(0.5)
    print('children alive', [c.is_alive() for c in multiprocessing.active_children()])
    for c in multiprocessing.active_children(): c.terminate()
if __name__ == '__main__':
    main()
