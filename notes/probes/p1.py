import os, sys, signal
os.environ['PYTHONHASHSEED']='0'
from vivarium.core.engine import Engine
from vivarium.core.process import Process, Step
from vivarium.processes.clock import Clock

def mk(ts, **kw):
    return Engine(processes={'c': Clock({'time_step': ts})}, topology={'c': {'global_time': ('t',)}}, display_info=False, **kw)

# C02: Clock ts=3 update(10)
e = mk(3); e.update(10)
print('C02 clock after update(10):', e.state.get_value()['t'], 'gt', e.global_time)
print(sorted(e.emitter.get_data().keys()))

# C03 backwards clock with adaptive timestep
class Adaptive(Process):
    def __init__(self, p=None):
        super().__init__(p); self.seq = list(self.parameters['seq']); self.log=[]
    def ports_schema(self): return {'x': {'_default': 0}}
    def calculate_timestep(self, states):
        ts = self.seq.pop(0) if len(self.seq)>1 else self.seq[0]
        return ts
    def next_update(self, timestep, states):
        self.log.append(timestep); return {'x': 1}
a = Adaptive({'seq':[1.25, 0.5]})
e = Engine(processes={'a': a}, topology={'a': {'x': ('x',)}}, display_info=False)
e.run_for(1.0); print('gt after run_for(1.0)', e.global_time)
try:
    class W:
        pass
    gts=[]
    orig = e._send_updates
    def spy(u):
        gts.append(e.global_time); return orig(u)
    e._send_updates = spy
    e.run_for(1.0); print('gt after 2nd run_for', e.global_time, 'apply times', gts, 'ts log', a.log)
except Exception as ex:
    print('EXC', type(ex), ex)

# C03 hang: all quiet
class Quiet(Process):
    def ports_schema(self): return {'x': {'_default': 0}}
    def next_update(self, timestep, states): return {'x': 1}
    def update_condition(self, timestep, states): return False
e = Engine(processes={'q': Quiet()}, topology={'q': {'x': ('x',)}}, display_info=False)
def handler(signum, frame): raise TimeoutError()
signal.signal(signal.SIGALRM, handler); signal.alarm(3)
try:
    e.update(2); print('quiet update returned gt', e.global_time)
except TimeoutError:
    print('C03 HANG on all-quiet update(2)')
signal.alarm(0)
# empty engine
try:
    e = Engine(processes={}, topology={}, display_info=False)
except Exception as ex:
    print('empty engine:', ex)
