from vivarium.core.engine import Engine
from vivarium.core.process import Process
from vivarium.processes.timeline import TimelineProcess
class Holder(Process):
    def ports_schema(self): return {'s': {'v': {'_default': -1, '_emit': True}, 'w': {'_default': -1, '_emit': True}}}
    def next_update(self, ts, states): return {}
def run_tl(tl, total=12, ts=1.0):
    tp = TimelineProcess({'timeline': tl, 'time_step': ts})
    e = Engine(processes={'timeline': tp, 'h': Holder()}, topology={'timeline': {'global': ('global',), 's': ('s',)}, 'h': {'s': ('s',)}}, display_info=False)
    e.update(total)
    d = e.emitter.get_data()
    return {t: (d[t]['s']['v'], d[t]['s']['w']) for t in sorted(d)}
V=('s','v'); W=('s','w')
print('sorted ', run_tl([(0,{V:0}),(5,{V:5}),(10,{V:10})]))
print('[0,10,5]', run_tl([(0,{V:0}),(10,{V:10}),(5,{V:5})]))
print('[5,0]   ', run_tl([(5,{V:5}),(0,{V:0})]))
print('3 in one tick', run_tl([(0.1,{V:1}),(0.2,{W:2}),(0.3,{V:3})], total=4))
