import math, numpy as np
from vivarium.core.serialize import serialize_value, deserialize_value
from vivarium.library.units import units
import vivarium
def rt(v):
    s = serialize_value(v); d = deserialize_value(s); return s, d
for q in [1.5*units.g/units.L, math.nan*units.fg, 0*units.mmol, -3.25*units.fg, 1e300*units.m, 1e-300*units.s, 5*units.count if hasattr(units,'count') else 5*units.dimensionless, math.inf*units.g, -math.inf*units.g, 2**52*units.g, np.float64(2.5)*units.g, np.array([1.0,2.0])*units.g, 3*units.g*units.m/units.s**2]:
    try:
        s,d = rt(q)
        same = (d == q) if not isinstance(d, list) else d
        print(repr(q), '->', s, '->', repr(d), 'eq', same if not (isinstance(same, float)) else same)
    except Exception as ex:
        print(repr(q), 'EXC', type(ex).__name__, str(ex)[:100])
print(rt({'a': (1,2,{'b': {3,}}), 'n': None, 'f': 1.5, 'i': 2**60, 'u': units.g}))
for bad in ({1: 2}, {'a': {(1,2): 3}}, {'a': object()}, {np.str_('k'): 1}):
    try: print('bad', serialize_value(bad))
    except Exception as ex: print('bad ->', type(ex).__name__)
print(rt(float('nan')), rt(float('inf')), rt(-0.0), rt(1e308), rt(5e-324))
s = serialize_value({'a': [1.5*units.g, 'x']}); print(s, serialize_value(s) == s)
print(deserialize_value('!units[5 gram]'), deserialize_value('!units[5 gram]\n'))
