import os
from vivarium.core.engine import Engine
from vivarium.core.process import Process, Step
from vivarium.core.store import Store
from vivarium.core.composer import Composite
from vivarium.core.registry import update_merge
from vivarium.processes.timeline import TimelineProcess

# C06: two scalar ports wired to one variable
class TwoPorts(Process):
    def ports_schema(self): return {'a': {'_default': 0}, 'b': {'_default': 0}}
    def next_update(self, ts, states): return {'a': 1, 'b': 10}
e = Engine(processes={'p': TwoPorts()}, topology={'p': {'a': ('x',), 'b': ('x',)}}, display_info=False)
e.update(1); print('C06 scalar ports -> x =', e.state.get_value()['x'], '(expect 11)')
class TwoDictPorts(Process):
    def ports_schema(self): return {'a': {'v': {'_default': 0}}, 'b': {'v': {'_default': 0}}}
    def next_update(self, ts, states): return {'a': {'v': 1}, 'b': {'v': 10}}
e = Engine(processes={'p': TwoDictPorts()}, topology={'p': {'a': ('s',), 'b': ('s',)}}, display_info=False)
e.update(1); print('C06 dict ports -> s.v =', e.state.get_value()['s']['v'], '(expect 11)')

# C08 merge
print('C08 merge', update_merge({'a':1,'b':2}, {'b':3,'c':4}))

# C09 tuple path delete
class Del(Process):
    def ports_schema(self): return {'agents': {'*': {'x': {'_default': 0}}}}
    def next_update(self, ts, states): return {'agents': {'_delete': [('k1',)]}}
e = Engine(processes={'d': Del()}, topology={'d': {'agents': ('agents',)}}, initial_state={'agents': {'k1': {'x': 1}, 'k2': {'x': 2}}}, display_info=False)
try:
    e.update(1); print('C09 tuple delete ->', e.state.get_value()['agents'])
except Exception as ex: print('C09 exc', repr(ex))

# C16 merge aliasing
class P(Process):
    def ports_schema(self): return {'x': {'_default': 0}}
    def next_update(self, ts, states): return {}
A = Composite({'processes': {'grp': {'a': P()}}, 'topology': {'grp': {'a': {'x': ('x',)}}}})
B = Composite({})
B.merge(composite=A)
B.merge(processes={'grp': {'b': P()}}, topology={'grp': {'b': {'x': ('x',)}}})
print('C16 A.processes keys after merging into B:', list(A['processes']['grp'].keys()))

# C18 query falsy
from vivarium.core.emitter import RAMEmitter
em = RAMEmitter({})
em.emit({'table':'history','data':{'time':0,'a':{'x':0,'y':5}}})
em.emit({'table':'history','data':{'time':1,'a':{'x':1,'y':0}}})
print('C18 query', em.get_data([('a','x'),('a','y')]))

# C19 timeline
def run_tl(tl, total=12):
    tp = TimelineProcess({'timeline': tl})
    e = Engine(processes={'timeline': tp}, topology={'timeline': {'global': ('global',), 's': ('s',)}}, initial_state={'s': {'v': -1}}, display_info=False)
    e.update(total)
    d = e.emitter.get_data()
    return {t: d[t]['s']['v'] for t in sorted(d)}
print('C19 sorted ', run_tl([(0,{('s','v'):0}),(5,{('s','v'):5}),(10,{('s','v'):10})]))
print('C19 [0,10,5]', run_tl([(0,{('s','v'):0}),(10,{('s','v'):10}),(5,{('s','v'):5})]))
print('C19 [5,0]   ', run_tl([(5,{('s','v'):5}),(0,{('s','v'):0})]))
