from vivarium.core.engine import Engine
from vivarium.core.process import Process, Step
import vivarium, sys
print('vivarium from', vivarium.__file__)
# 1. dict topology without _path, partial keys
class P1(Process):
    def ports_schema(self): return {'port': {'a': {'_default': 0}, 'b': {'_default': 0}}, 'q': {'c': {'_default': 0}}}
    def next_update(self, ts, states): self.seen = states; return {'port': {'a': 1, 'b': 2}, 'q': {'c': 3}}
for topo in ({'port': {'a': ('x',)}, 'q': ('q',)}, {'port': {'_path': ('n',), 'a': ('x',)}, 'q': ('q',)}, {'port': ('n',)}):
    p = P1(); e = Engine(processes={'p': p}, topology={'p': topo}, display_info=False); e.update(1)
    print('topo', topo, '\n   view', p.seen, '\n   state', {k:v for k,v in e.state.get_value().items() if k!='p'})
# 2. _multi_update swallowing structural results
class Two(Process):
    def __init__(s,p=None): super().__init__(p); s.k=0
    def ports_schema(self): return {'a': {'*': {'v': {'_default': 0}}}, 'b': {'*': {'v': {'_default': 0}}}}
    def next_update(self, ts, states):
        self.k+=1; self.seen=states
        if self.k==1: return {'a': {'_add': [{'key': 'n1', 'state': {'v': 1}}]}, 'b': {'_add': [{'key': 'n2', 'state': {'v': 2}}]}}
        return {}
# 3. delete empties branch then same-batch update
class Cnt(Process):
    def ports_schema(self): return {'s': {'n': {'_default': 0}}}
    def next_update(self, ts, states): return {'s': {'n': 1}}
class Killer(Process):
    def ports_schema(self): return {'a': {'*': {'s': {'n': {'_default': 0}}}}}
    def next_update(self, ts, states):
        return {'a': {'_delete': list(states['a'].keys())}} if states['a'] else {}
try:
    e = Engine(processes={'killer': Killer(), 'A': {'x': {'cnt': Cnt()}}}, topology={'killer': {'a': ('A',)}, 'A': {'x': {'cnt': {'s': ('s',)}}}}, display_info=False); e.update(2)
    print('delete+same batch ok', e.state.get_value())
except Exception as ex: print('delete+same-batch EXC:', str(ex)[:120])
# 4. default conflicts
class D1(Process):
    def ports_schema(self): return {'v': {'_default': 1}}
    def next_update(self, ts, states): return {}
class D2(D1):
    def ports_schema(self): return {'v': {'_default': 2}}
for order in (('a','b'),('b','a')):
    procs = {'a': D1(), 'b': D2()}
    e = Engine(processes={k: procs[k] for k in order}, topology={k: {'v': ('v',)} for k in order}, display_info=False)
    print('default conflict order', order, '->', e.state.get_value()['v'])
