from vivarium.core.engine import Engine
from vivarium.core.process import Process
from vivarium.core.emitter import Emitter
from vivarium.core.registry import emitter_registry
from vivarium.processes.clock import Clock
rows=[]
class Rec(Emitter):
    def emit(self, data): rows.append((data['table'], data['data'].get('time')))
emitter_registry.register('rec', Rec)
e = Engine(processes={'c': Clock({'time_step': 5})}, topology={'c': {'global_time': ('t',)}}, display_info=False, emitter='rec', emit_step=2)
e.update(10)
print(rows)
# float grid check
import itertools, random
bad=[]
for p in (1,2):
    for trial in range(300):
        r=random.Random(trial)
        tss=[r.randint(1,30)/10**p for _ in range(r.randint(1,3))]
        rows.clear()
        e = Engine(processes={f'c{i}': Clock({'time_step': ts}) for i,ts in enumerate(tss)}, topology={f'c{i}': {'global_time': (f't{i}',)} for i in range(len(tss))}, display_info=False, emitter='rec', global_time_precision=p)
        total = r.randint(1,60)/10**p*3
        total=round(total,p)
        e.update(total)
        ts=[t for k,t in rows if k=='history']
        for t in ts:
            if t != round(t,p): bad.append((p,tss,total,t)); break
        if len(set(ts))!=len(ts): bad.append(('dup',p,tss,total))
print(len(bad), bad[:5])
