(* C14 - Serialization round-trips every emittable value and yields plain JSON data.
   Model: Model/Serialize.v; proofs: Proofs/Serialize_proofs.v.  The result type jval IS plain JSON data (by typing).
   Numbers are opaque and a quantity is represented by its printed form: that orjson reproduces every finite number and
   that pint parses back what it prints are premises, tested by the harness on every generated leaf (partial).
   This file contains only statements closed by `exact`, their assumptions and non-vacuity examples.
   Generated once by tools/genprops.py from the proved lemmas (statements restated verbatim). *)
From Coq Require Import List NArith ZArith Bool String Ascii Lia.
From Viv Require Import Model.Serialize Proofs.Serialize_proofs.
Import ListNotations.
Open Scope string_scope.

(* the marker matcher accepts exactly "!units[" body "]" with a newline-free body and returns the body *)
Theorem C14_match_marker_spec :
  forall s body : string,
         match_marker s = Some body <-> s = marker body /\ no_newline body = true.
Proof. exact @match_marker_spec. Qed.
Print Assumptions C14_match_marker_spec.

(* serialize_value is idempotent on its own output *)
Theorem C14_ser_embed :
  forall j : jval, ser (embed j) = SOk j.
Proof. exact @ser_embed. Qed.
Print Assumptions C14_ser_embed.

(* it fails (TypeError) exactly when the value holds an object without serializer or a non-string / numpy-string key: it never emits something else *)
Theorem C14_ser_fails_iff :
  forall v : pval, (exists e : serr, ser v = SErr e) <-> has_bad v = true.
Proof. exact @ser_fails_iff. Qed.
Print Assumptions C14_ser_fails_iff.

(* every tree of supported values is serialized *)
Theorem C14_ser_total :
  forall v : pval, has_bad v = false -> exists j : jval, ser v = SOk j.
Proof. exact @ser_total. Qed.
Print Assumptions C14_ser_total.

(* a serialized quantity is handed back to the unit parser with exactly its printed form *)
Theorem C14_quantity_roundtrip :
  forall p : string, no_newline p = true -> deser (JStr (marker p)) = parse_units p.
Proof. exact @quantity_roundtrip. Qed.
Print Assumptions C14_quantity_roundtrip.

(* deserialize(serialize v) is the normal form of v (tuples, sets, arrays as lists; numpy scalars as numbers; quantities parsed from their printed form) for every nested value whose plain strings do not already look like serialized quantities *)
Theorem C14_roundtrip :
  forall (v : pval) (j : jval), clean v = true -> ser v = SOk j -> deser j = normalise v.
Proof. exact @roundtrip. Qed.
Print Assumptions C14_roundtrip.

(* plain data without marker-like strings is returned unchanged *)
Theorem C14_plain_unchanged :
  forall j : jval, clean (embed j) = true -> deser j = plain j.
Proof. exact @plain_unchanged. Qed.
Print Assumptions C14_plain_unchanged.

(* the nan special case: the units text after "nan" is parsed, the magnitude is nan *)
Theorem C14_parse_nan :
  forall rest : string, parse_units ("nan " ++ rest) = DNanUnits (lstrip rest).
Proof. exact @parse_nan. Qed.
Print Assumptions C14_parse_nan.

(* otherwise the whole body is parsed *)
Theorem C14_parse_not_nan :
  forall body : string,
         body <> "nan" -> strip_prefix "nan " body = None -> parse_units body = DUnits body.
Proof. exact @parse_not_nan. Qed.
Print Assumptions C14_parse_not_nan.

(* a unit whose name starts with "nan" (nanometer, nanogram / second) is parsed as an ordinary unit *)
Theorem C14_nano_units_are_units :
  parse_units "nanometer" = DUnits "nanometer" /\
         parse_units "nanogram / second" = DUnits "nanogram / second".
Proof. exact @nano_units_are_units. Qed.
Print Assumptions C14_nano_units_are_units.

(* fixed defect F19: the pinned startswith("nan") test parsed "nanometer" as nan * "ometer" *)
Theorem C14_nano_units_refuted_pinned :
  parse_units_pinned "nanometer" = DNanUnits "ometer".
Proof. exact @nano_units_refuted_pinned. Qed.
Print Assumptions C14_nano_units_refuted_pinned.


Definition ex_v : pval :=
  PDict [(KStr "a", PTuple [PNum (NInt 3); PQty "5 milligram"; PStr "x]"]); (KStr "b", PSet [PNpScalar (NFloat 1)])].
Example ex_clean : clean ex_v = true /\ has_bad ex_v = false.
Proof. split; reflexivity. Qed.
Example ex_roundtrip : exists j, ser ex_v = SOk j /\
  deser j = DDict [("a", DList [DNum (NInt 3); DUnits "5 milligram"; DStr "x]"]); ("b", DList [DNum (NFloat 1)])].
Proof. eexists. split; reflexivity. Qed.

