(* C07 - A process sees exactly its declared variables, always from the current hierarchy.
   Model: Model/Wire.v (view, view_values); proofs: Proofs/Wire_proofs.v.  The view is a function of the CURRENT
   store (view t ...): rebuilding it after a structural update therefore shows exactly the current children; that the
   engine does rebuild is the r_expire flag of every structural operation in Model/Struct.v (C09) and is exercised by
   the correspondence of the wire+struct streams.
   This file contains only statements closed by `exact`, their assumptions and non-vacuity examples.
   Generated once by tools/genprops.py from the proved lemmas (statements restated verbatim). *)
From Coq Require Import List NArith ZArith Bool Lia.
From Viv Require Import Base.Assoc Base.Tree Model.Paths Model.Wire Proofs.Paths_proofs Proofs.Wire_proofs Model.Views Proofs.Views_proofs Model.Steps Model.Struct Proofs.StructViews_proofs.
Import ListNotations.

(* the states dict has exactly one entry per declared port, in schema order, nothing else *)
Theorem C07_view_keys :
  forall (t : store) (a : list key) (c : list (pkey * schema)) (tp : list (pkey * topo))
           (l : list (key * vtree)),
         wf_pair (SNode false c) tp true = true ->
         view t a (SNode false c) tp = Ok (VNode l) ->
         map fst l =
         flat_map (fun kv : pkey * schema => match fst kv with
                                             | PK k => [k]
                                             | PStar => []
                                             end) c.
Proof. exact @view_keys. Qed.
Print Assumptions C07_view_keys.

(* output-only ports are empty *)
Theorem C07_view_output :
  forall (t : store) (a : list key) (c : list (pkey * schema)) (tp : list (pkey * topo)),
         is_leaf_at t a = false -> view t a (SNode true c) tp = Ok (VNode []).
Proof. exact @view_output. Qed.
Print Assumptions C07_view_output.

(* "**" gives the whole sub-branch *)
Theorem C07_view_all :
  forall (t : store) (a : list key) (tp : list (pkey * topo)), view t a SAll tp = Ok (VRef a).
Proof. exact @view_all. Qed.
Print Assumptions C07_view_all.

(* below a port every reference points to a declared variable at the place the identity wiring puts it: nothing undeclared is visible *)
Theorem C07_view_plain_refs :
  forall (t : store) (b : list key) (s : schema) (v : vtree),
         plain_schema s = true ->
         realised t b s ->
         view t b s [] = Ok v ->
         forall vp r : list key, vget v vp = Some (VRef r) -> r = b ++ vp /\ var_path s vp = true.
Proof. exact @view_plain_refs. Qed.
Print Assumptions C07_view_plain_refs.

(* THE VIEW IS ALWAYS CURRENT: through any run - passes of polling, each followed by the application of the due updates (structural or not) and the step phase with its layers - every process and every step is handed the cached view of the hierarchy as it is at that moment, provided Store.apply_update reports view_expire whenever the node structure changes (Engine._send_updates / run_steps rebuild rule) *)
Theorem C07_views_always_current :
  forall (S U R : Type) (refs : S -> R) (app : S -> U -> S * bool),
         (forall (s : S) (u : U), snd (app s u) = false -> refs (fst (app s u)) = refs s) ->
         forall (passes : list (list (step_fn S U R) * list (list (step_fn S U R))))
           (st st' : vst S R) (ev : list (vev R)),
         Inv S R refs st ->
         run_passes S U R refs app vcur passes st = (st', ev) ->
         Inv S R refs st' /\ Forall (ev_ok R) ev.
Proof. exact @views_always_current. Qed.
Print Assumptions C07_views_always_current.

(* ... one Engine._send_updates call preserves "cache = structure of the current store" and every step invocation inside it reads a current view *)
Theorem C07_send_updates_inv :
  forall (S U R : Type) (refs : S -> R) (app : S -> U -> S * bool),
         (forall (s : S) (u : U), snd (app s u) = false -> refs (fst (app s u)) = refs s) ->
         forall (us : list U) (layers : list (list (step_fn S U R))) (st st' : vst S R)
           (ev : list (vev R)),
         Inv S R refs st ->
         send_updates S U R refs app vcur us layers st = (st', ev) ->
         Inv S R refs st' /\ Forall (ev_ok R) ev.
Proof. exact @send_updates_inv. Qed.
Print Assumptions C07_send_updates_inv.

(* if the last update of a batch alone decided whether the views are rebuilt, a structural update followed by a plain one would leave every view stale *)
Theorem C07_last_flag_only_refuted :
  existsb stale
           (snd
              (run_passes nat bool nat (fun x : nat => x) capp
                 {| v_or_flags := false; v_per_layer := true |}
                 [([structural; plain], []); ([plain], [])] {| vs := 0; vcache := 0 |})) = true.
Proof. exact @last_flag_only_refuted. Qed.
Print Assumptions C07_last_flag_only_refuted.

(* if run_steps rebuilt the views once after all layers, a step of a later layer would be invoked with the view from before an earlier layer's structural update *)
Theorem C07_rebuild_after_all_layers_refuted :
  existsb stale
           (snd
              (run_passes nat bool nat (fun x : nat => x) capp
                 {| v_or_flags := true; v_per_layer := false |} [([], [[structural]; [plain]])]
                 {| vs := 0; vcache := 0 |})) = true.
Proof. exact @rebuild_after_all_layers_refuted. Qed.
Print Assumptions C07_rebuild_after_all_layers_refuted.

(* the structural model discharges the premise of the view rule: an update of Model/Struct.v that does not report view_expire (plain value updates only) leaves the node structure - which node sits where - exactly as it was *)
Theorem C07_apply_ops_no_expire_skel :
  forall (mk_child : N -> cnode * N) (D : Type) (build : D -> N -> cnode * N)
           (copy_procs : cnode -> N -> cnode * N) (vr : variant) (t : cnode) 
           (here : list key) (ops : list (sop D)) (uid : N) (t' : cnode) 
           (rp : reports) (uid' : N),
         apply_ops mk_child D build copy_procs vr t here ops uid = Ok (t', rp, uid') ->
         r_expire rp = false -> skel t' = skel t.
Proof. exact @apply_ops_no_expire_skel. Qed.
Print Assumptions C07_apply_ops_no_expire_skel.

(* ... as Engine.apply_update (an update that raises applies nothing) *)
Theorem C07_sapp_reports :
  forall (mk_child : N -> cnode * N) (D : Type) (build : D -> N -> cnode * N)
           (copy_procs : cnode -> N -> cnode * N) (vr : variant) (s : sstate) 
           (u : supd D),
         snd (sapp mk_child D build copy_procs vr s u) = false ->
         srefs (fst (sapp mk_child D build copy_procs vr s u)) = srefs s.
Proof. exact @sapp_reports. Qed.
Print Assumptions C07_sapp_reports.

(* THE VIEW IS ALWAYS CURRENT, on the structural model: through any run in which processes and steps issue _add / _delete / _move / _generate / _divide and value updates, every invocation reads views built from the node structure as it is at that moment *)
Theorem C07_struct_views_always_current :
  forall (mk_child : N -> cnode * N) (D : Type) (build : D -> N -> cnode * N)
           (copy_procs : cnode -> N -> cnode * N) (vr : variant)
           (passes : list
                       (list (step_fn sstate (supd D) (list (list key * N))) *
                        list (list (step_fn sstate (supd D) (list (list key * N))))))
           (st st' : vst sstate (list (list key * N))) (ev : list (vev (list (list key * N)))),
         Inv sstate (list (list key * N)) srefs st ->
         run_passes sstate (supd D) (list (list key * N)) srefs (sapp mk_child D build copy_procs vr)
           vcur passes st = (st', ev) ->
         Inv sstate (list (list key * N)) srefs st' /\ Forall (ev_ok (list (list key * N))) ev.
Proof. exact @struct_views_always_current. Qed.
Print Assumptions C07_struct_views_always_current.


(* the premise of views_always_current is satisfiable, and the current rule leaves nothing stale on the schedules of the refutations *)
Check capp_reports.
Check current_code_ok.

