(* C07 - A process sees exactly its declared variables, always from the current hierarchy.
   Model: Model/Wire.v (view, view_values); proofs: Proofs/Wire_proofs.v.  The view is a function of the CURRENT
   store (view t ...): rebuilding it after a structural update therefore shows exactly the current children; that the
   engine does rebuild is the r_expire flag of every structural operation in Model/Struct.v (C09) and is exercised by
   the correspondence of the wire+struct streams.
   This file contains only statements closed by `exact`, their assumptions and non-vacuity examples.
   Generated once by tools/genprops.py from the proved lemmas (statements restated verbatim). *)
From Coq Require Import List NArith ZArith Bool Lia.
From Viv Require Import Base.Assoc Base.Tree Model.Paths Model.Wire Proofs.Paths_proofs Proofs.Wire_proofs.
Import ListNotations.

(* the states dict has exactly one entry per declared port, in schema order, nothing else *)
Theorem C07_view_keys :
  forall (t : store) (a : list key) (c : list (pkey * schema)) (tp : list (pkey * topo))
           (l : list (key * vtree)),
         wf_pair (SNode false c) tp true = true ->
         view t a (SNode false c) tp = Ok (VNode l) ->
         map fst l =
         flat_map (fun kv : pkey * schema => match fst kv with
                                             | PK k => [k]
                                             | PStar => []
                                             end) c.
Proof. exact @view_keys. Qed.
Print Assumptions C07_view_keys.

(* output-only ports are empty *)
Theorem C07_view_output :
  forall (t : store) (a : list key) (c : list (pkey * schema)) (tp : list (pkey * topo)),
         is_leaf_at t a = false -> view t a (SNode true c) tp = Ok (VNode []).
Proof. exact @view_output. Qed.
Print Assumptions C07_view_output.

(* "**" gives the whole sub-branch *)
Theorem C07_view_all :
  forall (t : store) (a : list key) (tp : list (pkey * topo)), view t a SAll tp = Ok (VRef a).
Proof. exact @view_all. Qed.
Print Assumptions C07_view_all.

(* below a port every reference points to a declared variable at the place the identity wiring puts it: nothing undeclared is visible *)
Theorem C07_view_plain_refs :
  forall (t : store) (b : list key) (s : schema) (v : vtree),
         plain_schema s = true ->
         realised t b s ->
         view t b s [] = Ok v ->
         forall vp r : list key, vget v vp = Some (VRef r) -> r = b ++ vp /\ var_path s vp = true.
Proof. exact @view_plain_refs. Qed.
Print Assumptions C07_view_plain_refs.


