(* C15 - Every declared variable is built with its explicit or default initial value.
   Model: Model/Wire.v (apply_config = Store._apply_config, merge_leaf = its leaf section, set_value, apply_defaults,
   generate); proofs: Proofs/Wire15_proofs.v.  `wf v` says the initial state is a Python dict (unique keys).  That the
   leaf sits at the node the port is wired to is C06 (the same walk); the composition over several processes and glob
   children named by the initial state is decided by the correspondence of the check (Model/Wire.v generate vs
   generate_state) and its oracle.  Composite.initial_state()/default_state() are not modelled yet.
   This file contains only statements closed by `exact`, their assumptions and non-vacuity examples.
   Generated once by tools/genprops.py from the proved lemmas (statements restated verbatim). *)
From Coq Require Import List NArith ZArith Bool Lia.
From Viv Require Import Base.Assoc Base.Tree Model.Paths Model.Wire Proofs.Paths_proofs Proofs.Wire_proofs Proofs.Wire15_proofs Model.CompState Proofs.WireStar_proofs Proofs.CompState_proofs Proofs.Generate_proofs.
Import ListNotations.

(* AFTER THE STORE IS BUILT, EVERY VARIABLE DECLARED BY ANY PROCESS EXISTS AT THE NODE ITS PORT IS WIRED TO AND HOLDS THE VALUE GIVEN FOR THAT NODE IN THE INITIAL STATE IF THERE IS ONE, AND A DECLARED DEFAULT OTHERWISE (THE declared default when the declarations agree) - for every plain composite (any number of processes at any parents, named ports of variables wired by downward tuple paths, no declared variable above another), every initial state and every declared variable *)
Theorem C15_generate_declares :
  forall (ps : list proc) (init : tree Z) (t : store) (g : globs) 
           (p : proc) (a : list key) (d : vdecl),
         Forall plain_proc ps ->
         prefix_free ps ->
         wf init ->
         generate ps init = Ok (t, g) ->
         In p ps ->
         declares p a d ->
         exists l : lf,
           leaf_at t a = Some l /\
           (forall z : Z, get_in init a = Ok (Some (Lf z)) -> l_val l = Some z) /\
           (get_in init a = Ok None -> l_val l = l_def l) /\
           (forall x : Z,
            l_def l = Some x ->
            exists (p' : proc) (d' : vdecl), In p' ps /\ declares p' a d' /\ dd d' = Some x) /\
           (forall x : Z,
            (forall (p' : proc) (d' : vdecl), In p' ps -> declares p' a d' -> dd d' = Some x) ->
            l_def l = Some x).
Proof. exact @generate_declares. Qed.
Print Assumptions C15_generate_declares.

(* and nothing else becomes a variable: every leaf of the built store is a variable some process declares *)
Theorem C15_generate_only_declared :
  forall (ps : list proc) (init : tree Z) (t : store) (g : globs) (a : list key) (l : lf),
         Forall plain_proc ps ->
         prefix_free ps ->
         wf init ->
         generate ps init = Ok (t, g) ->
         leaf_at t a = Some l -> exists (p : proc) (d : vdecl), In p ps /\ declares p a d.
Proof. exact @generate_only_declared. Qed.
Print Assumptions C15_generate_only_declared.

(* declarations by several processes: different _value for one variable is an error *)
Theorem C15_merge_leaf_value_conflict :
  forall (cur : lf) (d : vdecl) (a b : Z),
         l_val cur = Some a -> dv d = Some b -> a <> b -> forall l' : lf, merge_leaf cur d <> Ok l'.
Proof. exact @merge_leaf_value_conflict. Qed.
Print Assumptions C15_merge_leaf_value_conflict.

(* different _units is an error *)
Theorem C15_merge_leaf_units_conflict :
  forall (cur : lf) (d : vdecl) (a b : N),
         l_units cur = Some a -> du d = Some b -> a <> b -> forall l' : lf, merge_leaf cur d <> Ok l'.
Proof. exact @merge_leaf_units_conflict. Qed.
Print Assumptions C15_merge_leaf_units_conflict.

(* different _serializer is an error *)
Theorem C15_merge_leaf_serializer_conflict :
  forall (cur : lf) (d : vdecl) (a b : N),
         l_ser cur = Some a -> ds d = Some b -> a <> b -> forall l' : lf, merge_leaf cur d <> Ok l'.
Proof. exact @merge_leaf_serializer_conflict. Qed.
Print Assumptions C15_merge_leaf_serializer_conflict.

(* compatible declarations merge field by field (the later default wins) *)
Theorem C15_merge_leaf_ok :
  forall (cur : lf) (d : vdecl) (l' : lf),
         merge_leaf cur d = Ok l' ->
         l_def l' = match dd d with
                    | Some x => Some x
                    | None => l_def cur
                    end /\
         l_val l' = match dv d with
                    | Some x => Some x
                    | None => l_val cur
                    end /\
         l_units l' = match du d with
                      | Some x => Some x
                      | None => l_units cur
                      end /\ l_ser l' = match ds d with
                                        | Some x => Some x
                                        | None => l_ser cur
                                        end.
Proof. exact @merge_leaf_ok. Qed.
Print Assumptions C15_merge_leaf_ok.

(* and never fail *)
Theorem C15_merge_leaf_compatible :
  forall (cur : lf) (d : vdecl),
         (forall a b : Z, l_val cur = Some a -> dv d = Some b -> a = b) ->
         (forall a b : N, l_units cur = Some a -> du d = Some b -> a = b) ->
         (forall a b : N, l_ser cur = Some a -> ds d = Some b -> a = b) ->
         exists l' : lf, merge_leaf cur d = Ok l'.
Proof. exact @merge_leaf_compatible. Qed.
Print Assumptions C15_merge_leaf_compatible.

(* applying a ports sub-schema creates every declared variable as a leaf carrying its declaration *)
Theorem C15_apply_config_fresh_declares :
  forall (s : schema) (s' : store),
         plain_schema s = true ->
         apply_config None s = Ok s' ->
         forall (vp : list key) (d : vdecl),
         decl_at s vp = Some d ->
         exists l : lf,
           leaf_at s' vp = Some l /\
           l_def l = dd d /\ l_val l = dv d /\ l_units l = du d /\ l_ser l = ds d.
Proof. exact @apply_config_fresh_declares. Qed.
Print Assumptions C15_apply_config_fresh_declares.

(* and always succeeds on a fresh node *)
Theorem C15_apply_config_fresh_total :
  forall s : schema, plain_schema s = true -> exists s' : store, apply_config None s = Ok s'.
Proof. exact @apply_config_fresh_total. Qed.
Print Assumptions C15_apply_config_fresh_total.

(* variables the schema does not declare are left exactly as they were *)
Theorem C15_apply_config_frame :
  forall (s : schema) (cur s' : store) (q : list key) (l : lf),
         plain_schema s = true ->
         apply_config (Some cur) s = Ok s' ->
         leaf_at cur q = Some l ->
         sch_at s q = None \/ (exists o : bool, sch_at s q = Some (SNode o [])) ->
         leaf_at s' q = Some l.
Proof. exact @apply_config_frame. Qed.
Print Assumptions C15_apply_config_frame.

(* a redeclared variable gets the merged declaration *)
Theorem C15_apply_config_redeclared :
  forall (s : schema) (cur s' : store) (q : list key) (l : lf) (d : vdecl),
         plain_schema s = true ->
         apply_config (Some cur) s = Ok s' ->
         leaf_at cur q = Some l ->
         decl_at s q = Some d -> exists l' : lf, merge_leaf l d = Ok l' /\ leaf_at s' q = Some l'.
Proof. exact @apply_config_redeclared. Qed.
Print Assumptions C15_apply_config_redeclared.

(* apply_defaults: a set value is kept, an unset one becomes the default *)
Theorem C15_apply_defaults_leaf :
  forall (t : store) (a : list key) (l : lf),
         leaf_at t a = Some l ->
         exists l' : lf,
           leaf_at (apply_defaults t) a = Some l' /\
           l_val l' = match l_val l with
                      | Some v => Some v
                      | None => l_def l
                      end /\ l_def l' = l_def l /\ l_units l' = l_units l /\ l_ser l' = l_ser l.
Proof. exact @apply_defaults_leaf. Qed.
Print Assumptions C15_apply_defaults_leaf.

(* idempotent *)
Theorem C15_apply_defaults_idem :
  forall t : store, apply_defaults (apply_defaults t) = apply_defaults t.
Proof. exact @apply_defaults_idem. Qed.
Print Assumptions C15_apply_defaults_idem.

(* an explicit initial value replaces the value of the variable *)
Theorem C15_set_value_leaf :
  forall (fuel : nat) (g : globs) (a : list key) (l : lf) (z : Z),
         set_value (S fuel) g a (Some (Lf l)) (Lf z) =
         Ok
           (Some (Lf {| l_val := Some z; l_def := l_def l; l_units := l_units l; l_ser := l_ser l |})).
Proof. exact @set_value_leaf. Qed.
Print Assumptions C15_set_value_leaf.

(* the initial state touches no variable it does not mention *)
Theorem C15_set_value_frame_partial :
  forall (fuel : nat) (g : globs) (a : list key) (cur : store) (v : tree Z) 
           (cur' : store) (q : list key) (l : lf),
         (forall b : list key, glook g b = None) ->
         wf v ->
         set_value fuel g a (Some cur) v = Ok (Some cur') ->
         leaf_at cur q = Some l -> get_in v q = Ok None -> leaf_at cur' q = Some l.
Proof. exact @set_value_frame_partial. Qed.
Print Assumptions C15_set_value_frame_partial.

(* and writes exactly the given value where it mentions one *)
Theorem C15_set_value_writes_partial :
  forall (fuel : nat) (g : globs) (a : list key) (cur : store) (v : tree Z) 
           (cur' : store) (q : list key) (l : lf) (z : Z),
         (forall b : list key, glook g b = None) ->
         wf v ->
         set_value fuel g a (Some cur) v = Ok (Some cur') ->
         leaf_at cur q = Some l ->
         get_in v q = Ok (Some (Lf z)) ->
         exists l' : lf, leaf_at cur' q = Some l' /\ l_val l' = Some z /\ l_def l' = l_def l.
Proof. exact @set_value_writes_partial. Qed.
Print Assumptions C15_set_value_writes_partial.

(* together: a declared variable holds the explicit initial value if there is one, its declared default otherwise *)
Theorem C15_explicit_else_default_partial :
  forall (fuel : nat) (g : globs) (a : list key) (cur : store) (v : tree Z) 
           (cur' : store) (q : list key) (l : lf),
         (forall b : list key, glook g b = None) ->
         wf v ->
         set_value fuel g a (Some cur) v = Ok (Some cur') ->
         leaf_at cur q = Some l ->
         l_val l = None ->
         (forall z : Z,
          get_in v q = Ok (Some (Lf z)) ->
          exists l' : lf, leaf_at (apply_defaults cur') q = Some l' /\ l_val l' = Some z) /\
         (get_in v q = Ok None ->
          exists l' : lf, leaf_at (apply_defaults cur') q = Some l' /\ l_val l' = l_def l).
Proof. exact @explicit_else_default_partial. Qed.
Print Assumptions C15_explicit_else_default_partial.

(* A COMPOSITE'S initial_state() PLACES EACH PROCESS'S OWN VALUES AT THE NODES ITS PORTS ARE WIRED TO: if process i supplies z for the variable vp, which its view reads at node r, no other variable of that process is wired at, above or below r, no later-visited process writes at, above or below r and the explicit state says nothing there, then the result holds z at r *)
Theorem C15_initial_state_places :
  forall (t : store) (ps : list cproc) (state res0 : list (key * utree)) 
           (i : nat) (p : cproc) (c : list (pkey * schema)) (v : vtree) (vp : list key) 
           (z : Z) (r : list key),
         composite_state ps state = Ok res0 ->
         nth_error ps i = Some p ->
         wfs (SNode false c) (cp_topo p) true = true ->
         view t (cp_parent p) (SNode false c) (cp_topo p) = Ok v ->
         uwf (UD (cp_own p)) = true ->
         conf (SNode false c) v (UD (cp_own p)) ->
         uget (cp_own p) vp = Some (UV z) ->
         vget v vp = Some (VRef r) ->
         r <> [] ->
         (forall (vp' : list key) (z' : Z) (r' : list key),
          vp' <> vp ->
          uget (cp_own p) vp' = Some (UV z') ->
          vget v vp' = Some (VRef r') -> pcomparable r' r = false) ->
         (forall (j : nat) (q : cproc) (s : list (key * utree)),
          i < j ->
          nth_error ps j = Some q ->
          cp_sub q s -> uwf (UD (cp_own q)) = true /\ uget_disjoint r s = true) ->
         uwf (UD state) = true -> uget_disjoint r state = true -> uget res0 r = Some (UV z).
Proof. exact @initial_state_places. Qed.
Print Assumptions C15_initial_state_places.

(* ... and whatever the processes supply, a value of the composite's explicit state (or of the initial_state passed in the config) is what the result holds *)
Theorem C15_explicit_state_wins :
  forall (ps : list cproc) (state res0 : list (key * utree)) (r : list key) (z : Z),
         composite_state ps state = Ok res0 ->
         uwf (UD state) = true -> uget state r = Some (UV z) -> uget res0 r = Some (UV z).
Proof. exact @explicit_state_wins. Qed.
Print Assumptions C15_explicit_state_wins.

(* ... one process: inverse_topology(multi_updates=False) of a conforming own state holds each value at the node the view reads it from *)
Theorem C15_own_value_placed :
  forall (t : store) (a : list key) (c : list (pkey * schema)) (tp : list (pkey * topo))
           (v : vtree) (own : list (key * utree)) (vp : list key) (z : Z) 
           (r : list key) (sub : list (key * utree)),
         wfs (SNode false c) tp true = true ->
         view t a (SNode false c) tp = Ok v ->
         uwf (UD own) = true ->
         conf (SNode false c) v (UD own) ->
         uget own vp = Some (UV z) ->
         vget v vp = Some (VRef r) ->
         r <> [] ->
         (forall (vp' : list key) (z' : Z) (r' : list key),
          vp' <> vp ->
          uget own vp' = Some (UV z') -> vget v vp' = Some (VRef r') -> pcomparable r' r = false) ->
         invert_nm a own tp = Ok sub -> uget sub r = Some (UV z).
Proof. exact @own_value_placed. Qed.
Print Assumptions C15_own_value_placed.

(* read/write symmetry for the multi_updates=False walk *)
Theorem C15_invert_nm_single :
  forall (t : store) (a : list key) (c : list (pkey * schema)) (tp : list (pkey * topo))
           (v : vtree) (vp r : list key) (z : Z),
         wfs (SNode false c) tp true = true ->
         svar_path (SNode false c) vp = true ->
         view t a (SNode false c) tp = Ok v ->
         vget v vp = Some (VRef r) ->
         invert_nm a (usingle_top vp (UV z)) tp = Ok (usingle_top r (UV z)).
Proof. exact @invert_nm_single. Qed.
Print Assumptions C15_invert_nm_single.

(* deep_merge: the later dict wins at every leaf it has *)
Theorem C15_deep_merge_u_later_wins :
  forall (a b : list (key * utree)) (p : list key) (z : Z),
         uwf (UD b) = true -> uget b p = Some (UV z) -> uget (deep_merge_u a b) p = Some (UV z).
Proof. exact @deep_merge_u_later_wins. Qed.
Print Assumptions C15_deep_merge_u_later_wins.

(* deep_merge: what the later dict does not touch is kept *)
Theorem C15_deep_merge_u_keeps :
  forall (a b : list (key * utree)) (p : list key),
         uwf (UD b) = true -> uget_disjoint p b = true -> uget (deep_merge_u a b) p = uget a p.
Proof. exact @deep_merge_u_keeps. Qed.
Print Assumptions C15_deep_merge_u_keeps.


Definition ex_sch := SNode false [(PK 1%N, SVar {| dd := Some 5%Z; dv := None; du := None; ds := None |});
                                  (PK 2%N, SNode false [(PK 3%N, SVar {| dd := Some 7%Z; dv := None; du := None; ds := None |})])].
Example ex_build : exists s', apply_config None ex_sch = Ok s' /\ plain_schema ex_sch = true /\
  exists r, set_value 5 [] [] (Some s') (Nd [(2%N, Nd [(3%N, Lf 9%Z)])]) = Ok (Some r) /\
  option_map l_val (leaf_at (apply_defaults r) [1%N]) = Some (Some 5%Z) /\
  option_map l_val (leaf_at (apply_defaults r) [2%N; 3%N]) = Some (Some 9%Z).
Proof. eexists. split; [reflexivity|]. split; [reflexivity|]. eexists. split; [reflexivity|]. split; reflexivity. Qed.

(* two processes (plain ports and a glob port) and an explicit state: placed, placed through the glob, overridden *)
Check CompStateEx.initial_state_three_behaviours.
Check CompStateEx.later_process_wins.

