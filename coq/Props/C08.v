(* C08 — Updates are combined with the current value by the declared updater.
   Only statements closed by `exact`, their assumptions, and non-vacuity examples.
   Model: Model/Updaters.v; proofs: Proofs/Updaters_proofs.v.
   The clause "the update object handed in is not modified" is about object identity and is
   decided by the implementation-side oracle of the check (see DESIGN.md), not by a theorem. *)
From Coq Require Import List NArith ZArith Bool.
From Viv Require Import Base.Assoc Base.Tree Model.Paths Model.Updaters Proofs.Updaters_proofs.
Import ListNotations.
Open Scope Z_scope.

(* After a successful update of any shape (nested dicts, _multi_update at any level,
   per-update _updater/_value), every variable keeps its declaration and holds the fold of
   exactly the leaf-level updates addressed to it, in application order. *)
Theorem C08_apply_update_char : forall s u s', swf s -> upd_wf u -> apply_update s u = Ok s' ->
  forall p d v, snode_at s p = Some (SLeaf d v) ->
    exists v', snode_at s' p = Some (SLeaf d v') /\ leaf_fold d v (updates_at u p) = Ok v'.
Proof. exact apply_update_char. Qed.
Print Assumptions C08_apply_update_char.

(* variables not mentioned are untouched; no node appears or disappears *)
Theorem C08_frame : forall s u s' p, swf s -> upd_wf u -> apply_update s u = Ok s' ->
  updates_at u p = [] -> value_at s' p = value_at s p.
Proof. exact apply_update_frame. Qed.
Print Assumptions C08_frame.

Theorem C08_shape : forall s u s' p, swf s -> upd_wf u -> apply_update s u = Ok s' ->
  (snode_at s p = None <-> snode_at s' p = None).
Proof. exact apply_update_shape. Qed.
Print Assumptions C08_shape.

(* several updates to one variable in one batch are applied one after the other *)
Theorem C08_multi_is_batch : forall s l, apply_update s (UMulti l) = apply_batch s l.
Proof. exact multi_is_batch. Qed.
Print Assumptions C08_multi_is_batch.

Theorem C08_batch_is_fold : forall us s s', swf s -> Forall upd_wf us -> apply_batch s us = Ok s' ->
  forall p d v, snode_at s p = Some (SLeaf d v) ->
    exists v', snode_at s' p = Some (SLeaf d v') /\
               leaf_fold d v (concat (map (fun u => updates_at u p) us)) = Ok v'.
Proof. exact batch_is_fold. Qed.
Print Assumptions C08_batch_is_fold.

(* one update to one variable: f(v, u) with the declared updater, or the one named in the
   update (with the variable's default when the update carries no _value) *)
Theorem C08_leaf_declared : forall d v x v', d_updater d <> DictValue ->
  apply_leaf d v (UVal x) = Ok v' -> rbind (apply_updater (d_updater d) v x) (to_units (d_units d)) = Ok v'.
Proof. exact leaf_declared. Qed.
Print Assumptions C08_leaf_declared.

Theorem C08_leaf_override : forall d v f x,
  apply_leaf d v (UWith (Some f) (Some x)) = rbind (apply_updater f v x) (to_units (d_units d)).
Proof. exact leaf_override. Qed.
Print Assumptions C08_leaf_override.

Theorem C08_leaf_override_default : forall d v f,
  apply_leaf d v (UWith (Some f) None) = rbind (apply_updater f v (d_default d)) (to_units (d_units d)).
Proof. exact leaf_override_default. Qed.
Print Assumptions C08_leaf_override_default.

(* laws of the registered updaters *)
Theorem C08_accumulate_int : forall a b, apply_updater Accumulate (UZ a) (UZ b) = Ok (UZ (a + b)).
Proof. exact accumulate_int. Qed.
Print Assumptions C08_accumulate_int.

Theorem C08_accumulate_list : forall a b, apply_updater Accumulate (UList a) (UList b) = Ok (UList (a ++ b)).
Proof. exact accumulate_list. Qed.
Print Assumptions C08_accumulate_list.

Theorem C08_accumulate_array : forall a b r, apply_updater Accumulate (UArr a) (UArr b) = Ok (UArr r) ->
  length r = length a /\ length a = length b /\ forall i, (i < length a)%nat -> nth i r 0 = nth i a 0 + nth i b 0.
Proof. exact accumulate_array. Qed.
Print Assumptions C08_accumulate_array.

Theorem C08_set : forall v u, apply_updater Set_ v u = Ok u.
Proof. exact set_law. Qed.
Print Assumptions C08_set.

Theorem C08_null : forall v u, apply_updater Null v u = Ok v.
Proof. exact null_law. Qed.
Print Assumptions C08_null.

Theorem C08_nonneg_int : forall a b, apply_updater NonnegAccumulate (UZ a) (UZ b) = Ok (UZ (Z.max 0 (a + b))).
Proof. exact nonneg_int. Qed.
Print Assumptions C08_nonneg_int.

Theorem C08_nonneg_array : forall a b r, apply_updater NonnegAccumulate (UArr a) (UArr b) = Ok (UArr r) ->
  length r = length a /\ forall i, (i < length a)%nat -> nth i r 0 = Z.max 0 (nth i a 0 + nth i b 0).
Proof. exact nonneg_array. Qed.
Print Assumptions C08_nonneg_array.

Theorem C08_merge : forall c n k, NoDup (akeys n) ->
  alookup k (merge_dict c n) =
  match alookup k n with
  | None => alookup k c
  | Some (Nd nc) => match alookup k c with
                    | Some (Nd vc) => Some (deep_merge (Nd vc) (Nd nc))
                    | _ => Some (Nd nc)
                    end
  | Some (Lf x) => Some (Lf x)
  end.
Proof. exact merge_law. Qed.
Print Assumptions C08_merge.

Theorem C08_merge_keys : forall c n k, In k (akeys (merge_dict c n)) <-> In k (akeys c) \/ In k (akeys n).
Proof. exact merge_keys. Qed.
Print Assumptions C08_merge_keys.

Theorem C08_merge_refuted_pinned : exists c n none k k',
  alookup k n = None /\ alookup k c <> None /\ alookup k (merge_dict_pinned c n none) = Some none /\
  alookup k' n <> None /\ alookup k' (merge_dict_pinned c n none) = None.
Proof. exact merge_refuted_pinned. Qed.
Print Assumptions C08_merge_refuted_pinned.

Theorem C08_dict_value_add : forall (c l : list (key * tree Z)) k,
  alookup k (fold_left (fun a kv => aset (fst kv) (snd kv) a) l c) =
  match alookup k (rev l) with Some s => Some s | None => alookup k c end.
Proof. exact (@dict_value_add (tree Z)). Qed.
Print Assumptions C08_dict_value_add.

Theorem C08_dict_value_delete : forall c k c', NoDup (akeys c) -> dv_step (Ok c) (DDel [k]) = Ok c' ->
  alookup k c <> None /\ alookup k c' = None /\ forall k', k' <> k -> alookup k' c' = alookup k' c.
Proof. exact dict_value_delete. Qed.
Print Assumptions C08_dict_value_delete.

Theorem C08_dict_value_unknown_key : forall c k v, alookup k c = None -> dv_step (Ok c) (DKey k v) = Err EOther.
Proof. exact dict_value_unknown_key. Qed.
Print Assumptions C08_dict_value_unknown_key.

Theorem C08_dict_value_key : forall c k v inner, alookup k c = Some (Nd inner) ->
  dv_step (Ok c) (DKey k v) = Ok (aset k (Nd (fold_left (fun a kv => aset (fst kv) (snd kv) a) v inner)) c).
Proof. exact dict_value_key. Qed.
Print Assumptions C08_dict_value_key.

(* variables with units always hold a quantity in their declared units after an update;
   accumulating a compatible quantity adds the base magnitudes *)
Theorem C08_units_normalised : forall d v u v' du,
  d_units d = Some du -> apply_leaf d v u = Ok v' -> exists m, v' = UQty m du.
Proof. exact units_normalised. Qed.
Print Assumptions C08_units_normalised.

Theorem C08_units_accumulate : forall d mv mu su v' du, d_units d = Some du -> d_updater d = Accumulate ->
  apply_leaf d (UQty mv du) (UVal (UQty mu su)) = Ok v' -> base v' = mv * du + mu * su.
Proof. exact units_accumulate. Qed.
Print Assumptions C08_units_accumulate.

(* ---- non-vacuity ---- *)
Definition dA := {| d_updater := Accumulate; d_units := None; d_default := UZ 0 |}.
Definition dQ := {| d_updater := Accumulate; d_units := Some 1; d_default := UQty 0 1 |}.
Definition ex_store : snode :=
  SBranch [(1%N, SBranch [(2%N, SLeaf dA (UZ 5)); (3%N, SLeaf dQ (UQty 5 1))]); (4%N, SLeaf dA (UZ 1))].
Definition ex_upd : upd :=
  UBranch [(1%N, UBranch [(2%N, UMulti [UVal (UZ 2); UWith (Some Set_) (Some (UZ 9)); UVal (UZ 1)]);
                          (3%N, UVal (UQty 2 1000))])].

Example ex_apply : apply_update ex_store ex_upd =
  Ok (SBranch [(1%N, SBranch [(2%N, SLeaf dA (UZ 10)); (3%N, SLeaf dQ (UQty 2005 1))]); (4%N, SLeaf dA (UZ 1))]).
Proof. reflexivity. Qed.

Example ex_premises : swf ex_store /\ upd_wf ex_upd /\ updates_at ex_upd [4%N] = []
                      /\ updates_at ex_upd [1%N; 2%N] = [UVal (UZ 2); UWith (Some Set_) (Some (UZ 9)); UVal (UZ 1)].
Proof.
  repeat split;
  repeat (constructor; cbn; try (intros H; repeat destruct H as [H|H]; try discriminate; try contradiction)).
Qed.
