(* C02 - The timestep handed to a process equals the simulated interval it covers.
   Model: Model/Sched.v; proofs: Proofs/Sched_clock_proofs.v, Proofs/Sched_once_proofs.v, witness on the pinned variant in Proofs/SchedC_witness.v.
   This file contains only statements closed by `exact`, their assumptions and non-vacuity examples.
   Generated once by tools/genprops.py from the proved lemmas (statements restated verbatim). *)
From Coq Require Import List NArith ZArith Bool Lia Sorting.Sorted.
From Viv Require Import Model.Sched Model.SchedC Proofs.Sched_defs Proofs.Sched_clock_proofs Proofs.Sched_once_proofs Proofs.SchedC_witness Proofs.Sched_entry_proofs.
Import ListNotations.
Open Scope Z_scope.

(* every invocation of a pass is handed exactly the length of the interval it covers (the requested timestep, or the remainder when forced completion cuts it short), starts no later than the clock, and sees the committed state *)
Theorem C02_iter_invokes :
  forall (Sg U W : Type) (poll : W -> pid -> Sg -> Z * W)
           (cond : W -> pid -> Z -> Sg -> bool * W) (next : W -> pid -> Z -> Sg -> U * W)
           (commit : Sg -> list pid -> list (pid * U) -> Sg * list pid) (ee : option Z) 
           (endt : Z) (force : bool) (et : Z) (s s' : st Sg U W) (f' : bool) 
           (et' : Z) (ok : bool),
         iter Sg U W poll cond next commit vfixed ee endt force et s = (s', f', et', ok) ->
         exists new : list (event Sg),
           log Sg U W s' = new ++ log Sg U W s /\
           Forall
             (fun e : event Sg =>
              match e with
              | EInvoke _ _ start fin ts req now v =>
                  ts = fin - start /\
                  now = gt Sg U W s /\
                  v = sto Sg U W s /\
                  start <= now /\ fin <= endt /\ (ts = req \/ force = true /\ fin = endt /\ ts < req)
              | _ => True
              end) new.
Proof. exact @iter_invokes. Qed.
Print Assumptions C02_iter_invokes.

(* ... for a whole run_for call *)
Theorem C02_run_invoke_ts :
  forall (Sg U W : Type) (poll : W -> pid -> Sg -> Z * W)
           (cond : W -> pid -> Z -> Sg -> bool * W) (next : W -> pid -> Z -> Sg -> U * W)
           (commit : Sg -> list pid -> list (pid * U) -> Sg * list pid) (ee : option Z) 
           (fuel : nat) (endt : Z) (force : bool) (et : Z) (s s' : st Sg U W) 
           (ok : bool),
         log_inv_ok (log Sg U W s) ->
         run Sg U W poll cond next commit vfixed ee fuel endt force et s = (Some s', ok) ->
         log_inv_ok (log Sg U W s').
Proof. exact @run_invoke_ts. Qed.
Print Assumptions C02_run_invoke_ts.

(* ... for any sequence of calls *)
Theorem C02_run_calls_invoke_ts :
  forall (Sg U W : Type) (poll : W -> pid -> Sg -> Z * W)
           (cond : W -> pid -> Z -> Sg -> bool * W) (next : W -> pid -> Z -> Sg -> U * W)
           (commit : Sg -> list pid -> list (pid * U) -> Sg * list pid) (ee : option Z) 
           (fuel : nat) (calls : list (Z * bool)) (s s' : st Sg U W) (ok : bool),
         log_inv_ok (log Sg U W s) ->
         run_calls Sg U W poll cond next commit vfixed ee fuel calls s = (Some s', ok) ->
         log_inv_ok (log Sg U W s').
Proof. exact @run_calls_invoke_ts. Qed.
Print Assumptions C02_run_calls_invoke_ts.

(* idle processes never get ahead of the clock (intervals are contiguous: the next interval starts where the front stands) *)
Theorem C02_iter_idle_behind :
  forall (Sg U W : Type) (poll : W -> pid -> Sg -> Z * W)
           (cond : W -> pid -> Z -> Sg -> bool * W) (next : W -> pid -> Z -> Sg -> U * W)
           (commit : Sg -> list pid -> list (pid * U) -> Sg * list pid) (ee : option Z) 
           (endt : Z) (force : bool) (et : Z) (s s' : st Sg U W) (f' : bool) 
           (et' : Z),
         Inv Sg U W s ->
         idle_behind s ->
         gt Sg U W s <= endt ->
         iter Sg U W poll cond next commit vfixed ee endt force et s = (s', f', et', true) ->
         idle_behind s'.
Proof. exact @iter_idle_behind. Qed.
Print Assumptions C02_iter_idle_behind.

(* after update() every process has been simulated exactly up to the global time, with nothing pending: _check_complete cannot fire *)
Theorem C02_update_completes :
  forall (Sg U W : Type) (poll : W -> pid -> Sg -> Z * W)
           (cond : W -> pid -> Z -> Sg -> bool * W) (next : W -> pid -> Z -> Sg -> U * W)
           (commit : Sg -> list pid -> list (pid * U) -> Sg * list pid),
         (forall (s : Sg) (ps : list pid) (us : list (pid * U)),
          NoDup ps -> NoDup (snd (commit s ps us))) ->
         forall (ee : option Z) (fuel : nat) (endt et : Z) (s s' : st Sg U W),
         Inv Sg U W s ->
         idle_behind s ->
         fronts_le endt s ->
         gt Sg U W s <= endt ->
         run Sg U W poll cond next commit vfixed ee fuel endt true et s = (Some s', true) ->
         complete Sg U W s' = true.
Proof. exact @update_completes. Qed.
Print Assumptions C02_update_completes.

(* under forced completion with positive timesteps no process ever lags: the ok premise is automatic *)
Theorem C02_ok_forced :
  forall (Sg U W : Type) (poll : W -> pid -> Sg -> Z * W)
           (cond : W -> pid -> Z -> Sg -> bool * W) (next : W -> pid -> Z -> Sg -> U * W)
           (commit : Sg -> list pid -> list (pid * U) -> Sg * list pid),
         (forall (s : Sg) (ps : list pid) (us : list (pid * U)),
          NoDup ps -> NoDup (snd (commit s ps us))) ->
         forall (ee : option Z) (endt et : Z) (s s' : st Sg U W) (f' : bool) (et' : Z) (ok : bool),
         (forall (w : W) (p : pid) (x : Sg), 1 <= fst (poll w p x)) ->
         Inv Sg U W s ->
         idle_tight s ->
         fronts_le endt s ->
         gt Sg U W s <= endt ->
         iter Sg U W poll cond next commit vfixed ee endt true et s = (s', f', et', ok) ->
         ok = true /\ idle_tight s' /\ fronts_le endt s' /\ Inv Sg U W s'.
Proof. exact @ok_forced. Qed.
Print Assumptions C02_ok_forced.

(* ... for a whole update() call *)
Theorem C02_run_forced_ok :
  forall (Sg U W : Type) (poll : W -> pid -> Sg -> Z * W)
           (cond : W -> pid -> Z -> Sg -> bool * W) (next : W -> pid -> Z -> Sg -> U * W)
           (commit : Sg -> list pid -> list (pid * U) -> Sg * list pid),
         (forall (s : Sg) (ps : list pid) (us : list (pid * U)),
          NoDup ps -> NoDup (snd (commit s ps us))) ->
         forall (ee : option Z) (fuel : nat) (endt et : Z) (s : st Sg U W) 
           (r : option (st Sg U W)) (ok : bool),
         (forall (w : W) (p : pid) (x : Sg), 1 <= fst (poll w p x)) ->
         Inv Sg U W s ->
         idle_tight s ->
         fronts_le endt s ->
         gt Sg U W s <= endt ->
         run Sg U W poll cond next commit vfixed ee fuel endt true et s = (r, ok) ->
         ok = true /\
         (forall s' : st Sg U W,
          r = Some s' ->
          complete Sg U W s' = true /\ idle_tight s' /\ Inv Sg U W s' /\ gt Sg U W s' = endt).
Proof. exact @run_forced_ok. Qed.
Print Assumptions C02_run_forced_ok.

(* ... for any sequence of update() calls *)
Theorem C02_update_only_ok :
  forall (Sg U W : Type) (poll : W -> pid -> Sg -> Z * W)
           (cond : W -> pid -> Z -> Sg -> bool * W) (next : W -> pid -> Z -> Sg -> U * W)
           (commit : Sg -> list pid -> list (pid * U) -> Sg * list pid),
         (forall (s : Sg) (ps : list pid) (us : list (pid * U)),
          NoDup ps -> NoDup (snd (commit s ps us))) ->
         forall (ee : option Z) (fuel : nat) (calls : list (Z * bool)) (s : st Sg U W)
           (r : option (st Sg U W)) (ok : bool),
         (forall (w : W) (p : pid) (x : Sg), 1 <= fst (poll w p x)) ->
         Forall (fun c : Z * bool => 0 <= fst c /\ snd c = true) calls ->
         Inv Sg U W s ->
         idle_tight s ->
         fronts_le (gt Sg U W s) s ->
         run_calls Sg U W poll cond next commit vfixed ee fuel calls s = (r, ok) ->
         ok = true /\
         (forall s' : st Sg U W, r = Some s' -> calls <> [] -> complete Sg U W s' = true).
Proof. exact @update_only_ok. Qed.
Print Assumptions C02_update_only_ok.

(* the pinned scheduler handed the full timestep 3 for the truncated interval [9, 10] *)
Theorem C02_ts_refuted_pinned :
  exists s' : st cst cupd cw,
           run1 vpinned None [(0%N, always 48)] [0%N] [(160, true)] = (Some s', true) /\
           In (EInvoke cst 0%N 144 160 48 48 144 {| shared := 3; priv := [(0%N, 144)] |})
             (log cst cupd cw s').
Proof. exact @ts_refuted_pinned. Qed.
Print Assumptions C02_ts_refuted_pinned.

(* THE INTERVALS START WHEN THE PROCESS ENTERED THE SIMULATION: a registered process without a front entry - one created by the previous batch - is, if invoked in this pass, invoked for an interval that starts at the current global time (for every variant, every user code and every batch application) *)
Theorem C02_new_process_starts_now :
  forall (Sg U W : Type) (poll : W -> pid -> Sg -> Z * W)
           (cond : W -> pid -> Z -> Sg -> bool * W) (next : W -> pid -> Z -> Sg -> U * W)
           (commit : Sg -> list pid -> list (pid * U) -> Sg * list pid) (vr : variant)
           (ee : option Z) (endt : Z) (force : bool) (et : Z) (s s' : st Sg U W) 
           (f' : bool) (et' : Z) (ok : bool) (p : pid) (start fin ts req now : Z) 
           (view : Sg),
         NoDup (procs Sg U W s) ->
         iter Sg U W poll cond next commit vr ee endt force et s = (s', f', et', ok) ->
         mem p (procs Sg U W s) = true ->
         flook U (frt Sg U W s) p = None ->
         In (EInvoke Sg p start fin ts req now view) (log Sg U W s') ->
         ~ In (EInvoke Sg p start fin ts req now view) (log Sg U W s) ->
         start = gt Sg U W s /\ now = gt Sg U W s.
Proof. exact @new_process_starts_now. Qed.
Print Assumptions C02_new_process_starts_now.

(* ... and it is polled in that very pass (afterwards it has a front entry) *)
Theorem C02_new_process_polled :
  forall (Sg U W : Type) (poll : W -> pid -> Sg -> Z * W)
           (cond : W -> pid -> Z -> Sg -> bool * W) (next : W -> pid -> Z -> Sg -> U * W)
           (commit : Sg -> list pid -> list (pid * U) -> Sg * list pid) (vr : variant)
           (ee : option Z) (endt : Z) (force : bool) (et : Z) (s s' : st Sg U W) 
           (f' : bool) (et' : Z) (ok : bool) (p : pid),
         iter Sg U W poll cond next commit vr ee endt force et s = (s', f', et', ok) ->
         mem p (procs Sg U W s) = true ->
         flook U (frt Sg U W s) p = None -> exists e : fe U, flook U (frt Sg U W s') p = Some e.
Proof. exact @new_process_polled. Qed.
Print Assumptions C02_new_process_polled.

(* a process that is not registered has no front entry after a pass - whatever it had in flight - so one created again under the same path starts afresh *)
Theorem C02_deleted_process_front_dropped :
  forall (Sg U W : Type) (poll : W -> pid -> Sg -> Z * W)
           (cond : W -> pid -> Z -> Sg -> bool * W) (next : W -> pid -> Z -> Sg -> U * W)
           (commit : Sg -> list pid -> list (pid * U) -> Sg * list pid) (vr : variant)
           (ee : option Z) (endt : Z) (force : bool) (et : Z) (s s' : st Sg U W) 
           (f' : bool) (et' : Z) (ok : bool) (p : pid),
         iter Sg U W poll cond next commit vr ee endt force et s = (s', f', et', ok) ->
         mem p (procs Sg U W s) = false -> flook U (frt Sg U W s') p = None.
Proof. exact @deleted_process_front_dropped. Qed.
Print Assumptions C02_deleted_process_front_dropped.

(* after a pass every front entry belongs to a process that was registered when the pass began *)
Theorem C02_iter_front_owners :
  forall (Sg U W : Type) (poll : W -> pid -> Sg -> Z * W)
           (cond : W -> pid -> Z -> Sg -> bool * W) (next : W -> pid -> Z -> Sg -> U * W)
           (commit : Sg -> list pid -> list (pid * U) -> Sg * list pid) (vr : variant)
           (ee : option Z) (endt : Z) (force : bool) (et : Z) (s s' : st Sg U W) 
           (f' : bool) (et' : Z) (ok : bool) (p : pid) (e : fe U),
         iter Sg U W poll cond next commit vr ee endt force et s = (s', f', et', ok) ->
         flook U (frt Sg U W s') p = Some e -> mem p (procs Sg U W s) = true.
Proof. exact @iter_front_owners. Qed.
Print Assumptions C02_iter_front_owners.


(* ---- non-vacuity: a reachable state of a concrete composite meets the hypotheses ---- *)
Definition ex_specs : list (pid * pspec) :=
  [(0%N, {| p_ts := TsConst 20; p_cond := CTrue |}); (1%N, {| p_ts := TsState [16; 8]; p_cond := CState [true; false] |})].
Definition ex_run := run_calls cst cupd cw (cpoll ex_specs) (ccond ex_specs) cnext ccommit vfixed None 400
                               [(48, false); (40, true)] (start_state 0 [0%N; 1%N]).
Example ex_run_ok : exists s', ex_run = (Some s', true) /\ gt _ _ _ s' = 88 /\ complete _ _ _ s' = true
                               /\ (length (log _ _ _ s') > 10)%nat.
Proof. eexists. split; [vm_compute; reflexivity|]. repeat split; vm_compute; try reflexivity. lia. Qed.
Example ex_commit_nodup : forall s ps us, NoDup ps -> NoDup (snd (ccommit s ps us)).
Proof. intros s ps us H. exact H. Qed.

