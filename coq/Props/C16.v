(* C16 - Composites embed, merge and load the same way through every entry point.
   Model: Model/Composite.v (Composer.generate / Process.generate embedding with assoc_in; Composite.merge);
   proofs: Proofs/Composite_proofs.v.  `wf` says a component is a Python dict.  The clauses about object identity
   ("leaves the merged-in composites unchanged, then and later") and about the three engine entry points are decided by
   the snapshot / trajectory oracles of the check (see DESIGN.md); schema overrides are not modelled.
   Schema overrides: Model/Override.v (_override_schemas, merge_overrides, get_schema), Proofs/Override_proofs.v.
   This file contains only statements closed by `exact`, their assumptions and non-vacuity examples.
   Generated once by tools/genprops.py from the proved lemmas (statements restated verbatim). *)
From Coq Require Import List NArith ZArith Bool Lia.
From Viv Require Import Base.Assoc Base.Tree Model.Paths Model.Composite Model.Override Proofs.Paths_proofs Proofs.Composite_proofs Proofs.Override_proofs.
Import ListNotations.

(* a composite generated at a path holds all its processes, steps, flow and topology under that path, unchanged *)
Theorem C16_embed_components :
  forall (p : list key) (c e : comp),
         embed p c = Ok e ->
         get_in (c_processes e) p = Ok (Some (c_processes c)) /\
         get_in (c_topology e) p = Ok (Some (c_topology c)) /\
         get_in (c_steps e) p = Ok (Some (c_steps c)) /\ get_in (c_flow e) p = Ok (Some (c_flow c)).
Proof. exact @embed_components. Qed.
Print Assumptions C16_embed_components.

(* and nothing anywhere else *)
Theorem C16_embed1_only :
  forall (p : list key) (t e : ptree) (q : list key),
         embed1 p t = Ok e -> diverge p q -> get_in e q = Ok None.
Proof. exact @embed1_only. Qed.
Print Assumptions C16_embed1_only.

(* embedding never fails *)
Theorem C16_embed1_total :
  forall (p : list key) (t : ptree), exists e : ptree, embed1 p t = Ok e.
Proof. exact @embed1_total. Qed.
Print Assumptions C16_embed1_total.

(* deep_merge, one level: keys of both; the merged-in value wins unless both are dicts, which are merged *)
Theorem C16_deep_merge_lookup :
  forall (A : Type) (dc mc : list (key * tree A)) (k : key),
         NoDup (akeys mc) ->
         alookup k (children (deep_merge (Nd dc) (Nd mc))) =
         match alookup k mc with
         | Some (Lf a) => Some (Lf a)
         | Some (Nd x) =>
             match alookup k dc with
             | Some (Nd y) => Some (deep_merge (Nd y) (Nd x))
             | _ => Some (Nd x)
             end
         | None => alookup k dc
         end.
Proof. exact @deep_merge_lookup. Qed.
Print Assumptions C16_deep_merge_lookup.

(* deep_merge, any depth: the merged-in dict wins on every leaf it defines *)
Theorem C16_deep_merge_later_wins :
  forall (A : Type) (d m : tree A) (q : list key) (a : A),
         wf m ->
         is_nd d = true ->
         is_nd m = true ->
         get_in m q = Ok (Some (Lf a)) -> get_in (deep_merge d m) q = Ok (Some (Lf a)).
Proof. exact @deep_merge_later_wins. Qed.
Print Assumptions C16_deep_merge_later_wins.

(* and leaves alone what it does not mention *)
Theorem C16_deep_merge_keeps :
  forall (A : Type) (d m : tree A) (q : list key) (r : option (tree A)),
         wf m ->
         is_nd d = true ->
         is_nd m = true ->
         get_in m q = Ok None -> get_in d q = Ok r -> get_in (deep_merge d m) q = Ok r.
Proof. exact @deep_merge_keeps. Qed.
Print Assumptions C16_deep_merge_keeps.

(* the result is again a dict with unique keys *)
Theorem C16_deep_merge_wf :
  forall (A : Type) (d m : tree A),
         wf d -> wf m -> is_nd d = true -> is_nd m = true -> wf (deep_merge d m).
Proof. exact @deep_merge_wf. Qed.
Print Assumptions C16_deep_merge_wf.

(* Composite.merge: a leaf of the loose processes/topology/steps/flow/state ends up under the path, whatever was there (later entries win) *)
Theorem C16_merge1_loose_wins_partial :
  forall (self other loose r : ptree) (path q : list key) (a : N),
         wf loose ->
         wf other ->
         is_nd self = true ->
         is_nd other = true ->
         is_nd loose = true ->
         merge1 self other loose path = Ok r ->
         get_in loose q = Ok (Some (Lf a)) -> q <> [] -> get_in r (path ++ q) = Ok (Some (Lf a)).
Proof. exact @merge1_loose_wins_partial. Qed.
Print Assumptions C16_merge1_loose_wins_partial.

(* a leaf of the merged-in composite ends up under the path unless the loose arguments redefine it *)
Theorem C16_merge1_other_kept :
  forall (self other loose r : ptree) (path q : list key) (a : N),
         wf loose ->
         wf other ->
         is_nd self = true ->
         is_nd other = true ->
         is_nd loose = true ->
         merge1 self other loose path = Ok r ->
         get_in other q = Ok (Some (Lf a)) ->
         get_in loose q = Ok None -> q <> [] -> get_in r (path ++ q) = Ok (Some (Lf a)).
Proof. exact @merge1_other_kept. Qed.
Print Assumptions C16_merge1_other_kept.

(* what the receiver held away from the path is untouched *)
Theorem C16_merge1_self_kept :
  forall (self other loose r : ptree) (path q : list key) (x : option ptree),
         wf loose ->
         wf other ->
         is_nd self = true ->
         is_nd other = true ->
         is_nd loose = true ->
         merge1 self other loose path = Ok r ->
         diverge path q -> get_in self q = Ok x -> get_in r q = Ok x.
Proof. exact @merge1_self_kept. Qed.
Print Assumptions C16_merge1_self_kept.

(* merging never fails *)
Theorem C16_merge1_total :
  forall (self other loose : ptree) (path : list key),
         exists r : ptree, merge1 self other loose path = Ok r.
Proof. exact @merge1_total. Qed.
Print Assumptions C16_merge1_total.

(* schema overrides: every override reaches the process it names by its path in the processes dict *)
Theorem C16_override_reaches_named :
  forall (ov : stree) (procs : ptree) (l : list (N * stree)) (p : list key) 
           (pid : N) (o : stree),
         wf ov ->
         override_schemas ov procs = Ok l ->
         p <> [] -> leaf_at procs p = Some pid -> sub_at ov p = Some o -> In (pid, o) l.
Proof. exact @override_reaches_named. Qed.
Print Assumptions C16_override_reaches_named.

(* and every override handed to a process comes from a path naming that process *)
Theorem C16_override_only_named :
  forall (ov : stree) (procs : ptree) (l : list (N * stree)) (pid : N) (o : stree),
         wf ov ->
         override_schemas ov procs = Ok l ->
         In (pid, o) l ->
         exists p : list key, p <> [] /\ leaf_at procs p = Some pid /\ sub_at ov p = Some o.
Proof. exact @override_only_named. Qed.
Print Assumptions C16_override_only_named.

(* a process no override names keeps the schema its ports_schema() declares *)
Theorem C16_unnamed_untouched :
  forall (ports : N -> stree) (ov : stree) (procs : ptree) (l : list (N * stree)) (pid : N),
         wf ov ->
         override_schemas ov procs = Ok l ->
         ~ names ov procs pid -> is_nd (ports pid) = true -> get_schema ports l pid = ports pid.
Proof. exact @unnamed_untouched. Qed.
Print Assumptions C16_unnamed_untouched.

(* a process named once gets exactly that override merged over its declared schema *)
Theorem C16_named_schema :
  forall (ports : N -> stree) (ov : stree) (procs : ptree) (l : list (N * stree)) 
           (pid : N) (p : list key) (o : stree),
         wf ov ->
         override_schemas ov procs = Ok l ->
         p <> [] ->
         leaf_at procs p = Some pid ->
         sub_at ov p = Some o ->
         (forall q : list key, leaf_at procs q = Some pid -> q = p) ->
         get_schema ports l pid = deep_merge (ports pid) (deep_merge (Nd []) o).
Proof. exact @named_schema. Qed.
Print Assumptions C16_named_schema.

(* the attribute values the override gives win (any depth: the port and variable it names) *)
Theorem C16_override_value_wins :
  forall (ports : N -> stree) (ov : stree) (procs : ptree) (l : list (N * stree)) 
           (pid : N) (p : list key) (o : stree) (q : list key) (a : Z),
         wf ov ->
         override_schemas ov procs = Ok l ->
         p <> [] ->
         leaf_at procs p = Some pid ->
         sub_at ov p = Some o ->
         (forall q0 : list key, leaf_at procs q0 = Some pid -> q0 = p) ->
         is_nd (ports pid) = true ->
         is_nd o = true ->
         get_in o q = Ok (Some (Lf a)) -> get_in (get_schema ports l pid) q = Ok (Some (Lf a)).
Proof. exact @override_value_wins. Qed.
Print Assumptions C16_override_value_wins.

(* attributes, variables and ports the override does not mention keep the declared value *)
Theorem C16_unmentioned_attribute_kept :
  forall (ports : N -> stree) (ov : stree) (procs : ptree) (l : list (N * stree)) 
           (pid : N) (p : list key) (o : stree) (q : list key) (r : option stree),
         wf ov ->
         override_schemas ov procs = Ok l ->
         p <> [] ->
         leaf_at procs p = Some pid ->
         sub_at ov p = Some o ->
         (forall q0 : list key, leaf_at procs q0 = Some pid -> q0 = p) ->
         is_nd (ports pid) = true ->
         is_nd o = true ->
         get_in o q = Ok None ->
         get_in (ports pid) q = Ok r -> get_in (get_schema ports l pid) q = Ok r.
Proof. exact @unmentioned_attribute_kept. Qed.
Print Assumptions C16_unmentioned_attribute_kept.

(* an override naming a key the processes dict does not have is refused *)
Theorem C16_unknown_key_refused :
  forall (oc : list (key * stree)) (procs : ptree) (k : key) (o : stree),
         In (k, o) oc ->
         alookup k (children procs) = None ->
         NoDup (akeys oc) -> exists e : err, override_schemas (Nd oc) procs = Err e.
Proof. exact @unknown_key_refused. Qed.
Print Assumptions C16_unknown_key_refused.

(* merging overrides into a schema object the processes share (no copy in get_schema) hands the override to a process nobody named *)
Theorem C16_shared_schema_refuted :
  exists l : list (N * stree),
           override_schemas ov_ex procs_ex = Ok l /\
           get_schema (fun _ : N => ports_ex) l 20 = ports_ex /\
           get_schema_shared ports_ex l 20 <> ports_ex /\
           get_in (get_schema (fun _ : N => ports_ex) l 10) [7%N; 8%N] = Ok (Some (Lf 99%Z)).
Proof. exact @shared_schema_refuted. Qed.
Print Assumptions C16_shared_schema_refuted.


Definition ex_self : dtree := Nd [(1%N, Nd [(2%N, Lf 7%N)])].
Definition ex_other : dtree := Nd [(3%N, Lf 8%N); (4%N, Nd [(5%N, Lf 9%N)])].
Definition ex_loose : dtree := Nd [(4%N, Nd [(5%N, Lf 10%N)])].
Example ex_merge : merge1 ex_self ex_other ex_loose [1%N] =
  Ok (Nd [(1%N, Nd [(2%N, Lf 7%N); (3%N, Lf 8%N); (4%N, Nd [(5%N, Lf 10%N)])])]).
Proof. reflexivity. Qed.
Example ex_hyps : wf ex_loose /\ wf ex_other /\ get_in ex_loose [4%N; 5%N] = Ok (Some (Lf 10%N)) /\ get_in ex_loose [3%N] = Ok None.
Proof.
  repeat split; try reflexivity;
  repeat (constructor; cbn; try (intros H; repeat destruct H as [H|H]; try discriminate; try contradiction)).
Qed.

