(* C06 - A port reads and writes the same store node, for every topology.
   Model: Model/Wire.v (view = Store.schema_topology, invert = topology.inverse_topology with
   deep_merge_multi_update; walk = Store.get_path on the live tree); proofs: Proofs/Wire_proofs.v, Proofs/Paths_proofs.v.
   tp_ok says the topology is a Python dict (unique keys at every level) without "*" entries; wf_pair is the
   well-formed domain of DESIGN.md (every declared port mapped; a dict carries _path or lists every sub-key).
   That no other node changes follows from the update being a singleton (C08_frame).  Glob ports are covered by
   the correspondence check only.
   This file contains only statements closed by `exact`, their assumptions and non-vacuity examples.
   Generated once by tools/genprops.py from the proved lemmas (statements restated verbatim). *)
From Coq Require Import List NArith ZArith Bool Lia.
From Viv Require Import Base.Assoc Base.Tree Model.Paths Model.Wire Proofs.Paths_proofs Proofs.Wire_proofs Proofs.WireStar_proofs.
Import ListNotations.

(* read/write symmetry: if the read view maps the declared variable vp to the node r, inverse_topology turns an update of vp into an update of exactly r, for plain paths, ".." anywhere, _path dicts with listed and unlisted sub-keys, _path-less dicts, any nesting, the process at any depth *)
Theorem C06_rw_symmetry_partial :
  forall (t : store) (a : list key) (c : list (pkey * schema)) (tp : list (pkey * topo))
           (v : vtree) (vp r : list key) (z : Z),
         tp_ok tp = true ->
         wf_pair (SNode false c) tp true = true ->
         var_path (SNode false c) vp = true ->
         view t a (SNode false c) tp = Ok v ->
         vget v vp = Some (VRef r) ->
         invert true a (usingle_top vp (UV z)) tp = Ok (usingle_top r (UV z)).
Proof. exact @rw_symmetry_partial. Qed.
Print Assumptions C06_rw_symmetry_partial.

(* the same for the pinned code when a single variable is updated *)
Theorem C06_rw_symmetry_pinned_single_partial :
  forall (t : store) (a : list key) (c : list (pkey * schema)) (tp : list (pkey * topo))
           (v : vtree) (vp r : list key) (z : Z),
         tp_ok tp = true ->
         wf_pair (SNode false c) tp true = true ->
         var_path (SNode false c) vp = true ->
         view t a (SNode false c) tp = Ok v ->
         vget v vp = Some (VRef r) ->
         invert false a (usingle_top vp (UV z)) tp = Ok (usingle_top r (UV z)).
Proof. exact @rw_symmetry_pinned_single_partial. Qed.
Print Assumptions C06_rw_symmetry_pinned_single_partial.

(* two ports wired to one store: both updates of a shared variable are kept, in port order *)
Theorem C06_multi_port_scalar :
  forall (a : list key) (p : list seg) (k1 k2 x : key) (z1 z2 : Z) (inner : list key),
         k1 <> k2 ->
         abs_keys (normalize (dn a ++ p)) = Ok inner ->
         invert true a [(k1, UD [(x, UV z1)]); (k2, UD [(x, UV z2)])]
           [(PK k1, TPath p); (PK k2, TPath p)] = Ok (usingle_top (inner ++ [x]) (UM [UV z1; UV z2])).
Proof. exact @multi_port_scalar. Qed.
Print Assumptions C06_multi_port_scalar.

(* two scalar ports wired to one variable: both updates are kept (repaired code) *)
Theorem C06_multi_port_scalar_direct :
  forall (a : list key) (p : list seg) (k1 k2 : key) (z1 z2 : Z) (inner : list key),
         k1 <> k2 ->
         inner <> [] ->
         abs_keys (normalize (dn a ++ p)) = Ok inner ->
         invert true a [(k1, UV z1); (k2, UV z2)] [(PK k1, TPath p); (PK k2, TPath p)] =
         Ok (usingle_top inner (UM [UV z1; UV z2])).
Proof. exact @multi_port_scalar_direct. Qed.
Print Assumptions C06_multi_port_scalar_direct.

(* the pinned code kept only the last of them *)
Theorem C06_scalar_collision_pinned :
  forall (a : list key) (p : list seg) (k1 k2 : key) (z1 z2 : Z) (inner : list key),
         k1 <> k2 ->
         inner <> [] ->
         abs_keys (normalize (dn a ++ p)) = Ok inner ->
         invert false a [(k1, UV z1); (k2, UV z2)] [(PK k1, TPath p); (PK k2, TPath p)] =
         Ok (usingle_top inner (UV z2)).
Proof. exact @scalar_collision_pinned. Qed.
Print Assumptions C06_scalar_collision_pinned.

(* witness of the pinned defect *)
Theorem C06_scalar_collision_refuted_pinned_partial :
  exists (a : list key) (p : list seg) (k1 k2 : key) (z1 z2 : Z) (inner : list key),
           k1 <> k2 /\
           z1 <> z2 /\
           abs_keys (normalize (dn a ++ p)) = Ok inner /\
           invert false a [(k1, UV z1); (k2, UV z2)] [(PK k1, TPath p); (PK k2, TPath p)] =
           Ok (usingle_top inner (UV z2)) /\
           invert true a [(k1, UV z1); (k2, UV z2)] [(PK k1, TPath p); (PK k2, TPath p)] =
           Ok (usingle_top inner (UM [UV z1; UV z2])).
Proof. exact @scalar_collision_refuted_pinned_partial. Qed.
Print Assumptions C06_scalar_collision_refuted_pinned_partial.

(* why tp_ok is needed: a "topology" listing a port twice is not a dict *)
Theorem C06_rw_symmetry_counterexample_dup :
  exists
           (t : store) (a : list key) (c : list (pkey * schema)) (tp : list (pkey * topo)) 
         (v : vtree) (vp r : list key) (z : Z),
           wf_pair (SNode false c) tp true = true /\
           var_path (SNode false c) vp = true /\
           view t a (SNode false c) tp = Ok v /\
           vget v vp = Some (VRef r) /\
           invert true a (usingle_top vp (UV z)) tp = Ok [(5%N, UV z); (6%N, UV z)] /\
           invert true a (usingle_top vp (UV z)) tp <> Ok (usingle_top r (UV z)).
Proof. exact @rw_symmetry_counterexample_dup. Qed.
Print Assumptions C06_rw_symmetry_counterexample_dup.

(* absolute paths are their own normal form *)
Theorem C06_abs_keys_dn :
  forall p : list key, abs_keys (dn p) = Ok p.
Proof. exact @abs_keys_dn. Qed.
Print Assumptions C06_abs_keys_dn.

(* READ/WRITE SYMMETRY THROUGH GLOB PORTS: for schemas whose nodes are globs or have named unique keys, wired by tuple paths or by dicts with a "*" sub-topology (_path beside it, inside it or both) that lists every sub-variable: if the view maps the variable path vp (through any number of children) to the node r, the inverse of the singleton update of vp is the singleton update of r; the theorem for named ports (rw_symmetry_partial) is an instance (wf_pair_wfs) *)
Theorem C06_rw_symmetry_star_gen :
  forall (fixed : bool) (t : store) (a : list key) (c : list (pkey * schema))
           (tp : list (pkey * topo)) (v : vtree) (vp r : list key) (z : Z),
         wfs (SNode false c) tp true = true ->
         svar_path (SNode false c) vp = true ->
         view t a (SNode false c) tp = Ok v ->
         vget v vp = Some (VRef r) ->
         invert fixed a (usingle_top vp (UV z)) tp = Ok (usingle_top r (UV z)).
Proof. exact @rw_symmetry_star_gen. Qed.
Print Assumptions C06_rw_symmetry_star_gen.

(* ... stated for a glob port k, a current child ch and a variable of the sub-schema *)
Theorem C06_rw_symmetry_star :
  forall (t : store) (a : list key) (c : list (pkey * schema)) (tp : list (pkey * topo))
           (v : vtree) (k ch : key) (rest : list key) (sub : schema) (r : list key) 
           (z : Z),
         wfs (SNode false c) tp true = true ->
         plook (PK k) c = Some (SNode false [(PStar, sub)]) ->
         svar_path sub rest = true ->
         view t a (SNode false c) tp = Ok v ->
         vget v (k :: ch :: rest) = Some (VRef r) ->
         invert true a (usingle_top (k :: ch :: rest) (UV z)) tp = Ok (usingle_top r (UV z)).
Proof. exact @rw_symmetry_star. Qed.
Print Assumptions C06_rw_symmetry_star.

(* ... when the ports schema itself is a glob *)
Theorem C06_rw_symmetry_star_top :
  forall (t : store) (a : list key) (tp : list (pkey * topo)) (v : vtree) 
           (ch : key) (rest : list key) (sub : schema) (r : list key) (z : Z),
         wfs (SNode false [(PStar, sub)]) tp true = true ->
         svar_path sub rest = true ->
         view t a (SNode false [(PStar, sub)]) tp = Ok v ->
         vget v (ch :: rest) = Some (VRef r) ->
         invert true a (usingle_top (ch :: rest) (UV z)) tp = Ok (usingle_top r (UV z)).
Proof. exact @rw_symmetry_star_top. Qed.
Print Assumptions C06_rw_symmetry_star_top.

(* the well-formedness of the named-port theorem implies the one used here *)
Theorem C06_wf_pair_wfs :
  forall (s : schema) (tp : list (pkey * topo)) (na : bool),
         wf_pair s tp na = true -> tp_ok tp = true -> wfs s tp na = true.
Proof. exact @wf_pair_wfs. Qed.
Print Assumptions C06_wf_pair_wfs.

(* two variables of two different children updated together both arrive, each at its node *)
Theorem C06_rw_symmetry_star_two :
  forall (fixed : bool) (t : store) (a : list key) (c : list (pkey * schema))
           (tp : list (pkey * topo)) (v : vtree) (k ch1 : key) (rest1 : list key) 
           (ch2 : key) (rest2 : list key) (sub : schema) (r1 r2 : list key) 
           (z1 z2 : Z) (cp : list key) (h1 : key) (t1 : list key) (h2 : key) 
           (t2 : list key),
         wfs (SNode false c) tp true = true ->
         plook (PK k) c = Some (SNode false [(PStar, sub)]) ->
         svar_path sub rest1 = true ->
         svar_path sub rest2 = true ->
         view t a (SNode false c) tp = Ok v ->
         vget v (k :: ch1 :: rest1) = Some (VRef r1) ->
         vget v (k :: ch2 :: rest2) = Some (VRef r2) ->
         ch1 <> ch2 ->
         r1 = cp ++ h1 :: t1 ->
         r2 = cp ++ h2 :: t2 ->
         h1 <> h2 ->
         invert fixed a [(k, UD [(ch1, usingle rest1 (UV z1)); (ch2, usingle rest2 (UV z2))])] tp =
         Ok (usingle_top cp (UD [(h1, usingle t1 (UV z1)); (h2, usingle t2 (UV z2))])).
Proof. exact @rw_symmetry_star_two. Qed.
Print Assumptions C06_rw_symmetry_star_two.

(* two variables of one child updated together both arrive *)
Theorem C06_rw_symmetry_star_two_vars :
  forall (fixed : bool) (t : store) (a : list key) (c : list (pkey * schema))
           (tp : list (pkey * topo)) (v : vtree) (k ch x1 : key) (rest1 : list key) 
           (x2 : key) (rest2 : list key) (o2 : bool) (c2 : list (pkey * schema)) 
           (r1 r2 : list key) (z1 z2 : Z) (cp : list key) (h1 : key) (t1 : list key) 
           (h2 : key) (t2 : list key),
         wfs (SNode false c) tp true = true ->
         plook (PK k) c = Some (SNode false [(PStar, SNode o2 c2)]) ->
         glob_of c2 = None ->
         svar_path (SNode o2 c2) (x1 :: rest1) = true ->
         svar_path (SNode o2 c2) (x2 :: rest2) = true ->
         view t a (SNode false c) tp = Ok v ->
         vget v (k :: ch :: x1 :: rest1) = Some (VRef r1) ->
         vget v (k :: ch :: x2 :: rest2) = Some (VRef r2) ->
         x1 <> x2 ->
         r1 = cp ++ h1 :: t1 ->
         r2 = cp ++ h2 :: t2 ->
         h1 <> h2 ->
         invert fixed a
           [(k, UD [(ch, UD [(x1, usingle rest1 (UV z1)); (x2, usingle rest2 (UV z2))])])] tp =
         Ok (usingle_top cp (UD [(h1, usingle t1 (UV z1)); (h2, usingle t2 (UV z2))])) \/
         invert fixed a
           [(k, UD [(ch, UD [(x1, usingle rest1 (UV z1)); (x2, usingle rest2 (UV z2))])])] tp =
         Ok (usingle_top cp (UD [(h2, usingle t2 (UV z2)); (h1, usingle t1 (UV z1))])).
Proof. exact @rw_symmetry_star_two_vars. Qed.
Print Assumptions C06_rw_symmetry_star_two_vars.

(* a named port wired into a child of a glob node and a glob port with a tuple-path "*" entry over that node, both updating one variable of that child: both values arrive (as a multi-update) *)
Theorem C06_star_path_collision_merges :
  forall (a : list key) (p : list seg) (k1 k2 ch x : key) (z1 z2 : Z) (inner : list key),
         k1 <> k2 ->
         abs_keys (normalize (dn a ++ p)) = Ok inner ->
         invert true a [(k1, UD [(x, UV z1)]); (k2, UD [(ch, UD [(x, UV z2)])])]
           [(PK k1, TPath (p ++ [Dn ch])); (PK k2, TDict None [(PStar, TPath p)])] =
         Ok (usingle_top (inner ++ [ch; x]) (UM [UV z1; UV z2])).
Proof. exact @star_path_collision_merges. Qed.
Print Assumptions C06_star_path_collision_merges.

(* fixed defect F21: before the repair the earlier port's value was overwritten *)
Theorem C06_star_path_collision_refuted_pinned :
  forall (a : list key) (p : list seg) (k1 k2 ch x : key) (z1 z2 : Z) (inner : list key),
         k1 <> k2 ->
         abs_keys (normalize (dn a ++ p)) = Ok inner ->
         invert false a [(k1, UD [(x, UV z1)]); (k2, UD [(ch, UD [(x, UV z2)])])]
           [(PK k1, TPath (p ++ [Dn ch])); (PK k2, TDict None [(PStar, TPath p)])] =
         Ok (usingle_top (inner ++ [ch; x]) (UV z2)).
Proof. exact @star_path_collision_refuted_pinned. Qed.
Print Assumptions C06_star_path_collision_refuted_pinned.

(* ... tied to the store: both ports read the same node, and that node receives both updates *)
Theorem C06_star_path_collision_view :
  forall (t : store) (a : list key) (c : list (pkey * schema)) (p : list seg)
           (k1 k2 ch x : key) (S1 sub : schema) (v : vtree) (r1 r2 : list key) 
           (z1 z2 : Z),
         let tp := [(PK k1, TPath (p ++ [Dn ch])); (PK k2, TDict None [(PStar, TPath p)])] in
         keys_ok c = true ->
         k1 <> k2 ->
         plook (PK k1) c = Some S1 ->
         pstar_schema S1 = true ->
         svar_path S1 [x] = true ->
         plook (PK k2) c = Some (SNode false [(PStar, sub)]) ->
         pstar_schema sub = true ->
         svar_path sub [x] = true ->
         view t a (SNode false c) tp = Ok v ->
         vget v [k1; x] = Some (VRef r1) ->
         vget v [k2; ch; x] = Some (VRef r2) ->
         r1 = r2 /\
         invert true a [(k1, UD [(x, UV z1)]); (k2, UD [(ch, UD [(x, UV z2)])])] tp =
         Ok (usingle_top r2 (UM [UV z1; UV z2])) /\
         invert false a [(k1, UD [(x, UV z1)]); (k2, UD [(ch, UD [(x, UV z2)])])] tp =
         Ok (usingle_top r2 (UV z2)).
Proof. exact @star_path_collision_view. Qed.
Print Assumptions C06_star_path_collision_view.


(* ---- non-vacuity: a nested example with '..' paths, a '_path' dict with a redirected sub-key ---- *)
Definition ex_lf := Lf {| l_val := Some 1%Z; l_def := Some 1%Z; l_units := None; l_ser := None |}.
Definition ex_vd := SVar {| dd := Some 1%Z; dv := None; du := None; ds := None |}.
Definition ex_t : store := Nd [(1%N, Nd []); (2%N, Nd [(7%N, ex_lf); (3%N, Nd [(8%N, ex_lf)])]); (4%N, Nd [(9%N, ex_lf)])].
Definition ex_c := [(PK 10%N, SNode false [(PK 7%N, ex_vd); (PK 3%N, SNode false [(PK 8%N, ex_vd)])]);
                    (PK 11%N, SNode false [(PK 8%N, ex_vd); (PK 5%N, ex_vd)])].
Definition ex_tp := [(PK 10%N, TPath [Up; Dn 2%N]);
                     (PK 11%N, TDict (Some [Up; Dn 2%N; Dn 3%N]) [(PK 5%N, TPath [Up; Up; Dn 4%N; Dn 9%N])])].
Example ex_hyps : wf_pair (SNode false ex_c) ex_tp true = true /\ tp_ok ex_tp = true /\
                  var_path (SNode false ex_c) [11%N; 5%N] = true /\
                  exists v, view ex_t [1%N] (SNode false ex_c) ex_tp = Ok v /\ vget v [11%N; 5%N] = Some (VRef [4%N; 9%N]).
Proof. repeat split; try reflexivity. eexists. split; reflexivity. Qed.
Example ex_invert : invert true [1%N] (usingle_top [11%N; 5%N] (UV 5%Z)) ex_tp = Ok (usingle_top [4%N; 9%N] (UV 5%Z)).
Proof. reflexivity. Qed.

(* hypotheses satisfiable (stores built by generate, two children), and what is false outside them *)
Check StarEx.rw_symmetry_star_beside_sat.
Check StarEx.rw_symmetry_star_inside_sat.
Check StarCx.star_unlisted_counterexample.
Check StarCx.star_named_sibling_counterexample.
Check StarCollisionEx.star_path_collision_sat.

