(* C13 - Parallel processes are transparent and always shut down cleanly (PARTIAL).
   Models: Model/Sched.v (the engine only starts a computation on an idle process; the result is collected exactly
   once when the update is applied: C01) and Model/Parallel.v (the command protocol: pending safeguard, end, end twice).
   In Model/Sched.v the update is a function of what the process is handed at invocation, so when it is evaluated
   (at once, or in a worker and collected later) cannot matter: transparency is by construction there, and is decided on
   the implementation by serial/parallel twin runs.  That a worker told to stop exits and is reaped, pipe liveness and
   pickling are runtime facts outside the model; they are monitored by the check.
   This file contains only statements closed by `exact`, their assumptions and non-vacuity examples.
   Generated once by tools/genprops.py from the proved lemmas (statements restated verbatim). *)
From Coq Require Import List NArith ZArith Bool Lia.
From Viv Require Import Model.Sched Model.Parallel Proofs.Sched_defs Proofs.Sched_once_proofs Proofs.Sched_idle_proofs Proofs.Parallel_proofs.
Import ListNotations.
Open Scope Z_scope.

(* the engine never sends a command to a process that still has one pending: every process invoked in a pass had no update in flight *)
Theorem C13_invoke_only_idle :
  forall (Sg U W : Type) (poll : W -> pid -> Sg -> Z * W)
           (cond : W -> pid -> Z -> Sg -> bool * W) (next : W -> pid -> Z -> Sg -> U * W)
           (commit : Sg -> list pid -> list (pid * U) -> Sg * list pid) (ee : option Z) 
           (endt : Z) (force : bool) (et : Z) (s s' : st Sg U W) (f' : bool) 
           (et' : Z) (ok : bool),
         Inv Sg U W s ->
         iter Sg U W poll cond next commit vfixed ee endt force et s = (s', f', et', ok) ->
         exists new : list (event Sg),
           log Sg U W s' = new ++ log Sg U W s /\
           Forall
             (fun e : event Sg =>
              match e with
              | EInvoke _ p _ _ _ _ _ _ => forall x : fe U, In (p, x) (frt Sg U W s) -> fu x = None
              | _ => True
              end) new.
Proof. exact @invoke_only_idle. Qed.
Print Assumptions C13_invoke_only_idle.

(* each process is invoked at most once per pass *)
Theorem C13_invoke_once_per_pass :
  forall (Sg U W : Type) (poll : W -> pid -> Sg -> Z * W)
           (cond : W -> pid -> Z -> Sg -> bool * W) (next : W -> pid -> Z -> Sg -> U * W)
           (commit : Sg -> list pid -> list (pid * U) -> Sg * list pid) (ee : option Z) 
           (endt : Z) (force : bool) (et : Z) (s s' : st Sg U W) (f' : bool) 
           (et' : Z) (ok : bool),
         Inv Sg U W s ->
         iter Sg U W poll cond next commit vfixed ee endt force et s = (s', f', et', ok) ->
         exists new : list (event Sg),
           log Sg U W s' = new ++ log Sg U W s /\
           NoDup
             (flat_map
                (fun e : event Sg => match e with
                                     | EInvoke _ p _ _ _ _ _ _ => [p]
                                     | _ => []
                                     end) new).
Proof. exact @invoke_once_per_pass. Qed.
Print Assumptions C13_invoke_once_per_pass.

(* only processes of the engine table are invoked *)
Theorem C13_invoke_only_registered :
  forall (Sg U W : Type) (poll : W -> pid -> Sg -> Z * W)
           (cond : W -> pid -> Z -> Sg -> bool * W) (next : W -> pid -> Z -> Sg -> U * W)
           (commit : Sg -> list pid -> list (pid * U) -> Sg * list pid) (ee : option Z) 
           (endt : Z) (force : bool) (et : Z) (s s' : st Sg U W) (f' : bool) 
           (et' : Z) (ok : bool),
         iter Sg U W poll cond next commit vfixed ee endt force et s = (s', f', et', ok) ->
         exists new : list (event Sg),
           log Sg U W s' = new ++ log Sg U W s /\
           Forall
             (fun e : event Sg =>
              match e with
              | EInvoke _ p _ _ _ _ _ _ => In p (procs Sg U W s)
              | _ => True
              end) new.
Proof. exact @invoke_only_registered. Qed.
Print Assumptions C13_invoke_only_registered.

(* any number of (send, collect) rounds followed by end() - once or several times - never trips the pending safeguard and tells the worker to stop *)
Theorem C13_engine_protocol_ok :
  forall rounds ends : nat,
         (0 < ends)%nat ->
         exists s' : pp,
           prun fresh (engine_trace rounds ends) = inl s' /\
           alive s' = false /\ ended s' = true /\ pending s' = false.
Proof. exact @engine_protocol_ok. Qed.
Print Assumptions C13_engine_protocol_ok.

(* a second end() is a no-op *)
Theorem C13_end_idempotent :
  forall s s' : pp, pstep s CEnd = inl s' -> pstep s' CEnd = inl s'.
Proof. exact @end_idempotent. Qed.
Print Assumptions C13_end_idempotent.

(* a command sent while another is pending is refused *)
Theorem C13_send_while_pending_refused :
  forall s : pp, pending s = true -> pstep s CSend = inr StillPending.
Proof. exact @send_while_pending_refused. Qed.
Print Assumptions C13_send_while_pending_refused.

(* known finding K2: ending a process whose update is still in flight is refused and the worker stays alive *)
Theorem C13_delete_inflight_refuted :
  prun fresh [CSend; CEnd] = inr StillPending.
Proof. exact @delete_inflight_refuted. Qed.
Print Assumptions C13_delete_inflight_refuted.


