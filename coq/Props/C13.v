(* C13 - Parallel processes are transparent and always shut down cleanly (PARTIAL).
   Models: Model/Sched.v (the engine only starts a computation on an idle process; the result is collected exactly
   once when the update is applied: C01) and Model/Parallel.v (the command protocol: pending safeguard, end, end twice, end with a result in flight).
   In Model/Sched.v the update is a function of what the process is handed at invocation, so when it is evaluated
   (at once, or in a worker and collected later) cannot matter: transparency is by construction there, and is decided on
   the implementation by serial/parallel twin runs.  That a worker told to stop exits and is reaped, pipe liveness and
   pickling are runtime facts outside the model; they are monitored by the check.
   This file contains only statements closed by `exact`, their assumptions and non-vacuity examples.
   Generated once by tools/genprops.py from the proved lemmas (statements restated verbatim). *)
From Coq Require Import List NArith ZArith Bool Lia.
From Viv Require Import Model.Sched Model.Parallel Proofs.Sched_defs Proofs.Sched_once_proofs Proofs.Sched_idle_proofs Proofs.Parallel_proofs.
Import ListNotations.
Open Scope Z_scope.

(* the engine never sends a command to a process that still has one pending: every process invoked in a pass had no update in flight *)
Theorem C13_invoke_only_idle :
  forall (Sg U W : Type) (poll : W -> pid -> Sg -> Z * W)
           (cond : W -> pid -> Z -> Sg -> bool * W) (next : W -> pid -> Z -> Sg -> U * W)
           (commit : Sg -> list pid -> list (pid * U) -> Sg * list pid) (ee : option Z) 
           (endt : Z) (force : bool) (et : Z) (s s' : st Sg U W) (f' : bool) 
           (et' : Z) (ok : bool),
         Inv Sg U W s ->
         iter Sg U W poll cond next commit vfixed ee endt force et s = (s', f', et', ok) ->
         exists new : list (event Sg),
           log Sg U W s' = new ++ log Sg U W s /\
           Forall
             (fun e : event Sg =>
              match e with
              | EInvoke _ p _ _ _ _ _ _ => forall x : fe U, In (p, x) (frt Sg U W s) -> fu x = None
              | _ => True
              end) new.
Proof. exact @invoke_only_idle. Qed.
Print Assumptions C13_invoke_only_idle.

(* each process is invoked at most once per pass *)
Theorem C13_invoke_once_per_pass :
  forall (Sg U W : Type) (poll : W -> pid -> Sg -> Z * W)
           (cond : W -> pid -> Z -> Sg -> bool * W) (next : W -> pid -> Z -> Sg -> U * W)
           (commit : Sg -> list pid -> list (pid * U) -> Sg * list pid) (ee : option Z) 
           (endt : Z) (force : bool) (et : Z) (s s' : st Sg U W) (f' : bool) 
           (et' : Z) (ok : bool),
         Inv Sg U W s ->
         iter Sg U W poll cond next commit vfixed ee endt force et s = (s', f', et', ok) ->
         exists new : list (event Sg),
           log Sg U W s' = new ++ log Sg U W s /\
           NoDup
             (flat_map
                (fun e : event Sg => match e with
                                     | EInvoke _ p _ _ _ _ _ _ => [p]
                                     | _ => []
                                     end) new).
Proof. exact @invoke_once_per_pass. Qed.
Print Assumptions C13_invoke_once_per_pass.

(* only processes of the engine table are invoked *)
Theorem C13_invoke_only_registered :
  forall (Sg U W : Type) (poll : W -> pid -> Sg -> Z * W)
           (cond : W -> pid -> Z -> Sg -> bool * W) (next : W -> pid -> Z -> Sg -> U * W)
           (commit : Sg -> list pid -> list (pid * U) -> Sg * list pid) (ee : option Z) 
           (endt : Z) (force : bool) (et : Z) (s s' : st Sg U W) (f' : bool) 
           (et' : Z) (ok : bool),
         iter Sg U W poll cond next commit vfixed ee endt force et s = (s', f', et', ok) ->
         exists new : list (event Sg),
           log Sg U W s' = new ++ log Sg U W s /\
           Forall
             (fun e : event Sg =>
              match e with
              | EInvoke _ p _ _ _ _ _ _ => In p (procs Sg U W s)
              | _ => True
              end) new.
Proof. exact @invoke_only_registered. Qed.
Print Assumptions C13_invoke_only_registered.

(* any number of (send, collect) rounds followed by end() - once or several times - never trips the pending safeguard and tells the worker to stop *)
Theorem C13_engine_protocol_ok :
  forall rounds ends : nat,
         (0 < ends)%nat ->
         exists s' : pp,
           prun fresh (engine_trace rounds ends) = inl s' /\
           alive s' = false /\ ended s' = true /\ pending s' = false.
Proof. exact @engine_protocol_ok. Qed.
Print Assumptions C13_engine_protocol_ok.

(* a second end() is a no-op *)
Theorem C13_end_idempotent :
  forall s s' : pp, pstep s CEnd = inl s' -> pstep s' CEnd = inl s'.
Proof. exact @end_idempotent. Qed.
Print Assumptions C13_end_idempotent.

(* a command sent while another is pending is refused *)
Theorem C13_send_while_pending_refused :
  forall s : pp, pending s = true -> pstep s CSend = inr StillPending.
Proof. exact @send_while_pending_refused. Qed.
Print Assumptions C13_send_while_pending_refused.

(* a process whose update is still in flight can be ended (deleted, divided away): the worker is told to stop and the result end() collected is still handed over (repairs b038411, f5e138d; formerly known finding K2) *)
Theorem C13_delete_inflight_ok :
  prun fresh [CSend; CEnd] =
         inl {| pending := false; ended := true; alive := false; stash := true |} /\
         prun fresh [CSend; CEnd; CGet] =
         inl {| pending := false; ended := true; alive := false; stash := false |}.
Proof. exact @delete_inflight_ok. Qed.
Print Assumptions C13_delete_inflight_ok.

(* the pinned code: end() with an update in flight was refused and the worker stayed alive *)
Theorem C13_delete_inflight_refuted_pinned :
  prun_pinned fresh [CSend; CEnd] = inr StillPending.
Proof. exact @delete_inflight_refuted_pinned. Qed.
Print Assumptions C13_delete_inflight_refuted_pinned.

(* end() never fails, whatever the state; afterwards the process is ended and a running worker has been told to stop *)
Theorem C13_end_total :
  forall s : pp,
         exists s' : pp,
           pstep s CEnd = inl s' /\
           ended s' = true /\ (ended s = false -> alive s' = false /\ pending s' = false).
Proof. exact @end_total. Qed.
Print Assumptions C13_end_total.

(* on every reachable state an ended process has no worker that was not told to stop *)
Theorem C13_ended_never_alive :
  forall (cs : list pcmd) (s : pp), prun fresh cs = inl s -> ended s = true -> alive s = false.
Proof. exact @ended_never_alive. Qed.
Print Assumptions C13_ended_never_alive.

(* structural updates around a parallel process: reading its schema (view rebuild), asking is_step() (re-registration) and moving its node never fail and change nothing, whatever its state - in particular while an update is in flight *)
Theorem C13_quiet_run :
  forall (cs : list pcmd) (s : pp), forallb quiet cs = true -> prun s cs = inl s.
Proof. exact @quiet_run. Qed.
Print Assumptions C13_quiet_run.

(* ... so they can be interleaved anywhere into the life of the process without changing it *)
Theorem C13_quiet_insert :
  forall (a q b : list pcmd) (s : pp),
         forallb quiet q = true -> prun s (a ++ q ++ b) = prun s (a ++ b).
Proof. exact @quiet_insert. Qed.
Print Assumptions C13_quiet_insert.

(* the engine trace with structural updates between every send and its collection, then end() once or several times: never trips the pending safeguard, the worker is told to stop *)
Theorem C13_engine_protocol_struct_ok :
  forall (rounds ends : nat) (q : list pcmd),
         (0 < ends)%nat ->
         forallb quiet q = true ->
         exists s' : pp,
           prun fresh (concat (repeat ([CSend] ++ q ++ [CGet]) rounds) ++ repeat CEnd ends) = inl s' /\
           alive s' = false /\ ended s' = true.
Proof. exact @engine_protocol_struct_ok. Qed.
Print Assumptions C13_engine_protocol_struct_ok.

(* the pinned code (schema / is_step as commands to the worker) refuses the query while an update is in flight (F24) *)
Theorem C13_query_in_flight_refuted_pinned :
  prun_pinned fresh [CSend; CQuery; CGet] = inr StillPending.
Proof. exact @query_in_flight_refuted_pinned. Qed.
Print Assumptions C13_query_in_flight_refuted_pinned.

(* the pinned Store.move ended the worker of the process it moved: the next command fails (F25) *)
Theorem C13_move_ends_worker_refuted_pinned :
  prun_pinned fresh [CSend; CGet; CMoved; CSend] = inr Ended.
Proof. exact @move_ends_worker_refuted_pinned. Qed.
Print Assumptions C13_move_ends_worker_refuted_pinned.


