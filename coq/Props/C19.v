(* C19 — Timeline events fire exactly once, on time, whatever order they are listed in.
   Only statements closed by `exact`, their assumptions, and non-vacuity examples.
   Model: Model/Timeline.v (the repaired initialize_timeline / next_update, and the
   pinned variants); proofs: Proofs/Timeline_proofs.v. *)
From Coq Require Import List NArith ZArith Bool Sorting.Sorted Sorting.Permutation.
From Viv Require Import Base.Assoc Model.Timeline Proofs.Timeline_proofs.
Import ListNotations.
Open Scope Z_scope.

(* the initialised timeline is sorted with distinct times *)
Theorem C19_init_sorted : forall evs, tsorted (init_timeline evs).
Proof. exact init_sorted. Qed.
Print Assumptions C19_init_sorted.

(* events with equal times act as one merged event (left-to-right dict.update);
   no listed time is lost and none is invented *)
Theorem C19_init_content : forall evs t,
  tlookup t (init_timeline evs) =
  match at_time t evs with
  | [] => None
  | ds => Some (fold_left dict_update ds [])
  end.
Proof. exact init_content. Qed.
Print Assumptions C19_init_content.

(* every listing order gives the same timeline (as a function time -> variable -> value),
   provided same-time events do not give one variable different values.  The statement with
   `compatible` (phrased with alookup) needs the Python-dict invariant "keys unique"; the
   `_in` form quantifies over all bindings and needs no such premise.  (The statement
   without NoDup is false for association lists with repeated keys:
   Timeline_proofs.init_perm_counterexample.) *)
Theorem C19_listing_order_irrelevant : forall evs evs', Permutation evs evs' -> compatible evs ->
  (forall e, In e evs -> NoDup (akeys (snd e))) ->
  forall t k, tvalue (init_timeline evs) t k = tvalue (init_timeline evs') t k.
Proof. exact init_perm_partial. Qed.
Print Assumptions C19_listing_order_irrelevant.

Theorem C19_listing_order_irrelevant_in : forall evs evs', Permutation evs evs' -> compatible_in evs ->
  forall t k, tvalue (init_timeline evs) t k = tvalue (init_timeline evs') t k.
Proof. exact init_perm_in. Qed.
Print Assumptions C19_listing_order_irrelevant_in.

(* a tick at clock c fires exactly the not-yet-fired events with time <= c, in time order,
   and removes exactly those *)
Theorem C19_tick_fires_due : forall c tl, tsorted tl ->
  due c tl = (filter (fun e => fst e <=? c) tl, filter (fun e => c <? fst e) tl).
Proof. exact due_spec. Qed.
Print Assumptions C19_tick_fires_due.

Theorem C19_tick_update_is_due_events : forall c tl, tick c tl =
  (fold_left dict_update (map snd (fst (due c tl))) [], snd (due c tl)).
Proof. exact tick_is_due. Qed.
Print Assumptions C19_tick_update_is_due_events.

(* over any run of ticks nothing is dropped and nothing duplicated: the fired events, in
   order, followed by the remaining ones, are the timeline *)
Theorem C19_nothing_lost_nothing_twice : forall cs tl fs rest,
  run_due cs tl = (fs, rest) -> concat fs ++ rest = tl.
Proof. exact run_due_partition. Qed.
Print Assumptions C19_nothing_lost_nothing_twice.

Theorem C19_run_ticks_is_run_due : forall cs tl,
  run_ticks cs tl = (map (fun f => fold_left dict_update (map snd f) []) (fst (run_due cs tl)), snd (run_due cs tl)).
Proof. exact run_ticks_is_run_due. Qed.
Print Assumptions C19_run_ticks_is_run_due.

(* each event fires at the first tick at which the clock has reached its time, and at no other *)
Theorem C19_exactly_once_on_time : forall cs tl fs rest, tsorted tl -> StronglySorted Z.lt cs ->
  run_due cs tl = (fs, rest) ->
  forall e k, In e tl -> (k < length cs)%nat ->
    (In e (nth k fs []) <-> (fst e <= nth k cs 0 /\ forall j, (j < k)%nat -> nth j cs 0 < fst e)).
Proof. exact exactly_once_on_time. Qed.
Print Assumptions C19_exactly_once_on_time.

Theorem C19_unfired_are_future : forall cs tl fs rest, tsorted tl -> StronglySorted Z.lt cs ->
  run_due cs tl = (fs, rest) ->
  forall e, In e tl -> (In e rest <-> forall j, (j < length cs)%nat -> nth j cs 0 < fst e).
Proof. exact never_fired_is_future. Qed.
Print Assumptions C19_unfired_are_future.

(* the pinned (pre-repair) code violates the property: witnesses *)
Theorem C19_sort_refuted_pinned : exists evs t, In t (times evs) /\ ~ In t (times (init_pinned evs)).
Proof. exact sort_refuted_pinned. Qed.
Print Assumptions C19_sort_refuted_pinned.

Theorem C19_pop_refuted_pinned : exists c tl, tsorted tl /\ (forall e, In e tl -> fst e <= c) /\
  fst (tick_pinned c tl) <> fst (tick c tl) /\ snd (tick_pinned c tl) <> [].
Proof. exact pop_refuted_pinned. Qed.
Print Assumptions C19_pop_refuted_pinned.

(* ---- non-vacuity ---- *)
Definition ex_evs : list event :=
  [(5, [(1%N, 10)]); (0, [(2%N, 3)]); (5, [(3%N, 4)]); (2, [(1%N, 7)])].

Example ex_init : init_timeline ex_evs = [(0, [(2%N, 3)]); (2, [(1%N, 7)]); (5, [(1%N, 10); (3%N, 4)])].
Proof. reflexivity. Qed.

Example ex_run : run_due [0; 3; 6] (init_timeline ex_evs) =
  ([[(0, [(2%N, 3)])]; [(2, [(1%N, 7)])]; [(5, [(1%N, 10); (3%N, 4)])]], []).
Proof. reflexivity. Qed.

Example ex_premises : tsorted (init_timeline ex_evs) /\ StronglySorted Z.lt [0; 3; 6] /\ compatible_in ex_evs.
Proof.
  split; [apply init_sorted|]. split.
  - repeat constructor.
  - intros e1 e2 k v1 v2 H1 H2 Ht L1 L2. cbn in H1, H2.
    repeat (destruct H1 as [H1|H1]; [subst e1|]); try contradiction;
    repeat (destruct H2 as [H2|H2]; [subst e2|]); try contradiction;
    cbn in *; try discriminate;
    repeat (destruct L1 as [L1|L1]; [inversion L1; subst|]); try contradiction;
    repeat (destruct L2 as [L2|L2]; [inversion L2; subst|]); try contradiction; try reflexivity; try discriminate.
Qed.
