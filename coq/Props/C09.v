(* C09 - Structural updates change the hierarchy exactly as specified and nothing else.
   Model: Model/Struct.v (Store.apply_update branch section: add, move, insert, divide, delete; operation order);
   proofs: Proofs/Struct_proofs.v.  All statements are generic in the kit (what _generate builds, what a glob creates,
   what an inheriting daughter copies): mk_child, D, build, copy_procs are universally quantified.
   The clause "_delete ... named by path" is false of the current code: known finding K4 (C09_delete_by_path_refuted).
   This file contains only statements closed by `exact`, their assumptions and non-vacuity examples.
   Generated once by tools/genprops.py from the proved lemmas (statements restated verbatim). *)
From Coq Require Import List NArith ZArith Bool Lia Sorting.Permutation.
From Viv Require Import Base.Assoc Base.Tree Model.Paths Model.Steps Model.Struct Model.StructC Proofs.Struct_proofs Proofs.Consistent_proofs Proofs.MoveP_proofs Proofs.Consistent2_proofs Proofs.Upd_proofs.
Import ListNotations.

(* every node outside the subtrees an operation names keeps its identity (uid) and its value *)
Theorem C09_apply_op_frame :
  forall (mk_child : N -> cnode * N) (D : Type) (build : D -> N -> cnode * N)
           (copy_procs : cnode -> N -> cnode * N) (vr : variant) (t : cnode) 
           (here : list key) (o : sop D) (uid : N) (t' : cnode) (rp : reports) 
           (uid' : N) (q : list key),
         apply_op mk_child D build copy_procs vr t here o uid = Ok (t', rp, uid') ->
         outside q (named D here o) -> sig_at t' q = sig_at t q.
Proof. exact @apply_op_frame. Qed.
Print Assumptions C09_apply_op_frame.

(* ... for an update combining several operations *)
Theorem C09_apply_ops_frame :
  forall (mk_child : N -> cnode * N) (D : Type) (build : D -> N -> cnode * N)
           (copy_procs : cnode -> N -> cnode * N) (vr : variant) (t : cnode) 
           (here : list key) (ops : list (sop D)) (uid : N) (t' : cnode) 
           (rp : reports) (uid' : N) (q : list key),
         apply_ops mk_child D build copy_procs vr t here ops uid = Ok (t', rp, uid') ->
         outside q (flat_map (named D here) ops) -> sig_at t' q = sig_at t q.
Proof. exact @apply_ops_frame. Qed.
Print Assumptions C09_apply_ops_frame.

(* ... throughout any history of updates: a node never named keeps identity and value *)
Theorem C09_history_frame :
  forall (mk_child : N -> cnode * N) (D : Type) (build : D -> N -> cnode * N)
           (copy_procs : cnode -> N -> cnode * N) (vr : variant) (h : list (list key * list (sop D)))
           (t : cnode) (uid : N) (t' : cnode) (uid' : N) (q : list key),
         fold_left
           (fun (acc : res (cnode * N)) (ho : list key * list (sop D)) =>
            match acc with
            | Ok (t0, u0) =>
                match apply_ops mk_child D build copy_procs vr t0 (fst ho) (snd ho) u0 with
                | Ok (t1, _, u1) => Ok (t1, u1)
                | Err e => Err e
                end
            | Err e => Err e
            end) h (Ok (t, uid)) = Ok (t', uid') ->
         outside q
           (flat_map (fun ho : list key * list (sop D) => flat_map (named D (fst ho)) (snd ho)) h) ->
         sig_at t' q = sig_at t q.
Proof. exact @history_frame. Qed.
Print Assumptions C09_history_frame.

(* adding an existing key is rejected *)
Theorem C09_add_existing_rejected :
  forall (mk_child : N -> cnode * N) (D : Type) (build : D -> N -> cnode * N)
           (copy_procs : cnode -> N -> cnode * N) (vr : variant) (t : cnode) 
           (here : list key) (k : key) (st : tree Z) (uid u : N) (g : bool) 
           (c : list (key * cnode)) (x : cnode),
         cget t here = Some (CDir u g c) ->
         alookup k c = Some x ->
         apply_op mk_child D build copy_procs vr t here (OpAdd D k st) uid = Err EDuplicate.
Proof. exact @add_existing_rejected. Qed.
Print Assumptions C09_add_existing_rejected.

(* _add creates the named child *)
Theorem C09_add_creates :
  forall (mk_child : N -> cnode * N) (D : Type) (build : D -> N -> cnode * N)
           (copy_procs : cnode -> N -> cnode * N) (vr : variant) (t : cnode) 
           (here : list key) (k : key) (st : tree Z) (uid : N) (t' : cnode) 
           (rp : reports) (uid' : N),
         apply_op mk_child D build copy_procs vr t here (OpAdd D k st) uid = Ok (t', rp, uid') ->
         cget t' (here ++ [k]) <> None.
Proof. exact @add_creates. Qed.
Print Assumptions C09_add_creates.

(* _delete by key removes exactly that child and everything below it, and reports the deletion *)
Theorem C09_delete_removes :
  forall (mk_child : N -> cnode * N) (D : Type) (build : D -> N -> cnode * N)
           (copy_procs : cnode -> N -> cnode * N) (vr : variant) (t : cnode) 
           (here : list key) (k : key) (uid : N) (t' : cnode) (rp : reports) 
           (uid' : N),
         cwf t ->
         apply_op mk_child D build copy_procs vr t here (OpDelete D k) uid = Ok (t', rp, uid') ->
         cget t' (here ++ [k]) = None /\ r_deletions rp = [here ++ [k]].
Proof. exact @delete_removes. Qed.
Print Assumptions C09_delete_removes.

(* known finding K4: a _delete entry given as a path tuple removes nothing and reports nothing *)
Theorem C09_delete_by_path_refuted :
  forall (mk_child : N -> cnode * N) (D : Type) (build : D -> N -> cnode * N)
           (copy_procs : cnode -> N -> cnode * N) (t : cnode) (here p : list key) 
           (uid : N),
         cget t here <> None ->
         (exists (u : N) (g : bool) (c : list (key * cnode)), cget t here = Some (CDir u g c)) ->
         exists rp : reports,
           apply_op mk_child D build copy_procs vfixed t here (OpDeletePath D p) uid =
           Ok (t, rp, uid) /\ r_deletions rp = [].
Proof. exact @delete_by_path_refuted. Qed.
Print Assumptions C09_delete_by_path_refuted.

(* _generate: the built subtree with the initial state applied sits under the given key *)
Theorem C09_generate_places :
  forall (mk_child : N -> cnode * N) (D : Type) (build : D -> N -> cnode * N)
           (copy_procs : cnode -> N -> cnode * N) (vr : variant) (t : cnode) 
           (here : list key) (k : key) (d : D) (init : tree Z) (uid : N) 
           (t' : cnode) (rp : reports) (uid' : N),
         apply_op mk_child D build copy_procs vr t here (OpGenerate D k d init) uid =
         Ok (t', rp, uid') ->
         exists (sub : cnode) (u1 : N),
           set_value mk_child (S (tdepth init)) (fst (build d uid)) init (snd (build d uid)) =
           Ok (sub, u1) /\ cget t' (here ++ [k]) = Some sub /\ uid' = u1.
Proof. exact @generate_places. Qed.
Print Assumptions C09_generate_places.

(* _move: the very same subtree (identities, values, process objects, relative structure) sits under the target; the source is gone *)
Theorem C09_move_moves :
  forall (mk_child : N -> cnode * N) (D : Type) (build : D -> N -> cnode * N)
           (copy_procs : cnode -> N -> cnode * N) (vr : variant) (t : cnode) 
           (here : list key) (src : key) (tgt : list key) (uid : N) (t' : cnode) 
           (rp : reports) (uid' : N) (node : cnode) (u : N) (g : bool) (c : list (key * cnode)),
         cwf t ->
         cget t here = Some (CDir u g c) ->
         alookup src c = Some node ->
         starts_with (tgt ++ [src]) (here ++ [src]) = false ->
         starts_with (here ++ [src]) (tgt ++ [src]) = false ->
         apply_op mk_child D build copy_procs vr t here (OpMove D src tgt) uid = Ok (t', rp, uid') ->
         cget t' (tgt ++ [src]) = Some node /\
         cget t' (here ++ [src]) = None /\ uid' = uid /\ r_deletions rp = [here ++ [src]].
Proof. exact @move_moves. Qed.
Print Assumptions C09_move_moves.

(* _divide removes the mother and reports it *)
Theorem C09_divide_removes_mother :
  forall (mk_child : N -> cnode * N) (D : Type) (build : D -> N -> cnode * N)
           (copy_procs : cnode -> N -> cnode * N) (vr : variant) (t : cnode) 
           (here : list key) (m : key) (ds : list (key * option D * tree Z)) 
           (ch : list bool) (uid : N) (t' : cnode) (rp : reports) (uid' : N),
         cwf t ->
         (forall d : key * option D * tree Z, In d ds -> fst (fst d) <> m) ->
         apply_op mk_child D build copy_procs vr t here (OpDivide D m ds ch) uid = Ok (t', rp, uid') ->
         In (here ++ [m]) (r_deletions rp).
Proof. exact @divide_removes_mother. Qed.
Print Assumptions C09_divide_removes_mother.

(* one update combining several operations carries out all of them *)
Theorem C09_order_ops_perm :
  forall (D : Type) (ops : list (sop D)), Permutation (order_ops D ops) ops.
Proof. exact @order_ops_perm. Qed.
Print Assumptions C09_order_ops_perm.

(* operations of one update are applied in rank order (_add, _move, _generate, the divided mother's own entry, _divide, inner keys, _delete) *)
Theorem C09_order_ops_sorted :
  forall (D : Type) (ops : list (sop D)) (i j : nat),
         i < j < length (order_ops D ops) ->
         op_rank D (mothers D ops) (nth i (order_ops D ops) (OpDelete D 0%N)) <=
         op_rank D (mothers D ops) (nth j (order_ops D ops) (OpDelete D 0%N)).
Proof. exact @order_ops_sorted. Qed.
Print Assumptions C09_order_ops_sorted.

(* deleting a path leaves nothing there *)
Theorem C09_cdel_gone :
  forall (t : cnode) (p : list key) (t' : cnode),
         cwf t -> p <> [] -> cdel t p = Ok t' -> cget t' p = None.
Proof. exact @cdel_gone. Qed.
Print Assumptions C09_cdel_gone.

(* writing below a path changes no signature outside it *)
Theorem C09_cset_frame :
  forall (t : cnode) (p : list key) (n t' : cnode) (q : list key),
         cset t p n = Ok t' -> starts_with q p = false -> sig_at t' q = sig_at t q.
Proof. exact @cset_frame. Qed.
Print Assumptions C09_cset_frame.

(* _move with a NESTED source path: the very same subtree sits under the target at the same relative path, the source is gone and reported deleted (the target must not lie inside the moved subtree) *)
Theorem C09_movep_moves :
  forall (mk_child : N -> cnode * N) (D : Type) (build : D -> N -> cnode * N)
           (copy_procs : cnode -> N -> cnode * N) (vr : variant) (t : cnode)
           (here src tgt : list key) (uid : N) (t' : cnode) (rp : reports) 
           (uid' : N),
         cwf t ->
         starts_with (tgt ++ src) (here ++ src) = false ->
         apply_op mk_child D build copy_procs vr t here (OpMoveP D src tgt) uid = Ok (t', rp, uid') ->
         cget t' (tgt ++ src) = cget t (here ++ src) /\
         cget t (here ++ src) <> None /\
         cget t' (here ++ src) = None /\ r_deletions rp = [here ++ src] /\ (uid <= uid')%N.
Proof. exact @movep_moves. Qed.
Print Assumptions C09_movep_moves.

(* ... every node outside the source subtree and outside target/first-key-of-source keeps identity and value: the siblings of the moved node and its former parent are untouched *)
Theorem C09_movep_siblings_kept :
  forall (mk_child : N -> cnode * N) (D : Type) (build : D -> N -> cnode * N)
           (copy_procs : cnode -> N -> cnode * N) (vr : variant) (t : cnode)
           (here src tgt : list key) (uid : N) (t' : cnode) (rp : reports) 
           (uid' : N) (q : list key),
         apply_op mk_child D build copy_procs vr t here (OpMoveP D src tgt) uid = Ok (t', rp, uid') ->
         starts_with q (here ++ src) = false ->
         starts_with q (tgt ++ firstn 1 src) = false -> sig_at t' q = sig_at t q.
Proof. exact @movep_siblings_kept. Qed.
Print Assumptions C09_movep_siblings_kept.

(* ... the only new nodes are the established intermediate directories, with fresh identities *)
Theorem C09_movep_fresh :
  forall (mk_child : N -> cnode * N) (D : Type) (build : D -> N -> cnode * N)
           (copy_procs : cnode -> N -> cnode * N) (vr : variant) (t : cnode)
           (here src tgt : list key) (uid : N) (t' : cnode) (rp : reports) 
           (uid' : N) (q : list key) (n : cnode),
         cwf t ->
         apply_op mk_child D build copy_procs vr t here (OpMoveP D src tgt) uid = Ok (t', rp, uid') ->
         cget t q = None ->
         cget t' q = Some n -> starts_with q (tgt ++ src) = false -> (uid <= cuid n < uid')%N.
Proof. exact @movep_fresh. Qed.
Print Assumptions C09_movep_fresh.

(* ... a missing target node is rejected *)
Theorem C09_movep_missing_target_rejected :
  forall (mk_child : N -> cnode * N) (D : Type) (build : D -> N -> cnode * N)
           (copy_procs : cnode -> N -> cnode * N) (vr : variant) (t : cnode)
           (here src tgt : list key) (uid : N),
         cget t tgt = None ->
         apply_op mk_child D build copy_procs vr t here (OpMoveP D src tgt) uid = Err EInvalidPath.
Proof. exact @movep_missing_target_rejected. Qed.
Print Assumptions C09_movep_missing_target_rejected.

(* ... the hierarchy stays well formed *)
Theorem C09_movep_wf :
  forall (mk_child : N -> cnode * N) (D : Type) (build : D -> N -> cnode * N)
           (copy_procs : cnode -> N -> cnode * N) (vr : variant) (t : cnode)
           (here src tgt : list key) (uid : N) (t' : cnode) (rp : reports) 
           (uid' : N),
         cwf t ->
         apply_op mk_child D build copy_procs vr t here (OpMoveP D src tgt) uid = Ok (t', rp, uid') ->
         cwf t'.
Proof. exact @movep_wf. Qed.
Print Assumptions C09_movep_wf.

(* ORDER OF ONE UPDATE: a plain value update of a child listed next to the _add that creates it (in either listing order) is carried out after the _add *)
Theorem C09_upd_after_add :
  forall (mk_child : N -> cnode * N) (D : Type) (build : D -> N -> cnode * N)
           (copy_procs : cnode -> N -> cnode * N) (vr : variant) (t : cnode) 
           (here : list key) (k : key) (v st : tree Z) (uid : N),
         apply_ops mk_child D build copy_procs vr t here [OpUpd D k v; OpAdd D k st] uid =
         then_op mk_child D build copy_procs vr t here (OpAdd D k st) (OpUpd D k v) uid /\
         apply_ops mk_child D build copy_procs vr t here [OpAdd D k st; OpUpd D k v] uid =
         then_op mk_child D build copy_procs vr t here (OpAdd D k st) (OpUpd D k v) uid.
Proof. exact @upd_after_add. Qed.
Print Assumptions C09_upd_after_add.

(* ... and lands on the freshly added child: nothing of it is lost *)
Theorem C09_upd_after_add_lands :
  forall (mk_child : N -> cnode * N) (D : Type) (build : D -> N -> cnode * N)
           (copy_procs : cnode -> N -> cnode * N) (vr : variant) (t : cnode) 
           (here : list key) (k : key) (v st : tree Z) (uid : N) (ops : list (sop D)) 
           (t' : cnode) (rp : reports) (uid' : N),
         ops = [OpUpd D k v; OpAdd D k st] \/ ops = [OpAdd D k st; OpUpd D k v] ->
         apply_ops mk_child D build copy_procs vr t here ops uid = Ok (t', rp, uid') ->
         cget t (here ++ [k]) = None /\
         (exists (t1 : cnode) (rp1 : reports) (ch ch' : cnode),
            apply_op mk_child D build copy_procs vr t here (OpAdd D k st) uid = Ok (t1, rp1, uid') /\
            cget t1 (here ++ [k]) = Some ch /\
            cadd (S (tdepth v)) ch v = Ok ch' /\
            cget t' (here ++ [k]) = Some ch' /\
            cuid ch' = cuid ch /\ r_deletions rp = [] /\ r_process rp = [] /\ r_step rp = []).
Proof. exact @upd_after_add_lands. Qed.
Print Assumptions C09_upd_after_add_lands.

(* ... listed next to the _delete of the same child it is applied first; afterwards the child is gone and the deletion reported *)
Theorem C09_upd_before_delete :
  forall (mk_child : N -> cnode * N) (D : Type) (build : D -> N -> cnode * N)
           (copy_procs : cnode -> N -> cnode * N) (vr : variant) (t : cnode) 
           (here : list key) (k : key) (v : tree Z) (uid : N) (ops : list (sop D)) 
           (t' : cnode) (rp : reports) (uid' : N),
         cwf t ->
         ops = [OpDelete D k; OpUpd D k v] \/ ops = [OpUpd D k v; OpDelete D k] ->
         apply_ops mk_child D build copy_procs vr t here ops uid = Ok (t', rp, uid') ->
         cget t' (here ++ [k]) = None /\
         r_deletions rp = [here ++ [k]] /\ r_process rp = [] /\ r_step rp = [] /\ uid' = uid.
Proof. exact @upd_before_delete. Qed.
Print Assumptions C09_upd_before_delete.

(* no value update comes before _add/_move/_generate, only the divided mother's own entry comes before a _divide, and no _delete comes before a value update *)
Theorem C09_order_ops_upd_position :
  forall (D : Type) (ops : list (sop D)) (i j : nat),
         i < j < length (order_ops D ops) ->
         (forall (k : key) (v : tree Z),
          nth i (order_ops D ops) (OpDelete D 0%N) = OpUpd D k v ->
          match nth j (order_ops D ops) (OpDelete D 0%N) with
          | OpDivide _ _ _ _ => In k (mothers D ops)
          | OpDelete _ _ | OpDeletePath _ _ | OpUpd _ _ _ => True
          | _ => False
          end) /\
         (forall (k : key) (v : tree Z),
          nth j (order_ops D ops) (OpDelete D 0%N) = OpUpd D k v ->
          match nth i (order_ops D ops) (OpDelete D 0%N) with
          | OpDelete _ _ | OpDeletePath _ _ => False
          | _ => True
          end).
Proof. exact @order_ops_upd_position. Qed.
Print Assumptions C09_order_ops_upd_position.

(* a plain value update changes exactly the variables it lists (old + leaf), keeps every node, identity and kind, creates and removes nothing *)
Theorem C09_cadd_spec :
  forall (fuel : nat) (n : cnode) (v : tree Z) (n' : cnode),
         wf v ->
         cadd fuel n v = Ok n' ->
         forall q : list key,
         option_map chead (cget n' q) =
         option_map (fun x : cnode => chead (vbump x (tdelta v q))) (cget n q).
Proof. exact @cadd_spec. Qed.
Print Assumptions C09_cadd_spec.

(* a value update for a key that is no child at that point is skipped *)
Theorem C09_upd_missing_skipped :
  forall (mk_child : N -> cnode * N) (D : Type) (build : D -> N -> cnode * N)
           (copy_procs : cnode -> N -> cnode * N) (vr : variant) (t : cnode) 
           (here : list key) (k : key) (v : tree Z) (uid : N) (t' : cnode) 
           (rp : reports) (uid' : N),
         apply_op mk_child D build copy_procs vr t here (OpUpd D k v) uid = Ok (t', rp, uid') ->
         cget t (here ++ [k]) = None -> t' = t /\ uid' = uid /\ rp = upd_report.
Proof. exact @upd_missing_skipped. Qed.
Print Assumptions C09_upd_missing_skipped.

(* the entry an update holds for the mother it divides is applied before the division (fix c4841c0) *)
Theorem C09_order_ops_mother_before_divide :
  forall (D : Type) (ops : list (sop D)) (i j : nat) (m : key) (v : tree Z)
           (ds : list (key * option D * tree Z)) (ch : list bool),
         i < length (order_ops D ops) ->
         j < length (order_ops D ops) ->
         nth i (order_ops D ops) (OpDelete D 0%N) = OpUpd D m v ->
         nth j (order_ops D ops) (OpDelete D 0%N) = OpDivide D m ds ch -> i < j.
Proof. exact @order_ops_mother_before_divide. Qed.
Print Assumptions C09_order_ops_mother_before_divide.

(* every other value update comes after the _divide *)
Theorem C09_order_ops_other_upd_after_divide :
  forall (D : Type) (ops : list (sop D)) (i j : nat) (k : key) (v : tree Z) 
           (m : key) (ds : list (key * option D * tree Z)) (ch : list bool),
         i < length (order_ops D ops) ->
         j < length (order_ops D ops) ->
         nth i (order_ops D ops) (OpDelete D 0%N) = OpUpd D k v ->
         ~ In k (mothers D ops) ->
         nth j (order_ops D ops) (OpDelete D 0%N) = OpDivide D m ds ch -> j < i.
Proof. exact @order_ops_other_upd_after_divide. Qed.
Print Assumptions C09_order_ops_other_upd_after_divide.

(* record of the pinned order: the mother's entry came after her division (and was dropped) *)
Theorem C09_order_ops_pinned_mother_after_divide :
  forall (D : Type) (ops : list (sop D)) (i j : nat) (m : key) (v : tree Z)
           (ds : list (key * option D * tree Z)) (ch : list bool),
         i < length (order_ops_pinned D ops) ->
         j < length (order_ops_pinned D ops) ->
         nth i (order_ops_pinned D ops) (OpDelete D 0%N) = OpUpd D m v ->
         nth j (order_ops_pinned D ops) (OpDelete D 0%N) = OpDivide D m ds ch -> j < i.
Proof. exact @order_ops_pinned_mother_after_divide. Qed.
Print Assumptions C09_order_ops_pinned_mother_after_divide.

(* the pinned order and the current order differ on [upd m; divide m] *)
Theorem C09_order_ops_pinned_refuted :
  forall (D : Type) (m : key) (v : tree Z) (ds : list (key * option D * tree Z))
           (ch : list bool),
         order_ops_pinned D [OpUpd D m v; OpDivide D m ds ch] = [OpDivide D m ds ch; OpUpd D m v] /\
         order_ops_pinned D [OpDivide D m ds ch; OpUpd D m v] = [OpDivide D m ds ch; OpUpd D m v] /\
         order_ops D [OpUpd D m v; OpDivide D m ds ch] = [OpUpd D m v; OpDivide D m ds ch] /\
         order_ops D [OpDivide D m ds ch; OpUpd D m v] = [OpUpd D m v; OpDivide D m ds ch].
Proof. exact @order_ops_pinned_refuted. Qed.
Print Assumptions C09_order_ops_pinned_refuted.


(* ---- non-vacuity on the concrete kit (Model/StructC.v) ---- *)
Definition ex_root : cnode :=
  CDir 0 false [(10%N, CDir 3 true [(20%N, fst (build 3%N 100%N))]); (11%N, CDir 4 true [])].
Example ex_cwf : cwf ex_root.
Proof.
  repeat (constructor; cbn; try (intros H; repeat destruct H as [H|H]; try discriminate; try contradiction)).
Qed.
Example ex_move : exists t' rp, kapply_ops vfixed ex_root [10%N] [OpMove N 20%N [11%N]] 200%N = Ok (t', rp, 200%N)
                               /\ cget t' [11%N; 20%N] = cget ex_root [10%N; 20%N] /\ cget t' [10%N; 20%N] = None.
Proof. eexists. eexists. split; [vm_compute; reflexivity|]. split; vm_compute; reflexivity. Qed.
Example ex_outside : outside [10%N; 20%N; 0%N; 1%N] (named N [11%N] (OpAdd N 21%N (Nd []))).
Proof. intros nm [<-|[]]. reflexivity. Qed.

(* a nested move that fires (Proofs/MoveP_proofs.v) *)
Check movep_example.

(* _add {s:{n:7}} and a value update {s:{n:5}} of the same key in one update: 12 *)
Check ex_add_upd.

