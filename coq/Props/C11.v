(* C11 - Division gives daughters what the dividers promise; daughters are independent.
   Model: Model/Dividers.v (registry dividers; random choices are arguments), Model/Struct.v divide_value / OpDivide;
   Model/DivTree.v divide_tree / rebuild (dividers declared at any node of the mother: variables, fixed and glob
   branches; the share completed by the schema defaults); proofs: Proofs/Dividers_proofs.v, Proofs/DivTree_proofs.v.  Independence of the daughters (separate process instances, separate value
   objects) is about object identity: it is decided by the oracle of the check on real Stores (see DESIGN.md); in the
   model daughters are separate by construction (fresh uids and object ids, C09 frame).
   This file contains only statements closed by `exact`, their assumptions and non-vacuity examples.
   Generated once by tools/genprops.py from the proved lemmas (statements restated verbatim). *)
From Coq Require Import List NArith ZArith Bool Lia Sorting.Permutation.
From Viv Require Import Base.Assoc Base.Tree Model.Paths Model.Struct Model.Dividers Model.DivTree Proofs.Dividers_proofs Proofs.DivTree_proofs.
Import ListNotations.
Open Scope Z_scope.

(* split: the two shares sum to the mother value, for every integer (negative, odd, beyond 2^53) *)
Theorem C11_split_conserves :
  forall (z : Z) (b : bool), fst (divide_split z b) + snd (divide_split z b) = z.
Proof. exact @split_conserves. Qed.
Print Assumptions C11_split_conserves.

(* and differ by at most one *)
Theorem C11_split_halves :
  forall (z : Z) (b : bool), Z.abs (fst (divide_split z b) - snd (divide_split z b)) <= 1.
Proof. exact @split_halves. Qed.
Print Assumptions C11_split_halves.

(* the remainder goes to the chosen side *)
Theorem C11_split_remainder_side :
  forall z : Z,
         fst (divide_split z true) >= snd (divide_split z true) /\
         fst (divide_split z false) <= snd (divide_split z false).
Proof. exact @split_remainder_side. Qed.
Print Assumptions C11_split_remainder_side.

(* the pinned int(state / 2) lost part of a negative odd value *)
Theorem C11_split_refuted_pinned :
  exists (z : Z) (b : bool),
           fst (divide_split_pinned z b) + snd (divide_split_pinned z b) <> z.
Proof. exact @split_refuted_pinned. Qed.
Print Assumptions C11_split_refuted_pinned.

(* binomial: the total is conserved whatever the draw *)
Theorem C11_binomial_conserves :
  forall n c : Z, fst (divide_binomial n c) + snd (divide_binomial n c) = n.
Proof. exact @binomial_conserves. Qed.
Print Assumptions C11_binomial_conserves.

(* and both shares stay within 0..n *)
Theorem C11_binomial_in_range :
  forall n c : Z,
         0 <= c <= n -> 0 <= fst (divide_binomial n c) <= n /\ 0 <= snd (divide_binomial n c) <= n.
Proof. exact @binomial_in_range. Qed.
Print Assumptions C11_binomial_in_range.

(* set: both daughters get the value *)
Theorem C11_set_copies :
  forall v : dval, divide_set v = (v, v).
Proof. exact @set_copies. Qed.
Print Assumptions C11_set_copies.

(* zero: both get 0 *)
Theorem C11_zero_zeros :
  forall v : dval, divide_zero v = (DInt 0, DInt 0).
Proof. exact @zero_zeros. Qed.
Print Assumptions C11_zero_zeros.

(* set_value: both get the configured value *)
Theorem C11_set_value_config :
  forall c v : dval, divide_set_value c v = (c, c).
Proof. exact @set_value_config. Qed.
Print Assumptions C11_set_value_config.

(* split_dict: the entries are partitioned *)
Theorem C11_split_dict_partitions :
  forall d : list (key * Z),
         Permutation (fst (divide_split_dict d) ++ snd (divide_split_dict d)) d.
Proof. exact @split_dict_partitions. Qed.
Print Assumptions C11_split_dict_partitions.

(* into parts whose sizes differ by at most one *)
Theorem C11_split_dict_sizes :
  forall d : list (key * Z),
         (length (fst (divide_split_dict d)) - length (snd (divide_split_dict d)) <= 1)%nat /\
         (length (snd (divide_split_dict d)) <= length (fst (divide_split_dict d)))%nat.
Proof. exact @split_dict_sizes. Qed.
Print Assumptions C11_split_dict_sizes.

(* with disjoint key sets *)
Theorem C11_split_dict_disjoint :
  forall d : alist Z,
         NoDup (akeys d) ->
         forall k : key,
         In k (akeys (fst (divide_split_dict d))) -> ~ In k (akeys (snd (divide_split_dict d))).
Proof. exact @split_dict_disjoint. Qed.
Print Assumptions C11_split_dict_disjoint.

(* a variable with the split divider is halved inside a compartment *)
Theorem C11_divide_value_split :
  forall (u : N) (v : Z) (ch : list bool),
         divide_value (CVar u v DSplit) ch =
         (Some
            (Lf (fst (split_z v match ch with
                                | [] => true
                                | x :: _ => x
                                end)),
             Lf (snd (split_z v match ch with
                                | [] => true
                                | x :: _ => x
                                end))), tl ch).
Proof. exact @divide_value_split. Qed.
Print Assumptions C11_divide_value_split.

(* one with the set divider is copied *)
Theorem C11_divide_value_set :
  forall (u : N) (v : Z) (ch : list bool),
         divide_value (CVar u v DSet) ch = (Some (Lf v, Lf v), ch).
Proof. exact @divide_value_set. Qed.
Print Assumptions C11_divide_value_set.

(* one with the zero divider is zeroed *)
Theorem C11_divide_value_zero :
  forall (u : N) (v : Z) (ch : list bool),
         divide_value (CVar u v DZero) ch = (Some (Lf 0, Lf 0), ch).
Proof. exact @divide_value_zero. Qed.
Print Assumptions C11_divide_value_zero.

(* process nodes are skipped (null divider): daughters get their own instances from generate *)
Theorem C11_divide_value_process :
  forall (u : N) (pi : pinfo) (ch : list bool), divide_value (CProc u pi) ch = (None, ch).
Proof. exact @divide_value_process. Qed.
Print Assumptions C11_divide_value_process.

(* an explicit daughter initial state overrides the divided share *)
Theorem C11_daughter_explicit_wins :
  forall (c e : list (key * tree Z)) (k : key) (z : Z),
         alookup k e = Some (Lf z) ->
         NoDup (akeys e) -> get_in (deep_merge (Nd c) (Nd e)) [k] = Ok (Some (Lf z)).
Proof. exact @daughter_explicit_wins. Qed.
Print Assumptions C11_daughter_explicit_wins.

(* a set divider declared on a branch hands both daughters the whole subtree, whatever is declared below *)
Theorem C11_branch_set_copies :
  forall (g : bool) (c : list (key * dnode)) (ch : list bool),
         divide_tree true (DB g BSet c) ch = (Some (Nd (cvalues c), Nd (cvalues c)), ch).
Proof. exact @branch_set_copies. Qed.
Print Assumptions C11_branch_set_copies.

(* set_value on a branch: both daughters get the configured value *)
Theorem C11_branch_set_value_config :
  forall (g : bool) (v : tree Z) (c : list (key * dnode)) (ch : list bool),
         divide_tree true (DB g (BSetValue v) c) ch = (Some (v, v), ch).
Proof. exact @branch_set_value_config. Qed.
Print Assumptions C11_branch_set_value_config.

(* split_dict on a branch: second half of the entries to the first daughter, first half to the second *)
Theorem C11_branch_split_dict_shares :
  forall (g : bool) (c : list (key * dnode)) (ch : list bool),
         divide_tree true (DB g BSplitDict c) ch =
         (Some
            (Nd (skipn (half_len (cvalues c)) (cvalues c)),
             Nd (firstn (half_len (cvalues c)) (cvalues c))), ch).
Proof. exact @branch_split_dict_shares. Qed.
Print Assumptions C11_branch_split_dict_shares.

(* the two shares partition the entries (each entry whole), sizes differ by at most one, no random choice is consumed *)
Theorem C11_branch_split_dict_partitions :
  forall (g : bool) (c : list (key * dnode)) (ch : list bool) (l1 l2 : list (key * tree Z))
           (ch' : list bool),
         divide_tree true (DB g BSplitDict c) ch = (Some (Nd l1, Nd l2), ch') ->
         l2 ++ l1 = cvalues c /\
         Permutation (l1 ++ l2) (cvalues c) /\
         (length l1 = length l2 \/ length l1 = S (length l2)) /\ ch' = ch.
Proof. exact @branch_split_dict_partitions. Qed.
Print Assumptions C11_branch_split_dict_partitions.

(* with disjoint key sets *)
Theorem C11_branch_split_dict_disjoint :
  forall (g : bool) (c : list (key * dnode)) (ch : list bool) (l1 l2 : list (key * tree Z))
           (ch' : list bool),
         NoDup (map fst c) ->
         divide_tree true (DB g BSplitDict c) ch = (Some (Nd l1, Nd l2), ch') ->
         forall k : key, In k (map fst l1) -> In k (map fst l2) -> False.
Proof. exact @branch_split_dict_disjoint. Qed.
Print Assumptions C11_branch_split_dict_disjoint.

(* split variables under branches without divider or with split_dict: the shares sum to the mother total, for every tree and every random choice *)
Theorem C11_conserving_total :
  forall n : dnode,
         conserving n ->
         forall (ch : list bool) (a b : tree Z) (ch' : list bool),
         divide_tree true n ch = (Some (a, b), ch') -> tsum a + tsum b = tsum (dvalue n).
Proof. exact @conserving_total. Qed.
Print Assumptions C11_conserving_total.

(* (no share at all only when there is nothing to share) *)
Theorem C11_conserving_none :
  forall n : dnode,
         conserving n ->
         forall ch ch' : list bool, divide_tree true n ch = (None, ch') -> tsum (dvalue n) = 0.
Proof. exact @conserving_none. Qed.
Print Assumptions C11_conserving_none.

(* a branch without divider passes each of its variables to both daughters through the variable's own divider *)
Theorem C11_no_divider_recurses :
  forall (g : bool) (c : list (key * dnode)) (ch : list bool) (k : key) (v dflt : Z) (d : lk),
         c <> [] ->
         In (k, DL v dflt d) c ->
         exists (l1 l2 : list (key * tree Z)) (ch' : list bool),
           divide_tree true (DB g BNone c) ch = (Some (Nd l1, Nd l2), ch') /\
           In k (map fst l1) /\ In k (map fst l2).
Proof. exact @no_divider_recurses. Qed.
Print Assumptions C11_no_divider_recurses.

(* a daughter that receives the whole value holds the mother's values *)
Theorem C11_rebuild_whole_value :
  forall n : dnode, wf_dnode n -> dvalue (rebuild n (Some (dvalue n))) = dvalue n.
Proof. exact @rebuild_whole_value. Qed.
Print Assumptions C11_rebuild_whole_value.

(* a fixed branch of a daughter keeps every declared child (completed by defaults) *)
Theorem C11_rebuild_fixed_keys :
  forall (d : bk) (c : list (key * dnode)) (t : option (tree Z)),
         match rebuild (DB false d c) t with
         | DL _ _ _ => False
         | DB _ _ c' => map fst c' = map fst c
         end.
Proof. exact @rebuild_fixed_keys. Qed.
Print Assumptions C11_rebuild_fixed_keys.

(* a glob branch of a daughter holds only entries of its share *)
Theorem C11_rebuild_glob_keys :
  forall (d : bk) (c : list (key * dnode)) (l : list (key * tree Z)) (k : key),
         match rebuild (DB true d c) (Some (Nd l)) with
         | DL _ _ _ => False
         | DB _ _ c' => In k (map fst c') -> In k (map fst l) /\ In k (map fst c)
         end.
Proof. exact @rebuild_glob_keys. Qed.
Print Assumptions C11_rebuild_glob_keys.

(* a variable without a share starts from its declared default *)
Theorem C11_rebuild_leaf_default :
  forall (v dflt : Z) (d : lk), dvalue (rebuild (DL v dflt d) None) = Lf dflt.
Proof. exact @rebuild_leaf_default. Qed.
Print Assumptions C11_rebuild_leaf_default.

(* a variable with a share starts from the share *)
Theorem C11_rebuild_leaf_share :
  forall (v dflt : Z) (d : lk) (z : Z), dvalue (rebuild (DL v dflt d) (Some (Lf z))) = Lf z.
Proof. exact @rebuild_leaf_share. Qed.
Print Assumptions C11_rebuild_leaf_share.

(* consulting dividers on childless nodes only (children first) hands every entry of a split_dict branch to both daughters *)
Theorem C11_children_first_refuted :
  fst (divide_tree false sd_example []) <> fst (divide_tree true sd_example []) /\
         fst (divide_tree false sd_example []) = Some (dvalue sd_example, dvalue sd_example).
Proof. exact @children_first_refuted. Qed.
Print Assumptions C11_children_first_refuted.


Example ex_split : divide_split (-3) true = (-1, -2) /\ divide_split 9007199254740995 false = (4503599627370497, 4503599627370498).
Proof. split; reflexivity. Qed.

