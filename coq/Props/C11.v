(* C11 - Division gives daughters what the dividers promise; daughters are independent.
   Model: Model/Dividers.v (registry dividers; random choices are arguments), Model/Struct.v divide_value / OpDivide;
   proofs: Proofs/Dividers_proofs.v.  Independence of the daughters (separate process instances, separate value
   objects) is about object identity: it is decided by the oracle of the check on real Stores (see DESIGN.md); in the
   model daughters are separate by construction (fresh uids and object ids, C09 frame).
   This file contains only statements closed by `exact`, their assumptions and non-vacuity examples.
   Generated once by tools/genprops.py from the proved lemmas (statements restated verbatim). *)
From Coq Require Import List NArith ZArith Bool Lia Sorting.Permutation.
From Viv Require Import Base.Assoc Base.Tree Model.Paths Model.Struct Model.Dividers Proofs.Dividers_proofs.
Import ListNotations.
Open Scope Z_scope.

(* split: the two shares sum to the mother value, for every integer (negative, odd, beyond 2^53) *)
Theorem C11_split_conserves :
  forall (z : Z) (b : bool), fst (divide_split z b) + snd (divide_split z b) = z.
Proof. exact @split_conserves. Qed.
Print Assumptions C11_split_conserves.

(* and differ by at most one *)
Theorem C11_split_halves :
  forall (z : Z) (b : bool), Z.abs (fst (divide_split z b) - snd (divide_split z b)) <= 1.
Proof. exact @split_halves. Qed.
Print Assumptions C11_split_halves.

(* the remainder goes to the chosen side *)
Theorem C11_split_remainder_side :
  forall z : Z,
         fst (divide_split z true) >= snd (divide_split z true) /\
         fst (divide_split z false) <= snd (divide_split z false).
Proof. exact @split_remainder_side. Qed.
Print Assumptions C11_split_remainder_side.

(* the pinned int(state / 2) lost part of a negative odd value *)
Theorem C11_split_refuted_pinned :
  exists (z : Z) (b : bool),
           fst (divide_split_pinned z b) + snd (divide_split_pinned z b) <> z.
Proof. exact @split_refuted_pinned. Qed.
Print Assumptions C11_split_refuted_pinned.

(* binomial: the total is conserved whatever the draw *)
Theorem C11_binomial_conserves :
  forall n c : Z, fst (divide_binomial n c) + snd (divide_binomial n c) = n.
Proof. exact @binomial_conserves. Qed.
Print Assumptions C11_binomial_conserves.

(* and both shares stay within 0..n *)
Theorem C11_binomial_in_range :
  forall n c : Z,
         0 <= c <= n -> 0 <= fst (divide_binomial n c) <= n /\ 0 <= snd (divide_binomial n c) <= n.
Proof. exact @binomial_in_range. Qed.
Print Assumptions C11_binomial_in_range.

(* set: both daughters get the value *)
Theorem C11_set_copies :
  forall v : dval, divide_set v = (v, v).
Proof. exact @set_copies. Qed.
Print Assumptions C11_set_copies.

(* zero: both get 0 *)
Theorem C11_zero_zeros :
  forall v : dval, divide_zero v = (DInt 0, DInt 0).
Proof. exact @zero_zeros. Qed.
Print Assumptions C11_zero_zeros.

(* set_value: both get the configured value *)
Theorem C11_set_value_config :
  forall c v : dval, divide_set_value c v = (c, c).
Proof. exact @set_value_config. Qed.
Print Assumptions C11_set_value_config.

(* split_dict: the entries are partitioned *)
Theorem C11_split_dict_partitions :
  forall d : list (key * Z),
         Permutation (fst (divide_split_dict d) ++ snd (divide_split_dict d)) d.
Proof. exact @split_dict_partitions. Qed.
Print Assumptions C11_split_dict_partitions.

(* into parts whose sizes differ by at most one *)
Theorem C11_split_dict_sizes :
  forall d : list (key * Z),
         (length (fst (divide_split_dict d)) - length (snd (divide_split_dict d)) <= 1)%nat /\
         (length (snd (divide_split_dict d)) <= length (fst (divide_split_dict d)))%nat.
Proof. exact @split_dict_sizes. Qed.
Print Assumptions C11_split_dict_sizes.

(* with disjoint key sets *)
Theorem C11_split_dict_disjoint :
  forall d : alist Z,
         NoDup (akeys d) ->
         forall k : key,
         In k (akeys (fst (divide_split_dict d))) -> ~ In k (akeys (snd (divide_split_dict d))).
Proof. exact @split_dict_disjoint. Qed.
Print Assumptions C11_split_dict_disjoint.

(* a variable with the split divider is halved inside a compartment *)
Theorem C11_divide_value_split :
  forall (u : N) (v : Z) (ch : list bool),
         divide_value (CVar u v DSplit) ch =
         (Some
            (Lf (fst (split_z v match ch with
                                | [] => true
                                | x :: _ => x
                                end)),
             Lf (snd (split_z v match ch with
                                | [] => true
                                | x :: _ => x
                                end))), tl ch).
Proof. exact @divide_value_split. Qed.
Print Assumptions C11_divide_value_split.

(* one with the set divider is copied *)
Theorem C11_divide_value_set :
  forall (u : N) (v : Z) (ch : list bool),
         divide_value (CVar u v DSet) ch = (Some (Lf v, Lf v), ch).
Proof. exact @divide_value_set. Qed.
Print Assumptions C11_divide_value_set.

(* one with the zero divider is zeroed *)
Theorem C11_divide_value_zero :
  forall (u : N) (v : Z) (ch : list bool),
         divide_value (CVar u v DZero) ch = (Some (Lf 0, Lf 0), ch).
Proof. exact @divide_value_zero. Qed.
Print Assumptions C11_divide_value_zero.

(* process nodes are skipped (null divider): daughters get their own instances from generate *)
Theorem C11_divide_value_process :
  forall (u : N) (pi : pinfo) (ch : list bool), divide_value (CProc u pi) ch = (None, ch).
Proof. exact @divide_value_process. Qed.
Print Assumptions C11_divide_value_process.

(* an explicit daughter initial state overrides the divided share *)
Theorem C11_daughter_explicit_wins :
  forall (c e : list (key * tree Z)) (k : key) (z : Z),
         alookup k e = Some (Lf z) ->
         NoDup (akeys e) -> get_in (deep_merge (Nd c) (Nd e)) [k] = Ok (Some (Lf z)).
Proof. exact @daughter_explicit_wins. Qed.
Print Assumptions C11_daughter_explicit_wins.


Example ex_split : divide_split (-3) true = (-1, -2) /\ divide_split 9007199254740995 false = (4503599627370497, 4503599627370498).
Proof. split; reflexivity. Qed.

