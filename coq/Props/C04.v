(* C04 - Processes started together see one committed snapshot (scheduler part).
   Model: Model/Sched.v; proofs: Proofs/Sched_clock_proofs.v.  The permutation-invariance clause is decided by the
   metamorphic correspondence stream of the check (shuffled listings), see DESIGN.md.
   This file contains only statements closed by `exact`, their assumptions and non-vacuity examples.
   Generated once by tools/genprops.py from the proved lemmas (statements restated verbatim). *)
From Coq Require Import List NArith ZArith Bool Lia Sorting.Sorted.
From Viv Require Import Model.Sched Model.SchedC Proofs.Sched_defs Proofs.Sched_clock_proofs Proofs.Sched_once_proofs Proofs.SchedC_witness.
Import ListNotations.
Open Scope Z_scope.

(* all invocations of one scheduler instant carry the same committed state and the same time *)
Theorem C04_iter_invokes :
  forall (Sg U W : Type) (poll : W -> pid -> Sg -> Z * W)
           (cond : W -> pid -> Z -> Sg -> bool * W) (next : W -> pid -> Z -> Sg -> U * W)
           (commit : Sg -> list pid -> list (pid * U) -> Sg * list pid) (ee : option Z) 
           (endt : Z) (force : bool) (et : Z) (s s' : st Sg U W) (f' : bool) 
           (et' : Z) (ok : bool),
         iter Sg U W poll cond next commit vfixed ee endt force et s = (s', f', et', ok) ->
         exists new : list (event Sg),
           log Sg U W s' = new ++ log Sg U W s /\
           Forall
             (fun e : event Sg =>
              match e with
              | EInvoke _ _ start fin ts req now v =>
                  ts = fin - start /\
                  now = gt Sg U W s /\
                  v = sto Sg U W s /\
                  start <= now /\ fin <= endt /\ (ts = req \/ force = true /\ fin = endt /\ ts < req)
              | _ => True
              end) new.
Proof. exact @iter_invokes. Qed.
Print Assumptions C04_iter_invokes.

(* and no update is applied between them: within a pass all invocations precede all applications, which precede the rows *)
Theorem C04_iter_log_shape :
  forall (Sg U W : Type) (poll : W -> pid -> Sg -> Z * W)
           (cond : W -> pid -> Z -> Sg -> bool * W) (next : W -> pid -> Z -> Sg -> U * W)
           (commit : Sg -> list pid -> list (pid * U) -> Sg * list pid) (vr : variant)
           (ee : option Z) (endt : Z) (force : bool) (et : Z) (s s' : st Sg U W) 
           (f' : bool) (et' : Z) (ok : bool),
         iter Sg U W poll cond next commit vr ee endt force et s = (s', f', et', ok) ->
         exists rows applies polls drops : list (event Sg),
           log Sg U W s' = rows ++ applies ++ polls ++ drops ++ log Sg U W s /\
           forallb is_emit rows = true /\
           forallb is_apply applies = true /\
           forallb is_poll polls = true /\ forallb is_drop drops = true.
Proof. exact @iter_log_shape. Qed.
Print Assumptions C04_iter_log_shape.


(* ---- non-vacuity: a reachable state of a concrete composite meets the hypotheses ---- *)
Definition ex_specs : list (pid * pspec) :=
  [(0%N, {| p_ts := TsConst 20; p_cond := CTrue |}); (1%N, {| p_ts := TsState [16; 8]; p_cond := CState [true; false] |})].
Definition ex_run := run_calls cst cupd cw (cpoll ex_specs) (ccond ex_specs) cnext ccommit vfixed None 400
                               [(48, false); (40, true)] (start_state 0 [0%N; 1%N]).
Example ex_run_ok : exists s', ex_run = (Some s', true) /\ gt _ _ _ s' = 88 /\ complete _ _ _ s' = true
                               /\ (length (log _ _ _ s') > 10)%nat.
Proof. eexists. split; [vm_compute; reflexivity|]. repeat split; vm_compute; try reflexivity. lia. Qed.
Example ex_commit_nodup : forall s ps us, NoDup ps -> NoDup (snd (ccommit s ps us)).
Proof. intros s ps us H. exact H. Qed.

