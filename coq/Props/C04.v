(* C04 - Processes started together see one committed snapshot (scheduler part).
   Model: Model/Sched.v; proofs: Proofs/Sched_clock_proofs.v.  The permutation-invariance clause is the theorem
   listing_order_moot (Proofs/Sched_perm_proofs.v), for processes; the listing order of ports, of topology entries
   and of steps, and the real engine, are decided by the metamorphic correspondence stream (shuffled listings).
   This file contains only statements closed by `exact`, their assumptions and non-vacuity examples.
   Generated once by tools/genprops.py from the proved lemmas (statements restated verbatim). *)
From Coq Require Import List NArith ZArith Bool Lia Sorting.Sorted Sorting.Permutation.
From Viv Require Import Model.Sched Model.SchedC Proofs.Sched_defs Proofs.Sched_clock_proofs Proofs.Sched_once_proofs Proofs.SchedC_witness Proofs.Sched_perm_proofs Model.Views Proofs.Views_proofs Model.Steps Proofs.Steps_proofs Proofs.StepsPerm_proofs.
Import ListNotations.
Open Scope Z_scope.

(* all invocations of one scheduler instant carry the same committed state and the same time *)
Theorem C04_iter_invokes :
  forall (Sg U W : Type) (poll : W -> pid -> Sg -> Z * W)
           (cond : W -> pid -> Z -> Sg -> bool * W) (next : W -> pid -> Z -> Sg -> U * W)
           (commit : Sg -> list pid -> list (pid * U) -> Sg * list pid) (ee : option Z) 
           (endt : Z) (force : bool) (et : Z) (s s' : st Sg U W) (f' : bool) 
           (et' : Z) (ok : bool),
         iter Sg U W poll cond next commit vfixed ee endt force et s = (s', f', et', ok) ->
         exists new : list (event Sg),
           log Sg U W s' = new ++ log Sg U W s /\
           Forall
             (fun e : event Sg =>
              match e with
              | EInvoke _ _ start fin ts req now v =>
                  ts = fin - start /\
                  now = gt Sg U W s /\
                  v = sto Sg U W s /\
                  start <= now /\ fin <= endt /\ (ts = req \/ force = true /\ fin = endt /\ ts < req)
              | _ => True
              end) new.
Proof. exact @iter_invokes. Qed.
Print Assumptions C04_iter_invokes.

(* and no update is applied between them: within a pass all invocations precede all applications, which precede the rows *)
Theorem C04_iter_log_shape :
  forall (Sg U W : Type) (poll : W -> pid -> Sg -> Z * W)
           (cond : W -> pid -> Z -> Sg -> bool * W) (next : W -> pid -> Z -> Sg -> U * W)
           (commit : Sg -> list pid -> list (pid * U) -> Sg * list pid) (vr : variant)
           (ee : option Z) (endt : Z) (force : bool) (et : Z) (s s' : st Sg U W) 
           (f' : bool) (et' : Z) (ok : bool),
         iter Sg U W poll cond next commit vr ee endt force et s = (s', f', et', ok) ->
         exists rows applies polls drops : list (event Sg),
           log Sg U W s' = rows ++ applies ++ polls ++ drops ++ log Sg U W s /\
           forallb is_emit rows = true /\
           forallb is_apply applies = true /\
           forallb is_poll polls = true /\ forallb is_drop drops = true.
Proof. exact @iter_log_shape. Qed.
Print Assumptions C04_iter_log_shape.

(* LISTING ORDER IS MOOT: when timestep, condition and update are functions of the viewed state and the application of a batch does not depend on the order of its updates, two engines whose process lists are permutations of each other produce, for any sequence of run_for calls, the same clock, the same store, the same emitted rows and the same fronts (and run out of fuel together) *)
Theorem C04_listing_order_moot :
  forall (Sg U W : Type) (poll : W -> pid -> Sg -> Z * W)
           (cond : W -> pid -> Z -> Sg -> bool * W) (next : W -> pid -> Z -> Sg -> U * W)
           (commit : Sg -> list pid -> list (pid * U) -> Sg * list pid) (vr : variant)
           (emit_every : option Z) (pollf : pid -> Sg -> Z) (condf : pid -> Z -> Sg -> bool)
           (nextf : pid -> Z -> Sg -> U),
         (forall (w : W) (p : pid) (s : Sg), poll w p s = (pollf p s, w)) ->
         (forall (w : W) (p : pid) (ts : Z) (s : Sg), cond w p ts s = (condf p ts s, w)) ->
         (forall (w : W) (p : pid) (ts : Z) (s : Sg), next w p ts s = (nextf p ts s, w)) ->
         forall capply : Sg -> list (pid * U) -> Sg,
         (forall (s : Sg) (ps : list pid) (us : list (pid * U)), commit s ps us = (capply s us, ps)) ->
         (forall (s : Sg) (us us' : list (pid * U)), Permutation us us' -> capply s us = capply s us') ->
         forall (fuel : nat) (calls : list (Z * bool)) (t0 : Z) (ps ps' : list pid) 
           (s0 : Sg) (w0 : W),
         Permutation ps ps' ->
         NoDup ps ->
         let (o, oka) :=
           run_calls Sg U W poll cond next commit vr emit_every fuel calls (init Sg U W t0 ps s0 w0) in
         match o with
         | Some a =>
             let (o0, okb) :=
               run_calls Sg U W poll cond next commit vr emit_every fuel calls
                 (init Sg U W t0 ps' s0 w0) in
             match o0 with
             | Some b =>
                 gt Sg U W a = gt Sg U W b /\
                 sto Sg U W a = sto Sg U W b /\
                 rows Sg (log Sg U W a) = rows Sg (log Sg U W b) /\
                 (forall p : pid, flook U (frt Sg U W a) p = flook U (frt Sg U W b) p) /\ oka = okb
             | None => False
             end
         | None =>
             let (o0, okb) :=
               run_calls Sg U W poll cond next commit vr emit_every fuel calls
                 (init Sg U W t0 ps' s0 w0) in
             match o0 with
             | Some _ => False
             | None => oka = okb
             end
         end.
Proof. exact @listing_order_moot. Qed.
Print Assumptions C04_listing_order_moot.

(* ... one pass of the loop preserves the equivalence (fronts as maps, process lists up to permutation) *)
Theorem C04_iter_equiv :
  forall (Sg U W : Type) (poll : W -> pid -> Sg -> Z * W)
           (cond : W -> pid -> Z -> Sg -> bool * W) (next : W -> pid -> Z -> Sg -> U * W)
           (commit : Sg -> list pid -> list (pid * U) -> Sg * list pid) (vr : variant)
           (emit_every : option Z) (pollf : pid -> Sg -> Z) (condf : pid -> Z -> Sg -> bool)
           (nextf : pid -> Z -> Sg -> U),
         (forall (w : W) (p : pid) (s : Sg), poll w p s = (pollf p s, w)) ->
         (forall (w : W) (p : pid) (ts : Z) (s : Sg), cond w p ts s = (condf p ts s, w)) ->
         (forall (w : W) (p : pid) (ts : Z) (s : Sg), next w p ts s = (nextf p ts s, w)) ->
         forall capply : Sg -> list (pid * U) -> Sg,
         (forall (s : Sg) (ps : list pid) (us : list (pid * U)), commit s ps us = (capply s us, ps)) ->
         (forall (s : Sg) (us us' : list (pid * U)), Permutation us us' -> capply s us = capply s us') ->
         forall (endt : Z) (force : bool) (et : Z) (a b : st Sg U W),
         st_equiv Sg U W a b ->
         let
         '(a', fa, eta, oka) := iter Sg U W poll cond next commit vr emit_every endt force et a in
          let
          '(b', fb, etb, okb) := iter Sg U W poll cond next commit vr emit_every endt force et b in
           st_equiv Sg U W a' b' /\ fa = fb /\ eta = etb /\ oka = okb.
Proof. exact @iter_equiv. Qed.
Print Assumptions C04_iter_equiv.

(* ... engine construction from permuted listings gives equivalent states *)
Theorem C04_init_equiv :
  forall (Sg U W : Type) (t0 : Z) (ps ps' : list pid) (s0 : Sg) (w0 : W),
         Permutation ps ps' ->
         NoDup ps -> st_equiv Sg U W (init Sg U W t0 ps s0 w0) (init Sg U W t0 ps' s0 w0).
Proof. exact @init_equiv. Qed.
Print Assumptions C04_init_equiv.

(* the hypotheses are satisfiable: the statement instantiated with additive integer updates *)
Theorem C04_listing_order_moot_additive :
  forall (vr : variant) (ee : option Z) (fuel : nat) (calls : list (Z * bool)) 
           (t0 : Z) (ps ps' : list pid) (s0 : Z),
         Permutation ps ps' ->
         NoDup ps ->
         let poll := fun (w : unit) (_ : pid) (_ : Z) => (1, w) in
         let cond := fun (w : unit) (_ : pid) (_ _ : Z) => (true, w) in
         let next := fun (w : unit) (p : pid) (ts s : Z) => (Z.of_N p * ts + s, w) in
         let commit := fun (s : Z) (qs : list pid) (us : list (pid * Z)) => (pm_sum s us, qs) in
         let (o, oka) :=
           run_calls Z Z unit poll cond next commit vr ee fuel calls (init Z Z unit t0 ps s0 tt) in
         match o with
         | Some a =>
             let (o0, okb) :=
               run_calls Z Z unit poll cond next commit vr ee fuel calls (init Z Z unit t0 ps' s0 tt) in
             match o0 with
             | Some b =>
                 gt Z Z unit a = gt Z Z unit b /\
                 sto Z Z unit a = sto Z Z unit b /\
                 rows Z (log Z Z unit a) = rows Z (log Z Z unit b) /\
                 (forall p : pid, flook Z (frt Z Z unit a) p = flook Z (frt Z Z unit b) p) /\
                 oka = okb
             | None => False
             end
         | None =>
             let (o0, okb) :=
               run_calls Z Z unit poll cond next commit vr ee fuel calls (init Z Z unit t0 ps' s0 tt) in
             match o0 with
             | Some _ => False
             | None => oka = okb
             end
         end.
Proof. exact @listing_order_moot_additive. Qed.
Print Assumptions C04_listing_order_moot_additive.

(* THE VIEW IS ALWAYS CURRENT: through any run - passes of polling, each followed by the application of the due updates (structural or not) and the step phase with its layers - every process and every step is handed the cached view of the hierarchy as it is at that moment, provided Store.apply_update reports view_expire whenever the node structure changes (Engine._send_updates / run_steps rebuild rule) *)
Theorem C04_views_always_current :
  forall (S U R : Type) (refs : S -> R) (app : S -> U -> S * bool),
         (forall (s : S) (u : U), snd (app s u) = false -> refs (fst (app s u)) = refs s) ->
         forall (passes : list (list (step_fn S U R) * list (list (step_fn S U R))))
           (st st' : vst S R) (ev : list (vev R)),
         Inv S R refs st ->
         run_passes S U R refs app vcur passes st = (st', ev) ->
         Inv S R refs st' /\ Forall (ev_ok R) ev.
Proof. exact @views_always_current. Qed.
Print Assumptions C04_views_always_current.

(* ... one Engine._send_updates call preserves "cache = structure of the current store" and every step invocation inside it reads a current view *)
Theorem C04_send_updates_inv :
  forall (S U R : Type) (refs : S -> R) (app : S -> U -> S * bool),
         (forall (s : S) (u : U), snd (app s u) = false -> refs (fst (app s u)) = refs s) ->
         forall (us : list U) (layers : list (list (step_fn S U R))) (st st' : vst S R)
           (ev : list (vev R)),
         Inv S R refs st ->
         send_updates S U R refs app vcur us layers st = (st', ev) ->
         Inv S R refs st' /\ Forall (ev_ok R) ev.
Proof. exact @send_updates_inv. Qed.
Print Assumptions C04_send_updates_inv.

(* LISTING ORDER OF FLOW STEPS IS MOOT: two step graphs with the same steps and the same dependencies, added in any order, give the same execution layers (legacy derivers keep their declaration order by design) *)
Theorem C04_layers_listing_order_moot :
  forall g g' : sgraph,
         seq g = seq g' ->
         NoDup (gnodes g) ->
         Permutation (gnodes g) (gnodes g') ->
         (forall e : node * node, In e (gedges g) <-> In e (gedges g')) -> layers g = layers g'.
Proof. exact @layers_listing_order_moot. Qed.
Print Assumptions C04_layers_listing_order_moot.

(* ... hence the same step phase: same invocations with the same states in the same order, same final state *)
Theorem C04_run_phase_listing_order_moot :
  forall (Sg U : Type) (step_fn : node -> Sg -> U)
           (apply1 : Sg -> list node -> node -> U -> Sg * list node) (g g' : sgraph) 
           (s : Sg) (live : list node),
         seq g = seq g' ->
         NoDup (gnodes g) ->
         Permutation (gnodes g) (gnodes g') ->
         (forall e : node * node, In e (gedges g) <-> In e (gedges g')) ->
         run_phase Sg U step_fn apply1 g s live = run_phase Sg U step_fn apply1 g' s live.
Proof. exact @run_phase_listing_order_moot. Qed.
Print Assumptions C04_run_phase_listing_order_moot.


(* ---- non-vacuity: a reachable state of a concrete composite meets the hypotheses ---- *)
Definition ex_specs : list (pid * pspec) :=
  [(0%N, {| p_ts := TsConst 20; p_cond := CTrue |}); (1%N, {| p_ts := TsState [16; 8]; p_cond := CState [true; false] |})].
Definition ex_run := run_calls cst cupd cw (cpoll ex_specs) (ccond ex_specs) cnext ccommit vfixed None 400
                               [(48, false); (40, true)] (start_state 0 [0%N; 1%N]).
Example ex_run_ok : exists s', ex_run = (Some s', true) /\ gt _ _ _ s' = 88 /\ complete _ _ _ s' = true
                               /\ (length (log _ _ _ s') > 10)%nat.
Proof. eexists. split; [vm_compute; reflexivity|]. repeat split; vm_compute; try reflexivity. lia. Qed.
Example ex_commit_nodup : forall s ps us, NoDup ps -> NoDup (snd (ccommit s ps us)).
Proof. intros s ps us H. exact H. Qed.

(* the premise of views_always_current is satisfiable, and the current rule leaves nothing stale on the schedules of the refutations *)
Check capp_reports.
Check current_code_ok.

