(* C12 - The emitted history is a faithful, ordered sequence of state snapshots (scheduler part).
   Model: Model/Sched.v; proofs: Proofs/Sched_clock_proofs.v; witness: Proofs/SchedC_witness.v.
   The content of a row as a function of the store (emit flags, custom serializers, unset values, branch-level _emit,
   set_emit_value) is Model/Emit.v with Proofs/Emit_proofs.v; unit conversion of emitted quantities is C14's model.
   This file contains only statements closed by `exact`, their assumptions and non-vacuity examples.
   Generated once by tools/genprops.py from the proved lemmas (statements restated verbatim). *)
From Coq Require Import List NArith ZArith Bool Lia Sorting.Sorted.
From Viv Require Import Base.Assoc Base.Tree Model.Emit Proofs.Emit_proofs Model.Sched Model.SchedC Proofs.Sched_defs Proofs.Sched_clock_proofs Proofs.Sched_once_proofs Proofs.SchedC_witness.
From Viv Require Import Model.EmitFlags Proofs.EmitFlags_proofs.
Import ListNotations.
Open Scope Z_scope.

(* the log of a freshly built engine holds exactly the first history row *)
Theorem C12_init_inv :
  forall (Sg U W : Type) (t0 : Z) (ps : list pid) (s0 : Sg) (w0 : W),
         NoDup ps ->
         let s := init Sg U W t0 ps s0 w0 in
         Inv Sg U W s /\ balanced s /\ idle_tight s /\ log_app_ok (log Sg U W s) /\ fronts_le t0 s.
Proof. exact @init_inv. Qed.
Print Assumptions C12_init_inv.

(* a row is the committed state after the batch (updates and steps), stamped with the time of the batch *)
Theorem C12_iter_row_content :
  forall (Sg U W : Type) (poll : W -> pid -> Sg -> Z * W)
           (cond : W -> pid -> Z -> Sg -> bool * W) (next : W -> pid -> Z -> Sg -> U * W)
           (commit : Sg -> list pid -> list (pid * U) -> Sg * list pid) (vr : variant)
           (ee : option Z) (endt : Z) (force : bool) (et : Z) (s s' : st Sg U W) 
           (f' : bool) (et' : Z) (ok : bool),
         iter Sg U W poll cond next commit vr ee endt force et s = (s', f', et', ok) ->
         exists new : list (event Sg),
           log Sg U W s' = new ++ log Sg U W s /\
           Forall
             (fun e : event Sg =>
              match e with
              | EEmit _ now x => now = gt Sg U W s' /\ x = sto Sg U W s'
              | _ => True
              end) new.
Proof. exact @iter_row_content. Qed.
Print Assumptions C12_iter_row_content.

(* emit_step 1: exactly one row for every time at which updates were applied, none otherwise *)
Theorem C12_iter_rows_every_batch :
  forall (Sg U W : Type) (poll : W -> pid -> Sg -> Z * W)
           (cond : W -> pid -> Z -> Sg -> bool * W) (next : W -> pid -> Z -> Sg -> U * W)
           (commit : Sg -> list pid -> list (pid * U) -> Sg * list pid) (vr : variant) 
           (endt : Z) (force : bool) (et : Z) (s s' : st Sg U W) (f' : bool) 
           (et' : Z) (ok : bool),
         iter Sg U W poll cond next commit vr None endt force et s = (s', f', et', ok) ->
         exists new : list (event Sg),
           log Sg U W s' = new ++ log Sg U W s /\
           (emit_times new = [] \/
            (exists rest : list (event Sg),
               new = EEmit Sg (gt Sg U W s') (sto Sg U W s') :: rest /\ emit_times rest = [])).
Proof. exact @iter_rows_every_batch. Qed.
Print Assumptions C12_iter_rows_every_batch.

(* any emit_step: at most one row per batch *)
Theorem C12_iter_rows_at_most_one :
  forall (Sg U W : Type) (poll : W -> pid -> Sg -> Z * W)
           (cond : W -> pid -> Z -> Sg -> bool * W) (next : W -> pid -> Z -> Sg -> U * W)
           (commit : Sg -> list pid -> list (pid * U) -> Sg * list pid) (ee : option Z) 
           (endt : Z) (force : bool) (et : Z) (s s' : st Sg U W) (f' : bool) 
           (et' : Z) (ok : bool),
         iter Sg U W poll cond next commit vfixed ee endt force et s = (s', f', et', ok) ->
         exists new : list (event Sg),
           log Sg U W s' = new ++ log Sg U W s /\ (length (emit_times new) <= 1)%nat.
Proof. exact @iter_rows_at_most_one. Qed.
Print Assumptions C12_iter_rows_at_most_one.

(* time keys strictly increase (one pass) *)
Theorem C12_iter_emits_increasing :
  forall (Sg U W : Type) (poll : W -> pid -> Sg -> Z * W)
           (cond : W -> pid -> Z -> Sg -> bool * W) (next : W -> pid -> Z -> Sg -> U * W)
           (commit : Sg -> list pid -> list (pid * U) -> Sg * list pid) (ee : option Z) 
           (endt : Z) (force : bool) (et : Z) (s s' : st Sg U W) (f' : bool) 
           (et' : Z),
         gt Sg U W s < endt ->
         iter Sg U W poll cond next commit vfixed ee endt force et s = (s', f', et', true) ->
         emits_le (gt Sg U W s) (log Sg U W s) ->
         StronglySorted Z.gt (emit_times (log Sg U W s)) ->
         emits_le (gt Sg U W s') (log Sg U W s') /\ StronglySorted Z.gt (emit_times (log Sg U W s')).
Proof. exact @iter_emits_increasing. Qed.
Print Assumptions C12_iter_emits_increasing.

(* time keys strictly increase over a whole call with a positive interval (interval 0 is known finding K5) *)
Theorem C12_run_for_emits_increasing :
  forall (Sg U W : Type) (poll : W -> pid -> Sg -> Z * W)
           (cond : W -> pid -> Z -> Sg -> bool * W) (next : W -> pid -> Z -> Sg -> U * W)
           (commit : Sg -> list pid -> list (pid * U) -> Sg * list pid) (ee : option Z) 
           (fuel : nat) (i : Z) (force : bool) (s s' : st Sg U W),
         0 < i ->
         run_for Sg U W poll cond next commit vfixed ee fuel i force s = (Some s', true) ->
         emits_le (gt Sg U W s) (log Sg U W s) ->
         StronglySorted Z.gt (emit_times (log Sg U W s)) ->
         emits_le (gt Sg U W s') (log Sg U W s') /\ StronglySorted Z.gt (emit_times (log Sg U W s')).
Proof. exact @run_for_emits_increasing. Qed.
Print Assumptions C12_run_for_emits_increasing.

(* emitting has no effect on the simulation, and with a larger emit_step the rows are a sub-list of the emit_step-1 rows, identical in content (one pass) *)
Theorem C12_iter_emit_step_sublist :
  forall (Sg U W : Type) (poll : W -> pid -> Sg -> Z * W)
           (cond : W -> pid -> Z -> Sg -> bool * W) (next : W -> pid -> Z -> Sg -> U * W)
           (commit : Sg -> list pid -> list (pid * U) -> Sg * list pid) (k endt : Z) 
           (force : bool) (etk et1 : Z) (sk s1 sk' : st Sg U W) (fk' : bool) 
           (etk' : Z) (okk : bool) (s1' : st Sg U W) (f1' : bool) (et1' : Z) 
           (ok1 : bool),
         same_but_log sk s1 ->
         strip_emits (log Sg U W sk) = strip_emits (log Sg U W s1) ->
         sublist (only_emits (log Sg U W sk)) (only_emits (log Sg U W s1)) ->
         iter Sg U W poll cond next commit vfixed (Some k) endt force etk sk = (sk', fk', etk', okk) ->
         iter Sg U W poll cond next commit vfixed None endt force et1 s1 = (s1', f1', et1', ok1) ->
         same_but_log sk' s1' /\
         strip_emits (log Sg U W sk') = strip_emits (log Sg U W s1') /\
         sublist (only_emits (log Sg U W sk')) (only_emits (log Sg U W s1')) /\
         fk' = f1' /\ okk = ok1.
Proof. exact @iter_emit_step_sublist. Qed.
Print Assumptions C12_iter_emit_step_sublist.

(* ... for a whole call *)
Theorem C12_run_emit_step_sublist :
  forall (Sg U W : Type) (poll : W -> pid -> Sg -> Z * W)
           (cond : W -> pid -> Z -> Sg -> bool * W) (next : W -> pid -> Z -> Sg -> U * W)
           (commit : Sg -> list pid -> list (pid * U) -> Sg * list pid) (k : Z) 
           (fuel : nat) (endt : Z) (force : bool) (etk et1 : Z) (sk s1 sk' : st Sg U W) 
           (okk : bool),
         same_but_log sk s1 ->
         strip_emits (log Sg U W sk) = strip_emits (log Sg U W s1) ->
         sublist (only_emits (log Sg U W sk)) (only_emits (log Sg U W s1)) ->
         run Sg U W poll cond next commit vfixed (Some k) fuel endt force etk sk = (Some sk', okk) ->
         exists s1' : st Sg U W,
           run Sg U W poll cond next commit vfixed None fuel endt force et1 s1 = (Some s1', okk) /\
           same_but_log sk' s1' /\
           strip_emits (log Sg U W sk') = strip_emits (log Sg U W s1') /\
           sublist (only_emits (log Sg U W sk')) (only_emits (log Sg U W s1')).
Proof. exact @run_emit_step_sublist. Qed.
Print Assumptions C12_run_emit_step_sublist.

(* the pinned scheduler emitted rows at 5, 5, 10, 10, 10 for emit_step 2 *)
Theorem C12_dup_refuted_pinned :
  exists s' : st cst cupd cw,
           run1 vpinned (Some 32) [(0%N, always 80)] [0%N] [(160, true)] = (Some s', true) /\
           emit_times (log cst cupd cw s') = [160; 160; 160; 80; 80; 0].
Proof. exact @dup_refuted_pinned. Qed.
Print Assumptions C12_dup_refuted_pinned.

(* a variable is in the row exactly when it is flagged for emission and holds a value; its serializer is applied *)
Theorem C12_emit_leaf :
  forall (v : option Z) (e s : bool),
         emit_data (ELeaf v e s) =
         (if e then match v with
                    | Some z => Some (Lf (serialize s z))
                    | None => None
                    end else None).
Proof. exact @emit_leaf. Qed.
Print Assumptions C12_emit_leaf.

(* a branch of the row has an entry for a child exactly when the child emits something, and the entry is the child row: structure preserved, nothing else appears *)
Theorem C12_emit_children_lookup :
  forall (c : alist enode) (k : key),
         NoDup (akeys c) ->
         alookup k (emit_children c) =
         match alookup k c with
         | Some x => emit_data x
         | None => None
         end.
Proof. exact @emit_children_lookup. Qed.
Print Assumptions C12_emit_children_lookup.

(* a branch-level _emit / set_emit_value sets the flag of every variable below and changes nothing else *)
Theorem C12_set_emit_leaves :
  forall (b : bool) (n : enode) (pre : list key),
         eleaves (set_emit b n) pre =
         map
           (fun pl : list key * (option Z * bool * bool) =>
            (fst pl, (fst (fst (snd pl)), b, snd (snd pl)))) (eleaves n pre).
Proof. exact @set_emit_leaves. Qed.
Print Assumptions C12_set_emit_leaves.

(* after turning a branch on every valued variable below is flagged *)
Theorem C12_set_emit_true_emits_all :
  forall (n : enode) (pre p : list key) (v : Z) (s : bool),
         In (p, (Some v, s))
           (map
              (fun pl : list key * (option Z * bool * bool) =>
               (fst pl, (fst (fst (snd pl)), snd (snd pl)))) (eleaves n pre)) ->
         In (p, (Some v, true, s)) (eleaves (set_emit true n) pre).
Proof. exact @set_emit_true_emits_all. Qed.
Print Assumptions C12_set_emit_true_emits_all.

(* after turning it off none is *)
Theorem C12_set_emit_false_silent :
  forall (n : enode) (pre : list key) (x : list key * (option Z * bool * bool)),
         In x (eleaves (set_emit false n) pre) -> snd (fst (snd x)) = false.
Proof. exact @set_emit_false_silent. Qed.
Print Assumptions C12_set_emit_false_silent.

(* units applied: a quantity variable is written in its DECLARED unit - the emitted magnitude times the declared unit equals the stored quantity, whatever unit the value was supplied in (exact conversions) *)
Theorem C12_emit_units :
  forall m vs ds q : Z,
         ds <> 0 -> (ds | m * vs) -> emit_data (EQty m vs ds true) = Some (Lf q) -> q * ds = m * vs.
Proof. exact @emit_units. Qed.
Print Assumptions C12_emit_units.

(* ... equal quantities supplied in different units give the same row entry *)
Theorem C12_emit_units_same_quantity :
  forall (m1 vs1 m2 vs2 ds : Z) (e : bool),
         m1 * vs1 = m2 * vs2 -> emit_data (EQty m1 vs1 ds e) = emit_data (EQty m2 vs2 ds e).
Proof. exact @emit_units_same_quantity. Qed.
Print Assumptions C12_emit_units_same_quantity.

(* a quantity variable that is not flagged is not emitted *)
Theorem C12_unflagged_quantity_not_emitted :
  forall m vs ds : Z, emit_data (EQty m vs ds false) = None.
Proof. exact @unflagged_quantity_not_emitted. Qed.
Print Assumptions C12_unflagged_quantity_not_emitted.

(* Model/EmitFlags.v: after an explicit request for a variable (store_schema or set_emit_value, on the variable or on its branch), whatever schemas arrive afterwards - port schemas of daughters or generated agents, sub-schemas re-applied - the variable is emitted or not as requested (repair F93, the former known finding K37) *)
Theorem C12_explicit_flag_sticks :
  forall (x : bool) (pre : list fop) (o : fop) (post : list fop) (s : leaf * leaf),
         is_request o = true ->
         touches (op_target o) x = true ->
         forallb (fun o0 : fop => negb (is_request o0)) post = true ->
         emit (pick x (frun s (pre ++ o :: post))) = op_value o.
Proof. exact @explicit_flag_sticks. Qed.
Print Assumptions C12_explicit_flag_sticks.

(* a later explicit request that concerns the variable replaces the earlier one (F94); requests for other variables and schemas do not *)
Theorem C12_last_request_wins :
  forall (x : bool) (pre : list fop) (o : fop) (post : list fop) (s : leaf * leaf),
         is_request o = true ->
         touches (op_target o) x = true ->
         forallb (fun o' : fop => negb (is_request o' && touches (op_target o') x)) post = true ->
         emit (pick x (frun s (pre ++ o :: post))) = op_value o.
Proof. exact @last_request_wins. Qed.
Print Assumptions C12_last_request_wins.

(* without any explicit request the last schema that names the variable decides *)
Theorem C12_unpinned_last_schema_wins :
  forall (x : bool) (pre : list fop) (t : target) (b : bool) (s : leaf * leaf),
         forallb (fun o : fop => negb (is_request o)) (pre ++ [Schema t b]) = true ->
         pinned (pick x s) = false ->
         touches t x = true -> emit (pick x (frun s (pre ++ [Schema t b]))) = b.
Proof. exact @unpinned_last_schema_wins. Qed.
Print Assumptions C12_unpinned_last_schema_wins.

(* the pinned code: a schema arriving after store_schema switched a branch off switches a variable on again *)
Theorem C12_flag_flipped_refuted_pinned_code :
  let s0 := ({| emit := true; pinned := false |}, {| emit := false; pinned := false |}) in
         let ops := [StoreSchema TBranch false; Schema TX true] in
         emit (fst (frun_pinned_code s0 ops)) = true /\ emit (fst (frun s0 ops)) = false.
Proof. exact @flag_flipped_refuted_pinned_code. Qed.
Print Assumptions C12_flag_flipped_refuted_pinned_code.


(* ---- non-vacuity: a reachable state of a concrete composite meets the hypotheses ---- *)
Definition ex_specs : list (pid * pspec) :=
  [(0%N, {| p_ts := TsConst 20; p_cond := CTrue |}); (1%N, {| p_ts := TsState [16; 8]; p_cond := CState [true; false] |})].
Definition ex_run := run_calls cst cupd cw (cpoll ex_specs) (ccond ex_specs) cnext ccommit vfixed None 400
                               [(48, false); (40, true)] (start_state 0 [0%N; 1%N]).
Example ex_run_ok : exists s', ex_run = (Some s', true) /\ gt _ _ _ s' = 88 /\ complete _ _ _ s' = true
                               /\ (length (log _ _ _ s') > 10)%nat.
Proof. eexists. split; [vm_compute; reflexivity|]. repeat split; vm_compute; try reflexivity. lia. Qed.
Example ex_commit_nodup : forall s ps us, NoDup ps -> NoDup (snd (ccommit s ps us)).
Proof. intros s ps us H. exact H. Qed.

(* 3 kg supplied for a variable declared in g: the row says 3000 *)
Example ex_units : emit_data (EQty 3 1000000 1000 true) = Some (Lf 3000%Z) /\ (1000 | 3 * 1000000)%Z.
Proof. split; [reflexivity|exists 3000%Z; reflexivity]. Qed.

