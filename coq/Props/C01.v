(* C01 - Every process update is applied exactly once, at the end of its interval.
   Model: Model/Sched.v (vfixed = the repaired run_for); proofs: Proofs/Sched_once_proofs.v.
   All statements are universally quantified over the user code (poll/cond/next), the commit
   function (any state, any structural effect) and the emit step.
   This file contains only statements closed by `exact`, their assumptions and non-vacuity examples.
   Generated once by tools/genprops.py from the proved lemmas (statements restated verbatim). *)
From Coq Require Import List NArith ZArith Bool Lia Sorting.Sorted.
From Viv Require Import Model.Sched Model.SchedC Proofs.Sched_defs Proofs.Sched_clock_proofs Proofs.Sched_once_proofs Proofs.SchedC_witness Model.Steps Proofs.StepsCond_proofs.
Import ListNotations.
Open Scope Z_scope.

(* a freshly built engine satisfies the invariants *)
Theorem C01_init_inv :
  forall (Sg U W : Type) (t0 : Z) (ps : list pid) (s0 : Sg) (w0 : W),
         NoDup ps ->
         let s := init Sg U W t0 ps s0 w0 in
         Inv Sg U W s /\ balanced s /\ idle_tight s /\ log_app_ok (log Sg U W s) /\ fronts_le t0 s.
Proof. exact @init_inv. Qed.
Print Assumptions C01_init_inv.

(* the invariant (unique processes and fronts; every update in flight is due strictly in the future) is preserved by every pass of the scheduler loop, whatever the processes answer *)
Theorem C01_iter_inv :
  forall (Sg U W : Type) (poll : W -> pid -> Sg -> Z * W)
           (cond : W -> pid -> Z -> Sg -> bool * W) (next : W -> pid -> Z -> Sg -> U * W)
           (commit : Sg -> list pid -> list (pid * U) -> Sg * list pid),
         (forall (s : Sg) (ps : list pid) (us : list (pid * U)),
          NoDup ps -> NoDup (snd (commit s ps us))) ->
         forall (ee : option Z) (endt : Z) (force : bool) (et : Z) (s s' : st Sg U W) 
           (f' : bool) (et' : Z) (ok : bool),
         Inv Sg U W s ->
         iter Sg U W poll cond next commit vfixed ee endt force et s = (s', f', et', ok) ->
         Inv Sg U W s'.
Proof. exact @iter_inv. Qed.
Print Assumptions C01_iter_inv.

(* every update applied in a pass is applied exactly at the end of the interval it was computed for *)
Theorem C01_iter_apply_on_time :
  forall (Sg U W : Type) (poll : W -> pid -> Sg -> Z * W)
           (cond : W -> pid -> Z -> Sg -> bool * W) (next : W -> pid -> Z -> Sg -> U * W)
           (commit : Sg -> list pid -> list (pid * U) -> Sg * list pid) (ee : option Z) 
           (endt : Z) (force : bool) (et : Z) (s s' : st Sg U W) (f' : bool) 
           (et' : Z) (ok : bool),
         Inv Sg U W s ->
         iter Sg U W poll cond next commit vfixed ee endt force et s = (s', f', et', ok) ->
         exists new : list (event Sg),
           log Sg U W s' = new ++ log Sg U W s /\
           Forall
             (fun e : event Sg =>
              match e with
              | EApply _ _ fin now => now = fin /\ now = gt Sg U W s'
              | _ => True
              end) new.
Proof. exact @iter_apply_on_time. Qed.
Print Assumptions C01_iter_apply_on_time.

(* every invocation is matched by exactly one application, or one drop (process deleted), or an update still in flight: nothing is lost, nothing is applied twice *)
Theorem C01_iter_balanced :
  forall (Sg U W : Type) (poll : W -> pid -> Sg -> Z * W)
           (cond : W -> pid -> Z -> Sg -> bool * W) (next : W -> pid -> Z -> Sg -> U * W)
           (commit : Sg -> list pid -> list (pid * U) -> Sg * list pid) (ee : option Z) 
           (endt : Z) (force : bool) (et : Z) (s s' : st Sg U W) (f' : bool) 
           (et' : Z) (ok : bool),
         Inv Sg U W s ->
         balanced s ->
         iter Sg U W poll cond next commit vfixed ee endt force et s = (s', f', et', ok) ->
         balanced s'.
Proof. exact @iter_balanced. Qed.
Print Assumptions C01_iter_balanced.

(* ... for a whole run_for call *)
Theorem C01_run_once :
  forall (Sg U W : Type) (poll : W -> pid -> Sg -> Z * W)
           (cond : W -> pid -> Z -> Sg -> bool * W) (next : W -> pid -> Z -> Sg -> U * W)
           (commit : Sg -> list pid -> list (pid * U) -> Sg * list pid),
         (forall (s : Sg) (ps : list pid) (us : list (pid * U)),
          NoDup ps -> NoDup (snd (commit s ps us))) ->
         forall (ee : option Z) (fuel : nat) (endt : Z) (force : bool) (et : Z) 
           (s s' : st Sg U W) (ok : bool),
         Inv Sg U W s ->
         balanced s ->
         log_app_ok (log Sg U W s) ->
         run Sg U W poll cond next commit vfixed ee fuel endt force et s = (Some s', ok) ->
         Inv Sg U W s' /\ balanced s' /\ log_app_ok (log Sg U W s').
Proof. exact @run_once. Qed.
Print Assumptions C01_run_once.

(* ... for any sequence of run_for/update calls *)
Theorem C01_run_calls_once :
  forall (Sg U W : Type) (poll : W -> pid -> Sg -> Z * W)
           (cond : W -> pid -> Z -> Sg -> bool * W) (next : W -> pid -> Z -> Sg -> U * W)
           (commit : Sg -> list pid -> list (pid * U) -> Sg * list pid),
         (forall (s : Sg) (ps : list pid) (us : list (pid * U)),
          NoDup ps -> NoDup (snd (commit s ps us))) ->
         forall (ee : option Z) (fuel : nat) (calls : list (Z * bool)) (s s' : st Sg U W) (ok : bool),
         Inv Sg U W s ->
         balanced s ->
         log_app_ok (log Sg U W s) ->
         run_calls Sg U W poll cond next commit vfixed ee fuel calls s = (Some s', ok) ->
         Inv Sg U W s' /\ balanced s' /\ log_app_ok (log Sg U W s').
Proof. exact @run_calls_once. Qed.
Print Assumptions C01_run_calls_once.

(* when a call returns, nothing is left in flight and no front is ahead of the clock *)
Theorem C01_no_pending_at_return :
  forall (Sg U W : Type) (poll : W -> pid -> Sg -> Z * W)
           (cond : W -> pid -> Z -> Sg -> bool * W) (next : W -> pid -> Z -> Sg -> U * W)
           (commit : Sg -> list pid -> list (pid * U) -> Sg * list pid),
         (forall (s : Sg) (ps : list pid) (us : list (pid * U)),
          NoDup ps -> NoDup (snd (commit s ps us))) ->
         forall (ee : option Z) (fuel : nat) (endt : Z) (force : bool) (et : Z) 
           (s s' : st Sg U W) (ok : bool),
         Inv Sg U W s ->
         fronts_le endt s ->
         gt Sg U W s <= endt ->
         run Sg U W poll cond next commit vfixed ee fuel endt force et s = (Some s', ok) ->
         (forall (p : pid) (e : fe U), In (p, e) (frt Sg U W s') -> fu e = None) /\
         fronts_le (gt Sg U W s') s' /\ gt Sg U W s' = endt.
Proof. exact @no_pending_at_return. Qed.
Print Assumptions C01_no_pending_at_return.

(* hence at every return each computed update has been applied exactly once (or its process was deleted) *)
Theorem C01_all_applied_at_return :
  forall (Sg U W : Type) (poll : W -> pid -> Sg -> Z * W)
           (cond : W -> pid -> Z -> Sg -> bool * W) (next : W -> pid -> Z -> Sg -> U * W)
           (commit : Sg -> list pid -> list (pid * U) -> Sg * list pid),
         (forall (s : Sg) (ps : list pid) (us : list (pid * U)),
          NoDup ps -> NoDup (snd (commit s ps us))) ->
         forall (ee : option Z) (fuel : nat) (endt : Z) (force : bool) (et : Z) 
           (s s' : st Sg U W) (ok : bool),
         Inv Sg U W s ->
         balanced s ->
         fronts_le endt s ->
         gt Sg U W s <= endt ->
         run Sg U W poll cond next commit vfixed ee fuel endt force et s = (Some s', ok) ->
         forall (p : pid) (fin : Z),
         cnt_inv p fin (log Sg U W s') =
         (cnt_app p fin (log Sg U W s') + cnt_drop p fin (log Sg U W s'))%nat.
Proof. exact @all_applied_at_return. Qed.
Print Assumptions C01_all_applied_at_return.

(* "a process whose update condition is false contributes nothing", for STEPS (Model/Steps.v with gated step functions): a phase in which every condition is false changes nothing *)
Theorem C01_phase_all_false :
  forall (Sg U : Type) (step_fn : node -> Sg -> U)
           (apply1 : Sg -> list node -> node -> U -> Sg * list node) (cond : node -> Sg -> bool)
           (nothing : U),
         (forall (s : Sg) (live : list node) (n : node), apply1 s live n nothing = (s, live)) ->
         forall (ls : list (list node)) (s : Sg) (live : list node) (log : list (sev Sg)),
         (forall n : node, cond n s = false) ->
         let
         '(s', live', _) := run_layers Sg U (gated Sg U step_fn cond nothing) apply1 ls s live log in
          s' = s /\ live' = live.
Proof. exact @phase_all_false. Qed.
Print Assumptions C01_phase_all_false.

(* ... and a layer has exactly the effect of its steps whose condition holds *)
Theorem C01_layer_only_true_steps_count :
  forall (Sg U : Type) (step_fn : node -> Sg -> U)
           (apply1 : Sg -> list node -> node -> U -> Sg * list node) (cond : node -> Sg -> bool)
           (nothing : U),
         (forall (s : Sg) (live : list node) (n : node), apply1 s live n nothing = (s, live)) ->
         forall (l : list node) (rest : list (list node)) (s : Sg) (live : list node)
           (log : list (sev Sg)),
         fst (run_layers Sg U (gated Sg U step_fn cond nothing) apply1 (l :: rest) s live log) =
         fst
           (let running := filter (fun n : node => nmem n live) l in
            let
            '(s', live') :=
             fold_left
               (fun (acc : Sg * list node) (nu : node * U) =>
                apply1 (fst acc) (snd acc) (fst nu) (snd nu))
               (map (fun n : node => (n, step_fn n s)) (filter (fun n : node => cond n s) running))
               (s, live) in
             run_layers Sg U (gated Sg U step_fn cond nothing) apply1 rest s' live'
               (log ++ map (fun n : node => ERun Sg n s) running)).
Proof. exact @layer_only_true_steps_count. Qed.
Print Assumptions C01_layer_only_true_steps_count.


(* ---- non-vacuity: a reachable state of a concrete composite meets the hypotheses ---- *)
Definition ex_specs : list (pid * pspec) :=
  [(0%N, {| p_ts := TsConst 20; p_cond := CTrue |}); (1%N, {| p_ts := TsState [16; 8]; p_cond := CState [true; false] |})].
Definition ex_run := run_calls cst cupd cw (cpoll ex_specs) (ccond ex_specs) cnext ccommit vfixed None 400
                               [(48, false); (40, true)] (start_state 0 [0%N; 1%N]).
Example ex_run_ok : exists s', ex_run = (Some s', true) /\ gt _ _ _ s' = 88 /\ complete _ _ _ s' = true
                               /\ (length (log _ _ _ s') > 10)%nat.
Proof. eexists. split; [vm_compute; reflexivity|]. repeat split; vm_compute; try reflexivity. lia. Qed.
Example ex_commit_nodup : forall s ps us, NoDup ps -> NoDup (snd (ccommit s ps us)).
Proof. intros s ps us H. exact H. Qed.

