(* C05 - Steps run once per phase, after process updates, in dependency order.
   Model: Model/Steps.v (_StepGraph with networkx replaced by explicit lists, Engine._add_step_path,
   _validate_steps_and_flow, run_steps); proofs: Proofs/Steps_proofs.v.  Placement of a phase (at construction
   and immediately after each batch, never in between) is the structure of Model/Sched.v (commit) and is
   compared with the implementation by the correspondence.
   This file contains only statements closed by `exact`, their assumptions and non-vacuity examples.
   Generated once by tools/genprops.py from the proved lemmas (statements restated verbatim). *)
From Coq Require Import List NArith ZArith Bool Lia Sorting.Sorted Sorting.Permutation.
From Viv Require Import Base.Assoc Base.Tree Model.Paths Model.Steps Proofs.Steps_proofs Proofs.StepsPerm_proofs Proofs.StepsCond_proofs.
Import ListNotations.

(* every graph step occurs in exactly one generation *)
Theorem C05_gens_partition :
  forall (fuel : nat) (rem : list node) (edges : list (node * node)) (gs : list (list node)),
         NoDup rem ->
         gens fuel rem edges = Some gs -> Permutation (concat gs) rem /\ NoDup (concat gs).
Proof. exact @gens_partition. Qed.
Print Assumptions C05_gens_partition.

(* a step is in a strictly later generation than every step it depends on *)
Theorem C05_gens_respect_deps :
  forall (fuel : nat) (rem : list node) (edges : list (node * node)) 
           (gs : list (list node)) (d s : node),
         NoDup rem ->
         gens fuel rem edges = Some gs ->
         In (d, s) edges ->
         In d rem ->
         In s rem ->
         exists i j : nat, layer_index d gs = Some i /\ layer_index s gs = Some j /\ i < j.
Proof. exact @gens_respect_deps. Qed.
Print Assumptions C05_gens_respect_deps.

(* every step is in as early a generation as possible *)
Theorem C05_gens_earliest :
  forall (fuel : nat) (rem : list node) (edges : list (node * node)) 
           (gs : list (list node)) (k : nat) (s : node),
         NoDup rem ->
         gens fuel rem edges = Some gs ->
         In s (nth (S k) gs []) -> exists d : node, In (d, s) edges /\ In d (nth k gs []).
Proof. exact @gens_earliest. Qed.
Print Assumptions C05_gens_earliest.

(* steps of the first generation have no dependency *)
Theorem C05_gens_roots :
  forall (fuel : nat) (rem : list node) (edges : list (node * node)) 
           (gs : list (list node)) (s d : node),
         gens fuel rem edges = Some gs -> In s (nth 0 gs []) -> In d rem -> ~ In (d, s) edges.
Proof. exact @gens_roots. Qed.
Print Assumptions C05_gens_roots.

(* the peeling fails only on a cycle (a non-empty predecessor-closed set) *)
Theorem C05_gens_none_cycle :
  forall (rem : list node) (edges : list (node * node)),
         NoDup rem ->
         gens (length rem) rem edges = None -> exists sub : list node, pred_closed sub rem edges.
Proof. exact @gens_none_cycle. Qed.
Print Assumptions C05_gens_none_cycle.

(* and always fails on one *)
Theorem C05_gens_some_acyclic :
  forall (fuel : nat) (rem : list node) (edges : list (node * node)) (gs : list (list node)),
         NoDup rem ->
         gens fuel rem edges = Some gs -> ~ (exists sub : list node, pred_closed sub rem edges).
Proof. exact @gens_some_acyclic. Qed.
Print Assumptions C05_gens_some_acyclic.

(* sorting a layer keeps its members *)
Theorem C05_nsort_perm :
  forall l : list node, Permutation (nsort l) l.
Proof. exact @nsort_perm. Qed.
Print Assumptions C05_nsort_perm.

(* and orders them *)
Theorem C05_nsort_sorted :
  forall l : list node, LocallySorted (fun a b : node => node_ltb b a = false) (nsort l).
Proof. exact @nsort_sorted. Qed.
Print Assumptions C05_nsort_sorted.

(* validation = DAG and no step both sequential and in the graph *)
Theorem C05_validate_ok :
  forall g : sgraph,
         validate g = Ok g <->
         generations g <> None /\ (forall n : node, In n (gnodes g) -> ~ In n (seq g)).
Proof. exact @validate_ok. Qed.
Print Assumptions C05_validate_ok.

(* a cyclic flow is rejected *)
Theorem C05_validate_cycle :
  forall g : sgraph,
         NoDup (gnodes g) ->
         validate g = Err ECycle <-> (exists sub : list node, pred_closed sub (gnodes g) (gedges g)).
Proof. exact @validate_cycle. Qed.
Print Assumptions C05_validate_cycle.

(* steps without flow entries run first, one at a time, in declaration order *)
Theorem C05_layers_seq_first :
  forall (g : sgraph) (gs : list (list node)),
         generations g = Some gs -> layers g = map (fun n : node => [n]) (seq g) ++ map nsort gs.
Proof. exact @layers_seq_first. Qed.
Print Assumptions C05_layers_seq_first.

(* every step of a valid flow occurs in exactly one layer *)
Theorem C05_layers_partition :
  forall g : sgraph,
         validate g = Ok g ->
         NoDup (gnodes g) ->
         NoDup (seq g) ->
         Permutation (concat (layers g)) (seq g ++ gnodes g) /\ NoDup (concat (layers g)).
Proof. exact @layers_partition. Qed.
Print Assumptions C05_layers_partition.

(* a step runs in a strictly later layer than every step it depends on *)
Theorem C05_layers_respect_deps :
  forall (g : sgraph) (d s : node),
         validate g = Ok g ->
         NoDup (gnodes g) ->
         In (d, s) (gedges g) ->
         In d (gnodes g) ->
         In s (gnodes g) ->
         exists i j : nat,
           layer_index d (layers g) = Some i /\ layer_index s (layers g) = Some j /\ i < j.
Proof. exact @layers_respect_deps. Qed.
Print Assumptions C05_layers_respect_deps.

(* sequential steps precede all flow steps *)
Theorem C05_layers_seq_before_graph :
  forall (g : sgraph) (q n : node),
         validate g = Ok g ->
         In q (seq g) ->
         In n (gnodes g) ->
         exists i j : nat,
           layer_index q (layers g) = Some i /\ layer_index n (layers g) = Some j /\ i < j.
Proof. exact @layers_seq_before_graph. Qed.
Print Assumptions C05_layers_seq_before_graph.

(* unknown dependencies are rejected at construction *)
Theorem C05_validate_flow_ok :
  forall (sp : list node) (flow : list (node * list (list seg))),
         validate_flow sp flow = Ok tt <->
         (forall (s : node) (ds : list (list seg)) (d : list seg),
          In (s, ds) flow -> In d ds -> In (removelast s ++ d) sp).
Proof. exact @validate_flow_ok. Qed.
Print Assumptions C05_validate_flow_ok.

(* dependencies are resolved relative to the step parent, lexically normalised *)
Theorem C05_add_step_path_deps :
  forall (g : sgraph) (path : node) (ds : list (list seg)),
         add_step_path g path (Some ds) =
         graph_add g path (map (fun d : list seg => normalize (path ++ [Up] ++ d)) ds).
Proof. exact @add_step_path_deps. Qed.
Print Assumptions C05_add_step_path_deps.

(* in a phase nothing outside the layers computed when the phase began runs, nothing runs twice, and the order is the layer order (steps created during a phase first run in the next one) *)
Theorem C05_phase_sublist :
  forall (Sg U : Type) (step_fn : node -> Sg -> U)
           (apply1 : Sg -> list node -> node -> U -> Sg * list node) (ls : list (list node)) 
           (s : Sg) (live : list node) (log0 : list (sev Sg)) (s' : Sg) (live' : list node)
           (log : list (sev Sg)),
         run_layers Sg U step_fn apply1 ls s live log0 = (s', live', log) ->
         exists new : list (sev Sg), log = log0 ++ new /\ sublist (map node_of new) (concat ls).
Proof. exact @phase_sublist. Qed.
Print Assumptions C05_phase_sublist.

(* with a static step set exactly the live steps run, each once *)
Theorem C05_phase_once_static :
  forall (Sg U : Type) (step_fn : node -> Sg -> U)
           (apply1 : Sg -> list node -> node -> U -> Sg * list node),
         (forall (s : Sg) (lv : list node) (n : node) (u : U), snd (apply1 s lv n u) = lv) ->
         forall (ls : list (list node)) (s : Sg) (live : list node) (s' : Sg) 
           (live' : list node) (log : list (sev Sg)),
         run_layers Sg U step_fn apply1 ls s live [] = (s', live', log) ->
         map node_of log = filter (fun n : node => nmem n live) (concat ls) /\ live' = live.
Proof. exact @phase_once_static. Qed.
Print Assumptions C05_phase_once_static.

(* steps that can run together see the same state *)
Theorem C05_layer_same_snapshot :
  forall (Sg U : Type) (step_fn : node -> Sg -> U)
           (apply1 : Sg -> list node -> node -> U -> Sg * list node) (ls : list (list node)) 
           (s : Sg) (live : list node) (s' : Sg) (live' : list node) (log : list (sev Sg)),
         NoDup (concat ls) ->
         run_layers Sg U step_fn apply1 ls s live [] = (s', live', log) ->
         forall (l : list node) (e1 e2 : sev Sg),
         In l ls ->
         In e1 log ->
         In e2 log -> In (node_of e1) l -> In (node_of e2) l -> state_of e1 = state_of e2.
Proof. exact @layer_same_snapshot. Qed.
Print Assumptions C05_layer_same_snapshot.

(* a step runs after all steps of earlier layers, i.e. after everything it transitively depends on has run and been applied *)
Theorem C05_phase_order :
  forall (Sg U : Type) (step_fn : node -> Sg -> U)
           (apply1 : Sg -> list node -> node -> U -> Sg * list node) (ls : list (list node)) 
           (s : Sg) (live : list node) (s' : Sg) (live' : list node) (log : list (sev Sg)),
         NoDup (concat ls) ->
         run_layers Sg U step_fn apply1 ls s live [] = (s', live', log) ->
         forall (i j : nat) (a b : sev Sg) (pre post : list (sev Sg)),
         layer_index (node_of a) ls = Some i ->
         layer_index (node_of b) ls = Some j -> i < j -> log = pre ++ b :: post -> ~ In a post.
Proof. exact @phase_order. Qed.
Print Assumptions C05_phase_order.

(* sorting is canonical: two listings of the same distinct steps sort to the same layer *)
Theorem C05_nsort_canonical :
  forall l l' : list node, NoDup l -> Permutation l l' -> nsort l = nsort l'.
Proof. exact @nsort_canonical. Qed.
Print Assumptions C05_nsort_canonical.

(* the generations of permuted listings are permutations of each other, level by level, and fail together *)
Theorem C05_generations_perm :
  forall g g' : sgraph,
         NoDup (gnodes g) ->
         Permutation (gnodes g) (gnodes g') ->
         (forall e : node * node, In e (gedges g) <-> In e (gedges g')) ->
         match generations g with
         | Some gs =>
             match generations g' with
             | Some gs' => Forall2 (Permutation (A:=node)) gs gs'
             | None => False
             end
         | None => match generations g' with
                   | Some _ => False
                   | None => True
                   end
         end.
Proof. exact @generations_perm. Qed.
Print Assumptions C05_generations_perm.

(* the execution layers do not depend on the order in which steps and dependencies were added *)
Theorem C05_layers_listing_order_moot :
  forall g g' : sgraph,
         seq g = seq g' ->
         NoDup (gnodes g) ->
         Permutation (gnodes g) (gnodes g') ->
         (forall e : node * node, In e (gedges g) <-> In e (gedges g')) -> layers g = layers g'.
Proof. exact @layers_listing_order_moot. Qed.
Print Assumptions C05_layers_listing_order_moot.

(* update conditions of steps: a phase in which every step condition is false changes neither the state nor the set of live steps *)
Theorem C05_phase_all_false :
  forall (Sg U : Type) (step_fn : node -> Sg -> U)
           (apply1 : Sg -> list node -> node -> U -> Sg * list node) (cond : node -> Sg -> bool)
           (nothing : U),
         (forall (s : Sg) (live : list node) (n : node), apply1 s live n nothing = (s, live)) ->
         forall (ls : list (list node)) (s : Sg) (live : list node) (log : list (sev Sg)),
         (forall n : node, cond n s = false) ->
         let
         '(s', live', _) := run_layers Sg U (gated Sg U step_fn cond nothing) apply1 ls s live log in
          s' = s /\ live' = live.
Proof. exact @phase_all_false. Qed.
Print Assumptions C05_phase_all_false.

(* a layer has the effect of its steps whose condition holds (all computed from the same state); the others contribute nothing *)
Theorem C05_layer_only_true_steps_count :
  forall (Sg U : Type) (step_fn : node -> Sg -> U)
           (apply1 : Sg -> list node -> node -> U -> Sg * list node) (cond : node -> Sg -> bool)
           (nothing : U),
         (forall (s : Sg) (live : list node) (n : node), apply1 s live n nothing = (s, live)) ->
         forall (l : list node) (rest : list (list node)) (s : Sg) (live : list node)
           (log : list (sev Sg)),
         fst (run_layers Sg U (gated Sg U step_fn cond nothing) apply1 (l :: rest) s live log) =
         fst
           (let running := filter (fun n : node => nmem n live) l in
            let
            '(s', live') :=
             fold_left
               (fun (acc : Sg * list node) (nu : node * U) =>
                apply1 (fst acc) (snd acc) (fst nu) (snd nu))
               (map (fun n : node => (n, step_fn n s)) (filter (fun n : node => cond n s) running))
               (s, live) in
             run_layers Sg U (gated Sg U step_fn cond nothing) apply1 rest s' live'
               (log ++ map (fun n : node => ERun Sg n s) running)).
Proof. exact @layer_only_true_steps_count. Qed.
Print Assumptions C05_layer_only_true_steps_count.


(* ---- non-vacuity: a concrete flow ---- *)
Definition nA : node := [Dn 1%N]. Definition nB : node := [Dn 2%N]. Definition nC : node := [Dn 3%N].
Definition nD : node := [Dn 0%N; Dn 4%N]. Definition nE : node := [Dn 5%N].
Definition ex_g : sgraph :=
  {| seq := [nE]; gnodes := [nC; nA; nB; nD]; gedges := [(nA, nC); (nB, nC); (nA, nB); (nA, nD)] |}.
Example ex_valid : validate ex_g = Ok ex_g /\ NoDup (gnodes ex_g) /\ NoDup (seq ex_g).
Proof.
  split; [reflexivity|]. split; repeat constructor; cbn; intuition discriminate.
Qed.
Example ex_layers : layers ex_g = [[nE]; [nA]; [nD; nB]; [nC]].
Proof. reflexivity. Qed.
Example ex_cycle_rejected :
  validate {| seq := []; gnodes := [nA; nB]; gedges := [(nA, nB); (nB, nA)] |} = Err ECycle.
Proof. reflexivity. Qed.

