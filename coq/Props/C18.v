(* C18 — Timeseries and query views of emitted data lose nothing.
   Only statements closed by `exact`, their assumptions, and non-vacuity examples.
   Model: Model/Timeseries.v; proofs: Proofs/Timeseries_proofs.v. *)
From Coq Require Import List NArith ZArith Bool.
From Viv Require Import Base.Assoc Base.Tree Model.Paths Model.Timeseries
     Proofs.Paths_proofs Proofs.Timeseries_proofs.
Import ListNotations.

(* For a rectangular history (every row has the shape of the first: same keys, same leaf
   kinds) the embedded timeseries lists, for each variable, its emitted values in time order,
   aligned one-to-one with the time vector (quantities: magnitudes under the (key, unit) key). *)
Theorem C18_embedded_aligned : forall data r0 times ts, rect data r0 ->
  timeseries_from_data data = Ok (times, ts) ->
  times = map fst data /\
  forall p x, get_in r0 p = Ok (Some (Lf x)) ->
    get_in ts (epath r0 p) = Ok (Some (Lf (column p data))) /\ length (column p data) = length times.
Proof. exact embedded_aligned. Qed.
Print Assumptions C18_embedded_aligned.

Theorem C18_embedded_total : forall data r0, rect data r0 ->
  exists ts, timeseries_from_data data = Ok (map fst data, ts).
Proof. exact embedded_total. Qed.
Print Assumptions C18_embedded_total.

(* the path timeseries lists the same columns *)
Theorem C18_path_ts_aligned : forall data r0 times pts, rect data r0 ->
  path_timeseries_from_data data = Ok (times, pts) ->
  forall p x, get_in r0 p = Ok (Some (Lf x)) -> In (epath r0 p, column p data) pts.
Proof. exact path_ts_aligned. Qed.
Print Assumptions C18_path_ts_aligned.

(* reading a view back cell by cell reproduces the raw data *)
Theorem C18_cellwise_inverse : forall data p i, (i < length data)%nat ->
  nth i (column p data) LNone = leaf_at (snd (nth i data (0%Z, Nd []))) p.
Proof. exact cellwise_inverse. Qed.
Print Assumptions C18_cellwise_inverse.

(* a query returns, for a saved row, exactly the queried variables with their emitted values,
   whatever those are, and nothing else *)
Theorem C18_query_exact : forall r q res, pairwise_diverge q -> Forall (fun p => p <> []) q ->
  query_row r q = Ok res ->
  (forall p, In p q -> get_in res p = get_in r p) /\
  (forall p' a, get_in res p' = Ok (Some (Lf a)) ->
     exists p s, In p q /\ p' = p ++ s /\ get_in r p' = Ok (Some (Lf a))).
Proof. exact query_exact. Qed.
Print Assumptions C18_query_exact.

Theorem C18_query_keeps_falsy : forall r q res p v, pairwise_diverge q -> Forall (fun p => p <> []) q ->
  query_row r q = Ok res -> In p q -> get_in r p = Ok (Some (Lf v)) -> get_in res p = Ok (Some (Lf v)).
Proof. exact query_keeps_falsy. Qed.
Print Assumptions C18_query_keeps_falsy.

(* the pinned truthiness filter dropped a queried variable holding 0 *)
Theorem C18_query_refuted_pinned : exists r q p res,
  In p q /\ get_in r p = Ok (Some (Lf (LZ 0))) /\ query_row_pinned r q = Ok res /\ get_in res p = Ok None.
Proof. exact query_refuted_pinned. Qed.
Print Assumptions C18_query_refuted_pinned.

(* ---- non-vacuity ---- *)
Definition ex_r0 : row := Nd [(1%N, Nd [(2%N, Lf (LZ 0)); (3%N, Lf (LQ 5 1))]); (4%N, Lf (LB false))].
Definition ex_r1 : row := Nd [(1%N, Nd [(2%N, Lf (LZ 7)); (3%N, Lf (LQ 6 1))]); (4%N, Lf (LS 0))].
Definition ex_data : list (Z * row) := [(0%Z, ex_r0); (1%Z, ex_r1)].

Example ex_rect : rect ex_data ex_r0.
Proof.
  unfold rect. split; [|split; [reflexivity|split; [reflexivity|]]].
  - repeat (constructor; cbn; try (intros H; repeat destruct H as [H|H]; try discriminate; try contradiction)).
  - exists [(1%Z, ex_r1)], 0%Z. split; [reflexivity|]. repeat constructor.
Qed.

Example ex_embedded : timeseries_from_data ex_data =
  Ok ([0%Z; 1%Z], Nd [(1%N, Nd [(2%N, Lf [LZ 0; LZ 7]); (unit_key 3%N 1%N, Lf [LZ 5; LZ 6])]);
                      (4%N, Lf [LB false; LS 0])]).
Proof. reflexivity. Qed.

Example ex_query : query_row ex_r0 [[1%N; 2%N]; [4%N]] = Ok (Nd [(1%N, Nd [(2%N, Lf (LZ 0))]); (4%N, Lf (LB false))])
                   /\ pairwise_diverge [[1%N; 2%N]; [4%N]].
Proof.
  split; [reflexivity|]. repeat constructor.
  exists [], 1%N, 4%N, [2%N], []. repeat split. discriminate.
Qed.
