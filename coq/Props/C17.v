(* C17 — Hierarchy paths obey a consistent path algebra.
   This file contains only statements closed by `exact`, their assumptions, and
   non-vacuity examples.  Models: Model/Paths.v; proofs: Proofs/Paths_proofs.v. *)
From Coq Require Import List NArith ZArith Bool.
From Viv Require Import Base.Assoc Base.Tree Model.Paths Proofs.Paths_proofs.
Import ListNotations.

(* Walking a relative path (with '..' anywhere) on the live tree from the node at absolute
   path a reaches the node named by the lexical normal form of a ++ r. *)
Theorem C17_walk_is_lexical : forall {A} (t : tree A) a r b,
  walk t a r = Ok b -> normalize (dn a ++ r) = dn b.
Proof. exact @walk_is_lexical. Qed.
Print Assumptions C17_walk_is_lexical.

Theorem C17_walk_stays_in_tree : forall {A} (t : tree A) a r b,
  node_at t a <> None -> walk t a r = Ok b -> node_at t b <> None.
Proof. exact @walk_reaches_node. Qed.
Print Assumptions C17_walk_stays_in_tree.

Theorem C17_walk_above_root_rejected : forall {A} (t : tree A) r,
  walk t [] (Up :: r) = Err EInvalidPath.
Proof. exact @walk_above_root. Qed.
Print Assumptions C17_walk_above_root_rejected.

Theorem C17_normalize_idempotent : forall p, normalize (normalize p) = normalize p.
Proof. exact normalize_idem. Qed.
Print Assumptions C17_normalize_idempotent.

Theorem C17_normalize_absolute : forall p, normalize (dn p) = dn p.
Proof. exact normalize_dn. Qed.
Print Assumptions C17_normalize_absolute.

(* for any two nodes a and b, following a.path_to(b) from a reaches b *)
Theorem C17_path_to_reaches : forall {A} (t : tree A) a b,
  node_at t a <> None -> node_at t b <> None -> walk t a (path_to a b) = Ok b.
Proof. exact @path_to_reaches. Qed.
Print Assumptions C17_path_to_reaches.

(* following n.path_for() from the root reaches n (identity search among siblings) *)
Theorem C17_path_for_reaches : forall t p n,
  uwf t -> unode_at t p = Some n -> path_for t p = Some p.
Proof. exact path_for_reaches. Qed.
Print Assumptions C17_path_for_reaches.

(* _establish_path creates what is missing, reaches the lexically normal node, keeps the rest *)
Theorem C17_establish_reaches : forall {A} (t t' : tree A) a r b,
  node_at t a <> None -> establish t a r = Ok (t', b) ->
  node_at t' b <> None /\ normalize (dn a ++ r) = dn b.
Proof. exact @establish_reaches. Qed.
Print Assumptions C17_establish_reaches.

Theorem C17_establish_keeps_leaves : forall {A} (t t' : tree A) a r b q x,
  establish t a r = Ok (t', b) -> node_at t q = Some (Lf x) -> node_at t' q = Some (Lf x).
Proof. exact @establish_keeps_leaves. Qed.
Print Assumptions C17_establish_keeps_leaves.

(* get_in reads what assoc_path wrote; nothing off the path changes *)
Theorem C17_get_assoc : forall {A} (d d' : tree A) p v,
  p <> [] -> assoc_path d p v = Ok d' -> get_in d' p = Ok (Some v).
Proof. exact @get_assoc. Qed.
Print Assumptions C17_get_assoc.

Theorem C17_assoc_frame : forall {A} (d d' : tree A) p q v,
  assoc_path d p v = Ok d' -> diverge p q -> get_in d' q = get_in d q.
Proof. exact @assoc_frame. Qed.
Print Assumptions C17_assoc_frame.

(* delete_in removes exactly that entry; a path through a missing key is a no-op *)
Theorem C17_delete_removes : forall {A} (d d' : tree A) p,
  wf d -> p <> [] -> delete_in d p = Ok d' -> get_in d' p = Ok None.
Proof. exact @delete_removes. Qed.
Print Assumptions C17_delete_removes.

Theorem C17_delete_frame : forall {A} (d d' : tree A) p q,
  delete_in d p = Ok d' -> diverge p q -> get_in d' q = get_in d q.
Proof. exact @delete_frame. Qed.
Print Assumptions C17_delete_frame.

Theorem C17_delete_missing_noop : forall {A} (d : tree A) p,
  get_in d p = Ok None -> delete_in d p = Ok d.
Proof. exact @delete_missing_noop. Qed.
Print Assumptions C17_delete_missing_noop.

(* update_in: only the addressed subtree differs *)
Theorem C17_update_in_get : forall {A} (d d' : tree A) p f, update_in d p f = Ok d' ->
  get_in d' p = Ok (Some (f (match get_in d p with Ok (Some s) => s | _ => Nd [] end))).
Proof. exact @update_in_get. Qed.
Print Assumptions C17_update_in_get.

Theorem C17_update_in_frame : forall {A} (d d' : tree A) p q f,
  update_in d p f = Ok d' -> diverge p q -> get_in d' q = get_in d q.
Proof. exact @update_in_frame. Qed.
Print Assumptions C17_update_in_frame.

Theorem C17_assoc_in_get : forall {A} (d d' : tree A) p v,
  assoc_in d p v = Ok d' -> get_in d' p = Ok (Some v).
Proof. exact @assoc_in_get. Qed.
Print Assumptions C17_assoc_in_get.

Theorem C17_assoc_in_frame : forall {A} (d d' : tree A) p q v,
  assoc_in d p v = Ok d' -> diverge p q -> get_in d' q = get_in d q.
Proof. exact @assoc_in_frame. Qed.
Print Assumptions C17_assoc_in_frame.

(* dict_to_paths enumerates exactly the leaves; paths_to_dict rebuilds the dict (ordered) *)
Theorem C17_dict_to_paths_enumerates_leaves : forall {A} (d : tree A) root p a, wf d ->
  (In (root ++ p, a) (dict_to_paths root d) <-> get_in d p = Ok (Some (Lf a))).
Proof. exact @dict_to_paths_get. Qed.
Print Assumptions C17_dict_to_paths_enumerates_leaves.

Theorem C17_paths_dict_inverse : forall {A} (c : list (key * tree A)),
  wf (Nd c) -> Forall (fun kv => no_empty (snd kv)) c ->
  paths_to_dict (map (fun pa => (fst pa, Lf (snd pa))) (dict_to_paths [] (Nd c))) = Ok (Nd c).
Proof. exact @paths_dict_inverse. Qed.
Print Assumptions C17_paths_dict_inverse.

(* hierarchy_depth is the same enumeration keyed by path (definitionally in the model;
   the correspondence compares it with the implementation's) *)
Theorem C17_hierarchy_depth_is_paths : forall {A} (c : list (key * tree A)),
  hierarchy_depth (Nd c) = dict_to_paths [] (Nd c).
Proof. reflexivity. Qed.
Print Assumptions C17_hierarchy_depth_is_paths.

(* ---- non-vacuity: concrete states meeting the hypotheses ---- *)
Definition ex_tree : tree Z :=
  Nd [(1%N, Nd [(2%N, Lf 5%Z); (3%N, Nd [(4%N, Lf 7%Z)])]); (5%N, Lf 1%Z)].

(* Lexical normalisation is compositional: normalising a suffix first changes nothing - from a node at a, the path p
   and its normal form lead to the same place, with `..` at any position (F43: the pinned code failed this). *)
Theorem C17_normalize_app_normalize : forall a p, normalize (a ++ normalize p) = normalize (a ++ p).
Proof. exact normalize_app_normalize. Qed.
Print Assumptions C17_normalize_app_normalize.

(* Leading `..` segments are kept, all of them. *)
Theorem C17_normalize_ups : forall n p, normalize (repeat Up n ++ dn p) = repeat Up n ++ dn p.
Proof. exact normalize_ups. Qed.
Print Assumptions C17_normalize_ups.

(* The pinned normalize_path cancelled two leading `..` against each other. *)
Theorem C17_normalize_pinned_refuted :
  normalize_pinned [Up; Up; Dn 1%N] = [Dn 1%N] /\
  normalize_pinned ([Dn 5%N; Dn 6%N] ++ [Up; Up; Dn 1%N]) <> normalize_pinned ([Dn 5%N; Dn 6%N] ++ normalize_pinned [Up; Up; Dn 1%N]).
Proof. exact normalize_pinned_refuted. Qed.
Print Assumptions C17_normalize_pinned_refuted.

(* update_in leaves its argument as it was (F46); the pinned code planted empty dictionaries along a missing path *)
Theorem C17_update_in_arg_unchanged : forall {A} (d d' : tree A) p, update_in_arg d p = Ok d' -> d' = d.
Proof. intros A d d' p H. unfold update_in_arg in H. destruct (update_in d p (fun x => x)); cbn in H; [injection H as <-; reflexivity|discriminate]. Qed.
Print Assumptions C17_update_in_arg_unchanged.
Theorem C17_update_in_arg_pinned_refuted :
  update_in_arg_pinned (Nd [(1%N, Lf 0%Z)]) [2%N; 3%N] = Ok (Nd [(1%N, Lf 0%Z); (2%N, Nd [(3%N, Nd [])])]).
Proof. reflexivity. Qed.
Print Assumptions C17_update_in_arg_pinned_refuted.

Example ex_walk : walk ex_tree [1%N; 3%N] [Up; Dn 2%N] = Ok [1%N; 2%N]
                  /\ normalize (dn [1%N; 3%N] ++ [Up; Dn 2%N]) = dn [1%N; 2%N].
Proof. split; reflexivity. Qed.

Example ex_path_to : node_at ex_tree [1%N; 3%N; 4%N] <> None /\ node_at ex_tree [5%N] <> None
                     /\ path_to [1%N; 3%N; 4%N] [5%N] = [Up; Up; Up; Dn 5%N].
Proof. repeat split; cbn; discriminate. Qed.

Example ex_wf : wf ex_tree.
Proof.
  repeat (constructor; cbn; try (intros H; repeat destruct H as [H|H]; try discriminate; try contradiction)).
Qed.

Example ex_assoc : exists d', assoc_path ex_tree [1%N; 9%N; 8%N] (Lf 3%Z) = Ok d'
                              /\ diverge [1%N; 9%N; 8%N] [1%N; 3%N; 4%N].
Proof.
  eexists. split; [reflexivity|]. exists [1%N], 9%N, 3%N, [8%N], [4%N]. repeat split. discriminate.
Qed.

Example ex_uwf : uwf (UNd 0 [(1%N, UNd 1 [(2%N, UNd 2 [])]); (3%N, UNd 3 [])])
                 /\ unode_at (UNd 0 [(1%N, UNd 1 [(2%N, UNd 2 [])]); (3%N, UNd 3 [])]) [1%N; 2%N] = Some (UNd 2 []).
Proof.
  split; [|reflexivity].
  repeat (constructor; cbn; try (intros H; repeat destruct H as [H|H]; try discriminate; try contradiction)).
Qed.
