(* C10 - The engine runs exactly what is in the hierarchy after any structural history.
   Model: Model/Struct.v (reports of the store operations; book_apply / engine_apply = Engine.apply_update/_delete_path (deletions first, only what the store still holds is registered; the pinned order is book_apply_pinned)/
   _add_process_path/_add_step_path) with Model/Steps.v and Model/Sched.v; proofs: Proofs/Struct_proofs.v.
   The scheduler only ever polls the processes of its table (Model/Sched.v iter folds over procs) and creates fronts
   at the current time; what is proved here is the table part, including the invariant "process table = non-step process
   nodes of the hierarchy" through delete, generate and move (Proofs/Consistent_proofs.v).  Proofs/Consistent2_proofs.v extends it to the step table and to division
   (consistent_op, consistent_history).  The step graph, the published composite and the
   continuation of a rebuilt engine are decided by the bookkeeping correspondence and the run-stream oracle of the
   check; known findings K3, K6, K8 are deviations of the current code.
   This file contains only statements closed by `exact`, their assumptions and non-vacuity examples.
   Generated once by tools/genprops.py from the proved lemmas (statements restated verbatim). *)
From Coq Require Import List NArith ZArith Bool Lia Sorting.Permutation.
From Viv Require Import Base.Assoc Base.Tree Model.Paths Model.Steps Model.Struct Model.StructC Proofs.Struct_proofs Proofs.Consistent_proofs Proofs.MoveP_proofs Proofs.Consistent2_proofs Model.Fronts Proofs.Fronts_proofs Proofs.Fronts_refine Proofs.Fronts_engine_proofs Proofs.Coherent_proofs Proofs.Sched_entry_proofs.
Import ListNotations.

(* DELETIONS FIRST: after an update a registered process lies under a path the update deleted only if the same update (re-)registered it there - what was deleted (or moved away under its old path) is never polled again, what the update put there is *)
Theorem C10_book_apply_drops :
  forall (b : book) (rp : reports) (b' : book) (d p : list key) (o : N),
         book_apply b rp = Ok b' ->
         In d (r_deletions rp) ->
         In (p, o) (b_procs b') ->
         starts_with p d = true ->
         exists pi : pinfo, In (p, pi) (r_process rp) /\ pi_step pi = false /\ o = pi_obj pi.
Proof. exact @book_apply_drops. Qed.
Print Assumptions C10_book_apply_drops.

(* ... a registered step: only if the same update filed it (through the step updates, or as a Step among the process updates) *)
Theorem C10_book_apply_drops_steps :
  forall (b : book) (rp : reports) (b' : book) (d p : list key) (o : N),
         book_apply b rp = Ok b' ->
         In d (r_deletions rp) ->
         In (p, o) (b_steps b') ->
         starts_with p d = true ->
         exists pi : pinfo,
           (In (p, pi) (r_step rp) \/ In (p, pi) (r_process rp) /\ pi_step pi = true) /\
           o = pi_obj pi.
Proof. exact @book_apply_drops_steps. Qed.
Print Assumptions C10_book_apply_drops_steps.

(* every (non-step) process the store reports is registered - also under a path the same update deleted (the folding of the reports alone; the full step first drops what the store no longer holds) *)
Theorem C10_book_apply_registers :
  forall (b : book) (rp : reports) (b' : book) (p : list key) (pi : pinfo),
         book_apply b rp = Ok b' ->
         In (p, pi) (r_process rp) -> pi_step pi = false -> In p (map fst (b_procs b')).
Proof. exact @book_apply_registers. Qed.
Print Assumptions C10_book_apply_registers.

(* a moved subtree keeps its process objects; its old path is reported deleted *)
Theorem C10_move_moves :
  forall (mk_child : N -> cnode * N) (D : Type) (build : D -> N -> cnode * N)
           (copy_procs : cnode -> N -> cnode * N) (vr : variant) (t : cnode) 
           (here : list key) (src : key) (tgt : list key) (uid : N) (t' : cnode) 
           (rp : reports) (uid' : N) (node : cnode) (u : N) (g : bool) (c : list (key * cnode)),
         cwf t ->
         cget t here = Some (CDir u g c) ->
         alookup src c = Some node ->
         starts_with (tgt ++ [src]) (here ++ [src]) = false ->
         starts_with (here ++ [src]) (tgt ++ [src]) = false ->
         apply_op mk_child D build copy_procs vr t here (OpMove D src tgt) uid = Ok (t', rp, uid') ->
         cget t' (tgt ++ [src]) = Some node /\
         cget t' (here ++ [src]) = None /\ uid' = uid /\ r_deletions rp = [here ++ [src]].
Proof. exact @move_moves. Qed.
Print Assumptions C10_move_moves.

(* generated processes sit where the reports say *)
Theorem C10_generate_places :
  forall (mk_child : N -> cnode * N) (D : Type) (build : D -> N -> cnode * N)
           (copy_procs : cnode -> N -> cnode * N) (vr : variant) (t : cnode) 
           (here : list key) (k : key) (d : D) (init : tree Z) (uid : N) 
           (t' : cnode) (rp : reports) (uid' : N),
         apply_op mk_child D build copy_procs vr t here (OpGenerate D k d init) uid =
         Ok (t', rp, uid') ->
         exists (sub : cnode) (u1 : N),
           set_value mk_child (S (tdepth init)) (fst (build d uid)) init (snd (build d uid)) =
           Ok (sub, u1) /\ cget t' (here ++ [k]) = Some sub /\ uid' = u1.
Proof. exact @generate_places. Qed.
Print Assumptions C10_generate_places.

(* processes outside the named subtrees keep their identity through any history *)
Theorem C10_history_frame :
  forall (mk_child : N -> cnode * N) (D : Type) (build : D -> N -> cnode * N)
           (copy_procs : cnode -> N -> cnode * N) (vr : variant) (h : list (list key * list (sop D)))
           (t : cnode) (uid : N) (t' : cnode) (uid' : N) (q : list key),
         fold_left
           (fun (acc : res (cnode * N)) (ho : list key * list (sop D)) =>
            match acc with
            | Ok (t0, u0) =>
                match apply_ops mk_child D build copy_procs vr t0 (fst ho) (snd ho) u0 with
                | Ok (t1, _, u1) => Ok (t1, u1)
                | Err e => Err e
                end
            | Err e => Err e
            end) h (Ok (t, uid)) = Ok (t', uid') ->
         outside q
           (flat_map (fun ho : list key * list (sop D) => flat_map (named D (fst ho)) (snd ho)) h) ->
         sig_at t' q = sig_at t q.
Proof. exact @history_frame. Qed.
Print Assumptions C10_history_frame.

(* INVARIANT tables = hierarchy, delete step: if the process table lists exactly the non-step process nodes of the hierarchy before a _delete, it does so after the store operation and the engine bookkeeping *)
Theorem C10_consistent_delete :
  forall (mk_child : N -> cnode * N) (D : Type) (build : D -> N -> cnode * N)
           (copy_procs : cnode -> N -> cnode * N) (vr : variant) (t : cnode) 
           (here : list key) (k : key) (uid : N) (t' : cnode) (rp : reports) 
           (uid' : N) (b b' : book),
         cwf t ->
         consistent_procs t b ->
         apply_op mk_child D build copy_procs vr t here (OpDelete D k) uid = Ok (t', rp, uid') ->
         book_apply b rp = Ok b' -> consistent_procs t' b'.
Proof. exact @consistent_delete. Qed.
Print Assumptions C10_consistent_delete.

(* ... generate step (new key; whatever the composite lists under steps is a Step) *)
Theorem C10_consistent_generate :
  forall (mk_child : N -> cnode * N) (D : Type) (build : D -> N -> cnode * N)
           (copy_procs : cnode -> N -> cnode * N),
         (forall u : N, proc_nodes (fst (mk_child u)) [] = []) ->
         forall (vr : variant) (t : cnode) (here : list key) (k : key) (d : D) 
           (init : tree Z) (uid : N) (t' : cnode) (rp : reports) (uid' : N) 
           (b b' : book) (u : N) (g : bool) (c : list (key * cnode)),
         cwf t ->
         consistent_procs t b ->
         cget t here = Some (CDir u g c) ->
         alookup k c = None ->
         (forall (x : D) (n : N), cwf (fst (build x n))) ->
         (forall (x : D) (n : N) (p : list key) (pi : pinfo),
          In (p, pi) (proc_nodes (fst (build x n)) []) -> pi_in_steps pi = true -> pi_step pi = true) ->
         apply_op mk_child D build copy_procs vr t here (OpGenerate D k d init) uid =
         Ok (t', rp, uid') -> book_apply b rp = Ok b' -> consistent_procs t' b'.
Proof. exact @consistent_generate. Qed.
Print Assumptions C10_consistent_generate.

(* ... move step (repaired Store.move); no premise besides success *)
Theorem C10_consistent_move :
  forall (mk_child : N -> cnode * N) (D : Type) (build : D -> N -> cnode * N)
           (copy_procs : cnode -> N -> cnode * N) (t : cnode) (here : list key) 
           (src : key) (tgt : list key) (uid : N) (t' : cnode) (rp : reports) 
           (uid' : N) (b b' : book),
         cwf t ->
         consistent_procs t b ->
         apply_op mk_child D build copy_procs vfixed t here (OpMove D src tgt) uid =
         Ok (t', rp, uid') -> book_apply b rp = Ok b' -> consistent_procs t' b'.
Proof. exact @consistent_move. Qed.
Print Assumptions C10_consistent_move.

(* the table keeps one entry per path (no premise on the report) *)
Theorem C10_book_apply_nodup :
  forall (b : book) (rp : reports) (b' : book),
         NoDup (map fst (b_procs b)) -> book_apply b rp = Ok b' -> NoDup (map fst (b_procs b')).
Proof. exact @book_apply_nodup. Qed.
Print Assumptions C10_book_apply_nodup.

(* in a well-formed hierarchy process paths are pairwise distinct *)
Theorem C10_proc_nodes_nodup :
  forall t : cnode, cwf t -> forall pre : list key, NoDup (map fst (proc_nodes t pre)).
Proof. exact @proc_nodes_nodup. Qed.
Print Assumptions C10_proc_nodes_nodup.

(* the processes of the hierarchy after a delete are exactly those not under the deleted path *)
Theorem C10_delete_reports :
  forall (mk_child : N -> cnode * N) (D : Type) (build : D -> N -> cnode * N)
           (copy_procs : cnode -> N -> cnode * N) (vr : variant) (t : cnode) 
           (here : list key) (k : key) (uid : N) (t' : cnode) (rp : reports) 
           (uid' : N) (q : list key) (o : N),
         cwf t ->
         apply_op mk_child D build copy_procs vr t here (OpDelete D k) uid = Ok (t', rp, uid') ->
         In (q, o) (proc_paths t') <->
         In (q, o) (proc_paths t) /\ starts_with q (here ++ [k]) = false.
Proof. exact @delete_reports. Qed.
Print Assumptions C10_delete_reports.

(* the processes after a generate are exactly the old ones plus the reported ones *)
Theorem C10_generate_reports_partial :
  forall (mk_child : N -> cnode * N) (D : Type) (build : D -> N -> cnode * N)
           (copy_procs : cnode -> N -> cnode * N),
         (forall u : N, proc_nodes (fst (mk_child u)) [] = []) ->
         forall (vr : variant) (t : cnode) (here : list key) (k : key) (d : D) 
           (init : tree Z) (uid : N) (t' : cnode) (rp : reports) (uid' : N) 
           (q : list key) (o u : N) (g : bool) (c : list (key * cnode)),
         cwf t ->
         cget t here = Some (CDir u g c) ->
         alookup k c = None ->
         (forall (x : D) (n : N), cwf (fst (build x n))) ->
         (forall (x : D) (n : N) (p : list key) (pi : pinfo),
          In (p, pi) (proc_nodes (fst (build x n)) []) -> pi_in_steps pi = true -> pi_step pi = true) ->
         apply_op mk_child D build copy_procs vr t here (OpGenerate D k d init) uid =
         Ok (t', rp, uid') ->
         In (q, o) (proc_paths t') <->
         In (q, o) (proc_paths t) \/
         (exists pi : pinfo, In (q, pi) (r_process rp) /\ pi_step pi = false /\ o = pi_obj pi).
Proof. exact @generate_reports_partial. Qed.
Print Assumptions C10_generate_reports_partial.

(* ... the table never gets a process the hierarchy lacks (no premise on the composite) *)
Theorem C10_generate_reports_sound :
  forall (mk_child : N -> cnode * N) (D : Type) (build : D -> N -> cnode * N)
           (copy_procs : cnode -> N -> cnode * N) (vr : variant) (t : cnode) 
           (here : list key) (k : key) (d : D) (init : tree Z) (uid : N) 
           (t' : cnode) (rp : reports) (uid' : N) (q : list key) (o u : N) 
           (g : bool) (c : list (key * cnode)),
         cwf t ->
         cget t here = Some (CDir u g c) ->
         alookup k c = None ->
         apply_op mk_child D build copy_procs vr t here (OpGenerate D k d init) uid =
         Ok (t', rp, uid') ->
         In (q, o) (proc_paths t) \/
         (exists pi : pinfo, In (q, pi) (r_process rp) /\ pi_step pi = false /\ o = pi_obj pi) ->
         In (q, o) (proc_paths t').
Proof. exact @generate_reports_sound. Qed.
Print Assumptions C10_generate_reports_sound.

(* the processes after a move are exactly the old ones outside the source plus the reported ones *)
Theorem C10_move_reports :
  forall (mk_child : N -> cnode * N) (D : Type) (build : D -> N -> cnode * N)
           (copy_procs : cnode -> N -> cnode * N) (t : cnode) (here : list key) 
           (src : key) (tgt : list key) (uid : N) (t' : cnode) (rp : reports) 
           (uid' : N) (q : list key) (o : N),
         cwf t ->
         starts_with (tgt ++ [src]) (here ++ [src]) = false ->
         starts_with (here ++ [src]) (tgt ++ [src]) = false ->
         apply_op mk_child D build copy_procs vfixed t here (OpMove D src tgt) uid =
         Ok (t', rp, uid') ->
         In (q, o) (proc_paths t') <->
         In (q, o) (proc_paths t) /\ starts_with q (here ++ [src]) = false \/
         (exists pi : pinfo, In (q, pi) (r_process rp) /\ o = pi_obj pi).
Proof. exact @move_reports. Qed.
Print Assumptions C10_move_reports.

(* Engine.apply_update's folding: deletions first, then registration - registered are the old entries under no reported deletion that are not re-assigned, and every reported non-step process *)
Theorem C10_book_apply_procs :
  forall (b : book) (rp : reports) (b' : book) (q : list key) (o : N),
         NoDup (map fst (b_procs b)) ->
         (forall (p : list key) (pi pi' : pinfo),
          In (p, pi) (filter nonstep (r_process rp)) ->
          In (p, pi') (filter nonstep (r_process rp)) -> pi_obj pi = pi_obj pi') ->
         book_apply b rp = Ok b' ->
         In (q, o) (b_procs b') <->
         In (q, o) (b_procs b) /\
         (forall d : list key, In d (r_deletions rp) -> starts_with q d = false) /\
         ~ In q (map fst (filter nonstep (r_process rp))) \/
         (exists pi : pinfo, In (q, pi) (r_process rp) /\ pi_step pi = false /\ o = pi_obj pi).
Proof. exact @book_apply_procs. Qed.
Print Assumptions C10_book_apply_procs.

(* ... move step with a nested source path (the folding alone needs: the target is not inside the moved subtree; the full step does not: consistent_movep_any) *)
Theorem C10_consistent_movep :
  forall (mk_child : N -> cnode * N) (D : Type) (build : D -> N -> cnode * N)
           (copy_procs : cnode -> N -> cnode * N) (vr : variant) (t : cnode)
           (here src tgt : list key) (uid : N) (t' : cnode) (rp : reports) 
           (uid' : N) (b b' : book),
         cwf t ->
         consistent_procs t b ->
         starts_with (tgt ++ src) (here ++ src) = false ->
         apply_op mk_child D build copy_procs vr t here (OpMoveP D src tgt) uid = Ok (t', rp, uid') ->
         book_apply b rp = Ok b' -> consistent_procs t' b'.
Proof. exact @consistent_movep. Qed.
Print Assumptions C10_consistent_movep.

(* the processes after a nested-source move are exactly the old ones outside the source plus the reported ones *)
Theorem C10_movep_reports :
  forall (mk_child : N -> cnode * N) (D : Type) (build : D -> N -> cnode * N)
           (copy_procs : cnode -> N -> cnode * N) (vr : variant) (t : cnode)
           (here src tgt : list key) (uid : N) (t' : cnode) (rp : reports) 
           (uid' : N) (q : list key) (o : N),
         cwf t ->
         starts_with (tgt ++ src) (here ++ src) = false ->
         apply_op mk_child D build copy_procs vr t here (OpMoveP D src tgt) uid = Ok (t', rp, uid') ->
         In (q, o) (proc_paths t') <->
         In (q, o) (proc_paths t) /\ starts_with q (here ++ src) = false \/
         (exists pi : pinfo, In (q, pi) (r_process rp) /\ o = pi_obj pi).
Proof. exact @movep_reports. Qed.
Print Assumptions C10_movep_reports.

(* THE FOLDING OF THE REPORTS KEEPS THE TABLES = THE HIERARCHY, one operation: if the process table and the step table list exactly the process / step nodes of the hierarchy (one entry per path), they still do after any structural operation (_add, _delete in both forms, _generate at a new key, _divide into new distinct keys, _move with a key or a nested path not into the moved subtree) followed by Engine.apply_update's folding (deletions first, then registration) *)
Theorem C10_consistent_op :
  forall (mk_child : N -> cnode * N) (D : Type) (build : D -> N -> cnode * N)
           (copy_procs : cnode -> N -> cnode * N),
         (forall u : N, proc_nodes (fst (mk_child u)) [] = []) ->
         (forall u : N, cwf (fst (mk_child u))) ->
         (forall (x : D) (n : N), cwf (fst (build x n))) ->
         (forall (x : D) (n : N) (p : list key) (pi : pinfo),
          In (p, pi) (proc_nodes (fst (build x n)) []) -> pi_in_steps pi = true -> pi_step pi = true) ->
         (forall (m : cnode) (n : N), cwf m -> cwf (fst (copy_procs m n))) ->
         forall (t : cnode) (here : list key) (o : sop D) (uid : N) (t' : cnode) 
           (rp : reports) (uid' : N) (b b' : book),
         cwf t ->
         bop_ok D t here o ->
         consistent_procs t b ->
         consistent_steps t b ->
         apply_op mk_child D build copy_procs vfixed t here o uid = Ok (t', rp, uid') ->
         book_apply b rp = Ok b' -> consistent_procs t' b' /\ consistent_steps t' b'.
Proof. exact @consistent_op. Qed.
Print Assumptions C10_consistent_op.

(* ... after any history of such updates, on a hierarchy that stays well formed *)
Theorem C10_consistent_history :
  forall (mk_child : N -> cnode * N) (D : Type) (build : D -> N -> cnode * N)
           (copy_procs : cnode -> N -> cnode * N),
         (forall u : N, proc_nodes (fst (mk_child u)) [] = []) ->
         (forall u : N, cwf (fst (mk_child u))) ->
         (forall (x : D) (n : N), cwf (fst (build x n))) ->
         (forall (x : D) (n : N) (p : list key) (pi : pinfo),
          In (p, pi) (proc_nodes (fst (build x n)) []) -> pi_in_steps pi = true -> pi_step pi = true) ->
         (forall (m : cnode) (n : N), cwf m -> cwf (fst (copy_procs m n))) ->
         forall (h : list (list key * sop D)) (t : cnode) (b : book) (u : N) 
           (t' : cnode) (b' : book) (u' : N),
         history mk_child D build copy_procs vfixed h t b u t' b' u' ->
         cwf t ->
         consistent_procs t b ->
         consistent_steps t b -> cwf t' /\ consistent_procs t' b' /\ consistent_steps t' b'.
Proof. exact @consistent_history. Qed.
Print Assumptions C10_consistent_history.

(* ... every such operation keeps the hierarchy well formed *)
Theorem C10_apply_op_cwf :
  forall (mk_child : N -> cnode * N) (D : Type) (build : D -> N -> cnode * N)
           (copy_procs : cnode -> N -> cnode * N),
         (forall u : N, proc_nodes (fst (mk_child u)) [] = []) ->
         (forall u : N, cwf (fst (mk_child u))) ->
         (forall (x : D) (n : N), cwf (fst (build x n))) ->
         (forall (m : cnode) (n : N), cwf m -> cwf (fst (copy_procs m n))) ->
         forall (vr : variant) (t : cnode) (here : list key) (o : sop D) 
           (uid : N) (t' : cnode) (rp : reports) (uid' : N),
         cwf t ->
         op_ok D t here o ->
         apply_op mk_child D build copy_procs vr t here o uid = Ok (t', rp, uid') -> cwf t'.
Proof. exact @apply_op_cwf. Qed.
Print Assumptions C10_apply_op_cwf.

(* ... division, process table (explicit daughters built by the composite, inheriting daughters copied from the mother) *)
Theorem C10_consistent_divide :
  forall (mk_child : N -> cnode * N) (D : Type) (build : D -> N -> cnode * N)
           (copy_procs : cnode -> N -> cnode * N),
         (forall u : N, proc_nodes (fst (mk_child u)) [] = []) ->
         (forall u : N, cwf (fst (mk_child u))) ->
         (forall (x : D) (n : N), cwf (fst (build x n))) ->
         (forall (m : cnode) (n : N), cwf m -> cwf (fst (copy_procs m n))) ->
         forall (vr : variant) (t : cnode) (here : list key) (m : key)
           (ds : list (key * option D * tree Z)) (ch : list bool) (uid : N) 
           (t' : cnode) (rp : reports) (uid' : N) (b b' : book),
         cwf t ->
         consistent_procs t b ->
         divide_ok D t here ds ->
         apply_op mk_child D build copy_procs vr t here (OpDivide D m ds ch) uid = Ok (t', rp, uid') ->
         book_apply b rp = Ok b' -> consistent_procs t' b'.
Proof. exact @consistent_divide. Qed.
Print Assumptions C10_consistent_divide.

(* ... division, step table *)
Theorem C10_consistent_steps_divide :
  forall (mk_child : N -> cnode * N) (D : Type) (build : D -> N -> cnode * N)
           (copy_procs : cnode -> N -> cnode * N),
         (forall u : N, proc_nodes (fst (mk_child u)) [] = []) ->
         (forall u : N, cwf (fst (mk_child u))) ->
         (forall (x : D) (n : N), cwf (fst (build x n))) ->
         (forall (m : cnode) (n : N), cwf m -> cwf (fst (copy_procs m n))) ->
         forall (vr : variant) (t : cnode) (here : list key) (m : key)
           (ds : list (key * option D * tree Z)) (ch : list bool) (uid : N) 
           (t' : cnode) (rp : reports) (uid' : N) (b b' : book),
         cwf t ->
         consistent_steps t b ->
         divide_ok D t here ds ->
         apply_op mk_child D build copy_procs vr t here (OpDivide D m ds ch) uid = Ok (t', rp, uid') ->
         book_apply b rp = Ok b' -> consistent_steps t' b'.
Proof. exact @consistent_steps_divide. Qed.
Print Assumptions C10_consistent_steps_divide.

(* ... generate, step table (what the composite lists under steps is a Step) *)
Theorem C10_consistent_steps_generate :
  forall (mk_child : N -> cnode * N) (D : Type) (build : D -> N -> cnode * N)
           (copy_procs : cnode -> N -> cnode * N),
         (forall u : N, proc_nodes (fst (mk_child u)) [] = []) ->
         (forall (x : D) (n : N), cwf (fst (build x n))) ->
         (forall (x : D) (n : N) (p : list key) (pi : pinfo),
          In (p, pi) (proc_nodes (fst (build x n)) []) -> pi_in_steps pi = true -> pi_step pi = true) ->
         forall (vr : variant) (t : cnode) (here : list key) (k : key) (d : D) 
           (init : tree Z) (uid : N) (t' : cnode) (rp : reports) (uid' : N) 
           (b b' : book),
         cwf t ->
         consistent_steps t b ->
         cget t (here ++ [k]) = None ->
         apply_op mk_child D build copy_procs vr t here (OpGenerate D k d init) uid =
         Ok (t', rp, uid') -> book_apply b rp = Ok b' -> consistent_steps t' b'.
Proof. exact @consistent_steps_generate. Qed.
Print Assumptions C10_consistent_steps_generate.

(* ... delete, step table *)
Theorem C10_consistent_steps_delete :
  forall (mk_child : N -> cnode * N) (D : Type) (build : D -> N -> cnode * N)
           (copy_procs : cnode -> N -> cnode * N) (vr : variant) (t : cnode) 
           (here : list key) (k : key) (uid : N) (t' : cnode) (rp : reports) 
           (uid' : N) (b b' : book),
         cwf t ->
         consistent_steps t b ->
         apply_op mk_child D build copy_procs vr t here (OpDelete D k) uid = Ok (t', rp, uid') ->
         book_apply b rp = Ok b' -> consistent_steps t' b'.
Proof. exact @consistent_steps_delete. Qed.
Print Assumptions C10_consistent_steps_delete.

(* ... move by key, both tables, in the pinned variant too; no premise on the target (a target inside the moved subtree makes the operation fail) *)
Theorem C10_consistent_move_any :
  forall (mk_child : N -> cnode * N) (D : Type) (build : D -> N -> cnode * N)
           (copy_procs : cnode -> N -> cnode * N) (vr : variant) (t : cnode) 
           (here : list key) (src : key) (tgt : list key) (uid : N) (t' : cnode) 
           (rp : reports) (uid' : N) (b b' : book),
         cwf t ->
         consistent_procs t b ->
         apply_op mk_child D build copy_procs vr t here (OpMove D src tgt) uid = Ok (t', rp, uid') ->
         book_apply b rp = Ok b' -> consistent_procs t' b'.
Proof. exact @consistent_move_any. Qed.
Print Assumptions C10_consistent_move_any.

(* ... move with a nested source, the FULL engine step (only what the store still holds is registered): no premise on the target *)
Theorem C10_consistent_movep_any :
  forall (mk_child : N -> cnode * N) (D : Type) (build : D -> N -> cnode * N)
           (copy_procs : cnode -> N -> cnode * N) (vr : variant) (t : cnode)
           (here src tgt : list key) (uid : N) (t' : cnode) (rp : reports) 
           (uid' : N) (b b' : book),
         cwf t ->
         consistent_procs t b ->
         apply_op mk_child D build copy_procs vr t here (OpMoveP D src tgt) uid = Ok (t', rp, uid') ->
         engine_apply b t' rp = Ok b' -> consistent_procs t' b'.
Proof. exact @consistent_movep_any. Qed.
Print Assumptions C10_consistent_movep_any.

(* Engine.apply_update files as steps exactly the reported Steps (through r_step, and through r_process by is_step()), after dropping those under reported deletions *)
Theorem C10_book_apply_steps :
  forall (b : book) (rp : reports) (b' : book) (q : list key) (o : N),
         NoDup (map fst (b_steps b)) ->
         (forall (p : list key) (pi pi' : pinfo),
          In (p, pi) (step_adds rp) -> In (p, pi') (step_adds rp) -> pi_obj pi = pi_obj pi') ->
         book_apply b rp = Ok b' ->
         In (q, o) (b_steps b') <->
         In (q, o) (b_steps b) /\
         (forall d : list key, In d (r_deletions rp) -> starts_with q d = false) /\
         ~ In q (map fst (step_adds rp)) \/
         (exists pi : pinfo, In (q, pi) (step_adds rp) /\ o = pi_obj pi).
Proof. exact @book_apply_steps. Qed.
Print Assumptions C10_book_apply_steps.

(* the kit premises hold for the concrete kit of the correspondence (Model/StructC.v): the invariant theorem instantiated *)
Theorem C10_structc_consistent_history :
  forall (h : list (list key * sop N)) (t : cnode) (b : book) (u : N) 
           (t' : cnode) (b' : book) (u' : N),
         history mk_child N build copy_procs vfixed h t b u t' b' u' ->
         cwf t ->
         consistent_procs t b ->
         consistent_steps t b -> cwf t' /\ consistent_procs t' b' /\ consistent_steps t' b'.
Proof. exact @structc_consistent_history. Qed.
Print Assumptions C10_structc_consistent_history.

(* known finding K8 on the concrete kit: after an inheriting division both tables are consistent while the published topology / flow still list the steps the daughters lost *)
Theorem C10_k8_tables_consistent_publication_stale :
  exists (t' : cnode) (b' : book) (u' : N),
           history mk_child N build copy_procs vfixed
             [([10%N], OpGenerate N 20%N 3%N (Nd []));
              ([10%N], OpDivide N 20%N [(21%N, None, Nd []); (22%N, None, Nd [])] [])] ex_root
             ex_book 100 t' b' u' /\
           consistent_procs t' b' /\
           consistent_steps t' b' /\
           step_paths t' = [] /\
           b_steps b' = [] /\
           In [10%N; 21%N; kFst] (pub_topology b') /\
           In ([10%N; 21%N; kFst2], [[Dn kFst]]) (pub_flow b') /\
           cget t' [10%N; 21%N; kFst] = None /\ cget t' [10%N; 21%N; kFst2] = None.
Proof. exact @k8_tables_consistent_publication_stale. Qed.
Print Assumptions C10_k8_tables_consistent_publication_stale.

(* known finding K6 on the concrete kit: explicit daughters with an empty flow - tables consistent, published flow stale *)
Theorem C10_k6_tables_consistent_publication_stale :
  exists (t' : cnode) (b' : book) (u' : N),
           history mk_child N build copy_procs vfixed
             [([10%N], OpGenerate N 20%N 3%N (Nd []));
              ([10%N], OpDivide N 20%N [(21%N, Some 0%N, Nd []); (22%N, Some 0%N, Nd [])] [])]
             ex_root ex_book 100 t' b' u' /\
           consistent_procs t' b' /\
           consistent_steps t' b' /\
           step_paths t' = [] /\
           b_steps b' = [] /\
           In ([10%N; 21%N; kFst2], [[Dn kFst]]) (pub_flow b') /\ cget t' [10%N; 21%N; kFst2] = None.
Proof. exact @k6_tables_consistent_publication_stale. Qed.
Print Assumptions C10_k6_tables_consistent_publication_stale.

(* newly created processes start at the time of their creation (scheduler model: a registered process without a front entry is invoked, if at all, for an interval starting at the current global time) *)
Theorem C10_new_process_starts_now :
  forall (Sg U W : Type) (poll : W -> Sched.pid -> Sg -> Z * W)
           (cond : W -> Sched.pid -> Z -> Sg -> bool * W) (next : W -> Sched.pid -> Z -> Sg -> U * W)
           (commit : Sg -> list Sched.pid -> list (Sched.pid * U) -> Sg * list Sched.pid)
           (vr : Sched.variant) (ee : option Z) (endt : Z) (force : bool) 
           (et : Z) (s s' : Sched.st Sg U W) (f' : bool) (et' : Z) (ok : bool) 
           (p : Sched.pid) (start fin ts req now : Z) (view : Sg),
         NoDup (Sched.procs Sg U W s) ->
         Sched.iter Sg U W poll cond next commit vr ee endt force et s = (s', f', et', ok) ->
         Sched.mem p (Sched.procs Sg U W s) = true ->
         Sched.flook U (Sched.frt Sg U W s) p = None ->
         In (Sched.EInvoke Sg p start fin ts req now view) (Sched.log Sg U W s') ->
         ~ In (Sched.EInvoke Sg p start fin ts req now view) (Sched.log Sg U W s) ->
         start = Sched.gt Sg U W s /\ now = Sched.gt Sg U W s.
Proof. exact @new_process_starts_now. Qed.
Print Assumptions C10_new_process_starts_now.

(* a deleted process leaves no schedule entry behind, whatever it had in flight: a process created again under its path starts afresh *)
Theorem C10_deleted_process_front_dropped :
  forall (Sg U W : Type) (poll : W -> Sched.pid -> Sg -> Z * W)
           (cond : W -> Sched.pid -> Z -> Sg -> bool * W) (next : W -> Sched.pid -> Z -> Sg -> U * W)
           (commit : Sg -> list Sched.pid -> list (Sched.pid * U) -> Sg * list Sched.pid)
           (vr : Sched.variant) (ee : option Z) (endt : Z) (force : bool) 
           (et : Z) (s s' : Sched.st Sg U W) (f' : bool) (et' : Z) (ok : bool) 
           (p : Sched.pid),
         Sched.iter Sg U W poll cond next commit vr ee endt force et s = (s', f', et', ok) ->
         Sched.mem p (Sched.procs Sg U W s) = false -> Sched.flook U (Sched.frt Sg U W s') p = None.
Proof. exact @deleted_process_front_dropped. Qed.
Print Assumptions C10_deleted_process_front_dropped.

(* the former statement under the premise it now needs: when no reported process lies under a reported deletion, no registered process does *)
Theorem C10_book_apply_drops_unreported :
  forall (b : book) (rp : reports) (b' : book) (d p : list key) (o : N),
         (forall (q : list key) (pi : pinfo),
          In (q, pi) (r_process rp) ->
          pi_step pi = false ->
          forall d0 : list key, In d0 (r_deletions rp) -> starts_with q d0 = false) ->
         book_apply b rp = Ok b' ->
         In d (r_deletions rp) -> In (p, o) (b_procs b') -> starts_with p d = false.
Proof. exact @book_apply_drops_unreported. Qed.
Print Assumptions C10_book_apply_drops_unreported.

(* ... registered with its object, when the reports of that path agree on it *)
Theorem C10_book_apply_registers_obj :
  forall (b : book) (rp : reports) (b' : book) (p : list key) (pi : pinfo),
         book_apply b rp = Ok b' ->
         In (p, pi) (r_process rp) ->
         pi_step pi = false ->
         (forall pi' : pinfo,
          In (p, pi') (r_process rp) -> pi_step pi' = false -> pi_obj pi' = pi_obj pi) ->
         In (p, pi_obj pi) (b_procs b').
Proof. exact @book_apply_registers_obj. Qed.
Print Assumptions C10_book_apply_registers_obj.

(* the process table after Engine.apply_update's folding, explicitly and without premise: everything under a reported deletion goes, then the reported non-step processes are assigned in order *)
Theorem C10_book_apply_procs_eq :
  forall (b : book) (rp : reports) (b' : book),
         book_apply b rp = Ok b' ->
         b_procs b' =
         fold_left psetf (filter nonstep (r_process rp))
           (fold_left pdrop (r_deletions rp) (b_procs b)).
Proof. exact @book_apply_procs_eq. Qed.
Print Assumptions C10_book_apply_procs_eq.

(* ... the step table *)
Theorem C10_book_apply_steps_eq :
  forall (b : book) (rp : reports) (b' : book),
         book_apply b rp = Ok b' ->
         b_steps b' = fold_left psetf (step_adds rp) (fold_left pdrop (r_deletions rp) (b_steps b)).
Proof. exact @book_apply_steps_eq. Qed.
Print Assumptions C10_book_apply_steps_eq.

(* record of the pinned order (register, then delete): nothing registered survived under a reported deletion, not even what the same update had put there *)
Theorem C10_book_apply_pinned_drops :
  forall (b : book) (rp : reports) (b' : book) (d p : list key) (o : N),
         book_apply_pinned b rp = Ok b' ->
         In d (r_deletions rp) ->
         In (p, o) (b_procs b') \/ In (p, o) (b_steps b') -> starts_with p d = false.
Proof. exact @book_apply_pinned_drops. Qed.
Print Assumptions C10_book_apply_pinned_drops.

(* the full engine step: what is registered under a deleted path afterwards was reported by this update and is still held by the store (the node exists and holds that very object) *)
Theorem C10_engine_apply_drops :
  forall (b : book) (t' : cnode) (rp : reports) (b' : book) (d p : list key) (o : N),
         engine_apply b t' rp = Ok b' ->
         In d (r_deletions rp) ->
         In (p, o) (b_procs b') ->
         starts_with p d = true ->
         exists pi : pinfo,
           In (p, pi) (r_process rp) /\
           pi_step pi = false /\ o = pi_obj pi /\ held_proc t' (p, pi) = true.
Proof. exact @engine_apply_drops. Qed.
Print Assumptions C10_engine_apply_drops.

(* ... nested move, step table, the folding alone (premise: the target is not inside the moved subtree) *)
Theorem C10_consistent_steps_movep :
  forall (mk_child : N -> cnode * N) (D : Type) (build : D -> N -> cnode * N)
           (copy_procs : cnode -> N -> cnode * N) (vr : variant) (t : cnode)
           (here src tgt : list key) (uid : N) (t' : cnode) (rp : reports) 
           (uid' : N) (b b' : book),
         cwf t ->
         consistent_steps t b ->
         starts_with (tgt ++ src) (here ++ src) = false ->
         apply_op mk_child D build copy_procs vr t here (OpMoveP D src tgt) uid = Ok (t', rp, uid') ->
         book_apply b rp = Ok b' -> consistent_steps t' b'.
Proof. exact @consistent_steps_movep. Qed.
Print Assumptions C10_consistent_steps_movep.

(* ... nested move, step table, the full engine step: no premise on the target *)
Theorem C10_consistent_steps_movep_any :
  forall (mk_child : N -> cnode * N) (D : Type) (build : D -> N -> cnode * N)
           (copy_procs : cnode -> N -> cnode * N) (vr : variant) (t : cnode)
           (here src tgt : list key) (uid : N) (t' : cnode) (rp : reports) 
           (uid' : N) (b b' : book),
         cwf t ->
         consistent_steps t b ->
         apply_op mk_child D build copy_procs vr t here (OpMoveP D src tgt) uid = Ok (t', rp, uid') ->
         engine_apply b t' rp = Ok b' -> consistent_steps t' b'.
Proof. exact @consistent_steps_movep_any. Qed.
Print Assumptions C10_consistent_steps_movep_any.

(* THE ENGINE RUNS EXACTLY WHAT IS IN THE HIERARCHY, the full step (deletions first, only what the store still holds), one operation: no premise beyond op_ok (new key for _generate, new distinct keys for _divide) *)
Theorem C10_engine_consistent_op :
  forall (mk_child : N -> cnode * N) (D : Type) (build : D -> N -> cnode * N)
           (copy_procs : cnode -> N -> cnode * N),
         (forall u : N, proc_nodes (fst (mk_child u)) [] = []) ->
         (forall u : N, cwf (fst (mk_child u))) ->
         (forall (x : D) (n : N), cwf (fst (build x n))) ->
         (forall (x : D) (n : N) (p : list key) (pi : pinfo),
          In (p, pi) (proc_nodes (fst (build x n)) []) -> pi_in_steps pi = true -> pi_step pi = true) ->
         (forall (m : cnode) (n : N), cwf m -> cwf (fst (copy_procs m n))) ->
         forall (t : cnode) (here : list key) (o : sop D) (uid : N) (t' : cnode) 
           (rp : reports) (uid' : N) (b b' : book),
         cwf t ->
         op_ok D t here o ->
         consistent_procs t b ->
         consistent_steps t b ->
         apply_op mk_child D build copy_procs vfixed t here o uid = Ok (t', rp, uid') ->
         engine_apply b t' rp = Ok b' -> consistent_procs t' b' /\ consistent_steps t' b'.
Proof. exact @engine_consistent_op. Qed.
Print Assumptions C10_engine_consistent_op.

(* ... one update carrying ANY NUMBER of operations for one node (applied in the store's order): every operation meets op_ok in the state it is applied to; reports that put the same object at the same path agree on is_step() *)
Theorem C10_engine_consistent_ops :
  forall (mk_child : N -> cnode * N) (D : Type) (build : D -> N -> cnode * N)
           (copy_procs : cnode -> N -> cnode * N),
         (forall u : N, proc_nodes (fst (mk_child u)) [] = []) ->
         (forall u : N, cwf (fst (mk_child u))) ->
         (forall (x : D) (n : N), cwf (fst (build x n))) ->
         (forall (x : D) (n : N) (p : list key) (pi : pinfo),
          In (p, pi) (proc_nodes (fst (build x n)) []) -> pi_in_steps pi = true -> pi_step pi = true) ->
         (forall (m : cnode) (n : N), cwf m -> cwf (fst (copy_procs m n))) ->
         forall (t : cnode) (here : list key) (ops : list (sop D)) (uid : N) 
           (t' : cnode) (rp : reports) (uid' : N) (b b' : book),
         cwf t ->
         ops_ok mk_child D build copy_procs vfixed t here (order_ops D ops) uid ->
         consistent_procs t b ->
         consistent_steps t b ->
         apply_ops mk_child D build copy_procs vfixed t here ops uid = Ok (t', rp, uid') ->
         reports_coherent rp ->
         engine_apply b t' rp = Ok b' -> cwf t' /\ consistent_procs t' b' /\ consistent_steps t' b'.
Proof. exact @engine_consistent_ops. Qed.
Print Assumptions C10_engine_consistent_ops.

(* ... along any history of such updates *)
Theorem C10_engine_consistent_history :
  forall (mk_child : N -> cnode * N) (D : Type) (build : D -> N -> cnode * N)
           (copy_procs : cnode -> N -> cnode * N),
         (forall u : N, proc_nodes (fst (mk_child u)) [] = []) ->
         (forall u : N, cwf (fst (mk_child u))) ->
         (forall (x : D) (n : N), cwf (fst (build x n))) ->
         (forall (x : D) (n : N) (p : list key) (pi : pinfo),
          In (p, pi) (proc_nodes (fst (build x n)) []) -> pi_in_steps pi = true -> pi_step pi = true) ->
         (forall (m : cnode) (n : N), cwf m -> cwf (fst (copy_procs m n))) ->
         forall (h : list (list key * list (sop D))) (t : cnode) (b : book) 
           (u : N) (t' : cnode) (b' : book) (u' : N),
         engine_history mk_child D build copy_procs vfixed h t b u t' b' u' ->
         cwf t ->
         consistent_procs t b ->
         consistent_steps t b -> cwf t' /\ consistent_procs t' b' /\ consistent_steps t' b'.
Proof. exact @engine_consistent_history. Qed.
Print Assumptions C10_engine_consistent_history.

(* THE REPAIR, case 1: one update generates a compartment and deletes it again - nothing of it is registered, both tables follow the hierarchy *)
Theorem C10_engine_generate_delete_consistent :
  forall (mk_child : N -> cnode * N) (D : Type) (build : D -> N -> cnode * N)
           (copy_procs : cnode -> N -> cnode * N),
         (forall u : N, proc_nodes (fst (mk_child u)) [] = []) ->
         (forall u : N, cwf (fst (mk_child u))) ->
         (forall (x : D) (n : N), cwf (fst (build x n))) ->
         (forall (x : D) (n : N) (p : list key) (pi : pinfo),
          In (p, pi) (proc_nodes (fst (build x n)) []) -> pi_in_steps pi = true -> pi_step pi = true) ->
         (forall (m : cnode) (n : N), cwf m -> cwf (fst (copy_procs m n))) ->
         forall (vr : variant) (t : cnode) (here : list key) (k : key) (d : D) 
           (init : tree Z) (uid : N) (t' : cnode) (rp : reports) (uid' : N) 
           (b b' : book),
         cwf t ->
         consistent_procs t b ->
         consistent_steps t b ->
         cget t (here ++ [k]) = None ->
         apply_ops mk_child D build copy_procs vr t here [OpGenerate D k d init; OpDelete D k] uid =
         Ok (t', rp, uid') ->
         engine_apply b t' rp = Ok b' -> cwf t' /\ consistent_procs t' b' /\ consistent_steps t' b'.
Proof. exact @engine_generate_delete_consistent. Qed.
Print Assumptions C10_engine_generate_delete_consistent.

(* THE REPAIR, case 2: one update moves a compartment away and generates a new one under its key - the moved processes are registered at the new place, the new ones at the old place; no premise besides success *)
Theorem C10_engine_move_generate_consistent :
  forall (mk_child : N -> cnode * N) (D : Type) (build : D -> N -> cnode * N)
           (copy_procs : cnode -> N -> cnode * N),
         (forall u : N, proc_nodes (fst (mk_child u)) [] = []) ->
         (forall u : N, cwf (fst (mk_child u))) ->
         (forall (x : D) (n : N), cwf (fst (build x n))) ->
         (forall (x : D) (n : N) (p : list key) (pi : pinfo),
          In (p, pi) (proc_nodes (fst (build x n)) []) -> pi_in_steps pi = true -> pi_step pi = true) ->
         (forall (m : cnode) (n : N), cwf m -> cwf (fst (copy_procs m n))) ->
         forall (vr : variant) (t : cnode) (here : list key) (k : key) (tgt : list key) 
           (d : D) (init : tree Z) (uid : N) (t' : cnode) (rp : reports) 
           (uid' : N) (b b' : book),
         cwf t ->
         consistent_procs t b ->
         consistent_steps t b ->
         apply_ops mk_child D build copy_procs vr t here [OpMove D k tgt; OpGenerate D k d init] uid =
         Ok (t', rp, uid') ->
         engine_apply b t' rp = Ok b' -> cwf t' /\ consistent_procs t' b' /\ consistent_steps t' b'.
Proof. exact @engine_move_generate_consistent. Qed.
Print Assumptions C10_engine_move_generate_consistent.

(* the full-step invariant at the concrete kit of the correspondence (the model of Corr/Structc.run_hist) *)
Theorem C10_structc_engine_consistent_history :
  forall (h : list (list key * list (sop N))) (t : cnode) (b : book) 
           (u : N) (t' : cnode) (b' : book) (u' : N),
         engine_history mk_child N build copy_procs vfixed h t b u t' b' u' ->
         cwf t ->
         consistent_procs t b ->
         consistent_steps t b -> cwf t' /\ consistent_procs t' b' /\ consistent_steps t' b'.
Proof. exact @structc_engine_consistent_history. Qed.
Print Assumptions C10_structc_engine_consistent_history.

(* RECORD OF THE PINNED ORDER, concrete kit: one update moves compartment 20 to the other colony and generates a new 20 - the pinned Engine.apply_update (register, then delete) loses the new compartment's process (a process node of the hierarchy that is not in the table); the repaired step registers both and both tables follow the hierarchy *)
Theorem C10_book_apply_pinned_refuted :
  exists (t' : cnode) (rp : reports) (u' : N) (bp be : book),
           cwf pin_root /\
           consistent_procs pin_root pin_book /\
           consistent_steps pin_root pin_book /\
           kapply_ops vfixed pin_root [10%N] [OpMove N 20%N [11%N]; OpGenerate N 20%N 0%N (Nd [])]
             200 = Ok (t', rp, u') /\
           kbook_apply_pinned pin_book rp = Ok bp /\
           kengine_apply pin_book t' rp = Ok be /\
           In ([10%N; 20%N; kCnt], 207%N) (proc_paths t') /\
           In ([11%N; 20%N; kCnt], 107%N) (proc_paths t') /\
           ~ In [10%N; 20%N; kCnt] (map fst (b_procs bp)) /\
           ~ consistent_procs t' bp /\
           In ([10%N; 20%N; kCnt], 207%N) (b_procs be) /\
           In ([11%N; 20%N; kCnt], 107%N) (b_procs be) /\
           consistent_procs t' be /\ consistent_steps t' be.
Proof. exact @book_apply_pinned_refuted. Qed.
Print Assumptions C10_book_apply_pinned_refuted.

(* why only what the store still holds: one update generates compartment 21 and deletes it - folding the raw reports with the deletions first registers a process that is gone; the full step leaves the table as it was *)
Theorem C10_engine_held_needed :
  exists (t' : cnode) (rp : reports) (u' : N) (bb be : book),
           kapply_ops vfixed pin_root [10%N] [OpGenerate N 21%N 0%N (Nd []); OpDelete N 21%N] 200 =
           Ok (t', rp, u') /\
           cget t' [10%N; 21%N] = None /\
           kbook_apply pin_book rp = Ok bb /\
           kengine_apply pin_book t' rp = Ok be /\
           In ([10%N; 21%N; kCnt], 207%N) (b_procs bb) /\
           ~ consistent_procs t' bb /\
           b_procs be = b_procs pin_book /\ consistent_procs t' be /\ consistent_steps t' be.
Proof. exact @engine_held_needed. Qed.
Print Assumptions C10_engine_held_needed.

(* why the folding alone needs the premise on a nested move: a move into the moved subtree itself - the raw reports register a step that is gone, the full step registers nothing *)
Theorem C10_movep_book_apply_premise_needed :
  exists (t' : cnode) (rp : reports) (uid' : N) (bb be : book),
           cwf cxm_tree3 /\
           consistent_procs cxm_tree3 cxm_book3 /\
           consistent_steps cxm_tree3 cxm_book3 /\
           apply_op cx_mk_child unit cx_build cx_copy vfixed cxm_tree3 []
             (OpMoveP unit [1%N; 2%N] [1%N; 2%N]) 10 = Ok (t', rp, uid') /\
           book_apply cxm_book3 rp = Ok bb /\
           engine_apply cxm_book3 t' rp = Ok be /\
           step_paths t' = [] /\
           b_steps bb = [([1%N; 2%N; 1%N; 2%N; 5%N], 6%N)] /\
           ~ consistent_steps t' bb /\
           b_steps be = [] /\ consistent_procs t' be /\ consistent_steps t' be.
Proof. exact @movep_book_apply_premise_needed. Qed.
Print Assumptions C10_movep_book_apply_premise_needed.

(* Model/Fronts.v (Engine.front is keyed by path, Model/Sched.v by pid): after Engine.apply_update every process object of the table has exactly the schedule entry it had before, wherever it was registered then - also when it was deleted and re-registered in place - and a new object has none (side conditions on the reports: functional_reports, no_rotation, steps_apart - each shown necessary by a needs_* example; discharged for the reports of the store by engine_reports_follow_op/_ops) *)
Theorem C10_front_follows_identity :
  forall (T : Type) (b b' : book) (rp : reports) (fr : fronts T),
         wf_front T (b_procs b) fr ->
         book_apply b rp = Ok b' ->
         NoDup (map snd (b_procs b')) ->
         functional_reports rp ->
         no_rotation b rp ->
         steps_apart b rp ->
         forall (o : N) (p' : list key),
         In (p', o) (b_procs b') ->
         entry_of T (b_procs b') (front_apply T b fr rp) o = entry_of T (b_procs b) fr o.
Proof. exact @front_follows_identity. Qed.
Print Assumptions C10_front_follows_identity.

(* INVARIANT: front entries exist only for registered processes, one per path, objects registered once *)
Theorem C10_front_apply_wf :
  forall (T : Type) (b b' : book) (rp : reports) (fr : fronts T),
         wf_front T (b_procs b) fr ->
         book_apply b rp = Ok b' ->
         NoDup (map snd (b_procs b')) -> wf_front T (b_procs b') (front_apply T b fr rp).
Proof. exact @front_apply_wf. Qed.
Print Assumptions C10_front_apply_wf.

(* what left the table has no entry left *)
Theorem C10_front_apply_gone :
  forall (T : Type) (b b' : book) (rp : reports) (fr : fronts T) (p : list key) (e : T),
         wf_front T (b_procs b) fr ->
         book_apply b rp = Ok b' -> In (p, e) (front_apply T b fr rp) -> In p (map fst (b_procs b')).
Proof. exact @front_apply_gone. Qed.
Print Assumptions C10_front_apply_gone.

(* the invariant along any history of updates *)
Theorem C10_run_wf :
  forall (T : Type) (h : list reports) (b : book) (fr : fronts T) (b' : book) (fr' : fronts T),
         wf_front T (b_procs b) fr ->
         run T b fr h = Ok (b', fr') -> hist_nodup b h -> wf_front T (b_procs b') fr'.
Proof. exact @run_wf. Qed.
Print Assumptions C10_run_wf.

(* an object that stays registered through a history ends with the entry it started with *)
Theorem C10_run_follows :
  forall (T : Type) (o : N) (h : list reports) (b : book) (fr : fronts T) 
           (b' : book) (fr' : fronts T),
         wf_front T (b_procs b) fr ->
         run T b fr h = Ok (b', fr') ->
         hist_follows o b h -> entry_of T (b_procs b') fr' o = entry_of T (b_procs b) fr o.
Proof. exact @run_follows. Qed.
Print Assumptions C10_run_follows.

(* the pinned code on a move: the moved process lost its entry; the current code keeps it (concrete kit) *)
Theorem C10_front_apply_pinned_refuted :
  exists (t' : cnode) (rp : reports) (u' : N) (be : book),
           kapply_ops vfixed pin_root [10%N] [OpMove N 20%N [11%N]] 200 = Ok (t', rp, u') /\
           kengine_apply pin_book t' rp = Ok be /\
           (let rph := held_reports t' rp in
            let fr0 := map (fun po : list key * N => (fst po, fst po)) (b_procs pin_book) in
            wf_front (list key) (b_procs pin_book) fr0 /\
            In ([10%N; 20%N; kCnt], 107%N) (b_procs pin_book) /\
            In ([11%N; 20%N; kCnt], 107%N) (b_procs be) /\
            entry_of (list key) (b_procs pin_book) fr0 107 = Some [10%N; 20%N; kCnt] /\
            entry_of (list key) (b_procs be) (front_apply_pinned (list key) pin_book fr0 rph) 107 =
            None /\
            entry_of (list key) (b_procs be) (front_apply (list key) pin_book fr0 rph) 107 =
            Some [10%N; 20%N; kCnt] /\ NoDup (map snd (b_procs be)) /\ reports_follow pin_book rph).
Proof. exact @front_apply_pinned_refuted. Qed.
Print Assumptions C10_front_apply_pinned_refuted.

(* the reports of ONE store operation satisfy the side conditions of front_follows_identity and leave every object registered once (premises: well-formed hierarchy, unique process objects, consistent tables, op_ok; kit premise: built subtrees carry fresh objects) *)
Theorem C10_engine_reports_follow_op :
  forall (mk_child : N -> cnode * N) (D : Type) (build : D -> N -> cnode * N)
           (copy_procs : cnode -> N -> cnode * N),
         (forall u : N, proc_nodes (fst (mk_child u)) [] = []) ->
         (forall u : N, cwf (fst (mk_child u))) ->
         (forall (x : D) (n : N), cwf (fst (build x n))) ->
         (forall (x : D) (n : N) (p : list key) (pi : pinfo),
          In (p, pi) (proc_nodes (fst (build x n)) []) -> pi_in_steps pi = true -> pi_step pi = true) ->
         (forall (m : cnode) (n : N), cwf m -> cwf (fst (copy_procs m n))) ->
         (forall u : N, (u <= snd (mk_child u))%N) ->
         (forall (d : D) (u : N), fresh_sub (fst (build d u)) u (snd (build d u))) ->
         (forall (m : cnode) (u : N), fresh_sub (fst (copy_procs m u)) u (snd (copy_procs m u))) ->
         forall (vr : variant) (t : cnode) (here : list key) (o : sop D) 
           (uid : N) (t' : cnode) (rp : reports) (uid' : N) (b b' : book),
         cwf t ->
         objs_unique t ->
         objs_below t uid ->
         op_ok D t here o ->
         consistent_procs t b ->
         consistent_steps t b ->
         apply_op mk_child D build copy_procs vr t here o uid = Ok (t', rp, uid') ->
         engine_apply b t' rp = Ok b' ->
         reports_follow b (held_reports t' rp) /\
         NoDup (map snd (b_procs b')) /\ objs_unique t' /\ objs_below t' uid' /\ (uid <= uid')%N.
Proof. exact @engine_reports_follow_op. Qed.
Print Assumptions C10_engine_reports_follow_op.

(* ... of one update with ANY number of operations (no premise on the reports beyond reports_coherent) *)
Theorem C10_engine_reports_follow_ops :
  forall (mk_child : N -> cnode * N) (D : Type) (build : D -> N -> cnode * N)
           (copy_procs : cnode -> N -> cnode * N),
         (forall u : N, proc_nodes (fst (mk_child u)) [] = []) ->
         (forall u : N, cwf (fst (mk_child u))) ->
         (forall (x : D) (n : N), cwf (fst (build x n))) ->
         (forall (x : D) (n : N) (p : list key) (pi : pinfo),
          In (p, pi) (proc_nodes (fst (build x n)) []) -> pi_in_steps pi = true -> pi_step pi = true) ->
         (forall (m : cnode) (n : N), cwf m -> cwf (fst (copy_procs m n))) ->
         (forall u : N, (u <= snd (mk_child u))%N) ->
         (forall (d : D) (u : N), fresh_sub (fst (build d u)) u (snd (build d u))) ->
         (forall (m : cnode) (u : N), fresh_sub (fst (copy_procs m u)) u (snd (copy_procs m u))) ->
         forall (vr : variant) (t : cnode) (here : list key) (ops : list (sop D)) 
           (uid : N) (t' : cnode) (rp : reports) (uid' : N) (b b' : book),
         cwf t ->
         objs_unique t ->
         objs_below t uid ->
         ops_ok mk_child D build copy_procs vr t here (order_ops D ops) uid ->
         consistent_procs t b ->
         consistent_steps t b ->
         apply_ops mk_child D build copy_procs vr t here ops uid = Ok (t', rp, uid') ->
         reports_coherent rp ->
         engine_apply b t' rp = Ok b' ->
         reports_follow b (held_reports t' rp) /\
         NoDup (map snd (b_procs b')) /\ objs_unique t' /\ objs_below t' uid' /\ (uid <= uid')%N.
Proof. exact @engine_reports_follow_ops. Qed.
Print Assumptions C10_engine_reports_follow_ops.

(* END TO END, one operation through the full engine step: entries follow objects, new objects have none, the front invariant is kept *)
Theorem C10_engine_front_follows_identity_op :
  forall (mk_child : N -> cnode * N) (D : Type) (build : D -> N -> cnode * N)
           (copy_procs : cnode -> N -> cnode * N),
         (forall u : N, proc_nodes (fst (mk_child u)) [] = []) ->
         (forall u : N, cwf (fst (mk_child u))) ->
         (forall (x : D) (n : N), cwf (fst (build x n))) ->
         (forall (x : D) (n : N) (p : list key) (pi : pinfo),
          In (p, pi) (proc_nodes (fst (build x n)) []) -> pi_in_steps pi = true -> pi_step pi = true) ->
         (forall (m : cnode) (n : N), cwf m -> cwf (fst (copy_procs m n))) ->
         (forall u : N, (u <= snd (mk_child u))%N) ->
         (forall (d : D) (u : N), fresh_sub (fst (build d u)) u (snd (build d u))) ->
         (forall (m : cnode) (u : N), fresh_sub (fst (copy_procs m u)) u (snd (copy_procs m u))) ->
         forall (T : Type) (vr : variant) (t : cnode) (here : list key) (o : sop D) 
           (uid : N) (t' : cnode) (rp : reports) (uid' : N) (b b' : book) 
           (fr : fronts T),
         cwf t ->
         objs_unique t ->
         objs_below t uid ->
         op_ok D t here o ->
         consistent_procs t b ->
         consistent_steps t b ->
         wf_front T (b_procs b) fr ->
         apply_op mk_child D build copy_procs vr t here o uid = Ok (t', rp, uid') ->
         engine_apply b t' rp = Ok b' ->
         wf_front T (b_procs b') (front_apply T b fr (held_reports t' rp)) /\
         (forall ob : N,
          In ob (map snd (b_procs b')) ->
          entry_of T (b_procs b') (front_apply T b fr (held_reports t' rp)) ob =
          entry_of T (b_procs b) fr ob) /\
         (forall ob : N,
          In ob (map snd (b_procs b')) ->
          ~ In ob (map snd (b_procs b)) ->
          entry_of T (b_procs b') (front_apply T b fr (held_reports t' rp)) ob = None).
Proof. exact @engine_front_follows_identity_op. Qed.
Print Assumptions C10_engine_front_follows_identity_op.

(* ... one update with any number of operations *)
Theorem C10_engine_front_follows_identity_ops :
  forall (mk_child : N -> cnode * N) (D : Type) (build : D -> N -> cnode * N)
           (copy_procs : cnode -> N -> cnode * N),
         (forall u : N, proc_nodes (fst (mk_child u)) [] = []) ->
         (forall u : N, cwf (fst (mk_child u))) ->
         (forall (x : D) (n : N), cwf (fst (build x n))) ->
         (forall (x : D) (n : N) (p : list key) (pi : pinfo),
          In (p, pi) (proc_nodes (fst (build x n)) []) -> pi_in_steps pi = true -> pi_step pi = true) ->
         (forall (m : cnode) (n : N), cwf m -> cwf (fst (copy_procs m n))) ->
         (forall u : N, (u <= snd (mk_child u))%N) ->
         (forall (d : D) (u : N), fresh_sub (fst (build d u)) u (snd (build d u))) ->
         (forall (m : cnode) (u : N), fresh_sub (fst (copy_procs m u)) u (snd (copy_procs m u))) ->
         forall (T : Type) (vr : variant) (t : cnode) (here : list key) (ops : list (sop D))
           (uid : N) (t' : cnode) (rp : reports) (uid' : N) (b b' : book) 
           (fr : fronts T),
         cwf t ->
         objs_unique t ->
         objs_below t uid ->
         ops_ok mk_child D build copy_procs vr t here (order_ops D ops) uid ->
         consistent_procs t b ->
         consistent_steps t b ->
         wf_front T (b_procs b) fr ->
         apply_ops mk_child D build copy_procs vr t here ops uid = Ok (t', rp, uid') ->
         reports_coherent rp ->
         engine_apply b t' rp = Ok b' ->
         wf_front T (b_procs b') (front_apply T b fr (held_reports t' rp)) /\
         (forall ob : N,
          In ob (map snd (b_procs b')) ->
          entry_of T (b_procs b') (front_apply T b fr (held_reports t' rp)) ob =
          entry_of T (b_procs b) fr ob) /\
         (forall ob : N,
          In ob (map snd (b_procs b')) ->
          ~ In ob (map snd (b_procs b)) ->
          entry_of T (b_procs b') (front_apply T b fr (held_reports t' rp)) ob = None).
Proof. exact @engine_front_follows_identity_ops. Qed.
Print Assumptions C10_engine_front_follows_identity_ops.

(* along any history of updates all invariants are kept (hierarchy well formed, objects unique, both tables consistent, front invariant) and an object registered throughout ends with the entry it started with *)
Theorem C10_engine_front_history :
  forall (mk_child : N -> cnode * N) (D : Type) (build : D -> N -> cnode * N)
           (copy_procs : cnode -> N -> cnode * N),
         (forall u : N, proc_nodes (fst (mk_child u)) [] = []) ->
         (forall u : N, cwf (fst (mk_child u))) ->
         (forall (x : D) (n : N), cwf (fst (build x n))) ->
         (forall (x : D) (n : N) (p : list key) (pi : pinfo),
          In (p, pi) (proc_nodes (fst (build x n)) []) -> pi_in_steps pi = true -> pi_step pi = true) ->
         (forall (m : cnode) (n : N), cwf m -> cwf (fst (copy_procs m n))) ->
         (forall u : N, (u <= snd (mk_child u))%N) ->
         (forall (d : D) (u : N), fresh_sub (fst (build d u)) u (snd (build d u))) ->
         (forall (m : cnode) (u : N), fresh_sub (fst (copy_procs m u)) u (snd (copy_procs m u))) ->
         forall (T : Type) (vr : variant) (h : list (list key * list (sop D))) 
           (t : cnode) (b : book) (u : N) (fr : fronts T) (bs : list book) 
           (t' : cnode) (b' : book) (u' : N) (fr' : fronts T),
         efront_history mk_child D build copy_procs T vr h t b u fr bs t' b' u' fr' ->
         cwf t ->
         objs_unique t ->
         objs_below t u ->
         consistent_procs t b ->
         consistent_steps t b ->
         wf_front T (b_procs b) fr ->
         (cwf t' /\
          objs_unique t' /\
          objs_below t' u' /\
          consistent_procs t' b' /\ consistent_steps t' b' /\ wf_front T (b_procs b') fr') /\
         (forall o : N,
          (forall bi : book, In bi bs -> In o (map snd (b_procs bi))) ->
          entry_of T (b_procs b') fr' o = entry_of T (b_procs b) fr o).
Proof. exact @engine_front_history. Qed.
Print Assumptions C10_engine_front_history.

(* process objects stay unique through any update *)
Theorem C10_apply_ops_objs :
  forall (mk_child : N -> cnode * N) (D : Type) (build : D -> N -> cnode * N)
           (copy_procs : cnode -> N -> cnode * N),
         (forall u : N, proc_nodes (fst (mk_child u)) [] = []) ->
         (forall u : N, cwf (fst (mk_child u))) ->
         (forall (x : D) (n : N), cwf (fst (build x n))) ->
         (forall (x : D) (n : N) (p : list key) (pi : pinfo),
          In (p, pi) (proc_nodes (fst (build x n)) []) -> pi_in_steps pi = true -> pi_step pi = true) ->
         (forall (m : cnode) (n : N), cwf m -> cwf (fst (copy_procs m n))) ->
         (forall u : N, (u <= snd (mk_child u))%N) ->
         (forall (d : D) (u : N), fresh_sub (fst (build d u)) u (snd (build d u))) ->
         (forall (m : cnode) (u : N), fresh_sub (fst (copy_procs m u)) u (snd (copy_procs m u))) ->
         forall (vr : variant) (t : cnode) (here : list key) (ops : list (sop D)) 
           (uid : N) (t' : cnode) (rp : reports) (uid' : N),
         cwf t ->
         objs_unique t ->
         objs_below t uid ->
         ops_ok mk_child D build copy_procs vr t here (order_ops D ops) uid ->
         apply_ops mk_child D build copy_procs vr t here ops uid = Ok (t', rp, uid') ->
         cwf t' /\
         (exists news : list (list key * pinfo), upd_fit t t' rp news /\ origin t uid news) /\
         objs_unique t' /\ objs_below t' uid' /\ (uid <= uid')%N.
Proof. exact @apply_ops_objs. Qed.
Print Assumptions C10_apply_ops_objs.

(* a _move to the very parent the source hangs under is rejected *)
Theorem C10_move_same_parent_rejected :
  forall (mk_child : N -> cnode * N) (D : Type) (build : D -> N -> cnode * N)
           (copy_procs : cnode -> N -> cnode * N) (vr : variant) (t : cnode) 
           (here : list key) (src : key) (uid u : N) (g : bool) (c : list (key * cnode))
           (node : cnode),
         cget t here = Some (CDir u g c) ->
         alookup src c = Some node ->
         apply_op mk_child D build copy_procs vr t here (OpMove D src here) uid = Err EOther.
Proof. exact @move_same_parent_rejected. Qed.
Print Assumptions C10_move_same_parent_rejected.

(* ... instantiated for the concrete kit of the correspondence (kit premises proved: structc_build_objs, structc_copy_objs) *)
Theorem C10_structc_engine_front_history :
  forall (T : Type) (vr : variant) (h : list (list key * list (sop N))) 
           (t : cnode) (b : book) (u : N) (fr : fronts T) (bs : list book) 
           (t' : cnode) (b' : book) (u' : N) (fr' : fronts T),
         efront_history mk_child N build copy_procs T vr h t b u fr bs t' b' u' fr' ->
         cwf t ->
         objs_unique t ->
         objs_below t u ->
         consistent_procs t b ->
         consistent_steps t b ->
         wf_front T (b_procs b) fr ->
         (cwf t' /\
          objs_unique t' /\
          objs_below t' u' /\
          consistent_procs t' b' /\ consistent_steps t' b' /\ wf_front T (b_procs b') fr') /\
         (forall o : N,
          (forall bi : book, In bi bs -> In o (map snd (b_procs bi))) ->
          entry_of T (b_procs b') fr' o = entry_of T (b_procs b) fr o).
Proof. exact @structc_engine_front_history. Qed.
Print Assumptions C10_structc_engine_front_history.

(* record of repair d76c21b (found by this proof): an update that moves a compartment away and back lost the entry of a process that never left its place; the repaired code keeps it and the general theorem covers the update *)
Theorem C10_front_apply_neq_refuted :
  exists (t' : cnode) (rp : reports) (u' : N) (b' : book),
           cwf rt_root /\
           objs_unique rt_root /\
           objs_below rt_root 200 /\
           consistent_procs rt_root rt_book /\
           consistent_steps rt_root rt_book /\
           ops_ok mk_child N build copy_procs vfixed rt_root [30%N] (order_ops N rt_ops) 200 /\
           kapply_ops vfixed rt_root [30%N] rt_ops 200 = Ok (t', rp, u') /\
           reports_coherent rp /\
           kengine_apply rt_book t' rp = Ok b' /\
           wf_front (list key) (b_procs rt_book) rt_fr0 /\
           (let rph := held_reports t' rp in
            proc_paths t' = proc_paths rt_root /\
            b_procs b' = b_procs rt_book /\
            ~ no_round_trip rt_root t' rp /\
            ~ not_in_place rt_book rph /\
            reports_follow rt_book rph /\
            NoDup (map snd (b_procs b')) /\
            entry_of (list key) (b_procs rt_book) rt_fr0 107 = Some [30%N; 20%N; kCnt] /\
            entry_of (list key) (b_procs b') (front_apply_neq (list key) rt_book rt_fr0 rph) 107 =
            None /\
            entry_of (list key) (b_procs b') (front_apply (list key) rt_book rt_fr0 rph) 107 =
            Some [30%N; 20%N; kCnt] /\
            (forall (T : Type) (fr : fronts T),
             wf_front T (b_procs rt_book) fr ->
             wf_front T (b_procs b') (front_apply T rt_book fr rph) /\
             (forall ob : N,
              In ob (map snd (b_procs b')) ->
              entry_of T (b_procs b') (front_apply T rt_book fr rph) ob =
              entry_of T (b_procs rt_book) fr ob))).
Proof. exact @front_apply_neq_refuted. Qed.
Print Assumptions C10_front_apply_neq_refuted.

(* the premise reports_coherent of the multi-operation theorems is a THEOREM: with process objects unique, one update of any number of operations reports every object with one record *)
Theorem C10_apply_ops_reports_coherent :
  forall (mk_child : N -> cnode * N) (D : Type) (build : D -> N -> cnode * N)
           (copy_procs : cnode -> N -> cnode * N),
         (forall u : N, proc_nodes (fst (mk_child u)) [] = []) ->
         (forall u : N, cwf (fst (mk_child u))) ->
         (forall (x : D) (n : N), cwf (fst (build x n))) ->
         (forall (x : D) (n : N) (p : list key) (pi : pinfo),
          In (p, pi) (proc_nodes (fst (build x n)) []) -> pi_in_steps pi = true -> pi_step pi = true) ->
         (forall (m : cnode) (n : N), cwf m -> cwf (fst (copy_procs m n))) ->
         (forall u : N, (u <= snd (mk_child u))%N) ->
         (forall (d : D) (u : N), fresh_sub (fst (build d u)) u (snd (build d u))) ->
         (forall (m : cnode) (u : N), fresh_sub (fst (copy_procs m u)) u (snd (copy_procs m u))) ->
         forall (vr : variant) (t : cnode) (here : list key) (ops : list (sop D)) 
           (uid : N) (t' : cnode) (rp : reports) (uid' : N),
         cwf t ->
         objs_unique t ->
         objs_below t uid ->
         ops_ok mk_child D build copy_procs vr t here (order_ops D ops) uid ->
         apply_ops mk_child D build copy_procs vr t here ops uid = Ok (t', rp, uid') ->
         reports_coherent rp.
Proof. exact @apply_ops_reports_coherent. Qed.
Print Assumptions C10_apply_ops_reports_coherent.

(* tables = hierarchy after ONE update of any number of operations through the full engine step, with no premise on the reports (invariants: well-formed hierarchy, unique process objects below the counter; preserved) *)
Theorem C10_engine_consistent_ops_unique :
  forall (mk_child : N -> cnode * N) (D : Type) (build : D -> N -> cnode * N)
           (copy_procs : cnode -> N -> cnode * N),
         (forall u : N, proc_nodes (fst (mk_child u)) [] = []) ->
         (forall u : N, cwf (fst (mk_child u))) ->
         (forall (x : D) (n : N), cwf (fst (build x n))) ->
         (forall (x : D) (n : N) (p : list key) (pi : pinfo),
          In (p, pi) (proc_nodes (fst (build x n)) []) -> pi_in_steps pi = true -> pi_step pi = true) ->
         (forall (m : cnode) (n : N), cwf m -> cwf (fst (copy_procs m n))) ->
         (forall u : N, (u <= snd (mk_child u))%N) ->
         (forall (d : D) (u : N), fresh_sub (fst (build d u)) u (snd (build d u))) ->
         (forall (m : cnode) (u : N), fresh_sub (fst (copy_procs m u)) u (snd (copy_procs m u))) ->
         forall (vr : variant) (t : cnode) (here : list key) (ops : list (sop D)) 
           (uid : N) (t' : cnode) (rp : reports) (uid' : N) (b b' : book),
         cwf t ->
         objs_unique t ->
         objs_below t uid ->
         ops_ok mk_child D build copy_procs vr t here (order_ops D ops) uid ->
         consistent_procs t b ->
         consistent_steps t b ->
         apply_ops mk_child D build copy_procs vr t here ops uid = Ok (t', rp, uid') ->
         engine_apply b t' rp = Ok b' ->
         cwf t' /\
         consistent_procs t' b' /\
         consistent_steps t' b' /\ objs_unique t' /\ objs_below t' uid' /\ (uid <= uid')%N.
Proof. exact @engine_consistent_ops_unique. Qed.
Print Assumptions C10_engine_consistent_ops_unique.

(* ... along any history of such updates *)
Theorem C10_engine_consistent_history_unique :
  forall (mk_child : N -> cnode * N) (D : Type) (build : D -> N -> cnode * N)
           (copy_procs : cnode -> N -> cnode * N),
         (forall u : N, proc_nodes (fst (mk_child u)) [] = []) ->
         (forall u : N, cwf (fst (mk_child u))) ->
         (forall (x : D) (n : N), cwf (fst (build x n))) ->
         (forall (x : D) (n : N) (p : list key) (pi : pinfo),
          In (p, pi) (proc_nodes (fst (build x n)) []) -> pi_in_steps pi = true -> pi_step pi = true) ->
         (forall (m : cnode) (n : N), cwf m -> cwf (fst (copy_procs m n))) ->
         (forall u : N, (u <= snd (mk_child u))%N) ->
         (forall (d : D) (u : N), fresh_sub (fst (build d u)) u (snd (build d u))) ->
         (forall (m : cnode) (u : N), fresh_sub (fst (copy_procs m u)) u (snd (copy_procs m u))) ->
         forall (vr : variant) (h : list (list key * list (sop D))) (t : cnode) 
           (b : book) (u : N) (t' : cnode) (b' : book) (u' : N),
         engine_history_u mk_child D build copy_procs vr h t b u t' b' u' ->
         cwf t ->
         objs_unique t ->
         objs_below t u ->
         consistent_procs t b ->
         consistent_steps t b ->
         cwf t' /\
         consistent_procs t' b' /\
         consistent_steps t' b' /\ objs_unique t' /\ objs_below t' u' /\ (u <= u')%N.
Proof. exact @engine_consistent_history_unique. Qed.
Print Assumptions C10_engine_consistent_history_unique.

(* END TO END without any premise on the reports: along any history every invariant is kept and a process object registered throughout ends with the schedule entry it started with *)
Theorem C10_engine_front_history_unique :
  forall (mk_child : N -> cnode * N) (D : Type) (build : D -> N -> cnode * N)
           (copy_procs : cnode -> N -> cnode * N),
         (forall u : N, proc_nodes (fst (mk_child u)) [] = []) ->
         (forall u : N, cwf (fst (mk_child u))) ->
         (forall (x : D) (n : N), cwf (fst (build x n))) ->
         (forall (x : D) (n : N) (p : list key) (pi : pinfo),
          In (p, pi) (proc_nodes (fst (build x n)) []) -> pi_in_steps pi = true -> pi_step pi = true) ->
         (forall (m : cnode) (n : N), cwf m -> cwf (fst (copy_procs m n))) ->
         (forall u : N, (u <= snd (mk_child u))%N) ->
         (forall (d : D) (u : N), fresh_sub (fst (build d u)) u (snd (build d u))) ->
         (forall (m : cnode) (u : N), fresh_sub (fst (copy_procs m u)) u (snd (copy_procs m u))) ->
         forall (T : Type) (vr : variant) (h : list (list key * list (sop D))) 
           (t : cnode) (b : book) (u : N) (fr : fronts T) (bs : list book) 
           (t' : cnode) (b' : book) (u' : N) (fr' : fronts T),
         efront_history_u mk_child D build copy_procs T vr h t b u fr bs t' b' u' fr' ->
         cwf t ->
         objs_unique t ->
         objs_below t u ->
         consistent_procs t b ->
         consistent_steps t b ->
         wf_front T (b_procs b) fr ->
         (cwf t' /\
          objs_unique t' /\
          objs_below t' u' /\
          consistent_procs t' b' /\ consistent_steps t' b' /\ wf_front T (b_procs b') fr') /\
         (forall o : N,
          (forall bi : book, In bi bs -> In o (map snd (b_procs bi))) ->
          entry_of T (b_procs b') fr' o = entry_of T (b_procs b) fr o).
Proof. exact @engine_front_history_unique. Qed.
Print Assumptions C10_engine_front_history_unique.

(* ... instantiated for the concrete kit of the correspondence *)
Theorem C10_structc_engine_consistent_history_unique :
  forall (vr : variant) (h : list (list key * list (sop N))) (t : cnode) 
           (b : book) (u : N) (t' : cnode) (b' : book) (u' : N),
         engine_history_u mk_child N build copy_procs vr h t b u t' b' u' ->
         cwf t ->
         objs_unique t ->
         objs_below t u ->
         consistent_procs t b ->
         consistent_steps t b ->
         cwf t' /\
         consistent_procs t' b' /\
         consistent_steps t' b' /\ objs_unique t' /\ objs_below t' u' /\ (u <= u')%N.
Proof. exact @structc_engine_consistent_history_unique. Qed.
Print Assumptions C10_structc_engine_consistent_history_unique.

(* ... instantiated for the concrete kit of the correspondence *)
Theorem C10_structc_engine_front_history_unique :
  forall (T : Type) (vr : variant) (h : list (list key * list (sop N))) 
           (t : cnode) (b : book) (u : N) (fr : fronts T) (bs : list book) 
           (t' : cnode) (b' : book) (u' : N) (fr' : fronts T),
         efront_history_u mk_child N build copy_procs T vr h t b u fr bs t' b' u' fr' ->
         cwf t ->
         objs_unique t ->
         objs_below t u ->
         consistent_procs t b ->
         consistent_steps t b ->
         wf_front T (b_procs b) fr ->
         (cwf t' /\
          objs_unique t' /\
          objs_below t' u' /\
          consistent_procs t' b' /\ consistent_steps t' b' /\ wf_front T (b_procs b') fr') /\
         (forall o : N,
          (forall bi : book, In bi bs -> In o (map snd (b_procs bi))) ->
          entry_of T (b_procs b') fr' o = entry_of T (b_procs b) fr o).
Proof. exact @structc_engine_front_history_unique. Qed.
Print Assumptions C10_structc_engine_front_history_unique.

(* without unique process objects one update (three nested moves) yields incoherent reports and an inconsistent process table: the invariant is what replaces the premise *)
Theorem C10_reports_coherent_needs_unique :
  exists (t' : cnode) (rp : reports) (u' : N) (b' : book),
           cwf nu_root /\
           objs_below nu_root 100 /\
           ~ objs_unique nu_root /\
           consistent_procs nu_root nu_book /\
           consistent_steps nu_root nu_book /\
           ops_ok mk_child N build copy_procs vfixed nu_root [] (order_ops N nu_ops) 100 /\
           kapply_ops vfixed nu_root [] nu_ops 100 = Ok (t', rp, u') /\
           In ([3%N; 2%N; 1%N; 5%N; 9%N], nu_P7) (r_process rp) /\
           In ([3%N; 2%N; 1%N; 5%N; 9%N], nu_S7) (r_step rp) /\
           ~ reports_coherent rp /\
           kengine_apply nu_book t' rp = Ok b' /\
           In ([3%N; 2%N; 1%N; 5%N; 9%N], 7%N) (b_procs b') /\
           ~ In ([3%N; 2%N; 1%N; 5%N; 9%N], 7%N) (proc_paths t') /\ ~ consistent_procs t' b'.
Proof. exact @reports_coherent_needs_unique. Qed.
Print Assumptions C10_reports_coherent_needs_unique.

(* REFINEMENT: read through entry_of (the entry of a process object), Engine.apply_update acts on the path-keyed Engine.front exactly like keep_live of Model/Sched.v on its pid-keyed fronts: an object registered afterwards keeps its entry, every other object has none *)
Theorem C10_front_refines_keep_live :
  forall (T : Type) (b b' : book) (rp : reports) (fr : fronts T),
         wf_front T (b_procs b) fr ->
         book_apply b rp = Ok b' ->
         NoDup (map snd (b_procs b')) ->
         functional_reports rp ->
         no_rotation b rp ->
         steps_apart b rp ->
         forall o : N,
         entry_of T (b_procs b') (front_apply T b fr rp) o =
         (if existsb (N.eqb o) (map snd (b_procs b')) then entry_of T (b_procs b) fr o else None).
Proof. exact @front_refines_keep_live. Qed.
Print Assumptions C10_front_refines_keep_live.


(* ---- non-vacuity on the concrete kit (Model/StructC.v) ---- *)
Definition ex_root : cnode :=
  CDir 0 false [(10%N, CDir 3 true [(20%N, fst (build 3%N 100%N))]); (11%N, CDir 4 true [])].
Example ex_cwf : cwf ex_root.
Proof.
  repeat (constructor; cbn; try (intros H; repeat destruct H as [H|H]; try discriminate; try contradiction)).
Qed.
Example ex_move : exists t' rp, kapply_ops vfixed ex_root [10%N] [OpMove N 20%N [11%N]] 200%N = Ok (t', rp, 200%N)
                               /\ cget t' [11%N; 20%N] = cget ex_root [10%N; 20%N] /\ cget t' [10%N; 20%N] = None.
Proof. eexists. eexists. split; [vm_compute; reflexivity|]. split; vm_compute; reflexivity. Qed.
Example ex_outside : outside [10%N; 20%N; 0%N; 1%N] (named N [11%N] (OpAdd N 21%N (Nd []))).
Proof. intros nm [<-|[]]. reflexivity. Qed.

(* the concrete kit meets the premises of the consistency theorems *)
Example kit_child_no_procs : forall u, proc_nodes (fst (mk_child u)) [] = [].
Proof. intros u. reflexivity. Qed.
Example kit_steps_are_steps : forall x n p pi,
  In (p, pi) (proc_nodes (fst (build x n)) []) -> pi_in_steps pi = true -> pi_step pi = true.
Proof.
  intros x n p pi. unfold build. destruct (is_inert x), (no_cnt x), (has_drv x), (has_flow x); cbn;
  intros H; repeat (destruct H as [H|H]; [inversion H; subst; cbn; auto|]); contradiction.
Qed.
Example kit_build_cwf : forall x n, cwf (fst (build x n)).
Proof.
  intros x n. unfold build. destruct (is_inert x), (no_cnt x), (has_drv x), (has_flow x); cbn;
  repeat (constructor; cbn; try (intros H; repeat destruct H as [H|H]; try discriminate; try contradiction)).
Qed.

