(* C10 - The engine runs exactly what is in the hierarchy after any structural history.
   Model: Model/Struct.v (reports of the store operations; book_apply = Engine.apply_update/_delete_path/
   _add_process_path/_add_step_path) with Model/Steps.v and Model/Sched.v; proofs: Proofs/Struct_proofs.v.
   The scheduler only ever polls the processes of its table (Model/Sched.v iter folds over procs) and creates fronts
   at the current time; what is proved here is the table part, including the invariant "process table = non-step process
   nodes of the hierarchy" through delete, generate and move (Proofs/Consistent_proofs.v).  Proofs/Consistent2_proofs.v extends it to the step table and to division
   (consistent_op, consistent_history).  The step graph, the published composite and the
   continuation of a rebuilt engine are decided by the bookkeeping correspondence and the run-stream oracle of the
   check; known findings K3, K6, K8 are deviations of the current code.
   This file contains only statements closed by `exact`, their assumptions and non-vacuity examples.
   Generated once by tools/genprops.py from the proved lemmas (statements restated verbatim). *)
From Coq Require Import List NArith ZArith Bool Lia Sorting.Permutation.
From Viv Require Import Base.Assoc Base.Tree Model.Paths Model.Steps Model.Struct Model.StructC Proofs.Struct_proofs Proofs.Consistent_proofs Proofs.MoveP_proofs Proofs.Consistent2_proofs Proofs.Sched_entry_proofs.
Import ListNotations.

(* after an update no registered process lies under a path it deleted: nothing deleted (or moved away under its old path) is ever polled again *)
Theorem C10_book_apply_drops :
  forall (b : book) (rp : reports) (b' : book) (d p : list key) (o : N),
         book_apply b rp = Ok b' ->
         In d (r_deletions rp) -> In (p, o) (b_procs b') -> starts_with p d = false.
Proof. exact @book_apply_drops. Qed.
Print Assumptions C10_book_apply_drops.

(* ... nor any registered step *)
Theorem C10_book_apply_drops_steps :
  forall (b : book) (rp : reports) (b' : book) (d p : list key) (o : N),
         book_apply b rp = Ok b' ->
         In d (r_deletions rp) -> In (p, o) (b_steps b') -> starts_with p d = false.
Proof. exact @book_apply_drops_steps. Qed.
Print Assumptions C10_book_apply_drops_steps.

(* every process the store reports as created is registered (unless the same update deletes it) *)
Theorem C10_book_apply_registers :
  forall (b : book) (rp : reports) (b' : book) (p : list key) (pi : pinfo),
         book_apply b rp = Ok b' ->
         In (p, pi) (r_process rp) ->
         pi_step pi = false ->
         (forall d : list key, In d (r_deletions rp) -> starts_with p d = false) ->
         In p (map fst (b_procs b')).
Proof. exact @book_apply_registers. Qed.
Print Assumptions C10_book_apply_registers.

(* a moved subtree keeps its process objects; its old path is reported deleted *)
Theorem C10_move_moves :
  forall (mk_child : N -> cnode * N) (D : Type) (build : D -> N -> cnode * N)
           (copy_procs : cnode -> N -> cnode * N) (vr : variant) (t : cnode) 
           (here : list key) (src : key) (tgt : list key) (uid : N) (t' : cnode) 
           (rp : reports) (uid' : N) (node : cnode) (u : N) (g : bool) (c : list (key * cnode)),
         cwf t ->
         cget t here = Some (CDir u g c) ->
         alookup src c = Some node ->
         starts_with (tgt ++ [src]) (here ++ [src]) = false ->
         starts_with (here ++ [src]) (tgt ++ [src]) = false ->
         apply_op mk_child D build copy_procs vr t here (OpMove D src tgt) uid = Ok (t', rp, uid') ->
         cget t' (tgt ++ [src]) = Some node /\
         cget t' (here ++ [src]) = None /\ uid' = uid /\ r_deletions rp = [here ++ [src]].
Proof. exact @move_moves. Qed.
Print Assumptions C10_move_moves.

(* generated processes sit where the reports say *)
Theorem C10_generate_places :
  forall (mk_child : N -> cnode * N) (D : Type) (build : D -> N -> cnode * N)
           (copy_procs : cnode -> N -> cnode * N) (vr : variant) (t : cnode) 
           (here : list key) (k : key) (d : D) (init : tree Z) (uid : N) 
           (t' : cnode) (rp : reports) (uid' : N),
         apply_op mk_child D build copy_procs vr t here (OpGenerate D k d init) uid =
         Ok (t', rp, uid') ->
         exists (sub : cnode) (u1 : N),
           set_value mk_child (S (tdepth init)) (fst (build d uid)) init (snd (build d uid)) =
           Ok (sub, u1) /\ cget t' (here ++ [k]) = Some sub /\ uid' = u1.
Proof. exact @generate_places. Qed.
Print Assumptions C10_generate_places.

(* processes outside the named subtrees keep their identity through any history *)
Theorem C10_history_frame :
  forall (mk_child : N -> cnode * N) (D : Type) (build : D -> N -> cnode * N)
           (copy_procs : cnode -> N -> cnode * N) (vr : variant) (h : list (list key * list (sop D)))
           (t : cnode) (uid : N) (t' : cnode) (uid' : N) (q : list key),
         fold_left
           (fun (acc : res (cnode * N)) (ho : list key * list (sop D)) =>
            match acc with
            | Ok (t0, u0) =>
                match apply_ops mk_child D build copy_procs vr t0 (fst ho) (snd ho) u0 with
                | Ok (t1, _, u1) => Ok (t1, u1)
                | Err e => Err e
                end
            | Err e => Err e
            end) h (Ok (t, uid)) = Ok (t', uid') ->
         outside q
           (flat_map (fun ho : list key * list (sop D) => flat_map (named D (fst ho)) (snd ho)) h) ->
         sig_at t' q = sig_at t q.
Proof. exact @history_frame. Qed.
Print Assumptions C10_history_frame.

(* INVARIANT tables = hierarchy, delete step: if the process table lists exactly the non-step process nodes of the hierarchy before a _delete, it does so after the store operation and the engine bookkeeping *)
Theorem C10_consistent_delete :
  forall (mk_child : N -> cnode * N) (D : Type) (build : D -> N -> cnode * N)
           (copy_procs : cnode -> N -> cnode * N) (vr : variant) (t : cnode) 
           (here : list key) (k : key) (uid : N) (t' : cnode) (rp : reports) 
           (uid' : N) (b b' : book),
         cwf t ->
         consistent_procs t b ->
         apply_op mk_child D build copy_procs vr t here (OpDelete D k) uid = Ok (t', rp, uid') ->
         book_apply b rp = Ok b' -> consistent_procs t' b'.
Proof. exact @consistent_delete. Qed.
Print Assumptions C10_consistent_delete.

(* ... generate step (new key; whatever the composite lists under steps is a Step) *)
Theorem C10_consistent_generate :
  forall (mk_child : N -> cnode * N) (D : Type) (build : D -> N -> cnode * N)
           (copy_procs : cnode -> N -> cnode * N),
         (forall u : N, proc_nodes (fst (mk_child u)) [] = []) ->
         forall (vr : variant) (t : cnode) (here : list key) (k : key) (d : D) 
           (init : tree Z) (uid : N) (t' : cnode) (rp : reports) (uid' : N) 
           (b b' : book) (u : N) (g : bool) (c : list (key * cnode)),
         cwf t ->
         consistent_procs t b ->
         cget t here = Some (CDir u g c) ->
         alookup k c = None ->
         (forall (x : D) (n : N), cwf (fst (build x n))) ->
         (forall (x : D) (n : N) (p : list key) (pi : pinfo),
          In (p, pi) (proc_nodes (fst (build x n)) []) -> pi_in_steps pi = true -> pi_step pi = true) ->
         apply_op mk_child D build copy_procs vr t here (OpGenerate D k d init) uid =
         Ok (t', rp, uid') -> book_apply b rp = Ok b' -> consistent_procs t' b'.
Proof. exact @consistent_generate. Qed.
Print Assumptions C10_consistent_generate.

(* ... move step (repaired Store.move) *)
Theorem C10_consistent_move :
  forall (mk_child : N -> cnode * N) (D : Type) (build : D -> N -> cnode * N)
           (copy_procs : cnode -> N -> cnode * N) (t : cnode) (here : list key) 
           (src : key) (tgt : list key) (uid : N) (t' : cnode) (rp : reports) 
           (uid' : N) (b b' : book),
         cwf t ->
         consistent_procs t b ->
         starts_with (tgt ++ [src]) (here ++ [src]) = false ->
         starts_with (here ++ [src]) (tgt ++ [src]) = false ->
         apply_op mk_child D build copy_procs vfixed t here (OpMove D src tgt) uid =
         Ok (t', rp, uid') -> book_apply b rp = Ok b' -> consistent_procs t' b'.
Proof. exact @consistent_move. Qed.
Print Assumptions C10_consistent_move.

(* the table keeps one entry per path *)
Theorem C10_book_apply_nodup :
  forall (b : book) (rp : reports) (b' : book),
         NoDup (map fst (b_procs b)) ->
         NoDup
           (map fst (filter (fun pp : list key * pinfo => negb (pi_step (snd pp))) (r_process rp))) ->
         (forall (p : list key) (pi : pinfo),
          In (p, pi) (r_process rp) -> pi_step pi = false -> ~ In p (map fst (b_procs b))) ->
         book_apply b rp = Ok b' -> NoDup (map fst (b_procs b')).
Proof. exact @book_apply_nodup. Qed.
Print Assumptions C10_book_apply_nodup.

(* in a well-formed hierarchy process paths are pairwise distinct *)
Theorem C10_proc_nodes_nodup :
  forall t : cnode, cwf t -> forall pre : list key, NoDup (map fst (proc_nodes t pre)).
Proof. exact @proc_nodes_nodup. Qed.
Print Assumptions C10_proc_nodes_nodup.

(* the processes of the hierarchy after a delete are exactly those not under the deleted path *)
Theorem C10_delete_reports :
  forall (mk_child : N -> cnode * N) (D : Type) (build : D -> N -> cnode * N)
           (copy_procs : cnode -> N -> cnode * N) (vr : variant) (t : cnode) 
           (here : list key) (k : key) (uid : N) (t' : cnode) (rp : reports) 
           (uid' : N) (q : list key) (o : N),
         cwf t ->
         apply_op mk_child D build copy_procs vr t here (OpDelete D k) uid = Ok (t', rp, uid') ->
         In (q, o) (proc_paths t') <->
         In (q, o) (proc_paths t) /\ starts_with q (here ++ [k]) = false.
Proof. exact @delete_reports. Qed.
Print Assumptions C10_delete_reports.

(* the processes after a generate are exactly the old ones plus the reported ones *)
Theorem C10_generate_reports_partial :
  forall (mk_child : N -> cnode * N) (D : Type) (build : D -> N -> cnode * N)
           (copy_procs : cnode -> N -> cnode * N),
         (forall u : N, proc_nodes (fst (mk_child u)) [] = []) ->
         forall (vr : variant) (t : cnode) (here : list key) (k : key) (d : D) 
           (init : tree Z) (uid : N) (t' : cnode) (rp : reports) (uid' : N) 
           (q : list key) (o u : N) (g : bool) (c : list (key * cnode)),
         cwf t ->
         cget t here = Some (CDir u g c) ->
         alookup k c = None ->
         (forall (x : D) (n : N), cwf (fst (build x n))) ->
         (forall (x : D) (n : N) (p : list key) (pi : pinfo),
          In (p, pi) (proc_nodes (fst (build x n)) []) -> pi_in_steps pi = true -> pi_step pi = true) ->
         apply_op mk_child D build copy_procs vr t here (OpGenerate D k d init) uid =
         Ok (t', rp, uid') ->
         In (q, o) (proc_paths t') <->
         In (q, o) (proc_paths t) \/
         (exists pi : pinfo, In (q, pi) (r_process rp) /\ pi_step pi = false /\ o = pi_obj pi).
Proof. exact @generate_reports_partial. Qed.
Print Assumptions C10_generate_reports_partial.

(* ... the table never gets a process the hierarchy lacks (no premise on the composite) *)
Theorem C10_generate_reports_sound :
  forall (mk_child : N -> cnode * N) (D : Type) (build : D -> N -> cnode * N)
           (copy_procs : cnode -> N -> cnode * N) (vr : variant) (t : cnode) 
           (here : list key) (k : key) (d : D) (init : tree Z) (uid : N) 
           (t' : cnode) (rp : reports) (uid' : N) (q : list key) (o u : N) 
           (g : bool) (c : list (key * cnode)),
         cwf t ->
         cget t here = Some (CDir u g c) ->
         alookup k c = None ->
         apply_op mk_child D build copy_procs vr t here (OpGenerate D k d init) uid =
         Ok (t', rp, uid') ->
         In (q, o) (proc_paths t) \/
         (exists pi : pinfo, In (q, pi) (r_process rp) /\ pi_step pi = false /\ o = pi_obj pi) ->
         In (q, o) (proc_paths t').
Proof. exact @generate_reports_sound. Qed.
Print Assumptions C10_generate_reports_sound.

(* the processes after a move are exactly the old ones outside the source plus the reported ones *)
Theorem C10_move_reports :
  forall (mk_child : N -> cnode * N) (D : Type) (build : D -> N -> cnode * N)
           (copy_procs : cnode -> N -> cnode * N) (t : cnode) (here : list key) 
           (src : key) (tgt : list key) (uid : N) (t' : cnode) (rp : reports) 
           (uid' : N) (q : list key) (o : N),
         cwf t ->
         starts_with (tgt ++ [src]) (here ++ [src]) = false ->
         starts_with (here ++ [src]) (tgt ++ [src]) = false ->
         apply_op mk_child D build copy_procs vfixed t here (OpMove D src tgt) uid =
         Ok (t', rp, uid') ->
         In (q, o) (proc_paths t') <->
         In (q, o) (proc_paths t) /\ starts_with q (here ++ [src]) = false \/
         (exists pi : pinfo, In (q, pi) (r_process rp) /\ o = pi_obj pi).
Proof. exact @move_reports. Qed.
Print Assumptions C10_move_reports.

(* Engine.apply_update registers exactly the reported non-step processes and drops exactly those under reported deletions *)
Theorem C10_book_apply_procs :
  forall (b : book) (rp : reports) (b' : book) (q : list key) (o : N),
         NoDup (map fst (b_procs b)) ->
         (forall (p : list key) (pi : pinfo),
          In (p, pi) (r_process rp) ->
          pi_step pi = false -> forall d : list key, In d (r_deletions rp) -> starts_with p d = false) ->
         NoDup
           (map fst (filter (fun pp : list key * pinfo => negb (pi_step (snd pp))) (r_process rp))) ->
         (forall (p : list key) (pi : pinfo),
          In (p, pi) (r_process rp) -> pi_step pi = false -> ~ In p (map fst (b_procs b))) ->
         book_apply b rp = Ok b' ->
         In (q, o) (b_procs b') <->
         In (q, o) (b_procs b) /\
         (forall d : list key, In d (r_deletions rp) -> starts_with q d = false) \/
         (exists pi : pinfo, In (q, pi) (r_process rp) /\ pi_step pi = false /\ o = pi_obj pi).
Proof. exact @book_apply_procs. Qed.
Print Assumptions C10_book_apply_procs.

(* ... move step with a nested source path *)
Theorem C10_consistent_movep :
  forall (mk_child : N -> cnode * N) (D : Type) (build : D -> N -> cnode * N)
           (copy_procs : cnode -> N -> cnode * N) (vr : variant) (t : cnode)
           (here src tgt : list key) (uid : N) (t' : cnode) (rp : reports) 
           (uid' : N) (b b' : book),
         cwf t ->
         consistent_procs t b ->
         starts_with (tgt ++ src) (here ++ src) = false ->
         apply_op mk_child D build copy_procs vr t here (OpMoveP D src tgt) uid = Ok (t', rp, uid') ->
         book_apply b rp = Ok b' -> consistent_procs t' b'.
Proof. exact @consistent_movep. Qed.
Print Assumptions C10_consistent_movep.

(* the processes after a nested-source move are exactly the old ones outside the source plus the reported ones *)
Theorem C10_movep_reports :
  forall (mk_child : N -> cnode * N) (D : Type) (build : D -> N -> cnode * N)
           (copy_procs : cnode -> N -> cnode * N) (vr : variant) (t : cnode)
           (here src tgt : list key) (uid : N) (t' : cnode) (rp : reports) 
           (uid' : N) (q : list key) (o : N),
         cwf t ->
         starts_with (tgt ++ src) (here ++ src) = false ->
         apply_op mk_child D build copy_procs vr t here (OpMoveP D src tgt) uid = Ok (t', rp, uid') ->
         In (q, o) (proc_paths t') <->
         In (q, o) (proc_paths t) /\ starts_with q (here ++ src) = false \/
         (exists pi : pinfo, In (q, pi) (r_process rp) /\ o = pi_obj pi).
Proof. exact @movep_reports. Qed.
Print Assumptions C10_movep_reports.

(* THE ENGINE RUNS EXACTLY WHAT IS IN THE HIERARCHY, one operation: if the process table and the step table list exactly the process / step nodes of the hierarchy (one entry per path), they still do after any structural operation (_add, _delete in both forms, _generate at a new key, _divide into new distinct keys, _move with a key or a nested path) followed by the engine bookkeeping *)
Theorem C10_consistent_op :
  forall (mk_child : N -> cnode * N) (D : Type) (build : D -> N -> cnode * N)
           (copy_procs : cnode -> N -> cnode * N),
         (forall u : N, proc_nodes (fst (mk_child u)) [] = []) ->
         (forall u : N, cwf (fst (mk_child u))) ->
         (forall (x : D) (n : N), cwf (fst (build x n))) ->
         (forall (x : D) (n : N) (p : list key) (pi : pinfo),
          In (p, pi) (proc_nodes (fst (build x n)) []) -> pi_in_steps pi = true -> pi_step pi = true) ->
         (forall (m : cnode) (n : N), cwf m -> cwf (fst (copy_procs m n))) ->
         forall (t : cnode) (here : list key) (o : sop D) (uid : N) (t' : cnode) 
           (rp : reports) (uid' : N) (b b' : book),
         cwf t ->
         op_ok D t here o ->
         consistent_procs t b ->
         consistent_steps t b ->
         apply_op mk_child D build copy_procs vfixed t here o uid = Ok (t', rp, uid') ->
         book_apply b rp = Ok b' -> consistent_procs t' b' /\ consistent_steps t' b'.
Proof. exact @consistent_op. Qed.
Print Assumptions C10_consistent_op.

(* ... after any history of such updates, on a hierarchy that stays well formed *)
Theorem C10_consistent_history :
  forall (mk_child : N -> cnode * N) (D : Type) (build : D -> N -> cnode * N)
           (copy_procs : cnode -> N -> cnode * N),
         (forall u : N, proc_nodes (fst (mk_child u)) [] = []) ->
         (forall u : N, cwf (fst (mk_child u))) ->
         (forall (x : D) (n : N), cwf (fst (build x n))) ->
         (forall (x : D) (n : N) (p : list key) (pi : pinfo),
          In (p, pi) (proc_nodes (fst (build x n)) []) -> pi_in_steps pi = true -> pi_step pi = true) ->
         (forall (m : cnode) (n : N), cwf m -> cwf (fst (copy_procs m n))) ->
         forall (h : list (list key * sop D)) (t : cnode) (b : book) (u : N) 
           (t' : cnode) (b' : book) (u' : N),
         history mk_child D build copy_procs vfixed h t b u t' b' u' ->
         cwf t ->
         consistent_procs t b ->
         consistent_steps t b -> cwf t' /\ consistent_procs t' b' /\ consistent_steps t' b'.
Proof. exact @consistent_history. Qed.
Print Assumptions C10_consistent_history.

(* ... every such operation keeps the hierarchy well formed *)
Theorem C10_apply_op_cwf :
  forall (mk_child : N -> cnode * N) (D : Type) (build : D -> N -> cnode * N)
           (copy_procs : cnode -> N -> cnode * N),
         (forall u : N, proc_nodes (fst (mk_child u)) [] = []) ->
         (forall u : N, cwf (fst (mk_child u))) ->
         (forall (x : D) (n : N), cwf (fst (build x n))) ->
         (forall (m : cnode) (n : N), cwf m -> cwf (fst (copy_procs m n))) ->
         forall (vr : variant) (t : cnode) (here : list key) (o : sop D) 
           (uid : N) (t' : cnode) (rp : reports) (uid' : N),
         cwf t ->
         op_ok D t here o ->
         apply_op mk_child D build copy_procs vr t here o uid = Ok (t', rp, uid') -> cwf t'.
Proof. exact @apply_op_cwf. Qed.
Print Assumptions C10_apply_op_cwf.

(* ... division, process table (explicit daughters built by the composite, inheriting daughters copied from the mother) *)
Theorem C10_consistent_divide :
  forall (mk_child : N -> cnode * N) (D : Type) (build : D -> N -> cnode * N)
           (copy_procs : cnode -> N -> cnode * N),
         (forall u : N, proc_nodes (fst (mk_child u)) [] = []) ->
         (forall u : N, cwf (fst (mk_child u))) ->
         (forall (x : D) (n : N), cwf (fst (build x n))) ->
         (forall (m : cnode) (n : N), cwf m -> cwf (fst (copy_procs m n))) ->
         forall (vr : variant) (t : cnode) (here : list key) (m : key)
           (ds : list (key * option D * tree Z)) (ch : list bool) (uid : N) 
           (t' : cnode) (rp : reports) (uid' : N) (b b' : book),
         cwf t ->
         consistent_procs t b ->
         divide_ok D t here ds ->
         apply_op mk_child D build copy_procs vr t here (OpDivide D m ds ch) uid = Ok (t', rp, uid') ->
         book_apply b rp = Ok b' -> consistent_procs t' b'.
Proof. exact @consistent_divide. Qed.
Print Assumptions C10_consistent_divide.

(* ... division, step table *)
Theorem C10_consistent_steps_divide :
  forall (mk_child : N -> cnode * N) (D : Type) (build : D -> N -> cnode * N)
           (copy_procs : cnode -> N -> cnode * N),
         (forall u : N, proc_nodes (fst (mk_child u)) [] = []) ->
         (forall u : N, cwf (fst (mk_child u))) ->
         (forall (x : D) (n : N), cwf (fst (build x n))) ->
         (forall (m : cnode) (n : N), cwf m -> cwf (fst (copy_procs m n))) ->
         forall (vr : variant) (t : cnode) (here : list key) (m : key)
           (ds : list (key * option D * tree Z)) (ch : list bool) (uid : N) 
           (t' : cnode) (rp : reports) (uid' : N) (b b' : book),
         cwf t ->
         consistent_steps t b ->
         divide_ok D t here ds ->
         apply_op mk_child D build copy_procs vr t here (OpDivide D m ds ch) uid = Ok (t', rp, uid') ->
         book_apply b rp = Ok b' -> consistent_steps t' b'.
Proof. exact @consistent_steps_divide. Qed.
Print Assumptions C10_consistent_steps_divide.

(* ... generate, step table (what the composite lists under steps is a Step) *)
Theorem C10_consistent_steps_generate :
  forall (mk_child : N -> cnode * N) (D : Type) (build : D -> N -> cnode * N)
           (copy_procs : cnode -> N -> cnode * N),
         (forall u : N, proc_nodes (fst (mk_child u)) [] = []) ->
         (forall (x : D) (n : N), cwf (fst (build x n))) ->
         (forall (x : D) (n : N) (p : list key) (pi : pinfo),
          In (p, pi) (proc_nodes (fst (build x n)) []) -> pi_in_steps pi = true -> pi_step pi = true) ->
         forall (vr : variant) (t : cnode) (here : list key) (k : key) (d : D) 
           (init : tree Z) (uid : N) (t' : cnode) (rp : reports) (uid' : N) 
           (b b' : book),
         cwf t ->
         consistent_steps t b ->
         cget t (here ++ [k]) = None ->
         apply_op mk_child D build copy_procs vr t here (OpGenerate D k d init) uid =
         Ok (t', rp, uid') -> book_apply b rp = Ok b' -> consistent_steps t' b'.
Proof. exact @consistent_steps_generate. Qed.
Print Assumptions C10_consistent_steps_generate.

(* ... delete, step table *)
Theorem C10_consistent_steps_delete :
  forall (mk_child : N -> cnode * N) (D : Type) (build : D -> N -> cnode * N)
           (copy_procs : cnode -> N -> cnode * N) (vr : variant) (t : cnode) 
           (here : list key) (k : key) (uid : N) (t' : cnode) (rp : reports) 
           (uid' : N) (b b' : book),
         cwf t ->
         consistent_steps t b ->
         apply_op mk_child D build copy_procs vr t here (OpDelete D k) uid = Ok (t', rp, uid') ->
         book_apply b rp = Ok b' -> consistent_steps t' b'.
Proof. exact @consistent_steps_delete. Qed.
Print Assumptions C10_consistent_steps_delete.

(* ... move by key, both tables, in the pinned variant too; no premise on the target (a target inside the moved subtree makes the operation fail) *)
Theorem C10_consistent_move_any :
  forall (mk_child : N -> cnode * N) (D : Type) (build : D -> N -> cnode * N)
           (copy_procs : cnode -> N -> cnode * N) (vr : variant) (t : cnode) 
           (here : list key) (src : key) (tgt : list key) (uid : N) (t' : cnode) 
           (rp : reports) (uid' : N) (b b' : book),
         cwf t ->
         consistent_procs t b ->
         apply_op mk_child D build copy_procs vr t here (OpMove D src tgt) uid = Ok (t', rp, uid') ->
         book_apply b rp = Ok b' -> consistent_procs t' b'.
Proof. exact @consistent_move_any. Qed.
Print Assumptions C10_consistent_move_any.

(* ... move with a nested source, both tables *)
Theorem C10_consistent_movep_any :
  forall (mk_child : N -> cnode * N) (D : Type) (build : D -> N -> cnode * N)
           (copy_procs : cnode -> N -> cnode * N) (vr : variant) (t : cnode)
           (here src tgt : list key) (uid : N) (t' : cnode) (rp : reports) 
           (uid' : N) (b b' : book),
         cwf t ->
         consistent_procs t b ->
         apply_op mk_child D build copy_procs vr t here (OpMoveP D src tgt) uid = Ok (t', rp, uid') ->
         book_apply b rp = Ok b' -> consistent_procs t' b'.
Proof. exact @consistent_movep_any. Qed.
Print Assumptions C10_consistent_movep_any.

(* Engine.apply_update files as steps exactly the reported Steps (through r_step, and through r_process by is_step()) and drops those under reported deletions *)
Theorem C10_book_apply_steps :
  forall (b : book) (rp : reports) (b' : book) (q : list key) (o : N),
         NoDup (map fst (b_steps b)) ->
         (forall (p : list key) (pi pi' : pinfo),
          In (p, pi) (step_adds rp) -> In (p, pi') (step_adds rp) -> pi_obj pi = pi_obj pi') ->
         book_apply b rp = Ok b' ->
         In (q, o) (b_steps b') <->
         (In (q, o) (b_steps b) /\ ~ In q (map fst (step_adds rp)) \/
          (exists pi : pinfo, In (q, pi) (step_adds rp) /\ o = pi_obj pi)) /\
         (forall d : list key, In d (r_deletions rp) -> starts_with q d = false).
Proof. exact @book_apply_steps. Qed.
Print Assumptions C10_book_apply_steps.

(* the kit premises hold for the concrete kit of the correspondence (Model/StructC.v): the invariant theorem instantiated *)
Theorem C10_structc_consistent_history :
  forall (h : list (list key * sop N)) (t : cnode) (b : book) (u : N) 
           (t' : cnode) (b' : book) (u' : N),
         history mk_child N build copy_procs vfixed h t b u t' b' u' ->
         cwf t ->
         consistent_procs t b ->
         consistent_steps t b -> cwf t' /\ consistent_procs t' b' /\ consistent_steps t' b'.
Proof. exact @structc_consistent_history. Qed.
Print Assumptions C10_structc_consistent_history.

(* known finding K8 on the concrete kit: after an inheriting division both tables are consistent while the published topology / flow still list the steps the daughters lost *)
Theorem C10_k8_tables_consistent_publication_stale :
  exists (t' : cnode) (b' : book) (u' : N),
           history mk_child N build copy_procs vfixed
             [([10%N], OpGenerate N 20%N 3%N (Nd []));
              ([10%N], OpDivide N 20%N [(21%N, None, Nd []); (22%N, None, Nd [])] [])] ex_root
             ex_book 100 t' b' u' /\
           consistent_procs t' b' /\
           consistent_steps t' b' /\
           step_paths t' = [] /\
           b_steps b' = [] /\
           In [10%N; 21%N; kFst] (pub_topology b') /\
           In ([10%N; 21%N; kFst2], [[Dn kFst]]) (pub_flow b') /\
           cget t' [10%N; 21%N; kFst] = None /\ cget t' [10%N; 21%N; kFst2] = None.
Proof. exact @k8_tables_consistent_publication_stale. Qed.
Print Assumptions C10_k8_tables_consistent_publication_stale.

(* known finding K6 on the concrete kit: explicit daughters with an empty flow - tables consistent, published flow stale *)
Theorem C10_k6_tables_consistent_publication_stale :
  exists (t' : cnode) (b' : book) (u' : N),
           history mk_child N build copy_procs vfixed
             [([10%N], OpGenerate N 20%N 3%N (Nd []));
              ([10%N], OpDivide N 20%N [(21%N, Some 0%N, Nd []); (22%N, Some 0%N, Nd [])] [])]
             ex_root ex_book 100 t' b' u' /\
           consistent_procs t' b' /\
           consistent_steps t' b' /\
           step_paths t' = [] /\
           b_steps b' = [] /\
           In ([10%N; 21%N; kFst2], [[Dn kFst]]) (pub_flow b') /\ cget t' [10%N; 21%N; kFst2] = None.
Proof. exact @k6_tables_consistent_publication_stale. Qed.
Print Assumptions C10_k6_tables_consistent_publication_stale.

(* newly created processes start at the time of their creation (scheduler model: a registered process without a front entry is invoked, if at all, for an interval starting at the current global time) *)
Theorem C10_new_process_starts_now :
  forall (Sg U W : Type) (poll : W -> Sched.pid -> Sg -> Z * W)
           (cond : W -> Sched.pid -> Z -> Sg -> bool * W) (next : W -> Sched.pid -> Z -> Sg -> U * W)
           (commit : Sg -> list Sched.pid -> list (Sched.pid * U) -> Sg * list Sched.pid)
           (vr : Sched.variant) (ee : option Z) (endt : Z) (force : bool) 
           (et : Z) (s s' : Sched.st Sg U W) (f' : bool) (et' : Z) (ok : bool) 
           (p : Sched.pid) (start fin ts req now : Z) (view : Sg),
         NoDup (Sched.procs Sg U W s) ->
         Sched.iter Sg U W poll cond next commit vr ee endt force et s = (s', f', et', ok) ->
         Sched.mem p (Sched.procs Sg U W s) = true ->
         Sched.flook U (Sched.frt Sg U W s) p = None ->
         In (Sched.EInvoke Sg p start fin ts req now view) (Sched.log Sg U W s') ->
         ~ In (Sched.EInvoke Sg p start fin ts req now view) (Sched.log Sg U W s) ->
         start = Sched.gt Sg U W s /\ now = Sched.gt Sg U W s.
Proof. exact @new_process_starts_now. Qed.
Print Assumptions C10_new_process_starts_now.

(* a deleted process leaves no schedule entry behind, whatever it had in flight: a process created again under its path starts afresh *)
Theorem C10_deleted_process_front_dropped :
  forall (Sg U W : Type) (poll : W -> Sched.pid -> Sg -> Z * W)
           (cond : W -> Sched.pid -> Z -> Sg -> bool * W) (next : W -> Sched.pid -> Z -> Sg -> U * W)
           (commit : Sg -> list Sched.pid -> list (Sched.pid * U) -> Sg * list Sched.pid)
           (vr : Sched.variant) (ee : option Z) (endt : Z) (force : bool) 
           (et : Z) (s s' : Sched.st Sg U W) (f' : bool) (et' : Z) (ok : bool) 
           (p : Sched.pid),
         Sched.iter Sg U W poll cond next commit vr ee endt force et s = (s', f', et', ok) ->
         Sched.mem p (Sched.procs Sg U W s) = false -> Sched.flook U (Sched.frt Sg U W s') p = None.
Proof. exact @deleted_process_front_dropped. Qed.
Print Assumptions C10_deleted_process_front_dropped.


(* ---- non-vacuity on the concrete kit (Model/StructC.v) ---- *)
Definition ex_root : cnode :=
  CDir 0 false [(10%N, CDir 3 true [(20%N, fst (build 3%N 100%N))]); (11%N, CDir 4 true [])].
Example ex_cwf : cwf ex_root.
Proof.
  repeat (constructor; cbn; try (intros H; repeat destruct H as [H|H]; try discriminate; try contradiction)).
Qed.
Example ex_move : exists t' rp, kapply_ops vfixed ex_root [10%N] [OpMove N 20%N [11%N]] 200%N = Ok (t', rp, 200%N)
                               /\ cget t' [11%N; 20%N] = cget ex_root [10%N; 20%N] /\ cget t' [10%N; 20%N] = None.
Proof. eexists. eexists. split; [vm_compute; reflexivity|]. split; vm_compute; reflexivity. Qed.
Example ex_outside : outside [10%N; 20%N; 0%N; 1%N] (named N [11%N] (OpAdd N 21%N (Nd []))).
Proof. intros nm [<-|[]]. reflexivity. Qed.

(* the concrete kit meets the premises of the consistency theorems *)
Example kit_child_no_procs : forall u, proc_nodes (fst (mk_child u)) [] = [].
Proof. intros u. reflexivity. Qed.
Example kit_steps_are_steps : forall x n p pi,
  In (p, pi) (proc_nodes (fst (build x n)) []) -> pi_in_steps pi = true -> pi_step pi = true.
Proof.
  intros x n p pi. unfold build. destruct (is_inert x), (no_cnt x), (has_drv x), (has_flow x); cbn;
  intros H; repeat (destruct H as [H|H]; [inversion H; subst; cbn; auto|]); contradiction.
Qed.
Example kit_build_cwf : forall x n, cwf (fst (build x n)).
Proof.
  intros x n. unfold build. destruct (is_inert x), (no_cnt x), (has_drv x), (has_flow x); cbn;
  repeat (constructor; cbn; try (intros H; repeat destruct H as [H|H]; try discriminate; try contradiction)).
Qed.

