(* C03 - The clock is monotone and lands exactly on the requested end; run_for terminates.
   Model: Model/Sched.v; proofs: Proofs/Sched_clock_proofs.v; witnesses: Proofs/SchedC_witness.v.
   `ok` is the conjunction, over the invocations and deferrals of the run, of "the interval ends after the current
   time (or is the zero-length forced completion)"; it is automatic for update()-only use (C02_ok_forced) and its
   failure is known finding K1 (mono_refuted).  The decimal-grid sentence about binary floats is validated by the
   correspondence check only.
   This file contains only statements closed by `exact`, their assumptions and non-vacuity examples.
   Generated once by tools/genprops.py from the proved lemmas (statements restated verbatim). *)
From Coq Require Import List NArith ZArith Bool Lia Sorting.Sorted.
From Viv Require Import Model.Sched Model.SchedC Proofs.Sched_defs Proofs.Sched_clock_proofs Proofs.Sched_once_proofs Proofs.SchedC_witness.
Import ListNotations.
Open Scope Z_scope.

(* the clock never passes the end of the requested interval (unconditional) *)
Theorem C03_iter_upper :
  forall (Sg U W : Type) (poll : W -> pid -> Sg -> Z * W)
           (cond : W -> pid -> Z -> Sg -> bool * W) (next : W -> pid -> Z -> Sg -> U * W)
           (commit : Sg -> list pid -> list (pid * U) -> Sg * list pid) (vr : variant)
           (ee : option Z) (endt : Z) (force : bool) (et : Z) (s s' : st Sg U W) 
           (f' : bool) (et' : Z) (ok : bool),
         vr = vfixed ->
         gt Sg U W s <= endt ->
         iter Sg U W poll cond next commit vr ee endt force et s = (s', f', et', ok) ->
         gt Sg U W s' <= endt.
Proof. exact @iter_upper. Qed.
Print Assumptions C03_iter_upper.

(* the clock never decreases (under ok) *)
Theorem C03_iter_mono :
  forall (Sg U W : Type) (poll : W -> pid -> Sg -> Z * W)
           (cond : W -> pid -> Z -> Sg -> bool * W) (next : W -> pid -> Z -> Sg -> U * W)
           (commit : Sg -> list pid -> list (pid * U) -> Sg * list pid) (ee : option Z) 
           (endt : Z) (force : bool) (et : Z) (s s' : st Sg U W) (f' : bool) 
           (et' : Z),
         gt Sg U W s <= endt ->
         iter Sg U W poll cond next commit vfixed ee endt force et s = (s', f', et', true) ->
         gt Sg U W s <= gt Sg U W s' <= endt.
Proof. exact @iter_mono. Qed.
Print Assumptions C03_iter_mono.

(* and strictly advances while before the end *)
Theorem C03_iter_progress :
  forall (Sg U W : Type) (poll : W -> pid -> Sg -> Z * W)
           (cond : W -> pid -> Z -> Sg -> bool * W) (next : W -> pid -> Z -> Sg -> U * W)
           (commit : Sg -> list pid -> list (pid * U) -> Sg * list pid) (ee : option Z) 
           (endt : Z) (force : bool) (et : Z) (s s' : st Sg U W) (f' : bool) 
           (et' : Z),
         gt Sg U W s < endt ->
         iter Sg U W poll cond next commit vfixed ee endt force et s = (s', f', et', true) ->
         gt Sg U W s < gt Sg U W s'.
Proof. exact @iter_progress. Qed.
Print Assumptions C03_iter_progress.

(* the force flag is dropped exactly when the end is reached *)
Theorem C03_iter_force_flag :
  forall (Sg U W : Type) (poll : W -> pid -> Sg -> Z * W)
           (cond : W -> pid -> Z -> Sg -> bool * W) (next : W -> pid -> Z -> Sg -> U * W)
           (commit : Sg -> list pid -> list (pid * U) -> Sg * list pid) (vr : variant)
           (ee : option Z) (endt : Z) (force : bool) (et : Z) (s s' : st Sg U W) 
           (f' : bool) (et' : Z) (ok : bool),
         iter Sg U W poll cond next commit vr ee endt force et s = (s', f', et', ok) ->
         f' = force && negb (gt Sg U W s' =? endt).
Proof. exact @iter_force_flag. Qed.
Print Assumptions C03_iter_force_flag.

(* when a call returns the global time equals the end exactly (unconditional) *)
Theorem C03_run_lands :
  forall (Sg U W : Type) (poll : W -> pid -> Sg -> Z * W)
           (cond : W -> pid -> Z -> Sg -> bool * W) (next : W -> pid -> Z -> Sg -> U * W)
           (commit : Sg -> list pid -> list (pid * U) -> Sg * list pid) (ee : option Z) 
           (fuel : nat) (endt : Z) (force : bool) (et : Z) (s s' : st Sg U W) 
           (ok : bool),
         gt Sg U W s <= endt ->
         run Sg U W poll cond next commit vfixed ee fuel endt force et s = (Some s', ok) ->
         gt Sg U W s' = endt.
Proof. exact @run_lands. Qed.
Print Assumptions C03_run_lands.

(* monotone over a whole call *)
Theorem C03_run_mono :
  forall (Sg U W : Type) (poll : W -> pid -> Sg -> Z * W)
           (cond : W -> pid -> Z -> Sg -> bool * W) (next : W -> pid -> Z -> Sg -> U * W)
           (commit : Sg -> list pid -> list (pid * U) -> Sg * list pid) (ee : option Z) 
           (fuel : nat) (endt : Z) (force : bool) (et : Z) (s s' : st Sg U W),
         gt Sg U W s <= endt ->
         run Sg U W poll cond next commit vfixed ee fuel endt force et s = (Some s', true) ->
         gt Sg U W s <= gt Sg U W s'.
Proof. exact @run_mono. Qed.
Print Assumptions C03_run_mono.

(* termination: (end - start) + 2 passes suffice; running out of fuel is only possible after a non-ok pass.  Includes the empty process set and the all-quiet composite *)
Theorem C03_run_fuel_enough :
  forall (Sg U W : Type) (poll : W -> pid -> Sg -> Z * W)
           (cond : W -> pid -> Z -> Sg -> bool * W) (next : W -> pid -> Z -> Sg -> U * W)
           (commit : Sg -> list pid -> list (pid * U) -> Sg * list pid) (ee : option Z) 
           (fuel : nat) (endt : Z) (force : bool) (et : Z) (s : st Sg U W) 
           (ok : bool),
         gt Sg U W s <= endt ->
         (Z.to_nat (endt - gt Sg U W s) + 2 <= fuel)%nat ->
         run Sg U W poll cond next commit vfixed ee fuel endt force et s = (None, ok) -> ok = false.
Proof. exact @run_fuel_enough. Qed.
Print Assumptions C03_run_fuel_enough.

(* run_for(interval) returns at start + interval *)
Theorem C03_run_for_lands :
  forall (Sg U W : Type) (poll : W -> pid -> Sg -> Z * W)
           (cond : W -> pid -> Z -> Sg -> bool * W) (next : W -> pid -> Z -> Sg -> U * W)
           (commit : Sg -> list pid -> list (pid * U) -> Sg * list pid) (ee : option Z) 
           (fuel : nat) (i : Z) (force : bool) (s s' : st Sg U W) (ok : bool),
         0 <= i ->
         run_for Sg U W poll cond next commit vfixed ee fuel i force s = (Some s', ok) ->
         gt Sg U W s' = gt Sg U W s + i.
Proof. exact @run_for_lands. Qed.
Print Assumptions C03_run_for_lands.

(* ... over any sequence of calls *)
Theorem C03_run_calls_land :
  forall (Sg U W : Type) (poll : W -> pid -> Sg -> Z * W)
           (cond : W -> pid -> Z -> Sg -> bool * W) (next : W -> pid -> Z -> Sg -> U * W)
           (commit : Sg -> list pid -> list (pid * U) -> Sg * list pid) (ee : option Z) 
           (fuel : nat) (calls : list (Z * bool)) (s s' : st Sg U W) (ok : bool),
         Forall (fun c : Z * bool => 0 <= fst c) calls ->
         run_calls Sg U W poll cond next commit vfixed ee fuel calls s = (Some s', ok) ->
         gt Sg U W s' =
         gt Sg U W s + fold_right (fun (c : Z * bool) (acc : Z) => fst c + acc) 0 calls.
Proof. exact @run_calls_land. Qed.
Print Assumptions C03_run_calls_land.

(* the pinned scheduler never returns from update() on an all-quiet composite *)
Theorem C03_hang_refuted_pinned :
  forall (fuel : nat) (et : Z) (w : cw) (l : list (event cst)) (b : bool),
         run cst cupd cw (cpoll [(0%N, quiet)]) (ccond [(0%N, quiet)]) cnext ccommit vpinned None
           fuel 32 true et
           {|
             gt := 0;
             procs := [0%N];
             frt := [(0%N, {| ft := 0; fu := None; fq := b |})];
             sto := cst0 [0%N];
             wld := w;
             log := l
           |} = (None, true).
Proof. exact @hang_refuted_pinned. Qed.
Print Assumptions C03_hang_refuted_pinned.

(* known finding K1: an adaptive answer sequence makes the repaired scheduler invoke a process for an interval behind the clock *)
Theorem C03_mono_refuted :
  exists s' : st cst cupd cw,
           run1 vfixed None [(0%N, {| p_ts := TsScript [20; 8]; p_cond := CTrue |})] [0%N]
             [(16, false); (16, false)] = (Some s', false) /\
           In (EInvoke cst 0%N 0 8 8 8 16 {| shared := 0; priv := [(0%N, 0)] |}) (log cst cupd cw s') /\
           In (EApply cst 0%N 8 8) (log cst cupd cw s').
Proof. exact @mono_refuted. Qed.
Print Assumptions C03_mono_refuted.


(* ---- non-vacuity: a reachable state of a concrete composite meets the hypotheses ---- *)
Definition ex_specs : list (pid * pspec) :=
  [(0%N, {| p_ts := TsConst 20; p_cond := CTrue |}); (1%N, {| p_ts := TsState [16; 8]; p_cond := CState [true; false] |})].
Definition ex_run := run_calls cst cupd cw (cpoll ex_specs) (ccond ex_specs) cnext ccommit vfixed None 400
                               [(48, false); (40, true)] (start_state 0 [0%N; 1%N]).
Example ex_run_ok : exists s', ex_run = (Some s', true) /\ gt _ _ _ s' = 88 /\ complete _ _ _ s' = true
                               /\ (length (log _ _ _ s') > 10)%nat.
Proof. eexists. split; [vm_compute; reflexivity|]. repeat split; vm_compute; try reflexivity. lia. Qed.
Example ex_commit_nodup : forall s ps us, NoDup ps -> NoDup (snd (ccommit s ps us)).
Proof. intros s ps us H. exact H. Qed.

