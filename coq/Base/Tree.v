(* Nested dictionaries with leaves: the shape of every Python structure the
   models talk about (states, updates, topologies-as-data, composites). *)
From Coq Require Import List NArith ZArith Bool Lia.
From Viv Require Import Base.Assoc.
Import ListNotations.

(* Results of operations that can raise in Python. *)
Inductive err :=
| ETypeThroughLeaf      (* indexing / `in` on a non-dict *)
| EInvalidPath          (* Store.get_path: not a valid path *)
| ENoOuter              (* '..' above the root *)
| EDuplicate            (* _add of an existing key *)
| ECycle | EOverlap | EUnknownDep
| EConflict             (* incompatible schema assignment *)
| EKeyError
| EFuel
| EOther.

Inductive res (A : Type) := Ok (a : A) | Err (e : err).
Arguments Ok {A} a.
Arguments Err {A} e.

Definition rbind {A B} (r : res A) (f : A -> res B) : res B :=
  match r with Ok a => f a | Err e => Err e end.

Definition err_eqb (a b : err) : bool :=
  match a, b with
  | ETypeThroughLeaf, ETypeThroughLeaf | EInvalidPath, EInvalidPath | ENoOuter, ENoOuter
  | EDuplicate, EDuplicate | ECycle, ECycle | EOverlap, EOverlap | EUnknownDep, EUnknownDep
  | EConflict, EConflict | EKeyError, EKeyError | EFuel, EFuel | EOther, EOther => true
  | _, _ => false
  end.

Definition res_eqb {A} (eqb : A -> A -> bool) (a b : res A) : bool :=
  match a, b with
  | Ok x, Ok y => eqb x y
  | Err e, Err f => err_eqb e f
  | _, _ => false
  end.

Section Tree.
Context {A : Type}.

Inductive tree := Lf (a : A) | Nd (c : list (key * tree)).

Definition children (t : tree) : list (key * tree) :=
  match t with Lf _ => [] | Nd c => c end.

Definition is_nd (t : tree) : bool := match t with Nd _ => true | Lf _ => false end.

(* Induction principle that reaches the children. *)
Section Ind.
  Variable P : tree -> Prop.
  Hypothesis HLf : forall a, P (Lf a).
  Hypothesis HNd : forall c, Forall (fun kv => P (snd kv)) c -> P (Nd c).
  Fixpoint tree_ind' (t : tree) : P t :=
    match t with
    | Lf a => HLf a
    | Nd c => HNd c ((fix go (l : list (key * tree)) : Forall (fun kv => P (snd kv)) l :=
                        match l with
                        | [] => Forall_nil _
                        | kv :: r => Forall_cons kv (tree_ind' (snd kv)) (go r)
                        end) c)
    end.
End Ind.

(* Well-formed dict: keys unique at every level. *)
Inductive wf : tree -> Prop :=
| wf_Lf a : wf (Lf a)
| wf_Nd c : NoDup (akeys c) -> Forall (fun kv => wf (snd kv)) c -> wf (Nd c).

Fixpoint wfb (t : tree) : bool :=
  match t with
  | Lf _ => true
  | Nd c =>
    (fix nodupb (l : list (key * tree)) : bool :=
       match l with
       | [] => true
       | (k, v) :: r => negb (amem k r) && wfb v && nodupb r
       end) c
  end.

Variable aeqb : A -> A -> bool.

(* Ordered equality (dict order matters). *)
Fixpoint tree_eqb (t u : tree) : bool :=
  match t, u with
  | Lf a, Lf b => aeqb a b
  | Nd c, Nd d =>
    (fix go (l : list (key * tree)) (m : list (key * tree)) : bool :=
       match l, m with
       | [], [] => true
       | (k, v) :: r, (k', v') :: r' => N.eqb k k' && tree_eqb v v' && go r r'
       | _, _ => false
       end) c d
  | _, _ => false
  end.

(* Unordered equality (Python dict ==): same key set, equal values. Assumes unique keys. *)
Fixpoint tree_equ (t u : tree) : bool :=
  match t, u with
  | Lf a, Lf b => aeqb a b
  | Nd c, Nd d =>
    Nat.eqb (length c) (length d) &&
    (fix go (l : list (key * tree)) : bool :=
       match l with
       | [] => true
       | (k, v) :: r =>
         match alookup k d with
         | Some v' => tree_equ v v' && go r
         | None => false
         end
       end) c
  | _, _ => false
  end.

End Tree.

Arguments tree A : clear implicits.
