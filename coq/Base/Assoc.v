(* Insertion-ordered association lists = Python dicts (keys interned as N).
   Library file: definitions and their characterising lemmas. *)
From Coq Require Import List NArith Bool Lia.
Import ListNotations.

Definition key := N.

Section Assoc.
Context {V : Type}.

Definition alist := list (key * V).

Fixpoint alookup (k : key) (l : alist) : option V :=
  match l with
  | [] => None
  | (k', v) :: r => if N.eqb k' k then Some v else alookup k r
  end.

Definition amem (k : key) (l : alist) : bool :=
  match alookup k l with Some _ => true | None => false end.

(* d[k] = v : replace in place, else append (dict insertion order) *)
Fixpoint aset (k : key) (v : V) (l : alist) : alist :=
  match l with
  | [] => [(k, v)]
  | (k', v') :: r => if N.eqb k' k then (k', v) :: r else (k', v') :: aset k v r
  end.

(* del d[k] *)
Fixpoint aremove (k : key) (l : alist) : alist :=
  match l with
  | [] => []
  | (k', v') :: r => if N.eqb k' k then r else (k', v') :: aremove k r
  end.

Definition akeys (l : alist) : list key := map fst l.

Lemma alookup_aset_eq k v l : alookup k (aset k v l) = Some v.
Proof.
  induction l as [|[k' v'] r IH]; cbn.
  - now rewrite N.eqb_refl.
  - destruct (N.eqb k' k) eqn:E; cbn; rewrite E; auto.
Qed.

Lemma alookup_aset_neq k k' v l : k <> k' -> alookup k' (aset k v l) = alookup k' l.
Proof.
  intros Hne. induction l as [|[k0 v0] r IH]; cbn.
  - destruct (N.eqb k k') eqn:E; auto. apply N.eqb_eq in E. contradiction.
  - destruct (N.eqb k0 k) eqn:E; cbn.
    + apply N.eqb_eq in E. subst k0.
      destruct (N.eqb k k') eqn:E'; auto. apply N.eqb_eq in E'. contradiction.
    + destruct (N.eqb k0 k'); auto.
Qed.

Lemma alookup_aremove_neq k k' l : k <> k' -> alookup k' (aremove k l) = alookup k' l.
Proof.
  intros Hne. induction l as [|[k0 v0] r IH]; cbn; auto.
  destruct (N.eqb k0 k) eqn:E; cbn.
  - apply N.eqb_eq in E. subst k0.
    destruct (N.eqb k k') eqn:E'; auto. apply N.eqb_eq in E'. contradiction.
  - destruct (N.eqb k0 k'); auto.
Qed.

Lemma alookup_None_notin k l : alookup k l = None <-> ~ In k (akeys l).
Proof.
  induction l as [|[k0 v0] r IH]; cbn.
  - tauto.
  - destruct (N.eqb k0 k) eqn:E.
    + apply N.eqb_eq in E. split; [discriminate|]. intros H. exfalso. apply H. now left.
    + apply N.eqb_neq in E. rewrite IH. tauto.
Qed.

Lemma alookup_aremove_eq k l : NoDup (akeys l) -> alookup k (aremove k l) = None.
Proof.
  induction l as [|[k0 v0] r IH]; cbn; auto.
  intros Hnd. inversion Hnd as [|? ? Hnin Hnd']; subst.
  destruct (N.eqb k0 k) eqn:E; cbn.
  - apply N.eqb_eq in E. subst k0. now apply alookup_None_notin.
  - rewrite E. auto.
Qed.

Lemma akeys_aset_in k v l : alookup k l <> None -> akeys (aset k v l) = akeys l.
Proof.
  induction l as [|[k0 v0] r IH]; cbn.
  - congruence.
  - destruct (N.eqb k0 k) eqn:E; cbn; auto. intros H. f_equal. auto.
Qed.

Lemma akeys_aset_notin k v l : alookup k l = None -> akeys (aset k v l) = akeys l ++ [k].
Proof.
  induction l as [|[k0 v0] r IH]; cbn; auto.
  destruct (N.eqb k0 k) eqn:E; cbn; [discriminate|]. intros H. f_equal. auto.
Qed.

Lemma akeys_aset_incl k v l x : In x (akeys (aset k v l)) <-> x = k \/ In x (akeys l).
Proof.
  induction l as [|[k0 v0] r IH]; cbn.
  - intuition.
  - destruct (N.eqb k0 k) eqn:E; cbn.
    + apply N.eqb_eq in E. subst. intuition.
    + rewrite IH. intuition.
Qed.

Lemma aset_nodup k v l : NoDup (akeys l) -> NoDup (akeys (aset k v l)).
Proof.
  induction l as [|[k0 v0] r IH]; cbn; intros Hnd.
  - constructor; [intros []|constructor].
  - inversion Hnd as [|? ? Hnin Hnd']; subst.
    destruct (N.eqb k0 k) eqn:E; cbn.
    + constructor; auto.
    + constructor; auto. intros Hin. apply akeys_aset_incl in Hin as [->|Hin]; auto.
      now rewrite N.eqb_refl in E.
Qed.

Lemma akeys_aremove_incl k l x : In x (akeys (aremove k l)) -> In x (akeys l).
Proof.
  induction l as [|[k0 v0] r IH]; cbn; auto.
  destruct (N.eqb k0 k); cbn; intuition.
Qed.

Lemma aremove_nodup k l : NoDup (akeys l) -> NoDup (akeys (aremove k l)).
Proof.
  induction l as [|[k0 v0] r IH]; cbn; intros Hnd; auto.
  inversion Hnd as [|? ? Hnin Hnd']; subst.
  destruct (N.eqb k0 k); cbn; auto.
  constructor; auto. intros Hin. apply Hnin. eapply akeys_aremove_incl; eauto.
Qed.

Lemma aremove_notin k l : alookup k l = None -> aremove k l = l.
Proof.
  induction l as [|[k0 v0] r IH]; cbn; auto.
  destruct (N.eqb k0 k); [discriminate|]. intros H. f_equal. auto.
Qed.

Lemma alookup_In k v l : alookup k l = Some v -> In (k, v) l.
Proof.
  induction l as [|[k0 v0] r IH]; cbn; [discriminate|].
  destruct (N.eqb k0 k) eqn:E.
  - apply N.eqb_eq in E. intros [= ->]. subst. now left.
  - intros H. right. auto.
Qed.

Lemma In_alookup k v l : NoDup (akeys l) -> In (k, v) l -> alookup k l = Some v.
Proof.
  induction l as [|[k0 v0] r IH]; cbn; [tauto|].
  intros Hnd. inversion Hnd as [|? ? Hnin Hnd']; subst.
  intros [[= -> ->]|Hin].
  - now rewrite N.eqb_refl.
  - destruct (N.eqb k0 k) eqn:E; auto.
    apply N.eqb_eq in E. subst. exfalso. apply Hnin.
    change k with (fst (k, v)). now apply in_map.
Qed.

End Assoc.

Arguments alist V : clear implicits.
