(* Correspondence layer for the timeline family (C19). *)
From Coq Require Import List NArith ZArith Bool.
From Viv Require Import Base.Assoc Model.Timeline.
Import ListNotations.
Open Scope Z_scope.

(* dict equality as finite maps (both sides have unique keys) *)
Definition asg_equ (a b : asg) : bool :=
  Nat.eqb (length a) (length b) &&
  forallb (fun kv => match alookup (fst kv) b with Some v => Z.eqb v (snd kv) | None => false end) a.

Fixpoint events_equ (a b : list event) : bool :=
  match a, b with
  | [], [] => true
  | (t, d) :: a', (t', d') :: b' => Z.eqb t t' && asg_equ d d' && events_equ a' b'
  | _, _ => false
  end.

Fixpoint asgs_equ (a b : list asg) : bool :=
  match a, b with
  | [], [] => true
  | d :: a', d' :: b' => asg_equ d d' && asgs_equ a' b'
  | _, _ => false
  end.

Fixpoint zs_eqb (a b : list Z) : bool :=
  match a, b with
  | [], [] => true
  | x :: a', y :: b' => Z.eqb x y && zs_eqb a' b'
  | _, _ => false
  end.

Inductive tcase :=
| TInit (evs : list event) (exp : list event)
| TRun (evs : list event) (cs : list Z) (exp : list asg) (exp_rest : list Z).

Definition check_case (c : tcase) : bool :=
  match c with
  | TInit evs e => events_equ (init_timeline evs) e
  | TRun evs cs e er =>
    let '(fired, rest) := run_ticks cs (init_timeline evs) in
    asgs_equ fired e && zs_eqb (map fst rest) er
  end.

Definition model_out (c : tcase) :=
  match c with
  | TInit evs _ => (init_timeline evs, @nil asg, @nil Z)
  | TRun evs cs _ _ => let '(fired, rest) := run_ticks cs (init_timeline evs) in ([], fired, map fst rest)
  end.

(* the pinned-tree model, used only to label a disagreement in replay files *)
Definition check_case_pinned (c : tcase) : bool :=
  match c with
  | TInit evs e => events_equ (init_pinned evs) e
  | TRun evs cs e er =>
    let '(fired, rest) :=
      fold_left (fun acc c => let '(fs, tl) := acc in
                              let '(a, tl') := tick_pinned c tl in (fs ++ [a], tl'))
                cs ([], init_pinned evs) in
    asgs_equ fired e && zs_eqb (map fst rest) er
  end.
