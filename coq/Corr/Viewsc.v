(* Correspondence layer for the view cache (C07, C04): the control flow of Engine._send_updates / run_steps.
   An instrumented run of the real engine yields, per _send_updates call, the sequence of events
   invoke / apply(flag) / rebuild.  The model is run on the same call: the store is instantiated by the list of
   flags the applications returned (consumed one per application), so that the very functions the theorems of
   Proofs/Views_proofs.v are about decide where the rebuilds go. *)
From Coq Require Import List Bool Arith.
From Viv Require Import Model.Views.
Import ListNotations.

Definition sapp (s : list bool) (_ : unit) : list bool * bool := (tl s, hd false s).

(* batch: number of updates applied by _send_updates itself; layers: number of steps invoked per layer
   (each applies one update); flags: what the applications returned, in order *)
Definition run_script (vr : vvariant) (batch : nat) (layers : list nat) (flags : list bool) : list sev :=
  map erase (snd (send_updates (list bool) unit unit (fun _ => tt) sapp vr
                               (repeat tt batch)
                               (map (fun k => repeat (fun (_ : unit) (_ : list bool) => tt) k) layers)
                               {| vs := flags; vcache := tt |})).

Definition sev_eqb (a b : sev) : bool :=
  match a, b with
  | SInvoke, SInvoke | SBuild, SBuild => true
  | SApply x, SApply y => Bool.eqb x y
  | _, _ => false
  end.
Fixpoint sevs_eqb (a b : list sev) : bool :=
  match a, b with
  | [], [] => true
  | x :: r, y :: q => sev_eqb x y && sevs_eqb r q
  | _, _ => false
  end.

Inductive vcase := VSend (batch : nat) (layers : list nat) (flags : list bool) (observed : list sev).

Definition check_case (c : vcase) : bool :=
  match c with VSend b ls fl obs => sevs_eqb (run_script vcur b ls fl) obs end.
Definition model_out (c : vcase) := match c with VSend b ls fl _ => run_script vcur b ls fl end.

Definition check_case_all (cs : list vcase) : bool := forallb check_case cs.
Definition model_out_all (cs : list vcase) := map model_out cs.
