(* Correspondence layer for the leaf/updater family (C08). *)
From Coq Require Import List NArith ZArith Bool.
From Viv Require Import Base.Assoc Base.Tree Model.Paths Model.Updaters Corr.C17c.
Import ListNotations.
Open Scope Z_scope.

Definition uval_eqb (a b : uval) : bool :=
  match a, b with
  | UZ x, UZ y => Z.eqb x y
  | UList x, UList y => list_eqb Z.eqb x y
  | UArr x, UArr y => list_eqb Z.eqb x y
  | UDict x, UDict y => tree_equ Z.eqb x y
  | UQty m s, UQty m' s' => Z.eqb (m * s) (m' * s') && Z.eqb s s'
  | UNone, UNone => true
  | _, _ => false
  end.

(* same structure (keys compared through lookup), equal values *)
Fixpoint snode_equ (a b : snode) : bool :=
  match a, b with
  | SLeaf _ v, SLeaf _ w => uval_eqb v w
  | SBranch c, SBranch d =>
    Nat.eqb (length c) (length d) &&
    (fix go (l : list (key * snode)) : bool :=
       match l with
       | [] => true
       | (k, v) :: r => match alookup k d with Some w => snode_equ v w && go r | None => false end
       end) c
  | _, _ => false
  end.

Inductive ucase :=
| UApply (s : snode) (us : list upd) (exp : option snode)      (* None: the implementation raised *)
| UFun (f : updname) (v u : uval) (exp : option uval)          (* the registered function itself *)
| UDvFun (v : uval) (u : dvupd) (exp : option uval).

Definition check_case (c : ucase) : bool :=
  match c with
  | UApply s us e =>
    match apply_batch s us, e with
    | Ok s', Some x => snode_equ s' x
    | Err _, None => true
    | _, _ => false
    end
  | UFun f v u e =>
    match apply_updater f v u, e with
    | Ok r, Some x => uval_eqb r x
    | Err _, None => true
    | _, _ => false
    end
  | UDvFun v u e =>
    match apply_dict_value v u, e with
    | Ok r, Some x => uval_eqb r x
    | Err _, None => true
    | _, _ => false
    end
  end.

Definition model_out (c : ucase) :=
  match c with
  | UApply s us _ => (Some (apply_batch s us), @None (res uval))
  | UFun f v u _ => (None, Some (apply_updater f v u))
  | UDvFun v u _ => (None, Some (apply_dict_value v u))
  end.

(* pinned merge, to label disagreements *)
Definition check_case_pinned_merge (c : ucase) : bool :=
  match c with
  | UFun Merge (UDict (Nd cur)) (UDict (Nd new)) (Some (UDict (Nd x))) =>
      (* None is rendered as the integer -999999 by the harness *)
      tree_equ Z.eqb (Nd (merge_dict_pinned cur new (Lf (-999999)))) (Nd x)
  | _ => false
  end.
