(* Correspondence layer for the path family: one constructor per implementation entry
   point; check_case compares the model's answer with the observed one. *)
From Coq Require Import List NArith ZArith Bool.
From Viv Require Import Base.Assoc Base.Tree Model.Paths.
Import ListNotations.

Notation ztree := (tree Z).
Definition zeqb := tree_eqb Z.eqb.

Definition path_eqb (p q : list key) : bool :=
  (fix go p q := match p, q with
                 | [], [] => true
                 | x :: p', y :: q' => N.eqb x y && go p' q'
                 | _, _ => false
                 end) p q.

Definition segs_eqb (p q : list seg) : bool :=
  (fix go p q := match p, q with
                 | [], [] => true
                 | x :: p', y :: q' => seg_eqb x y && go p' q'
                 | _, _ => false
                 end) p q.

Definition opt_eqb {A} (e : A -> A -> bool) (a b : option A) : bool :=
  match a, b with Some x, Some y => e x y | None, None => true | _, _ => false end.

Fixpoint list_eqb {A} (e : A -> A -> bool) (a b : list A) : bool :=
  match a, b with
  | [], [] => true
  | x :: a', y :: b' => e x y && list_eqb e a' b'
  | _, _ => false
  end.

(* how update_in's function argument is scripted *)
Inductive ufun := UConst (t : ztree) | UMerge (t : ztree).
Definition ufun_apply (f : ufun) (cur : ztree) : ztree :=
  match f with UConst t => t | UMerge t => deep_merge cur t end.

Inductive pcase :=
| CNorm (p : list seg) (exp : list seg)
| CGetIn (d : ztree) (p : list key) (exp : res (option ztree))
| CDeleteIn (d : ztree) (p : list key) (exp : res ztree)
| CAssocPath (d : ztree) (p : list key) (v : ztree) (exp : res ztree)
| CUpdateIn (d : ztree) (p : list key) (f : ufun) (exp : res ztree) (exp_arg : res ztree)
| CPathsToDict (pl : list (list key * ztree)) (exp : res ztree)
| CDictToPaths (root : list key) (d : ztree) (exp : list (list key * Z))
| CHierDepth (d : ztree) (exp : list (list key * Z))
| CAssocIn (d : ztree) (p : list key) (v : ztree) (exp : res ztree)
| CDeepMerge (d m : ztree) (exp : ztree)
| CWalk (t : ztree) (a : list key) (r : list seg) (exp : res (list key))
| CPathTo (a b : list key) (exp : list seg)
| CEstablish (t : ztree) (a : list key) (r : list seg) (exp : res (ztree * list key)).

Definition pz_eqb (a b : list key * Z) : bool := path_eqb (fst a) (fst b) && Z.eqb (snd a) (snd b).

(* Stores hold children in a dict as well, but get_value() of an empty branch node and
   creation order are compared unordered: establish only appends. *)
Definition check_case (c : pcase) : bool :=
  match c with
  | CNorm p e => segs_eqb (normalize p) e
  | CGetIn d p e => res_eqb (opt_eqb zeqb) (get_in d p) e
  | CDeleteIn d p e => res_eqb zeqb (delete_in d p) e
  | CAssocPath d p v e => res_eqb zeqb (assoc_path d p v) e
  | CUpdateIn d p f e ea =>
      res_eqb zeqb (update_in d p (ufun_apply f)) e && res_eqb zeqb (update_in_arg d p) ea
  | CPathsToDict pl e => res_eqb zeqb (paths_to_dict pl) e
  | CDictToPaths root d e => list_eqb pz_eqb (dict_to_paths root d) e
  | CHierDepth d e => list_eqb pz_eqb (hierarchy_depth d) e
  | CAssocIn d p v e => res_eqb zeqb (assoc_in d p v) e
  | CDeepMerge d m e => zeqb (deep_merge d m) e
  | CWalk t a r e => res_eqb path_eqb (walk t a r) e
  | CPathTo a b e => segs_eqb (path_to a b) e
  | CEstablish t a r e =>
      res_eqb (fun x y => zeqb (fst x) (fst y) && path_eqb (snd x) (snd y)) (establish t a r) e
  end.

(* model outputs, for replay files *)
Definition model_out (c : pcase) :=
  match c with
  | CNorm p _ => (Some (normalize p), @None (res (option ztree)), @None (res ztree), @None (res (list key)))
  | CGetIn d p _ => (None, Some (get_in d p), None, None)
  | CDeleteIn d p _ => (None, None, Some (delete_in d p), None)
  | CAssocPath d p v _ => (None, None, Some (assoc_path d p v), None)
  | CUpdateIn d p f _ _ => (None, None, Some (update_in d p (ufun_apply f)), None)
  | CPathsToDict pl _ => (None, None, Some (paths_to_dict pl), None)
  | CDictToPaths root d _ => (None, None, None, None)
  | CHierDepth d _ => (None, None, None, None)
  | CAssocIn d p v _ => (None, None, Some (assoc_in d p v), None)
  | CDeepMerge d m _ => (None, None, Some (Ok (deep_merge d m)), None)
  | CWalk t a r _ => (None, None, None, Some (walk t a r))
  | CPathTo a b _ => (Some (path_to a b), None, None, None)
  | CEstablish t a r _ => (None, None, Some (rbind (establish t a r) (fun x => Ok (fst x))), None)
  end.
