(* Correspondence layer for the command protocol of parallel processes (C13). *)
From Coq Require Import List Bool.
From Viv Require Import Model.Parallel.
Import ListNotations.

(* observed: for each command, did it succeed; finally, is the worker still alive *)
Inductive qcase := QTrace (cs : list pcmd) (oks : list bool) (alive_after : bool).

Fixpoint run_obs (s : pp) (cs : list pcmd) : list bool * pp :=
  match cs with
  | [] => ([], s)
  | c :: r => match pstep s c with
              | inl s' => let '(l, f) := run_obs s' r in (true :: l, f)
              | inr _ => let '(l, f) := run_obs s r in (false :: l, f)   (* a refused command leaves the state as it was *)
              end
  end.

Fixpoint bl_eqb (a b : list bool) : bool :=
  match a, b with
  | [], [] => true
  | x :: a', y :: b' => Bool.eqb x y && bl_eqb a' b'
  | _, _ => false
  end.

Definition check_case (c : qcase) : bool :=
  match c with
  | QTrace cs oks al => let '(l, f) := run_obs fresh cs in bl_eqb l oks && Bool.eqb (alive f) al
  end.

Definition model_out (c : qcase) := match c with QTrace cs _ _ => run_obs fresh cs end.
