(* Correspondence layer for the timeseries family (C18). *)
From Coq Require Import List NArith ZArith Bool.
From Viv Require Import Base.Assoc Base.Tree Model.Paths Model.Timeseries Corr.C17c.
Import ListNotations.

Definition col_eqb (a b : list lv) : bool := list_eqb lv_eqb a b.
Definition ets_equ := tree_equ col_eqb.
Definition row_equ := tree_equ lv_eqb.

Definition pcol_in (x : list key * list lv) (l : list (list key * list lv)) : bool :=
  existsb (fun y => path_eqb (fst x) (fst y) && col_eqb (snd x) (snd y)) l.

Inductive scase :=
| SEmbedded (data : list (Z * row)) (exp : res (list Z * ets))
| SPathTs (data : list (Z * row)) (exp : res (list Z * list (list key * list lv)))
| SQuery (data : list (Z * row)) (q : list (list key)) (exp : list (Z * res row))
| SQueryErr (data : list (Z * row)) (q : list (list key)).   (* the whole call raised *)

Definition zs_eqb := list_eqb Z.eqb.

Definition check_case (c : scase) : bool :=
  match c with
  | SEmbedded data e =>
    res_eqb (fun a b => zs_eqb (fst a) (fst b) && ets_equ (snd a) (snd b)) (timeseries_from_data data) e
  | SPathTs data e =>
    res_eqb (fun a b => zs_eqb (fst a) (fst b) && Nat.eqb (length (snd a)) (length (snd b))
                        && forallb (fun x => pcol_in x (snd b)) (snd a))
            (path_timeseries_from_data data) e
  | SQuery data q e =>
    list_eqb (fun a b => Z.eqb (fst a) (fst b) && res_eqb row_equ (snd a) (snd b)) (get_data_query data q) e
  | SQueryErr data q =>
    existsb (fun tr => match snd tr with Err _ => true | Ok _ => false end) (get_data_query data q)
  end.

Definition model_out (c : scase) :=
  match c with
  | SEmbedded data _ => (Some (timeseries_from_data data), @None (res (list Z * list (list key * list lv))), @nil (Z * res row))
  | SPathTs data _ => (None, Some (path_timeseries_from_data data), [])
  | SQuery data q _ => (None, None, get_data_query data q)
  | SQueryErr data q => (None, None, get_data_query data q)
  end.

Definition check_case_pinned (c : scase) : bool :=
  match c with
  | SQuery data q e =>
    list_eqb (fun a b => Z.eqb (fst a) (fst b) && res_eqb row_equ (snd a) (snd b))
             (map (fun tr => (fst tr, query_row_pinned (snd tr) q)) data) e
  | _ => check_case c
  end.
