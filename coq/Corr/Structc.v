(* Correspondence layer for the structure family (C09, C10, C11). *)
From Coq Require Import List NArith ZArith Bool.
From Viv Require Import Base.Assoc Base.Tree Model.Paths Model.Steps Model.Struct Model.StructC Model.Fronts.
Import ListNotations.

Definition opath_eqb (a b : option (list key)) : bool :=
  match a, b with Some p, Some q => kpath_eqb p q | None, None => true | _, _ => false end.

(* where a uid / a process object lived in the previous tree *)
Definition find_uid (old : cnode) (u : N) : option (list key) :=
  match find (fun pn => N.eqb (cuid (snd pn)) u) (cdepth old []) with Some (p, _) => Some p | None => None end.
Definition find_obj (old : cnode) (o : N) : option (list key) :=
  match find (fun pp => N.eqb (pi_obj (snd pp)) o) (proc_nodes old []) with Some (p, _) => Some p | None => None end.

(* the observable hierarchy: values, process nodes, and for every node / process object the place it
   occupied before the update (None: created by it) *)
Inductive anode :=
| AVar (prev : option (list key)) (v : Z)
| AProc (prev prev_obj : option (list key)) (step : bool)
| ADir (prev : option (list key)) (c : list (key * anode)).

Fixpoint annotate (old : cnode) (n : cnode) : anode :=
  match n with
  | CVar u v _ => AVar (find_uid old u) v
  | CProc u pi => AProc (find_uid old u) (find_obj old (pi_obj pi)) (pi_step pi)
  | CDir u _ c => ADir (find_uid old u)
                       ((fix go (c : list (key * cnode)) : list (key * anode) :=
                           match c with [] => [] | (k, x) :: r => (k, annotate old x) :: go r end) c)
  end.

Fixpoint anode_equ (a b : anode) : bool :=
  match a, b with
  | AVar p v, AVar q w => opath_eqb p q && Z.eqb v w
  | AProc p o s, AProc q o' s' => opath_eqb p q && opath_eqb o o' && Bool.eqb s s'
  | ADir p c, ADir q d =>
    opath_eqb p q && Nat.eqb (length c) (length d) &&
    (fix go (l : list (key * anode)) : bool :=
       match l with
       | [] => true
       | (k, v) :: r => match alookup k d with Some w => anode_equ v w && go r | None => false end
       end) c
  | _, _ => false
  end.

(* the engine bookkeeping as observed *)
Record bobs := {
  o_procs : list (list key);                 (* process_paths, in order *)
  o_steps : list (list key);                 (* _step_paths (set) *)
  o_seq : list (list key);                   (* sequential steps, in order *)
  o_gnodes : list (list key);                (* graph nodes (set) *)
  o_gedges : list (list key * list key);     (* graph edges (set) *)
  o_pubp : list (list key); o_pubs : list (list key); o_pubt : list (list key);
  o_pubf : list (list key * list (list seg));
  o_front : list (list key * list key)       (* Engine.front: (path, the path its entry was created under) (set) *)
}.

Fixpoint undn (n : node) : list key :=
  match n with [] => [] | Dn k :: r => k :: undn r | Up :: r => 999%N :: undn r end.

Definition observe_book (b : book) (fr : fronts (list key)) : bobs :=
  {| o_procs := map fst (b_procs b); o_steps := map fst (b_steps b);
     o_seq := map undn (seq (b_graph b)); o_gnodes := map undn (gnodes (b_graph b));
     o_gedges := map (fun e => (undn (fst e), undn (snd e))) (gedges (b_graph b));
     o_pubp := map fst (pub_processes b); o_pubs := map fst (pub_steps b); o_pubt := pub_topology b;
     o_pubf := pub_flow b; o_front := fr |}.

Fixpoint leqb {A} (e : A -> A -> bool) (a b : list A) : bool :=
  match a, b with
  | [], [] => true
  | x :: a', y :: b' => e x y && leqb e a' b'
  | _, _ => false
  end.
Definition set_equ {A} (e : A -> A -> bool) (a b : list A) : bool :=
  forallb (fun x => existsb (e x) b) a && forallb (fun y => existsb (e y) a) b.

Definition segs_eqb (p q : list seg) : bool := leqb seg_eqb p q.
Definition edge_eqb (a b : list key * list key) : bool := kpath_eqb (fst a) (fst b) && kpath_eqb (snd a) (snd b).
Definition flow_eqb (a b : list key * list (list seg)) : bool :=
  kpath_eqb (fst a) (fst b) && leqb segs_eqb (snd a) (snd b).

Definition bobs_equ (a b : bobs) : bool :=
  leqb kpath_eqb (o_procs a) (o_procs b) && set_equ kpath_eqb (o_steps a) (o_steps b) &&
  leqb kpath_eqb (o_seq a) (o_seq b) && set_equ kpath_eqb (o_gnodes a) (o_gnodes b) &&
  set_equ edge_eqb (o_gedges a) (o_gedges b) &&
  set_equ kpath_eqb (o_pubp a) (o_pubp b) && set_equ kpath_eqb (o_pubs a) (o_pubs b) &&
  set_equ kpath_eqb (o_pubt a) (o_pubt b) && set_equ flow_eqb (o_pubf a) (o_pubf b) &&
  set_equ edge_eqb (o_front a) (o_front b).

(* the engine the harness builds: a holder process (key 12) wired to the colonies A (10) and B (11) *)
Definition kHolder := 12%N. Definition kA := 10%N. Definition kB := 11%N.
Definition root0 : cnode :=
  CDir 0 false [(kHolder, CProc 1 {| pi_step := false; pi_in_steps := false; pi_flow := None; pi_obj := 2%N |});
                (kA, CDir 3 true []); (kB, CDir 4 true [])].
Definition book0 : book :=
  {| b_procs := [([kHolder], 2%N)]; b_steps := []; b_graph := empty_graph;
     pub_processes := [([kHolder], 2%N)]; pub_steps := []; pub_topology := [[kHolder]]; pub_flow := [] |}.

(* one Engine.apply_update call: operations addressed to one directory node.
   The observation after it, or None when it raised (the history stops there). *)
Fixpoint run_hist (vr : variant) (t : cnode) (b : book) (uid : N) (h : list (list key * list (sop N)))
  : list (option (anode * bobs)) :=
  match h with
  | [] => []
  | (here, ops) :: r =>
    match kapply_ops vr t here ops uid with
    | Err _ => [None]
    | Ok (t', rp, uid') =>
      (* Engine.apply_update registers only what the store still holds after the update *)
      match kengine_apply b t' rp with
      | Err _ => [None]
      | Ok b' =>
        (* before every update the harness gives each registered process a front entry tagged with its path *)
        let fr0 := map (fun po => (fst po, fst po)) (b_procs b) in
        let fr' := match vr with
                   | {| v_fix_move := true |} => front_apply (list key) b fr0 (held_reports t' rp)
                   | _ => front_apply_pinned (list key) b fr0 (held_reports t' rp)
                   end in
        Some (annotate t t', observe_book b' fr') :: run_hist vr t' b' uid' r
      end
    end
  end.

(* histories starting from a hierarchy the harness supplies (nested-move stream): observed are the annotated
   tree and the paths of the engine's process table *)
Fixpoint run_nest (t : cnode) (b : book) (uid : N) (h : list (list key * list (sop N)))
  : list (option (anode * list (list key))) :=
  match h with
  | [] => []
  | (here, ops) :: r =>
    match kapply_ops vfixed t here ops uid with
    | Err _ => [None]
    | Ok (t', rp, uid') =>
      match kengine_apply b t' rp with
      | Err _ => [None]
      | Ok b' => Some (annotate t t', map fst (b_procs b')) :: run_nest t' b' uid' r
      end
    end
  end.

Definition book_of (t : cnode) : book :=
  let ps := flat_map (fun pp => if pi_step (snd pp) then [] else [(fst pp, pi_obj (snd pp))]) (proc_nodes t []) in
  {| b_procs := ps; b_steps := []; b_graph := empty_graph;
     pub_processes := ps; pub_steps := []; pub_topology := map fst ps; pub_flow := [] |}.

Inductive hcase :=
| HHist (vr : variant) (h : list (list key * list (sop N))) (exp : list (option (anode * bobs)))
| HNest (root : cnode) (uid0 : N) (h : list (list key * list (sop N)))
        (exp : list (option (anode * list (list key)))).

Definition obs_equ (a b : option (anode * bobs)) : bool :=
  match a, b with
  | Some (x, p), Some (y, q) => anode_equ x y && bobs_equ p q
  | None, None => true
  | _, _ => false
  end.

Definition nobs_equ (a b : option (anode * list (list key))) : bool :=
  match a, b with
  | Some (x, p), Some (y, q) => anode_equ x y && set_equ kpath_eqb p q
  | None, None => true
  | _, _ => false
  end.

Definition check_case (c : hcase) : bool :=
  match c with
  | HHist vr h e => leqb obs_equ (run_hist vr root0 book0 100 h) e
  | HNest root uid0 h e => leqb nobs_equ (run_nest root (book_of root) uid0 h) e
  end.

Definition model_out (c : hcase) :=
  match c with
  | HHist vr h _ => run_hist vr root0 book0 100 h
  | HNest _ _ _ _ => []
  end.
Definition model_out_nest (c : hcase) :=
  match c with
  | HNest root uid0 h _ => run_nest root (book_of root) uid0 h
  | _ => []
  end.

(* which component disagrees first (for replay files): (step index, tree ok, book ok) *)
Definition diagnose (c : hcase) : list (bool * bool) :=
  match c with
  | HHist vr h e =>
    map (fun ab => match ab with
                   | (Some (x, p), Some (y, q)) => (anode_equ x y, bobs_equ p q)
                   | (None, None) => (true, true)
                   | _ => (false, false)
                   end) (combine (run_hist vr root0 book0 100 h) e)
  | HNest root uid0 h e =>
    map (fun ab => match ab with
                   | (Some (x, p), Some (y, q)) => (anode_equ x y, set_equ kpath_eqb p q)
                   | (None, None) => (true, true)
                   | _ => (false, false)
                   end) (combine (run_nest root (book_of root) uid0 h) e)
  end.
