(* Correspondence layer for the wiring family (C06, C07, C15). *)
From Coq Require Import List NArith ZArith Bool.
From Viv Require Import Base.Assoc Base.Tree Model.Paths Model.Wire Model.CompState.
Import ListNotations.

Definition oz_eqb (a b : option Z) : bool :=
  match a, b with Some x, Some y => Z.eqb x y | None, None => true | _, _ => false end.

Fixpoint sval_equ (a b : sval) : bool :=
  match a, b with
  | SV x, SV y => oz_eqb x y
  | SD c, SD d =>
    Nat.eqb (length c) (length d) &&
    (fix go (l : list (key * sval)) : bool :=
       match l with
       | [] => true
       | (k, v) :: r => match alookup k d with Some w => sval_equ v w && go r | None => false end
       end) c
  | _, _ => false
  end.

Fixpoint vtree_equ (a b : vtree) : bool :=
  match a, b with
  | VRef p, VRef q => path_eqb p q
  | VNode c, VNode d =>
    Nat.eqb (length c) (length d) &&
    (fix go (l : list (key * vtree)) : bool :=
       match l with
       | [] => true
       | (k, v) :: r => match alookup k d with Some w => vtree_equ v w && go r | None => false end
       end) c
  | _, _ => false
  end.

Fixpoint utree_equ (a b : utree) : bool :=
  match a, b with
  | UV x, UV y => Z.eqb x y
  | UM l, UM m => (fix go (l m : list utree) : bool :=
                     match l, m with
                     | [], [] => true
                     | x :: l', y :: m' => utree_equ x y && go l' m'
                     | _, _ => false
                     end) l m
  | UD c, UD d =>
    Nat.eqb (length c) (length d) &&
    (fix go (l : list (key * utree)) : bool :=
       match l with
       | [] => true
       | (k, v) :: r => match alookup k d with Some w => utree_equ v w && go r | None => false end
       end) c
  | _, _ => false
  end.

(* applying a root-relative update to the store, every variable using the default `accumulate` updater;
   entries addressed to nodes that do not exist are ignored, as Store.apply_update does *)
Fixpoint apply_utree (fuel : nat) (s : store) (u : utree) : res store :=
  match fuel with
  | O => Err EFuel
  | S f =>
    match u with
    | UM l => fold_left (fun acc x => rbind acc (fun s' => apply_utree f s' x)) l (Ok s)
    | UV z => match s with
              | Lf l => match l_val l with
                        | Some cur => Ok (Lf {| l_val := Some (cur + z)%Z; l_def := l_def l; l_units := l_units l; l_ser := l_ser l |})
                        | None => Err EOther          (* None + int raises *)
                        end
              | Nd _ => Err EOther
              end
    | UD c =>
      match s with
      | Nd sc =>
        rbind (fold_left (fun acc kv =>
                            rbind acc (fun sc' =>
                              match alookup (fst kv) sc' with
                              | Some ch => rbind (apply_utree f ch (snd kv)) (fun ch' => Ok (aset (fst kv) ch' sc'))
                              | None => Ok sc'
                              end)) c (Ok sc))
              (fun sc' => Ok (Nd sc'))
      | Lf _ => Err EOther
      end
    end
  end.

Inductive wcase :=
(* generate_state: the built state, or the error *)
| WGen (ps : list proc) (init : tree Z) (exp : res sval)
(* the topology view of process #i as a tree of absolute paths, and the states dict *)
| WView (ps : list proc) (init : tree Z) (i : nat) (exp : res (vtree * sval))
(* inverse_topology of an update of process #i *)
| WInvert (fixed : bool) (ps : list proc) (i : nat) (upd : list (key * utree)) (exp : res utree)
(* state after applying the inverted update *)
| WApply (ps : list proc) (init : tree Z) (i : nat) (upd : list (key * utree)) (exp : res sval)
(* Composite.initial_state(): processes in visiting order with their own states, the composite's state *)
| WCompInit (cps : list cproc) (state : list (key * utree)) (exp : res utree).

Definition nth_proc (ps : list proc) (i : nat) : proc :=
  nth i ps {| pr_parent := []; pr_schema := SAll; pr_topo := [] |}.

Definition any_err {A} (r : res A) : bool := match r with Err _ => true | Ok _ => false end.

(* errors are compared as "both failed": the Python exceptions of this family are generic *)
Definition res_equ {A} (e : A -> A -> bool) (a b : res A) : bool :=
  match a, b with
  | Ok x, Ok y => e x y
  | Err _, Err _ => true
  | _, _ => false
  end.

Definition model_view (ps : list proc) (init : tree Z) (i : nat) : res (vtree * sval) :=
  rbind (generate ps init) (fun tg =>
    let p := nth_proc ps i in
    rbind (view (fst tg) (pr_parent p) (pr_schema p) (pr_topo p)) (fun v => Ok (v, view_values (fst tg) v))).

Definition model_apply (ps : list proc) (init : tree Z) (i : nat) (upd : list (key * utree)) : res sval :=
  rbind (generate ps init) (fun tg =>
    let p := nth_proc ps i in
    rbind (invert true (pr_parent p) upd (pr_topo p)) (fun inv =>
    rbind (apply_utree 200 (fst tg) (UD inv)) (fun s' => Ok (store_value s')))).

Definition check_case (c : wcase) : bool :=
  match c with
  | WGen ps init e => res_equ sval_equ (rbind (generate ps init) (fun tg => Ok (store_value (fst tg)))) e
  | WView ps init i e =>
      res_equ (fun a b => vtree_equ (fst a) (fst b) && sval_equ (snd a) (snd b)) (model_view ps init i) e
  | WInvert fixed ps i upd e =>
      let p := nth_proc ps i in
      res_equ utree_equ (rbind (invert fixed (pr_parent p) upd (pr_topo p)) (fun inv => Ok (UD inv))) e
  | WApply ps init i upd e => res_equ sval_equ (model_apply ps init i upd) e
  | WCompInit cps st e => res_equ utree_equ (rbind (composite_state cps st) (fun r => Ok (UD r))) e
  end.

Definition model_out (c : wcase) :=
  match c with
  | WGen ps init _ => (Some (rbind (generate ps init) (fun tg => Ok (store_value (fst tg)))), @None (res (vtree * sval)), @None (res utree))
  | WView ps init i _ => (None, Some (model_view ps init i), None)
  | WInvert fixed ps i upd _ =>
      let p := nth_proc ps i in
      (None, None, Some (rbind (invert fixed (pr_parent p) upd (pr_topo p)) (fun inv => Ok (UD inv))))
  | WApply ps init i upd _ => (Some (model_apply ps init i upd), None, None)
  | WCompInit cps st _ => (None, None, Some (rbind (composite_state cps st) (fun r => Ok (UD r))))
  end.
