(* Correspondence layer for the content of history rows (C12). *)
From Coq Require Import List NArith ZArith Bool.
From Viv Require Import Base.Assoc Base.Tree Model.Emit.
Import ListNotations.

Definition row_equ := tree_equ Z.eqb.

Inductive mcase :=
(* Store.emit_data() of a store built with these flags, after applying a store_schema-like config and
   a list of set_emit_value(path, emit) calls *)
| MEmit (n : enode) (cf : option ecfg) (sets : list (list key * bool)) (exp : option (tree Z)).

Definition run_emit (n : enode) (cf : option ecfg) (sets : list (list key * bool)) : option (tree Z) :=
  let n1 := match cf with Some c => apply_ecfg n c | None => n end in
  emit_data (fold_left (fun acc pb => set_emit_at (snd pb) acc (fst pb)) sets n1).

Definition check_case (c : mcase) : bool :=
  match c with
  | MEmit n cf sets e =>
    match run_emit n cf sets, e with
    | Some a, Some b => row_equ a b
    | None, None => true
    | _, _ => false
    end
  end.

Definition model_out (c : mcase) := match c with MEmit n cf sets _ => run_emit n cf sets end.
