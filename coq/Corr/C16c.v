(* Correspondence layer for composites (C16). *)
From Coq Require Import List NArith ZArith Bool.
From Viv Require Import Base.Assoc Base.Tree Model.Paths Model.Composite Model.Override.
Import ListNotations.

Definition dt_equ := tree_equ N.eqb.

Definition comp_equ (a b : comp) : bool :=
  dt_equ (c_processes a) (c_processes b) && dt_equ (c_topology a) (c_topology b) &&
  dt_equ (c_steps a) (c_steps b) && dt_equ (c_flow a) (c_flow b) && dt_equ (c_state a) (c_state b).

Inductive ocase :=
| OEmbed (p : list key) (c : comp) (exp : comp)                       (* Composer.generate(path=p) *)
| OMerge (self : comp) (ms : list (comp * comp * list key)) (exp : comp)    (* a sequence of Composite.merge calls *)
(* schema overrides: the processes dict (leaves: process ids), the overrides, the schema every ports_schema() declares,
   and what each process's get_schema() returned afterwards (None: handing the overrides over raised) *)
| OOverride (procs : ptree) (ov : stree) (ports : stree) (obs : option (list (N * stree))).

Definition check_case (c : ocase) : bool :=
  match c with
  | OEmbed p x e => match embed p x with Ok r => comp_equ r e | Err _ => false end
  | OMerge s ms e => match merge_all s ms with Ok r => comp_equ r e | Err _ => false end
  | OOverride procs ov ports obs =>
    match override_schemas ov procs, obs with
    | Ok l, Some o => forallb (fun ps => tree_equ Z.eqb (get_schema (fun _ => ports) l (fst ps)) (snd ps)) o
    | Err _, None => true
    | _, _ => false
    end
  end.

Definition model_out (c : ocase) :=
  match c with
  | OEmbed p x _ => embed p x
  | OMerge s ms _ => merge_all s ms
  | OOverride _ _ _ _ => Err EOther
  end.
