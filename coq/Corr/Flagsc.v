(* Correspondence layer for Model/EmitFlags.v (C12, flags stream). *)
From Coq Require Import List Bool.
From Viv Require Import Model.EmitFlags.
Import ListNotations.

(* observed: the emit flags of x and y after every operation *)
Inductive flcase := FlCase (ex ey : bool) (ops : list fop) (obs : list (bool * bool)).

Fixpoint run_obs (s : leaf * leaf) (ops : list fop) : list (bool * bool) :=
  match ops with
  | [] => []
  | o :: r => let s' := fstep s o in (emit (fst s'), emit (snd s')) :: run_obs s' r
  end.

Fixpoint obs_eqb (a b : list (bool * bool)) : bool :=
  match a, b with
  | [], [] => true
  | (x, y) :: a', (x', y') :: b' => Bool.eqb x x' && Bool.eqb y y' && obs_eqb a' b'
  | _, _ => false
  end.

Definition check_case (c : flcase) : bool :=
  match c with
  | FlCase ex ey ops obs =>
    obs_eqb (run_obs ({| emit := ex; pinned := false |}, {| emit := ey; pinned := false |}) ops) obs
  end.

Definition model_out (c : flcase) : list (bool * bool) :=
  match c with
  | FlCase ex ey ops _ => run_obs ({| emit := ex; pinned := false |}, {| emit := ey; pinned := false |}) ops
  end.
