(* Correspondence layer for the dividers (C11): the registry functions, and division inside
   structural histories (through Corr/Structc.v). *)
From Coq Require Import List NArith ZArith Bool.
From Viv Require Import Base.Assoc Base.Tree Model.Paths Model.Steps Model.Struct Model.StructC Model.Dividers
     Model.DivTree Corr.Structc.
Import ListNotations.
Open Scope Z_scope.

Definition kz_eqb (a b : key * Z) : bool := N.eqb (fst a) (fst b) && Z.eqb (snd a) (snd b).

Inductive dcase :=
| DSplitFn (z : Z) (first_gets_rem : bool) (a b : Z)
| DSplitDictFn (d : list (key * Z)) (d1 d2 : list (key * Z))
| DBinomFn (n c a b : Z)
| DHist (h : hcase)
| DBTree (n : dnode) (gens : list (bool * list bool)) (obs : list (tree Z * tree Z)).

Definition check_case (c : dcase) : bool :=
  match c with
  | DSplitFn z r a b => let '(x, y) := divide_split z r in Z.eqb x a && Z.eqb y b
  | DSplitDictFn d d1 d2 => let '(x, y) := divide_split_dict d in leqb kz_eqb x d1 && leqb kz_eqb y d2
  | DBinomFn n c a b => let '(x, y) := divide_binomial n c in Z.eqb x a && Z.eqb y b
  | DHist h => Structc.check_case h
  | DBTree n gens obs =>
    leqb (fun x y => tree_equ Z.eqb (fst x) (fst y) && tree_equ Z.eqb (snd x) (snd y)) (divide_gens true n gens) obs
  end.

Definition model_out (c : dcase) :=
  match c with
  | DSplitFn z r _ _ => (Some (divide_split z r), @None (list (key * Z) * list (key * Z)))
  | DSplitDictFn d _ _ => (None, Some (divide_split_dict d))
  | DBinomFn n c _ _ => (Some (divide_binomial n c), None)
  | DHist _ => (None, None)
  | DBTree _ _ _ => (None, None)
  end.
