(* Correspondence layer for serialization (C14). *)
From Coq Require Import List NArith ZArith Bool String Ascii.
From Viv Require Import Model.Serialize.
Import ListNotations.
Open Scope string_scope.

Definition num_eqb (a b : num) : bool :=
  match a, b with NInt x, NInt y => Z.eqb x y | NFloat x, NFloat y => N.eqb x y | _, _ => false end.

Fixpoint jval_eqb (a b : jval) : bool :=
  match a, b with
  | JNull, JNull => true
  | JBool x, JBool y => Bool.eqb x y
  | JNum x, JNum y => num_eqb x y
  | JStr x, JStr y => String.eqb x y
  | JList l, JList m => (fix go (l m : list jval) : bool :=
                           match l, m with
                           | [], [] => true
                           | x :: l', y :: m' => jval_eqb x y && go l' m'
                           | _, _ => false
                           end) l m
  | JObj c, JObj d => (fix go (c d : list (string * jval)) : bool :=
                         match c, d with
                         | [], [] => true
                         | (k, x) :: c', (k', y) :: d' => String.eqb k k' && jval_eqb x y && go c' d'
                         | _, _ => false
                         end) c d
  | _, _ => false
  end.

(* what pint prints for the quantity it parses from a text: supplied by the harness, which calls pint
   on every marker body of the case (the leaf premise of the round-trip theorem, tested there) *)
Definition canon (tab : list (string * string)) (s : string) : string :=
  match find (fun kv => String.eqb (fst kv) s) tab with Some (_, c) => c | None => s end.

Fixpoint dval_equ (tab : list (string * string)) (model impl : dval) : bool :=
  match model, impl with
  | DNone, DNone => true
  | DBool x, DBool y => Bool.eqb x y
  | DNum x, DNum y => num_eqb x y
  | DStr x, DStr y => String.eqb x y
  | DUnits x, DUnits y => String.eqb (canon tab x) y
  | DNanUnits x, DNanUnits y => String.eqb (canon tab ("nan " ++ x)) y
  | DList l, DList m => (fix go (l m : list dval) : bool :=
                           match l, m with
                           | [], [] => true
                           | x :: l', y :: m' => dval_equ tab x y && go l' m'
                           | _, _ => false
                           end) l m
  | DDict c, DDict d => (fix go (c d : list (string * dval)) : bool :=
                           match c, d with
                           | [], [] => true
                           | (k, x) :: c', (k', y) :: d' => String.eqb k k' && dval_equ tab x y && go c' d'
                           | _, _ => false
                           end) c d
  | _, _ => false
  end.

Inductive ecase :=
(* serialize_value v: the plain data, or which TypeError *)
| ESer (v : pval) (exp : sres jval)
(* deserialize_value(serialize_value v) *)
| ERound (tab : list (string * string)) (v : pval) (exp : dval)
(* deserialize_value of given plain data *)
| EDeser (tab : list (string * string)) (j : jval) (exp : dval).

Definition check_case (c : ecase) : bool :=
  match c with
  | ESer v e => match ser v, e with
                | SOk j, SOk j' => jval_eqb j j'
                | SErr _, SErr _ => true     (* both are a Python TypeError; the message is not part of the claim *)
                | _, _ => false
                end
  | ERound tab v e => match ser v with SOk j => dval_equ tab (deser j) e | SErr _ => false end
  | EDeser tab j e => dval_equ tab (deser j) e
  end.

Definition model_out (c : ecase) :=
  match c with
  | ESer v _ => (Some (ser v), @None dval)
  | ERound _ v _ => (Some (ser v), match ser v with SOk j => Some (deser j) | SErr _ => None end)
  | EDeser _ j _ => (None, Some (deser j))
  end.
