(* Correspondence layer for the scheduler family (C01, C02, C03, C04, C12). *)
From Coq Require Import List NArith ZArith Bool.
From Viv Require Import Model.Sched Model.SchedC.
Import ListNotations.
Open Scope Z_scope.

Definition pz_eqb (a b : pid * Z) : bool := N.eqb (fst a) (fst b) && Z.eqb (snd a) (snd b).

Fixpoint leqb {A} (e : A -> A -> bool) (a b : list A) : bool :=
  match a, b with
  | [], [] => true
  | x :: a', y :: b' => e x y && leqb e a' b'
  | _, _ => false
  end.

(* privs compared as maps *)
Definition privs_equ (a b : list (pid * Z)) : bool :=
  Nat.eqb (length a) (length b) &&
  forallb (fun kv => match zlook b (fst kv) with Some v => Z.eqb v (snd kv) | None => false end) a.

Definition cev_eqb (a b : cev) : bool :=
  match a, b with
  | CInvoke p ts now st sh ow, CInvoke p' ts' now' st' sh' ow' =>
      N.eqb p p' && Z.eqb ts ts' && Z.eqb now now' && Z.eqb st st' && Z.eqb sh sh' && Z.eqb ow ow'
  | CApply p f n, CApply p' f' n' => N.eqb p p' && Z.eqb f f' && Z.eqb n n'
  | CEmit n sh pr, CEmit n' sh' pr' => Z.eqb n n' && Z.eqb sh sh' && privs_equ pr pr'
  | CAfter n fr, CAfter n' fr' =>
      Z.eqb n n' && Nat.eqb (length fr) (length fr') &&
      forallb (fun x => match zlook fr' (fst x) with
                        | Some y => Z.eqb (fst (snd x)) (fst y) && Bool.eqb (snd (snd x)) (snd y)
                        | None => false
                        end) fr
  | _, _ => false
  end.

(* canonical order inside one call: by (time, phase, process); stable *)
Definition ckey (e : cev) : Z * Z * N :=
  match e with
  | CApply p _ n => (n, 0, p)
  | CEmit n _ _ => (n, 1, 0%N)
  | CInvoke p _ n _ _ _ => (n, 2, p)
  | CAfter n _ => (n, 3, 0%N)
  end.

Definition key_leb (a b : Z * Z * N) : bool :=
  let '(n, ph, p) := a in let '(n', ph', p') := b in
  (n <? n') || ((n =? n') && ((ph <? ph') || ((ph =? ph') && (N.leb p p')))).

Fixpoint cins (e : cev) (l : list cev) : list cev :=
  match l with
  | [] => [e]
  | x :: r => if key_leb (ckey x) (ckey e) then x :: cins e r else e :: x :: r
  end.

Definition csort (l : list cev) : list cev := fold_left (fun acc e => cins e acc) l [].

Inductive scase :=
| SRun (vr : variant) (specs : list (pid * pspec)) (ps : list pid) (t0 : Z) (ee : option Z)
       (calls : list (Z * bool)) (exp : option (list (list cev))).   (* None: the implementation hung *)

Definition model_trace (c : scase) : option (list (list cev) * bool) :=
  match c with
  | SRun vr specs ps t0 ee calls _ =>
    match trace_calls specs vr ee calls (start_state t0 ps) with
    | Some (tr, ok) =>
      Some (map csort (concat (map canon_event (rev (log _ _ _ (start_state t0 ps)))) :: tr), ok)
    | None => None
    end
  end.

Definition check_case (c : scase) : bool :=
  match c with
  | SRun _ _ _ _ _ _ exp =>
    match model_trace c, exp with
    | Some (tr, _), Some e => leqb (leqb cev_eqb) tr (map csort e)
    | None, None => true
    | _, _ => false
    end
  end.

(* the same case under the pinned model (to label disagreements) *)
Definition check_case_pinned (c : scase) : bool :=
  match c with
  | SRun _ specs ps t0 ee calls exp => check_case (SRun vpinned specs ps t0 ee calls exp)
  end.

Definition model_ok (c : scase) : option bool :=
  match model_trace c with Some (_, ok) => Some ok | None => None end.
