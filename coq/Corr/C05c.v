(* Correspondence layer for the steps family (C05). *)
From Coq Require Import List NArith ZArith Bool.
From Viv Require Import Base.Assoc Base.Tree Model.Paths Model.Steps.
Import ListNotations.
Open Scope Z_scope.

Inductive gop :=
| OAdd (path : node) (deps : list node)
| OAddSeq (path : node)
| ORemove (path : node)
| OLayers.

Inductive gout :=
| GOk | GErr (e : err) | GLayers (l : list (list node)).

Fixpoint lleqb {A} (e : A -> A -> bool) (a b : list A) : bool :=
  match a, b with
  | [], [] => true
  | x :: a', y :: b' => e x y && lleqb e a' b'
  | _, _ => false
  end.

Definition gout_eqb (a b : gout) : bool :=
  match a, b with
  | GOk, GOk => true
  | GErr e, GErr f => err_eqb e f
  | GLayers l, GLayers m => lleqb (lleqb node_eqb) l m
  | _, _ => false
  end.

(* run the operations; stop after the first error (the Python object is left half-updated) *)
Fixpoint run_ops (g : sgraph) (ops : list gop) : list gout :=
  match ops with
  | [] => []
  | OAdd p ds :: r => match graph_add g p ds with
                      | Ok g' => GOk :: run_ops g' r
                      | Err e => [GErr e]
                      end
  | OAddSeq p :: r => match graph_add_sequential g p with
                      | Ok g' => GOk :: run_ops g' r
                      | Err e => [GErr e]
                      end
  | ORemove p :: r => GOk :: run_ops (graph_remove g p) r
  | OLayers :: r => GLayers (layers g) :: run_ops g r
  end.

(* ---- engine level: logging steps over integer variables ---- *)
(* a step reads some variables and sets its own variable to 1 + their sum *)
Record sspec := { s_path : node; s_deps : option (list (list seg)); s_reads : list N; s_write : N }.

Definition vget (s : list (N * Z)) (v : N) : Z :=
  match (fix look l := match l with [] => None | (k, x) :: r => if N.eqb k v then Some x else look r end) s with
  | Some x => x | None => 0 end.
Fixpoint vset (s : list (N * Z)) (v : N) (x : Z) : list (N * Z) :=
  match s with
  | [] => [(v, x)]
  | (k, y) :: r => if N.eqb k v then (k, x) :: r else (k, y) :: vset r v x
  end.

Section Eng.
Variable specs : list sspec.

Definition spec_of (n : node) : option sspec :=
  find (fun sp => node_eqb (s_path sp) n) specs.

Definition step_fn (n : node) (s : list (N * Z)) : Z :=
  match spec_of n with
  | Some sp => 1 + fold_left (fun acc v => acc + vget s v) (s_reads sp) 0
  | None => 0
  end.

Definition apply1 (s : list (N * Z)) (live : list node) (n : node) (u : Z) : list (N * Z) * list node :=
  match spec_of n with
  | Some sp => (vset s (s_write sp) u, live)
  | None => (s, live)
  end.

(* Engine construction: steps are added in the order of the steps dict, then the flow is checked *)
Definition build : res sgraph :=
  match fold_left (fun acc sp => rbind acc (fun g => add_step_path g (s_path sp) (s_deps sp))) specs (Ok empty_graph) with
  | Err e => Err e
  | Ok g =>
    match validate_flow (map s_path specs)
                        (flat_map (fun sp => match s_deps sp with Some ds => [(s_path sp, ds)] | None => [] end) specs) with
    | Ok _ => Ok g
    | Err e => Err e
    end
  end.

(* variable 0 is the tick counter a process increments between phases *)
Fixpoint phases (n : nat) (g : sgraph) (s : list (N * Z)) (first : bool) : list (list (node * Z)) :=
  match n with
  | O => []
  | S m =>
    let s1 := if first then s else vset s 0%N (vget s 0%N + 1) in
    let '(s2, _, lg) := run_phase (list (N * Z)) Z step_fn apply1 g s1 (map s_path specs) in
    map (fun e => match e with ERun _ n st => (n, step_fn n st) end) lg :: phases m g s2 false
  end.

End Eng.

Inductive ccase :=
| COps (ops : list gop) (exp : list gout)
| CEngine (specs : list sspec) (init : list (N * Z)) (nphases : nat)
          (exp : res (list (list (node * Z)))).

Definition nz_eqb (a b : node * Z) : bool := node_eqb (fst a) (fst b) && Z.eqb (snd a) (snd b).

Definition check_case (c : ccase) : bool :=
  match c with
  | COps ops e => lleqb gout_eqb (run_ops empty_graph ops) e
  | CEngine specs init n e =>
    match build specs, e with
    | Err x, Err y => err_eqb x y
    | Ok g, Ok l => lleqb (lleqb nz_eqb) (phases specs n g init true) l
    | _, _ => false
    end
  end.

Definition model_out (c : ccase) :=
  match c with
  | COps ops _ => (run_ops empty_graph ops, @None (res (list (list (node * Z)))))
  | CEngine specs init n _ =>
    ([], Some (match build specs with Err x => Err x | Ok g => Ok (phases specs n g init true) end))
  end.
