(* Proofs about Model/EmitFlags.v (C12: a flag changes only when somebody asks). *)
From Coq Require Import List Bool.
From Viv Require Import Model.EmitFlags.
Import ListNotations.

Lemma pick_on x t f s : pick x (on t f s) = if touches t x then f (pick x s) else pick x s.
Proof. destruct x, t, s; reflexivity. Qed.

(* a pinned flag is not changed by any schema that arrives *)
Lemma schema_keeps_pinned x s o : is_request o = false -> pinned (pick x s) = true ->
  pick x (fstep s o) = pick x s.
Proof.
  destruct o as [t b|t b|t b]; cbn; try discriminate. intros _ Hp.
  rewrite pick_on. destruct (touches t x); [|reflexivity].
  unfold by_schema. now rewrite Hp.
Qed.

Lemma schemas_keep_pinned x ops : forall s, forallb (fun o => negb (is_request o)) ops = true ->
  pinned (pick x s) = true -> pick x (frun s ops) = pick x s.
Proof.
  induction ops as [|o r IH]; intros s Ha Hp; [reflexivity|].
  cbn in Ha. apply andb_prop in Ha. destruct Ha as [Ho Hr].
  apply negb_true_iff in Ho. cbn [frun fold_left].
  fold (frun (fstep s o) r). rewrite IH; [apply schema_keeps_pinned; assumption|exact Hr|].
  rewrite (schema_keeps_pinned x s o Ho Hp). exact Hp.
Qed.

(* an explicit request sets the flag and pins it *)
Lemma request_sets x s o : is_request o = true -> touches (op_target o) x = true ->
  pick x (fstep s o) = {| emit := op_value o; pinned := true |}.
Proof.
  destruct o as [t b|t b|t b]; cbn; try discriminate; intros _ Ht; rewrite pick_on, Ht;
    unfold by_request; rewrite orb_true_r; reflexivity.
Qed.

(* C12: after an explicit request for a variable (store_schema or set_emit_value, on the variable or on its branch),
   whatever schemas arrive afterwards - the port schemas of daughters, of generated agents, sub-schemas re-applied -
   the variable is emitted or not as requested *)
Theorem explicit_flag_sticks x pre o post s :
  is_request o = true -> touches (op_target o) x = true ->
  forallb (fun o => negb (is_request o)) post = true ->
  emit (pick x (frun s (pre ++ o :: post))) = op_value o.
Proof.
  intros Ho Ht Hpost. unfold frun. rewrite fold_left_app. cbn [fold_left].
  fold (frun (fstep (fold_left fstep pre s) o) post).
  rewrite schemas_keep_pinned; [|exact Hpost|]; rewrite (request_sets x _ o Ho Ht); reflexivity.
Qed.

(* requests that do not concern the variable, and schemas, never change a pinned flag; a later request that does
   concern it replaces the earlier one *)
Theorem last_request_wins x pre o post s :
  is_request o = true -> touches (op_target o) x = true ->
  forallb (fun o' => negb (is_request o' && touches (op_target o') x)) post = true ->
  emit (pick x (frun s (pre ++ o :: post))) = op_value o.
Proof.
  intros Ho Ht Hpost. unfold frun. rewrite fold_left_app. cbn [fold_left].
  set (s1 := fstep (fold_left fstep pre s) o).
  assert (H1 : pick x s1 = {| emit := op_value o; pinned := true |}) by (apply request_sets; assumption).
  clearbody s1. revert s1 H1. induction post as [|p r IH]; intros s1 H1; cbn [fold_left].
  - now rewrite H1.
  - cbn in Hpost. apply andb_prop in Hpost. destruct Hpost as [Hp Hr].
    apply IH; [exact Hr|].
    destruct p as [t b|t b|t b]; cbn [fstep]; rewrite pick_on.
    + destruct (touches t x); [|exact H1]. unfold by_schema. rewrite H1. reflexivity.
    + cbn in Hp. destruct (touches t x); [discriminate|exact H1].
    + cbn in Hp. destruct (touches t x); [discriminate|exact H1].
Qed.

(* without any explicit request the last schema that names the variable decides (the behaviour before and after) *)
Theorem unpinned_last_schema_wins x pre t b s :
  forallb (fun o => negb (is_request o)) (pre ++ [Schema t b]) = true ->
  pinned (pick x s) = false -> touches t x = true ->
  emit (pick x (frun s (pre ++ [Schema t b]))) = b.
Proof.
  intros Ha Hp Ht. unfold frun. rewrite fold_left_app. cbn [fold_left fstep]. rewrite pick_on, Ht.
  assert (Hq : pinned (pick x (fold_left fstep pre s)) = false).
  { rewrite forallb_app in Ha. apply andb_prop in Ha. destruct Ha as [Ha _].
    revert s Hp. induction pre as [|p r IH]; intros s Hp; [exact Hp|].
    cbn in Ha. apply andb_prop in Ha. destruct Ha as [Hp1 Hr]. cbn [fold_left]. apply IH; [exact Hr|].
    destruct p as [t' b'|t' b'|t' b']; cbn in Hp1; try discriminate. cbn [fstep]. rewrite pick_on.
    destruct (touches t' x); [|exact Hp]. unfold by_schema. rewrite Hp. reflexivity. }
  unfold by_schema. rewrite Hq. reflexivity.
Qed.

(* the pinned code: a schema that arrives after store_schema switched a variable off switches it on again
   (the former known finding K37) *)
Theorem flag_flipped_refuted_pinned_code :
  let s0 := ({| emit := true; pinned := false |}, {| emit := false; pinned := false |}) in
  let ops := [StoreSchema TBranch false; Schema TX true] in
  emit (fst (frun_pinned_code s0 ops)) = true /\ emit (fst (frun s0 ops)) = false.
Proof. split; reflexivity. Qed.

Print Assumptions explicit_flag_sticks.
Print Assumptions last_request_wins.
Print Assumptions unpinned_last_schema_wins.
Print Assumptions flag_flipped_refuted_pinned_code.
