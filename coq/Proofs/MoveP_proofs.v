(* C09 / C10: `_move` with a NESTED source path (OpMoveP of Model/Struct.v):
   Store.move -> add_node: the target node is looked up (get_path: it must exist), `_establish_path` of the
   leading part of the source path under the target, the node is attached at the same relative path, the
   source is deleted.  The frame theorems (Struct_proofs.apply_op_frame / apply_ops_frame / history_frame)
   hold with `named here (OpMoveP src tgt) = [here ++ src; tgt ++ firstn 1 src]`. *)
From Coq Require Import List NArith ZArith Bool Lia Sorting.Permutation.
From Viv Require Import Base.Assoc Base.Tree Model.Paths Model.Steps Model.Struct
  Proofs.Struct_proofs Proofs.Consistent_proofs.
Import ListNotations.

(* ================= Store._establish_path and the process nodes ================= *)
(* it creates directories only: the process nodes (paths, objects, order) are as they were *)
Lemma cestablish_procs p : forall t uid t' uid', cestablish t p uid = Ok (t', uid') ->
  forall pre, proc_nodes t' pre = proc_nodes t pre.
Proof.
  induction p as [|k r IH]; intros t uid t' uid' H pre.
  - cbn in H. inversion H; subst. reflexivity.
  - apply cestablish_shape in H. destruct H as (u & g & c & x & -> & -> & Hc).
    rewrite !proc_nodes_dir. destruct Hc as [(ch & Hl & He)|(Hl & He)].
    + apply (flat_map_aset_same _ k x ch c Hl). cbn [fst snd]. apply (IH _ _ _ _ He).
    + rewrite (aset_lookup_none k x c Hl), flat_map_app. cbn [flat_map fst snd].
      rewrite (IH _ _ _ _ He), proc_nodes_dir. cbn [flat_map]. rewrite !app_nil_r. reflexivity.
Qed.

Section MovePKit.
Variable mk_child : N -> cnode * N.
Variable D : Type.
Variable build : D -> N -> cnode * N.
Variable copy_procs : cnode -> N -> cnode * N.

Notation apply_opv vr := (apply_op mk_child D build copy_procs vr).
Notation apply_opsv vr := (apply_ops mk_child D build copy_procs vr).

(* ---- what success implies ---- *)
(* the attached path is not above the source: otherwise it would exist already *)
Lemma movep_target_not_above vr t here src tgt uid t' rp uid' :
  apply_opv vr t here (OpMoveP D src tgt) uid = Ok (t', rp, uid') ->
  starts_with (here ++ src) (tgt ++ src) = false.
Proof.
  intros H. apply movep_inv in H.
  destruct H as (node & t0 & t1 & _ & Hg & Hnone & _).
  destruct (starts_with (here ++ src) (tgt ++ src)) eqn:E; [|reflexivity].
  apply sw_true_iff in E. destruct E as (r & Hr).
  rewrite Hr, cget_app, Hnone in Hg. discriminate Hg.
Qed.

Lemma movep_wf vr t here src tgt uid t' rp uid' : cwf t ->
  apply_opv vr t here (OpMoveP D src tgt) uid = Ok (t', rp, uid') -> cwf t'.
Proof.
  intros Hw H. apply movep_inv in H.
  destruct H as (node & t0 & t1 & _ & Hg & _ & He & Hc & Hdl & _).
  apply (cdel_cwf _ _ _ (cset_cwf _ _ _ _ (cestablish_cwf _ _ _ _ _ Hw He) (cwf_cget _ _ _ Hw Hg) Hc) Hdl).
Qed.

(* ---- the very same subtree sits under the target; the source is gone ---- *)
(* premise really needed: the target is not inside the moved subtree (else the attached node is deleted
   with the source); that the attached path is not above the source follows from success
   (movep_target_not_above), so it is not a premise.  The uid counter may advance (established directories). *)
Theorem movep_moves vr t here src tgt uid t' rp uid' : cwf t ->
  starts_with (tgt ++ src) (here ++ src) = false ->
  apply_opv vr t here (OpMoveP D src tgt) uid = Ok (t', rp, uid') ->
  cget t' (tgt ++ src) = cget t (here ++ src) /\ cget t (here ++ src) <> None /\
  cget t' (here ++ src) = None /\ r_deletions rp = [here ++ src] /\ (uid <= uid')%N.
Proof.
  intros Hw Hs H. pose proof (movep_target_not_above _ _ _ _ _ _ _ _ _ H) as Hs2.
  apply movep_inv in H.
  destruct H as (node & t0 & t1 & Hne & Hg & Hnone & He & Hc & Hdl & Hdel & _).
  pose proof (cset_cwf _ _ _ _ (cestablish_cwf _ _ _ _ _ Hw He) (cwf_cget _ _ _ Hw Hg) Hc) as Hw1.
  split; [|split; [|split; [|split]]].
  - rewrite (cdel_cget_other _ _ _ _ Hdl Hs Hs2), Hg.
    apply (cget_cset_same _ _ _ _ (app_not_nil_r tgt src Hne) Hc).
  - rewrite Hg. discriminate.
  - apply (cdel_gone _ _ _ Hw1 (app_not_nil_r here src Hne) Hdl).
  - exact Hdel.
  - apply (cestablish_mono _ _ _ _ _ He).
Qed.

(* the source is gone whatever the target *)
Theorem movep_source_gone vr t here src tgt uid t' rp uid' : cwf t ->
  apply_opv vr t here (OpMoveP D src tgt) uid = Ok (t', rp, uid') ->
  cget t' (here ++ src) = None /\ r_deletions rp = [here ++ src].
Proof.
  intros Hw H. apply movep_inv in H.
  destruct H as (node & t0 & t1 & Hne & Hg & Hnone & He & Hc & Hdl & Hdel & _).
  pose proof (cset_cwf _ _ _ _ (cestablish_cwf _ _ _ _ _ Hw He) (cwf_cget _ _ _ Hw Hg) Hc) as Hw1.
  split; [apply (cdel_gone _ _ _ Hw1 (app_not_nil_r here src Hne) Hdl)|exact Hdel].
Qed.

(* ---- siblings of the moved node, its former parent, everything else: untouched ---- *)
(* the instance of apply_op_frame: no node appears, disappears or changes outside the source subtree and
   the subtree of the first source key under the target *)
Theorem movep_siblings_kept vr t here src tgt uid t' rp uid' q :
  apply_opv vr t here (OpMoveP D src tgt) uid = Ok (t', rp, uid') ->
  starts_with q (here ++ src) = false -> starts_with q (tgt ++ firstn 1 src) = false ->
  sig_at t' q = sig_at t q.
Proof.
  intros H Hs1 Hs2. apply (apply_op_frame _ _ _ _ _ _ _ _ _ _ _ _ q H).
  cbn [named]. intros nm [<-|[<-|[]]]; assumption.
Qed.

(* a missing target is rejected (Store.move: get_path of the target, then add_node on the result) *)
Theorem movep_missing_target_rejected vr t here src tgt uid :
  cget t tgt = None -> apply_opv vr t here (OpMoveP D src tgt) uid = Err EInvalidPath.
Proof.
  intros Hn. destruct (apply_opv vr t here (OpMoveP D src tgt) uid) as [[[t' rp] uid']|e] eqn:E.
  - exfalso. apply (movep_target_exists _ _ _ _ _ _ _ _ _ _ _ _ _ E Hn).
  - unfold apply_op, dir_at in E.
    destruct (cget t here) as [[u v d|u pi|u g c]|]; cbn [rbind] in E; try (inversion E; reflexivity).
    destruct src as [|s1 sr]; [inversion E; reflexivity|].
    rewrite Hn in E. destruct (cget t (here ++ s1 :: sr)); inversion E; reflexivity.
Qed.

(* what appears outside the attached subtree is a freshly established directory *)
Theorem movep_fresh vr t here src tgt uid t' rp uid' q n : cwf t ->
  apply_opv vr t here (OpMoveP D src tgt) uid = Ok (t', rp, uid') ->
  cget t q = None -> cget t' q = Some n -> starts_with q (tgt ++ src) = false ->
  (uid <= cuid n < uid')%N.
Proof.
  intros Hw H Hn Hs Hs2. pose proof (movep_source_gone _ _ _ _ _ _ _ _ _ Hw H) as [Hgone _].
  apply movep_inv in H.
  destruct H as (node & t0 & t1 & Hne & Hg & Hnone & He & Hc & Hdl & _).
  assert (Hs1 : starts_with q (here ++ src) = false).
  { destruct (starts_with q (here ++ src)) eqn:E; [|reflexivity].
    apply sw_true_iff in E. destruct E as (r & ->). rewrite cget_app, Hgone in Hs. discriminate Hs. }
  assert (Hsig : sig_at t0 q = Some (csig n)).
  { rewrite <- (cset_frame _ _ _ _ q Hc Hs2), <- (cdel_frame _ _ _ q Hdl Hs1).
    unfold sig_at. rewrite Hs. reflexivity. }
  unfold sig_at in Hsig. destruct (cget t0 q) as [n0|] eqn:E0; [|discriminate Hsig].
  cbn [option_map] in Hsig. inversion Hsig as [[Hu Hv]].
  pose proof (cestablish_fresh _ _ _ _ _ q n0 He Hn E0) as Hf. lia.
Qed.

(* ---- the reports describe exactly how the set of (non-step) processes changed ---- *)
Lemma reported_not_under_source vr t here src tgt uid t' rp uid' n p pi :
  starts_with (tgt ++ src) (here ++ src) = false ->
  apply_opv vr t here (OpMoveP D src tgt) uid = Ok (t', rp, uid') ->
  In (p, pi) (proc_nodes n (tgt ++ src)) -> starts_with p (here ++ src) = false.
Proof.
  intros Hs1 H Hin. pose proof (movep_target_not_above _ _ _ _ _ _ _ _ _ H) as Hs2.
  apply proc_nodes_prefix in Hin. destruct Hin as (r' & ->).
  destruct (starts_with ((tgt ++ src) ++ r') (here ++ src)) eqn:E; [|reflexivity].
  apply sw_ext in E. destruct E as [E|E]; congruence.
Qed.

(* premise really needed (unlike move_reports, where the deletion comes first): the target is not inside
   the moved subtree; otherwise the reported processes are deleted with the source *)
Theorem movep_reports vr t here src tgt uid t' rp uid' q o : cwf t ->
  starts_with (tgt ++ src) (here ++ src) = false ->
  apply_opv vr t here (OpMoveP D src tgt) uid = Ok (t', rp, uid') ->
  (In (q, o) (proc_paths t') <->
   (In (q, o) (proc_paths t) /\ starts_with q (here ++ src) = false) \/
   exists pi, In (q, pi) (r_process rp) /\ o = pi_obj pi).
Proof.
  intros Hw Hs1 H. pose proof (fun n p pi => reported_not_under_source vr t here src tgt uid t' rp uid' n p pi Hs1 H) as Hnu.
  apply movep_inv in H.
  destruct H as (node & t0 & t1 & Hne & Hg & Hnone & He & Hc & Hdl & _ & ->).
  pose proof (cestablish_cwf _ _ _ _ _ Hw He) as Hw0.
  pose proof (cset_cwf _ _ _ _ Hw0 (cwf_cget _ _ _ Hw Hg) Hc) as Hw1.
  pose proof (proc_nodes_cset_strong t0 (tgt ++ src) node t1 q) as Hs'.
  pose proof (proc_nodes_cdel t1 (here ++ src) t' q) as Hd'.
  pose proof (cestablish_procs _ _ _ _ _ He []) as Hp0.
  rewrite !in_proc_paths. split.
  - intros (pi & Hin & Hs & Ho).
    apply (Hd' pi Hw1 (app_not_nil_r here src Hne) Hdl) in Hin. destruct Hin as [Hsw Hin].
    apply (Hs' pi Hw0 (app_not_nil_r tgt src Hne) Hc) in Hin. destruct Hin as [[Hsw' Hin]|Hin].
    + rewrite Hp0 in Hin. left. split; [exists pi; auto|exact Hsw].
    + right. exists pi. split; [|exact Ho]. apply filter_In. split; [exact Hin|]. cbn [snd].
      rewrite Hs. reflexivity.
  - intros [[(pi & Hin & Hs & Ho) Hsw]|(pi & Hin & Ho)].
    + exists pi. split; [|auto]. apply (Hd' pi Hw1 (app_not_nil_r here src Hne) Hdl). split; [exact Hsw|].
      apply (Hs' pi Hw0 (app_not_nil_r tgt src Hne) Hc). left.
      split; [apply (no_proc_under t _ q pi Hw Hnone Hin)|rewrite Hp0; exact Hin].
    + apply filter_In in Hin. destruct Hin as [Hin Hneg]. cbn [snd] in Hneg.
      apply negb_true_iff in Hneg. exists pi. split; [|auto].
      apply (Hd' pi Hw1 (app_not_nil_r here src Hne) Hdl). split; [apply (Hnu node q pi Hin)|].
      apply (Hs' pi Hw0 (app_not_nil_r tgt src Hne) Hc). right. exact Hin.
Qed.

(* ---- consistency of the engine's process table is preserved ---- *)
(* premise really needed for Engine.apply_update's folding alone (book_apply: deletions first, then registration):
   with the target inside the moved subtree the attached copy is deleted with the source, and the reported
   processes would be registered although they are gone.  The full engine step registers only what the store
   still holds and needs no premise (Consistent2_proofs.engine_consistent_op, .consistent_movep_any) *)
Theorem consistent_movep vr t here src tgt uid t' rp uid' b b' : cwf t -> consistent_procs t b ->
  starts_with (tgt ++ src) (here ++ src) = false ->
  apply_opv vr t here (OpMoveP D src tgt) uid = Ok (t', rp, uid') ->
  book_apply b rp = Ok b' -> consistent_procs t' b'.
Proof.
  intros Hw Hc Hs1 Hop Hb.
  destruct (movep_inv _ _ _ _ _ _ _ _ _ _ _ _ _ Hop)
    as (node & t0 & t1 & Hne & Hg & Hnone & He & Hcs & Hdl & Hdel & Hrp).
  assert (Hwn : cwf node) by apply (cwf_cget _ _ _ Hw Hg).
  assert (Hin_r : forall p pi, In (p, pi) (r_process rp) ->
                               In (p, pi) (proc_nodes node (tgt ++ src)) /\ pi_step pi = false).
  { intros p pi Hin. rewrite Hrp in Hin. apply filter_In in Hin. destruct Hin as [Hin Hs].
    cbn [snd] in Hs. apply negb_true_iff in Hs. auto. }
  assert (H3 : NoDup (map fst (filter nonstep (r_process rp)))).
  { rewrite Hrp. apply nodup_map_filter, nodup_map_filter. apply proc_nodes_nodup. exact Hwn. }
  assert (H4 : forall p, In p (map fst (filter nonstep (r_process rp))) -> ~ In p (map fst (b_procs b))).
  { intros p Hin Hin'. apply in_map_iff in Hin. destruct Hin as ([p' pi] & Heq & Hin). cbn [fst] in Heq. subst p'.
    apply in_filter_nonstep in Hin. destruct Hin as [Hin _]. apply Hin_r in Hin. destruct Hin as [Hin _].
    apply reported_under in Hin.
    rewrite (table_not_under t b _ p Hw Hc Hnone Hin') in Hin. discriminate Hin. }
  destruct Hc as [Hss Hnd].
  split; [|apply (book_apply_nodup b rp b' Hnd Hb)].
  intros [q o]. rewrite (book_apply_procs b rp b' q o Hnd (nodup_reports_functional _ H3) Hb).
  rewrite (movep_reports vr t here src tgt uid t' rp uid' q o Hw Hs1 Hop). split.
  - intros [(Hin & Hd0 & _)|(pi & Hin & _ & Ho)].
    + left. split; [apply Hss; exact Hin|]. apply Hd0. rewrite Hdel. left. reflexivity.
    + right. exists pi. auto.
  - intros [[Hin Hsw]|(pi & Hin & Ho)].
    + left. apply Hss in Hin. split; [exact Hin|]. split.
      * intros d0 Hd0. rewrite Hdel in Hd0. destruct Hd0 as [<-|[]]. exact Hsw.
      * intros Hk. apply (H4 q Hk). change q with (fst (q, o)). apply in_map. exact Hin.
    + right. exists pi. destruct (Hin_r q pi Hin) as [_ Hs]. auto.
Qed.

End MovePKit.

(* ================= examples ================= *)
Definition cxm_tree : cnode :=
  CDir 0%N false [(1%N, CDir 1%N false [(2%N, CVar 2%N 5%Z DSet); (3%N, CVar 3%N 7%Z DSet)])].

(* the target [9] does not exist: rejected (before the existence check was modelled it was established with a
   fresh uid, which made the frame theorem false for q = [9]; that counterexample is gone with the old semantics) *)
Example movep_missing_target_example :
  apply_op cx_mk_child unit cx_build cx_copy vfixed cxm_tree [] (OpMoveP unit [1%N; 2%N] [9%N]) 10%N
    = Err EInvalidPath.
Proof. vm_compute. reflexivity. Qed.

(* the usual case, the target exists: one directory ([9;1], uid 10) is established, nothing else appears *)
Definition cxm_tree2 : cnode :=
  CDir 0%N false [(1%N, CDir 1%N false [(2%N, CVar 2%N 5%Z DSet); (3%N, CVar 3%N 7%Z DSet)]);
                  (9%N, CDir 9%N false [(4%N, CVar 4%N 1%Z DSet)])].

Example movep_example :
  exists t' rp,
    apply_op cx_mk_child unit cx_build cx_copy vfixed cxm_tree2 [] (OpMoveP unit [1%N; 2%N] [9%N]) 10%N
      = Ok (t', rp, 11%N) /\
    cget t' [9%N; 1%N; 2%N] = Some (CVar 2%N 5%Z DSet) /\ cget t' [1%N; 2%N] = None /\
    sig_at t' [9%N; 1%N] = Some (10%N, None) /\ sig_at t' [9%N] = Some (9%N, None) /\
    sig_at t' [9%N; 4%N] = Some (4%N, Some 1%Z) /\ sig_at t' [1%N; 3%N] = Some (3%N, Some 7%Z) /\
    sig_at t' [1%N] = Some (1%N, None) /\ r_deletions rp = [[1%N; 2%N]].
Proof.
  eexists. eexists. split; [vm_compute; reflexivity|]. vm_compute. repeat split; reflexivity.
Qed.

Print Assumptions cestablish_keeps.
Print Assumptions cestablish_frame.
Print Assumptions cestablish_fresh.
Print Assumptions cestablish_mono.
Print Assumptions cestablish_dirs.
Print Assumptions cestablish_exists.
Print Assumptions cestablish_cwf.
Print Assumptions cestablish_procs.
Print Assumptions movep_target_exists.
Print Assumptions movep_target_not_above.
Print Assumptions movep_wf.
Print Assumptions movep_moves.
Print Assumptions movep_source_gone.
Print Assumptions movep_siblings_kept.
Print Assumptions movep_missing_target_rejected.
Print Assumptions movep_fresh.
Print Assumptions movep_reports.
Print Assumptions consistent_movep.
