(* Proofs about Model/Sched.v: the listing order of the processes is moot.

   When user code is a function of the viewed state (no hidden world) and the application of a
   batch is structure-free and insensitive to the order of the updates in the batch, two engines
   that differ only in the order in which the processes are listed produce the same clock, the
   same store, the same emitted rows and the same front (as a map), call after call.

   Self-contained: only Model/Sched.v and Proofs/Sched_defs.v are used. *)
From Coq Require Import List NArith ZArith Bool Lia Permutation.
From Viv Require Import Model.Sched Proofs.Sched_defs.
Import ListNotations.
Open Scope Z_scope.

Ltac splits := repeat match goal with |- _ /\ _ => split end.

(* ------------------------------------------------------------------ *)
(* generic list facts                                                  *)

Lemma pm_mem_iff p l : mem p l = true <-> In p l.
Proof.
  unfold mem. rewrite existsb_exists. split.
  - intros [x [Hin Heq]]. apply N.eqb_eq in Heq. subst. exact Hin.
  - intros Hin. exists p. split; [exact Hin | apply N.eqb_refl].
Qed.

Lemma pm_mem_perm p l l' : Permutation l l' -> mem p l = mem p l'.
Proof.
  intros HP. destruct (mem p l) eqn:E1, (mem p l') eqn:E2; try reflexivity.
  - apply pm_mem_iff in E1. apply (Permutation_in _ HP) in E1.
    apply pm_mem_iff in E1. congruence.
  - apply pm_mem_iff in E2. apply (Permutation_in _ (Permutation_sym HP)) in E2.
    apply pm_mem_iff in E2. congruence.
Qed.

Lemma pm_fold_left_perm {A B} (g : A -> B -> A)
  (Hc : forall a x y, g (g a x) y = g (g a y) x) (l l' : list B) :
  Permutation l l' -> forall a, fold_left g l a = fold_left g l' a.
Proof.
  intros HP. induction HP as [|x l l' HP IH|x y l|l l' l'' HP1 IH1 HP2 IH2]; intros a; cbn [fold_left].
  - reflexivity.
  - apply IH.
  - rewrite Hc. reflexivity.
  - rewrite IH1. apply IH2.
Qed.

(* ------------------------------------------------------------------ *)
(* fronts as maps                                                      *)

Section Front.
Variable U : Type.
Notation front := (front U).
Notation fe := (fe U).
Notation flook := (flook U).
Notation fset := (fset U).

Lemma pm_flook_fset (f : front) p e q :
  flook (fset f p e) q = if N.eqb p q then Some e else flook f q.
Proof.
  induction f as [|[k e0] r IH]; cbn [Sched.fset Sched.flook].
  - reflexivity.
  - destruct (N.eqb_spec k p) as [Hkp|Hkp]; cbn [Sched.flook].
    + subst k. destruct (N.eqb_spec p q); reflexivity.
    + rewrite IH. destruct (N.eqb_spec k q) as [Hkq|Hkq]; [|reflexivity].
      subst k. destruct (N.eqb_spec p q); [congruence|reflexivity].
Qed.

Lemma pm_fset_same (f : front) p e : flook f p = Some e -> fset f p e = f.
Proof.
  induction f as [|[q e0] r IH]; cbn [Sched.flook Sched.fset]; intros H; [discriminate|].
  destruct (N.eqb_spec q p) as [Heq|Hne].
  - inversion H; subst. reflexivity.
  - rewrite (IH H). reflexivity.
Qed.

Lemma pm_fset_fset (f : front) p e e' : fset (fset f p e) p e' = fset f p e'.
Proof.
  induction f as [|[q e0] r IH]; cbn [Sched.fset].
  - rewrite N.eqb_refl. reflexivity.
  - destruct (N.eqb_spec q p) as [Heq|Hne]; cbn [Sched.fset].
    + subst. rewrite N.eqb_refl. reflexivity.
    + destruct (N.eqb_spec q p); [contradiction|]. rewrite IH. reflexivity.
Qed.

Lemma pm_keys_fset_in (f : front) p e q :
  In q (map fst (fset f p e)) -> q = p \/ In q (map fst f).
Proof.
  induction f as [|[k e0] r IH]; cbn [Sched.fset map fst In].
  - intros [H|[]]. left. symmetry. exact H.
  - destruct (N.eqb_spec k p) as [Hkp|Hkp]; cbn [map fst In].
    + intros H. right. exact H.
    + intros [H|H]; [right; left; exact H|].
      destruct (IH H) as [H1|H1]; [left; exact H1|right; right; exact H1].
Qed.

Lemma pm_nodup_fset (f : front) p e : NoDup (map fst f) -> NoDup (map fst (fset f p e)).
Proof.
  induction f as [|[k e0] r IH]; cbn [Sched.fset map fst]; intros Hnd.
  - constructor; [intros []|constructor].
  - inversion Hnd as [|x l Hnotin Hnd']; subst.
    destruct (N.eqb_spec k p) as [Hkp|Hkp]; cbn [map fst].
    + constructor; assumption.
    + constructor; [|apply IH; exact Hnd'].
      intros Hin. apply pm_keys_fset_in in Hin. destruct Hin as [Hin|Hin]; [congruence|].
      apply Hnotin. exact Hin.
Qed.

Lemma pm_flook_in (f : front) p e : flook f p = Some e -> In (p, e) f.
Proof.
  induction f as [|[q e0] r IH]; cbn [Sched.flook]; intros H; [discriminate|].
  destruct (N.eqb_spec q p) as [Heq|Hne].
  - inversion H; subst. left; reflexivity.
  - right. apply IH. exact H.
Qed.

Lemma pm_in_flook (f : front) p e : NoDup (map fst f) -> In (p, e) f -> flook f p = Some e.
Proof.
  induction f as [|[q e0] r IH]; cbn [Sched.flook map fst In]; intros Hnd Hin; [contradiction|].
  inversion Hnd as [|x l Hnotin Hnd']; subst.
  destruct Hin as [Heq|Hin].
  - inversion Heq; subst. rewrite N.eqb_refl. reflexivity.
  - destruct (N.eqb_spec q p) as [Heq|Hne].
    + subst. exfalso. apply Hnotin. apply in_map_iff. exists (p, e). split; [reflexivity|exact Hin].
    + apply IH; assumption.
Qed.

(* the bridge: two duplicate-free keyed lists that agree as maps are permutations of each other *)
Lemma pm_front_perm (f g : front) :
  NoDup (map fst f) -> NoDup (map fst g) -> (forall p, flook f p = flook g p) -> Permutation f g.
Proof.
  intros Hf Hg Heq. apply NoDup_Permutation.
  - eapply NoDup_map_inv. exact Hf.
  - eapply NoDup_map_inv. exact Hg.
  - intros [p e]. split; intros Hin.
    + apply pm_flook_in. rewrite <- Heq. apply pm_in_flook; assumption.
    + apply pm_flook_in. rewrite Heq. apply pm_in_flook; assumption.
Qed.

Lemma pm_flook_keep_live ps (f : front) p :
  flook (keep_live U ps f) p = if mem p ps then flook f p else None.
Proof.
  induction f as [|[q e] r IH]; cbn [Sched.keep_live filter fst Sched.flook].
  - destruct (mem p ps); reflexivity.
  - fold (keep_live U ps r). destruct (N.eqb_spec q p) as [Heq|Hne].
    + subst. destruct (mem p ps) eqn:E; cbn [Sched.flook].
      * rewrite N.eqb_refl. reflexivity.
      * exact IH.
    + destruct (mem q ps); cbn [Sched.flook]; [destruct (N.eqb_spec q p); [contradiction|]|]; exact IH.
Qed.

Lemma pm_keys_keep_live_in ps (f : front) p :
  In p (map fst (keep_live U ps f)) -> In p (map fst f).
Proof.
  unfold keep_live. rewrite !in_map_iff. intros [pe [H1 H2]]. apply filter_In in H2.
  exists pe. split; [exact H1|apply H2].
Qed.

Lemma pm_nodup_keep_live ps (f : front) : NoDup (map fst f) -> NoDup (map fst (keep_live U ps f)).
Proof.
  induction f as [|[q e] r IH]; intros Hnd; [constructor|].
  cbn [map fst] in Hnd. inversion Hnd as [|x l Hnotin Hnd']; subst.
  cbn [Sched.keep_live filter fst]. fold (keep_live U ps r). destruct (mem q ps).
  - cbn [map fst]. constructor; [|apply IH; exact Hnd'].
    intros Hin. apply Hnotin. apply (pm_keys_keep_live_in ps r q). exact Hin.
  - apply IH; exact Hnd'.
Qed.

Lemma pm_flook_map_val (g : pid -> fe -> fe) (f : front) p :
  flook (map (fun pe => (fst pe, g (fst pe) (snd pe))) f) p = option_map (g p) (flook f p).
Proof.
  induction f as [|[q e] r IH]; [reflexivity|].
  cbn [map fst snd Sched.flook]. destruct (N.eqb_spec q p) as [Heq|Hne]; [subst; reflexivity|exact IH].
Qed.

Lemma pm_keys_map_val (g : pid -> fe -> fe) (f : front) :
  map fst (map (fun pe => (fst pe, g (fst pe) (snd pe))) f) = map fst f.
Proof. rewrite map_map. apply map_ext. intros pe. reflexivity. Qed.

(* advance_quiet *)
Definition pm_aq1 (n : Z) (c : bool) (q : list pid) (p : pid) (e : fe) : fe :=
  if mem p q then {| ft := n; fu := fu e; fq := if c then false else fq e |} else e.

Lemma pm_advance_quiet_map n c q (f : front) :
  advance_quiet U n c q f = map (fun pe => (fst pe, pm_aq1 n c q (fst pe) (snd pe))) f.
Proof.
  unfold advance_quiet. apply map_ext. intros [p e]. unfold pm_aq1. cbn [fst snd].
  destruct (mem p q); reflexivity.
Qed.

Lemma pm_flook_advance_quiet n c q (f : front) p :
  flook (advance_quiet U n c q f) p = option_map (pm_aq1 n c q p) (flook f p).
Proof. rewrite pm_advance_quiet_map. apply pm_flook_map_val. Qed.

Lemma pm_keys_advance_quiet n c q (f : front) : map fst (advance_quiet U n c q f) = map fst f.
Proof. rewrite pm_advance_quiet_map. apply pm_keys_map_val. Qed.

(* next_event_*: order-independent *)
Lemma pm_min_if (t acc : Z) : (if t <? acc then t else acc) = Z.min acc t.
Proof. destruct (Z.ltb_spec t acc); lia. Qed.

Lemma pm_min_if2 (now t acc : Z) :
  (if (now <? t) && (t <? acc) then t else acc) = if now <? t then Z.min acc t else acc.
Proof. destruct (now <? t); cbn [andb]; [apply pm_min_if|reflexivity]. Qed.

Lemma pm_nep_perm endt (f g : front) :
  Permutation f g -> next_event_pinned U endt f = next_event_pinned U endt g.
Proof.
  intros HP. unfold next_event_pinned. apply pm_fold_left_perm; [|exact HP].
  intros a x y. cbv beta. rewrite !pm_min_if. lia.
Qed.

Lemma pm_nef_perm now endt (f g : front) :
  Permutation f g -> next_event_fixed U now endt f = next_event_fixed U now endt g.
Proof.
  intros HP. unfold next_event_fixed. apply pm_fold_left_perm; [|exact HP].
  intros a x y. cbv beta. rewrite !pm_min_if2.
  destruct (now <? ft (snd x)); destruct (now <? ft (snd y)); lia.
Qed.

End Front.

(* ------------------------------------------------------------------ *)

Section Perm.
Variables (Sg U W : Type).
Variable poll : W -> pid -> Sg -> Z * W.
Variable cond : W -> pid -> Z -> Sg -> bool * W.
Variable next : W -> pid -> Z -> Sg -> U * W.
Variable commit : Sg -> list pid -> list (pid * U) -> Sg * list pid.
Variable vr : variant.
Variable emit_every : option Z.

(* stateless user code *)
Variable pollf : pid -> Sg -> Z.
Variable condf : pid -> Z -> Sg -> bool.
Variable nextf : pid -> Z -> Sg -> U.
Hypothesis poll_stateless : forall w p s, poll w p s = (pollf p s, w).
Hypothesis cond_stateless : forall w p ts s, cond w p ts s = (condf p ts s, w).
Hypothesis next_stateless : forall w p ts s, next w p ts s = (nextf p ts s, w).

(* structure-free, commutative application of a batch *)
Variable capply : Sg -> list (pid * U) -> Sg.
Hypothesis commit_capply : forall s ps us, commit s ps us = (capply s us, ps).
Hypothesis capply_perm : forall s us us', Permutation us us' -> capply s us = capply s us'.

Notation st := (st Sg U W).
Notation iterv := (iter Sg U W poll cond next commit vr emit_every).
Notation runv := (run Sg U W poll cond next commit vr emit_every).
Notation run_forv := (run_for Sg U W poll cond next commit vr emit_every).
Notation run_callsv := (run_calls Sg U W poll cond next commit vr emit_every).
Notation initv := (init Sg U W).
Notation gt := (gt Sg U W).
Notation procs := (procs Sg U W).
Notation frt := (frt Sg U W).
Notation sto := (sto Sg U W).
Notation wld := (wld Sg U W).
Notation log := (log Sg U W).
Notation front := (front U).
Notation fe := (fe U).
Notation flook := (flook U).
Notation fset := (fset U).
Notation event := (event Sg).
Notation pl := (pl Sg U W).
Notation pf := (pf Sg U W).
Notation pw := (pw Sg U W).
Notation pfull := (pfull Sg U W).
Notation pquiet := (pquiet Sg U W).
Notation plog := (plog Sg U W).
Notation pok := (pok Sg U W).
Notation keep_live := (keep_live U).
Notation drop_events := (drop_events Sg U).
Notation advance_quiet := (advance_quiet U).
Notation collect := (collect Sg U).
Notation next_event_fixed := (next_event_fixed U).
Notation next_event_pinned := (next_event_pinned U).
Notation emit_afterv := (emit_after Sg vr emit_every).
Notation pollv := (poll_one Sg U W poll cond next vr).
Notation mkst := (Build_st Sg U W).
Notation mkpl := (Build_pl Sg U W).
Notation mkfe := (Build_fe U).

(* ------------------------------------------------------------------ *)
(* the emitted history                                                 *)

Definition rows (l : list event) : list event := filter is_emit l.

Lemma rows_app (l m : list event) : rows (l ++ m) = rows l ++ rows m.
Proof. unfold rows. apply filter_app. Qed.

Lemma rows_rev (l : list event) : rows (rev l) = rev (rows l).
Proof.
  induction l as [|x l IH]; [reflexivity|].
  cbn [rev]. rewrite rows_app, IH.
  change (rows [x]) with (if is_emit x then [x] else []).
  change (rows (x :: l)) with (if is_emit x then x :: rows l else rows l).
  destruct (is_emit x); cbn [rev app]; [reflexivity|]. apply app_nil_r.
Qed.

Lemma rows_drop_events now ps (f : front) : rows (drop_events now ps f) = [].
Proof.
  induction f as [|[q e] r IH]; [reflexivity|].
  cbn [Sched.drop_events flat_map fst snd]. fold (drop_events now ps r).
  rewrite rows_app, IH, app_nil_r.
  destruct (mem q ps); [reflexivity|]. destruct (fu e); reflexivity.
Qed.

(* ------------------------------------------------------------------ *)
(* collect, as three maps                                              *)

Definition col1 (now : Z) (e : fe) : fe :=
  if ft e <=? now then mkfe (ft e) None false else e.
Definition colf (now : Z) (f : front) : front := map (fun pe => (fst pe, col1 now (snd pe))) f.
Definition colus (now : Z) (f : front) : list (pid * U) :=
  flat_map (fun pe => if ft (snd pe) <=? now
                      then match fu (snd pe) with Some u => [(fst pe, u)] | None => [] end
                      else []) f.
Definition colev (now : Z) (f : front) : list event :=
  flat_map (fun pe => if ft (snd pe) <=? now
                      then match fu (snd pe) with
                           | Some _ => [EApply Sg (fst pe) (ft (snd pe)) now] | None => [] end
                      else []) f.

Lemma collect_eq now (f : front) : collect now f = (colf now f, colus now f, colev now f).
Proof.
  induction f as [|[p e] r IH]; [reflexivity|].
  cbn [Sched.collect]. rewrite IH.
  cbn [colf colus colev map flat_map fst snd]. fold (colf now r) (colus now r) (colev now r).
  unfold col1.
  destruct (ft e <=? now); [destruct (fu e)|]; reflexivity.
Qed.

Lemma flook_colf now (f : front) p : flook (colf now f) p = option_map (col1 now) (flook f p).
Proof. unfold colf. apply (pm_flook_map_val U (fun _ => col1 now)). Qed.

Lemma keys_colf now (f : front) : map fst (colf now f) = map fst f.
Proof. unfold colf. apply (pm_keys_map_val U (fun _ => col1 now)). Qed.

Lemma colus_perm now (f g : front) : Permutation f g -> Permutation (colus now f) (colus now g).
Proof. intros HP. unfold colus. apply Permutation_flat_map. exact HP. Qed.

Lemma rows_colev now (f : front) : rows (colev now f) = [].
Proof.
  induction f as [|[q e] r IH]; [reflexivity|].
  cbn [colev flat_map fst snd]. fold (colev now r).
  rewrite rows_app, IH, app_nil_r.
  destruct (ft e <=? now); [|reflexivity]. destruct (fu e); reflexivity.
Qed.

(* ------------------------------------------------------------------ *)
(* one poll, as a function of the process's own front entry            *)

Record pr := { re : fe; rd : option Z; rq : list pid; rv : list event; rk : bool }.

Definition omerge (a d : option Z) : option Z :=
  match d with None => a | Some x => omin a x end.

Definition pstep (now endt : Z) (force : bool) (s : Sg) (o : option fe) (p : pid) : pr :=
  let e := match o with Some e => e | None => mkfe now None false end in
  if ft e <=? now then
    let req := pollf p s in
    let fut := if force then Z.min (ft e + req) endt else ft e + req in
    if fut <=? endt then
      let ts := if v_fix_ts vr && force && (endt <? ft e + req) then endt - ft e else req in
      if condf p ts s then
        {| re := mkfe fut (Some (nextf p ts s)) false; rd := Some (fut - now); rq := [];
           rv := [EInvoke Sg p (ft e) fut ts req now s];
           rk := (now <? fut) || (force && (fut =? endt)) |}
      else
        {| re := mkfe (ft e) None true; rd := None; rq := [p];
           rv := [EQuiet Sg p now]; rk := true |}
    else {| re := e; rd := Some (fut - now); rq := []; rv := []; rk := now <? fut |}
  else {| re := e; rd := Some (ft e - now); rq := []; rv := []; rk := true |}.

Definition papp (a : pl) (p : pid) (r : pr) : pl :=
  mkpl (fset (pf a) p (re r)) (pw a) (omerge (pfull a) (rd r)) (pquiet a ++ rq r)
       (rv r ++ plog a) (pok a && rk r).

Lemma poll_one_papp now endt force s (a : pl) p :
  pollv now endt force s a p = papp a p (pstep now endt force s (flook (pf a) p) p).
Proof.
  unfold poll_one, pstep, papp.
  destruct (flook (pf a) p) as [e|] eqn:E.
  - destruct (ft e <=? now).
    + rewrite poll_stateless.
      destruct ((if force then Z.min (ft e + pollf p s) endt else ft e + pollf p s) <=? endt).
      * rewrite cond_stateless.
        destruct (condf p _ s).
        -- rewrite next_stateless. cbn [re rd rq rv rk omerge app].
           rewrite app_nil_r. reflexivity.
        -- cbn [re rd rq rv rk omerge app]. rewrite andb_true_r. reflexivity.
      * cbn [re rd rq rv rk omerge app]. rewrite app_nil_r, (pm_fset_same U _ _ _ E). reflexivity.
    + cbn [re rd rq rv rk omerge app].
      rewrite app_nil_r, andb_true_r, (pm_fset_same U _ _ _ E). reflexivity.
  - cbn [ft].
    destruct (now <=? now).
    + rewrite poll_stateless.
      destruct ((if force then Z.min (now + pollf p s) endt else now + pollf p s) <=? endt).
      * rewrite cond_stateless.
        destruct (condf p _ s).
        -- rewrite next_stateless. cbn [re rd rq rv rk omerge app].
           rewrite app_nil_r, pm_fset_fset. reflexivity.
        -- cbn [re rd rq rv rk omerge app]. rewrite andb_true_r, pm_fset_fset. reflexivity.
      * cbn [re rd rq rv rk omerge app]. rewrite app_nil_r. reflexivity.
    + cbn [re rd rq rv rk omerge app]. rewrite app_nil_r, andb_true_r. reflexivity.
Qed.

Lemma pf_papp (a : pl) p r : pf (papp a p r) = fset (pf a) p (re r).
Proof. reflexivity. Qed.

Lemma rows_pstep now endt force s o p : rows (rv (pstep now endt force s o p)) = [].
Proof.
  unfold pstep.
  repeat match goal with |- context [if ?c then _ else _] => destruct c end; reflexivity.
Qed.

Lemma omerge_swap a d1 d2 : omerge (omerge a d1) d2 = omerge (omerge a d2) d1.
Proof.
  destruct a as [a|], d1 as [d1|], d2 as [d2|]; cbn; try reflexivity; f_equal; lia.
Qed.

(* ------------------------------------------------------------------ *)
(* accumulators up to order                                            *)

Definition pl_equiv (x y : pl) : Prop :=
  (forall p, flook (pf x) p = flook (pf y) p) /\
  NoDup (map fst (pf x)) /\ NoDup (map fst (pf y)) /\
  pw x = pw y /\ pfull x = pfull y /\ Permutation (pquiet x) (pquiet y) /\
  rows (plog x) = rows (plog y) /\ pok x = pok y.

Lemma pl_equiv_trans x y z : pl_equiv x y -> pl_equiv y z -> pl_equiv x z.
Proof.
  intros [H1 [H2 [H3 [H4 [H5 [H6 [H7 H8]]]]]]] [G1 [G2 [G3 [G4 [G5 [G6 [G7 G8]]]]]]].
  unfold pl_equiv. splits; try assumption.
  - intros p. rewrite H1. apply G1.
  - congruence.
  - congruence.
  - eapply Permutation_trans; eassumption.
  - congruence.
  - congruence.
Qed.

Lemma papp_equiv (a b : pl) p r : pl_equiv a b -> pl_equiv (papp a p r) (papp b p r).
Proof.
  intros [H1 [H2 [H3 [H4 [H5 [H6 [H7 H8]]]]]]].
  unfold papp, pl_equiv. cbn [Sched.pf Sched.pw Sched.pfull Sched.pquiet Sched.plog Sched.pok].
  splits.
  - intros q. rewrite !pm_flook_fset, H1. reflexivity.
  - apply pm_nodup_fset. exact H2.
  - apply pm_nodup_fset. exact H3.
  - exact H4.
  - rewrite H5. reflexivity.
  - apply Permutation_app_tail. exact H6.
  - rewrite !rows_app, H7. reflexivity.
  - rewrite H8. reflexivity.
Qed.

Lemma poll_one_equiv now endt force s (a b : pl) p :
  pl_equiv a b -> pl_equiv (pollv now endt force s a p) (pollv now endt force s b p).
Proof.
  intros H. rewrite !poll_one_papp.
  destruct H as [H1 H]. rewrite (H1 p). apply papp_equiv. split; assumption.
Qed.

Lemma poll_one_swap now endt force s (a b : pl) p q :
  pl_equiv a b ->
  pl_equiv (pollv now endt force s (pollv now endt force s a p) q)
           (pollv now endt force s (pollv now endt force s b q) p).
Proof.
  intros H. destruct (N.eq_dec p q) as [Heq|Hne].
  - subst q. apply poll_one_equiv, poll_one_equiv, H.
  - rewrite !poll_one_papp.
    destruct H as [H1 [H2 [H3 [H4 [H5 [H6 [H7 H8]]]]]]].
    rewrite !pf_papp, !pm_flook_fset.
    destruct (N.eqb_spec p q) as [Hpq|_]; [contradiction|].
    destruct (N.eqb_spec q p) as [Hqp|_]; [congruence|].
    rewrite <- !H1.
    set (rp := pstep now endt force s (flook (pf a) p) p).
    set (rq0 := pstep now endt force s (flook (pf a) q) q).
    unfold papp, pl_equiv. cbn [Sched.pf Sched.pw Sched.pfull Sched.pquiet Sched.plog Sched.pok].
    splits.
    + intros k. rewrite !pm_flook_fset, H1.
      destruct (N.eqb_spec q k) as [Hqk|Hqk]; destruct (N.eqb_spec p k) as [Hpk|Hpk];
        try reflexivity. congruence.
    + apply pm_nodup_fset, pm_nodup_fset. exact H2.
    + apply pm_nodup_fset, pm_nodup_fset. exact H3.
    + exact H4.
    + rewrite H5. apply omerge_swap.
    + rewrite <- !app_assoc. apply Permutation_app; [exact H6|]. apply Permutation_app_comm.
    + rewrite !rows_app. unfold rp, rq0. rewrite !rows_pstep. cbn [app]. exact H7.
    + rewrite H8. rewrite <- !andb_assoc. f_equal. apply andb_comm.
Qed.

Lemma fold_equiv_same now endt force s l : forall (a b : pl),
  pl_equiv a b ->
  pl_equiv (fold_left (pollv now endt force s) l a) (fold_left (pollv now endt force s) l b).
Proof.
  induction l as [|p l IH]; intros a b H; cbn [fold_left]; [exact H|].
  apply IH, poll_one_equiv, H.
Qed.

Lemma pl_equiv_refl_l (a b : pl) : pl_equiv a b -> pl_equiv b b.
Proof.
  intros [H1 [H2 [H3 [H4 [H5 [H6 [H7 H8]]]]]]].
  unfold pl_equiv. splits; try assumption; reflexivity.
Qed.

Lemma fold_equiv_perm now endt force s l l' :
  Permutation l l' -> forall (a b : pl),
  pl_equiv a b ->
  pl_equiv (fold_left (pollv now endt force s) l a) (fold_left (pollv now endt force s) l' b).
Proof.
  intros HP.
  induction HP as [|x l l' HP IH|x y l|l l' l'' HP1 IH1 HP2 IH2]; intros a b H; cbn [fold_left].
  - exact H.
  - apply IH, poll_one_equiv, H.
  - apply fold_equiv_same, poll_one_swap, H.
  - eapply pl_equiv_trans.
    + apply IH1. exact H.
    + apply IH2. eapply pl_equiv_refl_l. exact H.
Qed.

(* ------------------------------------------------------------------ *)
(* states up to listing order                                          *)

Definition st_equiv (a b : st) : Prop :=
  gt a = gt b /\ Permutation (procs a) (procs b) /\ NoDup (procs a) /\
  (forall p, flook (frt a) p = flook (frt b) p) /\
  NoDup (map fst (frt a)) /\ NoDup (map fst (frt b)) /\
  sto a = sto b /\ wld a = wld b /\ rows (log a) = rows (log b).

Definition acc0 (s : st) : pl :=
  mkpl (keep_live (procs s) (frt s)) (wld s) None []
       (rev (drop_events (gt s) (procs s) (frt s)) ++ log s) true.

Definition polled (endt : Z) (force : bool) (s : st) : pl :=
  fold_left (pollv (gt s) endt force (sto s)) (procs s) (acc0 s).

(* the advance of one pass, given the result of the poll loop *)
Definition adv (endt et : Z) (s : st) (a : pl) : st * Z :=
  match pfull a with
  | None =>
    if v_fix_quiet vr then
      let ne := next_event_fixed (gt s) endt (pf a) in
      (mkst ne (procs s) (advance_quiet ne true (pquiet a) (pf a)) (sto s) (pw a) (plog a), et)
    else
      (mkst (next_event_pinned endt (pf a)) (procs s) (pf a) (sto s) (pw a) (plog a), et)
  | Some d =>
    if gt s + d <=? endt then
      let now := gt s + d in
      let f1 := advance_quiet now false (pquiet a) (pf a) in
      let '(f2, us, ev) := collect now f1 in
      let '(sto', procs') := commit (sto s) (procs s) us in
      let '(rws, et') := emit_afterv now et sto' in
      (mkst now procs' f2 sto' (pw a) (rws ++ rev ev ++ plog a), et')
    else
      (mkst endt (procs s) (pf a) (sto s) (pw a) (plog a), et)
  end.

Lemma iter_unfold endt force et s :
  iterv endt force et s =
  let a := polled endt force s in
  let '(s', et') := adv endt et s a in
  (s', (if force && (gt s' =? endt) then false else force), et', pok a).
Proof. reflexivity. Qed.

Lemma acc0_equiv a b : st_equiv a b -> pl_equiv (acc0 a) (acc0 b).
Proof.
  intros [Hg [Hp [Hnd [Hf [Hna [Hnb [Hs [Hw Hl]]]]]]]].
  unfold acc0, pl_equiv. cbn [Sched.pf Sched.pw Sched.pfull Sched.pquiet Sched.plog Sched.pok].
  splits.
  - intros p. rewrite !pm_flook_keep_live, (pm_mem_perm p _ _ Hp), Hf. reflexivity.
  - apply pm_nodup_keep_live. exact Hna.
  - apply pm_nodup_keep_live. exact Hnb.
  - exact Hw.
  - reflexivity.
  - apply Permutation_refl.
  - rewrite !rows_app, !rows_rev, !rows_drop_events. cbn [rev app]. exact Hl.
  - reflexivity.
Qed.

Lemma polled_equiv endt force a b :
  st_equiv a b -> pl_equiv (polled endt force a) (polled endt force b).
Proof.
  intros H. pose proof (acc0_equiv a b H) as H0.
  destruct H as [Hg [Hp [Hnd [Hf [Hna [Hnb [Hs [Hw Hl]]]]]]]].
  unfold polled. rewrite <- Hg, <- Hs. apply fold_equiv_perm; assumption.
Qed.

Lemma advance_quiet_equiv n c q q' (f g : front) :
  Permutation q q' -> (forall p, flook f p = flook g p) ->
  forall p, flook (advance_quiet n c q f) p = flook (advance_quiet n c q' g) p.
Proof.
  intros Hq Hf p. rewrite !pm_flook_advance_quiet, Hf. unfold pm_aq1.
  rewrite (pm_mem_perm p _ _ Hq). reflexivity.
Qed.

Lemma adv_equiv endt et a b (A B : pl) :
  st_equiv a b -> pl_equiv A B ->
  st_equiv (fst (adv endt et a A)) (fst (adv endt et b B)) /\
  snd (adv endt et a A) = snd (adv endt et b B).
Proof.
  intros [Hg [Hp [Hnd [Hf [Hna [Hnb [Hs [Hw Hl]]]]]]]] [P1 [P2 [P3 [P4 [P5 [P6 [P7 P8]]]]]]].
  pose proof (pm_front_perm U _ _ P2 P3 P1) as PP.
  unfold adv. rewrite <- P5, <- Hg, <- Hs.
  destruct (pfull A) as [d|].
  - destruct (gt a + d <=? endt).
    + rewrite !collect_eq, !commit_capply. cbv beta iota zeta.
      set (now := gt a + d).
      assert (Q1 : forall p, flook (advance_quiet now false (pquiet A) (pf A)) p
                             = flook (advance_quiet now false (pquiet B) (pf B)) p).
      { apply advance_quiet_equiv; assumption. }
      assert (Q2 : NoDup (map fst (advance_quiet now false (pquiet A) (pf A)))).
      { rewrite pm_keys_advance_quiet. exact P2. }
      assert (Q3 : NoDup (map fst (advance_quiet now false (pquiet B) (pf B)))).
      { rewrite pm_keys_advance_quiet. exact P3. }
      pose proof (pm_front_perm U _ _ Q2 Q3 Q1) as QQ.
      rewrite (capply_perm (sto a) _ _ (colus_perm now _ _ QQ)).
      destruct (emit_afterv now et
                  (capply (sto a) (colus now (advance_quiet now false (pquiet B) (pf B)))))
        as [rws et'].
      cbn [fst snd]. split; [|reflexivity].
      unfold st_equiv. cbn [Sched.gt Sched.procs Sched.frt Sched.sto Sched.wld Sched.log].
      splits; try assumption; try reflexivity.
      * intros p. rewrite !flook_colf, Q1. reflexivity.
      * rewrite keys_colf. exact Q2.
      * rewrite keys_colf. exact Q3.
      * rewrite !rows_app, !rows_rev, !rows_colev, P7. reflexivity.
    + cbn [fst snd]. split; [|reflexivity].
      unfold st_equiv. cbn [Sched.gt Sched.procs Sched.frt Sched.sto Sched.wld Sched.log].
      splits; first [assumption|reflexivity].
  - destruct (v_fix_quiet vr); cbv zeta; cbn [fst snd]; (split; [|reflexivity]);
      unfold st_equiv; cbn [Sched.gt Sched.procs Sched.frt Sched.sto Sched.wld Sched.log].
    + rewrite (pm_nef_perm U (gt a) endt _ _ PP).
      splits; try assumption; try reflexivity.
      * apply advance_quiet_equiv; assumption.
      * rewrite pm_keys_advance_quiet. exact P2.
      * rewrite pm_keys_advance_quiet. exact P3.
    + rewrite (pm_nep_perm U endt _ _ PP).
      splits; first [assumption|reflexivity].
Qed.

(* 1. one pass of the loop *)
Theorem iter_equiv endt force et a b :
  st_equiv a b ->
  let '(a', fa, eta, oka) := iterv endt force et a in
  let '(b', fb, etb, okb) := iterv endt force et b in
  st_equiv a' b' /\ fa = fb /\ eta = etb /\ oka = okb.
Proof.
  intros H. rewrite !iter_unfold. cbv zeta.
  pose proof (polled_equiv endt force a b H) as HP.
  pose proof (adv_equiv endt et a b _ _ H HP) as [H1 H2].
  destruct (adv endt et a (polled endt force a)) as [a' eta].
  destruct (adv endt et b (polled endt force b)) as [b' etb].
  cbn [fst snd] in H1, H2.
  split; [exact H1|]. split; [|split].
  - destruct H1 as [Hg _]. rewrite Hg. reflexivity.
  - exact H2.
  - apply HP.
Qed.

(* results of a run, up to listing order *)
Definition res_equiv (x y : option st * bool) : Prop :=
  match fst x, fst y with
  | None, None => True
  | Some a, Some b => st_equiv a b
  | _, _ => False
  end /\ snd x = snd y.

(* 2. the loop *)
Theorem run_equiv fuel : forall endt force et a b,
  st_equiv a b -> res_equiv (runv fuel endt force et a) (runv fuel endt force et b).
Proof.
  induction fuel as [|n IH]; intros endt force et a b H.
  - cbn [Sched.run]. destruct H as [Hg H']. rewrite <- Hg.
    destruct ((gt a <? endt) || force); split; cbn [fst snd]; try reflexivity; try exact I.
    split; assumption.
  - cbn [Sched.run]. pose proof H as [Hg H']. rewrite <- Hg.
    destruct ((gt a <? endt) || force).
    + pose proof (iter_equiv endt force et a b H) as HI.
      destruct (iterv endt force et a) as [[[a' fa] eta] oka].
      destruct (iterv endt force et b) as [[[b' fb] etb] okb].
      destruct HI as [HI1 [HI2 [HI3 HI4]]]. subst fb etb okb.
      pose proof (IH endt fa eta a' b' HI1) as HR.
      destruct (runv n endt fa eta a') as [ra oka'].
      destruct (runv n endt fa eta b') as [rb okb'].
      destruct HR as [HR1 HR2]. cbn [fst snd] in *. subst okb'.
      split; [exact HR1|reflexivity].
    + split; cbn [fst snd]; [exact H|reflexivity].
Qed.

Lemma run_for_equiv fuel interval force a b :
  st_equiv a b -> res_equiv (run_forv fuel interval force a) (run_forv fuel interval force b).
Proof.
  intros H. unfold run_for. pose proof H as [Hg _]. rewrite <- Hg. apply run_equiv. exact H.
Qed.

(* 3. a sequence of run_for calls *)
Theorem run_calls_equiv fuel calls : forall a b,
  st_equiv a b -> res_equiv (run_callsv fuel calls a) (run_callsv fuel calls b).
Proof.
  induction calls as [|[i f] r IH]; intros a b H; cbn [Sched.run_calls].
  - split; cbn [fst snd]; [exact H|reflexivity].
  - pose proof (run_for_equiv fuel i f a b H) as HR.
    destruct (run_forv fuel i f a) as [[a'|] oka]; destruct (run_forv fuel i f b) as [[b'|] okb];
      destruct HR as [HR1 HR2]; cbn [fst snd] in HR1, HR2; try contradiction; subst okb.
    + pose proof (IH a' b' HR1) as HC.
      destruct (run_callsv fuel r a') as [ra oka'].
      destruct (run_callsv fuel r b') as [rb okb'].
      destruct HC as [HC1 HC2]. cbn [fst snd] in *. subst okb'.
      split; [exact HC1|reflexivity].
    + split; cbn [fst snd]; [exact I|reflexivity].
Qed.

Lemma flook_init_front (e0 : fe) ps p :
  flook (map (fun q => (q, e0)) ps) p = if mem p ps then Some e0 else None.
Proof.
  induction ps as [|q ps IH]; [reflexivity|].
  cbn [map Sched.flook mem existsb]. rewrite N.eqb_sym.
  destruct (N.eqb p q); [reflexivity|]. exact IH.
Qed.

(* 4. construction *)
Theorem init_equiv t0 ps ps' s0 w0 :
  Permutation ps ps' -> NoDup ps -> st_equiv (initv t0 ps s0 w0) (initv t0 ps' s0 w0).
Proof.
  intros HP Hnd. unfold init, st_equiv.
  cbn [Sched.gt Sched.procs Sched.frt Sched.sto Sched.wld Sched.log].
  splits; try assumption; try reflexivity.
  - intros p. rewrite !flook_init_front, (pm_mem_perm p _ _ HP). reflexivity.
  - rewrite map_map. cbn [fst]. rewrite map_id. exact Hnd.
  - rewrite map_map. cbn [fst]. rewrite map_id. eapply Permutation_NoDup; eassumption.
Qed.

(* 5. the listing order of the processes is moot *)
Theorem listing_order_moot fuel calls t0 ps ps' s0 w0 :
  Permutation ps ps' -> NoDup ps ->
  match run_callsv fuel calls (initv t0 ps s0 w0), run_callsv fuel calls (initv t0 ps' s0 w0) with
  | (None, oka), (None, okb) => oka = okb
  | (Some a, oka), (Some b, okb) =>
      gt a = gt b /\ sto a = sto b /\ rows (log a) = rows (log b) /\
      (forall p, flook (frt a) p = flook (frt b) p) /\ oka = okb
  | _, _ => False
  end.
Proof.
  intros HP Hnd.
  pose proof (run_calls_equiv fuel calls _ _ (init_equiv t0 ps ps' s0 w0 HP Hnd)) as H.
  destruct (run_callsv fuel calls (initv t0 ps s0 w0)) as [[a|] oka];
    destruct (run_callsv fuel calls (initv t0 ps' s0 w0)) as [[b|] okb];
    destruct H as [H1 H2]; cbn [fst snd] in H1, H2; try contradiction; try exact H2.
  destruct H1 as [Hg [Hp [Hn [Hf [Hna [Hnb [Hs [Hw Hl]]]]]]]].
  splits; assumption.
Qed.

End Perm.

(* ------------------------------------------------------------------ *)
(* the hypotheses are satisfiable: additive integer updates, processes that always request one
   tick and always run.  (A non-vacuity witness; nothing else depends on it.) *)

Definition pm_sum (s : Z) (us : list (pid * Z)) : Z := fold_left (fun acc pu => acc + snd pu) us s.

Lemma pm_sum_perm s us us' : Permutation us us' -> pm_sum s us = pm_sum s us'.
Proof.
  intros HP. unfold pm_sum. apply pm_fold_left_perm; [|exact HP]. intros a x y. lia.
Qed.

Corollary listing_order_moot_additive vr ee fuel calls t0 ps ps' s0 :
  Permutation ps ps' -> NoDup ps ->
  let poll := fun (w : unit) (_ : pid) (_ : Z) => (1, w) in
  let cond := fun (w : unit) (_ : pid) (_ : Z) (_ : Z) => (true, w) in
  let next := fun (w : unit) (p : pid) (ts : Z) (s : Z) => (Z.of_N p * ts + s, w) in
  let commit := fun (s : Z) (qs : list pid) (us : list (pid * Z)) => (pm_sum s us, qs) in
  match run_calls Z Z unit poll cond next commit vr ee fuel calls (init Z Z unit t0 ps s0 tt),
        run_calls Z Z unit poll cond next commit vr ee fuel calls (init Z Z unit t0 ps' s0 tt) with
  | (None, oka), (None, okb) => oka = okb
  | (Some a, oka), (Some b, okb) =>
      gt Z Z unit a = gt Z Z unit b /\ sto Z Z unit a = sto Z Z unit b /\
      rows Z (log Z Z unit a) = rows Z (log Z Z unit b) /\
      (forall p, flook Z (frt Z Z unit a) p = flook Z (frt Z Z unit b) p) /\ oka = okb
  | _, _ => False
  end.
Proof.
  intros HP Hnd poll cond next commit.
  apply (listing_order_moot Z Z unit poll cond next commit vr ee
           (fun _ _ => 1) (fun _ _ _ => true) (fun p ts s => Z.of_N p * ts + s)
           (fun w p s => eq_refl) (fun w p ts s => eq_refl) (fun w p ts s => eq_refl)
           pm_sum (fun s qs us => eq_refl) pm_sum_perm); assumption.
Qed.

Print Assumptions listing_order_moot.
