(* Proofs about Model/Steps.v: the order in which flow steps are LISTED (the order in which they were added to the
   step graph, the order of the edges) does not matter: the execution layers, hence the whole step phase, are the
   same.  (Steps without a flow entry - legacy derivers - run in declaration order by design: `seq` is kept as is.) *)
From Coq Require Import List NArith ZArith Bool Lia Sorting.Sorted Sorting.Permutation.
From Viv Require Import Base.Assoc Base.Tree Model.Paths Model.Steps Proofs.Steps_proofs.
Import ListNotations.

(* ---------- node_ltb is a strict total order ---------- *)
Lemma seg_ltb_trans x y z : seg_ltb x y = true -> seg_ltb y z = true -> seg_ltb x z = true.
Proof.
  destruct x as [|a], y as [|b], z as [|c]; simpl; intros H1 H2; try reflexivity; try discriminate.
  apply N.ltb_lt in H1. apply N.ltb_lt in H2. apply N.ltb_lt. lia.
Qed.

Lemma seg_ltb_total x y : x <> y -> seg_ltb x y = true \/ seg_ltb y x = true.
Proof.
  destruct x as [|a], y as [|b]; simpl; intro H; auto; try (exfalso; apply H; reflexivity).
  destruct (N.lt_trichotomy a b) as [Hl|[He|Hg]].
  - left. apply N.ltb_lt. exact Hl.
  - exfalso. apply H. subst. reflexivity.
  - right. apply N.ltb_lt. exact Hg.
Qed.

Lemma seg_eqb_refl x : seg_eqb x x = true.
Proof. apply seg_eqb_eq. reflexivity. Qed.

Lemma node_ltb_trans a : forall b c, node_ltb a b = true -> node_ltb b c = true -> node_ltb a c = true.
Proof.
  induction a as [|x a IH]; intros [|y b] [|z c]; simpl; intros H1 H2;
    try reflexivity; try discriminate.
  apply orb_true_iff in H1. apply orb_true_iff in H2. apply orb_true_iff.
  destruct H1 as [H1|H1]; destruct H2 as [H2|H2].
  - left. apply seg_ltb_trans with y; assumption.
  - apply andb_true_iff in H2. destruct H2 as [E _]. apply seg_eqb_eq in E. subst z.
    left. exact H1.
  - apply andb_true_iff in H1. destruct H1 as [E _]. apply seg_eqb_eq in E. subst y.
    left. exact H2.
  - apply andb_true_iff in H1. destruct H1 as [E1 L1]. apply seg_eqb_eq in E1. subst y.
    apply andb_true_iff in H2. destruct H2 as [E2 L2]. apply seg_eqb_eq in E2. subst z.
    right. rewrite seg_eqb_refl. simpl. apply IH with b; assumption.
Qed.

Lemma node_ltb_total a : forall b, a <> b -> node_ltb a b = true \/ node_ltb b a = true.
Proof.
  induction a as [|x a IH]; intros [|y b] H; simpl; auto; try (exfalso; apply H; reflexivity).
  destruct (seg_eqb x y) eqn:E.
  - apply seg_eqb_eq in E. subst y. rewrite seg_eqb_refl. rewrite seg_ltb_irrefl. simpl.
    apply IH. intro Hab. apply H. subst. reflexivity.
  - assert (Hxy : x <> y).
    { intro Hxy. subst. rewrite seg_eqb_refl in E. discriminate. }
    destruct (seg_ltb_total x y Hxy) as [L|L]; rewrite L; simpl; auto.
Qed.

Lemma node_ltb_irrefl a : node_ltb a a = false.
Proof.
  destruct (node_ltb a a) eqn:E; [|reflexivity].
  pose proof (node_ltb_asym _ _ E) as H. rewrite E in H. discriminate.
Qed.

(* ---------- sorted duplicate-free permutations are unique ---------- *)
Definition nlt (a b : node) : Prop := node_ltb a b = true.

Lemma sorted_strict l :
  NoDup l -> LocallySorted (fun a b => node_ltb b a = false) l -> StronglySorted nlt l.
Proof.
  intros Hnd Hs. apply Sorted_StronglySorted.
  - intros a b c Hab Hbc. unfold nlt in *. apply node_ltb_trans with b; assumption.
  - induction Hs as [|a|a b l Hs IH Hab].
    + constructor.
    + constructor; constructor.
    + inversion Hnd as [|? ? Hna Hnd']; subst. constructor.
      * apply IH. exact Hnd'.
      * constructor. unfold nlt.
        assert (Hne : a <> b).
        { intro He. subst. apply Hna. left. reflexivity. }
        destruct (node_ltb_total a b Hne) as [L|L]; [exact L|].
        rewrite L in Hab. discriminate.
Qed.

Lemma strict_sorted_unique l : forall l',
  StronglySorted nlt l -> StronglySorted nlt l' -> Permutation l l' -> l = l'.
Proof.
  induction l as [|a l IH]; intros l' Hs Hs' Hp.
  - apply Permutation_nil in Hp. subst. reflexivity.
  - destruct l' as [|b l'].
    + apply Permutation_sym in Hp. apply Permutation_nil in Hp. discriminate.
    + inversion Hs as [|? ? Hsl Hal]; subst. inversion Hs' as [|? ? Hsl' Hbl']; subst.
      assert (Hab : a = b).
      { assert (Ha : In a (b :: l')) by (apply Permutation_in with (a :: l); [exact Hp|left; reflexivity]).
        assert (Hb : In b (a :: l)).
        { apply Permutation_in with (b :: l'); [apply Permutation_sym; exact Hp|left; reflexivity]. }
        destruct Ha as [Ha|Ha]; [symmetry; exact Ha|].
        destruct Hb as [Hb|Hb]; [exact Hb|].
        rewrite Forall_forall in Hal, Hbl'.
        pose proof (Hal _ Hb) as L1. pose proof (Hbl' _ Ha) as L2. unfold nlt in *.
        apply node_ltb_asym in L1. rewrite L1 in L2. discriminate. }
      subst b. f_equal. apply IH; [exact Hsl|exact Hsl'|].
      apply Permutation_cons_inv with a. exact Hp.
Qed.

(* sorting is canonical: two listings of the same distinct steps sort to the same layer *)
Theorem nsort_canonical (l l' : list node) : NoDup l -> Permutation l l' -> nsort l = nsort l'.
Proof.
  intros Hnd Hp. apply strict_sorted_unique.
  - apply sorted_strict; [|apply nsort_sorted].
    apply Permutation_NoDup with l; [apply Permutation_sym; apply nsort_perm|exact Hnd].
  - apply sorted_strict; [|apply nsort_sorted].
    apply Permutation_NoDup with l; [|exact Hnd].
    apply Permutation_trans with l'; [exact Hp|apply Permutation_sym; apply nsort_perm].
  - apply Permutation_trans with l; [apply nsort_perm|].
    apply Permutation_trans with l'; [exact Hp|apply Permutation_sym; apply nsort_perm].
Qed.

(* ---------- filters and existsb under permutation / same members ---------- *)
Lemma filter_perm_ext {A} (p q : A -> bool) l l' :
  (forall x, p x = q x) -> Permutation l l' -> Permutation (filter p l) (filter q l').
Proof.
  intros Hpq Hp. induction Hp as [|x l l' Hp IH|x y l|l l' l'' Hp1 IH1 Hp2 IH2].
  - constructor.
  - simpl. rewrite <- (Hpq x). destruct (p x); [constructor|]; exact IH.
  - simpl. rewrite <- (Hpq x), <- (Hpq y). rewrite (filter_ext _ _ Hpq).
    destruct (p x), (p y); try apply Permutation_refl. apply perm_swap.
  - apply Permutation_trans with (filter q l'); [exact IH1|].
    apply Permutation_trans with (filter p l'); [|exact IH2].
    rewrite (filter_ext _ _ Hpq). apply Permutation_refl.
Qed.

Lemma existsb_same_members {A} (f f' : A -> bool) l l' :
  (forall x, f x = f' x) -> (forall x, In x l <-> In x l') -> existsb f l = existsb f' l'.
Proof.
  intros Hf Hm. destruct (existsb f' l') eqn:E.
  - apply existsb_exists in E. destruct E as [x [Hin Hx]]. apply existsb_exists.
    exists x. split; [apply Hm; exact Hin|rewrite Hf; exact Hx].
  - destruct (existsb f l) eqn:E'; [|reflexivity].
    apply existsb_exists in E'. destruct E' as [x [Hin Hx]].
    assert (Ht : existsb f' l' = true).
    { apply existsb_exists. exists x. split; [apply Hm; exact Hin|rewrite <- Hf; exact Hx]. }
    rewrite Ht in E. discriminate.
Qed.

Lemma zero_in_perm rem rem' (e e' : list (node * node)) :
  Permutation rem rem' -> (forall x, In x e <-> In x e') ->
  Permutation (zero_in rem e) (zero_in rem' e').
Proof.
  intros Hp Hm. unfold zero_in. apply filter_perm_ext; [|exact Hp].
  intro n. f_equal. apply existsb_same_members; [|exact Hm].
  intro x. f_equal. apply nmem_perm. exact Hp.
Qed.

Lemma peel_perm rem rem' (e e' : list (node * node)) :
  Permutation rem rem' -> (forall x, In x e <-> In x e') ->
  Permutation (peel rem e) (peel rem' e').
Proof.
  intros Hp Hm. unfold peel. apply filter_perm_ext; [|exact Hp].
  intro n. f_equal. apply nmem_perm. apply zero_in_perm; assumption.
Qed.

Lemma gens_perm_listing fuel : forall rem rem' (e e' : list (node * node)),
  Permutation rem rem' -> (forall x, In x e <-> In x e') ->
  match gens fuel rem e, gens fuel rem' e' with
  | Some gs, Some gs' => Forall2 (@Permutation node) gs gs'
  | None, None => True
  | _, _ => False
  end.
Proof.
  induction fuel as [|f IH]; intros rem rem' e e' Hp Hm.
  - destruct rem as [|x r].
    + apply Permutation_nil in Hp. subst. simpl. constructor.
    + destruct rem' as [|y r'].
      * apply Permutation_sym in Hp. apply Permutation_nil in Hp. discriminate.
      * simpl. exact I.
  - destruct rem as [|x r].
    + apply Permutation_nil in Hp. subst. simpl. constructor.
    + destruct rem' as [|y r'].
      * apply Permutation_sym in Hp. apply Permutation_nil in Hp. discriminate.
      * rewrite !gens_S.
        pose proof (zero_in_perm _ _ _ _ Hp Hm) as Hz.
        pose proof (peel_perm _ _ _ _ Hp Hm) as Hpe.
        specialize (IH _ _ _ _ Hpe Hm).
        destruct (zero_in (x :: r) e) as [|z0 z] eqn:Z.
        { apply Permutation_nil in Hz. rewrite Hz. exact I. }
        destruct (zero_in (y :: r') e') as [|z0' z'] eqn:Z'.
        { apply Permutation_sym in Hz. apply Permutation_nil in Hz. discriminate. }
        destruct (gens f (peel (x :: r) e) e) as [gs|];
          destruct (gens f (peel (y :: r') e') e') as [gs'|]; try exact IH.
        constructor; [exact Hz|exact IH].
Qed.

(* the generations of permuted listings are permutations of each other, level by level (and fail together) *)
Theorem generations_perm (g g' : sgraph) :
  NoDup (gnodes g) -> Permutation (gnodes g) (gnodes g') ->
  (forall e, In e (gedges g) <-> In e (gedges g')) ->
  match generations g, generations g' with
  | Some gs, Some gs' => Forall2 (@Permutation node) gs gs'
  | None, None => True
  | _, _ => False
  end.
Proof.
  intros _ Hp Hm. unfold generations.
  rewrite <- (Permutation_length Hp). apply gens_perm_listing; assumption.
Qed.

(* ---------- layers ---------- *)
Lemma NoDup_concat_each {A} (ls : list (list A)) : NoDup (concat ls) -> Forall (@NoDup A) ls.
Proof.
  induction ls as [|l r IH]; simpl; intro H; constructor.
  - clear IH. induction l as [|a l IHl]; [constructor|].
    simpl in H. inversion H as [|? ? Hna Hnd]; subst. constructor.
    + intro Hin. apply Hna. apply in_or_app. left. exact Hin.
    + apply IHl. exact Hnd.
  - apply IH. apply NoDup_app_tail with l. exact H.
Qed.

Lemma map_nsort_perm gs : forall gs',
  Forall (@NoDup node) gs -> Forall2 (@Permutation node) gs gs' -> map nsort gs = map nsort gs'.
Proof.
  induction gs as [|l r IH]; intros gs' Hnd Hf; inversion Hf; subst; simpl; [reflexivity|].
  inversion Hnd; subst. f_equal.
  - apply nsort_canonical; assumption.
  - apply IH; assumption.
Qed.

(* HEADLINE *)
Theorem layers_listing_order_moot (g g' : sgraph) :
  seq g = seq g' -> NoDup (gnodes g) -> Permutation (gnodes g) (gnodes g') ->
  (forall e, In e (gedges g) <-> In e (gedges g')) ->
  layers g = layers g'.
Proof.
  intros Hs Hnd Hp Hm. unfold layers. rewrite Hs. f_equal.
  pose proof (generations_perm g g' Hnd Hp Hm) as H.
  destruct (generations g) as [gs|] eqn:G; destruct (generations g') as [gs'|]; try contradiction;
    [|reflexivity].
  apply map_nsort_perm; [|exact H].
  apply NoDup_concat_each. unfold generations in G.
  apply (gens_partition _ _ _ _ Hnd G).
Qed.

(* hence the step phase: same invocations with the same states in the same order, same final state *)
Theorem run_phase_listing_order_moot (Sg U : Type) (step_fn : node -> Sg -> U)
        (apply1 : Sg -> list node -> node -> U -> Sg * list node) (g g' : sgraph) s live :
  seq g = seq g' -> NoDup (gnodes g) -> Permutation (gnodes g) (gnodes g') ->
  (forall e, In e (gedges g) <-> In e (gedges g')) ->
  run_phase Sg U step_fn apply1 g s live = run_phase Sg U step_fn apply1 g' s live.
Proof.
  intros Hs Hnd Hp Hm. unfold run_phase.
  rewrite (layers_listing_order_moot g g' Hs Hnd Hp Hm). reflexivity.
Qed.

(* non-vacuity: a diamond listed in two orders *)
Example diamond_two_listings :
  let a := [Dn 1%N] in let b := [Dn 2%N] in let c := [Dn 3%N] in let d := [Dn 4%N] in
  layers {| seq := []; gnodes := [a; b; c; d]; gedges := [(a, b); (a, c); (b, d); (c, d)] |} =
  layers {| seq := []; gnodes := [d; c; b; a]; gedges := [(c, d); (b, d); (a, c); (a, b)] |} /\
  layers {| seq := []; gnodes := [a; b; c; d]; gedges := [(a, b); (a, c); (b, d); (c, d)] |} = [[a]; [b; c]; [d]].
Proof. vm_compute. split; reflexivity. Qed.

Print Assumptions layers_listing_order_moot.
Print Assumptions run_phase_listing_order_moot.
Print Assumptions nsort_canonical.
Print Assumptions generations_perm.
