(* C10, continued: the engine's STEP table follows the hierarchy through every structural operation,
   division keeps both tables consistent, and the invariant
       consistent_procs t b /\ consistent_steps t b
   is preserved by every single-operation update (consistent_op) and by any history of them
   (consistent_history).

   Layout:
     1. lists, `pset` folds
     2. the step table after Engine.apply_update (book_apply_steps_eq / book_apply_steps / _nodup)
     3. a uniform description of what an operation does to the process nodes of the tree
        (node_change) and of how its reports fit that change (reports_fit); the two generic
        consistency lemmas consistent_procs_generic / consistent_steps_generic
     4. the description for each operation (the op_change lemmas), the per-operation reports_steps
        and consistent_steps theorems, division
     5. well-formedness is preserved (apply_op_cwf), consistent_op, consistent_history
     6. counterexamples on concrete kits *)
From Coq Require Import List NArith ZArith Bool Lia.
From Viv Require Import Base.Assoc Base.Tree Model.Paths Model.Steps Model.Struct Model.StructC
  Proofs.Struct_proofs Proofs.Consistent_proofs Proofs.MoveP_proofs.
Import ListNotations.

(* ================= 1. lists ================= *)
Lemma path_eq_dec (p q : list key) : {p = q} + {p <> q}.
Proof. apply (list_eq_dec N.eq_dec). Qed.

Lemma nodup_fst_functional {A B} (l : list (A * B)) p a b :
  NoDup (map fst l) -> In (p, a) l -> In (p, b) l -> a = b.
Proof.
  induction l as [|[p0 a0] l IH]; cbn [map fst In]; intros Hnd Ha Hb; [destruct Ha|].
  inversion Hnd as [|? ? Hx Hnd']; subst.
  destruct Ha as [Ha|Ha]; destruct Hb as [Hb|Hb].
  - inversion Ha; inversion Hb; subst. reflexivity.
  - inversion Ha; subst. exfalso. apply Hx. change p with (fst (p, b)). apply in_map. exact Hb.
  - inversion Hb; subst. exfalso. apply Hx. change p with (fst (p, a)). apply in_map. exact Ha.
  - apply (IH Hnd' Ha Hb).
Qed.

Lemma filter_filter_impl {A} (f g : A -> bool) l :
  (forall x, In x l -> f x = true -> g x = true) -> filter f (filter g l) = filter f l.
Proof.
  induction l as [|x l IH]; intros H; [reflexivity|]. cbn [filter].
  assert (IH' : filter f (filter g l) = filter f l) by (apply IH; intros y Hy; apply H; right; exact Hy).
  destruct (g x) eqn:Eg; cbn [filter].
  - rewrite IH'. reflexivity.
  - destruct (f x) eqn:Ef; [|exact IH']. rewrite (H x (or_introl eq_refl) Ef) in Eg. discriminate Eg.
Qed.

Lemma filter_flat_map {A B} (f : B -> bool) (g : A -> list B) l :
  filter f (flat_map g l) = flat_map (fun x => filter f (g x)) l.
Proof.
  induction l as [|x l IH]; [reflexivity|]. cbn [flat_map]. rewrite filter_app, IH. reflexivity.
Qed.

Lemma filter_idem {A} (f : A -> bool) l : filter f (filter f l) = filter f l.
Proof. apply filter_filter_impl. intros x _ H. exact H. Qed.

(* ---- pset ---- *)
Lemma kpath_eqb_refl p : kpath_eqb p p = true.
Proof.
  induction p as [|x p IH]; [reflexivity|].
  change (kpath_eqb (x :: p) (x :: p)) with (N.eqb x x && kpath_eqb p p).
  rewrite N.eqb_refl, IH. reflexivity.
Qed.

Lemma pset_keys {A} (l : list (list key * A)) p a :
  map fst (pset l p a) = if in_dec path_eq_dec p (map fst l) then map fst l else map fst l ++ [p].
Proof.
  induction l as [|[q b0] r IH]; cbn [pset map fst]; [reflexivity|].
  destruct (kpath_eqb q p) eqn:E.
  - apply kpath_eqb_eq in E. subst q. cbn [map fst].
    destruct (in_dec path_eq_dec p (p :: map fst r)) as [_|Hn]; [reflexivity|].
    exfalso. apply Hn. left. reflexivity.
  - cbn [map fst]. rewrite IH.
    destruct (in_dec path_eq_dec p (map fst r)) as [Hi|Hn];
      destruct (in_dec path_eq_dec p (q :: map fst r)) as [Hi'|Hn']; try reflexivity.
    + exfalso. apply Hn'. right. exact Hi.
    + exfalso. destruct Hi' as [Hq|Hi']; [|exact (Hn Hi')]. subst q. rewrite kpath_eqb_refl in E.
      discriminate E.
Qed.

Lemma pset_nodup {A} (l : list (list key * A)) p a : NoDup (map fst l) -> NoDup (map fst (pset l p a)).
Proof.
  intros Hnd. rewrite pset_keys. destruct (in_dec path_eq_dec p (map fst l)) as [Hi|Hn]; [exact Hnd|].
  apply nodup_app; [exact Hnd|constructor; [intros []|constructor]|].
  intros x Hx [<-|[]]. exact (Hn Hx).
Qed.

Lemma pset_in {A} (l : list (list key * A)) p a q o : NoDup (map fst l) ->
  (In (q, o) (pset l p a) <-> (q = p /\ o = a) \/ (q <> p /\ In (q, o) l)).
Proof.
  induction l as [|[q0 b0] r IH]; cbn [pset map fst In]; intros Hnd.
  - split.
    + intros [H|[]]. inversion H; subst. left. auto.
    + intros [[-> ->]|[_ []]]. left. reflexivity.
  - inversion Hnd as [|? ? Hx Hnd']; subst. destruct (kpath_eqb q0 p) eqn:E.
    + apply kpath_eqb_eq in E. subst q0. cbn [In]. split.
      * intros [H|H]; [inversion H; subst; left; auto|].
        right. split; [|right; exact H]. intros ->. apply Hx. change p with (fst (p, o)).
        apply in_map. exact H.
      * intros [[-> ->]|[Hne [H|H]]]; [left; reflexivity| |right; exact H].
        inversion H; subst. congruence.
    + cbn [In]. rewrite (IH Hnd'). split.
      * intros [H|[H|[Hne H]]]; [|left; exact H|right; split; [exact Hne|right; exact H]].
        inversion H; subst. right. split; [|left; reflexivity].
        intros ->. rewrite kpath_eqb_refl in E. discriminate E.
      * intros [H|[Hne [H|H]]]; [right; left; exact H|left; exact H|right; right; auto].
Qed.

(* registering a list of steps: `_add_step_path` assigns, the last entry for a path wins *)
Definition psetf (acc : list (list key * N)) (pp : list key * pinfo) : list (list key * N) :=
  pset acc (fst pp) (pi_obj (snd pp)).

Lemma psetf_fold_nodup adds : forall l, NoDup (map fst l) -> NoDup (map fst (fold_left psetf adds l)).
Proof.
  induction adds as [|x adds IH]; intros l Hnd; cbn [fold_left]; [exact Hnd|].
  apply IH. unfold psetf. apply pset_nodup. exact Hnd.
Qed.

Lemma psetf_fold_in adds : forall l q o, NoDup (map fst l) ->
  (forall p pi pi', In (p, pi) adds -> In (p, pi') adds -> pi_obj pi = pi_obj pi') ->
  (In (q, o) (fold_left psetf adds l) <->
   (In (q, o) l /\ ~ In q (map fst adds)) \/ exists pi, In (q, pi) adds /\ o = pi_obj pi).
Proof.
  induction adds as [|[p pi] adds IH]; intros l q o Hnd Hfun; cbn [fold_left].
  - cbn [map In]. split; [intros H; left; split; [exact H|intros []]|].
    intros [[H _]|(pi & [] & _)]. exact H.
  - assert (Hfun' : forall p0 pi0 pi', In (p0, pi0) adds -> In (p0, pi') adds -> pi_obj pi0 = pi_obj pi').
    { intros p0 pi0 pi' H1 H2. apply (Hfun p0 pi0 pi'); right; assumption. }
    rewrite (IH (psetf l (p, pi)) q o (pset_nodup l p (pi_obj pi) Hnd) Hfun').
    unfold psetf at 1. cbn [fst snd]. rewrite (pset_in l p (pi_obj pi) q o Hnd). cbn [map fst In]. split.
    + intros [[[[-> ->]|[Hne Hin]] Hnk]|(pi0 & Hin & ->)].
      * right. exists pi. split; [left; reflexivity|reflexivity].
      * left. split; [exact Hin|]. intros [Hq|Hq]; [congruence|exact (Hnk Hq)].
      * right. exists pi0. split; [right; exact Hin|reflexivity].
    + intros [[Hin Hnk]|(pi0 & [Heq|Hin] & ->)].
      * left. split; [|intros Hq; apply Hnk; right; exact Hq].
        right. split; [|exact Hin]. intros ->. apply Hnk. left. reflexivity.
      * inversion Heq; subst p pi0. destruct (in_dec path_eq_dec q (map fst adds)) as [Hi|Hn].
        -- right. apply in_map_iff in Hi. destruct Hi as ([q' pi1] & Hq' & Hi). cbn [fst] in Hq'. subst q'.
           exists pi1. split; [exact Hi|]. apply (Hfun q pi pi1); [left; reflexivity|right; exact Hi].
        -- left. split; [left; auto|exact Hn].
      * right. exists pi0. split; [exact Hin|reflexivity].
Qed.

(* ================= 2. the step table after Engine.apply_update ================= *)
Definition isstep (pp : list key * pinfo) : bool := pi_step (snd pp).

(* what Engine.apply_update files as a step: every Step found among the process updates (pinned Store.move
   reports moved steps there too; Store.insert reports there the Steps that were listed in the `processes`
   dict), then every entry of the step updates, whatever is_step() says.  The flow updates only supply the
   dependencies handed to _add_step_path: they change the graph (and can make it raise), not the table. *)
Definition step_adds (rp : reports) : list (list key * pinfo) := filter isstep (r_process rp) ++ r_step rp.

Lemma add_step_steps bk p pi deps bk' :
  add_step bk p pi deps = Ok bk' -> b_steps bk' = pset (b_steps bk) p (pi_obj pi).
Proof.
  unfold add_step. intros H.
  destruct (add_step_path (b_graph bk) (dn p) deps) as [g0|e]; cbn [rbind] in H; [|discriminate H].
  inversion H; subst. reflexivity.
Qed.

Lemma sfold_steps (G : res book -> list key * pinfo -> res book) (sel : list key * pinfo -> bool) :
  (forall x e, G (Err e) x = Err e) ->
  (forall bk x bk1, G (Ok bk) x = Ok bk1 ->
     b_steps bk1 = if sel x then psetf (b_steps bk) x else b_steps bk) ->
  forall l bk b2, fold_left G l (Ok bk) = Ok b2 ->
    b_steps b2 = fold_left psetf (filter sel l) (b_steps bk).
Proof.
  intros Herr HG. induction l as [|x l IH]; intros bk b2 H.
  - cbn in H. inversion H; subst. reflexivity.
  - cbn [fold_left] in H. destruct (G (Ok bk) x) as [bk1|e] eqn:E;
      [|rewrite (fold_err G Herr) in H; discriminate H].
    rewrite (IH bk1 b2 H), (HG bk x bk1 E). cbn [filter]. destruct (sel x); reflexivity.
Qed.

(* the table after a report, explicitly and without any premise *)
Theorem book_apply_steps_eq b rp b' :
  book_apply b rp = Ok b' ->
  b_steps b' = fold_left pdrop (r_deletions rp) (fold_left psetf (step_adds rp) (b_steps b)).
Proof.
  unfold book_apply. intros H.
  match type of H with rbind ?X _ = _ => destruct X as [b2|?] eqn:E2; cbn [rbind] in H; [|discriminate H] end.
  match type of H with rbind ?X _ = _ => destruct X as [b3|?] eqn:E3; cbn [rbind] in H; [|discriminate H] end.
  inversion H as [Hb']; clear H.
  assert (H2 : b_steps b2 = fold_left psetf (filter isstep (r_process rp)) (b_steps b)).
  { refine (sfold_steps _ isstep _ _ _ _ _ E2).
    - reflexivity.
    - intros bk x bk1 Hg. cbn [rbind] in Hg. unfold isstep. destruct (pi_step (snd x)).
      + apply add_step_steps in Hg. exact Hg.
      + inversion Hg; subst. reflexivity. }
  assert (H3 : b_steps b3 = fold_left psetf (filter (fun _ => true) (r_step rp)) (b_steps b2)).
  { refine (sfold_steps _ (fun _ => true) _ _ _ _ _ E3).
    - reflexivity.
    - intros bk x bk1 Hg. cbn [rbind] in Hg. apply add_step_steps in Hg. exact Hg. }
  rewrite dfold_steps by reflexivity. rewrite H3, H2. unfold step_adds. rewrite fold_left_app.
  f_equal. f_equal. clear. induction (r_step rp) as [|x l IH]; [reflexivity|]. cbn [filter]. rewrite IH. reflexivity.
Qed.

(* which steps are registered: those of the table that are neither overwritten nor deleted, and the reported
   ones (two reports of one path must agree on the object: then the order does not matter), unless they lie
   under a deletion of the same report *)
Theorem book_apply_steps b rp b' q o : NoDup (map fst (b_steps b)) ->
  (forall p pi pi', In (p, pi) (step_adds rp) -> In (p, pi') (step_adds rp) -> pi_obj pi = pi_obj pi') ->
  book_apply b rp = Ok b' ->
  (In (q, o) (b_steps b') <->
   ((In (q, o) (b_steps b) /\ ~ In q (map fst (step_adds rp))) \/
    exists pi, In (q, pi) (step_adds rp) /\ o = pi_obj pi) /\
   forall d, In d (r_deletions rp) -> starts_with q d = false).
Proof.
  intros Hnd Hfun H. rewrite (book_apply_steps_eq b rp b' H), pdrop_fold_in.
  rewrite (psetf_fold_in (step_adds rp) (b_steps b) q o Hnd Hfun). reflexivity.
Qed.

(* the table keeps one entry per path: no premise on the report *)
Theorem book_apply_steps_nodup b rp b' : NoDup (map fst (b_steps b)) ->
  book_apply b rp = Ok b' -> NoDup (map fst (b_steps b')).
Proof.
  intros Hnd H. rewrite (book_apply_steps_eq b rp b' H).
  apply nodup_pdrop_fold. apply psetf_fold_nodup. exact Hnd.
Qed.

(* ================= 3. what an operation does to the process nodes; how its reports fit ================= *)
Lemma in_step_paths t q o :
  In (q, o) (step_paths t) <->
  exists pi, In (q, pi) (proc_nodes t []) /\ pi_step pi = true /\ o = pi_obj pi.
Proof.
  unfold step_paths. rewrite in_flat_map. split.
  - intros ([q' pi] & Hin & Hq). cbn [fst snd] in Hq. destruct (pi_step pi) eqn:Es; [|destruct Hq].
    destruct Hq as [Hq|[]]. inversion Hq; subst. exists pi. auto.
  - intros (pi & Hin & Hs & ->). exists (q, pi). split; [exact Hin|]. cbn [fst snd]. rewrite Hs.
    left. reflexivity.
Qed.

(* the process nodes (processes and steps alike) of t' are those of t and the new ones, outside the deleted
   subtrees (Engine.apply_update too registers first and deletes last) *)
Definition node_change (t t' : cnode) (dels : list (list key)) (news : list (list key * pinfo)) : Prop :=
  forall q pi, In (q, pi) (proc_nodes t' []) <->
    (In (q, pi) (proc_nodes t []) \/ In (q, pi) news) /\ forall d, In d dels -> starts_with q d = false.

(* the new nodes sit at pairwise distinct paths that hold no process node of t; the non-step ones are the
   non-step process updates (in that order), the steps are what the engine files as steps *)
Definition reports_fit (t : cnode) (rp : reports) (news : list (list key * pinfo)) : Prop :=
  NoDup (map fst news) /\
  (forall q pi, In (q, pi) news -> forall pi0, ~ In (q, pi0) (proc_nodes t [])) /\
  filter nonstep (r_process rp) = filter nonstep news /\
  (forall q pi, In (q, pi) (step_adds rp) <-> In (q, pi) news /\ pi_step pi = true).

Lemma in_filter_nonstep l q pi : In (q, pi) (filter nonstep l) <-> In (q, pi) l /\ pi_step pi = false.
Proof. rewrite filter_In. unfold nonstep. cbn [snd]. rewrite negb_true_iff. reflexivity. Qed.

Lemma in_filter_isstep l q pi : In (q, pi) (filter isstep l) <-> In (q, pi) l /\ pi_step pi = true.
Proof. rewrite filter_In. unfold isstep. cbn [snd]. reflexivity. Qed.

Lemma consistent_procs_generic t t' b b' rp news :
  consistent_procs t b -> node_change t t' (r_deletions rp) news -> reports_fit t rp news ->
  book_apply b rp = Ok b' -> consistent_procs t' b'.
Proof.
  intros [Hss Hnd] Hch (Hnn & Hfresh & Hpr & _) Hb.
  assert (Hin_r : forall p pi, In (p, pi) (r_process rp) -> pi_step pi = false -> In (p, pi) news).
  { intros p pi Hin Hs.
    assert (H : In (p, pi) (filter nonstep (r_process rp))) by (apply in_filter_nonstep; auto).
    rewrite Hpr in H. apply in_filter_nonstep in H. destruct H as [H _]. exact H. }
  assert (H3 : NoDup (map fst (filter (fun pp => negb (pi_step (snd pp))) (r_process rp)))).
  { change (NoDup (map fst (filter nonstep (r_process rp)))). rewrite Hpr. apply nodup_map_filter. exact Hnn. }
  assert (H4 : forall p pi, In (p, pi) (r_process rp) -> pi_step pi = false -> ~ In p (map fst (b_procs b))).
  { intros p pi Hin Hs Hin'. apply in_map_iff in Hin'. destruct Hin' as ([p' o] & Heq & Hin').
    cbn [fst] in Heq. subst p'. apply Hss in Hin'. apply in_proc_paths in Hin'.
    destruct Hin' as (pi0 & Hin0 & _). apply (Hfresh p pi (Hin_r p pi Hin Hs) pi0 Hin0). }
  split; [|apply (book_apply_nodup b rp b' Hnd H3 H4 Hb)].
  intros [q o]. rewrite (book_apply_procs_eq b rp b' H3 H4 Hb), Hpr.
  rewrite pdrop_fold_in, in_app_iff, in_map_iff, in_proc_paths. split.
  - intros [[Hin|([p pi] & Heq & Hin)] Hd].
    + apply Hss in Hin. apply in_proc_paths in Hin. destruct Hin as (pi & Hin & Hs & Ho).
      exists pi. split; [|auto]. apply Hch. auto.
    + unfold entry in Heq. cbn [fst snd] in Heq. inversion Heq; subst p o.
      apply in_filter_nonstep in Hin. destruct Hin as [Hin Hs]. exists pi. split; [|auto]. apply Hch. auto.
  - intros (pi & Hin & Hs & Ho). apply Hch in Hin. destruct Hin as [[Hin|Hin] Hd]; (split; [|exact Hd]).
    + left. apply Hss. apply in_proc_paths. exists pi. auto.
    + right. exists (q, pi). split; [unfold entry; cbn [fst snd]; rewrite Ho; reflexivity|].
      apply in_filter_nonstep. auto.
Qed.

Lemma consistent_steps_generic t t' b b' rp news :
  consistent_steps t b -> node_change t t' (r_deletions rp) news -> reports_fit t rp news ->
  book_apply b rp = Ok b' -> consistent_steps t' b'.
Proof.
  intros [Hss Hnd] Hch (Hnn & Hfresh & _ & Hst) Hb.
  split; [|apply (book_apply_steps_nodup b rp b' Hnd Hb)].
  assert (Hfun : forall p pi pi', In (p, pi) (step_adds rp) -> In (p, pi') (step_adds rp) -> pi_obj pi = pi_obj pi').
  { intros p pi pi' H1 H2. apply Hst in H1. apply Hst in H2. destruct H1 as [H1 _]. destruct H2 as [H2 _].
    rewrite (nodup_fst_functional news p pi pi' Hnn H1 H2). reflexivity. }
  intros [q o]. rewrite (book_apply_steps b rp b' q o Hnd Hfun Hb), in_step_paths. split.
  - intros [[[Hin Hnk]|(pi & Hin & Ho)] Hd].
    + apply Hss in Hin. apply in_step_paths in Hin. destruct Hin as (pi & Hin & Hs & Ho).
      exists pi. split; [|auto]. apply Hch. auto.
    + apply Hst in Hin. destruct Hin as [Hin Hs]. exists pi. split; [|auto]. apply Hch. auto.
  - intros (pi & Hin & Hs & Ho). apply Hch in Hin. destruct Hin as [[Hin|Hin] Hd]; (split; [|exact Hd]).
    + left. split; [apply Hss; apply in_step_paths; exists pi; auto|].
      intros Hk. apply in_map_iff in Hk. destruct Hk as ([q' pi1] & Hq' & Hk). cbn [fst] in Hq'. subst q'.
      apply Hst in Hk. destruct Hk as [Hk _]. apply (Hfresh q pi1 Hk pi Hin).
    + right. exists pi. split; [|exact Ho]. apply Hst. auto.
Qed.

(* the same, read as "the reports describe exactly how the two sets changed" *)
Lemma change_proc_paths t t' rp news q o :
  node_change t t' (r_deletions rp) news -> reports_fit t rp news ->
  (In (q, o) (proc_paths t') <->
   (In (q, o) (proc_paths t) \/ exists pi, In (q, pi) (r_process rp) /\ pi_step pi = false /\ o = pi_obj pi) /\
   forall d, In d (r_deletions rp) -> starts_with q d = false).
Proof.
  intros Hch (_ & _ & Hpr & _). rewrite !in_proc_paths.
  assert (Hiff : forall pi, In (q, pi) (r_process rp) /\ pi_step pi = false <-> In (q, pi) news /\ pi_step pi = false).
  { intros pi. rewrite <- !in_filter_nonstep, Hpr. reflexivity. }
  split.
  - intros (pi & Hin & Hs & Ho). apply Hch in Hin. destruct Hin as [[Hin|Hin] Hd]; (split; [|exact Hd]).
    + left. exists pi. auto.
    + right. exists pi. destruct (proj2 (Hiff pi) (conj Hin Hs)) as [H _]. auto.
  - intros [[(pi & Hin & Hs & Ho)|(pi & Hin & Hs & Ho)] Hd]; exists pi; (split; [|auto]); apply Hch.
    + auto.
    + destruct (proj1 (Hiff pi) (conj Hin Hs)) as [H _]. auto.
Qed.

Lemma change_step_paths t t' rp news q o :
  node_change t t' (r_deletions rp) news -> reports_fit t rp news ->
  (In (q, o) (step_paths t') <->
   (In (q, o) (step_paths t) \/ exists pi, In (q, pi) (step_adds rp) /\ o = pi_obj pi) /\
   forall d, In d (r_deletions rp) -> starts_with q d = false).
Proof.
  intros Hch (_ & _ & _ & Hst). rewrite !in_step_paths. split.
  - intros (pi & Hin & Hs & Ho). apply Hch in Hin. destruct Hin as [[Hin|Hin] Hd]; (split; [|exact Hd]).
    + left. exists pi. auto.
    + right. exists pi. split; [apply Hst; auto|exact Ho].
  - intros [[(pi & Hin & Hs & Ho)|(pi & Hin & Ho)] Hd].
    + exists pi. split; [|auto]. apply Hch. auto.
    + apply Hst in Hin. destruct Hin as [Hin Hs]. exists pi. split; [|auto]. apply Hch. auto.
Qed.

(* new nodes below a path that does not exist in t are fresh *)
Lemma fresh_under t root n : cwf t -> cget t root = None ->
  forall q pi, In (q, pi) (proc_nodes n root) -> forall pi0, ~ In (q, pi0) (proc_nodes t []).
Proof.
  intros Hw Hnone q pi Hin pi0 Hin0. apply reported_under in Hin.
  rewrite (no_proc_under t root q pi0 Hw Hnone Hin0) in Hin. discriminate Hin.
Qed.

(* the common shape of the reports of move / divide: split by is_step() *)
Lemma step_adds_split l rp : (forall x, In x (r_process rp) -> In x l) ->
  r_step rp = filter isstep l ->
  forall q pi, In (q, pi) (step_adds rp) <-> In (q, pi) l /\ pi_step pi = true.
Proof.
  intros Hps Hst q pi. unfold step_adds. rewrite in_app_iff, Hst. split.
  - intros [H|H]; [|apply in_filter_isstep; exact H].
    apply in_filter_isstep in H. destruct H as [H Hs]. split; [apply Hps; exact H|exact Hs].
  - intros H. right. apply in_filter_isstep. exact H.
Qed.

Lemma filter_isstep_nonstep l : filter isstep (filter nonstep l) = [].
Proof.
  induction l as [|x l IH]; [reflexivity|]. cbn [filter]. unfold nonstep at 1.
  destruct (pi_step (snd x)) eqn:E; cbn [negb filter]; [exact IH|].
  unfold isstep at 1. rewrite E. exact IH.
Qed.

(* when the process updates hold no Step (repaired Store.move, nested move, divide), what the engine files as
   steps is exactly the step updates *)
Lemma step_adds_no_steps rp l : r_process rp = filter nonstep l -> step_adds rp = r_step rp.
Proof. intros H. unfold step_adds. rewrite H, filter_isstep_nonstep. reflexivity. Qed.

Lemma reports_fit_nil t rp : r_process rp = [] -> r_step rp = [] -> reports_fit t rp [].
Proof.
  intros Hp Hs. unfold reports_fit, step_adds. rewrite Hp, Hs. cbn [filter app map].
  split; [constructor|]. split; [intros q pi []|]. split; [reflexivity|].
  intros q pi. split; [intros []|intros [[] _]].
Qed.

(* ---- the elementary tree surgeries as node changes ---- *)
Lemma node_change_refl t : node_change t t [] [].
Proof.
  intros q pi. split; [intros H; split; [left; exact H|intros d []]|intros [[H|[]] _]; exact H].
Qed.

Lemma cset_fresh_change t root n t' : cwf t -> root <> [] -> cget t root = None -> cset t root n = Ok t' ->
  node_change t t' [] (proc_nodes n root).
Proof.
  intros Hw Hne Hnone Hc q pi. rewrite (proc_nodes_cset_strong t root n t' q pi Hw Hne Hc). split.
  - intros [[_ H]|H]; (split; [|intros d []]); [left; exact H|right; exact H].
  - intros [[H|H] _]; [left; split; [apply (no_proc_under t root q pi Hw Hnone H)|exact H]|right; exact H].
Qed.

Lemma cdel_change t p t' : cwf t -> p <> [] -> cdel t p = Ok t' -> node_change t t' [p] [].
Proof.
  intros Hw Hne Hd q pi. rewrite (proc_nodes_cdel t p t' q pi Hw Hne Hd). split.
  - intros [Hs H]. split; [left; exact H|]. intros d [<-|[]]. exact Hs.
  - intros [[H|[]] Hs]. split; [apply Hs; left; reflexivity|exact H].
Qed.

Lemma node_change_app t t1 t2 n1 n2 :
  node_change t t1 [] n1 -> node_change t1 t2 [] n2 -> node_change t t2 [] (n1 ++ n2).
Proof.
  intros H1 H2 q pi. rewrite (H2 q pi), (H1 q pi), in_app_iff. split.
  - intros [[[[H|H] _]|H] _]; (split; [|intros d []]); auto.
  - intros [[H|[H|H]] _]; (split; [|intros d []]); [left; split; [left; exact H|intros d []]
                                                   |left; split; [right; exact H|intros d []]|right; exact H].
Qed.

(* a successful write below p needs p *)
Lemma cset_parent_exists p : forall t r n t', cset t (p ++ r) n = Ok t' -> r <> [] -> cget t p <> None.
Proof.
  induction p as [|k p IH]; intros t r n t' H Hr; [discriminate|].
  cbn [app] in H. apply cset_shape in H. destruct H as (u & g & c & x & -> & _ & Hc).
  rewrite cget_cons. destruct Hc as [[Hnil _]|[_ (ch & Hl & Hs)]].
  - apply app_eq_nil in Hnil. destruct Hnil as [_ Hnil]. congruence.
  - rewrite Hl. apply (IH ch r n x Hs Hr).
Qed.

(* ================= 3b. a plain value update below a child (cadd) ================= *)
Ltac dresc H a E :=
  match type of H with
  | rbind ?X _ = _ => destruct X as [a|?] eqn:E; cbn [rbind] in H; [|discriminate H]
  | (match ?X with _ => _ end) = _ => destruct X as [a|?] eqn:E; cbn [rbind] in H; [|discriminate H]
  end.

Lemma cuids_dir u g c : cuids (CDir u g c) = u :: flat_map (fun kv => cuids (snd kv)) c.
Proof.
  cbn [cuids cuid]. f_equal. induction c as [|[k ch] r IH]; [reflexivity|].
  cbn [flat_map snd]. rewrite IH. reflexivity.
Qed.

(* the update touches values only: the node keeps its uid, the subtree keeps all its uids (in order), its
   process nodes (as a list, whatever the prefix) and its well-formedness *)
Lemma cadd_keeps fuel : forall n v n', cadd fuel n v = Ok n' ->
  cuid n' = cuid n /\ cuids n' = cuids n /\ (forall pre, proc_nodes n' pre = proc_nodes n pre) /\
  (cwf n -> cwf n').
Proof.
  induction fuel as [|f IH]; intros n v n' H; [discriminate H|].
  destruct n as [u z d|u pi|u g c]; destruct v as [dz|vc]; cbn [cadd] in H; try discriminate H;
    try (inversion H; subst; repeat split; solve [reflexivity|intros _; constructor|auto]).
  dresc H c' E. inversion H; subst n'.
  assert (HI : akeys c' = akeys c /\
               flat_map (fun kv => cuids (snd kv)) c' = flat_map (fun kv => cuids (snd kv)) c /\
               (forall pre, flat_map (fun kv => proc_nodes (snd kv) (pre ++ [fst kv])) c' =
                            flat_map (fun kv => proc_nodes (snd kv) (pre ++ [fst kv])) c) /\
               (Forall (fun kv => cwf (snd kv)) c -> Forall (fun kv => cwf (snd kv)) c')).
  { refine (rfold_inv _ (fun c' => akeys c' = akeys c /\
               flat_map (fun kv => cuids (snd kv)) c' = flat_map (fun kv => cuids (snd kv)) c /\
               (forall pre, flat_map (fun kv => proc_nodes (snd kv) (pre ++ [fst kv])) c' =
                            flat_map (fun kv => proc_nodes (snd kv) (pre ++ [fst kv])) c) /\
               (Forall (fun kv => cwf (snd kv)) c -> Forall (fun kv => cwf (snd kv)) c'))
                      _ _ _ E _ _ _).
    - reflexivity.
    - intros c0 [k x] a1 Hg (Hk & Hu & Hp & Hw). cbn [rbind fst snd] in Hg.
      destruct (alookup k c0) as [ch|] eqn:El.
      + dresc Hg ch' Ea. inversion Hg; subst a1.
        destruct (IH ch x ch' Ea) as (_ & Hus & Hps & Hws).
        split; [rewrite <- Hk; apply akeys_aset_in; congruence|].
        split; [rewrite <- Hu; apply (flat_map_aset_same _ k ch' ch c0 El); cbn [snd]; exact Hus|].
        split.
        * intros pre. rewrite <- (Hp pre). apply (flat_map_aset_same _ k ch' ch c0 El). cbn [fst snd].
          apply Hps.
        * intros Hall. specialize (Hw Hall). apply Forall_aset; [|exact Hw]. intros k0. cbn [snd].
          apply Hws. rewrite Forall_forall in Hw. apply (Hw (k, ch) (alookup_In _ _ _ El)).
      + inversion Hg; subst a1. auto.
    - auto. }
  destruct HI as (Hk & Hu & Hp & Hw).
  split; [reflexivity|]. split; [rewrite !cuids_dir, Hu; reflexivity|].
  split; [intros pre; rewrite !proc_nodes_dir; apply Hp|].
  intros Hwf. inversion Hwf as [| |? ? ? Hnd Hall]; subst. constructor; [rewrite Hk; exact Hnd|auto].
Qed.

Theorem cadd_cuid fuel n v n' : cadd fuel n v = Ok n' -> cuid n' = cuid n.
Proof. intros H. apply (cadd_keeps fuel n v n' H). Qed.

(* every node's uid, in traversal order *)
Theorem cadd_cuids fuel n v n' : cadd fuel n v = Ok n' -> cuids n' = cuids n.
Proof. intros H. apply (cadd_keeps fuel n v n' H). Qed.

(* no process, no step is created or removed: the process nodes are the same list *)
Theorem cadd_procs fuel n v n' : cadd fuel n v = Ok n' -> forall pre, proc_nodes n' pre = proc_nodes n pre.
Proof. intros H. apply (cadd_keeps fuel n v n' H). Qed.

Theorem cadd_cwf fuel n v n' : cwf n -> cadd fuel n v = Ok n' -> cwf n'.
Proof. intros Hw H. apply (cadd_keeps fuel n v n' H). exact Hw. Qed.

(* the process nodes of the subtree at p are those of the tree below p *)
Lemma proc_nodes_sub t p ch q pi : cwf t -> cget t p = Some ch ->
  (In (q, pi) (proc_nodes ch p) <-> starts_with q p = true /\ In (q, pi) (proc_nodes t [])).
Proof.
  intros Hw Hg. pose proof (cwf_cget t p ch Hw Hg) as Hwc. split.
  - intros Hin. destruct (proc_nodes_prefix _ _ _ _ Hin) as (r & ->). split; [apply starts_with_app|].
    apply (proc_nodes_cget ch p r pi Hwc) in Hin. destruct Hin as (u & Hc).
    apply (proc_nodes_cget t [] (p ++ r) pi Hw). exists u. rewrite cget_app, Hg. exact Hc.
  - intros [Hsw Hin]. apply sw_true_iff in Hsw. destruct Hsw as (r & ->).
    apply (proc_nodes_cget t [] (p ++ r) pi Hw) in Hin. destruct Hin as (u & Hc).
    rewrite cget_app, Hg in Hc. apply (proc_nodes_cget ch p r pi Hwc). exists u. exact Hc.
Qed.

(* replacing a subtree by one with the same process nodes changes no process node of the tree *)
Lemma cset_same_procs_change t p ch ch' t' : cwf t -> p <> [] -> cget t p = Some ch ->
  (forall pre, proc_nodes ch' pre = proc_nodes ch pre) -> cset t p ch' = Ok t' -> node_change t t' [] [].
Proof.
  intros Hw Hne Hg Hp Hc q pi.
  rewrite (proc_nodes_cset_strong t p ch' t' q pi Hw Hne Hc), Hp, (proc_nodes_sub t p ch q pi Hw Hg). split.
  - intros [[_ H]|[_ H]]; (split; [left; exact H|intros d []]).
  - intros [[H|[]] _]. destruct (starts_with q p); [right|left]; auto.
Qed.

(* ================= 4. the operations ================= *)
Section Kit2.
Variable mk_child : N -> cnode * N.
Variable D : Type.
Variable build : D -> N -> cnode * N.
Variable copy_procs : cnode -> N -> cnode * N.

(* the premises on the kit; each theorem below depends only on those it uses (see the Check list in the report) *)
(* a glob's sub-schema instance contains variables only, and is well-formed *)
Hypothesis mk_child_no_procs : forall u, proc_nodes (fst (mk_child u)) [] = [].
Hypothesis mk_child_cwf : forall u, cwf (fst (mk_child u)).
(* what Store.generate builds is well-formed; whatever it lists in a `steps` dict is a Step.  The converse
   (every Step is listed in `steps`) is NOT needed: a Step listed under `processes` is reported as a process
   and Engine.apply_update files it by is_step() *)
Hypothesis build_cwf : forall x n, cwf (fst (build x n)).
Hypothesis build_steps : forall x n p pi,
  In (p, pi) (proc_nodes (fst (build x n)) []) -> pi_in_steps pi = true -> pi_step pi = true.
(* the copy an inheriting daughter gets of a well-formed mother is well-formed *)
Hypothesis copy_cwf : forall m n, cwf m -> cwf (fst (copy_procs m n)).

Notation apply_opv vr := (apply_op mk_child D build copy_procs vr).

Ltac dres H a E :=
  match type of H with
  | rbind ?X _ = _ => destruct X as [a|?] eqn:E; cbn [rbind] in H; [|discriminate H]
  | (match ?X with _ => _ end) = _ => destruct X as [a|?] eqn:E; cbn [rbind] in H; [|discriminate H]
  end.

Ltac open_op H Hd :=
  let u := fresh "u" in let g := fresh "g" in let c := fresh "c" in
  destruct (apply_op_dir mk_child D build copy_procs _ _ _ _ _ _ H) as (u & g & c & Hd);
  unfold apply_op, dir_at in H; rewrite Hd in H; cbn [rbind] in H.

(* ---- Store.set_value keeps well-formedness ---- *)
Lemma set_value_cwf fuel : forall n v uid r, cwf n ->
  set_value mk_child fuel n v uid = Ok r -> cwf (fst r).
Proof.
  induction fuel as [|f IH]; intros n v uid r Hw H; [discriminate H|].
  destruct n as [u z d|u pi|u g c]; destruct v as [z'|vc]; cbn [set_value] in H;
    try discriminate H; try (inversion H; subst; cbn [fst]; solve [constructor|exact Hw]).
  dres H cu E. inversion H; subst r. cbn [fst].
  inversion Hw as [| |? ? ? Hnd Hall]; subst.
  assert (HI : NoDup (akeys (fst cu)) /\ Forall (fun kv => cwf (snd kv)) (fst cu)).
  { refine (rfold_inv _ (fun cu => NoDup (akeys (fst cu)) /\ Forall (fun kv => cwf (snd kv)) (fst cu))
                      _ _ _ E _ _ (conj Hnd Hall)).
    - reflexivity.
    - intros [c0 u0] [k x] a1 Hg [Hn0 Ha0]. cbn [rbind fst snd] in Hg, Hn0, Ha0.
      destruct (alookup k c0) as [ch|] eqn:El.
      + dres Hg r0 Es. inversion Hg; subst a1. cbn [fst]. split; [apply aset_nodup; exact Hn0|].
        apply Forall_aset; [|exact Ha0]. intros k0. cbn [snd].
        apply (IH ch x u0 r0 (cwf_child 0%N false c0 k ch (cwf_dir 0%N false c0 Hn0 Ha0) El) Es).
      + destruct g.
        * destruct (mk_child u0) as [ch u1] eqn:Em. dres Hg r0 Es. inversion Hg; subst a1. cbn [fst].
          split; [apply aset_nodup; exact Hn0|]. apply Forall_aset; [|exact Ha0]. intros k0. cbn [snd].
          apply (IH ch x u1 r0); [|exact Es]. pose proof (mk_child_cwf u0) as Hm. rewrite Em in Hm. exact Hm.
        * inversion Hg; subst a1. cbn [fst]. auto. }
  destruct HI as [H1 H2]. constructor; assumption.
Qed.

(* ---- _delete by key ---- *)
Lemma delete_inv3 vr t here k uid t' rp uid' :
  apply_opv vr t here (OpDelete D k) uid = Ok (t', rp, uid') ->
  cdel t (here ++ [k]) = Ok t' /\ r_deletions rp = [here ++ [k]] /\ r_process rp = [] /\ r_step rp = [].
Proof. intros H. open_op H Hd. dres H t1 Ec. inversion H; subst. auto. Qed.

Lemma op_change_delete vr t here k uid t' rp uid' : cwf t ->
  apply_opv vr t here (OpDelete D k) uid = Ok (t', rp, uid') ->
  node_change t t' (r_deletions rp) [] /\ reports_fit t rp [].
Proof.
  intros Hw H. apply delete_inv3 in H. destruct H as (Hdl & Hdel & Hp & Hs).
  split; [|apply (reports_fit_nil t rp Hp Hs)].
  rewrite Hdel. apply (cdel_change t _ t' Hw (snoc_not_nil here k) Hdl).
Qed.

(* ---- _delete by path tuple: nothing happens in the current code (K4); with the repair it is a deletion ---- *)
Lemma op_change_deletepath vr t here p uid t' rp uid' : cwf t ->
  apply_opv vr t here (OpDeletePath D p) uid = Ok (t', rp, uid') ->
  node_change t t' (r_deletions rp) [] /\ reports_fit t rp [] /\ cwf t'.
Proof.
  intros Hw H. open_op H Hd. destruct (v_fix_delete_path vr).
  - dres H t1 Ec. inversion H; subst. cbn [r_deletions].
    assert (Hne : here ++ p <> []) by (intros Hnil; rewrite Hnil in Ec; discriminate Ec).
    split; [apply (cdel_change t _ t' Hw Hne Ec)|]. split; [apply reports_fit_nil; reflexivity|].
    apply (cdel_cwf _ _ _ Hw Ec).
  - inversion H; subst. cbn [r_deletions].
    split; [apply node_change_refl|]. split; [apply reports_fit_nil; reflexivity|exact Hw].
Qed.

Lemma deletepath_noop t here p uid t' rp uid' :
  apply_opv vfixed t here (OpDeletePath D p) uid = Ok (t', rp, uid') -> t' = t /\ r_deletions rp = [].
Proof. intros H. open_op H Hd. cbn [vfixed v_fix_delete_path] in H. inversion H; subst. auto. Qed.

(* ---- a plain value update of a child: no process node changes, nothing is reported ---- *)
Lemma op_change_upd vr t here k v uid t' rp uid' : cwf t ->
  apply_opv vr t here (OpUpd D k v) uid = Ok (t', rp, uid') ->
  node_change t t' (r_deletions rp) [] /\ reports_fit t rp [] /\ cwf t'.
Proof.
  intros Hw H. apply (upd_inv mk_child D build copy_procs) in H.
  destruct H as (u & g & c & Hd & Hcase & _ & ->). cbn [r_deletions].
  split; [|split; [apply reports_fit_nil; reflexivity|]].
  - destruct Hcase as [(_ & ->)|(ch & ch' & El & Ea & Ec)]; [apply node_change_refl|].
    apply (cset_same_procs_change t (here ++ [k]) ch ch' t' Hw (snoc_not_nil here k)); [| |exact Ec].
    + rewrite cget_app, Hd, cget_cons, El. reflexivity.
    + apply (cadd_procs _ _ _ _ Ea).
  - destruct Hcase as [(_ & ->)|(ch & ch' & El & Ea & Ec)]; [exact Hw|].
    apply (cset_cwf _ _ _ _ Hw) in Ec; [exact Ec|].
    apply (cadd_cwf _ _ _ _ (cwf_child u g c k ch (cwf_cget t here _ Hw Hd) El) Ea).
Qed.

(* ---- _add: a fresh child without processes ---- *)
Lemma add_inv3 vr t here k st uid t' rp uid' :
  apply_opv vr t here (OpAdd D k st) uid = Ok (t', rp, uid') ->
  exists nd, cget t (here ++ [k]) = None /\ cset t (here ++ [k]) nd = Ok t' /\ cwf nd /\
             (forall pre, proc_nodes nd pre = []) /\
             r_deletions rp = [] /\ r_process rp = [] /\ r_step rp = [].
Proof.
  intros H. open_op H Hd.
  destruct (alookup k c) as [x|] eqn:El; [discriminate H|].
  destruct (if g then mk_child uid else (CDir uid false [], N.succ uid)) as [ch uid1] eqn:Ech.
  dres H r Es. dres H t1 Ec. inversion H; subst. exists (fst r).
  assert (Hch : cwf ch /\ proc_nodes ch [] = []).
  { destruct g.
    - pose proof (mk_child_cwf uid) as Hm1. pose proof (mk_child_no_procs uid) as Hm2.
      rewrite Ech in Hm1, Hm2. auto.
    - inversion Ech; subst. split; [constructor; constructor|reflexivity]. }
  destruct Hch as [Hwc Hpc].
  split; [apply (cget_fresh_child t here u g c k Hd El)|]. split; [exact Ec|].
  split; [apply (set_value_cwf _ _ _ _ _ Hwc Es)|]. split; [|auto].
  intros pre. rewrite (set_value_procs mk_child mk_child_no_procs _ _ _ _ _ Es pre).
  apply proc_nodes_nil_shift. exact Hpc.
Qed.

Lemma op_change_add vr t here k st uid t' rp uid' : cwf t ->
  apply_opv vr t here (OpAdd D k st) uid = Ok (t', rp, uid') ->
  node_change t t' (r_deletions rp) [] /\ reports_fit t rp [].
Proof.
  intros Hw H. apply add_inv3 in H. destruct H as (nd & Hnone & Hc & _ & Hpn & Hdel & Hp & Hs).
  split; [|apply (reports_fit_nil t rp Hp Hs)]. rewrite Hdel.
  pose proof (cset_fresh_change t _ nd t' Hw (snoc_not_nil here k) Hnone Hc) as Hch.
  rewrite Hpn in Hch. exact Hch.
Qed.

(* ---- _generate at a new key ---- *)
Lemma generate_inv3 vr t here k d init uid t' rp uid' :
  apply_opv vr t here (OpGenerate D k d init) uid = Ok (t', rp, uid') ->
  exists r, set_value mk_child (S (tdepth init)) (fst (build d uid)) init (snd (build d uid)) = Ok r
            /\ cset t (here ++ [k]) (fst r) = Ok t' /\ uid' = snd r
            /\ rp = reports_generated true (fst r) (here ++ [k]).
Proof.
  intros H. open_op H Hd. destruct (build d uid) as [sub uid1]. cbn [fst snd].
  dres H r Es. dres H t1 Ec. inversion H; subst. exists r. auto.
Qed.

(* the nodes `build` made, seen from the root they are attached at *)
Lemma built_nodes root d uid fuel init u1 r q pi :
  set_value mk_child fuel (fst (build d uid)) init u1 = Ok r ->
  In (q, pi) (proc_nodes (fst r) root) -> exists p, In (p, pi) (proc_nodes (fst (build d uid)) []).
Proof.
  intros Es Hin. rewrite (set_value_procs mk_child mk_child_no_procs _ _ _ _ _ Es root) in Hin.
  rewrite proc_nodes_shift in Hin. apply in_map_iff in Hin. destruct Hin as ([p pi'] & Heq & Hin).
  cbn [fst snd] in Heq. inversion Heq; subst. exists p. exact Hin.
Qed.

Lemma op_change_generate vr t here k d init uid t' rp uid' : cwf t ->
  cget t (here ++ [k]) = None ->
  apply_opv vr t here (OpGenerate D k d init) uid = Ok (t', rp, uid') ->
  exists news, node_change t t' (r_deletions rp) news /\ reports_fit t rp news.
Proof.
  intros Hw Hnone H. apply generate_inv3 in H. destruct H as (r & Es & Ec & _ & ->).
  exists (proc_nodes (fst r) (here ++ [k])). cbn [reports_generated r_deletions].
  split; [apply (cset_fresh_change t _ (fst r) t' Hw (snoc_not_nil here k) Hnone Ec)|].
  assert (Hst : forall q pi, In (q, pi) (proc_nodes (fst r) (here ++ [k])) ->
                             pi_in_steps pi = true -> pi_step pi = true).
  { intros q pi Hin Hi. destruct (built_nodes _ _ _ _ _ _ _ _ _ Es Hin) as (p & Hp).
    apply (build_steps d uid p pi Hp Hi). }
  unfold reports_fit, step_adds. cbn [reports_generated r_process r_step r_deletions].
  split; [|split; [|split]].
  - rewrite (set_value_procs mk_child mk_child_no_procs _ _ _ _ _ Es). apply proc_nodes_nodup. apply build_cwf.
  - apply (fresh_under t _ (fst r) Hw Hnone).
  - apply filter_filter_impl. intros [q pi] Hin Hns. cbn [snd]. unfold nonstep in Hns. cbn [snd] in Hns.
    apply negb_true_iff in Hns. apply negb_true_iff. destruct (pi_in_steps pi) eqn:Ei; [|reflexivity].
    rewrite (Hst q pi Hin Ei) in Hns. discriminate Hns.
  - intros q pi. rewrite in_app_iff, in_filter_isstep, !filter_In. cbn [snd]. rewrite negb_true_iff. split.
    + intros [[[Hin _] Hs]|[Hin Hi]]; [auto|]. split; [exact Hin|apply (Hst q pi Hin Hi)].
    + intros [Hin Hs]. destruct (pi_in_steps pi) eqn:Ei; [right; auto|left; auto].
Qed.

(* ---- _move of a key (either variant of Store.move) ---- *)
Lemma move_inv3 vr t here src tgt uid t' rp uid' :
  apply_opv vr t here (OpMove D src tgt) uid = Ok (t', rp, uid') ->
  exists u g c node t1, cget t here = Some (CDir u g c) /\ alookup src c = Some node /\
    cget t (tgt ++ [src]) = None /\ cdel t (here ++ [src]) = Ok t1 /\
    cset t1 (tgt ++ [src]) node = Ok t' /\ r_deletions rp = [here ++ [src]] /\
    r_process rp = (if v_fix_move vr then filter nonstep (proc_nodes node (tgt ++ [src]))
                    else proc_nodes node (tgt ++ [src])) /\
    r_step rp = filter isstep (proc_nodes node (tgt ++ [src])).
Proof.
  intros H. open_op H Hd.
  destruct (alookup src c) as [node|] eqn:El; [|discriminate H].
  destruct (cget t (tgt ++ [src])) as [y|] eqn:Eg; [discriminate H|].
  dres H t1 Ed. dres H t2 Ec. inversion H; subst.
  exists u, g, c, node, t1. cbn [r_deletions r_process r_step]. auto 10.
Qed.

(* success implies that the target is not inside the moved subtree: the source is deleted first, so the write
   below it would find no parent.  (The premises of Consistent_proofs.consistent_move follow from success.) *)
Lemma move_target_not_inside vr t here src tgt uid t' rp uid' : cwf t ->
  apply_opv vr t here (OpMove D src tgt) uid = Ok (t', rp, uid') ->
  starts_with (tgt ++ [src]) (here ++ [src]) = false /\ starts_with (here ++ [src]) (tgt ++ [src]) = false.
Proof.
  intros Hw H. apply move_inv3 in H.
  destruct H as (u & g & c & node & t1 & Hd & Hl & Hnone & Hdl & Hcs & _).
  assert (Hsrc : cget t (here ++ [src]) = Some node) by (rewrite cget_app, Hd, cget_cons, Hl; reflexivity).
  split.
  - destruct (starts_with (tgt ++ [src]) (here ++ [src])) eqn:E; [|reflexivity].
    apply sw_true_iff in E. destruct E as (r & Hr). destruct r as [|k0 r0].
    + rewrite app_nil_r in Hr. rewrite Hr, Hsrc in Hnone. discriminate Hnone.
    + rewrite Hr in Hcs. exfalso.
      apply (cset_parent_exists _ _ _ _ _ Hcs); [discriminate|].
      apply (cdel_gone _ _ _ Hw (snoc_not_nil here src) Hdl).
  - destruct (starts_with (here ++ [src]) (tgt ++ [src])) eqn:E; [|reflexivity].
    apply sw_true_iff in E. destruct E as (r & Hr). rewrite Hr, cget_app, Hnone in Hsrc. discriminate Hsrc.
Qed.

Lemma op_change_move vr t here src tgt uid t' rp uid' : cwf t ->
  apply_opv vr t here (OpMove D src tgt) uid = Ok (t', rp, uid') ->
  exists news, node_change t t' (r_deletions rp) news /\ reports_fit t rp news.
Proof.
  intros Hw H. destruct (move_target_not_inside _ _ _ _ _ _ _ _ _ Hw H) as [Hs1 Hs2].
  apply move_inv3 in H. destruct H as (u & g & c & node & t1 & Hd & Hl & Hnone & Hdl & Hcs & Hdel & Hp & Hs).
  assert (Hwn : cwf node) by apply (cwf_child u g c src node (cwf_cget t here _ Hw Hd) Hl).
  pose proof (cdel_cwf _ _ _ Hw Hdl) as Hw1.
  assert (Hnu : forall q pi, In (q, pi) (proc_nodes node (tgt ++ [src])) -> starts_with q (here ++ [src]) = false).
  { intros q pi Hin. apply proc_nodes_prefix in Hin. destruct Hin as (r' & ->).
    destruct (starts_with ((tgt ++ [src]) ++ r') (here ++ [src])) eqn:E; [|reflexivity].
    apply sw_ext in E. destruct E as [E|E]; congruence. }
  exists (proc_nodes node (tgt ++ [src])). rewrite Hdel. split.
  - intros q pi. rewrite (proc_nodes_cset_strong t1 _ node t' q pi Hw1 (snoc_not_nil tgt src) Hcs).
    rewrite (proc_nodes_cdel t _ t1 q pi Hw (snoc_not_nil here src) Hdl). split.
    + intros [[_ [Hsw Hin]]|Hin].
      * split; [left; exact Hin|]. intros d0 [<-|[]]. exact Hsw.
      * split; [right; exact Hin|]. intros d0 [<-|[]]. apply (Hnu q pi Hin).
    + intros [[Hin|Hin] Hsw]; [left|right; exact Hin].
      split; [apply (no_proc_under t _ q pi Hw Hnone Hin)|]. split; [|exact Hin]. apply Hsw. left. reflexivity.
  - unfold reports_fit. split; [|split; [|split]].
    + apply proc_nodes_nodup. exact Hwn.
    + apply (fresh_under t _ node Hw Hnone).
    + rewrite Hp. destruct (v_fix_move vr); [apply filter_idem|reflexivity].
    + apply step_adds_split; [|exact Hs]. rewrite Hp. intros x Hx.
      destruct (v_fix_move vr); [apply filter_In in Hx; destruct Hx as [Hx _]|]; exact Hx.
Qed.

(* ---- _move with a nested source path ---- *)
Lemma movep_inv3 vr t here src tgt uid t' rp uid' :
  apply_opv vr t here (OpMoveP D src tgt) uid = Ok (t', rp, uid') ->
  exists node t0 t1, src <> [] /\ cget t (here ++ src) = Some node /\ cget t (tgt ++ src) = None /\
    cestablish t (tgt ++ removelast src) uid = Ok (t0, uid') /\
    cset t0 (tgt ++ src) node = Ok t1 /\ cdel t1 (here ++ src) = Ok t' /\
    r_deletions rp = [here ++ src] /\
    r_process rp = filter nonstep (proc_nodes node (tgt ++ src)) /\
    r_step rp = filter isstep (proc_nodes node (tgt ++ src)).
Proof.
  intros H. open_op H Hd.
  destruct src as [|s1 sr]; [discriminate H|].
  destruct (cget t (here ++ s1 :: sr)) as [node|] eqn:Eg; [|discriminate H].
  destruct (cget t tgt) as [tn|] eqn:Et; [|discriminate H].
  destruct (cget t (tgt ++ s1 :: sr)) as [y|] eqn:Eg2; [discriminate H|].
  dres H tu Ee. dres H t1 Ec. dres H t2 Ed. destruct tu as [t0 u0]. cbn [fst snd] in *.
  inversion H; subst. exists node, t0, t1. cbn [r_deletions r_process r_step].
  split; [discriminate|]. auto 10.
Qed.

(* NO premise on the target: when the target lies inside the moved subtree the attached copy is deleted with
   the source (it is deleted LAST here) -- and the engine too registers the reported processes and steps
   first and drops everything under the reported deletion last.  So movep_reports needs
   `starts_with (tgt ++ src) (here ++ src) = false`, the consistency of the tables does not. *)
Lemma op_change_movep vr t here src tgt uid t' rp uid' : cwf t ->
  apply_opv vr t here (OpMoveP D src tgt) uid = Ok (t', rp, uid') ->
  exists news, node_change t t' (r_deletions rp) news /\ reports_fit t rp news.
Proof.
  intros Hw H. apply movep_inv3 in H.
  destruct H as (node & t0 & t1 & Hne & Hg & Hnone & He & Hcs & Hdl & Hdel & Hp & Hs).
  assert (Hwn : cwf node) by apply (cwf_cget _ _ _ Hw Hg).
  pose proof (cestablish_cwf _ _ _ _ _ Hw He) as Hw0.
  pose proof (cset_cwf _ _ _ _ Hw0 Hwn Hcs) as Hw1.
  pose proof (cestablish_procs _ _ _ _ _ He []) as Hp0.
  exists (proc_nodes node (tgt ++ src)). rewrite Hdel. split.
  - intros q pi. rewrite (proc_nodes_cdel t1 _ t' q pi Hw1 (app_not_nil_r here src Hne) Hdl).
    rewrite (proc_nodes_cset_strong t0 _ node t1 q pi Hw0 (app_not_nil_r tgt src Hne) Hcs), Hp0. split.
    + intros [Hsw [[_ Hin]|Hin]]; (split; [|intros d0 [<-|[]]; exact Hsw]); [left|right]; exact Hin.
    + intros [[Hin|Hin] Hsw]; (split; [apply Hsw; left; reflexivity|]).
      * left. split; [apply (no_proc_under t _ q pi Hw Hnone Hin)|exact Hin].
      * right. exact Hin.
  - unfold reports_fit. split; [|split; [|split]].
    + apply proc_nodes_nodup. exact Hwn.
    + apply (fresh_under t _ node Hw Hnone).
    + rewrite Hp. apply filter_idem.
    + apply step_adds_split; [|exact Hs]. rewrite Hp. intros x Hx. apply filter_In in Hx. destruct Hx as [Hx _]. exact Hx.
Qed.

(* ---- _divide ---- *)
Definition dkey (d : key * option D * tree Z) : key := fst (fst d).

Definition div_states (mo : cnode) (choices : list bool) : list (tree Z) :=
  match fst (divide_value mo choices) with Some (a, b) => [a; b] | None => [] end.

(* the subtrees Store.divide generates, daughter by daughter (zip with the divided states): an explicit
   composite is built by `build`, an inheriting daughter gets `copy_procs` of the mother; the merged initial
   state is then set *)
Fixpoint div_subs (mo : cnode) (ds : list (key * option D * tree Z)) (sts : list (tree Z)) (uid : N)
  : res (list (key * cnode) * N) :=
  match ds, sts with
  | (dk, dd, dinit) :: ds', st :: sts' =>
    let su := match dd with Some d => build d uid | None => copy_procs mo uid end in
    let merged := deep_merge st dinit in
    rbind (set_value mk_child (S (tdepth merged)) (fst su) merged (snd su)) (fun r =>
    rbind (div_subs mo ds' sts' (snd r)) (fun x => Ok ((dk, fst r) :: fst x, snd x)))
  | _, _ => Ok ([], uid)
  end.

Fixpoint cset_all (t : cnode) (here : list key) (subs : list (key * cnode)) : res cnode :=
  match subs with
  | [] => Ok t
  | ks :: r => rbind (cset t (here ++ [fst ks]) (snd ks)) (fun t' => cset_all t' here r)
  end.

Definition sub_nodes (here : list key) (subs : list (key * cnode)) : list (list key * pinfo) :=
  flat_map (fun ks => proc_nodes (snd ks) (here ++ [fst ks])) subs.

Lemma divide_inv3 vr t here m ds ch uid t' rp uid' :
  apply_opv vr t here (OpDivide D m ds ch) uid = Ok (t', rp, uid') ->
  exists u g c mo subs t1, cget t here = Some (CDir u g c) /\ alookup m c = Some mo /\
    div_subs mo ds (div_states mo ch) uid = Ok (subs, uid') /\
    cset_all t here subs = Ok t1 /\ cdel t1 (here ++ [m]) = Ok t' /\
    r_process rp = filter nonstep (sub_nodes here subs) /\
    r_step rp = filter isstep (sub_nodes here subs) /\
    r_deletions rp = [here ++ [m]].
Proof.
  intros H. open_op H Hd.
  destruct (alookup m c) as [mo|] eqn:El; [|discriminate H].
  match type of H with
  | rbind ?X _ = _ => destruct X as [[[t1 rp1] u1]|e] eqn:Ego; cbn [rbind] in H; [|discriminate H]
  end.
  dres H t2 Ed. inversion H; subst. clear H.
  fold (div_states mo ch) in Ego.
  assert (Hgo : exists subs, div_subs mo ds (div_states mo ch) uid = Ok (subs, uid') /\
                             cset_all t here subs = Ok t1 /\
                             r_process rp1 = r_process no_reports ++ filter nonstep (sub_nodes here subs) /\
                             r_step rp1 = r_step no_reports ++ filter isstep (sub_nodes here subs) /\
                             r_deletions rp1 = r_deletions no_reports).
  { match type of Ego with
    | ?G _ ?sts0 _ ?rp0 _ = _ => revert Ego; generalize sts0 as sts, rp0 as rpa; set (go := G)
    end.
    clear Hd Ed. revert t uid.
    induction ds as [|[[dk dd] dinit] ds' IH]; intros t uid sts rpa Ego.
    - cbn in Ego. inversion Ego; subst. exists []. cbn [div_subs cset_all sub_nodes flat_map filter].
      rewrite !app_nil_r. auto.
    - destruct sts as [|st sts'].
      + cbn in Ego. inversion Ego; subst. exists []. cbn [div_subs cset_all sub_nodes flat_map filter].
        rewrite !app_nil_r. auto.
      + unfold go in Ego. cbn [rbind] in Ego. fold go in Ego.
        cbn [div_subs].
        destruct (match dd with Some d => build d uid | None => copy_procs mo uid end) as [sub uid1].
        cbn [fst snd].
        dres Ego r Es. dres Ego t2 Ec.
        match type of Ego with context [rapp rpa ?X] => set (rg' := X) in Ego end.
        assert (Hrg : r_process rg' = filter nonstep (proc_nodes (fst r) (here ++ [dk])) /\
                      r_step rg' = filter isstep (proc_nodes (fst r) (here ++ [dk])) /\
                      r_deletions rg' = []).
        { subst rg'. destruct dd as [d0|].
          - match goal with |- context [match ?X with [] => _ | _ :: _ => _ end] => destruct X end;
              cbn [reports_generated r_process r_step r_deletions]; auto.
          - cbn [reports_generated r_process r_step r_deletions]. auto. }
        destruct Hrg as (Hrp & Hrs & Hrd).
        destruct (IH _ _ _ _ Ego) as (subs & Hds & Hca & Hp & Hs & Hdl).
        exists ((dk, fst r) :: subs). cbn [rbind]. rewrite Hds. cbn [rbind fst snd].
        split; [reflexivity|]. cbn [cset_all fst snd]. rewrite Ec. cbn [rbind]. split; [exact Hca|].
        unfold sub_nodes. cbn [flat_map fst snd]. rewrite !filter_app. fold (sub_nodes here subs).
        rewrite Hp, Hs, Hdl. cbn [rapp r_process r_step r_deletions]. rewrite Hrp, Hrs, Hrd, !app_assoc, app_nil_r.
        auto. }
  destruct Hgo as (subs & Hds & Hca & Hp & Hs & Hdl).
  exists u, g, c, mo, subs, t1. cbn [rapp r_process r_step r_deletions].
  rewrite Hp, Hs, Hdl. cbn [no_reports r_process r_step r_deletions app]. rewrite !app_nil_r. auto 10.
Qed.

(* every generated daughter subtree: its key is one of the daughters' keys (in order, without repetition if
   those have none), it is well-formed, and its process nodes are those of what `build` / `copy_procs` made *)
Lemma div_subs_props mo : cwf mo -> forall ds sts uid subs u1,
  div_subs mo ds sts uid = Ok (subs, u1) ->
  (forall k, In k (map fst subs) -> In k (map dkey ds)) /\
  (NoDup (map dkey ds) -> NoDup (map fst subs)) /\
  (forall ks, In ks subs -> cwf (snd ks)) /\
  (forall k s, In (k, s) subs -> exists dd dinit u, In (k, dd, dinit) ds /\
     forall pre, proc_nodes s pre =
                 proc_nodes (fst (match dd with Some d => build d u | None => copy_procs mo u end)) pre).
Proof.
  intros Hwm. induction ds as [|[[dk dd] dinit] ds' IH]; intros sts uid subs u1 H.
  - cbn in H. inversion H; subst. cbn. repeat split; try (intros; contradiction). constructor.
  - destruct sts as [|st sts'].
    + cbn in H. inversion H; subst. cbn. repeat split; try (intros; contradiction). constructor.
    + cbn [div_subs] in H.
      set (su := match dd with Some d => build d uid | None => copy_procs mo uid end) in H.
      dres H r Es. dres H x Ex. destruct x as [subs' u2]. cbn [fst snd] in H. inversion H; subst subs u1. clear H.
      destruct (IH _ _ _ _ Ex) as (Hk & Hn & Hw & Ho).
      assert (Hwsu : cwf (fst su)).
      { subst su. destruct dd as [d0|]; [apply build_cwf|apply copy_cwf; exact Hwm]. }
      cbn [map fst dkey]. split; [|split; [|split]].
      * intros k [<-|Hin]; [left; reflexivity|right; apply Hk; exact Hin].
      * intros Hnd. inversion Hnd as [|? ? Hx Hnd']; subst. constructor; [|apply Hn; exact Hnd'].
        intros Hin. apply Hx. apply Hk. exact Hin.
      * intros ks [<-|Hin]; [|apply Hw; exact Hin]. cbn [snd]. apply (set_value_cwf _ _ _ _ _ Hwsu Es).
      * intros k s [Heq|Hin].
        -- inversion Heq; subst k s. exists dd, dinit, uid. split; [left; reflexivity|]. intros pre.
           apply (set_value_procs mk_child mk_child_no_procs _ _ _ _ _ Es pre).
        -- destruct (Ho k s Hin) as (dd' & di' & u' & Hin' & Hpn). exists dd', di', u'.
           split; [right; exact Hin'|exact Hpn].
Qed.

Lemma sub_nodes_under here subs q pi : In (q, pi) (sub_nodes here subs) ->
  exists k r, In k (map fst subs) /\ q = here ++ k :: r.
Proof.
  unfold sub_nodes. rewrite in_flat_map. intros ([k s] & Hin & Hq). cbn [fst snd] in Hq.
  apply proc_under in Hq. destruct Hq as (r & ->). exists k, r. split; [|reflexivity].
  change k with (fst (k, s)). apply in_map. exact Hin.
Qed.

Lemma sub_nodes_nodup here subs : NoDup (map fst subs) -> (forall ks, In ks subs -> cwf (snd ks)) ->
  NoDup (map fst (sub_nodes here subs)).
Proof.
  induction subs as [|[k s] r IH]; intros Hnd Hw; [constructor|].
  unfold sub_nodes. cbn [flat_map fst snd]. fold (sub_nodes here r). rewrite map_app.
  cbn [map fst] in Hnd. inversion Hnd as [|? ? Hx Hnd']; subst. apply nodup_app.
  - apply proc_nodes_nodup. apply (Hw (k, s)). left. reflexivity.
  - apply IH; [exact Hnd'|]. intros ks Hin. apply Hw. right. exact Hin.
  - intros q Hq1 Hq2. apply in_map_iff in Hq1. destruct Hq1 as ([q1 pi1] & Hf1 & Hq1).
    apply in_map_iff in Hq2. destruct Hq2 as ([q2 pi2] & Hf2 & Hq2). cbn [fst] in Hf1, Hf2. subst q1 q2.
    apply proc_under in Hq1. destruct Hq1 as (r1 & Hr1).
    apply sub_nodes_under in Hq2. destruct Hq2 as (k' & r2 & Hk' & Hr2). rewrite Hr1 in Hr2.
    apply app_inv_head in Hr2. inversion Hr2; subst k'. exact (Hx Hk').
Qed.

Lemma sw_sibling here k k' : k' <> k -> starts_with (here ++ [k']) (here ++ [k]) = false.
Proof.
  intros Hne. rewrite sw_app_l, sw_cons. destruct (N.eqb k k') eqn:E; [|reflexivity].
  apply N.eqb_eq in E. congruence.
Qed.

(* writing the daughters, at new and pairwise distinct keys *)
Lemma cset_all_change here : forall subs t t1, cwf t -> NoDup (map fst subs) ->
  (forall ks, In ks subs -> cwf (snd ks)) ->
  (forall k, In k (map fst subs) -> cget t (here ++ [k]) = None) ->
  cset_all t here subs = Ok t1 ->
  cwf t1 /\ node_change t t1 [] (sub_nodes here subs).
Proof.
  induction subs as [|[k s] r IH]; intros t t1 Hw Hnd Hws Hnew H.
  - cbn in H. inversion H; subst. split; [exact Hw|]. apply node_change_refl.
  - cbn [cset_all fst snd] in H. dres H t2 Ec.
    cbn [map fst] in Hnd. inversion Hnd as [|? ? Hx Hnd']; subst.
    assert (Hw2 : cwf t2) by (apply (cset_cwf _ _ _ _ Hw (Hws (k, s) (or_introl eq_refl)) Ec)).
    assert (Hnew2 : forall k', In k' (map fst r) -> cget t2 (here ++ [k']) = None).
    { intros k' Hk'. apply sig_at_None. rewrite (cset_frame _ _ _ _ (here ++ [k']) Ec).
      - apply cget_None_sig. apply Hnew. right. exact Hk'.
      - apply sw_sibling. intros ->. exact (Hx Hk'). }
    destruct (IH t2 t1 Hw2 Hnd' (fun ks Hin => Hws ks (or_intror Hin)) Hnew2 H) as [Hw1 Hch].
    split; [exact Hw1|]. unfold sub_nodes. cbn [flat_map fst snd]. fold (sub_nodes here r).
    apply (node_change_app t t2 t1); [|exact Hch].
    apply (cset_fresh_change t _ s t2 Hw (snoc_not_nil here k)); [|exact Ec].
    apply Hnew. left. reflexivity.
Qed.

(* premises: the daughters' keys are new and pairwise distinct (then they differ from the mother's, which
   exists).  They are asked of all listed daughters; only the first two (those zipped with the divided states)
   are generated. *)
Definition divide_ok (t : cnode) (here : list key) (ds : list (key * option D * tree Z)) : Prop :=
  NoDup (map dkey ds) /\ forall k, In k (map dkey ds) -> cget t (here ++ [k]) = None.

Lemma op_change_divide vr t here m ds ch uid t' rp uid' : cwf t -> divide_ok t here ds ->
  apply_opv vr t here (OpDivide D m ds ch) uid = Ok (t', rp, uid') ->
  exists news, node_change t t' (r_deletions rp) news /\ reports_fit t rp news /\ cwf t'.
Proof.
  intros Hw (Hnd & Hnew) H. apply divide_inv3 in H.
  destruct H as (u & g & c & mo & subs & t1 & Hd & Hl & Hds & Hca & Hdl & Hp & Hs & Hdel).
  assert (Hwm : cwf mo) by apply (cwf_child u g c m mo (cwf_cget t here _ Hw Hd) Hl).
  destruct (div_subs_props mo Hwm _ _ _ _ _ Hds) as (Hk & Hn & Hws & _).
  destruct (cset_all_change here subs t t1 Hw (Hn Hnd) Hws (fun k Hin => Hnew k (Hk k Hin)) Hca) as [Hw1 Hch].
  exists (sub_nodes here subs). rewrite Hdel. split; [|split].
  - intros q pi. rewrite (proc_nodes_cdel t1 _ t' q pi Hw1 (snoc_not_nil here m) Hdl), (Hch q pi). split.
    + intros [Hsw [Hin _]]. split; [exact Hin|]. intros d0 [<-|[]]. exact Hsw.
    + intros [Hin Hsw]. split; [apply Hsw; left; reflexivity|]. split; [exact Hin|intros d0 []].
  - unfold reports_fit. split; [|split; [|split]].
    + apply (sub_nodes_nodup here subs (Hn Hnd) Hws).
    + intros q pi Hin pi0 Hin0. apply sub_nodes_under in Hin. destruct Hin as (k & r & Hin & ->).
      assert (Hsw : starts_with (here ++ k :: r) (here ++ [k]) = true).
      { replace (here ++ k :: r) with ((here ++ [k]) ++ r) by (rewrite <- app_assoc; reflexivity).
        apply starts_with_app. }
      rewrite (no_proc_under t (here ++ [k]) _ pi0 Hw (Hnew k (Hk k Hin)) Hin0) in Hsw. discriminate Hsw.
    + rewrite Hp. apply filter_idem.
    + apply step_adds_split; [|exact Hs]. rewrite Hp. intros x Hx. apply filter_In in Hx. destruct Hx as [Hx _]. exact Hx.
  - apply (cdel_cwf _ _ _ Hw1 Hdl).
Qed.

(* ================= A. the step table, operation by operation ================= *)
(* ---- the reports describe exactly how the set of steps changes ---- *)
Theorem delete_reports_steps vr t here k uid t' rp uid' q o : cwf t ->
  apply_opv vr t here (OpDelete D k) uid = Ok (t', rp, uid') ->
  (In (q, o) (step_paths t') <-> In (q, o) (step_paths t) /\ starts_with q (here ++ [k]) = false).
Proof.
  intros Hw H. destruct (op_change_delete _ _ _ _ _ _ _ _ Hw H) as [Hch Hfit].
  rewrite (change_step_paths t t' rp [] q o Hch Hfit).
  apply delete_inv3 in H. destruct H as (_ & Hdel & Hp & Hs). unfold step_adds. rewrite Hdel, Hp, Hs. cbn. split.
  - intros [[Hin|(pi & [] & _)] Hd]. split; [exact Hin|]. apply Hd. left. reflexivity.
  - intros [Hin Hsw]. split; [left; exact Hin|]. intros d [<-|[]]. exact Hsw.
Qed.

(* generation at a new key.  Premise on the kit: whatever `build` lists in a `steps` dict is a Step
   (build_steps); the converse is not needed.  (Without it: generate_reports_steps_complete below, and the
   counterexample generate_steps_counterexample at the end of the file.) *)
Theorem generate_reports_steps_partial vr t here k d init uid t' rp uid' q o : cwf t ->
  cget t (here ++ [k]) = None ->
  apply_opv vr t here (OpGenerate D k d init) uid = Ok (t', rp, uid') ->
  (In (q, o) (step_paths t') <->
   In (q, o) (step_paths t) \/ exists pi, In (q, pi) (step_adds rp) /\ o = pi_obj pi).
Proof.
  intros Hw Hnone H. destruct (op_change_generate _ _ _ _ _ _ _ _ _ _ Hw Hnone H) as (news & Hch & Hfit).
  rewrite (change_step_paths t t' rp news q o Hch Hfit).
  apply generate_inv3 in H. destruct H as (r & _ & _ & _ & ->). cbn [reports_generated r_deletions]. split.
  - intros [H _]. exact H.
  - intros H. split; [exact H|intros d0 []].
Qed.

(* ORIGINAL STATEMENT (false for an arbitrary kit, see generate_steps_counterexample): the same without build_steps *)

(* the direction that holds for every kit: every Step of the hierarchy is filed by the engine (what can go
   wrong is the converse: a plain Process listed under `steps` is filed as a step) *)
Theorem generate_reports_steps_complete vr t here k d init uid t' rp uid' q o : cwf t ->
  cget t (here ++ [k]) = None ->
  apply_opv vr t here (OpGenerate D k d init) uid = Ok (t', rp, uid') ->
  In (q, o) (step_paths t') ->
  In (q, o) (step_paths t) \/ exists pi, In (q, pi) (step_adds rp) /\ o = pi_obj pi.
Proof.
  intros Hw Hnone H. apply generate_inv3 in H. destruct H as (r & Es & Ec & _ & ->).
  rewrite !in_step_paths. intros (pi & Hin & Hs & Ho).
  apply (cset_fresh_change t _ (fst r) t' Hw (snoc_not_nil here k) Hnone Ec) in Hin.
  destruct Hin as [[Hin|Hin] _]; [left; exists pi; auto|]. right. exists pi. split; [|exact Ho].
  unfold step_adds. cbn [reports_generated r_process r_step]. rewrite in_app_iff, in_filter_isstep, !filter_In.
  cbn [snd]. rewrite negb_true_iff. destruct (pi_in_steps pi) eqn:Ei; [right; auto|left; auto].
Qed.

(* move of a key, either variant of Store.move (the pinned one reports the moved Steps among the process
   updates as well: the engine files them twice, with the same object) *)
Theorem move_reports_steps vr t here src tgt uid t' rp uid' q o : cwf t ->
  apply_opv vr t here (OpMove D src tgt) uid = Ok (t', rp, uid') ->
  (In (q, o) (step_paths t') <->
   (In (q, o) (step_paths t) /\ starts_with q (here ++ [src]) = false) \/
   exists pi, In (q, pi) (r_step rp) /\ o = pi_obj pi).
Proof.
  intros Hw H. destruct (move_target_not_inside _ _ _ _ _ _ _ _ _ Hw H) as [Hs1 Hs2].
  destruct (op_change_move _ _ _ _ _ _ _ _ _ Hw H) as (news & Hch & Hfit).
  rewrite (change_step_paths t t' rp news q o Hch Hfit).
  apply move_inv3 in H. destruct H as (u & g & c & node & t1 & _ & _ & _ & _ & _ & Hdel & Hp & Hs).
  rewrite Hdel.
  assert (Hadds : forall pi, In (q, pi) (step_adds rp) <-> In (q, pi) (r_step rp)).
  { intros pi. rewrite (step_adds_split (proc_nodes node (tgt ++ [src])) rp); [rewrite Hs, in_filter_isstep; reflexivity| |exact Hs].
    rewrite Hp. intros x Hx. destruct (v_fix_move vr); [apply filter_In in Hx; destruct Hx as [Hx _]|]; exact Hx. }
  assert (Hnu : forall pi, In (q, pi) (r_step rp) -> starts_with q (here ++ [src]) = false).
  { intros pi Hin. rewrite Hs in Hin. apply in_filter_isstep in Hin. destruct Hin as [Hin _].
    apply proc_nodes_prefix in Hin. destruct Hin as (r' & ->).
    destruct (starts_with ((tgt ++ [src]) ++ r') (here ++ [src])) eqn:E; [|reflexivity].
    apply sw_ext in E. destruct E as [E|E]; congruence. }
  split.
  - intros [[Hin|(pi & Hin & Ho)] Hd].
    + left. split; [exact Hin|]. apply Hd. left. reflexivity.
    + right. exists pi. split; [apply Hadds; exact Hin|exact Ho].
  - intros [[Hin Hsw]|(pi & Hin & Ho)].
    + split; [left; exact Hin|]. intros d0 [<-|[]]. exact Hsw.
    + split; [right; exists pi; split; [apply Hadds; exact Hin|exact Ho]|].
      intros d0 [<-|[]]. apply (Hnu pi Hin).
Qed.

(* nested move.  As for the processes (movep_reports) the premise is needed for THIS statement: with the
   target inside the moved subtree the reported steps are deleted with the source. *)
Theorem movep_reports_steps vr t here src tgt uid t' rp uid' q o : cwf t ->
  starts_with (tgt ++ src) (here ++ src) = false ->
  apply_opv vr t here (OpMoveP D src tgt) uid = Ok (t', rp, uid') ->
  (In (q, o) (step_paths t') <->
   (In (q, o) (step_paths t) /\ starts_with q (here ++ src) = false) \/
   exists pi, In (q, pi) (r_step rp) /\ o = pi_obj pi).
Proof.
  intros Hw Hs1 H.
  pose proof (fun n p pi => reported_not_under_source mk_child D build copy_procs vr t here src tgt uid t' rp uid' n p pi Hs1 H) as Hnu.
  destruct (op_change_movep _ _ _ _ _ _ _ _ _ Hw H) as (news & Hch & Hfit).
  rewrite (change_step_paths t t' rp news q o Hch Hfit).
  apply movep_inv3 in H. destruct H as (node & t0 & t1 & _ & _ & _ & _ & _ & _ & Hdel & Hp & Hs).
  rewrite Hdel, (step_adds_no_steps rp _ Hp). split.
  - intros [[Hin|Hex] Hd]; [left|right; exact Hex]. split; [exact Hin|]. apply Hd. left. reflexivity.
  - intros [[Hin Hsw]|(pi & Hin & Ho)].
    + split; [left; exact Hin|]. intros d0 [<-|[]]. exact Hsw.
    + split; [right; exists pi; auto|]. intros d0 [<-|[]].
      rewrite Hs in Hin. apply in_filter_isstep in Hin. destruct Hin as [Hin _]. apply (Hnu node q pi Hin).
Qed.

(* the general form, without the premise: registered first, deleted last *)
Theorem movep_reports_steps_gen vr t here src tgt uid t' rp uid' q o : cwf t ->
  apply_opv vr t here (OpMoveP D src tgt) uid = Ok (t', rp, uid') ->
  (In (q, o) (step_paths t') <->
   (In (q, o) (step_paths t) \/ exists pi, In (q, pi) (r_step rp) /\ o = pi_obj pi) /\
   starts_with q (here ++ src) = false).
Proof.
  intros Hw H. destruct (op_change_movep _ _ _ _ _ _ _ _ _ Hw H) as (news & Hch & Hfit).
  rewrite (change_step_paths t t' rp news q o Hch Hfit).
  apply movep_inv3 in H. destruct H as (node & t0 & t1 & _ & _ & _ & _ & _ & _ & Hdel & Hp & Hs).
  rewrite Hdel, (step_adds_no_steps rp _ Hp). split.
  - intros [Hor Hd]. split; [exact Hor|]. apply Hd. left. reflexivity.
  - intros [Hor Hsw]. split; [exact Hor|]. intros d0 [<-|[]]. exact Hsw.
Qed.

Theorem movep_reports_gen vr t here src tgt uid t' rp uid' q o : cwf t ->
  apply_opv vr t here (OpMoveP D src tgt) uid = Ok (t', rp, uid') ->
  (In (q, o) (proc_paths t') <->
   (In (q, o) (proc_paths t) \/ exists pi, In (q, pi) (r_process rp) /\ pi_step pi = false /\ o = pi_obj pi) /\
   starts_with q (here ++ src) = false).
Proof.
  intros Hw H. destruct (op_change_movep _ _ _ _ _ _ _ _ _ Hw H) as (news & Hch & Hfit).
  rewrite (change_proc_paths t t' rp news q o Hch Hfit).
  apply movep_inv3 in H. destruct H as (node & t0 & t1 & _ & _ & _ & _ & _ & _ & Hdel & _).
  rewrite Hdel. split.
  - intros [Hor Hd]. split; [exact Hor|]. apply Hd. left. reflexivity.
  - intros [Hor Hsw]. split; [exact Hor|]. intros d0 [<-|[]]. exact Hsw.
Qed.

(* ---- consistency of the step table is preserved ---- *)
Theorem consistent_steps_delete vr t here k uid t' rp uid' b b' : cwf t -> consistent_steps t b ->
  apply_opv vr t here (OpDelete D k) uid = Ok (t', rp, uid') ->
  book_apply b rp = Ok b' -> consistent_steps t' b'.
Proof.
  intros Hw Hc H Hb. destruct (op_change_delete _ _ _ _ _ _ _ _ Hw H) as [Hch Hfit].
  apply (consistent_steps_generic t t' b b' rp [] Hc Hch Hfit Hb).
Qed.

(* premises: the key is new; kit: build_cwf, build_steps (listed under `steps` => is a Step) *)
Theorem consistent_steps_generate vr t here k d init uid t' rp uid' b b' : cwf t -> consistent_steps t b ->
  cget t (here ++ [k]) = None ->
  apply_opv vr t here (OpGenerate D k d init) uid = Ok (t', rp, uid') ->
  book_apply b rp = Ok b' -> consistent_steps t' b'.
Proof.
  intros Hw Hc Hnone H Hb. destruct (op_change_generate _ _ _ _ _ _ _ _ _ _ Hw Hnone H) as (news & Hch & Hfit).
  apply (consistent_steps_generic t t' b b' rp news Hc Hch Hfit Hb).
Qed.

(* no premise besides success, and for either variant of Store.move: that the target is not inside the moved
   subtree follows from success (move_target_not_inside) *)
Theorem consistent_steps_move vr t here src tgt uid t' rp uid' b b' : cwf t -> consistent_steps t b ->
  apply_opv vr t here (OpMove D src tgt) uid = Ok (t', rp, uid') ->
  book_apply b rp = Ok b' -> consistent_steps t' b'.
Proof.
  intros Hw Hc H Hb. destruct (op_change_move _ _ _ _ _ _ _ _ _ Hw H) as (news & Hch & Hfit).
  apply (consistent_steps_generic t t' b b' rp news Hc Hch Hfit Hb).
Qed.

Theorem consistent_move_any vr t here src tgt uid t' rp uid' b b' : cwf t -> consistent_procs t b ->
  apply_opv vr t here (OpMove D src tgt) uid = Ok (t', rp, uid') ->
  book_apply b rp = Ok b' -> consistent_procs t' b'.
Proof.
  intros Hw Hc H Hb. destruct (op_change_move _ _ _ _ _ _ _ _ _ Hw H) as (news & Hch & Hfit).
  apply (consistent_procs_generic t t' b b' rp news Hc Hch Hfit Hb).
Qed.

(* no premise on the target (see op_change_movep) *)
Theorem consistent_steps_movep vr t here src tgt uid t' rp uid' b b' : cwf t -> consistent_steps t b ->
  apply_opv vr t here (OpMoveP D src tgt) uid = Ok (t', rp, uid') ->
  book_apply b rp = Ok b' -> consistent_steps t' b'.
Proof.
  intros Hw Hc H Hb. destruct (op_change_movep _ _ _ _ _ _ _ _ _ Hw H) as (news & Hch & Hfit).
  apply (consistent_steps_generic t t' b b' rp news Hc Hch Hfit Hb).
Qed.

(* MoveP_proofs.consistent_movep without its premise on the target *)
Theorem consistent_movep_any vr t here src tgt uid t' rp uid' b b' : cwf t -> consistent_procs t b ->
  apply_opv vr t here (OpMoveP D src tgt) uid = Ok (t', rp, uid') ->
  book_apply b rp = Ok b' -> consistent_procs t' b'.
Proof.
  intros Hw Hc H Hb. destruct (op_change_movep _ _ _ _ _ _ _ _ _ Hw H) as (news & Hch & Hfit).
  apply (consistent_procs_generic t t' b b' rp news Hc Hch Hfit Hb).
Qed.

(* ================= B. division ================= *)
(* how the process nodes (processes and steps) of the tree change: the mother's subtree goes; for each
   generated daughter (k, s) the subtree s arrives under here ++ [k], where s carries exactly the process nodes
   of `build d u` for an explicit composite `Some d`, of `copy_procs mother u` for an inheriting daughter
   `None` (u: the uid counter at that point).  The process / step updates are these nodes split by is_step();
   the only deletion is the mother.  (K6 and K8 live in r_flow / r_topology, which no table reads.) *)
Theorem divide_reports vr t here m ds ch uid t' rp uid' : cwf t -> divide_ok t here ds ->
  apply_opv vr t here (OpDivide D m ds ch) uid = Ok (t', rp, uid') ->
  exists mo subs,
    cget t (here ++ [m]) = Some mo /\
    div_subs mo ds (div_states mo ch) uid = Ok (subs, uid') /\
    (forall q pi, In (q, pi) (proc_nodes t' []) <->
       (In (q, pi) (proc_nodes t []) /\ starts_with q (here ++ [m]) = false) \/
       exists k s, In (k, s) subs /\ In (q, pi) (proc_nodes s (here ++ [k]))) /\
    (forall k s, In (k, s) subs -> exists dd dinit u, In (k, dd, dinit) ds /\
       forall pre, proc_nodes s pre =
                   proc_nodes (fst (match dd with Some d => build d u | None => copy_procs mo u end)) pre) /\
    r_process rp = filter nonstep (sub_nodes here subs) /\
    r_step rp = filter isstep (sub_nodes here subs) /\
    r_deletions rp = [here ++ [m]].
Proof.
  intros Hw Hok H. destruct (op_change_divide _ _ _ _ _ _ _ _ _ _ Hw Hok H) as (news & _ & _ & _).
  destruct Hok as (Hnd & Hnew). apply divide_inv3 in H.
  destruct H as (u & g & c & mo & subs & t1 & Hd & Hl & Hds & Hca & Hdl & Hp & Hs & Hdel).
  assert (Hwm : cwf mo) by apply (cwf_child u g c m mo (cwf_cget t here _ Hw Hd) Hl).
  destruct (div_subs_props mo Hwm _ _ _ _ _ Hds) as (Hk & Hn & Hws & Ho).
  destruct (cset_all_change here subs t t1 Hw (Hn Hnd) Hws (fun k Hin => Hnew k (Hk k Hin)) Hca) as [Hw1 Hch].
  exists mo, subs. split; [rewrite cget_app, Hd, cget_cons, Hl; reflexivity|]. split; [exact Hds|].
  split; [|split; [exact Ho|auto]].
  assert (Hmo : cget t (here ++ [m]) = Some mo) by (rewrite cget_app, Hd, cget_cons, Hl; reflexivity).
  intros q pi. rewrite (proc_nodes_cdel t1 _ t' q pi Hw1 (snoc_not_nil here m) Hdl), (Hch q pi).
  assert (Hsn : In (q, pi) (sub_nodes here subs) <-> exists k s, In (k, s) subs /\ In (q, pi) (proc_nodes s (here ++ [k]))).
  { unfold sub_nodes. rewrite in_flat_map. split.
    - intros ([k s] & Hin & Hq). exists k, s. auto.
    - intros (k & s & Hin & Hq). exists (k, s). auto. }
  rewrite Hsn. split.
  - intros [Hsw [[Hin|Hin] _]]; [left; auto|right; exact Hin].
  - intros [[Hin Hsw]|Hex]; [split; [exact Hsw|]; split; [left; exact Hin|intros d0 []]|].
    split; [|split; [right; exact Hex|intros d0 []]].
    destruct Hex as (k & s & Hin & Hq). apply proc_under in Hq. destruct Hq as (r & ->).
    rewrite sw_mid. destruct (N.eqb m k) eqn:E; [|reflexivity]. apply N.eqb_eq in E. subst k. exfalso.
    assert (Hkin : In m (map fst subs)) by (change m with (fst (m, s)); apply in_map; exact Hin).
    rewrite (Hnew m (Hk m Hkin)) in Hmo. discriminate Hmo.
Qed.

(* the two tables' view of it *)
Theorem divide_reports_procs vr t here m ds ch uid t' rp uid' q o : cwf t -> divide_ok t here ds ->
  apply_opv vr t here (OpDivide D m ds ch) uid = Ok (t', rp, uid') ->
  (In (q, o) (proc_paths t') <->
   (In (q, o) (proc_paths t) \/ exists pi, In (q, pi) (r_process rp) /\ pi_step pi = false /\ o = pi_obj pi) /\
   starts_with q (here ++ [m]) = false).
Proof.
  intros Hw Hok H. destruct (op_change_divide _ _ _ _ _ _ _ _ _ _ Hw Hok H) as (news & Hch & Hfit & _).
  rewrite (change_proc_paths t t' rp news q o Hch Hfit).
  apply divide_inv3 in H. destruct H as (u & g & c & mo & subs & t1 & _ & _ & _ & _ & _ & _ & _ & Hdel).
  rewrite Hdel. split.
  - intros [Hor Hd]. split; [exact Hor|]. apply Hd. left. reflexivity.
  - intros [Hor Hsw]. split; [exact Hor|]. intros d0 [<-|[]]. exact Hsw.
Qed.

Theorem divide_reports_steps vr t here m ds ch uid t' rp uid' q o : cwf t -> divide_ok t here ds ->
  apply_opv vr t here (OpDivide D m ds ch) uid = Ok (t', rp, uid') ->
  (In (q, o) (step_paths t') <->
   (In (q, o) (step_paths t) \/ exists pi, In (q, pi) (r_step rp) /\ o = pi_obj pi) /\
   starts_with q (here ++ [m]) = false).
Proof.
  intros Hw Hok H. destruct (op_change_divide _ _ _ _ _ _ _ _ _ _ Hw Hok H) as (news & Hch & Hfit & _).
  rewrite (change_step_paths t t' rp news q o Hch Hfit).
  apply divide_inv3 in H. destruct H as (u & g & c & mo & subs & t1 & _ & _ & _ & _ & _ & Hp & _ & Hdel).
  rewrite Hdel, (step_adds_no_steps rp _ Hp). split.
  - intros [Hor Hd]. split; [exact Hor|]. apply Hd. left. reflexivity.
  - intros [Hor Hsw]. split; [exact Hor|]. intros d0 [<-|[]]. exact Hsw.
Qed.

(* premises: daughter keys new and pairwise distinct (divide_ok); kit: mk_child_no_procs, mk_child_cwf,
   build_cwf, copy_cwf.  build_steps is NOT needed: Store.divide splits by is_step(). *)
Theorem consistent_divide vr t here m ds ch uid t' rp uid' b b' : cwf t -> consistent_procs t b ->
  divide_ok t here ds ->
  apply_opv vr t here (OpDivide D m ds ch) uid = Ok (t', rp, uid') ->
  book_apply b rp = Ok b' -> consistent_procs t' b'.
Proof.
  intros Hw Hc Hok H Hb. destruct (op_change_divide _ _ _ _ _ _ _ _ _ _ Hw Hok H) as (news & Hch & Hfit & _).
  apply (consistent_procs_generic t t' b b' rp news Hc Hch Hfit Hb).
Qed.

Theorem consistent_steps_divide vr t here m ds ch uid t' rp uid' b b' : cwf t -> consistent_steps t b ->
  divide_ok t here ds ->
  apply_opv vr t here (OpDivide D m ds ch) uid = Ok (t', rp, uid') ->
  book_apply b rp = Ok b' -> consistent_steps t' b'.
Proof.
  intros Hw Hc Hok H Hb. destruct (op_change_divide _ _ _ _ _ _ _ _ _ _ Hw Hok H) as (news & Hch & Hfit & _).
  apply (consistent_steps_generic t t' b b' rp news Hc Hch Hfit Hb).
Qed.

(* ================= C. every operation; histories ================= *)
Definition op_ok (t : cnode) (here : list key) (o : sop D) : Prop :=
  match o with
  | OpGenerate _ k _ _ => cget t (here ++ [k]) = None                 (* the key is new *)
  | OpDivide _ _ ds _ => divide_ok t here ds                          (* the daughters' keys are new and distinct *)
  | _ => True      (* _add / _move / _delete: success is enough (an existing key is rejected, resp. not generated);
                      a plain value update of a child (OpUpd) needs no premise either *)
  end.

(* what each operation does, uniformly *)
Lemma op_change vr t here o uid t' rp uid' : cwf t -> op_ok t here o ->
  apply_opv vr t here o uid = Ok (t', rp, uid') ->
  exists news, node_change t t' (r_deletions rp) news /\ reports_fit t rp news.
Proof.
  intros Hw Hok H. destruct o as [k st|src tgt|src tgt|k d init|m ds ch|k|p|k v]; cbn [op_ok] in Hok.
  - exists []. apply (op_change_add _ _ _ _ _ _ _ _ _ Hw H).
  - apply (op_change_move _ _ _ _ _ _ _ _ _ Hw H).
  - apply (op_change_movep _ _ _ _ _ _ _ _ _ Hw H).
  - apply (op_change_generate _ _ _ _ _ _ _ _ _ _ Hw Hok H).
  - destruct (op_change_divide _ _ _ _ _ _ _ _ _ _ Hw Hok H) as (news & Hch & Hfit & _). exists news. auto.
  - exists []. apply (op_change_delete _ _ _ _ _ _ _ _ Hw H).
  - exists []. destruct (op_change_deletepath _ _ _ _ _ _ _ _ Hw H) as (Hch & Hfit & _). auto.
  - exists []. destruct (op_change_upd _ _ _ _ _ _ _ _ _ Hw H) as (Hch & Hfit & _). auto.
Qed.

(* well-formedness is preserved *)
Theorem apply_op_cwf vr t here o uid t' rp uid' : cwf t -> op_ok t here o ->
  apply_opv vr t here o uid = Ok (t', rp, uid') -> cwf t'.
Proof.
  intros Hw Hok H. destruct o as [k st|src tgt|src tgt|k d init|m ds ch|k|p|k v]; cbn [op_ok] in Hok.
  - apply add_inv3 in H. destruct H as (nd & _ & Hc & Hwn & _). apply (cset_cwf _ _ _ _ Hw Hwn Hc).
  - apply move_inv3 in H. destruct H as (u & g & c & node & t1 & Hd & Hl & _ & Hdl & Hcs & _).
    apply (cset_cwf _ _ _ _ (cdel_cwf _ _ _ Hw Hdl) (cwf_child u g c src node (cwf_cget t here _ Hw Hd) Hl) Hcs).
  - apply (movep_wf _ _ _ _ _ _ _ _ _ _ _ _ _ Hw H).
  - apply generate_inv3 in H. destruct H as (r & Es & Ec & _).
    apply (cset_cwf _ _ _ _ Hw (set_value_cwf _ _ _ _ _ (build_cwf d uid) Es) Ec).
  - destruct (op_change_divide _ _ _ _ _ _ _ _ _ _ Hw Hok H) as (news & _ & _ & Hw'). exact Hw'.
  - apply delete_inv3 in H. destruct H as (Hdl & _). apply (cdel_cwf _ _ _ Hw Hdl).
  - destruct (op_change_deletepath _ _ _ _ _ _ _ _ Hw H) as (_ & _ & Hw'). exact Hw'.
  - destruct (op_change_upd _ _ _ _ _ _ _ _ _ Hw H) as (_ & _ & Hw'). exact Hw'.
Qed.

(* one update carrying one operation keeps both tables consistent -- for every variant of the model *)
Theorem consistent_op_any vr t here o uid t' rp uid' b b' : cwf t -> op_ok t here o ->
  consistent_procs t b -> consistent_steps t b ->
  apply_opv vr t here o uid = Ok (t', rp, uid') -> book_apply b rp = Ok b' ->
  consistent_procs t' b' /\ consistent_steps t' b'.
Proof.
  intros Hw Hok Hcp Hcs H Hb. destruct (op_change _ _ _ _ _ _ _ _ Hw Hok H) as (news & Hch & Hfit).
  split; [apply (consistent_procs_generic t t' b b' rp news Hcp Hch Hfit Hb)
         |apply (consistent_steps_generic t t' b b' rp news Hcs Hch Hfit Hb)].
Qed.

(* the statement asked for: the faithful model with the repaired Store.move *)
Theorem consistent_op t here o uid t' rp uid' b b' : cwf t -> op_ok t here o ->
  consistent_procs t b -> consistent_steps t b ->
  apply_opv vfixed t here o uid = Ok (t', rp, uid') -> book_apply b rp = Ok b' ->
  consistent_procs t' b' /\ consistent_steps t' b'.
Proof. apply consistent_op_any. Qed.

(* _add creates no process (mk_child_no_procs): both tables are as they were *)
Theorem consistent_add vr t here k st uid t' rp uid' b b' : cwf t ->
  consistent_procs t b -> consistent_steps t b ->
  apply_opv vr t here (OpAdd D k st) uid = Ok (t', rp, uid') -> book_apply b rp = Ok b' ->
  consistent_procs t' b' /\ consistent_steps t' b'.
Proof.
  intros Hw Hcp Hcs H Hb. destruct (op_change_add _ _ _ _ _ _ _ _ _ Hw H) as [Hch Hfit].
  split; [apply (consistent_procs_generic t t' b b' rp [] Hcp Hch Hfit Hb)
         |apply (consistent_steps_generic t t' b b' rp [] Hcs Hch Hfit Hb)].
Qed.

(* _delete by path tuple does nothing in the faithful model (K4): tree and reports are empty-handed, so the
   tables stay consistent with the (unchanged) tree *)
Theorem consistent_deletepath t here p uid t' rp uid' b b' : cwf t ->
  consistent_procs t b -> consistent_steps t b ->
  apply_opv vfixed t here (OpDeletePath D p) uid = Ok (t', rp, uid') -> book_apply b rp = Ok b' ->
  t' = t /\ consistent_procs t' b' /\ consistent_steps t' b'.
Proof.
  intros Hw Hcp Hcs H Hb. split; [apply (deletepath_noop _ _ _ _ _ _ _ H)|].
  destruct (op_change_deletepath _ _ _ _ _ _ _ _ Hw H) as (Hch & Hfit & _).
  split; [apply (consistent_procs_generic t t' b b' rp [] Hcp Hch Hfit Hb)
         |apply (consistent_steps_generic t t' b b' rp [] Hcs Hch Hfit Hb)].
Qed.

(* a history of single-operation updates, each satisfying op_ok in the state it is applied to *)
Inductive history (vr : variant) : list (list key * sop D) -> cnode -> book -> N -> cnode -> book -> N -> Prop :=
| history_nil t b u : history vr [] t b u t b u
| history_cons here o h t b u t1 rp u1 b1 t' b' u' :
    op_ok t here o -> apply_opv vr t here o u = Ok (t1, rp, u1) -> book_apply b rp = Ok b1 ->
    history vr h t1 b1 u1 t' b' u' -> history vr ((here, o) :: h) t b u t' b' u'.

Theorem consistent_history_any vr h t b u t' b' u' : history vr h t b u t' b' u' ->
  cwf t -> consistent_procs t b -> consistent_steps t b ->
  cwf t' /\ consistent_procs t' b' /\ consistent_steps t' b'.
Proof.
  intros Hh. induction Hh as [t b u|here o h t b u t1 rp u1 b1 t' b' u' Hok Hop Hb Hh IH]; intros Hw Hcp Hcs.
  - auto.
  - destruct (consistent_op_any _ _ _ _ _ _ _ _ _ _ Hw Hok Hcp Hcs Hop Hb) as [Hcp1 Hcs1].
    apply (IH (apply_op_cwf _ _ _ _ _ _ _ _ Hw Hok Hop) Hcp1 Hcs1).
Qed.

Theorem consistent_history h t b u t' b' u' : history vfixed h t b u t' b' u' ->
  cwf t -> consistent_procs t b -> consistent_steps t b ->
  cwf t' /\ consistent_procs t' b' /\ consistent_steps t' b'.
Proof. apply consistent_history_any. Qed.

End Kit2.

(* ================= 6. the concrete kit of Model/StructC.v; counterexamples ================= *)
Ltac nd_keys := repeat (constructor; [cbn; intuition discriminate|]); constructor.
Ltac wf_tree :=
  lazymatch goal with
  | |- cwf (CDir _ _ _) =>
    apply cwf_dir; [cbn; nd_keys|cbn; repeat (apply Forall_cons; [cbn [snd]; wf_tree|]); apply Forall_nil]
  | |- cwf _ => constructor
  end.

Lemma structc_mk_child_no_procs : forall u, proc_nodes (fst (mk_child u)) [] = [].
Proof. intros u. reflexivity. Qed.

Lemma structc_mk_child_cwf : forall u, cwf (fst (mk_child u)).
Proof. intros u. unfold mk_child. cbn [fst]. wf_tree. Qed.

Lemma structc_build_cwf : forall x n, cwf (fst (build x n)).
Proof. intros x n. unfold build. destruct (is_inert x), (no_cnt x), (has_drv x), (has_flow x); cbn [fst app]; wf_tree. Qed.

Lemma structc_build_steps : forall x n p pi,
  In (p, pi) (proc_nodes (fst (build x n)) []) -> pi_in_steps pi = true -> pi_step pi = true.
Proof.
  intros x n p pi Hin Hi. unfold build in Hin.
  destruct (is_inert x), (no_cnt x), (has_drv x), (has_flow x); cbn [fst app] in Hin; rewrite proc_nodes_dir in Hin;
    cbn [flat_map fst snd proc_nodes cdepth app] in Hin;
    repeat (destruct Hin as [Hin|Hin]; [inversion Hin; subst; cbn in Hi |- *; congruence|]); destruct Hin.
Qed.

Lemma structc_copy_cwf : forall m n, cwf m -> cwf (fst (copy_procs m n)).
Proof.
  intros m n _. unfold copy_procs, mk_child.
  destruct (alookup kCnt (cchildren m)) as [[? ? ?|? ?|? ? ?]|]; cbn [fst]; wf_tree.
Qed.

(* ---- the theorems at the concrete kit ---- *)
Notation kop vr := (apply_op mk_child N build copy_procs vr).

Theorem structc_consistent_op t here o uid t' rp uid' b b' : cwf t -> op_ok N t here o ->
  consistent_procs t b -> consistent_steps t b ->
  kop vfixed t here o uid = Ok (t', rp, uid') -> book_apply b rp = Ok b' ->
  consistent_procs t' b' /\ consistent_steps t' b'.
Proof.
  apply (consistent_op mk_child N build copy_procs structc_mk_child_no_procs structc_mk_child_cwf
                       structc_build_cwf structc_build_steps structc_copy_cwf).
Qed.

Theorem structc_consistent_history h t b u t' b' u' :
  history mk_child N build copy_procs vfixed h t b u t' b' u' ->
  cwf t -> consistent_procs t b -> consistent_steps t b ->
  cwf t' /\ consistent_procs t' b' /\ consistent_steps t' b'.
Proof.
  apply (consistent_history mk_child N build copy_procs structc_mk_child_no_procs structc_mk_child_cwf
                            structc_build_cwf structc_build_steps structc_copy_cwf).
Qed.

(* the engine the harness builds, reduced: a holder process (key 12) and a colony (key 10, a glob) *)
Definition ex_root : cnode :=
  CDir 0 false [(12%N, CProc 1 {| pi_step := false; pi_in_steps := false; pi_flow := None; pi_obj := 2%N |});
                (10%N, CDir 3 true [])].
Definition ex_book : book :=
  {| b_procs := [([12%N], 2%N)]; b_steps := []; b_graph := empty_graph;
     pub_processes := [([12%N], 2%N)]; pub_steps := []; pub_topology := [[12%N]]; pub_flow := [] |}.

Lemma ex_root_ok : cwf ex_root /\ consistent_procs ex_root ex_book /\ consistent_steps ex_root ex_book.
Proof.
  split; [unfold ex_root; wf_tree|]. split; (split; [intros x; vm_compute; tauto|vm_compute; nd_keys]).
Qed.

Ltac run_history :=
  repeat (eapply history_cons; [cbn; first [reflexivity|split; [nd_keys|intros k Hk; cbn in Hk; intuition (subst; reflexivity)]|exact I]
                               |vm_compute; reflexivity|vm_compute; reflexivity|]);
  apply history_nil.

(* K8 does not touch the tables.  A compartment with a deriver and two flow steps (kind 3) is generated at
   key 20 of the colony and divided into two INHERITING daughters 21, 22: both tables stay consistent with the
   hierarchy (the daughters have no steps: step_paths t' = []), while the published flow and topology list
   the mother's steps under each daughter -- paths at which the hierarchy holds nothing. *)
Example k8_tables_consistent_publication_stale :
  exists t' b' u',
    history mk_child N build copy_procs vfixed
      [([10%N], OpGenerate N 20%N 3%N (Nd []));
       ([10%N], OpDivide N 20%N [(21%N, None, Nd []); (22%N, None, Nd [])] [])]
      ex_root ex_book 100%N t' b' u' /\
    consistent_procs t' b' /\ consistent_steps t' b' /\ step_paths t' = [] /\ b_steps b' = [] /\
    In [10%N; 21%N; kFst] (pub_topology b') /\ In ([10%N; 21%N; kFst2], [[Dn kFst]]) (pub_flow b') /\
    cget t' [10%N; 21%N; kFst] = None /\ cget t' [10%N; 21%N; kFst2] = None.
Proof.
  eexists. eexists. eexists.
  match goal with |- ?H /\ _ => assert (Hh : H) by run_history end.
  split; [exact Hh|]. destruct ex_root_ok as (Hw & Hcp & Hcs).
  destruct (structc_consistent_history _ _ _ _ _ _ _ Hh Hw Hcp Hcs) as (_ & Hc1 & Hc2).
  split; [exact Hc1|]. split; [exact Hc2|].
  vm_compute. repeat split; auto 20.
Qed.

(* K6 does not touch the tables either.  The same mother divided into two EXPLICIT daughters of kind 0 (a
   counting process only, no flow): the tables are consistent, the published flow lists the mother's flow
   steps under each daughter. *)
Example k6_tables_consistent_publication_stale :
  exists t' b' u',
    history mk_child N build copy_procs vfixed
      [([10%N], OpGenerate N 20%N 3%N (Nd []));
       ([10%N], OpDivide N 20%N [(21%N, Some 0%N, Nd []); (22%N, Some 0%N, Nd [])] [])]
      ex_root ex_book 100%N t' b' u' /\
    consistent_procs t' b' /\ consistent_steps t' b' /\ step_paths t' = [] /\ b_steps b' = [] /\
    In ([10%N; 21%N; kFst2], [[Dn kFst]]) (pub_flow b') /\ cget t' [10%N; 21%N; kFst2] = None.
Proof.
  eexists. eexists. eexists.
  match goal with |- ?H /\ _ => assert (Hh : H) by run_history end.
  split; [exact Hh|]. destruct ex_root_ok as (Hw & Hcp & Hcs).
  destruct (structc_consistent_history _ _ _ _ _ _ _ Hh Hw Hcp Hcs) as (_ & Hc1 & Hc2).
  split; [exact Hc1|]. split; [exact Hc2|].
  vm_compute. repeat split; auto 20.
Qed.

(* ---- the premises of division are needed ---- *)
(* a daughter key that exists already: compartment 21 (kind 3, with steps) is overwritten by an inheriting
   daughter of 20; nothing reports its steps as deleted, the engine keeps running them *)
Example divide_existing_key_counterexample :
  exists t b u t' rp u' b',
    history mk_child N build copy_procs vfixed
      [([10%N], OpGenerate N 20%N 0%N (Nd [])); ([10%N], OpGenerate N 21%N 3%N (Nd []))]
      ex_root ex_book 100%N t b u /\
    cwf t /\ consistent_procs t b /\ consistent_steps t b /\
    kop vfixed t [10%N] (OpDivide N 20%N [(21%N, None, Nd []); (22%N, None, Nd [])] []) u = Ok (t', rp, u') /\
    book_apply b rp = Ok b' /\
    NoDup (map (dkey N) [(21%N, None, Nd []); (22%N, None, Nd [])]) /\
    cget t [10%N; 21%N] <> None /\
    ~ consistent_steps t' b'.
Proof.
  eexists. eexists. eexists. eexists. eexists. eexists. eexists.
  match goal with |- ?H /\ _ => assert (Hh : H) by run_history end.
  split; [exact Hh|]. destruct ex_root_ok as (Hw & Hcp & Hcs).
  destruct (structc_consistent_history _ _ _ _ _ _ _ Hh Hw Hcp Hcs) as (Hw1 & Hc1 & Hc2).
  split; [exact Hw1|]. split; [exact Hc1|]. split; [exact Hc2|].
  split; [vm_compute; reflexivity|]. split; [vm_compute; reflexivity|].
  split; [cbn; nd_keys|]. split; [vm_compute; discriminate|].
  intros [Hss _]. specialize (proj1 (Hss ([10%N; 21%N; kFst], 125%N))). vm_compute. tauto.
Qed.

(* two daughters under one key: the second (kind 0) overwrites the first (kind 3), whose steps stay filed *)
Example divide_duplicate_key_counterexample :
  exists t b u t' rp u' b',
    history mk_child N build copy_procs vfixed [([10%N], OpGenerate N 20%N 0%N (Nd []))]
      ex_root ex_book 100%N t b u /\
    cwf t /\ consistent_procs t b /\ consistent_steps t b /\
    kop vfixed t [10%N] (OpDivide N 20%N [(21%N, Some 3%N, Nd []); (21%N, Some 0%N, Nd [])] []) u = Ok (t', rp, u') /\
    book_apply b rp = Ok b' /\
    (forall k, In k (map (dkey N) [(21%N, Some 3%N, Nd []); (21%N, Some 0%N, Nd [])]) -> cget t ([10%N] ++ [k]) = None) /\
    ~ consistent_steps t' b'.
Proof.
  eexists. eexists. eexists. eexists. eexists. eexists. eexists.
  match goal with |- ?H /\ _ => assert (Hh : H) by run_history end.
  split; [exact Hh|]. destruct ex_root_ok as (Hw & Hcp & Hcs).
  destruct (structc_consistent_history _ _ _ _ _ _ _ Hh Hw Hcp Hcs) as (Hw1 & Hc1 & Hc2).
  split; [exact Hw1|]. split; [exact Hc1|]. split; [exact Hc2|].
  split; [vm_compute; reflexivity|]. split; [vm_compute; reflexivity|].
  split; [intros k Hk; cbn in Hk; intuition (subst; reflexivity)|].
  intros [Hss _]. specialize (proj1 (Hss ([10%N; 21%N; kFst], 125%N))). vm_compute. tauto.
Qed.

(* ---- build_steps is needed for the step table ---- *)
(* the kit of Consistent_proofs.generate_reports_counterexample: `build` lists a plain Process (is_step() false)
   in the `steps` dict.  Store.insert reports it as a step update, Engine.apply_update files it in _step_paths
   without asking is_step(): the step table holds a path that is no Step of the hierarchy (and, by
   generate_reports_counterexample, the process table misses it).  All other premises hold. *)
Theorem generate_steps_counterexample :
  (forall u, proc_nodes (fst (cx_mk_child u)) [] = []) /\ (forall u, cwf (fst (cx_mk_child u))) /\
  (forall x n, cwf (fst (cx_build x n))) /\
  exists t b here k d init uid t' rp uid' b',
    cwf t /\ consistent_procs t b /\ consistent_steps t b /\ cget t (here ++ [k]) = None /\
    apply_op cx_mk_child unit cx_build cx_copy vfixed t here (OpGenerate unit k d init) uid = Ok (t', rp, uid') /\
    book_apply b rp = Ok b' /\
    ~ consistent_steps t' b' /\ ~ consistent_procs t' b'.
Proof.
  split; [intros u; reflexivity|]. split; [intros u; constructor|]. split; [intros x n; constructor|].
  exists (CDir 0%N false []),
         {| b_procs := []; b_steps := []; b_graph := empty_graph; pub_processes := []; pub_steps := [];
            pub_topology := []; pub_flow := [] |}, [], 0%N, tt, (Lf 0%Z), 1%N.
  eexists. eexists. eexists. eexists.
  split; [constructor; [constructor|constructor]|].
  split; [split; [intros x; vm_compute; tauto|constructor]|].
  split; [split; [intros x; vm_compute; tauto|constructor]|].
  split; [reflexivity|]. split; [vm_compute; reflexivity|]. split; [vm_compute; reflexivity|].
  split.
  - intros [Hss _]. specialize (proj1 (Hss ([0%N], 7%N))). vm_compute. tauto.
  - intros [Hss _]. specialize (proj2 (Hss ([0%N], 7%N))). vm_compute. tauto.
Qed.

(* ---- the premise of movep_reports / movep_reports_steps is needed for those statements ---- *)
(* the target [1;2] is the moved node itself: the attached copy [1;2;1;2] goes with the source, its step stays
   reported -- and is dropped again by the engine, which is why consistent_steps_movep needs no premise *)
Definition cxm_tree3 : cnode :=
  CDir 0%N false [(1%N, CDir 1%N false [(2%N, CDir 2%N false
     [(5%N, CProc 5%N {| pi_step := true; pi_in_steps := true; pi_flow := Some []; pi_obj := 6%N |})])])].

Example movep_reports_steps_premise_needed :
  exists t' rp uid',
    apply_op cx_mk_child unit cx_build cx_copy vfixed cxm_tree3 [] (OpMoveP unit [1%N; 2%N] [1%N; 2%N]) 10%N
      = Ok (t', rp, uid') /\
    cwf cxm_tree3 /\ step_paths t' = [] /\
    (exists pi, In ([1%N; 2%N; 1%N; 2%N; 5%N], pi) (r_step rp) /\ 6%N = pi_obj pi) /\
    r_deletions rp = [[1%N; 2%N]].
Proof.
  eexists. eexists. eexists. split; [vm_compute; reflexivity|].
  split; [unfold cxm_tree3; wf_tree|]. split; [vm_compute; reflexivity|].
  split; [|vm_compute; reflexivity]. eexists. split; [vm_compute; left; reflexivity|reflexivity].
Qed.

Print Assumptions book_apply_steps_eq.
Print Assumptions book_apply_steps.
Print Assumptions book_apply_steps_nodup.
Print Assumptions set_value_cwf.
Print Assumptions move_target_not_inside.
Print Assumptions delete_reports_steps.
Print Assumptions generate_reports_steps_partial.
Print Assumptions generate_reports_steps_complete.
Print Assumptions move_reports_steps.
Print Assumptions movep_reports_steps.
Print Assumptions movep_reports_steps_gen.
Print Assumptions movep_reports_gen.
Print Assumptions consistent_steps_delete.
Print Assumptions consistent_steps_generate.
Print Assumptions consistent_steps_move.
Print Assumptions consistent_move_any.
Print Assumptions consistent_steps_movep.
Print Assumptions consistent_movep_any.
Print Assumptions divide_reports.
Print Assumptions divide_reports_procs.
Print Assumptions divide_reports_steps.
Print Assumptions consistent_divide.
Print Assumptions consistent_steps_divide.
Print Assumptions apply_op_cwf.
Print Assumptions consistent_op_any.
Print Assumptions consistent_op.
Print Assumptions consistent_add.
Print Assumptions consistent_deletepath.
Print Assumptions consistent_history_any.
Print Assumptions consistent_history.
Print Assumptions structc_consistent_op.
Print Assumptions structc_consistent_history.
Print Assumptions k8_tables_consistent_publication_stale.
Print Assumptions k6_tables_consistent_publication_stale.
Print Assumptions divide_existing_key_counterexample.
Print Assumptions divide_duplicate_key_counterexample.
Print Assumptions generate_steps_counterexample.
Print Assumptions movep_reports_steps_premise_needed.
Print Assumptions cadd_cuid.
Print Assumptions cadd_cuids.
Print Assumptions cadd_procs.
Print Assumptions cadd_cwf.
