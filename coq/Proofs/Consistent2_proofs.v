(* C10, continued: the engine's STEP table follows the hierarchy through every structural operation,
   division keeps both tables consistent, and the invariant
       consistent_procs t b /\ consistent_steps t b
   is preserved
     - by Engine.apply_update's folding of the reports (book_apply: deletions first, then registration) after every
       single-operation update whose reports do not lie under its deletions (consistent_op, consistent_history);
     - by the full engine step (engine_apply: ... of what the store still holds) after every single operation
       (engine_consistent_op), after one update carrying any number of operations (engine_consistent_ops) and
       along any history of such updates (engine_consistent_history).
   The pinned order (register, then delete) is refuted on the concrete kit (book_apply_pinned_refuted).

   Layout:
     1. lists
     2. the step table after Engine.apply_update (book_apply_steps / _nodup; book_apply_steps_eq: Struct_proofs)
     3. a uniform description of what ONE operation does to the process nodes of the tree (node_change) and of
        how its reports fit that change (reports_fit)
     3a. a uniform description of what ONE UPDATE (one or several operations) does (upd_fit); the generic
        consistency lemmas for book_apply (every new node is held) and engine_apply (no such premise)
     4. the description for each operation (the op_change lemmas), the per-operation reports_steps
        and consistent_steps theorems, division
     5. well-formedness is preserved (apply_op_cwf), consistent_op, consistent_history; D: several operations,
        engine_consistent_ops, engine_history, the two updates the repair is about
     6. counterexamples on concrete kits
     7. the record of the pinned order *)
From Coq Require Import List NArith ZArith Bool Lia.
From Viv Require Import Base.Assoc Base.Tree Model.Paths Model.Steps Model.Struct Model.StructC
  Proofs.Struct_proofs Proofs.Consistent_proofs Proofs.MoveP_proofs.
Import ListNotations.

(* ================= 1. lists ================= *)
(* path_eq_dec, nodup_fst_functional, pset_keys / pset_nodup / pset_in, psetf_fold_nodup / psetf_fold_in: now in
   Consistent_proofs; nonstep, isstep, entry, psetf, step_adds, book_apply_steps_eq: Struct_proofs *)
Lemma filter_filter_impl {A} (f g : A -> bool) l :
  (forall x, In x l -> f x = true -> g x = true) -> filter f (filter g l) = filter f l.
Proof.
  induction l as [|x l IH]; intros H; [reflexivity|]. cbn [filter].
  assert (IH' : filter f (filter g l) = filter f l) by (apply IH; intros y Hy; apply H; right; exact Hy).
  destruct (g x) eqn:Eg; cbn [filter].
  - rewrite IH'. reflexivity.
  - destruct (f x) eqn:Ef; [|exact IH']. rewrite (H x (or_introl eq_refl) Ef) in Eg. discriminate Eg.
Qed.

Lemma filter_flat_map {A B} (f : B -> bool) (g : A -> list B) l :
  filter f (flat_map g l) = flat_map (fun x => filter f (g x)) l.
Proof.
  induction l as [|x l IH]; [reflexivity|]. cbn [flat_map]. rewrite filter_app, IH. reflexivity.
Qed.

Lemma filter_idem {A} (f : A -> bool) l : filter f (filter f l) = filter f l.
Proof. apply filter_filter_impl. intros x _ H. exact H. Qed.

(* ================= 2. the step table after Engine.apply_update ================= *)
(* which steps are registered (DELETIONS FIRST, THEN REGISTRATION): those of the table that lie under no reported
   deletion and are not re-assigned, and the reported ones (two reports of one path must agree on the object:
   then the order does not matter) -- also one reported under a deleted path *)
Theorem book_apply_steps b rp b' q o : NoDup (map fst (b_steps b)) ->
  (forall p pi pi', In (p, pi) (step_adds rp) -> In (p, pi') (step_adds rp) -> pi_obj pi = pi_obj pi') ->
  book_apply b rp = Ok b' ->
  (In (q, o) (b_steps b') <->
   (In (q, o) (b_steps b) /\ (forall d, In d (r_deletions rp) -> starts_with q d = false) /\
    ~ In q (map fst (step_adds rp))) \/
   exists pi, In (q, pi) (step_adds rp) /\ o = pi_obj pi).
Proof.
  intros Hnd Hfun H. rewrite (book_apply_steps_eq b rp b' H).
  rewrite (psetf_fold_in _ _ q o (nodup_pdrop_fold _ _ Hnd) Hfun), pdrop_fold_in. tauto.
Qed.

(* the table keeps one entry per path: no premise on the report *)
Theorem book_apply_steps_nodup b rp b' : NoDup (map fst (b_steps b)) ->
  book_apply b rp = Ok b' -> NoDup (map fst (b_steps b')).
Proof.
  intros Hnd H. rewrite (book_apply_steps_eq b rp b' H).
  apply psetf_fold_nodup, nodup_pdrop_fold. exact Hnd.
Qed.

(* ================= 3. what an operation does to the process nodes; how its reports fit ================= *)
Lemma in_step_paths t q o :
  In (q, o) (step_paths t) <->
  exists pi, In (q, pi) (proc_nodes t []) /\ pi_step pi = true /\ o = pi_obj pi.
Proof.
  unfold step_paths. rewrite in_flat_map. split.
  - intros ([q' pi] & Hin & Hq). cbn [fst snd] in Hq. destruct (pi_step pi) eqn:Es; [|destruct Hq].
    destruct Hq as [Hq|[]]. inversion Hq; subst. exists pi. auto.
  - intros (pi & Hin & Hs & ->). exists (q, pi). split; [exact Hin|]. cbn [fst snd]. rewrite Hs.
    left. reflexivity.
Qed.

(* ONE OPERATION: the process nodes (processes and steps alike) of t' are those of t and the new ones, outside
   the deleted subtrees.  (This describes the store operation only; how Engine.apply_update follows it -- deletions
   first, then only what is still held -- is section 3a.) *)
Definition node_change (t t' : cnode) (dels : list (list key)) (news : list (list key * pinfo)) : Prop :=
  forall q pi, In (q, pi) (proc_nodes t' []) <->
    (In (q, pi) (proc_nodes t []) \/ In (q, pi) news) /\ forall d, In d dels -> starts_with q d = false.

(* the new nodes sit at pairwise distinct paths that hold no process node of t; the non-step ones are the
   non-step process updates (in that order), the steps are what the engine files as steps *)
Definition reports_fit (t : cnode) (rp : reports) (news : list (list key * pinfo)) : Prop :=
  NoDup (map fst news) /\
  (forall q pi, In (q, pi) news -> forall pi0, ~ In (q, pi0) (proc_nodes t [])) /\
  filter nonstep (r_process rp) = filter nonstep news /\
  (forall q pi, In (q, pi) (step_adds rp) <-> In (q, pi) news /\ pi_step pi = true).

(* ================= 3a. one whole update (one operation or several): summary, and the two tables ================= *)
Definition clear_of (q : list key) (ds : list (list key)) : Prop := forall d, In d ds -> starts_with q d = false.

(* how the process nodes of the hierarchy changed over one update that reported rp, `news` being every node the
   update put somewhere (whether or not it is still there at the end):
   - a node of t' is a node of t under no reported deletion, or one of the new ones;
   - the nodes of t under no reported deletion are still there, and so are the new ones under no deletion;
   - a path at which a new node was put held no node of t, unless a deletion covered it;
   - the non-step process updates are the new non-step nodes, what the engine files as steps the new Steps *)
Definition upd_fit (t t' : cnode) (rp : reports) (news : list (list key * pinfo)) : Prop :=
  (forall q pi, In (q, pi) (proc_nodes t' []) ->
     (In (q, pi) (proc_nodes t []) /\ clear_of q (r_deletions rp)) \/ In (q, pi) news) /\
  (forall q pi, In (q, pi) (proc_nodes t []) -> clear_of q (r_deletions rp) -> In (q, pi) (proc_nodes t' [])) /\
  (forall q pi, In (q, pi) news -> clear_of q (r_deletions rp) -> In (q, pi) (proc_nodes t' [])) /\
  (forall q pi pi0, In (q, pi) news -> In (q, pi0) (proc_nodes t []) -> ~ clear_of q (r_deletions rp)) /\
  (forall q pi, pi_step pi = false -> (In (q, pi) (r_process rp) <-> In (q, pi) news)) /\
  (forall q pi, In (q, pi) (step_adds rp) <-> In (q, pi) news /\ pi_step pi = true).

(* every new node is in the final hierarchy, up to the record: same object, same is_step() *)
Definition news_held (t' : cnode) (news : list (list key * pinfo)) : Prop :=
  forall q pi, In (q, pi) news ->
    exists pi', In (q, pi') (proc_nodes t' []) /\ pi_obj pi' = pi_obj pi /\ pi_step pi' = pi_step pi.

(* two reports that put the same object at the same path agree on is_step() (an object has one class) *)
Definition news_coherent (news : list (list key * pinfo)) : Prop :=
  forall q pi pi', In (q, pi) news -> In (q, pi') news -> pi_obj pi = pi_obj pi' -> pi_step pi = pi_step pi'.
Definition reports_coherent (rp : reports) : Prop := news_coherent (r_process rp ++ r_step rp).

(* no reported process / step lies under a deletion of the same report *)
Definition reports_clear (rp : reports) : Prop :=
  forall q pi, In (q, pi) (r_process rp ++ r_step rp) -> clear_of q (r_deletions rp).

Lemma upd_fit_reported t t' rp news q pi : upd_fit t t' rp news ->
  In (q, pi) news -> In (q, pi) (r_process rp ++ r_step rp).
Proof.
  intros (_ & _ & _ & _ & U5 & U6) Hin. apply in_or_app. destruct (pi_step pi) eqn:Es.
  - assert (H : In (q, pi) (step_adds rp)) by (apply U6; auto).
    apply in_step_adds in H. destruct H as [[H _]|H]; auto.
  - left. apply U5; assumption.
Qed.

Lemma nodup_news_coherent news : NoDup (map fst news) -> news_coherent news.
Proof. intros Hnd q pi pi' H1 H2 _. rewrite (nodup_fst_functional news q pi pi' Hnd H1 H2). reflexivity. Qed.

Lemma reports_news_coherent t t' rp news : upd_fit t t' rp news -> reports_coherent rp -> news_coherent news.
Proof.
  intros Hfit Hco q pi pi' H1 H2 Ho.
  apply (Hco q pi pi' (upd_fit_reported _ _ _ _ _ _ Hfit H1) (upd_fit_reported _ _ _ _ _ _ Hfit H2) Ho).
Qed.

(* coherence is decidable: for concrete reports it is checked by computation *)
Definition coherentb (l : list (list key * pinfo)) : bool :=
  forallb (fun x => forallb (fun y =>
     implb (kpath_eqb (fst x) (fst y) && N.eqb (pi_obj (snd x)) (pi_obj (snd y)))
           (Bool.eqb (pi_step (snd x)) (pi_step (snd y)))) l) l.

Lemma coherentb_sound l : coherentb l = true -> news_coherent l.
Proof.
  unfold coherentb. intros H q pi pi' H1 H2 Ho. rewrite forallb_forall in H.
  specialize (H (q, pi) H1). rewrite forallb_forall in H. specialize (H (q, pi') H2). cbn [fst snd] in H.
  rewrite kpath_eqb_refl, Ho, N.eqb_refl in H. cbn [andb implb] in H. apply eqb_prop in H. exact H.
Qed.

Lemma reports_coherentb_sound rp : coherentb (r_process rp ++ r_step rp) = true -> reports_coherent rp.
Proof. apply coherentb_sound. Qed.

Lemma news_held_clear t t' rp news : upd_fit t t' rp news -> reports_clear rp -> news_held t' news.
Proof.
  intros Hfit Hcl q pi Hin. exists pi. split; [|auto].
  pose proof (upd_fit_reported _ _ _ _ _ _ Hfit Hin) as Hr.
  destruct Hfit as (_ & _ & U3 & _). apply (U3 q pi Hin). apply (Hcl q pi Hr).
Qed.

(* ---- Engine.apply_update's folding (book_apply) after such an update, when every new node is held ---- *)
Definition news_functional (news : list (list key * pinfo)) : Prop :=
  forall p pi pi', In (p, pi) news -> In (p, pi') news -> pi_obj pi = pi_obj pi'.

Lemma news_held_functional t' news : cwf t' -> news_held t' news -> news_functional news.
Proof.
  intros Hw' Hheld p pi pi' H1 H2.
  destruct (Hheld p pi H1) as (x1 & Hx1 & Ho1 & _). destruct (Hheld p pi' H2) as (x2 & Hx2 & Ho2 & _).
  rewrite <- Ho1, <- Ho2.
  rewrite (nodup_fst_functional _ p x1 x2 (proc_nodes_nodup t' Hw' []) Hx1 Hx2). reflexivity.
Qed.

Lemma book_consistent_procs_generic t t' b b' rp news :
  consistent_procs t b -> upd_fit t t' rp news -> news_held t' news -> news_functional news ->
  book_apply b rp = Ok b' -> consistent_procs t' b'.
Proof.
  intros [Hss Hnd] (U1 & U2 & U3 & U4 & U5 & U6) Hheld Hnf Hb.
  split; [|apply (book_apply_nodup b rp b' Hnd Hb)].
  assert (Hfun : forall p pi pi', In (p, pi) (filter nonstep (r_process rp)) ->
                   In (p, pi') (filter nonstep (r_process rp)) -> pi_obj pi = pi_obj pi').
  { intros p pi pi' H1 H2. apply in_filter_nonstep in H1. apply in_filter_nonstep in H2.
    destruct H1 as [H1 Hs1]. destruct H2 as [H2 Hs2]. apply (U5 _ _ Hs1) in H1. apply (U5 _ _ Hs2) in H2.
    apply (Hnf p pi pi' H1 H2). }
  intros [q o]. rewrite (book_apply_procs b rp b' q o Hnd Hfun Hb), in_proc_paths. split.
  - intros [(Hin & Hcl & _)|(pi & Hin & Hs & Ho)].
    + apply Hss in Hin. apply in_proc_paths in Hin. destruct Hin as (pi & Hin & Hs & Ho).
      exists pi. split; [apply (U2 q pi Hin Hcl)|auto].
    + apply (U5 _ _ Hs) in Hin. destruct (Hheld q pi Hin) as (pi' & Hin' & Hobj & Hst).
      exists pi'. split; [exact Hin'|]. split; [rewrite Hst; exact Hs|rewrite Hobj; exact Ho].
  - intros (pi & Hin & Hs & Ho). destruct (U1 q pi Hin) as [[Hin0 Hcl]|Hn].
    + left. split; [apply Hss; apply in_proc_paths; exists pi; auto|]. split; [exact Hcl|].
      intros Hk. apply in_map_iff in Hk. destruct Hk as ([q' pi1] & Heq & Hk). cbn [fst] in Heq. subst q'.
      apply in_filter_nonstep in Hk. destruct Hk as [Hk Hs1]. apply (U5 _ _ Hs1) in Hk.
      apply (U4 q pi1 pi Hk Hin0 Hcl).
    + right. exists pi. split; [apply (U5 _ _ Hs); exact Hn|auto].
Qed.

Lemma book_consistent_steps_generic t t' b b' rp news :
  consistent_steps t b -> upd_fit t t' rp news -> news_held t' news -> news_functional news ->
  book_apply b rp = Ok b' -> consistent_steps t' b'.
Proof.
  intros [Hss Hnd] (U1 & U2 & U3 & U4 & U5 & U6) Hheld Hnf Hb.
  split; [|apply (book_apply_steps_nodup b rp b' Hnd Hb)].
  assert (Hfun : forall p pi pi', In (p, pi) (step_adds rp) -> In (p, pi') (step_adds rp) -> pi_obj pi = pi_obj pi').
  { intros p pi pi' H1 H2. apply U6 in H1. apply U6 in H2. destruct H1 as [H1 _]. destruct H2 as [H2 _].
    apply (Hnf p pi pi' H1 H2). }
  intros [q o]. rewrite (book_apply_steps b rp b' q o Hnd Hfun Hb), in_step_paths. split.
  - intros [(Hin & Hcl & _)|(pi & Hin & Ho)].
    + apply Hss in Hin. apply in_step_paths in Hin. destruct Hin as (pi & Hin & Hs & Ho).
      exists pi. split; [apply (U2 q pi Hin Hcl)|auto].
    + apply U6 in Hin. destruct Hin as [Hin Hs]. destruct (Hheld q pi Hin) as (pi' & Hin' & Hobj & Hst).
      exists pi'. split; [exact Hin'|]. split; [rewrite Hst; exact Hs|rewrite Hobj; exact Ho].
  - intros (pi & Hin & Hs & Ho). destruct (U1 q pi Hin) as [[Hin0 Hcl]|Hn].
    + left. split; [apply Hss; apply in_step_paths; exists pi; auto|]. split; [exact Hcl|].
      intros Hk. apply in_map_iff in Hk. destruct Hk as ([q' pi1] & Heq & Hk). cbn [fst] in Heq. subst q'.
      apply U6 in Hk. destruct Hk as [Hk _]. apply (U4 q pi1 pi Hk Hin0 Hcl).
    + right. exists pi. split; [apply U6; auto|exact Ho].
Qed.

(* ---- the full engine step: what the store still holds ---- *)
Definition heldf (t' : cnode) (rp : reports) (pp : list key * pinfo) : bool :=
  match r_deletions rp with [] => true | _ :: _ => held_proc t' pp end.

Lemma heldf_true t' rp pp : heldf t' rp pp = true <-> r_deletions rp = [] \/ held_proc t' pp = true.
Proof.
  unfold heldf. destruct (r_deletions rp) as [|d ds].
  - split; auto.
  - split; [auto|intros [H|H]; [discriminate H|exact H]].
Qed.

Lemma held_in_tree t' q pi : cwf t' -> In (q, pi) (proc_nodes t' []) -> held_proc t' (q, pi) = true.
Proof.
  intros Hw Hin. apply (proc_nodes_cget t' [] q pi Hw) in Hin. destruct Hin as (u & Hc).
  unfold held_proc. cbn [fst snd]. rewrite Hc. apply N.eqb_refl.
Qed.

Lemma held_proc_inv t' q pi : cwf t' -> held_proc t' (q, pi) = true ->
  exists pi', In (q, pi') (proc_nodes t' []) /\ pi_obj pi' = pi_obj pi.
Proof.
  intros Hw H. unfold held_proc in H. cbn [fst snd] in H.
  destruct (cget t' q) as [[u v d|u pi'|u g c]|] eqn:E; try discriminate H.
  apply N.eqb_eq in H. exists pi'. split; [|exact H].
  apply (proc_nodes_cget t' [] q pi' Hw). exists u. exact E.
Qed.

(* the held part of an update fits, and all of it is in the final hierarchy *)
Lemma upd_fit_held t t' rp news : cwf t' -> upd_fit t t' rp news -> news_coherent news ->
  upd_fit t t' (held_reports t' rp) (filter (heldf t' rp) news) /\ news_held t' (filter (heldf t' rp) news).
Proof.
  intros Hw' (U1 & U2 & U3 & U4 & U5 & U6) Hco. split.
  - unfold upd_fit. rewrite held_deletions. split; [|split; [|split; [|split; [|split]]]].
    + intros q pi Hin. destruct (U1 q pi Hin) as [H|H]; [left; exact H|right].
      apply filter_In. split; [exact H|]. apply heldf_true. right. apply (held_in_tree t' q pi Hw' Hin).
    + exact U2.
    + intros q pi Hin. apply filter_In in Hin. destruct Hin as [Hin _]. apply (U3 q pi Hin).
    + intros q pi pi0 Hin. apply filter_In in Hin. destruct Hin as [Hin _]. apply (U4 q pi pi0 Hin).
    + intros q pi Hs. rewrite held_process_in, filter_In, heldf_true, (U5 q pi Hs). reflexivity.
    + intros q pi. rewrite in_step_adds, held_process_in, held_step_in, filter_In, heldf_true.
      pose proof (U6 q pi) as H6. rewrite in_step_adds in H6. tauto.
  - intros q pi Hin. apply filter_In in Hin. destruct Hin as [Hin Hh]. apply heldf_true in Hh.
    destruct Hh as [Hnil|Hh].
    + exists pi. split; [|auto]. apply (U3 q pi Hin). rewrite Hnil. intros d [].
    + destruct (held_proc_inv t' q pi Hw' Hh) as (pi' & Hin' & Ho). exists pi'. split; [exact Hin'|]. split; [exact Ho|].
      destruct (U1 q pi' Hin') as [[Hin0 Hcl]|Hn].
      * exfalso. apply (U4 q pi pi' Hin Hin0 Hcl).
      * apply (Hco q pi' pi Hn Hin Ho).
Qed.

Lemma engine_consistent_procs_generic t t' b b' rp news : cwf t' ->
  consistent_procs t b -> upd_fit t t' rp news -> news_coherent news ->
  engine_apply b t' rp = Ok b' -> consistent_procs t' b'.
Proof.
  intros Hw' Hc Hfit Hco Hb. destruct (upd_fit_held t t' rp news Hw' Hfit Hco) as [Hfit' Hheld].
  apply (book_consistent_procs_generic t t' b b' _ _ Hc Hfit' Hheld (news_held_functional _ _ Hw' Hheld) Hb).
Qed.

Lemma engine_consistent_steps_generic t t' b b' rp news : cwf t' ->
  consistent_steps t b -> upd_fit t t' rp news -> news_coherent news ->
  engine_apply b t' rp = Ok b' -> consistent_steps t' b'.
Proof.
  intros Hw' Hc Hfit Hco Hb. destruct (upd_fit_held t t' rp news Hw' Hfit Hco) as [Hfit' Hheld].
  apply (book_consistent_steps_generic t t' b b' _ _ Hc Hfit' Hheld (news_held_functional _ _ Hw' Hheld) Hb).
Qed.

(* ---- one operation is such an update; one more operation keeps it one ---- *)
Lemma op_upd_fit t t' rp news : node_change t t' (r_deletions rp) news -> reports_fit t rp news ->
  upd_fit t t' rp news /\ news_coherent news.
Proof.
  intros Hch (Hnn & Hfresh & Hpr & Hst). split; [|apply (nodup_news_coherent news Hnn)].
  split; [|split; [|split; [|split; [|split]]]].
  - intros q pi Hin. apply Hch in Hin. destruct Hin as [[Hin|Hin] Hcl]; [left; auto|right; exact Hin].
  - intros q pi Hin Hcl. apply Hch. auto.
  - intros q pi Hin Hcl. apply Hch. auto.
  - intros q pi pi0 Hin Hin0 _. apply (Hfresh q pi Hin pi0 Hin0).
  - intros q pi Hs. split; intros Hin.
    + assert (H : In (q, pi) (filter nonstep (r_process rp))) by (apply in_filter_nonstep; auto).
      rewrite Hpr in H. apply in_filter_nonstep in H. destruct H as [H _]. exact H.
    + assert (H : In (q, pi) (filter nonstep news)) by (apply in_filter_nonstep; auto).
      rewrite <- Hpr in H. apply in_filter_nonstep in H. destruct H as [H _]. exact H.
  - exact Hst.
Qed.

Lemma upd_fit_refl t : upd_fit t t no_reports [].
Proof.
  split; [|split; [|split; [|split; [|split]]]]; cbn.
  - intros q pi Hin. left. split; [exact Hin|intros d []].
  - intros q pi Hin _. exact Hin.
  - intros q pi [].
  - intros q pi pi0 [].
  - intros q pi _. reflexivity.
  - intros q pi. split; [intros []|intros [[] _]].
Qed.

Lemma clear_of_app q a b : clear_of q (a ++ b) <-> clear_of q a /\ clear_of q b.
Proof.
  unfold clear_of. split.
  - intros H. split; intros d Hd; apply H; apply in_or_app; auto.
  - intros [Ha Hb] d Hd. apply in_app_or in Hd. destruct Hd as [Hd|Hd]; auto.
Qed.

Lemma upd_fit_step t t1 t2 rp1 n1 rp2 n2 :
  upd_fit t t1 rp1 n1 -> node_change t1 t2 (r_deletions rp2) n2 -> reports_fit t1 rp2 n2 ->
  upd_fit t t2 (rapp rp1 rp2) (n1 ++ n2).
Proof.
  intros (U1 & U2 & U3 & U4 & U5 & U6) Hch (Hnn & Hfresh & Hpr & Hst).
  unfold upd_fit. cbn [rapp r_deletions r_process]. split; [|split; [|split; [|split; [|split]]]].
  - intros q pi Hin. apply Hch in Hin. destruct Hin as [[Hin|Hin] Hcl2].
    + destruct (U1 q pi Hin) as [[Hin0 Hcl1]|Hn].
      * left. split; [exact Hin0|]. apply clear_of_app. auto.
      * right. apply in_or_app. auto.
    + right. apply in_or_app. auto.
  - intros q pi Hin Hcl. apply clear_of_app in Hcl. destruct Hcl as [Hcl1 Hcl2]. apply Hch. split; [|exact Hcl2].
    left. apply (U2 q pi Hin Hcl1).
  - intros q pi Hin Hcl. apply clear_of_app in Hcl. destruct Hcl as [Hcl1 Hcl2]. apply Hch. split; [|exact Hcl2].
    apply in_app_or in Hin. destruct Hin as [Hin|Hin]; [left; apply (U3 q pi Hin Hcl1)|right; exact Hin].
  - intros q pi pi0 Hin Hin0 Hcl. apply clear_of_app in Hcl. destruct Hcl as [Hcl1 Hcl2].
    apply in_app_or in Hin. destruct Hin as [Hin|Hin].
    + apply (U4 q pi pi0 Hin Hin0 Hcl1).
    + apply (Hfresh q pi Hin pi0). apply (U2 q pi0 Hin0 Hcl1).
  - intros q pi Hs. rewrite !in_app_iff, (U5 q pi Hs).
    assert (H2 : In (q, pi) (r_process rp2) <-> In (q, pi) n2).
    { split; intros Hin.
      - assert (H : In (q, pi) (filter nonstep (r_process rp2))) by (apply in_filter_nonstep; auto).
        rewrite Hpr in H. apply in_filter_nonstep in H. destruct H as [H _]. exact H.
      - assert (H : In (q, pi) (filter nonstep n2)) by (apply in_filter_nonstep; auto).
        rewrite <- Hpr in H. apply in_filter_nonstep in H. destruct H as [H _]. exact H. }
    rewrite H2. reflexivity.
  - intros q pi. rewrite in_step_adds. cbn [rapp r_process r_step]. rewrite !in_app_iff.
    pose proof (U6 q pi) as H1. pose proof (Hst q pi) as H2. rewrite in_step_adds in H1, H2. tauto.
Qed.

(* no reported path under a reported deletion: Engine.apply_update's folding alone does it *)
Lemma book_consistent_procs_op t t' b b' rp news : consistent_procs t b ->
  node_change t t' (r_deletions rp) news -> reports_fit t rp news -> reports_clear rp ->
  book_apply b rp = Ok b' -> consistent_procs t' b'.
Proof.
  intros Hc Hch Hfit Hcl Hb. destruct (op_upd_fit t t' rp news Hch Hfit) as [Hu _].
  apply (book_consistent_procs_generic t t' b b' rp news Hc Hu (news_held_clear _ _ _ _ Hu Hcl)
           (nodup_reports_functional news (proj1 Hfit)) Hb).
Qed.

Lemma book_consistent_steps_op t t' b b' rp news : consistent_steps t b ->
  node_change t t' (r_deletions rp) news -> reports_fit t rp news -> reports_clear rp ->
  book_apply b rp = Ok b' -> consistent_steps t' b'.
Proof.
  intros Hc Hch Hfit Hcl Hb. destruct (op_upd_fit t t' rp news Hch Hfit) as [Hu _].
  apply (book_consistent_steps_generic t t' b b' rp news Hc Hu (news_held_clear _ _ _ _ Hu Hcl)
           (nodup_reports_functional news (proj1 Hfit)) Hb).
Qed.

Lemma reports_clear_nil rp : r_process rp = [] -> r_step rp = [] -> reports_clear rp.
Proof. intros Hp Hs q pi Hin. rewrite Hp, Hs in Hin. destruct Hin. Qed.

Lemma reports_clear_nodel rp : r_deletions rp = [] -> reports_clear rp.
Proof. intros Hd q pi _. rewrite Hd. intros d []. Qed.

Lemma engine_consistent_procs_op t t' b b' rp news : cwf t' -> consistent_procs t b ->
  node_change t t' (r_deletions rp) news -> reports_fit t rp news ->
  engine_apply b t' rp = Ok b' -> consistent_procs t' b'.
Proof.
  intros Hw' Hc Hch Hfit Hb. destruct (op_upd_fit t t' rp news Hch Hfit) as [Hu Hco].
  apply (engine_consistent_procs_generic t t' b b' rp news Hw' Hc Hu Hco Hb).
Qed.

Lemma engine_consistent_steps_op t t' b b' rp news : cwf t' -> consistent_steps t b ->
  node_change t t' (r_deletions rp) news -> reports_fit t rp news ->
  engine_apply b t' rp = Ok b' -> consistent_steps t' b'.
Proof.
  intros Hw' Hc Hch Hfit Hb. destruct (op_upd_fit t t' rp news Hch Hfit) as [Hu Hco].
  apply (engine_consistent_steps_generic t t' b b' rp news Hw' Hc Hu Hco Hb).
Qed.

(* the same, read as "the reports describe exactly how the two sets changed" *)
Lemma change_proc_paths t t' rp news q o :
  node_change t t' (r_deletions rp) news -> reports_fit t rp news ->
  (In (q, o) (proc_paths t') <->
   (In (q, o) (proc_paths t) \/ exists pi, In (q, pi) (r_process rp) /\ pi_step pi = false /\ o = pi_obj pi) /\
   forall d, In d (r_deletions rp) -> starts_with q d = false).
Proof.
  intros Hch (_ & _ & Hpr & _). rewrite !in_proc_paths.
  assert (Hiff : forall pi, In (q, pi) (r_process rp) /\ pi_step pi = false <-> In (q, pi) news /\ pi_step pi = false).
  { intros pi. rewrite <- !in_filter_nonstep, Hpr. reflexivity. }
  split.
  - intros (pi & Hin & Hs & Ho). apply Hch in Hin. destruct Hin as [[Hin|Hin] Hd]; (split; [|exact Hd]).
    + left. exists pi. auto.
    + right. exists pi. destruct (proj2 (Hiff pi) (conj Hin Hs)) as [H _]. auto.
  - intros [[(pi & Hin & Hs & Ho)|(pi & Hin & Hs & Ho)] Hd]; exists pi; (split; [|auto]); apply Hch.
    + auto.
    + destruct (proj1 (Hiff pi) (conj Hin Hs)) as [H _]. auto.
Qed.

Lemma change_step_paths t t' rp news q o :
  node_change t t' (r_deletions rp) news -> reports_fit t rp news ->
  (In (q, o) (step_paths t') <->
   (In (q, o) (step_paths t) \/ exists pi, In (q, pi) (step_adds rp) /\ o = pi_obj pi) /\
   forall d, In d (r_deletions rp) -> starts_with q d = false).
Proof.
  intros Hch (_ & _ & _ & Hst). rewrite !in_step_paths. split.
  - intros (pi & Hin & Hs & Ho). apply Hch in Hin. destruct Hin as [[Hin|Hin] Hd]; (split; [|exact Hd]).
    + left. exists pi. auto.
    + right. exists pi. split; [apply Hst; auto|exact Ho].
  - intros [[(pi & Hin & Hs & Ho)|(pi & Hin & Ho)] Hd].
    + exists pi. split; [|auto]. apply Hch. auto.
    + apply Hst in Hin. destruct Hin as [Hin Hs]. exists pi. split; [|auto]. apply Hch. auto.
Qed.

(* new nodes below a path that does not exist in t are fresh *)
Lemma fresh_under t root n : cwf t -> cget t root = None ->
  forall q pi, In (q, pi) (proc_nodes n root) -> forall pi0, ~ In (q, pi0) (proc_nodes t []).
Proof.
  intros Hw Hnone q pi Hin pi0 Hin0. apply reported_under in Hin.
  rewrite (no_proc_under t root q pi0 Hw Hnone Hin0) in Hin. discriminate Hin.
Qed.

(* the common shape of the reports of move / divide: split by is_step() *)
Lemma step_adds_split l rp : (forall x, In x (r_process rp) -> In x l) ->
  r_step rp = filter isstep l ->
  forall q pi, In (q, pi) (step_adds rp) <-> In (q, pi) l /\ pi_step pi = true.
Proof.
  intros Hps Hst q pi. unfold step_adds. rewrite in_app_iff, Hst. split.
  - intros [H|H]; [|apply in_filter_isstep; exact H].
    apply in_filter_isstep in H. destruct H as [H Hs]. split; [apply Hps; exact H|exact Hs].
  - intros H. right. apply in_filter_isstep. exact H.
Qed.

Lemma filter_isstep_nonstep l : filter isstep (filter nonstep l) = [].
Proof.
  induction l as [|x l IH]; [reflexivity|]. cbn [filter]. unfold nonstep at 1.
  destruct (pi_step (snd x)) eqn:E; cbn [negb filter]; [exact IH|].
  unfold isstep at 1. rewrite E. exact IH.
Qed.

(* when the process updates hold no Step (repaired Store.move, nested move, divide), what the engine files as
   steps is exactly the step updates *)
Lemma step_adds_no_steps rp l : r_process rp = filter nonstep l -> step_adds rp = r_step rp.
Proof. intros H. unfold step_adds. rewrite H, filter_isstep_nonstep. reflexivity. Qed.

Lemma reports_fit_nil t rp : r_process rp = [] -> r_step rp = [] -> reports_fit t rp [].
Proof.
  intros Hp Hs. unfold reports_fit, step_adds. rewrite Hp, Hs. cbn [filter app map].
  split; [constructor|]. split; [intros q pi []|]. split; [reflexivity|].
  intros q pi. split; [intros []|intros [[] _]].
Qed.

(* ---- the elementary tree surgeries as node changes ---- *)
Lemma node_change_refl t : node_change t t [] [].
Proof.
  intros q pi. split; [intros H; split; [left; exact H|intros d []]|intros [[H|[]] _]; exact H].
Qed.

Lemma cset_fresh_change t root n t' : cwf t -> root <> [] -> cget t root = None -> cset t root n = Ok t' ->
  node_change t t' [] (proc_nodes n root).
Proof.
  intros Hw Hne Hnone Hc q pi. rewrite (proc_nodes_cset_strong t root n t' q pi Hw Hne Hc). split.
  - intros [[_ H]|H]; (split; [|intros d []]); [left; exact H|right; exact H].
  - intros [[H|H] _]; [left; split; [apply (no_proc_under t root q pi Hw Hnone H)|exact H]|right; exact H].
Qed.

Lemma cdel_change t p t' : cwf t -> p <> [] -> cdel t p = Ok t' -> node_change t t' [p] [].
Proof.
  intros Hw Hne Hd q pi. rewrite (proc_nodes_cdel t p t' q pi Hw Hne Hd). split.
  - intros [Hs H]. split; [left; exact H|]. intros d [<-|[]]. exact Hs.
  - intros [[H|[]] Hs]. split; [apply Hs; left; reflexivity|exact H].
Qed.

Lemma node_change_app t t1 t2 n1 n2 :
  node_change t t1 [] n1 -> node_change t1 t2 [] n2 -> node_change t t2 [] (n1 ++ n2).
Proof.
  intros H1 H2 q pi. rewrite (H2 q pi), (H1 q pi), in_app_iff. split.
  - intros [[[[H|H] _]|H] _]; (split; [|intros d []]); auto.
  - intros [[H|[H|H]] _]; (split; [|intros d []]); [left; split; [left; exact H|intros d []]
                                                   |left; split; [right; exact H|intros d []]|right; exact H].
Qed.

(* a successful write below p needs p *)
Lemma cset_parent_exists p : forall t r n t', cset t (p ++ r) n = Ok t' -> r <> [] -> cget t p <> None.
Proof.
  induction p as [|k p IH]; intros t r n t' H Hr; [discriminate|].
  cbn [app] in H. apply cset_shape in H. destruct H as (u & g & c & x & -> & _ & Hc).
  rewrite cget_cons. destruct Hc as [[Hnil _]|[_ (ch & Hl & Hs)]].
  - apply app_eq_nil in Hnil. destruct Hnil as [_ Hnil]. congruence.
  - rewrite Hl. apply (IH ch r n x Hs Hr).
Qed.

(* ================= 3b. a plain value update below a child (cadd) ================= *)
Ltac dresc H a E :=
  match type of H with
  | rbind ?X _ = _ => destruct X as [a|?] eqn:E; cbn [rbind] in H; [|discriminate H]
  | (match ?X with _ => _ end) = _ => destruct X as [a|?] eqn:E; cbn [rbind] in H; [|discriminate H]
  end.

Lemma cuids_dir u g c : cuids (CDir u g c) = u :: flat_map (fun kv => cuids (snd kv)) c.
Proof.
  cbn [cuids cuid]. f_equal. induction c as [|[k ch] r IH]; [reflexivity|].
  cbn [flat_map snd]. rewrite IH. reflexivity.
Qed.

(* the update touches values only: the node keeps its uid, the subtree keeps all its uids (in order), its
   process nodes (as a list, whatever the prefix) and its well-formedness *)
Lemma cadd_keeps fuel : forall n v n', cadd fuel n v = Ok n' ->
  cuid n' = cuid n /\ cuids n' = cuids n /\ (forall pre, proc_nodes n' pre = proc_nodes n pre) /\
  (cwf n -> cwf n').
Proof.
  induction fuel as [|f IH]; intros n v n' H; [discriminate H|].
  destruct n as [u z d|u pi|u g c]; destruct v as [dz|vc]; cbn [cadd] in H; try discriminate H;
    try (inversion H; subst; repeat split; solve [reflexivity|intros _; constructor|auto]).
  dresc H c' E. inversion H; subst n'.
  assert (HI : akeys c' = akeys c /\
               flat_map (fun kv => cuids (snd kv)) c' = flat_map (fun kv => cuids (snd kv)) c /\
               (forall pre, flat_map (fun kv => proc_nodes (snd kv) (pre ++ [fst kv])) c' =
                            flat_map (fun kv => proc_nodes (snd kv) (pre ++ [fst kv])) c) /\
               (Forall (fun kv => cwf (snd kv)) c -> Forall (fun kv => cwf (snd kv)) c')).
  { refine (rfold_inv _ (fun c' => akeys c' = akeys c /\
               flat_map (fun kv => cuids (snd kv)) c' = flat_map (fun kv => cuids (snd kv)) c /\
               (forall pre, flat_map (fun kv => proc_nodes (snd kv) (pre ++ [fst kv])) c' =
                            flat_map (fun kv => proc_nodes (snd kv) (pre ++ [fst kv])) c) /\
               (Forall (fun kv => cwf (snd kv)) c -> Forall (fun kv => cwf (snd kv)) c'))
                      _ _ _ E _ _ _).
    - reflexivity.
    - intros c0 [k x] a1 Hg (Hk & Hu & Hp & Hw). cbn [rbind fst snd] in Hg.
      destruct (alookup k c0) as [ch|] eqn:El.
      + dresc Hg ch' Ea. inversion Hg; subst a1.
        destruct (IH ch x ch' Ea) as (_ & Hus & Hps & Hws).
        split; [rewrite <- Hk; apply akeys_aset_in; congruence|].
        split; [rewrite <- Hu; apply (flat_map_aset_same _ k ch' ch c0 El); cbn [snd]; exact Hus|].
        split.
        * intros pre. rewrite <- (Hp pre). apply (flat_map_aset_same _ k ch' ch c0 El). cbn [fst snd].
          apply Hps.
        * intros Hall. specialize (Hw Hall). apply Forall_aset; [|exact Hw]. intros k0. cbn [snd].
          apply Hws. rewrite Forall_forall in Hw. apply (Hw (k, ch) (alookup_In _ _ _ El)).
      + inversion Hg; subst a1. auto.
    - auto. }
  destruct HI as (Hk & Hu & Hp & Hw).
  split; [reflexivity|]. split; [rewrite !cuids_dir, Hu; reflexivity|].
  split; [intros pre; rewrite !proc_nodes_dir; apply Hp|].
  intros Hwf. inversion Hwf as [| |? ? ? Hnd Hall]; subst. constructor; [rewrite Hk; exact Hnd|auto].
Qed.

Theorem cadd_cuid fuel n v n' : cadd fuel n v = Ok n' -> cuid n' = cuid n.
Proof. intros H. apply (cadd_keeps fuel n v n' H). Qed.

(* every node's uid, in traversal order *)
Theorem cadd_cuids fuel n v n' : cadd fuel n v = Ok n' -> cuids n' = cuids n.
Proof. intros H. apply (cadd_keeps fuel n v n' H). Qed.

(* no process, no step is created or removed: the process nodes are the same list *)
Theorem cadd_procs fuel n v n' : cadd fuel n v = Ok n' -> forall pre, proc_nodes n' pre = proc_nodes n pre.
Proof. intros H. apply (cadd_keeps fuel n v n' H). Qed.

Theorem cadd_cwf fuel n v n' : cwf n -> cadd fuel n v = Ok n' -> cwf n'.
Proof. intros Hw H. apply (cadd_keeps fuel n v n' H). exact Hw. Qed.

(* the process nodes of the subtree at p are those of the tree below p *)
Lemma proc_nodes_sub t p ch q pi : cwf t -> cget t p = Some ch ->
  (In (q, pi) (proc_nodes ch p) <-> starts_with q p = true /\ In (q, pi) (proc_nodes t [])).
Proof.
  intros Hw Hg. pose proof (cwf_cget t p ch Hw Hg) as Hwc. split.
  - intros Hin. destruct (proc_nodes_prefix _ _ _ _ Hin) as (r & ->). split; [apply starts_with_app|].
    apply (proc_nodes_cget ch p r pi Hwc) in Hin. destruct Hin as (u & Hc).
    apply (proc_nodes_cget t [] (p ++ r) pi Hw). exists u. rewrite cget_app, Hg. exact Hc.
  - intros [Hsw Hin]. apply sw_true_iff in Hsw. destruct Hsw as (r & ->).
    apply (proc_nodes_cget t [] (p ++ r) pi Hw) in Hin. destruct Hin as (u & Hc).
    rewrite cget_app, Hg in Hc. apply (proc_nodes_cget ch p r pi Hwc). exists u. exact Hc.
Qed.

(* replacing a subtree by one with the same process nodes changes no process node of the tree *)
Lemma cset_same_procs_change t p ch ch' t' : cwf t -> p <> [] -> cget t p = Some ch ->
  (forall pre, proc_nodes ch' pre = proc_nodes ch pre) -> cset t p ch' = Ok t' -> node_change t t' [] [].
Proof.
  intros Hw Hne Hg Hp Hc q pi.
  rewrite (proc_nodes_cset_strong t p ch' t' q pi Hw Hne Hc), Hp, (proc_nodes_sub t p ch q pi Hw Hg). split.
  - intros [[_ H]|[_ H]]; (split; [left; exact H|intros d []]).
  - intros [[H|[]] _]. destruct (starts_with q p); [right|left]; auto.
Qed.

(* ================= 4. the operations ================= *)
Section Kit2.
Variable mk_child : N -> cnode * N.
Variable D : Type.
Variable build : D -> N -> cnode * N.
Variable copy_procs : cnode -> N -> cnode * N.

(* the premises on the kit; each theorem below depends only on those it uses (see the Check list in the report) *)
(* a glob's sub-schema instance contains variables only, and is well-formed *)
Hypothesis mk_child_no_procs : forall u, proc_nodes (fst (mk_child u)) [] = [].
Hypothesis mk_child_cwf : forall u, cwf (fst (mk_child u)).
(* what Store.generate builds is well-formed; whatever it lists in a `steps` dict is a Step.  The converse
   (every Step is listed in `steps`) is NOT needed: a Step listed under `processes` is reported as a process
   and Engine.apply_update files it by is_step() *)
Hypothesis build_cwf : forall x n, cwf (fst (build x n)).
Hypothesis build_steps : forall x n p pi,
  In (p, pi) (proc_nodes (fst (build x n)) []) -> pi_in_steps pi = true -> pi_step pi = true.
(* the copy an inheriting daughter gets of a well-formed mother is well-formed *)
Hypothesis copy_cwf : forall m n, cwf m -> cwf (fst (copy_procs m n)).

Notation apply_opv vr := (apply_op mk_child D build copy_procs vr).

Ltac dres H a E :=
  match type of H with
  | rbind ?X _ = _ => destruct X as [a|?] eqn:E; cbn [rbind] in H; [|discriminate H]
  | (match ?X with _ => _ end) = _ => destruct X as [a|?] eqn:E; cbn [rbind] in H; [|discriminate H]
  end.

Ltac open_op H Hd :=
  let u := fresh "u" in let g := fresh "g" in let c := fresh "c" in
  destruct (apply_op_dir mk_child D build copy_procs _ _ _ _ _ _ H) as (u & g & c & Hd);
  unfold apply_op, dir_at in H; rewrite Hd in H; cbn [rbind] in H.

(* ---- Store.set_value keeps well-formedness ---- *)
Lemma set_value_cwf fuel : forall n v uid r, cwf n ->
  set_value mk_child fuel n v uid = Ok r -> cwf (fst r).
Proof.
  induction fuel as [|f IH]; intros n v uid r Hw H; [discriminate H|].
  destruct n as [u z d|u pi|u g c]; destruct v as [z'|vc]; cbn [set_value] in H;
    try discriminate H; try (inversion H; subst; cbn [fst]; solve [constructor|exact Hw]).
  dres H cu E. inversion H; subst r. cbn [fst].
  inversion Hw as [| |? ? ? Hnd Hall]; subst.
  assert (HI : NoDup (akeys (fst cu)) /\ Forall (fun kv => cwf (snd kv)) (fst cu)).
  { refine (rfold_inv _ (fun cu => NoDup (akeys (fst cu)) /\ Forall (fun kv => cwf (snd kv)) (fst cu))
                      _ _ _ E _ _ (conj Hnd Hall)).
    - reflexivity.
    - intros [c0 u0] [k x] a1 Hg [Hn0 Ha0]. cbn [rbind fst snd] in Hg, Hn0, Ha0.
      destruct (alookup k c0) as [ch|] eqn:El.
      + dres Hg r0 Es. inversion Hg; subst a1. cbn [fst]. split; [apply aset_nodup; exact Hn0|].
        apply Forall_aset; [|exact Ha0]. intros k0. cbn [snd].
        apply (IH ch x u0 r0 (cwf_child 0%N false c0 k ch (cwf_dir 0%N false c0 Hn0 Ha0) El) Es).
      + destruct g.
        * destruct (mk_child u0) as [ch u1] eqn:Em. dres Hg r0 Es. inversion Hg; subst a1. cbn [fst].
          split; [apply aset_nodup; exact Hn0|]. apply Forall_aset; [|exact Ha0]. intros k0. cbn [snd].
          apply (IH ch x u1 r0); [|exact Es]. pose proof (mk_child_cwf u0) as Hm. rewrite Em in Hm. exact Hm.
        * inversion Hg; subst a1. cbn [fst]. auto. }
  destruct HI as [H1 H2]. constructor; assumption.
Qed.

(* ---- _delete by key ---- *)
Lemma delete_inv3 vr t here k uid t' rp uid' :
  apply_opv vr t here (OpDelete D k) uid = Ok (t', rp, uid') ->
  cdel t (here ++ [k]) = Ok t' /\ r_deletions rp = [here ++ [k]] /\ r_process rp = [] /\ r_step rp = [].
Proof. intros H. open_op H Hd. dres H t1 Ec. inversion H; subst. auto. Qed.

Lemma op_change_delete vr t here k uid t' rp uid' : cwf t ->
  apply_opv vr t here (OpDelete D k) uid = Ok (t', rp, uid') ->
  node_change t t' (r_deletions rp) [] /\ reports_fit t rp [].
Proof.
  intros Hw H. apply delete_inv3 in H. destruct H as (Hdl & Hdel & Hp & Hs).
  split; [|apply (reports_fit_nil t rp Hp Hs)].
  rewrite Hdel. apply (cdel_change t _ t' Hw (snoc_not_nil here k) Hdl).
Qed.

(* ---- _delete by path tuple: nothing happens in the current code (K4); with the repair it is a deletion ---- *)
Lemma op_change_deletepath vr t here p uid t' rp uid' : cwf t ->
  apply_opv vr t here (OpDeletePath D p) uid = Ok (t', rp, uid') ->
  node_change t t' (r_deletions rp) [] /\ reports_fit t rp [] /\ cwf t'.
Proof.
  intros Hw H. open_op H Hd. destruct (v_fix_delete_path vr).
  - dres H t1 Ec. inversion H; subst. cbn [r_deletions].
    assert (Hne : here ++ p <> []) by (intros Hnil; rewrite Hnil in Ec; discriminate Ec).
    split; [apply (cdel_change t _ t' Hw Hne Ec)|]. split; [apply reports_fit_nil; reflexivity|].
    apply (cdel_cwf _ _ _ Hw Ec).
  - inversion H; subst. cbn [r_deletions].
    split; [apply node_change_refl|]. split; [apply reports_fit_nil; reflexivity|exact Hw].
Qed.

Lemma deletepath_noop t here p uid t' rp uid' :
  apply_opv vfixed t here (OpDeletePath D p) uid = Ok (t', rp, uid') -> t' = t /\ r_deletions rp = [].
Proof. intros H. open_op H Hd. cbn [vfixed v_fix_delete_path] in H. inversion H; subst. auto. Qed.

(* ---- a plain value update of a child: no process node changes, nothing is reported ---- *)
Lemma op_change_upd vr t here k v uid t' rp uid' : cwf t ->
  apply_opv vr t here (OpUpd D k v) uid = Ok (t', rp, uid') ->
  node_change t t' (r_deletions rp) [] /\ reports_fit t rp [] /\ cwf t'.
Proof.
  intros Hw H. apply (upd_inv mk_child D build copy_procs) in H.
  destruct H as (u & g & c & Hd & Hcase & _ & ->). cbn [r_deletions].
  split; [|split; [apply reports_fit_nil; reflexivity|]].
  - destruct Hcase as [(_ & ->)|(ch & ch' & El & Ea & Ec)]; [apply node_change_refl|].
    apply (cset_same_procs_change t (here ++ [k]) ch ch' t' Hw (snoc_not_nil here k)); [| |exact Ec].
    + rewrite cget_app, Hd, cget_cons, El. reflexivity.
    + apply (cadd_procs _ _ _ _ Ea).
  - destruct Hcase as [(_ & ->)|(ch & ch' & El & Ea & Ec)]; [exact Hw|].
    apply (cset_cwf _ _ _ _ Hw) in Ec; [exact Ec|].
    apply (cadd_cwf _ _ _ _ (cwf_child u g c k ch (cwf_cget t here _ Hw Hd) El) Ea).
Qed.

(* ---- _add: a fresh child without processes ---- *)
Lemma add_inv3 vr t here k st uid t' rp uid' :
  apply_opv vr t here (OpAdd D k st) uid = Ok (t', rp, uid') ->
  exists nd, cget t (here ++ [k]) = None /\ cset t (here ++ [k]) nd = Ok t' /\ cwf nd /\
             (forall pre, proc_nodes nd pre = []) /\
             r_deletions rp = [] /\ r_process rp = [] /\ r_step rp = [].
Proof.
  intros H. open_op H Hd.
  destruct (alookup k c) as [x|] eqn:El; [discriminate H|].
  destruct (if g then mk_child uid else (CDir uid false [], N.succ uid)) as [ch uid1] eqn:Ech.
  dres H r Es. dres H t1 Ec. inversion H; subst. exists (fst r).
  assert (Hch : cwf ch /\ proc_nodes ch [] = []).
  { destruct g.
    - pose proof (mk_child_cwf uid) as Hm1. pose proof (mk_child_no_procs uid) as Hm2.
      rewrite Ech in Hm1, Hm2. auto.
    - inversion Ech; subst. split; [constructor; constructor|reflexivity]. }
  destruct Hch as [Hwc Hpc].
  split; [apply (cget_fresh_child t here u g c k Hd El)|]. split; [exact Ec|].
  split; [apply (set_value_cwf _ _ _ _ _ Hwc Es)|]. split; [|auto].
  intros pre. rewrite (set_value_procs mk_child mk_child_no_procs _ _ _ _ _ Es pre).
  apply proc_nodes_nil_shift. exact Hpc.
Qed.

Lemma op_change_add vr t here k st uid t' rp uid' : cwf t ->
  apply_opv vr t here (OpAdd D k st) uid = Ok (t', rp, uid') ->
  node_change t t' (r_deletions rp) [] /\ reports_fit t rp [].
Proof.
  intros Hw H. apply add_inv3 in H. destruct H as (nd & Hnone & Hc & _ & Hpn & Hdel & Hp & Hs).
  split; [|apply (reports_fit_nil t rp Hp Hs)]. rewrite Hdel.
  pose proof (cset_fresh_change t _ nd t' Hw (snoc_not_nil here k) Hnone Hc) as Hch.
  rewrite Hpn in Hch. exact Hch.
Qed.

(* ---- _generate at a new key ---- *)
Lemma generate_inv3 vr t here k d init uid t' rp uid' :
  apply_opv vr t here (OpGenerate D k d init) uid = Ok (t', rp, uid') ->
  exists r, set_value mk_child (S (tdepth init)) (fst (build d uid)) init (snd (build d uid)) = Ok r
            /\ cset t (here ++ [k]) (fst r) = Ok t' /\ uid' = snd r
            /\ rp = reports_generated true (fst r) (here ++ [k]).
Proof.
  intros H. open_op H Hd. destruct (build d uid) as [sub uid1]. cbn [fst snd].
  dres H r Es. dres H t1 Ec. inversion H; subst. exists r. auto.
Qed.

(* the nodes `build` made, seen from the root they are attached at *)
Lemma built_nodes root d uid fuel init u1 r q pi :
  set_value mk_child fuel (fst (build d uid)) init u1 = Ok r ->
  In (q, pi) (proc_nodes (fst r) root) -> exists p, In (p, pi) (proc_nodes (fst (build d uid)) []).
Proof.
  intros Es Hin. rewrite (set_value_procs mk_child mk_child_no_procs _ _ _ _ _ Es root) in Hin.
  rewrite proc_nodes_shift in Hin. apply in_map_iff in Hin. destruct Hin as ([p pi'] & Heq & Hin).
  cbn [fst snd] in Heq. inversion Heq; subst. exists p. exact Hin.
Qed.

Lemma op_change_generate vr t here k d init uid t' rp uid' : cwf t ->
  cget t (here ++ [k]) = None ->
  apply_opv vr t here (OpGenerate D k d init) uid = Ok (t', rp, uid') ->
  exists news, node_change t t' (r_deletions rp) news /\ reports_fit t rp news.
Proof.
  intros Hw Hnone H. apply generate_inv3 in H. destruct H as (r & Es & Ec & _ & ->).
  exists (proc_nodes (fst r) (here ++ [k])). cbn [reports_generated r_deletions].
  split; [apply (cset_fresh_change t _ (fst r) t' Hw (snoc_not_nil here k) Hnone Ec)|].
  assert (Hst : forall q pi, In (q, pi) (proc_nodes (fst r) (here ++ [k])) ->
                             pi_in_steps pi = true -> pi_step pi = true).
  { intros q pi Hin Hi. destruct (built_nodes _ _ _ _ _ _ _ _ _ Es Hin) as (p & Hp).
    apply (build_steps d uid p pi Hp Hi). }
  unfold reports_fit, step_adds. cbn [reports_generated r_process r_step r_deletions].
  split; [|split; [|split]].
  - rewrite (set_value_procs mk_child mk_child_no_procs _ _ _ _ _ Es). apply proc_nodes_nodup. apply build_cwf.
  - apply (fresh_under t _ (fst r) Hw Hnone).
  - apply filter_filter_impl. intros [q pi] Hin Hns. cbn [snd]. unfold nonstep in Hns. cbn [snd] in Hns.
    apply negb_true_iff in Hns. apply negb_true_iff. destruct (pi_in_steps pi) eqn:Ei; [|reflexivity].
    rewrite (Hst q pi Hin Ei) in Hns. discriminate Hns.
  - intros q pi. rewrite in_app_iff, in_filter_isstep, !filter_In. cbn [snd]. rewrite negb_true_iff. split.
    + intros [[[Hin _] Hs]|[Hin Hi]]; [auto|]. split; [exact Hin|apply (Hst q pi Hin Hi)].
    + intros [Hin Hs]. destruct (pi_in_steps pi) eqn:Ei; [right; auto|left; auto].
Qed.

(* ---- _move of a key (either variant of Store.move) ---- *)
Lemma move_inv3 vr t here src tgt uid t' rp uid' :
  apply_opv vr t here (OpMove D src tgt) uid = Ok (t', rp, uid') ->
  exists u g c node t1, cget t here = Some (CDir u g c) /\ alookup src c = Some node /\
    cget t (tgt ++ [src]) = None /\ cdel t (here ++ [src]) = Ok t1 /\
    cset t1 (tgt ++ [src]) node = Ok t' /\ r_deletions rp = [here ++ [src]] /\
    r_process rp = (if v_fix_move vr then filter nonstep (proc_nodes node (tgt ++ [src]))
                    else proc_nodes node (tgt ++ [src])) /\
    r_step rp = filter isstep (proc_nodes node (tgt ++ [src])).
Proof.
  intros H. open_op H Hd.
  destruct (alookup src c) as [node|] eqn:El; [|discriminate H].
  destruct (cget t (tgt ++ [src])) as [y|] eqn:Eg; [discriminate H|].
  dres H t1 Ed. dres H t2 Ec. inversion H; subst.
  exists u, g, c, node, t1. cbn [r_deletions r_process r_step]. auto 10.
Qed.

(* success implies that the target is not inside the moved subtree: the source is deleted first, so the write
   below it would find no parent.  (The premises of Consistent_proofs.consistent_move follow from success.) *)
Lemma move_target_not_inside vr t here src tgt uid t' rp uid' : cwf t ->
  apply_opv vr t here (OpMove D src tgt) uid = Ok (t', rp, uid') ->
  starts_with (tgt ++ [src]) (here ++ [src]) = false /\ starts_with (here ++ [src]) (tgt ++ [src]) = false.
Proof.
  intros Hw H. apply move_inv3 in H.
  destruct H as (u & g & c & node & t1 & Hd & Hl & Hnone & Hdl & Hcs & _).
  assert (Hsrc : cget t (here ++ [src]) = Some node) by (rewrite cget_app, Hd, cget_cons, Hl; reflexivity).
  split.
  - destruct (starts_with (tgt ++ [src]) (here ++ [src])) eqn:E; [|reflexivity].
    apply sw_true_iff in E. destruct E as (r & Hr). destruct r as [|k0 r0].
    + rewrite app_nil_r in Hr. rewrite Hr, Hsrc in Hnone. discriminate Hnone.
    + rewrite Hr in Hcs. exfalso.
      apply (cset_parent_exists _ _ _ _ _ Hcs); [discriminate|].
      apply (cdel_gone _ _ _ Hw (snoc_not_nil here src) Hdl).
  - destruct (starts_with (here ++ [src]) (tgt ++ [src])) eqn:E; [|reflexivity].
    apply sw_true_iff in E. destruct E as (r & Hr). rewrite Hr, cget_app, Hnone in Hsrc. discriminate Hsrc.
Qed.

Lemma op_change_move vr t here src tgt uid t' rp uid' : cwf t ->
  apply_opv vr t here (OpMove D src tgt) uid = Ok (t', rp, uid') ->
  exists news, node_change t t' (r_deletions rp) news /\ reports_fit t rp news.
Proof.
  intros Hw H. destruct (move_target_not_inside _ _ _ _ _ _ _ _ _ Hw H) as [Hs1 Hs2].
  apply move_inv3 in H. destruct H as (u & g & c & node & t1 & Hd & Hl & Hnone & Hdl & Hcs & Hdel & Hp & Hs).
  assert (Hwn : cwf node) by apply (cwf_child u g c src node (cwf_cget t here _ Hw Hd) Hl).
  pose proof (cdel_cwf _ _ _ Hw Hdl) as Hw1.
  assert (Hnu : forall q pi, In (q, pi) (proc_nodes node (tgt ++ [src])) -> starts_with q (here ++ [src]) = false).
  { intros q pi Hin. apply proc_nodes_prefix in Hin. destruct Hin as (r' & ->).
    destruct (starts_with ((tgt ++ [src]) ++ r') (here ++ [src])) eqn:E; [|reflexivity].
    apply sw_ext in E. destruct E as [E|E]; congruence. }
  exists (proc_nodes node (tgt ++ [src])). rewrite Hdel. split.
  - intros q pi. rewrite (proc_nodes_cset_strong t1 _ node t' q pi Hw1 (snoc_not_nil tgt src) Hcs).
    rewrite (proc_nodes_cdel t _ t1 q pi Hw (snoc_not_nil here src) Hdl). split.
    + intros [[_ [Hsw Hin]]|Hin].
      * split; [left; exact Hin|]. intros d0 [<-|[]]. exact Hsw.
      * split; [right; exact Hin|]. intros d0 [<-|[]]. apply (Hnu q pi Hin).
    + intros [[Hin|Hin] Hsw]; [left|right; exact Hin].
      split; [apply (no_proc_under t _ q pi Hw Hnone Hin)|]. split; [|exact Hin]. apply Hsw. left. reflexivity.
  - unfold reports_fit. split; [|split; [|split]].
    + apply proc_nodes_nodup. exact Hwn.
    + apply (fresh_under t _ node Hw Hnone).
    + rewrite Hp. destruct (v_fix_move vr); [apply filter_idem|reflexivity].
    + apply step_adds_split; [|exact Hs]. rewrite Hp. intros x Hx.
      destruct (v_fix_move vr); [apply filter_In in Hx; destruct Hx as [Hx _]|]; exact Hx.
Qed.

(* ---- _move with a nested source path ---- *)
Lemma movep_inv3 vr t here src tgt uid t' rp uid' :
  apply_opv vr t here (OpMoveP D src tgt) uid = Ok (t', rp, uid') ->
  exists node t0 t1, src <> [] /\ cget t (here ++ src) = Some node /\ cget t (tgt ++ src) = None /\
    cestablish t (tgt ++ removelast src) uid = Ok (t0, uid') /\
    cset t0 (tgt ++ src) node = Ok t1 /\ cdel t1 (here ++ src) = Ok t' /\
    r_deletions rp = [here ++ src] /\
    r_process rp = filter nonstep (proc_nodes node (tgt ++ src)) /\
    r_step rp = filter isstep (proc_nodes node (tgt ++ src)).
Proof.
  intros H. open_op H Hd.
  destruct src as [|s1 sr]; [discriminate H|].
  destruct (cget t (here ++ s1 :: sr)) as [node|] eqn:Eg; [|discriminate H].
  destruct (cget t tgt) as [tn|] eqn:Et; [|discriminate H].
  destruct (cget t (tgt ++ s1 :: sr)) as [y|] eqn:Eg2; [discriminate H|].
  dres H tu Ee. dres H t1 Ec. dres H t2 Ed. destruct tu as [t0 u0]. cbn [fst snd] in *.
  inversion H; subst. exists node, t0, t1. cbn [r_deletions r_process r_step].
  split; [discriminate|]. auto 10.
Qed.

(* NO premise on the target for this description of the STORE operation: when the target lies inside the moved
   subtree the attached copy is deleted with the source (it is deleted LAST here), which node_change expresses.
   The engine's folding alone (deletions first, then registration) would register the reported nodes although they
   are gone: consistent_movep / consistent_steps_movep need the premise; the full engine step registers only what the
   store still holds and needs none (consistent_movep_any, consistent_steps_movep_any). *)
Lemma op_change_movep vr t here src tgt uid t' rp uid' : cwf t ->
  apply_opv vr t here (OpMoveP D src tgt) uid = Ok (t', rp, uid') ->
  exists news, node_change t t' (r_deletions rp) news /\ reports_fit t rp news.
Proof.
  intros Hw H. apply movep_inv3 in H.
  destruct H as (node & t0 & t1 & Hne & Hg & Hnone & He & Hcs & Hdl & Hdel & Hp & Hs).
  assert (Hwn : cwf node) by apply (cwf_cget _ _ _ Hw Hg).
  pose proof (cestablish_cwf _ _ _ _ _ Hw He) as Hw0.
  pose proof (cset_cwf _ _ _ _ Hw0 Hwn Hcs) as Hw1.
  pose proof (cestablish_procs _ _ _ _ _ He []) as Hp0.
  exists (proc_nodes node (tgt ++ src)). rewrite Hdel. split.
  - intros q pi. rewrite (proc_nodes_cdel t1 _ t' q pi Hw1 (app_not_nil_r here src Hne) Hdl).
    rewrite (proc_nodes_cset_strong t0 _ node t1 q pi Hw0 (app_not_nil_r tgt src Hne) Hcs), Hp0. split.
    + intros [Hsw [[_ Hin]|Hin]]; (split; [|intros d0 [<-|[]]; exact Hsw]); [left|right]; exact Hin.
    + intros [[Hin|Hin] Hsw]; (split; [apply Hsw; left; reflexivity|]).
      * left. split; [apply (no_proc_under t _ q pi Hw Hnone Hin)|exact Hin].
      * right. exact Hin.
  - unfold reports_fit. split; [|split; [|split]].
    + apply proc_nodes_nodup. exact Hwn.
    + apply (fresh_under t _ node Hw Hnone).
    + rewrite Hp. apply filter_idem.
    + apply step_adds_split; [|exact Hs]. rewrite Hp. intros x Hx. apply filter_In in Hx. destruct Hx as [Hx _]. exact Hx.
Qed.

(* ---- _divide ---- *)
Definition dkey (d : key * option D * tree Z) : key := fst (fst d).

Definition div_states (mo : cnode) (choices : list bool) : list (tree Z) :=
  match fst (divide_value mo choices) with Some (a, b) => [a; b] | None => [] end.

(* the subtrees Store.divide generates, daughter by daughter (zip with the divided states): an explicit
   composite is built by `build`, an inheriting daughter gets `copy_procs` of the mother; the merged initial
   state is then set *)
Fixpoint div_subs (mo : cnode) (ds : list (key * option D * tree Z)) (sts : list (tree Z)) (uid : N)
  : res (list (key * cnode) * N) :=
  match ds, sts with
  | (dk, dd, dinit) :: ds', st :: sts' =>
    let su := match dd with Some d => build d uid | None => copy_procs mo uid end in
    let merged := deep_merge st dinit in
    rbind (set_value mk_child (S (tdepth merged)) (fst su) merged (snd su)) (fun r =>
    rbind (div_subs mo ds' sts' (snd r)) (fun x => Ok ((dk, fst r) :: fst x, snd x)))
  | _, _ => Ok ([], uid)
  end.

Fixpoint cset_all (t : cnode) (here : list key) (subs : list (key * cnode)) : res cnode :=
  match subs with
  | [] => Ok t
  | ks :: r => rbind (cset t (here ++ [fst ks]) (snd ks)) (fun t' => cset_all t' here r)
  end.

Definition sub_nodes (here : list key) (subs : list (key * cnode)) : list (list key * pinfo) :=
  flat_map (fun ks => proc_nodes (snd ks) (here ++ [fst ks])) subs.

Lemma divide_inv3 vr t here m ds ch uid t' rp uid' :
  apply_opv vr t here (OpDivide D m ds ch) uid = Ok (t', rp, uid') ->
  exists u g c mo subs t1, cget t here = Some (CDir u g c) /\ alookup m c = Some mo /\
    div_subs mo ds (div_states mo ch) uid = Ok (subs, uid') /\
    cset_all t here subs = Ok t1 /\ cdel t1 (here ++ [m]) = Ok t' /\
    r_process rp = filter nonstep (sub_nodes here subs) /\
    r_step rp = filter isstep (sub_nodes here subs) /\
    r_deletions rp = [here ++ [m]].
Proof.
  intros H. open_op H Hd.
  destruct (alookup m c) as [mo|] eqn:El; [|discriminate H].
  match type of H with
  | rbind ?X _ = _ => destruct X as [[[t1 rp1] u1]|e] eqn:Ego; cbn [rbind] in H; [|discriminate H]
  end.
  dres H t2 Ed. inversion H; subst. clear H.
  fold (div_states mo ch) in Ego.
  assert (Hgo : exists subs, div_subs mo ds (div_states mo ch) uid = Ok (subs, uid') /\
                             cset_all t here subs = Ok t1 /\
                             r_process rp1 = r_process no_reports ++ filter nonstep (sub_nodes here subs) /\
                             r_step rp1 = r_step no_reports ++ filter isstep (sub_nodes here subs) /\
                             r_deletions rp1 = r_deletions no_reports).
  { match type of Ego with
    | ?G _ ?sts0 _ ?rp0 _ = _ => revert Ego; generalize sts0 as sts, rp0 as rpa; set (go := G)
    end.
    clear Hd Ed. revert t uid.
    induction ds as [|[[dk dd] dinit] ds' IH]; intros t uid sts rpa Ego.
    - cbn in Ego. inversion Ego; subst. exists []. cbn [div_subs cset_all sub_nodes flat_map filter].
      rewrite !app_nil_r. auto.
    - destruct sts as [|st sts'].
      + cbn in Ego. inversion Ego; subst. exists []. cbn [div_subs cset_all sub_nodes flat_map filter].
        rewrite !app_nil_r. auto.
      + unfold go in Ego. cbn [rbind] in Ego. fold go in Ego.
        cbn [div_subs].
        destruct (match dd with Some d => build d uid | None => copy_procs mo uid end) as [sub uid1].
        cbn [fst snd].
        dres Ego r Es. dres Ego t2 Ec.
        match type of Ego with context [rapp rpa ?X] => set (rg' := X) in Ego end.
        assert (Hrg : r_process rg' = filter nonstep (proc_nodes (fst r) (here ++ [dk])) /\
                      r_step rg' = filter isstep (proc_nodes (fst r) (here ++ [dk])) /\
                      r_deletions rg' = []).
        { subst rg'. destruct dd as [d0|].
          - match goal with |- context [match ?X with [] => _ | _ :: _ => _ end] => destruct X end;
              cbn [reports_generated r_process r_step r_deletions]; auto.
          - cbn [reports_generated r_process r_step r_deletions]. auto. }
        destruct Hrg as (Hrp & Hrs & Hrd).
        destruct (IH _ _ _ _ Ego) as (subs & Hds & Hca & Hp & Hs & Hdl).
        exists ((dk, fst r) :: subs). cbn [rbind]. rewrite Hds. cbn [rbind fst snd].
        split; [reflexivity|]. cbn [cset_all fst snd]. rewrite Ec. cbn [rbind]. split; [exact Hca|].
        unfold sub_nodes. cbn [flat_map fst snd]. rewrite !filter_app. fold (sub_nodes here subs).
        rewrite Hp, Hs, Hdl. cbn [rapp r_process r_step r_deletions]. rewrite Hrp, Hrs, Hrd, !app_assoc, app_nil_r.
        auto. }
  destruct Hgo as (subs & Hds & Hca & Hp & Hs & Hdl).
  exists u, g, c, mo, subs, t1. cbn [rapp r_process r_step r_deletions].
  rewrite Hp, Hs, Hdl. cbn [no_reports r_process r_step r_deletions app]. rewrite !app_nil_r. auto 10.
Qed.

(* every generated daughter subtree: its key is one of the daughters' keys (in order, without repetition if
   those have none), it is well-formed, and its process nodes are those of what `build` / `copy_procs` made *)
Lemma div_subs_props mo : cwf mo -> forall ds sts uid subs u1,
  div_subs mo ds sts uid = Ok (subs, u1) ->
  (forall k, In k (map fst subs) -> In k (map dkey ds)) /\
  (NoDup (map dkey ds) -> NoDup (map fst subs)) /\
  (forall ks, In ks subs -> cwf (snd ks)) /\
  (forall k s, In (k, s) subs -> exists dd dinit u, In (k, dd, dinit) ds /\
     forall pre, proc_nodes s pre =
                 proc_nodes (fst (match dd with Some d => build d u | None => copy_procs mo u end)) pre).
Proof.
  intros Hwm. induction ds as [|[[dk dd] dinit] ds' IH]; intros sts uid subs u1 H.
  - cbn in H. inversion H; subst. cbn. repeat split; try (intros; contradiction). constructor.
  - destruct sts as [|st sts'].
    + cbn in H. inversion H; subst. cbn. repeat split; try (intros; contradiction). constructor.
    + cbn [div_subs] in H.
      set (su := match dd with Some d => build d uid | None => copy_procs mo uid end) in H.
      dres H r Es. dres H x Ex. destruct x as [subs' u2]. cbn [fst snd] in H. inversion H; subst subs u1. clear H.
      destruct (IH _ _ _ _ Ex) as (Hk & Hn & Hw & Ho).
      assert (Hwsu : cwf (fst su)).
      { subst su. destruct dd as [d0|]; [apply build_cwf|apply copy_cwf; exact Hwm]. }
      cbn [map fst dkey]. split; [|split; [|split]].
      * intros k [<-|Hin]; [left; reflexivity|right; apply Hk; exact Hin].
      * intros Hnd. inversion Hnd as [|? ? Hx Hnd']; subst. constructor; [|apply Hn; exact Hnd'].
        intros Hin. apply Hx. apply Hk. exact Hin.
      * intros ks [<-|Hin]; [|apply Hw; exact Hin]. cbn [snd]. apply (set_value_cwf _ _ _ _ _ Hwsu Es).
      * intros k s [Heq|Hin].
        -- inversion Heq; subst k s. exists dd, dinit, uid. split; [left; reflexivity|]. intros pre.
           apply (set_value_procs mk_child mk_child_no_procs _ _ _ _ _ Es pre).
        -- destruct (Ho k s Hin) as (dd' & di' & u' & Hin' & Hpn). exists dd', di', u'.
           split; [right; exact Hin'|exact Hpn].
Qed.

Lemma sub_nodes_under here subs q pi : In (q, pi) (sub_nodes here subs) ->
  exists k r, In k (map fst subs) /\ q = here ++ k :: r.
Proof.
  unfold sub_nodes. rewrite in_flat_map. intros ([k s] & Hin & Hq). cbn [fst snd] in Hq.
  apply proc_under in Hq. destruct Hq as (r & ->). exists k, r. split; [|reflexivity].
  change k with (fst (k, s)). apply in_map. exact Hin.
Qed.

Lemma sub_nodes_nodup here subs : NoDup (map fst subs) -> (forall ks, In ks subs -> cwf (snd ks)) ->
  NoDup (map fst (sub_nodes here subs)).
Proof.
  induction subs as [|[k s] r IH]; intros Hnd Hw; [constructor|].
  unfold sub_nodes. cbn [flat_map fst snd]. fold (sub_nodes here r). rewrite map_app.
  cbn [map fst] in Hnd. inversion Hnd as [|? ? Hx Hnd']; subst. apply nodup_app.
  - apply proc_nodes_nodup. apply (Hw (k, s)). left. reflexivity.
  - apply IH; [exact Hnd'|]. intros ks Hin. apply Hw. right. exact Hin.
  - intros q Hq1 Hq2. apply in_map_iff in Hq1. destruct Hq1 as ([q1 pi1] & Hf1 & Hq1).
    apply in_map_iff in Hq2. destruct Hq2 as ([q2 pi2] & Hf2 & Hq2). cbn [fst] in Hf1, Hf2. subst q1 q2.
    apply proc_under in Hq1. destruct Hq1 as (r1 & Hr1).
    apply sub_nodes_under in Hq2. destruct Hq2 as (k' & r2 & Hk' & Hr2). rewrite Hr1 in Hr2.
    apply app_inv_head in Hr2. inversion Hr2; subst k'. exact (Hx Hk').
Qed.

Lemma sw_sibling here k k' : k' <> k -> starts_with (here ++ [k']) (here ++ [k]) = false.
Proof.
  intros Hne. rewrite sw_app_l, sw_cons. destruct (N.eqb k k') eqn:E; [|reflexivity].
  apply N.eqb_eq in E. congruence.
Qed.

(* writing the daughters, at new and pairwise distinct keys *)
Lemma cset_all_change here : forall subs t t1, cwf t -> NoDup (map fst subs) ->
  (forall ks, In ks subs -> cwf (snd ks)) ->
  (forall k, In k (map fst subs) -> cget t (here ++ [k]) = None) ->
  cset_all t here subs = Ok t1 ->
  cwf t1 /\ node_change t t1 [] (sub_nodes here subs).
Proof.
  induction subs as [|[k s] r IH]; intros t t1 Hw Hnd Hws Hnew H.
  - cbn in H. inversion H; subst. split; [exact Hw|]. apply node_change_refl.
  - cbn [cset_all fst snd] in H. dres H t2 Ec.
    cbn [map fst] in Hnd. inversion Hnd as [|? ? Hx Hnd']; subst.
    assert (Hw2 : cwf t2) by (apply (cset_cwf _ _ _ _ Hw (Hws (k, s) (or_introl eq_refl)) Ec)).
    assert (Hnew2 : forall k', In k' (map fst r) -> cget t2 (here ++ [k']) = None).
    { intros k' Hk'. apply sig_at_None. rewrite (cset_frame _ _ _ _ (here ++ [k']) Ec).
      - apply cget_None_sig. apply Hnew. right. exact Hk'.
      - apply sw_sibling. intros ->. exact (Hx Hk'). }
    destruct (IH t2 t1 Hw2 Hnd' (fun ks Hin => Hws ks (or_intror Hin)) Hnew2 H) as [Hw1 Hch].
    split; [exact Hw1|]. unfold sub_nodes. cbn [flat_map fst snd]. fold (sub_nodes here r).
    apply (node_change_app t t2 t1); [|exact Hch].
    apply (cset_fresh_change t _ s t2 Hw (snoc_not_nil here k)); [|exact Ec].
    apply Hnew. left. reflexivity.
Qed.

(* premises: the daughters' keys are new and pairwise distinct (then they differ from the mother's, which
   exists).  They are asked of all listed daughters; only the first two (those zipped with the divided states)
   are generated. *)
Definition divide_ok (t : cnode) (here : list key) (ds : list (key * option D * tree Z)) : Prop :=
  NoDup (map dkey ds) /\ forall k, In k (map dkey ds) -> cget t (here ++ [k]) = None.

Lemma op_change_divide vr t here m ds ch uid t' rp uid' : cwf t -> divide_ok t here ds ->
  apply_opv vr t here (OpDivide D m ds ch) uid = Ok (t', rp, uid') ->
  exists news, node_change t t' (r_deletions rp) news /\ reports_fit t rp news /\ cwf t'.
Proof.
  intros Hw (Hnd & Hnew) H. apply divide_inv3 in H.
  destruct H as (u & g & c & mo & subs & t1 & Hd & Hl & Hds & Hca & Hdl & Hp & Hs & Hdel).
  assert (Hwm : cwf mo) by apply (cwf_child u g c m mo (cwf_cget t here _ Hw Hd) Hl).
  destruct (div_subs_props mo Hwm _ _ _ _ _ Hds) as (Hk & Hn & Hws & _).
  destruct (cset_all_change here subs t t1 Hw (Hn Hnd) Hws (fun k Hin => Hnew k (Hk k Hin)) Hca) as [Hw1 Hch].
  exists (sub_nodes here subs). rewrite Hdel. split; [|split].
  - intros q pi. rewrite (proc_nodes_cdel t1 _ t' q pi Hw1 (snoc_not_nil here m) Hdl), (Hch q pi). split.
    + intros [Hsw [Hin _]]. split; [exact Hin|]. intros d0 [<-|[]]. exact Hsw.
    + intros [Hin Hsw]. split; [apply Hsw; left; reflexivity|]. split; [exact Hin|intros d0 []].
  - unfold reports_fit. split; [|split; [|split]].
    + apply (sub_nodes_nodup here subs (Hn Hnd) Hws).
    + intros q pi Hin pi0 Hin0. apply sub_nodes_under in Hin. destruct Hin as (k & r & Hin & ->).
      assert (Hsw : starts_with (here ++ k :: r) (here ++ [k]) = true).
      { replace (here ++ k :: r) with ((here ++ [k]) ++ r) by (rewrite <- app_assoc; reflexivity).
        apply starts_with_app. }
      rewrite (no_proc_under t (here ++ [k]) _ pi0 Hw (Hnew k (Hk k Hin)) Hin0) in Hsw. discriminate Hsw.
    + rewrite Hp. apply filter_idem.
    + apply step_adds_split; [|exact Hs]. rewrite Hp. intros x Hx. apply filter_In in Hx. destruct Hx as [Hx _]. exact Hx.
  - apply (cdel_cwf _ _ _ Hw1 Hdl).
Qed.

(* ================= A. the step table, operation by operation ================= *)
(* ---- the reports describe exactly how the set of steps changes ---- *)
Theorem delete_reports_steps vr t here k uid t' rp uid' q o : cwf t ->
  apply_opv vr t here (OpDelete D k) uid = Ok (t', rp, uid') ->
  (In (q, o) (step_paths t') <-> In (q, o) (step_paths t) /\ starts_with q (here ++ [k]) = false).
Proof.
  intros Hw H. destruct (op_change_delete _ _ _ _ _ _ _ _ Hw H) as [Hch Hfit].
  rewrite (change_step_paths t t' rp [] q o Hch Hfit).
  apply delete_inv3 in H. destruct H as (_ & Hdel & Hp & Hs). unfold step_adds. rewrite Hdel, Hp, Hs. cbn. split.
  - intros [[Hin|(pi & [] & _)] Hd]. split; [exact Hin|]. apply Hd. left. reflexivity.
  - intros [Hin Hsw]. split; [left; exact Hin|]. intros d [<-|[]]. exact Hsw.
Qed.

(* generation at a new key.  Premise on the kit: whatever `build` lists in a `steps` dict is a Step
   (build_steps); the converse is not needed.  (Without it: generate_reports_steps_complete below, and the
   counterexample generate_steps_counterexample at the end of the file.) *)
Theorem generate_reports_steps_partial vr t here k d init uid t' rp uid' q o : cwf t ->
  cget t (here ++ [k]) = None ->
  apply_opv vr t here (OpGenerate D k d init) uid = Ok (t', rp, uid') ->
  (In (q, o) (step_paths t') <->
   In (q, o) (step_paths t) \/ exists pi, In (q, pi) (step_adds rp) /\ o = pi_obj pi).
Proof.
  intros Hw Hnone H. destruct (op_change_generate _ _ _ _ _ _ _ _ _ _ Hw Hnone H) as (news & Hch & Hfit).
  rewrite (change_step_paths t t' rp news q o Hch Hfit).
  apply generate_inv3 in H. destruct H as (r & _ & _ & _ & ->). cbn [reports_generated r_deletions]. split.
  - intros [H _]. exact H.
  - intros H. split; [exact H|intros d0 []].
Qed.

(* ORIGINAL STATEMENT (false for an arbitrary kit, see generate_steps_counterexample): the same without build_steps *)

(* the direction that holds for every kit: every Step of the hierarchy is filed by the engine (what can go
   wrong is the converse: a plain Process listed under `steps` is filed as a step) *)
Theorem generate_reports_steps_complete vr t here k d init uid t' rp uid' q o : cwf t ->
  cget t (here ++ [k]) = None ->
  apply_opv vr t here (OpGenerate D k d init) uid = Ok (t', rp, uid') ->
  In (q, o) (step_paths t') ->
  In (q, o) (step_paths t) \/ exists pi, In (q, pi) (step_adds rp) /\ o = pi_obj pi.
Proof.
  intros Hw Hnone H. apply generate_inv3 in H. destruct H as (r & Es & Ec & _ & ->).
  rewrite !in_step_paths. intros (pi & Hin & Hs & Ho).
  apply (cset_fresh_change t _ (fst r) t' Hw (snoc_not_nil here k) Hnone Ec) in Hin.
  destruct Hin as [[Hin|Hin] _]; [left; exists pi; auto|]. right. exists pi. split; [|exact Ho].
  unfold step_adds. cbn [reports_generated r_process r_step]. rewrite in_app_iff, in_filter_isstep, !filter_In.
  cbn [snd]. rewrite negb_true_iff. destruct (pi_in_steps pi) eqn:Ei; [right; auto|left; auto].
Qed.

(* move of a key, either variant of Store.move (the pinned one reports the moved Steps among the process
   updates as well: the engine files them twice, with the same object) *)
Theorem move_reports_steps vr t here src tgt uid t' rp uid' q o : cwf t ->
  apply_opv vr t here (OpMove D src tgt) uid = Ok (t', rp, uid') ->
  (In (q, o) (step_paths t') <->
   (In (q, o) (step_paths t) /\ starts_with q (here ++ [src]) = false) \/
   exists pi, In (q, pi) (r_step rp) /\ o = pi_obj pi).
Proof.
  intros Hw H. destruct (move_target_not_inside _ _ _ _ _ _ _ _ _ Hw H) as [Hs1 Hs2].
  destruct (op_change_move _ _ _ _ _ _ _ _ _ Hw H) as (news & Hch & Hfit).
  rewrite (change_step_paths t t' rp news q o Hch Hfit).
  apply move_inv3 in H. destruct H as (u & g & c & node & t1 & _ & _ & _ & _ & _ & Hdel & Hp & Hs).
  rewrite Hdel.
  assert (Hadds : forall pi, In (q, pi) (step_adds rp) <-> In (q, pi) (r_step rp)).
  { intros pi. rewrite (step_adds_split (proc_nodes node (tgt ++ [src])) rp); [rewrite Hs, in_filter_isstep; reflexivity| |exact Hs].
    rewrite Hp. intros x Hx. destruct (v_fix_move vr); [apply filter_In in Hx; destruct Hx as [Hx _]|]; exact Hx. }
  assert (Hnu : forall pi, In (q, pi) (r_step rp) -> starts_with q (here ++ [src]) = false).
  { intros pi Hin. rewrite Hs in Hin. apply in_filter_isstep in Hin. destruct Hin as [Hin _].
    apply proc_nodes_prefix in Hin. destruct Hin as (r' & ->).
    destruct (starts_with ((tgt ++ [src]) ++ r') (here ++ [src])) eqn:E; [|reflexivity].
    apply sw_ext in E. destruct E as [E|E]; congruence. }
  split.
  - intros [[Hin|(pi & Hin & Ho)] Hd].
    + left. split; [exact Hin|]. apply Hd. left. reflexivity.
    + right. exists pi. split; [apply Hadds; exact Hin|exact Ho].
  - intros [[Hin Hsw]|(pi & Hin & Ho)].
    + split; [left; exact Hin|]. intros d0 [<-|[]]. exact Hsw.
    + split; [right; exists pi; split; [apply Hadds; exact Hin|exact Ho]|].
      intros d0 [<-|[]]. apply (Hnu pi Hin).
Qed.

(* nested move.  As for the processes (movep_reports) the premise is needed for THIS statement: with the
   target inside the moved subtree the reported steps are deleted with the source. *)
Theorem movep_reports_steps vr t here src tgt uid t' rp uid' q o : cwf t ->
  starts_with (tgt ++ src) (here ++ src) = false ->
  apply_opv vr t here (OpMoveP D src tgt) uid = Ok (t', rp, uid') ->
  (In (q, o) (step_paths t') <->
   (In (q, o) (step_paths t) /\ starts_with q (here ++ src) = false) \/
   exists pi, In (q, pi) (r_step rp) /\ o = pi_obj pi).
Proof.
  intros Hw Hs1 H.
  pose proof (fun n p pi => reported_not_under_source mk_child D build copy_procs vr t here src tgt uid t' rp uid' n p pi Hs1 H) as Hnu.
  destruct (op_change_movep _ _ _ _ _ _ _ _ _ Hw H) as (news & Hch & Hfit).
  rewrite (change_step_paths t t' rp news q o Hch Hfit).
  apply movep_inv3 in H. destruct H as (node & t0 & t1 & _ & _ & _ & _ & _ & _ & Hdel & Hp & Hs).
  rewrite Hdel, (step_adds_no_steps rp _ Hp). split.
  - intros [[Hin|Hex] Hd]; [left|right; exact Hex]. split; [exact Hin|]. apply Hd. left. reflexivity.
  - intros [[Hin Hsw]|(pi & Hin & Ho)].
    + split; [left; exact Hin|]. intros d0 [<-|[]]. exact Hsw.
    + split; [right; exists pi; auto|]. intros d0 [<-|[]].
      rewrite Hs in Hin. apply in_filter_isstep in Hin. destruct Hin as [Hin _]. apply (Hnu node q pi Hin).
Qed.

(* the general form, without the premise: the store attaches first and deletes the source last *)
Theorem movep_reports_steps_gen vr t here src tgt uid t' rp uid' q o : cwf t ->
  apply_opv vr t here (OpMoveP D src tgt) uid = Ok (t', rp, uid') ->
  (In (q, o) (step_paths t') <->
   (In (q, o) (step_paths t) \/ exists pi, In (q, pi) (r_step rp) /\ o = pi_obj pi) /\
   starts_with q (here ++ src) = false).
Proof.
  intros Hw H. destruct (op_change_movep _ _ _ _ _ _ _ _ _ Hw H) as (news & Hch & Hfit).
  rewrite (change_step_paths t t' rp news q o Hch Hfit).
  apply movep_inv3 in H. destruct H as (node & t0 & t1 & _ & _ & _ & _ & _ & _ & Hdel & Hp & Hs).
  rewrite Hdel, (step_adds_no_steps rp _ Hp). split.
  - intros [Hor Hd]. split; [exact Hor|]. apply Hd. left. reflexivity.
  - intros [Hor Hsw]. split; [exact Hor|]. intros d0 [<-|[]]. exact Hsw.
Qed.

Theorem movep_reports_gen vr t here src tgt uid t' rp uid' q o : cwf t ->
  apply_opv vr t here (OpMoveP D src tgt) uid = Ok (t', rp, uid') ->
  (In (q, o) (proc_paths t') <->
   (In (q, o) (proc_paths t) \/ exists pi, In (q, pi) (r_process rp) /\ pi_step pi = false /\ o = pi_obj pi) /\
   starts_with q (here ++ src) = false).
Proof.
  intros Hw H. destruct (op_change_movep _ _ _ _ _ _ _ _ _ Hw H) as (news & Hch & Hfit).
  rewrite (change_proc_paths t t' rp news q o Hch Hfit).
  apply movep_inv3 in H. destruct H as (node & t0 & t1 & _ & _ & _ & _ & _ & _ & Hdel & _).
  rewrite Hdel. split.
  - intros [Hor Hd]. split; [exact Hor|]. apply Hd. left. reflexivity.
  - intros [Hor Hsw]. split; [exact Hor|]. intros d0 [<-|[]]. exact Hsw.
Qed.

(* ---- no reported path lies under the reported deletion: move by key (from success), nested move (premise) ---- *)
Lemma reports_clear_move vr t here src tgt uid t' rp uid' : cwf t ->
  apply_opv vr t here (OpMove D src tgt) uid = Ok (t', rp, uid') -> reports_clear rp.
Proof.
  intros Hw H. destruct (move_target_not_inside _ _ _ _ _ _ _ _ _ Hw H) as [Hs1 Hs2].
  apply move_inv3 in H. destruct H as (u & g & c & node & t1 & _ & _ & _ & _ & _ & Hdel & Hp & Hs).
  intros q pi Hin. rewrite Hdel. intros d0 [<-|[]].
  assert (Hn : In (q, pi) (proc_nodes node (tgt ++ [src]))).
  { apply in_app_or in Hin. destruct Hin as [Hin|Hin].
    - rewrite Hp in Hin. destruct (v_fix_move vr); [apply filter_In in Hin; destruct Hin as [Hin _]|]; exact Hin.
    - rewrite Hs in Hin. apply filter_In in Hin. destruct Hin as [Hin _]. exact Hin. }
  apply proc_nodes_prefix in Hn. destruct Hn as (r' & ->).
  destruct (starts_with ((tgt ++ [src]) ++ r') (here ++ [src])) eqn:E; [|reflexivity].
  apply sw_ext in E. destruct E as [E|E]; congruence.
Qed.

Lemma reports_clear_movep vr t here src tgt uid t' rp uid' :
  starts_with (tgt ++ src) (here ++ src) = false ->
  apply_opv vr t here (OpMoveP D src tgt) uid = Ok (t', rp, uid') -> reports_clear rp.
Proof.
  intros Hs1 H.
  pose proof (fun n p pi => reported_not_under_source mk_child D build copy_procs vr t here src tgt uid t' rp uid' n p pi Hs1 H) as Hnu.
  apply movep_inv3 in H. destruct H as (node & t0 & t1 & _ & _ & _ & _ & _ & _ & Hdel & Hp & Hs).
  intros q pi Hin. rewrite Hdel. intros d0 [<-|[]]. apply (Hnu node q pi).
  apply in_app_or in Hin. destruct Hin as [Hin|Hin].
  - rewrite Hp in Hin. apply filter_In in Hin. destruct Hin as [Hin _]. exact Hin.
  - rewrite Hs in Hin. apply filter_In in Hin. destruct Hin as [Hin _]. exact Hin.
Qed.

(* ---- consistency of the step table is preserved by Engine.apply_update's folding (book_apply) ---- *)
Theorem consistent_steps_delete vr t here k uid t' rp uid' b b' : cwf t -> consistent_steps t b ->
  apply_opv vr t here (OpDelete D k) uid = Ok (t', rp, uid') ->
  book_apply b rp = Ok b' -> consistent_steps t' b'.
Proof.
  intros Hw Hc H Hb. destruct (op_change_delete _ _ _ _ _ _ _ _ Hw H) as [Hch Hfit].
  apply delete_inv3 in H. destruct H as (_ & _ & Hp & Hs).
  apply (book_consistent_steps_op t t' b b' rp [] Hc Hch Hfit (reports_clear_nil rp Hp Hs) Hb).
Qed.

(* premises: the key is new; kit: build_cwf, build_steps (listed under `steps` => is a Step) *)
Theorem consistent_steps_generate vr t here k d init uid t' rp uid' b b' : cwf t -> consistent_steps t b ->
  cget t (here ++ [k]) = None ->
  apply_opv vr t here (OpGenerate D k d init) uid = Ok (t', rp, uid') ->
  book_apply b rp = Ok b' -> consistent_steps t' b'.
Proof.
  intros Hw Hc Hnone H Hb. destruct (op_change_generate _ _ _ _ _ _ _ _ _ _ Hw Hnone H) as (news & Hch & Hfit).
  apply generate_inv3 in H. destruct H as (r & _ & _ & _ & Hrp).
  assert (Hdel : r_deletions rp = []) by (rewrite Hrp; reflexivity).
  apply (book_consistent_steps_op t t' b b' rp news Hc Hch Hfit (reports_clear_nodel rp Hdel) Hb).
Qed.

(* no premise besides success, and for either variant of Store.move: that the target is not inside the moved
   subtree follows from success (move_target_not_inside) *)
Theorem consistent_steps_move vr t here src tgt uid t' rp uid' b b' : cwf t -> consistent_steps t b ->
  apply_opv vr t here (OpMove D src tgt) uid = Ok (t', rp, uid') ->
  book_apply b rp = Ok b' -> consistent_steps t' b'.
Proof.
  intros Hw Hc H Hb. destruct (op_change_move _ _ _ _ _ _ _ _ _ Hw H) as (news & Hch & Hfit).
  apply (book_consistent_steps_op t t' b b' rp news Hc Hch Hfit (reports_clear_move _ _ _ _ _ _ _ _ _ Hw H) Hb).
Qed.

Theorem consistent_move_any vr t here src tgt uid t' rp uid' b b' : cwf t -> consistent_procs t b ->
  apply_opv vr t here (OpMove D src tgt) uid = Ok (t', rp, uid') ->
  book_apply b rp = Ok b' -> consistent_procs t' b'.
Proof.
  intros Hw Hc H Hb. destruct (op_change_move _ _ _ _ _ _ _ _ _ Hw H) as (news & Hch & Hfit).
  apply (book_consistent_procs_op t t' b b' rp news Hc Hch Hfit (reports_clear_move _ _ _ _ _ _ _ _ _ Hw H) Hb).
Qed.

(* nested move: the folding alone (deletions first, then registration) needs the premise on the target, like
   MoveP_proofs.consistent_movep: with the target inside the moved subtree the attached copy is deleted with the
   source, and its processes / steps would be registered although they are gone (movep_book_apply_premise_needed
   below).  The full engine step needs no premise: consistent_movep_any, consistent_steps_movep_any. *)
Theorem consistent_steps_movep vr t here src tgt uid t' rp uid' b b' : cwf t -> consistent_steps t b ->
  starts_with (tgt ++ src) (here ++ src) = false ->
  apply_opv vr t here (OpMoveP D src tgt) uid = Ok (t', rp, uid') ->
  book_apply b rp = Ok b' -> consistent_steps t' b'.
Proof.
  intros Hw Hc Hs1 H Hb. destruct (op_change_movep _ _ _ _ _ _ _ _ _ Hw H) as (news & Hch & Hfit).
  apply (book_consistent_steps_op t t' b b' rp news Hc Hch Hfit (reports_clear_movep _ _ _ _ _ _ _ _ _ Hs1 H) Hb).
Qed.

(* NO premise on the target for the full engine step (what the store still holds): both tables *)
Theorem consistent_movep_any vr t here src tgt uid t' rp uid' b b' : cwf t -> consistent_procs t b ->
  apply_opv vr t here (OpMoveP D src tgt) uid = Ok (t', rp, uid') ->
  engine_apply b t' rp = Ok b' -> consistent_procs t' b'.
Proof.
  intros Hw Hc H Hb. destruct (op_change_movep _ _ _ _ _ _ _ _ _ Hw H) as (news & Hch & Hfit).
  apply (engine_consistent_procs_op t t' b b' rp news (movep_wf _ _ _ _ _ _ _ _ _ _ _ _ _ Hw H) Hc Hch Hfit Hb).
Qed.

Theorem consistent_steps_movep_any vr t here src tgt uid t' rp uid' b b' : cwf t -> consistent_steps t b ->
  apply_opv vr t here (OpMoveP D src tgt) uid = Ok (t', rp, uid') ->
  engine_apply b t' rp = Ok b' -> consistent_steps t' b'.
Proof.
  intros Hw Hc H Hb. destruct (op_change_movep _ _ _ _ _ _ _ _ _ Hw H) as (news & Hch & Hfit).
  apply (engine_consistent_steps_op t t' b b' rp news (movep_wf _ _ _ _ _ _ _ _ _ _ _ _ _ Hw H) Hc Hch Hfit Hb).
Qed.

(* ================= B. division ================= *)
(* how the process nodes (processes and steps) of the tree change: the mother's subtree goes; for each
   generated daughter (k, s) the subtree s arrives under here ++ [k], where s carries exactly the process nodes
   of `build d u` for an explicit composite `Some d`, of `copy_procs mother u` for an inheriting daughter
   `None` (u: the uid counter at that point).  The process / step updates are these nodes split by is_step();
   the only deletion is the mother.  (K6 and K8 live in r_flow / r_topology, which no table reads.) *)
Theorem divide_reports vr t here m ds ch uid t' rp uid' : cwf t -> divide_ok t here ds ->
  apply_opv vr t here (OpDivide D m ds ch) uid = Ok (t', rp, uid') ->
  exists mo subs,
    cget t (here ++ [m]) = Some mo /\
    div_subs mo ds (div_states mo ch) uid = Ok (subs, uid') /\
    (forall q pi, In (q, pi) (proc_nodes t' []) <->
       (In (q, pi) (proc_nodes t []) /\ starts_with q (here ++ [m]) = false) \/
       exists k s, In (k, s) subs /\ In (q, pi) (proc_nodes s (here ++ [k]))) /\
    (forall k s, In (k, s) subs -> exists dd dinit u, In (k, dd, dinit) ds /\
       forall pre, proc_nodes s pre =
                   proc_nodes (fst (match dd with Some d => build d u | None => copy_procs mo u end)) pre) /\
    r_process rp = filter nonstep (sub_nodes here subs) /\
    r_step rp = filter isstep (sub_nodes here subs) /\
    r_deletions rp = [here ++ [m]].
Proof.
  intros Hw Hok H. destruct (op_change_divide _ _ _ _ _ _ _ _ _ _ Hw Hok H) as (news & _ & _ & _).
  destruct Hok as (Hnd & Hnew). apply divide_inv3 in H.
  destruct H as (u & g & c & mo & subs & t1 & Hd & Hl & Hds & Hca & Hdl & Hp & Hs & Hdel).
  assert (Hwm : cwf mo) by apply (cwf_child u g c m mo (cwf_cget t here _ Hw Hd) Hl).
  destruct (div_subs_props mo Hwm _ _ _ _ _ Hds) as (Hk & Hn & Hws & Ho).
  destruct (cset_all_change here subs t t1 Hw (Hn Hnd) Hws (fun k Hin => Hnew k (Hk k Hin)) Hca) as [Hw1 Hch].
  exists mo, subs. split; [rewrite cget_app, Hd, cget_cons, Hl; reflexivity|]. split; [exact Hds|].
  split; [|split; [exact Ho|auto]].
  assert (Hmo : cget t (here ++ [m]) = Some mo) by (rewrite cget_app, Hd, cget_cons, Hl; reflexivity).
  intros q pi. rewrite (proc_nodes_cdel t1 _ t' q pi Hw1 (snoc_not_nil here m) Hdl), (Hch q pi).
  assert (Hsn : In (q, pi) (sub_nodes here subs) <-> exists k s, In (k, s) subs /\ In (q, pi) (proc_nodes s (here ++ [k]))).
  { unfold sub_nodes. rewrite in_flat_map. split.
    - intros ([k s] & Hin & Hq). exists k, s. auto.
    - intros (k & s & Hin & Hq). exists (k, s). auto. }
  rewrite Hsn. split.
  - intros [Hsw [[Hin|Hin] _]]; [left; auto|right; exact Hin].
  - intros [[Hin Hsw]|Hex]; [split; [exact Hsw|]; split; [left; exact Hin|intros d0 []]|].
    split; [|split; [right; exact Hex|intros d0 []]].
    destruct Hex as (k & s & Hin & Hq). apply proc_under in Hq. destruct Hq as (r & ->).
    rewrite sw_mid. destruct (N.eqb m k) eqn:E; [|reflexivity]. apply N.eqb_eq in E. subst k. exfalso.
    assert (Hkin : In m (map fst subs)) by (change m with (fst (m, s)); apply in_map; exact Hin).
    rewrite (Hnew m (Hk m Hkin)) in Hmo. discriminate Hmo.
Qed.

(* the two tables' view of it *)
Theorem divide_reports_procs vr t here m ds ch uid t' rp uid' q o : cwf t -> divide_ok t here ds ->
  apply_opv vr t here (OpDivide D m ds ch) uid = Ok (t', rp, uid') ->
  (In (q, o) (proc_paths t') <->
   (In (q, o) (proc_paths t) \/ exists pi, In (q, pi) (r_process rp) /\ pi_step pi = false /\ o = pi_obj pi) /\
   starts_with q (here ++ [m]) = false).
Proof.
  intros Hw Hok H. destruct (op_change_divide _ _ _ _ _ _ _ _ _ _ Hw Hok H) as (news & Hch & Hfit & _).
  rewrite (change_proc_paths t t' rp news q o Hch Hfit).
  apply divide_inv3 in H. destruct H as (u & g & c & mo & subs & t1 & _ & _ & _ & _ & _ & _ & _ & Hdel).
  rewrite Hdel. split.
  - intros [Hor Hd]. split; [exact Hor|]. apply Hd. left. reflexivity.
  - intros [Hor Hsw]. split; [exact Hor|]. intros d0 [<-|[]]. exact Hsw.
Qed.

Theorem divide_reports_steps vr t here m ds ch uid t' rp uid' q o : cwf t -> divide_ok t here ds ->
  apply_opv vr t here (OpDivide D m ds ch) uid = Ok (t', rp, uid') ->
  (In (q, o) (step_paths t') <->
   (In (q, o) (step_paths t) \/ exists pi, In (q, pi) (r_step rp) /\ o = pi_obj pi) /\
   starts_with q (here ++ [m]) = false).
Proof.
  intros Hw Hok H. destruct (op_change_divide _ _ _ _ _ _ _ _ _ _ Hw Hok H) as (news & Hch & Hfit & _).
  rewrite (change_step_paths t t' rp news q o Hch Hfit).
  apply divide_inv3 in H. destruct H as (u & g & c & mo & subs & t1 & _ & _ & _ & _ & _ & Hp & _ & Hdel).
  rewrite Hdel, (step_adds_no_steps rp _ Hp). split.
  - intros [Hor Hd]. split; [exact Hor|]. apply Hd. left. reflexivity.
  - intros [Hor Hsw]. split; [exact Hor|]. intros d0 [<-|[]]. exact Hsw.
Qed.

(* the daughters' keys are new, the mother exists: no reported path lies under the mother *)
Lemma reports_clear_divide vr t here m ds ch uid t' rp uid' : cwf t -> divide_ok t here ds ->
  apply_opv vr t here (OpDivide D m ds ch) uid = Ok (t', rp, uid') -> reports_clear rp.
Proof.
  intros Hw (Hnd & Hnew) H. apply divide_inv3 in H.
  destruct H as (u & g & c & mo & subs & t1 & Hd & Hl & Hds & Hca & Hdl & Hp & Hs & Hdel).
  assert (Hwm : cwf mo) by apply (cwf_child u g c m mo (cwf_cget t here _ Hw Hd) Hl).
  destruct (div_subs_props mo Hwm _ _ _ _ _ Hds) as (Hk & _).
  assert (Hmo : cget t (here ++ [m]) = Some mo) by (rewrite cget_app, Hd, cget_cons, Hl; reflexivity).
  intros q pi Hin. rewrite Hdel. intros d0 [<-|[]].
  assert (Hn : In (q, pi) (sub_nodes here subs)).
  { apply in_app_or in Hin. destruct Hin as [Hin|Hin].
    - rewrite Hp in Hin. apply filter_In in Hin. destruct Hin as [Hin _]. exact Hin.
    - rewrite Hs in Hin. apply filter_In in Hin. destruct Hin as [Hin _]. exact Hin. }
  apply sub_nodes_under in Hn. destruct Hn as (k & r & Hkin & ->).
  rewrite sw_mid. destruct (N.eqb m k) eqn:E; [|reflexivity]. apply N.eqb_eq in E. subst k. exfalso.
  rewrite (Hnew m (Hk m Hkin)) in Hmo. discriminate Hmo.
Qed.

(* premises: daughter keys new and pairwise distinct (divide_ok); kit: mk_child_no_procs, mk_child_cwf,
   build_cwf, copy_cwf.  build_steps is NOT needed: Store.divide splits by is_step(). *)
Theorem consistent_divide vr t here m ds ch uid t' rp uid' b b' : cwf t -> consistent_procs t b ->
  divide_ok t here ds ->
  apply_opv vr t here (OpDivide D m ds ch) uid = Ok (t', rp, uid') ->
  book_apply b rp = Ok b' -> consistent_procs t' b'.
Proof.
  intros Hw Hc Hok H Hb. destruct (op_change_divide _ _ _ _ _ _ _ _ _ _ Hw Hok H) as (news & Hch & Hfit & _).
  apply (book_consistent_procs_op t t' b b' rp news Hc Hch Hfit (reports_clear_divide _ _ _ _ _ _ _ _ _ _ Hw Hok H) Hb).
Qed.

Theorem consistent_steps_divide vr t here m ds ch uid t' rp uid' b b' : cwf t -> consistent_steps t b ->
  divide_ok t here ds ->
  apply_opv vr t here (OpDivide D m ds ch) uid = Ok (t', rp, uid') ->
  book_apply b rp = Ok b' -> consistent_steps t' b'.
Proof.
  intros Hw Hc Hok H Hb. destruct (op_change_divide _ _ _ _ _ _ _ _ _ _ Hw Hok H) as (news & Hch & Hfit & _).
  apply (book_consistent_steps_op t t' b b' rp news Hc Hch Hfit (reports_clear_divide _ _ _ _ _ _ _ _ _ _ Hw Hok H) Hb).
Qed.

(* ================= C. every operation; histories ================= *)
Definition op_ok (t : cnode) (here : list key) (o : sop D) : Prop :=
  match o with
  | OpGenerate _ k _ _ => cget t (here ++ [k]) = None                 (* the key is new *)
  | OpDivide _ _ ds _ => divide_ok t here ds                          (* the daughters' keys are new and distinct *)
  | _ => True      (* _add / _move / _delete: success is enough (an existing key is rejected, resp. not generated);
                      a plain value update of a child (OpUpd) needs no premise either *)
  end.

(* what each operation does, uniformly *)
Lemma op_change vr t here o uid t' rp uid' : cwf t -> op_ok t here o ->
  apply_opv vr t here o uid = Ok (t', rp, uid') ->
  exists news, node_change t t' (r_deletions rp) news /\ reports_fit t rp news.
Proof.
  intros Hw Hok H. destruct o as [k st|src tgt|src tgt|k d init|m ds ch|k|p|k v]; cbn [op_ok] in Hok.
  - exists []. apply (op_change_add _ _ _ _ _ _ _ _ _ Hw H).
  - apply (op_change_move _ _ _ _ _ _ _ _ _ Hw H).
  - apply (op_change_movep _ _ _ _ _ _ _ _ _ Hw H).
  - apply (op_change_generate _ _ _ _ _ _ _ _ _ _ Hw Hok H).
  - destruct (op_change_divide _ _ _ _ _ _ _ _ _ _ Hw Hok H) as (news & Hch & Hfit & _). exists news. auto.
  - exists []. apply (op_change_delete _ _ _ _ _ _ _ _ Hw H).
  - exists []. destruct (op_change_deletepath _ _ _ _ _ _ _ _ Hw H) as (Hch & Hfit & _). auto.
  - exists []. destruct (op_change_upd _ _ _ _ _ _ _ _ _ Hw H) as (Hch & Hfit & _). auto.
Qed.

(* well-formedness is preserved *)
Theorem apply_op_cwf vr t here o uid t' rp uid' : cwf t -> op_ok t here o ->
  apply_opv vr t here o uid = Ok (t', rp, uid') -> cwf t'.
Proof.
  intros Hw Hok H. destruct o as [k st|src tgt|src tgt|k d init|m ds ch|k|p|k v]; cbn [op_ok] in Hok.
  - apply add_inv3 in H. destruct H as (nd & _ & Hc & Hwn & _). apply (cset_cwf _ _ _ _ Hw Hwn Hc).
  - apply move_inv3 in H. destruct H as (u & g & c & node & t1 & Hd & Hl & _ & Hdl & Hcs & _).
    apply (cset_cwf _ _ _ _ (cdel_cwf _ _ _ Hw Hdl) (cwf_child u g c src node (cwf_cget t here _ Hw Hd) Hl) Hcs).
  - apply (movep_wf _ _ _ _ _ _ _ _ _ _ _ _ _ Hw H).
  - apply generate_inv3 in H. destruct H as (r & Es & Ec & _).
    apply (cset_cwf _ _ _ _ Hw (set_value_cwf _ _ _ _ _ (build_cwf d uid) Es) Ec).
  - destruct (op_change_divide _ _ _ _ _ _ _ _ _ _ Hw Hok H) as (news & _ & _ & Hw'). exact Hw'.
  - apply delete_inv3 in H. destruct H as (Hdl & _). apply (cdel_cwf _ _ _ Hw Hdl).
  - destruct (op_change_deletepath _ _ _ _ _ _ _ _ Hw H) as (_ & _ & Hw'). exact Hw'.
  - destruct (op_change_upd _ _ _ _ _ _ _ _ _ Hw H) as (_ & _ & Hw'). exact Hw'.
Qed.

(* for Engine.apply_update's folding alone one more premise: a nested move does not target the inside of the moved
   subtree (for the other operations "no reported path under the reported deletion" follows from success, resp.
   from op_ok) *)
Definition bop_ok (t : cnode) (here : list key) (o : sop D) : Prop :=
  op_ok t here o /\
  match o with OpMoveP _ src tgt => starts_with (tgt ++ src) (here ++ src) = false | _ => True end.

Lemma op_reports_clear vr t here o uid t' rp uid' : cwf t -> bop_ok t here o ->
  apply_opv vr t here o uid = Ok (t', rp, uid') -> reports_clear rp.
Proof.
  intros Hw [Hok Hbk] H. destruct o as [k st|src tgt|src tgt|k d init|m ds ch|k|p|k v]; cbn [op_ok] in Hok.
  - apply add_inv3 in H. destruct H as (nd & _ & _ & _ & _ & _ & Hp & Hs). apply (reports_clear_nil rp Hp Hs).
  - apply (reports_clear_move _ _ _ _ _ _ _ _ _ Hw H).
  - apply (reports_clear_movep _ _ _ _ _ _ _ _ _ Hbk H).
  - apply generate_inv3 in H. destruct H as (r & _ & _ & _ & ->). apply reports_clear_nodel. reflexivity.
  - apply (reports_clear_divide _ _ _ _ _ _ _ _ _ _ Hw Hok H).
  - apply delete_inv3 in H. destruct H as (_ & _ & Hp & Hs). apply (reports_clear_nil rp Hp Hs).
  - open_op H Hd. destruct (v_fix_delete_path vr).
    + dres H t1 Ec. inversion H; subst. apply reports_clear_nil; reflexivity.
    + inversion H; subst. apply reports_clear_nil; reflexivity.
  - apply (upd_inv mk_child D build copy_procs) in H.
    destruct H as (u & g & c & _ & _ & _ & ->). apply reports_clear_nil; reflexivity.
Qed.

(* one update carrying one operation keeps both tables consistent -- for every variant of the model *)
Theorem consistent_op_any vr t here o uid t' rp uid' b b' : cwf t -> bop_ok t here o ->
  consistent_procs t b -> consistent_steps t b ->
  apply_opv vr t here o uid = Ok (t', rp, uid') -> book_apply b rp = Ok b' ->
  consistent_procs t' b' /\ consistent_steps t' b'.
Proof.
  intros Hw Hok Hcp Hcs H Hb. destruct (op_change _ _ _ _ _ _ _ _ Hw (proj1 Hok) H) as (news & Hch & Hfit).
  pose proof (op_reports_clear _ _ _ _ _ _ _ _ Hw Hok H) as Hcl.
  split; [apply (book_consistent_procs_op t t' b b' rp news Hcp Hch Hfit Hcl Hb)
         |apply (book_consistent_steps_op t t' b b' rp news Hcs Hch Hfit Hcl Hb)].
Qed.

(* the statement asked for: the faithful model with the repaired Store.move *)
Theorem consistent_op t here o uid t' rp uid' b b' : cwf t -> bop_ok t here o ->
  consistent_procs t b -> consistent_steps t b ->
  apply_opv vfixed t here o uid = Ok (t', rp, uid') -> book_apply b rp = Ok b' ->
  consistent_procs t' b' /\ consistent_steps t' b'.
Proof. apply consistent_op_any. Qed.

(* THE FULL ENGINE STEP (deletions first, only what the store still holds): no premise beyond op_ok *)
Theorem engine_consistent_op_any vr t here o uid t' rp uid' b b' : cwf t -> op_ok t here o ->
  consistent_procs t b -> consistent_steps t b ->
  apply_opv vr t here o uid = Ok (t', rp, uid') -> engine_apply b t' rp = Ok b' ->
  consistent_procs t' b' /\ consistent_steps t' b'.
Proof.
  intros Hw Hok Hcp Hcs H Hb. destruct (op_change _ _ _ _ _ _ _ _ Hw Hok H) as (news & Hch & Hfit).
  pose proof (apply_op_cwf _ _ _ _ _ _ _ _ Hw Hok H) as Hw'.
  split; [apply (engine_consistent_procs_op t t' b b' rp news Hw' Hcp Hch Hfit Hb)
         |apply (engine_consistent_steps_op t t' b b' rp news Hw' Hcs Hch Hfit Hb)].
Qed.

Theorem engine_consistent_op t here o uid t' rp uid' b b' : cwf t -> op_ok t here o ->
  consistent_procs t b -> consistent_steps t b ->
  apply_opv vfixed t here o uid = Ok (t', rp, uid') -> engine_apply b t' rp = Ok b' ->
  consistent_procs t' b' /\ consistent_steps t' b'.
Proof. apply engine_consistent_op_any. Qed.

(* _add creates no process (mk_child_no_procs): both tables are as they were *)
Theorem consistent_add vr t here k st uid t' rp uid' b b' : cwf t ->
  consistent_procs t b -> consistent_steps t b ->
  apply_opv vr t here (OpAdd D k st) uid = Ok (t', rp, uid') -> book_apply b rp = Ok b' ->
  consistent_procs t' b' /\ consistent_steps t' b'.
Proof.
  intros Hw Hcp Hcs H Hb. destruct (op_change_add _ _ _ _ _ _ _ _ _ Hw H) as [Hch Hfit].
  apply add_inv3 in H. destruct H as (nd & _ & _ & _ & _ & _ & Hp & Hs).
  pose proof (reports_clear_nil rp Hp Hs) as Hcl.
  split; [apply (book_consistent_procs_op t t' b b' rp [] Hcp Hch Hfit Hcl Hb)
         |apply (book_consistent_steps_op t t' b b' rp [] Hcs Hch Hfit Hcl Hb)].
Qed.

(* _delete by path tuple does nothing in the faithful model (K4): tree and reports are empty-handed, so the
   tables stay consistent with the (unchanged) tree *)
Theorem consistent_deletepath t here p uid t' rp uid' b b' : cwf t ->
  consistent_procs t b -> consistent_steps t b ->
  apply_opv vfixed t here (OpDeletePath D p) uid = Ok (t', rp, uid') -> book_apply b rp = Ok b' ->
  t' = t /\ consistent_procs t' b' /\ consistent_steps t' b'.
Proof.
  intros Hw Hcp Hcs H Hb. split; [apply (deletepath_noop _ _ _ _ _ _ _ H)|].
  apply (consistent_op_any vfixed t here (OpDeletePath D p) uid t' rp uid' b b' Hw (conj I I) Hcp Hcs H Hb).
Qed.

(* a history of single-operation updates, each satisfying bop_ok in the state it is applied to, the engine
   folding the reports (book_apply) *)
Inductive history (vr : variant) : list (list key * sop D) -> cnode -> book -> N -> cnode -> book -> N -> Prop :=
| history_nil t b u : history vr [] t b u t b u
| history_cons here o h t b u t1 rp u1 b1 t' b' u' :
    bop_ok t here o -> apply_opv vr t here o u = Ok (t1, rp, u1) -> book_apply b rp = Ok b1 ->
    history vr h t1 b1 u1 t' b' u' -> history vr ((here, o) :: h) t b u t' b' u'.

Theorem consistent_history_any vr h t b u t' b' u' : history vr h t b u t' b' u' ->
  cwf t -> consistent_procs t b -> consistent_steps t b ->
  cwf t' /\ consistent_procs t' b' /\ consistent_steps t' b'.
Proof.
  intros Hh. induction Hh as [t b u|here o h t b u t1 rp u1 b1 t' b' u' Hok Hop Hb Hh IH]; intros Hw Hcp Hcs.
  - auto.
  - destruct (consistent_op_any _ _ _ _ _ _ _ _ _ _ Hw Hok Hcp Hcs Hop Hb) as [Hcp1 Hcs1].
    apply (IH (apply_op_cwf _ _ _ _ _ _ _ _ Hw (proj1 Hok) Hop) Hcp1 Hcs1).
Qed.

Theorem consistent_history h t b u t' b' u' : history vfixed h t b u t' b' u' ->
  cwf t -> consistent_procs t b -> consistent_steps t b ->
  cwf t' /\ consistent_procs t' b' /\ consistent_steps t' b'.
Proof. apply consistent_history_any. Qed.

(* ================= D. one update carrying SEVERAL operations; the full engine step; histories of updates ================= *)
Notation apply_opsv vr := (apply_ops mk_child D build copy_procs vr).

(* the operations of one update, in the order they are applied: each satisfies op_ok in the state it meets *)
Fixpoint ops_ok (vr : variant) (t : cnode) (here : list key) (l : list (sop D)) (uid : N) : Prop :=
  match l with
  | [] => True
  | o :: r => op_ok t here o /\
              forall t1 rp1 u1, apply_opv vr t here o uid = Ok (t1, rp1, u1) -> ops_ok vr t1 here r u1
  end.

Lemma ops_fold_fit vr here l : forall t0 t rp0 n0 uid t' rp uid',
  cwf t -> upd_fit t0 t rp0 n0 -> ops_ok vr t here l uid ->
  fold_left (fun acc o =>
               rbind acc (fun tru =>
                 let '(t', rp, uid') := tru in
                 rbind (apply_opv vr t' here o uid') (fun tru' =>
                   let '(t'', rp', uid'') := tru' in Ok (t'', rapp rp rp', uid''))))
            l (Ok (t, rp0, uid)) = Ok (t', rp, uid') ->
  cwf t' /\ exists news, upd_fit t0 t' rp news.
Proof.
  induction l as [|o l IH]; intros t0 t rp0 n0 uid t' rp uid' Hw Hfit Hok H.
  - cbn in H. inversion H; subst. split; [exact Hw|]. exists n0. exact Hfit.
  - cbn [fold_left rbind] in H. destruct Hok as [Hok Hrest].
    destruct (apply_opv vr t here o uid) as [[[t1 rp1] u1]|e] eqn:Eo; cbn [rbind] in H.
    + destruct (op_change _ _ _ _ _ _ _ _ Hw Hok Eo) as (n1 & Hch & Hrf).
      apply (IH t0 t1 (rapp rp0 rp1) (n0 ++ n1) u1 t' rp uid'
                (apply_op_cwf _ _ _ _ _ _ _ _ Hw Hok Eo) (upd_fit_step _ _ _ _ _ _ _ Hfit Hch Hrf)
                (Hrest t1 rp1 u1 eq_refl) H).
    + rewrite fold_err in H by reflexivity. discriminate H.
Qed.

(* what one update did to the hierarchy, whatever the number of its operations *)
Theorem apply_ops_fit vr t here ops uid t' rp uid' : cwf t ->
  ops_ok vr t here (order_ops D ops) uid ->
  apply_opsv vr t here ops uid = Ok (t', rp, uid') ->
  cwf t' /\ exists news, upd_fit t t' rp news.
Proof.
  intros Hw Hok H. unfold apply_ops in H.
  apply (ops_fold_fit vr here _ t t no_reports [] uid t' rp uid' Hw (upd_fit_refl t) Hok H).
Qed.

(* THE FULL ENGINE STEP AFTER ONE UPDATE OF ANY SHAPE: both tables follow the hierarchy.  Premises: every
   operation meets op_ok in the state it is applied to; reports that put the same object at the same path agree on
   is_step() (an object has one class; it holds whenever no path is reported twice) *)
Theorem engine_consistent_ops_any vr t here ops uid t' rp uid' b b' : cwf t ->
  ops_ok vr t here (order_ops D ops) uid -> consistent_procs t b -> consistent_steps t b ->
  apply_opsv vr t here ops uid = Ok (t', rp, uid') -> reports_coherent rp ->
  engine_apply b t' rp = Ok b' ->
  cwf t' /\ consistent_procs t' b' /\ consistent_steps t' b'.
Proof.
  intros Hw Hok Hcp Hcs H Hco Hb.
  destruct (apply_ops_fit _ _ _ _ _ _ _ _ Hw Hok H) as (Hw' & news & Hfit).
  pose proof (reports_news_coherent _ _ _ _ Hfit Hco) as Hnc.
  split; [exact Hw'|].
  split; [apply (engine_consistent_procs_generic t t' b b' rp news Hw' Hcp Hfit Hnc Hb)
         |apply (engine_consistent_steps_generic t t' b b' rp news Hw' Hcs Hfit Hnc Hb)].
Qed.

Theorem engine_consistent_ops t here ops uid t' rp uid' b b' : cwf t ->
  ops_ok vfixed t here (order_ops D ops) uid -> consistent_procs t b -> consistent_steps t b ->
  apply_opsv vfixed t here ops uid = Ok (t', rp, uid') -> reports_coherent rp ->
  engine_apply b t' rp = Ok b' ->
  cwf t' /\ consistent_procs t' b' /\ consistent_steps t' b'.
Proof. apply engine_consistent_ops_any. Qed.

(* a history of updates as the engine runs them (Corr/Structc.run_hist): Store.apply_update of the operations
   addressed to one node, then Engine.apply_update's registration of what the store still holds *)
Inductive engine_history (vr : variant)
  : list (list key * list (sop D)) -> cnode -> book -> N -> cnode -> book -> N -> Prop :=
| ehistory_nil t b u : engine_history vr [] t b u t b u
| ehistory_cons here ops h t b u t1 rp u1 b1 t' b' u' :
    ops_ok vr t here (order_ops D ops) u -> apply_opsv vr t here ops u = Ok (t1, rp, u1) ->
    reports_coherent rp -> engine_apply b t1 rp = Ok b1 ->
    engine_history vr h t1 b1 u1 t' b' u' -> engine_history vr ((here, ops) :: h) t b u t' b' u'.

Theorem engine_consistent_history_any vr h t b u t' b' u' : engine_history vr h t b u t' b' u' ->
  cwf t -> consistent_procs t b -> consistent_steps t b ->
  cwf t' /\ consistent_procs t' b' /\ consistent_steps t' b'.
Proof.
  intros Hh. induction Hh as [t b u|here ops h t b u t1 rp u1 b1 t' b' u' Hok Hop Hco Hb Hh IH]; intros Hw Hcp Hcs.
  - auto.
  - destruct (engine_consistent_ops_any _ _ _ _ _ _ _ _ _ _ Hw Hok Hcp Hcs Hop Hco Hb) as (Hw1 & Hcp1 & Hcs1).
    apply (IH Hw1 Hcp1 Hcs1).
Qed.

Theorem engine_consistent_history h t b u t' b' u' : engine_history vfixed h t b u t' b' u' ->
  cwf t -> consistent_procs t b -> consistent_steps t b ->
  cwf t' /\ consistent_procs t' b' /\ consistent_steps t' b'.
Proof. apply engine_consistent_history_any. Qed.

(* ---- the two updates the repair is about ---- *)
Lemma apply_ops_two vr t here o1 o2 uid t' rp uid' : order_ops D [o1; o2] = [o1; o2] ->
  apply_opsv vr t here [o1; o2] uid = Ok (t', rp, uid') ->
  exists t1 rp1 u1 rp2, apply_opv vr t here o1 uid = Ok (t1, rp1, u1) /\
    apply_opv vr t1 here o2 u1 = Ok (t', rp2, uid') /\ rp = rapp (rapp no_reports rp1) rp2.
Proof.
  intros Hord H. unfold apply_ops in H. rewrite Hord in H. cbn [fold_left rbind] in H.
  destruct (apply_opv vr t here o1 uid) as [[[t1 rp1] u1]|e] eqn:E1; cbn [rbind] in H; [|discriminate H].
  destruct (apply_opv vr t1 here o2 u1) as [[[t2 rp2] u2]|e] eqn:E2; cbn [rbind] in H; [|discriminate H].
  inversion H; subst. exists t1, rp1, u1, rp2. auto.
Qed.

(* new nodes that are in the hierarchy when the next operation starts cannot share a path with what that one puts *)
Lemma news_nodup_step t1 rp2 n1 n2 : NoDup (map fst n1) ->
  (forall q pi, In (q, pi) n1 -> In (q, pi) (proc_nodes t1 [])) -> reports_fit t1 rp2 n2 ->
  NoDup (map fst (n1 ++ n2)).
Proof.
  intros Hn1 Hin1 (Hn2 & Hfresh & _). rewrite map_app. apply nodup_app; [exact Hn1|exact Hn2|].
  intros q Hq1 Hq2. apply in_map_iff in Hq1. destruct Hq1 as ([q1 pi1] & Heq1 & Hq1).
  apply in_map_iff in Hq2. destruct Hq2 as ([q2 pi2] & Heq2 & Hq2). cbn [fst] in Heq1, Heq2. subst q1 q2.
  apply (Hfresh q pi2 Hq2 pi1 (Hin1 q pi1 Hq1)).
Qed.

(* a compartment generated and deleted again by the same update: the engine's tables are as consistent as before
   (nothing of it is registered).  Premise: the key is new. *)
Theorem engine_generate_delete_consistent vr t here k d init uid t' rp uid' b b' : cwf t ->
  consistent_procs t b -> consistent_steps t b -> cget t (here ++ [k]) = None ->
  apply_opsv vr t here [OpGenerate D k d init; OpDelete D k] uid = Ok (t', rp, uid') ->
  engine_apply b t' rp = Ok b' ->
  cwf t' /\ consistent_procs t' b' /\ consistent_steps t' b'.
Proof.
  intros Hw Hcp Hcs Hnone H Hb.
  destruct (apply_ops_two vr t here (OpGenerate D k d init) (OpDelete D k) uid t' rp uid' eq_refl H) as (t1 & rp1 & u1 & rp2 & E1 & E2 & ->).
  assert (Hok1 : op_ok t here (OpGenerate D k d init)) by exact Hnone.
  pose proof (apply_op_cwf _ _ _ _ _ _ _ _ Hw Hok1 E1) as Hw1.
  pose proof (apply_op_cwf vr t1 here (OpDelete D k) u1 t' rp2 uid' Hw1 I E2) as Hw'.
  destruct (op_change_generate _ _ _ _ _ _ _ _ _ _ Hw Hnone E1) as (n1 & Hch1 & Hrf1).
  destruct (op_change_delete _ _ _ _ _ _ _ _ Hw1 E2) as [Hch2 Hrf2].
  pose proof (upd_fit_step _ _ _ _ _ _ _ (upd_fit_step _ _ _ _ _ _ _ (upd_fit_refl t) Hch1 Hrf1) Hch2 Hrf2) as Hfit.
  assert (Hnc : news_coherent (([] ++ n1) ++ [])).
  { apply nodup_news_coherent. cbn [app]. rewrite app_nil_r. exact (proj1 Hrf1). }
  split; [exact Hw'|].
  split; [apply (engine_consistent_procs_generic t t' b b' _ _ Hw' Hcp Hfit Hnc Hb)
         |apply (engine_consistent_steps_generic t t' b b' _ _ Hw' Hcs Hfit Hnc Hb)].
Qed.

(* a compartment moved away and a new one generated under its key by the same update: the moved processes are
   registered at their new place, the new ones at the old place (the pinned engine dropped these: see
   book_apply_pinned_refuted).  No premise besides success: the key is free once its holder has moved. *)
Theorem engine_move_generate_consistent vr t here k tgt d init uid t' rp uid' b b' : cwf t ->
  consistent_procs t b -> consistent_steps t b ->
  apply_opsv vr t here [OpMove D k tgt; OpGenerate D k d init] uid = Ok (t', rp, uid') ->
  engine_apply b t' rp = Ok b' ->
  cwf t' /\ consistent_procs t' b' /\ consistent_steps t' b'.
Proof.
  intros Hw Hcp Hcs H Hb.
  destruct (apply_ops_two vr t here (OpMove D k tgt) (OpGenerate D k d init) uid t' rp uid' eq_refl H) as (t1 & rp1 & u1 & rp2 & E1 & E2 & ->).
  pose proof (apply_op_cwf vr t here (OpMove D k tgt) uid t1 rp1 u1 Hw I E1) as Hw1.
  assert (Hnone : cget t1 (here ++ [k]) = None).
  { destruct (move_target_not_inside _ _ _ _ _ _ _ _ _ Hw E1) as [Hs1 Hs2].
    pose proof E1 as E1'. apply move_inv3 in E1'.
    destruct E1' as (u & g & c & node & t0 & _ & _ & _ & Hdl & Hcs0 & _).
    apply sig_at_None. rewrite (cset_frame _ _ _ _ (here ++ [k]) Hcs0 Hs2).
    apply cget_None_sig. apply (cdel_gone _ _ _ Hw (snoc_not_nil here k) Hdl). }
  assert (Hok2 : op_ok t1 here (OpGenerate D k d init)) by exact Hnone.
  pose proof (apply_op_cwf _ _ _ _ _ _ _ _ Hw1 Hok2 E2) as Hw'.
  destruct (op_change_move _ _ _ _ _ _ _ _ _ Hw E1) as (n1 & Hch1 & Hrf1).
  destruct (op_change_generate _ _ _ _ _ _ _ _ _ _ Hw1 Hnone E2) as (n2 & Hch2 & Hrf2).
  pose proof (upd_fit_step _ _ _ _ _ _ _ (upd_fit_step _ _ _ _ _ _ _ (upd_fit_refl t) Hch1 Hrf1) Hch2 Hrf2) as Hfit.
  assert (Hnc : news_coherent (([] ++ n1) ++ n2)).
  { apply nodup_news_coherent. cbn [app]. apply (news_nodup_step t1 rp2 n1 n2 (proj1 Hrf1)); [|exact Hrf2].
    intros q pi Hin. apply Hch1. split; [right; exact Hin|].
    destruct (op_upd_fit _ _ _ _ Hch1 Hrf1) as [Hu _].
    apply (reports_clear_move _ _ _ _ _ _ _ _ _ Hw E1 q pi (upd_fit_reported _ _ _ _ _ _ Hu Hin)). }
  split; [exact Hw'|].
  split; [apply (engine_consistent_procs_generic t t' b b' _ _ Hw' Hcp Hfit Hnc Hb)
         |apply (engine_consistent_steps_generic t t' b b' _ _ Hw' Hcs Hfit Hnc Hb)].
Qed.

End Kit2.

(* ================= 6. the concrete kit of Model/StructC.v; counterexamples ================= *)
Ltac nd_keys := repeat (constructor; [cbn; intuition discriminate|]); constructor.
Ltac wf_tree :=
  lazymatch goal with
  | |- cwf (CDir _ _ _) =>
    apply cwf_dir; [cbn; nd_keys|cbn; repeat (apply Forall_cons; [cbn [snd]; wf_tree|]); apply Forall_nil]
  | |- cwf _ => constructor
  end.

Lemma structc_mk_child_no_procs : forall u, proc_nodes (fst (mk_child u)) [] = [].
Proof. intros u. reflexivity. Qed.

Lemma structc_mk_child_cwf : forall u, cwf (fst (mk_child u)).
Proof. intros u. unfold mk_child. cbn [fst]. wf_tree. Qed.

Lemma structc_build_cwf : forall x n, cwf (fst (build x n)).
Proof. intros x n. unfold build. destruct (is_inert x), (no_cnt x), (has_drv x), (has_flow x); cbn [fst app]; wf_tree. Qed.

Lemma structc_build_steps : forall x n p pi,
  In (p, pi) (proc_nodes (fst (build x n)) []) -> pi_in_steps pi = true -> pi_step pi = true.
Proof.
  intros x n p pi Hin Hi. unfold build in Hin.
  destruct (is_inert x), (no_cnt x), (has_drv x), (has_flow x); cbn [fst app] in Hin; rewrite proc_nodes_dir in Hin;
    cbn [flat_map fst snd proc_nodes cdepth app] in Hin;
    repeat (destruct Hin as [Hin|Hin]; [inversion Hin; subst; cbn in Hi |- *; congruence|]); destruct Hin.
Qed.

Lemma structc_copy_cwf : forall m n, cwf m -> cwf (fst (copy_procs m n)).
Proof.
  intros m n _. unfold copy_procs, mk_child.
  destruct (alookup kCnt (cchildren m)) as [[? ? ?|? ?|? ? ?]|]; cbn [fst]; wf_tree.
Qed.

(* ---- the theorems at the concrete kit ---- *)
Notation kop vr := (apply_op mk_child N build copy_procs vr).

Theorem structc_consistent_op t here o uid t' rp uid' b b' : cwf t -> bop_ok N t here o ->
  consistent_procs t b -> consistent_steps t b ->
  kop vfixed t here o uid = Ok (t', rp, uid') -> book_apply b rp = Ok b' ->
  consistent_procs t' b' /\ consistent_steps t' b'.
Proof.
  apply (consistent_op mk_child N build copy_procs structc_mk_child_no_procs structc_mk_child_cwf
                       structc_build_cwf structc_build_steps structc_copy_cwf).
Qed.

Theorem structc_consistent_history h t b u t' b' u' :
  history mk_child N build copy_procs vfixed h t b u t' b' u' ->
  cwf t -> consistent_procs t b -> consistent_steps t b ->
  cwf t' /\ consistent_procs t' b' /\ consistent_steps t' b'.
Proof.
  apply (consistent_history mk_child N build copy_procs structc_mk_child_no_procs structc_mk_child_cwf
                            structc_build_cwf structc_build_steps structc_copy_cwf).
Qed.

(* the full engine step at the concrete kit: one operation, one update of any shape, histories of updates *)
Theorem structc_engine_consistent_op t here o uid t' rp uid' b b' : cwf t -> op_ok N t here o ->
  consistent_procs t b -> consistent_steps t b ->
  kop vfixed t here o uid = Ok (t', rp, uid') -> kengine_apply b t' rp = Ok b' ->
  consistent_procs t' b' /\ consistent_steps t' b'.
Proof.
  apply (engine_consistent_op mk_child N build copy_procs structc_mk_child_no_procs structc_mk_child_cwf
                              structc_build_cwf structc_build_steps structc_copy_cwf).
Qed.

Theorem structc_engine_consistent_ops t here ops uid t' rp uid' b b' : cwf t ->
  ops_ok mk_child N build copy_procs vfixed t here (order_ops N ops) uid ->
  consistent_procs t b -> consistent_steps t b ->
  kapply_ops vfixed t here ops uid = Ok (t', rp, uid') -> reports_coherent rp ->
  kengine_apply b t' rp = Ok b' ->
  cwf t' /\ consistent_procs t' b' /\ consistent_steps t' b'.
Proof.
  apply (engine_consistent_ops mk_child N build copy_procs structc_mk_child_no_procs structc_mk_child_cwf
                               structc_build_cwf structc_build_steps structc_copy_cwf).
Qed.

Theorem structc_engine_consistent_history h t b u t' b' u' :
  engine_history mk_child N build copy_procs vfixed h t b u t' b' u' ->
  cwf t -> consistent_procs t b -> consistent_steps t b ->
  cwf t' /\ consistent_procs t' b' /\ consistent_steps t' b'.
Proof.
  apply (engine_consistent_history mk_child N build copy_procs structc_mk_child_no_procs structc_mk_child_cwf
                                   structc_build_cwf structc_build_steps structc_copy_cwf).
Qed.

(* the engine the harness builds, reduced: a holder process (key 12) and a colony (key 10, a glob) *)
Definition ex_root : cnode :=
  CDir 0 false [(12%N, CProc 1 {| pi_step := false; pi_in_steps := false; pi_flow := None; pi_obj := 2%N |});
                (10%N, CDir 3 true [])].
Definition ex_book : book :=
  {| b_procs := [([12%N], 2%N)]; b_steps := []; b_graph := empty_graph;
     pub_processes := [([12%N], 2%N)]; pub_steps := []; pub_topology := [[12%N]]; pub_flow := [] |}.

Lemma ex_root_ok : cwf ex_root /\ consistent_procs ex_root ex_book /\ consistent_steps ex_root ex_book.
Proof.
  split; [unfold ex_root; wf_tree|]. split; (split; [intros x; vm_compute; tauto|vm_compute; nd_keys]).
Qed.

Ltac solve_op_ok :=
  cbn; first [reflexivity|split; [nd_keys|intros k Hk; cbn in Hk; intuition (subst; reflexivity)]|exact I].
Ltac run_history :=
  repeat (eapply history_cons; [split; solve_op_ok|vm_compute; reflexivity|vm_compute; reflexivity|]);
  apply history_nil.

(* K8 does not touch the tables.  A compartment with a deriver and two flow steps (kind 3) is generated at
   key 20 of the colony and divided into two INHERITING daughters 21, 22: both tables stay consistent with the
   hierarchy (the daughters have no steps: step_paths t' = []), while the published flow and topology list
   the mother's steps under each daughter -- paths at which the hierarchy holds nothing. *)
Example k8_tables_consistent_publication_stale :
  exists t' b' u',
    history mk_child N build copy_procs vfixed
      [([10%N], OpGenerate N 20%N 3%N (Nd []));
       ([10%N], OpDivide N 20%N [(21%N, None, Nd []); (22%N, None, Nd [])] [])]
      ex_root ex_book 100%N t' b' u' /\
    consistent_procs t' b' /\ consistent_steps t' b' /\ step_paths t' = [] /\ b_steps b' = [] /\
    In [10%N; 21%N; kFst] (pub_topology b') /\ In ([10%N; 21%N; kFst2], [[Dn kFst]]) (pub_flow b') /\
    cget t' [10%N; 21%N; kFst] = None /\ cget t' [10%N; 21%N; kFst2] = None.
Proof.
  eexists. eexists. eexists.
  match goal with |- ?H /\ _ => assert (Hh : H) by run_history end.
  split; [exact Hh|]. destruct ex_root_ok as (Hw & Hcp & Hcs).
  destruct (structc_consistent_history _ _ _ _ _ _ _ Hh Hw Hcp Hcs) as (_ & Hc1 & Hc2).
  split; [exact Hc1|]. split; [exact Hc2|].
  vm_compute. repeat split; auto 20.
Qed.

(* K6 does not touch the tables either.  The same mother divided into two EXPLICIT daughters of kind 0 (a
   counting process only, no flow): the tables are consistent, the published flow lists the mother's flow
   steps under each daughter. *)
Example k6_tables_consistent_publication_stale :
  exists t' b' u',
    history mk_child N build copy_procs vfixed
      [([10%N], OpGenerate N 20%N 3%N (Nd []));
       ([10%N], OpDivide N 20%N [(21%N, Some 0%N, Nd []); (22%N, Some 0%N, Nd [])] [])]
      ex_root ex_book 100%N t' b' u' /\
    consistent_procs t' b' /\ consistent_steps t' b' /\ step_paths t' = [] /\ b_steps b' = [] /\
    In ([10%N; 21%N; kFst2], [[Dn kFst]]) (pub_flow b') /\ cget t' [10%N; 21%N; kFst2] = None.
Proof.
  eexists. eexists. eexists.
  match goal with |- ?H /\ _ => assert (Hh : H) by run_history end.
  split; [exact Hh|]. destruct ex_root_ok as (Hw & Hcp & Hcs).
  destruct (structc_consistent_history _ _ _ _ _ _ _ Hh Hw Hcp Hcs) as (_ & Hc1 & Hc2).
  split; [exact Hc1|]. split; [exact Hc2|].
  vm_compute. repeat split; auto 20.
Qed.

(* ---- the premises of division are needed ---- *)
(* a daughter key that exists already: compartment 21 (kind 3, with steps) is overwritten by an inheriting
   daughter of 20; nothing reports its steps as deleted, the engine keeps running them *)
Example divide_existing_key_counterexample :
  exists t b u t' rp u' b',
    history mk_child N build copy_procs vfixed
      [([10%N], OpGenerate N 20%N 0%N (Nd [])); ([10%N], OpGenerate N 21%N 3%N (Nd []))]
      ex_root ex_book 100%N t b u /\
    cwf t /\ consistent_procs t b /\ consistent_steps t b /\
    kop vfixed t [10%N] (OpDivide N 20%N [(21%N, None, Nd []); (22%N, None, Nd [])] []) u = Ok (t', rp, u') /\
    book_apply b rp = Ok b' /\
    NoDup (map (dkey N) [(21%N, None, Nd []); (22%N, None, Nd [])]) /\
    cget t [10%N; 21%N] <> None /\
    ~ consistent_steps t' b'.
Proof.
  eexists. eexists. eexists. eexists. eexists. eexists. eexists.
  match goal with |- ?H /\ _ => assert (Hh : H) by run_history end.
  split; [exact Hh|]. destruct ex_root_ok as (Hw & Hcp & Hcs).
  destruct (structc_consistent_history _ _ _ _ _ _ _ Hh Hw Hcp Hcs) as (Hw1 & Hc1 & Hc2).
  split; [exact Hw1|]. split; [exact Hc1|]. split; [exact Hc2|].
  split; [vm_compute; reflexivity|]. split; [vm_compute; reflexivity|].
  split; [cbn; nd_keys|]. split; [vm_compute; discriminate|].
  intros [Hss _]. specialize (proj1 (Hss ([10%N; 21%N; kFst], 125%N))). vm_compute. tauto.
Qed.

(* two daughters under one key: the second (kind 0) overwrites the first (kind 3), whose steps stay filed *)
Example divide_duplicate_key_counterexample :
  exists t b u t' rp u' b',
    history mk_child N build copy_procs vfixed [([10%N], OpGenerate N 20%N 0%N (Nd []))]
      ex_root ex_book 100%N t b u /\
    cwf t /\ consistent_procs t b /\ consistent_steps t b /\
    kop vfixed t [10%N] (OpDivide N 20%N [(21%N, Some 3%N, Nd []); (21%N, Some 0%N, Nd [])] []) u = Ok (t', rp, u') /\
    book_apply b rp = Ok b' /\
    (forall k, In k (map (dkey N) [(21%N, Some 3%N, Nd []); (21%N, Some 0%N, Nd [])]) -> cget t ([10%N] ++ [k]) = None) /\
    ~ consistent_steps t' b'.
Proof.
  eexists. eexists. eexists. eexists. eexists. eexists. eexists.
  match goal with |- ?H /\ _ => assert (Hh : H) by run_history end.
  split; [exact Hh|]. destruct ex_root_ok as (Hw & Hcp & Hcs).
  destruct (structc_consistent_history _ _ _ _ _ _ _ Hh Hw Hcp Hcs) as (Hw1 & Hc1 & Hc2).
  split; [exact Hw1|]. split; [exact Hc1|]. split; [exact Hc2|].
  split; [vm_compute; reflexivity|]. split; [vm_compute; reflexivity|].
  split; [intros k Hk; cbn in Hk; intuition (subst; reflexivity)|].
  intros [Hss _]. specialize (proj1 (Hss ([10%N; 21%N; kFst], 125%N))). vm_compute. tauto.
Qed.

(* ---- build_steps is needed for the step table ---- *)
(* the kit of Consistent_proofs.generate_reports_counterexample: `build` lists a plain Process (is_step() false)
   in the `steps` dict.  Store.insert reports it as a step update, Engine.apply_update files it in _step_paths
   without asking is_step(): the step table holds a path that is no Step of the hierarchy (and, by
   generate_reports_counterexample, the process table misses it).  All other premises hold. *)
Theorem generate_steps_counterexample :
  (forall u, proc_nodes (fst (cx_mk_child u)) [] = []) /\ (forall u, cwf (fst (cx_mk_child u))) /\
  (forall x n, cwf (fst (cx_build x n))) /\
  exists t b here k d init uid t' rp uid' b',
    cwf t /\ consistent_procs t b /\ consistent_steps t b /\ cget t (here ++ [k]) = None /\
    apply_op cx_mk_child unit cx_build cx_copy vfixed t here (OpGenerate unit k d init) uid = Ok (t', rp, uid') /\
    book_apply b rp = Ok b' /\
    ~ consistent_steps t' b' /\ ~ consistent_procs t' b'.
Proof.
  split; [intros u; reflexivity|]. split; [intros u; constructor|]. split; [intros x n; constructor|].
  exists (CDir 0%N false []),
         {| b_procs := []; b_steps := []; b_graph := empty_graph; pub_processes := []; pub_steps := [];
            pub_topology := []; pub_flow := [] |}, [], 0%N, tt, (Lf 0%Z), 1%N.
  eexists. eexists. eexists. eexists.
  split; [constructor; [constructor|constructor]|].
  split; [split; [intros x; vm_compute; tauto|constructor]|].
  split; [split; [intros x; vm_compute; tauto|constructor]|].
  split; [reflexivity|]. split; [vm_compute; reflexivity|]. split; [vm_compute; reflexivity|].
  split.
  - intros [Hss _]. specialize (proj1 (Hss ([0%N], 7%N))). vm_compute. tauto.
  - intros [Hss _]. specialize (proj2 (Hss ([0%N], 7%N))). vm_compute. tauto.
Qed.

(* ---- the premise of movep_reports / movep_reports_steps is needed for those statements ---- *)
(* the target [1;2] is the moved node itself: the attached copy [1;2;1;2] goes with the source, its step stays
   reported -- the full engine step does not register it (the store does not hold it), the folding alone would:
   movep_book_apply_premise_needed below *)
Definition cxm_tree3 : cnode :=
  CDir 0%N false [(1%N, CDir 1%N false [(2%N, CDir 2%N false
     [(5%N, CProc 5%N {| pi_step := true; pi_in_steps := true; pi_flow := Some []; pi_obj := 6%N |})])])].

Example movep_reports_steps_premise_needed :
  exists t' rp uid',
    apply_op cx_mk_child unit cx_build cx_copy vfixed cxm_tree3 [] (OpMoveP unit [1%N; 2%N] [1%N; 2%N]) 10%N
      = Ok (t', rp, uid') /\
    cwf cxm_tree3 /\ step_paths t' = [] /\
    (exists pi, In ([1%N; 2%N; 1%N; 2%N; 5%N], pi) (r_step rp) /\ 6%N = pi_obj pi) /\
    r_deletions rp = [[1%N; 2%N]].
Proof.
  eexists. eexists. eexists. split; [vm_compute; reflexivity|].
  split; [unfold cxm_tree3; wf_tree|]. split; [vm_compute; reflexivity|].
  split; [|vm_compute; reflexivity]. eexists. split; [vm_compute; left; reflexivity|reflexivity].
Qed.

(* ================= 7. deletions first, only what the store still holds: the record of the pinned order ================= *)
(* the reduced engine with a second colony (key 11) and one compartment (key 20, a counting process, object 107)
   in the first *)
Definition pin_root : cnode :=
  CDir 0 false [(12%N, CProc 1 {| pi_step := false; pi_in_steps := false; pi_flow := None; pi_obj := 2%N |});
                (10%N, CDir 3 true [(20%N, fst (build 0%N 100%N))]); (11%N, CDir 4 true [])].
Definition pin_book : book :=
  {| b_procs := [([12%N], 2%N); ([10%N; 20%N; kCnt], 107%N)]; b_steps := []; b_graph := empty_graph;
     pub_processes := [([12%N], 2%N); ([10%N; 20%N; kCnt], 107%N)]; pub_steps := [];
     pub_topology := [[12%N]; [10%N; 20%N; kCnt]]; pub_flow := [] |}.

Lemma pin_root_ok : cwf pin_root /\ consistent_procs pin_root pin_book /\ consistent_steps pin_root pin_book.
Proof.
  split; [unfold pin_root, build; cbn; wf_tree|]. split; (split; [intros x; vm_compute; tauto|vm_compute; nd_keys]).
Qed.

(* ONE UPDATE MOVES COMPARTMENT 20 TO THE OTHER COLONY AND GENERATES A NEW COMPARTMENT UNDER KEY 20.
   The pinned Engine.apply_update (register everything reported, then drop everything under a reported deletion)
   loses the new compartment's process: it is a process node of the new hierarchy, it is not in the process table.
   The repaired step (deletions first, then what the store still holds) registers both. *)
Theorem book_apply_pinned_refuted :
  exists t' rp u' bp be,
    cwf pin_root /\ consistent_procs pin_root pin_book /\ consistent_steps pin_root pin_book /\
    kapply_ops vfixed pin_root [10%N] [OpMove N 20%N [11%N]; OpGenerate N 20%N 0%N (Nd [])] 200%N = Ok (t', rp, u') /\
    kbook_apply_pinned pin_book rp = Ok bp /\ kengine_apply pin_book t' rp = Ok be /\
    In ([10%N; 20%N; kCnt], 207%N) (proc_paths t') /\ In ([11%N; 20%N; kCnt], 107%N) (proc_paths t') /\
    ~ In [10%N; 20%N; kCnt] (map fst (b_procs bp)) /\ ~ consistent_procs t' bp /\
    In ([10%N; 20%N; kCnt], 207%N) (b_procs be) /\ In ([11%N; 20%N; kCnt], 107%N) (b_procs be) /\
    consistent_procs t' be /\ consistent_steps t' be.
Proof.
  destruct pin_root_ok as (Hw & Hcp & Hcs).
  eexists. eexists. eexists. eexists. eexists.
  split; [exact Hw|]. split; [exact Hcp|]. split; [exact Hcs|].
  split; [vm_compute; reflexivity|]. split; [vm_compute; reflexivity|]. split; [vm_compute; reflexivity|].
  split; [vm_compute; tauto|]. split; [vm_compute; tauto|].
  split; [vm_compute; intros [H|[H|[]]]; discriminate H|].
  split.
  { intros [Hss _]. specialize (proj2 (Hss ([10%N; 20%N; kCnt], 207%N))). vm_compute.
    intros Hx. destruct Hx as [H|[H|[]]]; [tauto|discriminate H|discriminate H]. }
  split; [vm_compute; tauto|]. split; [vm_compute; tauto|].
  split; (split; [intros x; vm_compute; tauto|vm_compute; nd_keys]).
Qed.

(* the general theorem at this update: engine_move_generate_consistent needs nothing but the success of the update *)
Example pinned_refuted_by_theorem :
  forall t' rp u' be,
    kapply_ops vfixed pin_root [10%N] [OpMove N 20%N [11%N]; OpGenerate N 20%N 0%N (Nd [])] 200%N = Ok (t', rp, u') ->
    kengine_apply pin_book t' rp = Ok be -> cwf t' /\ consistent_procs t' be /\ consistent_steps t' be.
Proof.
  intros t' rp u' be H Hb. destruct pin_root_ok as (Hw & Hcp & Hcs).
  apply (engine_move_generate_consistent mk_child N build copy_procs structc_mk_child_no_procs structc_mk_child_cwf
           structc_build_cwf structc_build_steps structc_copy_cwf vfixed pin_root [10%N] 20%N [11%N] 0%N (Nd []) 200%N
           t' rp u' pin_book be Hw Hcp Hcs H Hb).
Qed.

(* ONE UPDATE GENERATES COMPARTMENT 21 AND DELETES IT AGAIN.  Why "only what the store still holds": the folding
   with the deletions first but without that filter (book_apply on the raw reports) registers the process of a
   compartment that is gone; the full step registers nothing and the table is as before.  (The pinned code raised
   here: it re-read every reported node.) *)
Theorem engine_held_needed :
  exists t' rp u' bb be,
    kapply_ops vfixed pin_root [10%N] [OpGenerate N 21%N 0%N (Nd []); OpDelete N 21%N] 200%N = Ok (t', rp, u') /\
    cget t' [10%N; 21%N] = None /\
    kbook_apply pin_book rp = Ok bb /\ kengine_apply pin_book t' rp = Ok be /\
    In ([10%N; 21%N; kCnt], 207%N) (b_procs bb) /\ ~ consistent_procs t' bb /\
    b_procs be = b_procs pin_book /\ consistent_procs t' be /\ consistent_steps t' be.
Proof.
  eexists. eexists. eexists. eexists. eexists.
  split; [vm_compute; reflexivity|]. split; [vm_compute; reflexivity|].
  split; [vm_compute; reflexivity|]. split; [vm_compute; reflexivity|].
  split; [vm_compute; tauto|].
  split.
  { intros [Hss _]. specialize (proj1 (Hss ([10%N; 21%N; kCnt], 207%N))). vm_compute.
    intros Hx. destruct Hx as [H|[H|[]]]; [tauto|discriminate H|discriminate H]. }
  split; [vm_compute; reflexivity|].
  split; (split; [intros x; vm_compute; tauto|vm_compute; nd_keys]).
Qed.

Example generate_delete_by_theorem :
  forall t' rp u' be,
    kapply_ops vfixed pin_root [10%N] [OpGenerate N 21%N 0%N (Nd []); OpDelete N 21%N] 200%N = Ok (t', rp, u') ->
    kengine_apply pin_book t' rp = Ok be -> cwf t' /\ consistent_procs t' be /\ consistent_steps t' be.
Proof.
  intros t' rp u' be H Hb. destruct pin_root_ok as (Hw & Hcp & Hcs).
  apply (engine_generate_delete_consistent mk_child N build copy_procs structc_mk_child_no_procs structc_mk_child_cwf
           structc_build_cwf structc_build_steps structc_copy_cwf vfixed pin_root [10%N] 21%N 0%N (Nd []) 200%N
           t' rp u' pin_book be Hw Hcp Hcs eq_refl H Hb).
Qed.

(* a history of updates as the engine runs them, each carrying several operations: compartment 20 is moved to the
   other colony while a new 20 is generated; 21 is generated and deleted at once; the moved compartment is divided
   into two inheriting daughters.  The premises of engine_consistent_history are met (ops_ok and the coherence of
   the reports by computation); both tables follow the hierarchy. *)
Ltac solve_ops_ok :=
  match goal with
  | |- ops_ok ?a ?b ?c ?d ?vr ?t ?here ?l ?u =>
    let l' := eval vm_compute in l in change (ops_ok a b c d vr t here l' u)
  end;
  cbn [ops_ok];
  repeat (split; [solve_op_ok
                 |let E := fresh "E" in intros ? ? ? E; vm_compute in E; inversion E; subst; clear E; cbn [ops_ok]]);
  exact I.
Ltac run_engine_history :=
  repeat (eapply ehistory_cons; [solve_ops_ok|vm_compute; reflexivity
                                |apply reports_coherentb_sound; vm_compute; reflexivity|vm_compute; reflexivity|]);
  apply ehistory_nil.

Example engine_history_example :
  exists t' b' u',
    engine_history mk_child N build copy_procs vfixed
      [([10%N], [OpGenerate N 20%N 1%N (Nd []); OpMove N 20%N [11%N]]);
       ([10%N], [OpDelete N 21%N; OpGenerate N 21%N 3%N (Nd [])]);
       ([11%N], [OpDivide N 20%N [(21%N, None, Nd []); (22%N, None, Nd [])] []])]
      pin_root pin_book 200%N t' b' u' /\
    cwf t' /\ consistent_procs t' b' /\ consistent_steps t' b' /\
    map fst (b_procs b') = [[12%N]; [10%N; 20%N; kCnt]; [11%N; 21%N; kCnt]; [11%N; 22%N; kCnt]] /\
    map fst (b_steps b') = [[10%N; 20%N; kDrv]].
Proof.
  eexists. eexists. eexists.
  match goal with |- ?H /\ _ => assert (Hh : H) by run_engine_history end.
  split; [exact Hh|]. destruct pin_root_ok as (Hw & Hcp & Hcs).
  destruct (structc_engine_consistent_history _ _ _ _ _ _ _ Hh Hw Hcp Hcs) as (Hw' & Hc1 & Hc2).
  split; [exact Hw'|]. split; [exact Hc1|]. split; [exact Hc2|]. split; vm_compute; reflexivity.
Qed.

(* A NESTED MOVE INTO THE MOVED SUBTREE ITSELF (movep_reports_steps_premise_needed): the attached copy goes with the
   source.  Folding the raw reports with the deletions first registers the reported step although it is gone: the
   premise of consistent_movep / consistent_steps_movep is needed for book_apply.  The full step registers nothing
   (the store does not hold it), as did the pinned order (register, then delete). *)
Definition cxm_book3 : book :=
  {| b_procs := []; b_steps := [([1%N; 2%N; 5%N], 6%N)]; b_graph := empty_graph;
     pub_processes := []; pub_steps := [([1%N; 2%N; 5%N], 6%N)]; pub_topology := [[1%N; 2%N; 5%N]]; pub_flow := [] |}.

Example movep_book_apply_premise_needed :
  exists t' rp uid' bb be,
    cwf cxm_tree3 /\ consistent_procs cxm_tree3 cxm_book3 /\ consistent_steps cxm_tree3 cxm_book3 /\
    apply_op cx_mk_child unit cx_build cx_copy vfixed cxm_tree3 [] (OpMoveP unit [1%N; 2%N] [1%N; 2%N]) 10%N
      = Ok (t', rp, uid') /\
    book_apply cxm_book3 rp = Ok bb /\ engine_apply cxm_book3 t' rp = Ok be /\
    step_paths t' = [] /\ b_steps bb = [([1%N; 2%N; 1%N; 2%N; 5%N], 6%N)] /\ ~ consistent_steps t' bb /\
    b_steps be = [] /\ consistent_procs t' be /\ consistent_steps t' be.
Proof.
  eexists. eexists. eexists. eexists. eexists.
  split; [unfold cxm_tree3; wf_tree|].
  split; [split; [intros x; vm_compute; tauto|vm_compute; nd_keys]|].
  split; [split; [intros x; vm_compute; tauto|vm_compute; nd_keys]|].
  split; [vm_compute; reflexivity|]. split; [vm_compute; reflexivity|]. split; [vm_compute; reflexivity|].
  split; [vm_compute; reflexivity|]. split; [vm_compute; reflexivity|].
  split.
  { intros [Hss _]. specialize (proj1 (Hss ([1%N; 2%N; 1%N; 2%N; 5%N], 6%N))). vm_compute. tauto. }
  split; [vm_compute; reflexivity|].
  split; (split; [intros x; vm_compute; tauto|vm_compute; nd_keys]).
Qed.

Print Assumptions book_apply_steps_eq.
Print Assumptions book_apply_steps.
Print Assumptions book_apply_steps_nodup.
Print Assumptions set_value_cwf.
Print Assumptions move_target_not_inside.
Print Assumptions delete_reports_steps.
Print Assumptions generate_reports_steps_partial.
Print Assumptions generate_reports_steps_complete.
Print Assumptions move_reports_steps.
Print Assumptions movep_reports_steps.
Print Assumptions movep_reports_steps_gen.
Print Assumptions movep_reports_gen.
Print Assumptions consistent_steps_delete.
Print Assumptions consistent_steps_generate.
Print Assumptions consistent_steps_move.
Print Assumptions consistent_move_any.
Print Assumptions consistent_steps_movep.
Print Assumptions consistent_movep_any.
Print Assumptions consistent_steps_movep_any.
Print Assumptions divide_reports.
Print Assumptions divide_reports_procs.
Print Assumptions divide_reports_steps.
Print Assumptions consistent_divide.
Print Assumptions consistent_steps_divide.
Print Assumptions apply_op_cwf.
Print Assumptions consistent_op_any.
Print Assumptions consistent_op.
Print Assumptions engine_consistent_op_any.
Print Assumptions engine_consistent_op.
Print Assumptions apply_ops_fit.
Print Assumptions engine_consistent_ops_any.
Print Assumptions engine_consistent_ops.
Print Assumptions engine_consistent_history_any.
Print Assumptions engine_consistent_history.
Print Assumptions engine_generate_delete_consistent.
Print Assumptions engine_move_generate_consistent.
Print Assumptions consistent_add.
Print Assumptions consistent_deletepath.
Print Assumptions consistent_history_any.
Print Assumptions consistent_history.
Print Assumptions structc_consistent_op.
Print Assumptions structc_consistent_history.
Print Assumptions structc_engine_consistent_op.
Print Assumptions structc_engine_consistent_ops.
Print Assumptions structc_engine_consistent_history.
Print Assumptions book_apply_pinned_refuted.
Print Assumptions pinned_refuted_by_theorem.
Print Assumptions engine_held_needed.
Print Assumptions generate_delete_by_theorem.
Print Assumptions movep_book_apply_premise_needed.
Print Assumptions engine_history_example.
Print Assumptions reports_coherentb_sound.
Print Assumptions k8_tables_consistent_publication_stale.
Print Assumptions k6_tables_consistent_publication_stale.
Print Assumptions divide_existing_key_counterexample.
Print Assumptions divide_duplicate_key_counterexample.
Print Assumptions generate_steps_counterexample.
Print Assumptions movep_reports_steps_premise_needed.
Print Assumptions cadd_cuid.
Print Assumptions cadd_cuids.
Print Assumptions cadd_procs.
Print Assumptions cadd_cwf.
