(* Proofs about Model/Sched.v: which processes a pass of the scheduler loop invokes.
   - only processes with no update in flight at the start of the pass (invoke_only_idle);
   - each process at most once per pass (invoke_once_per_pass);
   - only processes of the engine's table (invoke_only_registered). *)
From Coq Require Import List NArith ZArith Bool Lia.
From Viv Require Import Model.Sched Proofs.Sched_defs Proofs.Sched_once_proofs.
Import ListNotations.
Open Scope Z_scope.

Section Idle.
Variables (Sg U W : Type).
Variable poll : W -> pid -> Sg -> Z * W.
Variable cond : W -> pid -> Z -> Sg -> bool * W.
Variable next : W -> pid -> Z -> Sg -> U * W.
Variable commit : Sg -> list pid -> list (pid * U) -> Sg * list pid.

Notation st := (st Sg U W).
Notation iterv vr ee := (iter Sg U W poll cond next commit vr ee).
Notation gt := (gt Sg U W).
Notation frt := (frt Sg U W).
Notation sto := (sto Sg U W).
Notation log := (log Sg U W).
Notation procs := (procs Sg U W).
Notation wld := (wld Sg U W).
Notation front := (front U).
Notation fe := (fe U).
Notation flook := (flook U).
Notation fset := (fset U).
Notation event := (event Sg).
Notation pl := (pl Sg U W).
Notation pf := (pf Sg U W).
Notation plog := (plog Sg U W).
Notation keep_live := (keep_live U).
Notation drop_events := (drop_events Sg U).
Notation colev := (colev Sg U).
Notation Inv := (Inv Sg U W).
Notation polled := (polled Sg U W poll cond next).
Notation a0 := (a0 Sg U W).
Notation ent := (ent U).
Notation step now endt force sg := (poll_one Sg U W poll cond next vfixed now endt force sg).

Ltac poll_cases now endt force sg a p :=
  destruct (poll_one_inv Sg U W poll cond next now endt force sg a p _ _ eq_refl eq_refl)
    as [e' [Hpf [(req & w1 & ts & u & Hpoll & Hdue & Hfut & He' & Hfull & Hq & Hlog & Hok)
               | [(Hdue & He' & Hfull & Hq & Hlog & Hok)
               | [(req & w1 & Hpoll & Hdue & Hfut & He' & Hfull & Hq & Hlog & Hok)
               | (Hdue & He' & Hfull & Hq & Hlog & Hok)]]]]].

(* ------------------------------------------------------------------ *)
(* invocations in a piece of log *)

Definition is_inv (e : event) : bool :=
  match e with EInvoke _ _ _ _ _ _ _ _ => true | _ => false end.

Definition inv_pids (l : list event) : list pid :=
  flat_map (fun e => match e with EInvoke _ p _ _ _ _ _ _ => [p] | _ => [] end) l.

Definition noinv (l : list event) : Prop := Forall (fun v : event => is_inv v = false) l.

Lemma inv_pids_app l1 l2 : inv_pids (l1 ++ l2) = inv_pids l1 ++ inv_pids l2.
Proof. unfold inv_pids. apply flat_map_app. Qed.

Lemma noinv_pids l : noinv l -> inv_pids l = [].
Proof.
  induction 1 as [|v l Hv _ IH]; [reflexivity|].
  destruct v; try discriminate; exact IH.
Qed.

Lemma noinv_forall (P : pid -> Prop) l :
  noinv l ->
  Forall (fun e : event => match e with EInvoke _ p _ _ _ _ _ _ => P p | _ => True end) l.
Proof.
  intros H. eapply Forall_impl; [|exact H]. intros [] Hv; try exact I. discriminate.
Qed.

Lemma noinv_app l1 l2 : noinv l1 -> noinv l2 -> noinv (l1 ++ l2).
Proof. intros H1 H2. apply Forall_app. split; assumption. Qed.

Lemma noinv_rev l : noinv l -> noinv (rev l).
Proof. apply Forall_rev. Qed.

Lemma noinv_emits (rows : list event) : Forall (fun v : event => is_emit v = true) rows -> noinv rows.
Proof.
  intros H. eapply Forall_impl; [|exact H]. intros [] Hv; try reflexivity. discriminate.
Qed.

Lemma noinv_colev now (f : front) : noinv (colev now f).
Proof.
  eapply Forall_impl; [|apply colev_spec]. cbn beta.
  intros v (p & e & u & _ & _ & _ & ->). reflexivity.
Qed.

Lemma noinv_drops now ps (f : front) : noinv (drop_events now ps f).
Proof.
  induction f as [|[q e] r IH]; [constructor|].
  cbn [Sched.drop_events flat_map fst snd]. apply Forall_app. split; [|exact IH].
  destruct (mem q ps); [constructor|]. destruct (fu e); repeat constructor.
Qed.

(* the Forall of the theorems, read through inv_pids *)
Lemma forall_inv_pids (P : pid -> Prop) l :
  (forall p, In p (inv_pids l) -> P p) ->
  Forall (fun e : event => match e with EInvoke _ p _ _ _ _ _ _ => P p | _ => True end) l.
Proof.
  induction l as [|v l IH]; intros H; [constructor|].
  constructor.
  - destruct v; try exact I. apply H. cbn [inv_pids flat_map app In]. left. reflexivity.
  - apply IH. intros p Hin. apply H. cbn [inv_pids flat_map]. apply in_or_app. right. exact Hin.
Qed.

(* ------------------------------------------------------------------ *)
(* shape of the log after a pass *)

Lemma iter_log_shape ee endt force et s s' f' et' ok :
  iterv vfixed ee endt force et s = (s', f', et', ok) ->
  exists pre, log s' = pre ++ plog (polled endt force s) /\ noinv pre.
Proof.
  intros H.
  destruct (iter_cases _ _ _ _ _ _ _ _ _ _ _ _ _ _ _ _ _ H eq_refl) as (_ & _ & Hc).
  destruct Hc as [(Hfull & _ & ->) | [(d & rows & us & Hfull & Hle & Hrows & ->) | (d & Hfull & Hgt & _ & ->)]];
    cbn [Sched.log].
  - exists []. split; [reflexivity|constructor].
  - eexists (rows ++ rev _). split; [rewrite <- app_assoc; reflexivity|].
    apply noinv_app; [apply noinv_emits; exact Hrows|apply noinv_rev, noinv_colev].
  - exists []. split; [reflexivity|constructor].
Qed.

Lemma plog_a0 s : plog (a0 s) = rev (drop_events (gt s) (procs s) (frt s)) ++ log s.
Proof. reflexivity. Qed.

(* from a description of what the fold prepends to a description of what the pass prepends *)
Lemma iter_new_from_fold ee endt force et s s' f' et' ok (mid : list event) :
  iterv vfixed ee endt force et s = (s', f', et', ok) ->
  plog (polled endt force s) = mid ++ plog (a0 s) ->
  exists new, log s' = new ++ log s /\ inv_pids new = inv_pids mid.
Proof.
  intros H Hmid. destruct (iter_log_shape _ _ _ _ _ _ _ _ _ H) as [pre [Hlog Hpre]].
  exists (pre ++ mid ++ rev (drop_events (gt s) (procs s) (frt s))). split.
  - rewrite Hlog, Hmid, plog_a0, <- !app_assoc. reflexivity.
  - rewrite !inv_pids_app, (noinv_pids pre Hpre),
      (noinv_pids _ (noinv_rev _ (noinv_drops (gt s) (procs s) (frt s)))), app_nil_r. reflexivity.
Qed.

(* ------------------------------------------------------------------ *)
(* the polling loop *)

Section Fold.
Variables (now endt : Z) (force : bool) (sg : Sg).

(* no hypothesis: the invoked processes are among those visited *)
Lemma fold_registered : forall (l : list pid) (a : pl),
  exists mid, plog (fold_left (step now endt force sg) l a) = mid ++ plog a /\
              forall p, In p (inv_pids mid) -> In p l.
Proof.
  induction l as [|p l IH]; intros a; cbn [fold_left].
  - exists []. split; [reflexivity|]. intros p [].
  - destruct (IH (step now endt force sg a p)) as [mid [Hmid Hin]]. rewrite Hmid.
    poll_cases now endt force sg a p; rewrite Hlog.
    + eexists (mid ++ [_]). split; [rewrite <- app_assoc; reflexivity|].
      intros q Hiq. rewrite inv_pids_app in Hiq. apply in_app_iff in Hiq.
      destruct Hiq as [Hiq|Hiq]; [right; apply Hin; exact Hiq|].
      cbn [inv_pids flat_map app In] in Hiq. destruct Hiq as [<-|[]]. left. reflexivity.
    + eexists (mid ++ [_]). split; [rewrite <- app_assoc; reflexivity|].
      intros q Hiq. rewrite inv_pids_app in Hiq. apply in_app_iff in Hiq.
      destruct Hiq as [Hiq|Hiq]; [right; apply Hin; exact Hiq|].
      cbn [inv_pids flat_map app In] in Hiq. contradiction.
    + exists mid. split; [reflexivity|]. intros q Hiq. right. apply Hin. exact Hiq.
    + exists mid. split; [reflexivity|]. intros q Hiq. right. apply Hin. exact Hiq.
Qed.

(* with the loop-head invariant *)
Variables (ps : list pid) (fs : front) (l0 : list event).
Hypothesis fs_nodup : NoDup (fkeys fs).
Hypothesis fs_pending : forall p e u, In (p, e) fs -> fu e = Some u -> now < ft e.

Definition idle_in (p : pid) : Prop := forall x, In (p, x) fs -> fu x = None.

Definition Q (rem : list pid) (a : pl) : Prop :=
  incl rem ps /\
  (forall q, In q rem -> flook (pf a) q = flook (keep_live ps fs) q) /\
  exists mid, plog a = mid ++ l0 /\ NoDup (inv_pids mid) /\
              forall p, In p (inv_pids mid) -> ~ In p rem /\ idle_in p.

(* the entry consulted at p's visit is p's entry at the start of the pass *)
Lemma due_idle p l a :
  Q (p :: l) a -> ft (ent now (pf a) p) <= now -> idle_in p.
Proof.
  intros (Hincl & Hsame & _) Hdue x Hin.
  assert (Hp : In p ps) by (apply Hincl; left; reflexivity).
  assert (Hl : flook (pf a) p = Some x).
  { rewrite (Hsame p (or_introl eq_refl)), flook_keep_live.
    apply mem_In in Hp. rewrite Hp. apply In_flook; assumption. }
  unfold Sched_once_proofs.ent in Hdue. rewrite Hl in Hdue.
  destruct (fu x) as [u|] eqn:Eu; [|reflexivity].
  pose proof (fs_pending p x u Hin Eu). lia.
Qed.

Lemma q_step p l a : NoDup (p :: l) -> Q (p :: l) a -> Q l (step now endt force sg a p).
Proof.
  intros Hnd HQ. pose proof (due_idle p l a HQ) as Hidle.
  destruct HQ as (Hincl & Hsame & mid & Hmid & Hndm & Hprop).
  inversion Hnd as [|x y Hpl Hndl]; subst.
  assert (Hincl' : incl l ps) by (intros q Hiq; apply Hincl; right; exact Hiq).
  assert (Hsame' : forall e' q, In q l -> flook (fset (pf a) p e') q = flook (keep_live ps fs) q).
  { intros e' q Hiq. assert (Hqp : q <> p) by (intros ->; contradiction).
    rewrite flook_fset_neq by exact Hqp. apply Hsame. right. exact Hiq. }
  assert (Hprop' : forall q, In q (inv_pids mid) -> ~ In q l /\ idle_in q).
  { intros q Hiq. destruct (Hprop q Hiq) as [H1 H2]. split; [|exact H2].
    intros Hl. apply H1. right. exact Hl. }
  poll_cases now endt force sg a p; (split; [exact Hincl'|]);
    (split; [rewrite Hpf; apply Hsame'|]); rewrite Hlog, Hmid.
  - eexists (_ :: mid). split; [reflexivity|]. cbn [inv_pids flat_map app]. fold (inv_pids mid). split.
    + constructor; [|exact Hndm]. intros Hin. apply (Hprop p Hin). left. reflexivity.
    + intros q [<-|Hiq]; [|apply Hprop'; exact Hiq]. split; [exact Hpl|apply Hidle; exact Hdue].
  - eexists (_ :: mid). split; [reflexivity|]. cbn [inv_pids flat_map app]. fold (inv_pids mid).
    split; [exact Hndm|exact Hprop'].
  - exists mid. auto.
  - exists mid. auto.
Qed.

Lemma fold_q : forall l a, NoDup l -> Q l a -> Q [] (fold_left (step now endt force sg) l a).
Proof.
  induction l as [|p l IH]; intros a Hnd HQ; cbn [fold_left]; [exact HQ|].
  apply IH; [inversion Hnd; assumption|apply q_step; assumption].
Qed.

End Fold.

Lemma polled_idle endt force s :
  Inv s ->
  exists mid, plog (polled endt force s) = mid ++ plog (a0 s) /\ NoDup (inv_pids mid) /\
              forall p, In p (inv_pids mid) -> forall x, In (p, x) (frt s) -> fu x = None.
Proof.
  intros (Hnd & Hk & Hpend).
  assert (HQ : Q (procs s) (frt s) (plog (a0 s)) [] (polled endt force s)).
  { unfold Sched_once_proofs.polled. apply fold_q.
    - exact Hk.
    - intros p e u Hin Hu. apply (Hpend p e u Hin Hu).
    - exact Hnd.
    - split; [apply incl_refl|]. split; [intros q _; reflexivity|].
      exists []. split; [reflexivity|]. split; [constructor|]. intros p []. }
  destruct HQ as (_ & _ & mid & Hmid & Hndm & Hprop).
  exists mid. split; [exact Hmid|]. split; [exact Hndm|].
  intros p Hin. apply (Hprop p Hin).
Qed.

(* ------------------------------------------------------------------ *)
(* the theorems *)

(* The engine never starts a computation on a process that still has one in flight:
   every process invoked in a pass had no update pending when the pass began. *)
Theorem invoke_only_idle ee endt force et s s' f' et' ok :
  Sched_once_proofs.Inv Sg U W s ->
  iter Sg U W poll cond next commit vfixed ee endt force et s = (s', f', et', ok) ->
  exists new, Sched.log Sg U W s' = new ++ Sched.log Sg U W s /\
    Forall (fun e => match e with
                     | EInvoke _ p _ _ _ _ _ _ =>
                         forall x, In (p, x) (Sched.frt Sg U W s) -> fu x = None
                     | _ => True
                     end) new.
Proof.
  intros Hinv H.
  destruct (polled_idle endt force s Hinv) as (mid & Hmid & _ & Hprop).
  destruct (iter_new_from_fold _ _ _ _ _ _ _ _ _ mid H Hmid) as (new & Hlog & Hpids).
  exists new. split; [exact Hlog|].
  apply (forall_inv_pids (fun p => forall x, In (p, x) (frt s) -> fu x = None)).
  rewrite Hpids. exact Hprop.
Qed.

(* each process is invoked at most once per pass *)
Theorem invoke_once_per_pass ee endt force et s s' f' et' ok :
  Sched_once_proofs.Inv Sg U W s ->
  iter Sg U W poll cond next commit vfixed ee endt force et s = (s', f', et', ok) ->
  exists new, Sched.log Sg U W s' = new ++ Sched.log Sg U W s /\
    NoDup (flat_map (fun e => match e with EInvoke _ p _ _ _ _ _ _ => [p] | _ => [] end) new).
Proof.
  intros Hinv H.
  destruct (polled_idle endt force s Hinv) as (mid & Hmid & Hndm & _).
  destruct (iter_new_from_fold _ _ _ _ _ _ _ _ _ mid H Hmid) as (new & Hlog & Hpids).
  exists new. split; [exact Hlog|].
  fold (inv_pids new). rewrite Hpids. exact Hndm.
Qed.

(* only processes of the engine's table are ever invoked *)
Theorem invoke_only_registered ee endt force et s s' f' et' ok :
  iter Sg U W poll cond next commit vfixed ee endt force et s = (s', f', et', ok) ->
  exists new, Sched.log Sg U W s' = new ++ Sched.log Sg U W s /\
    Forall (fun e => match e with
                     | EInvoke _ p _ _ _ _ _ _ => In p (Sched.procs Sg U W s)
                     | _ => True
                     end) new.
Proof.
  intros H.
  destruct (fold_registered (gt s) endt force (sto s) (procs s) (a0 s)) as (mid & Hmid & Hprop).
  fold (polled endt force s) in Hmid.
  destruct (iter_new_from_fold _ _ _ _ _ _ _ _ _ mid H Hmid) as (new & Hlog & Hpids).
  exists new. split; [exact Hlog|].
  apply (forall_inv_pids (fun p => In p (procs s))).
  rewrite Hpids. exact Hprop.
Qed.

End Idle.

Print Assumptions invoke_only_idle.
Print Assumptions invoke_once_per_pass.
Print Assumptions invoke_only_registered.
