(* The "inner keys" part of Store.apply_update: a plain value update of a child issued in the same update
   as structural operations (OpUpd, rank 4: after _add/_move/_generate/_divide, before _delete).
   - cadd_spec: what `cadd` does, by paths;
   - upd_applies / upd_missing_skipped / upd_var: what the operation does to the hierarchy;
   - upd_after_add / upd_before_delete: the ordering clause;
   - an example on the concrete kit of Model/StructC.v. *)
From Coq Require Import List NArith ZArith Bool Lia Sorting.Permutation.
From Viv Require Import Base.Assoc Base.Tree Model.Paths Model.Steps Model.Struct Model.StructC
  Proofs.Struct_proofs Proofs.Consistent_proofs Proofs.Consistent2_proofs.
Import ListNotations.

(* ================= 1. the update read by paths ================= *)
(* the leaf of an update at a path (Base/Tree.v has no such lookup; Model/Paths.get_in returns subtrees and
   raises through leaves) *)
Fixpoint tget (v : tree Z) (q : list key) : option Z :=
  match q, v with
  | [], Lf z => Some z
  | k :: r, Nd c => match alookup k c with Some x => tget x r | None => None end
  | _, _ => None
  end.

(* what the update adds at a path: its leaf there, 0 when it has none *)
Definition tdelta (v : tree Z) (q : list key) : Z := match tget v q with Some z => z | None => 0%Z end.

(* a variable with dz added; every other node as it is *)
Definition vbump (x : cnode) (dz : Z) : cnode :=
  match x with CVar u z d => CVar u (z + dz)%Z d | _ => x end.

(* a node without its children: uid, and value + divider / process info / glob flag *)
Definition chead (x : cnode) : cnode := match x with CDir u g _ => CDir u g [] | _ => x end.

Inductive ckind_t := KVar (d : divk) | KProc (pi : pinfo) | KDir (glob : bool).
Definition ckind (x : cnode) : ckind_t :=
  match x with CVar _ _ d => KVar d | CProc _ pi => KProc pi | CDir _ g _ => KDir g end.

Lemma tget_get_in v : forall q z, tget v q = Some z <-> get_in v q = Ok (Some (Lf z)).
Proof.
  induction v as [a|c IH] using tree_ind'; intros q z.
  - destruct q as [|k r]; cbn; split; intros H; inversion H; reflexivity.
  - destruct q as [|k r]; cbn [tget get_in]; [split; intros H; discriminate H|].
    destruct (alookup k c) as [x|] eqn:El; [|split; intros H; discriminate H].
    rewrite Forall_forall in IH. apply (IH (k, x) (alookup_In _ _ _ El)).
Qed.

Lemma vbump_0 x : vbump x 0 = x.
Proof. destruct x as [u z d|u pi|u g c]; cbn; [rewrite Z.add_0_r|..]; reflexivity. Qed.

(* the fold of cadd over the entries of the update (distinct keys), read by lookups: a key listed in the update
   that is a child holds the updated child, every other key what it held *)
Lemma cadd_fold_lookup (F : cnode -> tree Z -> res cnode) vc : NoDup (akeys vc) -> forall c c',
  fold_left (fun acc kv =>
               rbind acc (fun c' =>
                 match alookup (fst kv) c' with
                 | Some ch => rbind (F ch (snd kv)) (fun ch' => Ok (aset (fst kv) ch' c'))
                 | None => Ok c'
                 end)) vc (Ok c) = Ok c' ->
  forall k', match alookup k' vc, alookup k' c with
             | Some x, Some ch => exists ch', F ch x = Ok ch' /\ alookup k' c' = Some ch'
             | _, _ => alookup k' c' = alookup k' c
             end.
Proof.
  induction vc as [|[k x] r IH]; intros Hnd c c' H k'.
  - cbn in H. inversion H; subst. reflexivity.
  - cbn [akeys map fst] in Hnd. inversion Hnd as [|? ? Hnin Hnd']; subst.
    assert (Hr : alookup k r = None) by (apply alookup_None_notin; exact Hnin).
    cbn [fold_left rbind fst snd] in H. cbn [alookup].
    destruct (alookup k c) as [ch|] eqn:El.
    + destruct (F ch x) as [ch'|e] eqn:Ea; cbn [rbind] in H;
        [|rewrite fold_err in H by reflexivity; discriminate H].
      pose proof (IH Hnd' _ _ H k') as HI. destruct (N.eqb k k') eqn:Ek.
      * apply N.eqb_eq in Ek. subst k'. rewrite Hr, alookup_aset_eq in HI. rewrite El.
        exists ch'. split; [exact Ea|exact HI].
      * apply N.eqb_neq in Ek. rewrite (alookup_aset_neq k k' ch' c Ek) in HI. exact HI.
    + pose proof (IH Hnd' _ _ H k') as HI. destruct (N.eqb k k') eqn:Ek.
      * apply N.eqb_eq in Ek. subst k'. rewrite Hr in HI. rewrite El. rewrite HI. exact El.
      * exact HI.
Qed.

(* THE CHARACTERISATION, one equation per path: at every path q below the node, the head of the node found
   afterwards (uid, kind, divider / process info / glob flag, value) is the head of the node found before with
   `tdelta v q` added if it is a variable.  In particular the two lookups are None together: nothing is created,
   nothing is removed.  `wf v`: the update is a dict (unique keys at every level); no premise on the node. *)
Theorem cadd_spec fuel : forall n v n', wf v -> cadd fuel n v = Ok n' -> forall q,
  option_map chead (cget n' q) = option_map (fun x => chead (vbump x (tdelta v q))) (cget n q).
Proof.
  induction fuel as [|f IH]; intros n v n' Hwf H q; [discriminate H|].
  destruct n as [u z d|u pi|u g c]; destruct v as [dz|vc]; cbn [cadd] in H; try discriminate H.
  - inversion H; subst n'. destruct q; reflexivity.
  - inversion H; subst n'. destruct q; reflexivity.
  - inversion H; subst n'. destruct q; reflexivity.
  - dresc H c' E. inversion H; subst n'. destruct q as [|k' q']; [reflexivity|].
    inversion Hwf as [|? Hnd Hall]; subst. rewrite !cget_cons.
    pose proof (cadd_fold_lookup (cadd f) vc Hnd c c' E k') as HL.
    unfold tdelta. cbn [tget].
    destruct (alookup k' vc) as [x|] eqn:Ev; destruct (alookup k' c) as [ch|] eqn:Ec.
    + destruct HL as (ch' & Ea & El'). rewrite El'.
      rewrite Forall_forall in Hall. apply (IH ch x ch' (Hall (k', x) (alookup_In _ _ _ Ev)) Ea q').
    + rewrite HL. reflexivity.
    + rewrite HL. destruct (cget ch q') as [y|]; [|reflexivity]. cbn [option_map]. rewrite vbump_0. reflexivity.
    + rewrite HL. reflexivity.
Qed.

(* the same, spelled out: nothing created or removed; same uid, same kind; a variable holds old + leaf *)
Theorem cadd_spec_explicit fuel n v n' : wf v -> cadd fuel n v = Ok n' -> forall q,
  match cget n q with
  | None => cget n' q = None
  | Some x => exists x', cget n' q = Some x' /\ cuid x' = cuid x /\ ckind x' = ckind x /\
                         forall u z d, x = CVar u z d ->
                           x' = CVar u (z + match tget v q with Some dz => dz | None => 0 end)%Z d
  end.
Proof.
  intros Hwf H q. pose proof (cadd_spec fuel n v n' Hwf H q) as Hs. unfold tdelta in Hs.
  destruct (cget n q) as [x|]; destruct (cget n' q) as [x'|]; cbn [option_map] in Hs; try discriminate Hs;
    [|reflexivity].
  exists x'. split; [reflexivity|]. inversion Hs as [Hh]. clear Hs.
  destruct x as [u z d|u pi|u g c]; destruct x' as [u' z' d'|u' pi'|u' g' c']; cbn [chead vbump] in Hh;
    try discriminate Hh; inversion Hh; subst; cbn [cuid ckind];
    (split; [reflexivity|]); (split; [reflexivity|]); intros u0 z0 d0 Hx; try discriminate Hx.
  inversion Hx; subst. reflexivity.
Qed.

Corollary cadd_cget_none fuel n v n' q : wf v -> cadd fuel n v = Ok n' -> (cget n' q = None <-> cget n q = None).
Proof.
  intros Hwf H. pose proof (cadd_spec fuel n v n' Hwf H q) as Hs.
  destruct (cget n q); destruct (cget n' q); cbn in Hs; try discriminate Hs; split; intros H0;
    first [discriminate H0|reflexivity].
Qed.

Corollary cadd_var fuel n v n' q u z d : wf v -> cadd fuel n v = Ok n' ->
  cget n q = Some (CVar u z d) -> cget n' q = Some (CVar u (z + tdelta v q)%Z d).
Proof.
  intros Hwf H Hg. pose proof (cadd_spec_explicit fuel n v n' Hwf H q) as Hs. rewrite Hg in Hs.
  destruct Hs as (x' & Hg' & _ & _ & Hv). rewrite Hg', (Hv u z d eq_refl). reflexivity.
Qed.

(* in the vocabulary of the frame theorems (sig_at = uid and value): uid kept, value + leaf *)
Corollary cadd_sig_at fuel n v n' q : wf v -> cadd fuel n v = Ok n' ->
  sig_at n' q = option_map (fun s => (fst s, option_map (fun z => (z + tdelta v q)%Z) (snd s))) (sig_at n q).
Proof.
  intros Hwf H. pose proof (cadd_spec fuel n v n' Hwf H q) as Hs. unfold sig_at.
  destruct (cget n q) as [x|]; destruct (cget n' q) as [x'|]; cbn [option_map] in Hs |- *; try discriminate Hs;
    [|reflexivity].
  inversion Hs as [Hh]. f_equal.
  destruct x as [u z d|u pi|u g c]; destruct x' as [u' z' d'|u' pi'|u' g' c']; cbn [chead vbump] in Hh;
    try discriminate Hh; inversion Hh; subst; reflexivity.
Qed.

(* `wf v` is needed: an update listing a key twice (not a dict) is applied twice, the lookup sees one entry *)
Example cadd_spec_needs_wf :
  let n := CDir 0%N false [(1%N, CVar 1%N 10%Z DSet)] in
  let v := Nd [(1%N, Lf 1%Z); (1%N, Lf 2%Z)] in
  cadd (S (tdepth v)) n v = Ok (CDir 0%N false [(1%N, CVar 1%N 13%Z DSet)]) /\ tdelta v [1%N] = 1%Z.
Proof. vm_compute. split; reflexivity. Qed.

(* the fuel `S (tdepth v)` apply_op passes is enough: cadd never runs out of it *)
Lemma tdepth_pos (v : tree Z) : (1 <= tdepth v)%nat.
Proof. destruct v; cbn; lia. Qed.

Lemma tdepth_child vc k (x : tree Z) : In (k, x) vc -> (S (tdepth x) <= tdepth (Nd vc))%nat.
Proof.
  intros Hin. cbn [tdepth]. apply le_n_S.
  induction vc as [|[k0 x0] r IH]; [destruct Hin|].
  destruct Hin as [Heq|Hin]; [inversion Heq; subst; lia|]. specialize (IH Hin). lia.
Qed.

Theorem cadd_fuel_enough fuel : forall n v, (tdepth v <= fuel)%nat -> cadd fuel n v <> Err EFuel.
Proof.
  induction fuel as [|f IH]; intros n v Hd; [pose proof (tdepth_pos v); lia|].
  destruct n as [u z d|u pi|u g c]; destruct v as [dz|vc]; cbn [cadd]; try discriminate.
  assert (Hg : forall l acc, (forall k x, In (k, x) l -> (tdepth x <= f)%nat) -> acc <> Err EFuel ->
             fold_left (fun acc kv =>
               rbind acc (fun c' =>
                 match alookup (fst kv) c' with
                 | Some ch => rbind (cadd f ch (snd kv)) (fun ch' => Ok (aset (fst kv) ch' c'))
                 | None => Ok c'
                 end)) l acc <> Err EFuel).
  { induction l as [|[k x] r IHr]; intros acc Hl Hacc; cbn [fold_left]; [exact Hacc|].
    apply IHr; [intros k0 x0 Hin; apply (Hl k0 x0); right; exact Hin|].
    destruct acc as [c0|e]; cbn [rbind fst snd]; [|exact Hacc].
    destruct (alookup k c0) as [ch|]; [|discriminate].
    pose proof (IH ch x (Hl k x (or_introl eq_refl))) as Hc.
    destruct (cadd f ch x) as [ch'|e]; cbn [rbind]; [discriminate|].
    intros He. apply Hc. inversion He; subst. reflexivity. }
  specialize (Hg vc (Ok c)).
  match goal with |- rbind ?X _ <> _ => destruct X as [c'|e] eqn:E; cbn [rbind]; [discriminate|] end.
  intros He. apply Hg; [|discriminate|inversion He; subst; reflexivity].
  intros k x Hin. pose proof (tdepth_child vc k x Hin). lia.
Qed.

(* ================= 2. the operation ================= *)
Definition upd_report : reports :=
  {| r_topology := []; r_process := []; r_step := []; r_flow := []; r_deletions := []; r_expire := false |}.

Section UpdKit.
Variable mk_child : N -> cnode * N.
Variable D : Type.
Variable build : D -> N -> cnode * N.
Variable copy_procs : cnode -> N -> cnode * N.

Notation apply_opv vr := (apply_op mk_child D build copy_procs vr).
Notation apply_opsv vr := (apply_ops mk_child D build copy_procs vr).

Lemma child_lookup t here k u g c : cget t here = Some (CDir u g c) -> cget t (here ++ [k]) = alookup k c.
Proof.
  intros Hd. rewrite cget_app, Hd, cget_cons. destruct (alookup k c); reflexivity.
Qed.

(* the key is a child: the child is replaced by `cadd` of it; no uid is consumed; nothing is reported *)
Theorem upd_applies vr t here k v uid t' rp uid' ch :
  apply_opv vr t here (OpUpd D k v) uid = Ok (t', rp, uid') -> cget t (here ++ [k]) = Some ch ->
  exists ch', cadd (S (tdepth v)) ch v = Ok ch' /\ cget t' (here ++ [k]) = Some ch' /\
              uid' = uid /\ r_deletions rp = [] /\ r_process rp = [] /\ r_step rp = [] /\ r_expire rp = false.
Proof.
  intros H Hg. apply (upd_inv mk_child D build copy_procs) in H.
  destruct H as (u & g & c & Hd & Hcase & -> & ->). rewrite (child_lookup t here k u g c Hd) in Hg.
  destruct Hcase as [(Hn & _)|(ch0 & ch' & El & Ea & Ec)]; [congruence|].
  rewrite Hg in El. inversion El; subst ch0. exists ch'. split; [exact Ea|].
  split; [apply (cget_cset_same _ _ _ _ (snoc_not_nil here k) Ec)|]. repeat split; reflexivity.
Qed.

(* the same with the premise read at the directory: `alookup k` of the children of `here` *)
Corollary upd_applies_lookup vr t here k v uid t' rp uid' u g c ch :
  apply_opv vr t here (OpUpd D k v) uid = Ok (t', rp, uid') ->
  cget t here = Some (CDir u g c) -> alookup k c = Some ch ->
  exists ch', cadd (S (tdepth v)) ch v = Ok ch' /\ cget t' (here ++ [k]) = Some ch' /\
              uid' = uid /\ r_deletions rp = [] /\ r_process rp = [] /\ r_step rp = [] /\ r_expire rp = false.
Proof.
  intros H Hd El. apply (upd_applies vr t here k v uid t' rp uid' ch H).
  rewrite (child_lookup t here k u g c Hd). exact El.
Qed.

(* `if key in self.inner`: a key that is no child is skipped *)
Theorem upd_missing_skipped vr t here k v uid t' rp uid' :
  apply_opv vr t here (OpUpd D k v) uid = Ok (t', rp, uid') -> cget t (here ++ [k]) = None ->
  t' = t /\ uid' = uid /\ rp = upd_report.
Proof.
  intros H Hg. apply (upd_inv mk_child D build copy_procs) in H.
  destruct H as (u & g & c & Hd & Hcase & -> & ->). rewrite (child_lookup t here k u g c Hd) in Hg.
  destruct Hcase as [(_ & ->)|(ch0 & ch' & El & _ & _)]; [auto|congruence].
Qed.

(* end to end, by paths: below the child the nodes are where they were, with the same uid; a variable holds its
   old value plus the leaf of the update at its path (relative to the child) *)
Theorem upd_sig_at vr t here k v uid t' rp uid' q : wf v ->
  apply_opv vr t here (OpUpd D k v) uid = Ok (t', rp, uid') ->
  sig_at t' (here ++ k :: q) =
  option_map (fun s => (fst s, option_map (fun z => (z + tdelta v q)%Z) (snd s))) (sig_at t (here ++ k :: q)).
Proof.
  intros Hwf H. destruct (cget t (here ++ [k])) as [ch|] eqn:Hg.
  - destruct (upd_applies vr t here k v uid t' rp uid' ch H Hg) as (ch' & Ea & Hg' & _).
    replace (here ++ k :: q) with ((here ++ [k]) ++ q) by (rewrite <- app_assoc; reflexivity).
    unfold sig_at. rewrite (cget_app t' (here ++ [k]) q), (cget_app t (here ++ [k]) q), Hg, Hg'.
    apply (cadd_sig_at _ _ _ _ q Hwf Ea).
  - destruct (upd_missing_skipped vr t here k v uid t' rp uid' H Hg) as (-> & _ & _).
    replace (here ++ k :: q) with ((here ++ [k]) ++ q) by (rewrite <- app_assoc; reflexivity).
    unfold sig_at. rewrite (cget_app t (here ++ [k]) q), Hg. reflexivity.
Qed.

Corollary upd_var vr t here k v uid t' rp uid' q u z d : wf v ->
  apply_opv vr t here (OpUpd D k v) uid = Ok (t', rp, uid') ->
  cget t (here ++ k :: q) = Some (CVar u z d) ->
  cget t' (here ++ k :: q) = Some (CVar u (z + tdelta v q)%Z d).
Proof.
  intros Hwf H Hq. revert Hq.
  replace (here ++ k :: q) with ((here ++ [k]) ++ q) by (rewrite <- app_assoc; reflexivity).
  rewrite (cget_app t' (here ++ [k]) q), (cget_app t (here ++ [k]) q).
  destruct (cget t (here ++ [k])) as [ch|] eqn:Hg; [|discriminate].
  intros Hq. destruct (upd_applies vr t here k v uid t' rp uid' ch H Hg) as (ch' & Ea & Hg' & _).
  rewrite Hg'. apply (cadd_var _ _ _ _ q u z d Hwf Ea Hq).
Qed.

(* everywhere else (frame): apply_op_frame with named here (OpUpd k v) = [here ++ [k]] *)
Corollary upd_frame vr t here k v uid t' rp uid' q :
  apply_opv vr t here (OpUpd D k v) uid = Ok (t', rp, uid') ->
  starts_with q (here ++ [k]) = false -> sig_at t' q = sig_at t q.
Proof.
  intros H Hs. apply (apply_op_frame mk_child D build copy_procs vr t here _ uid t' rp uid' q H).
  intros nm [<-|[]]. exact Hs.
Qed.

(* ================= 3. the ordering clause ================= *)
(* two operations one after the other, as apply_ops folds them *)
Definition then_op vr (t : cnode) (here : list key) (o1 o2 : sop D) (uid : N) : res (cnode * reports * N) :=
  rbind (apply_opv vr t here o1 uid) (fun tru =>
    let '(t1, rp1, u1) := tru in
    rbind (apply_opv vr t1 here o2 u1) (fun tru' =>
      let '(t2, rp2, u2) := tru' in Ok (t2, rapp (rapp no_reports rp1) rp2, u2))).

Lemma apply_ops_two vr t here a b o1 o2 uid :
  order_ops D [a; b] = [o1; o2] -> apply_opsv vr t here [a; b] uid = then_op vr t here o1 o2 uid.
Proof.
  intros Ho. unfold apply_ops, then_op. rewrite Ho. cbn [fold_left rbind].
  destruct (apply_opv vr t here o1 uid) as [[[t1 rp1] u1]|e]; reflexivity.
Qed.

Lemma then_op_inv vr t here o1 o2 uid t' rp uid' :
  then_op vr t here o1 o2 uid = Ok (t', rp, uid') ->
  exists t1 rp1 u1 rp2, apply_opv vr t here o1 uid = Ok (t1, rp1, u1) /\
                        apply_opv vr t1 here o2 u1 = Ok (t', rp2, uid') /\
                        rp = rapp (rapp no_reports rp1) rp2.
Proof.
  unfold then_op. intros H.
  destruct (apply_opv vr t here o1 uid) as [[[t1 rp1] u1]|e] eqn:E1; cbn [rbind] in H; [|discriminate H].
  destruct (apply_opv vr t1 here o2 u1) as [[[t2 rp2] u2]|e] eqn:E2; cbn [rbind] in H; [|discriminate H].
  inversion H; subst. exists t1, rp1, u1, rp2. auto.
Qed.

(* an update that adds a key and updates it in one go: whichever way the two are listed, _add is applied first
   and the value update second *)
Theorem upd_after_add vr t here k v st uid :
  apply_opsv vr t here [OpUpd D k v; OpAdd D k st] uid = then_op vr t here (OpAdd D k st) (OpUpd D k v) uid /\
  apply_opsv vr t here [OpAdd D k st; OpUpd D k v] uid = then_op vr t here (OpAdd D k st) (OpUpd D k v) uid.
Proof. split; apply apply_ops_two; reflexivity. Qed.

(* ... so the value update lands on the freshly added child: the child the _add created, with `cadd` applied *)
Theorem upd_after_add_lands vr t here k v st uid ops t' rp uid' :
  ops = [OpUpd D k v; OpAdd D k st] \/ ops = [OpAdd D k st; OpUpd D k v] ->
  apply_opsv vr t here ops uid = Ok (t', rp, uid') ->
  cget t (here ++ [k]) = None /\
  exists t1 rp1 ch ch',
    apply_opv vr t here (OpAdd D k st) uid = Ok (t1, rp1, uid') /\
    cget t1 (here ++ [k]) = Some ch /\ cadd (S (tdepth v)) ch v = Ok ch' /\
    cget t' (here ++ [k]) = Some ch' /\ cuid ch' = cuid ch /\
    r_deletions rp = [] /\ r_process rp = [] /\ r_step rp = [].
Proof.
  intros Hops H.
  assert (H2 : then_op vr t here (OpAdd D k st) (OpUpd D k v) uid = Ok (t', rp, uid')).
  { destruct Hops as [-> | ->]; [rewrite <- (proj1 (upd_after_add vr t here k v st uid))
                                |rewrite <- (proj2 (upd_after_add vr t here k v st uid))]; exact H. }
  apply then_op_inv in H2. destruct H2 as (t1 & rp1 & u1 & rp2 & Ha & Hu & ->).
  pose proof (add_creates mk_child D build copy_procs _ _ _ _ _ _ _ _ _ Ha) as Hex.
  destruct (cget t1 (here ++ [k])) as [ch|] eqn:Hg; [|congruence].
  destruct (upd_applies vr t1 here k v u1 t' rp2 uid' ch Hu Hg) as (ch' & Ea & Hg' & -> & Hd2 & Hp2 & Hs2 & _).
  split.
  - (* _add is rejected on an existing key *)
    destruct (apply_op_dir mk_child D build copy_procs _ _ _ _ _ _ Ha) as (u & g & c & Hd).
    rewrite (child_lookup t here k u g c Hd). destruct (alookup k c) as [x|] eqn:El; [|reflexivity].
    rewrite (add_existing_rejected mk_child D build copy_procs vr t here k st uid u g c x Hd El) in Ha.
    discriminate Ha.
  - exists t1, rp1, ch, ch'. split; [exact Ha|]. split; [exact Hg|]. split; [exact Ea|].
    split; [exact Hg'|]. split; [apply (cadd_cuid _ _ _ _ Ea)|].
    unfold apply_op, dir_at in Ha.
    destruct (cget t here) as [[?|?|u g c]|]; try discriminate Ha. cbn [rbind] in Ha.
    destruct (alookup k c); [discriminate Ha|].
    destruct (if g then mk_child uid else (CDir uid false [], N.succ uid)) as [ch0 uid1].
    destruct (set_value mk_child (S (tdepth st)) ch0 st uid1) as [r|]; cbn [rbind] in Ha; [|discriminate Ha].
    destruct (cset t (here ++ [k]) (fst r)) as [tt|]; cbn [rbind] in Ha; [|discriminate Ha].
    inversion Ha; subst. cbn [rapp no_reports r_deletions r_process r_step app].
    rewrite Hd2, Hp2, Hs2. repeat split; reflexivity.
Qed.

(* an update that updates a key and deletes it: whichever way the two are listed, the value update is applied
   first and _delete last *)
Theorem upd_before_delete_order vr t here k v uid :
  apply_opsv vr t here [OpDelete D k; OpUpd D k v] uid = then_op vr t here (OpUpd D k v) (OpDelete D k) uid /\
  apply_opsv vr t here [OpUpd D k v; OpDelete D k] uid = then_op vr t here (OpUpd D k v) (OpDelete D k) uid.
Proof. split; apply apply_ops_two; reflexivity. Qed.

(* ... so the child is gone afterwards and the deletion -- and nothing else -- is reported *)
Theorem upd_before_delete vr t here k v uid ops t' rp uid' : cwf t ->
  ops = [OpDelete D k; OpUpd D k v] \/ ops = [OpUpd D k v; OpDelete D k] ->
  apply_opsv vr t here ops uid = Ok (t', rp, uid') ->
  cget t' (here ++ [k]) = None /\ r_deletions rp = [here ++ [k]] /\
  r_process rp = [] /\ r_step rp = [] /\ uid' = uid.
Proof.
  intros Hw Hops H.
  assert (H2 : then_op vr t here (OpUpd D k v) (OpDelete D k) uid = Ok (t', rp, uid')).
  { destruct Hops as [-> | ->]; [rewrite <- (proj1 (upd_before_delete_order vr t here k v uid))
                                |rewrite <- (proj2 (upd_before_delete_order vr t here k v uid))]; exact H. }
  apply then_op_inv in H2. destruct H2 as (t1 & rp1 & u1 & rp2 & Hu & Hdl & ->).
  destruct (op_change_upd mk_child D build copy_procs _ _ _ _ _ _ _ _ _ Hw Hu) as (_ & _ & Hw1).
  apply (upd_inv mk_child D build copy_procs) in Hu. destruct Hu as (u & g & c & _ & _ & -> & ->).
  destruct (delete_inv mk_child D build copy_procs _ _ _ _ _ _ _ _ Hdl) as (_ & _ & ->).
  destruct (delete_inv3 mk_child D build copy_procs _ _ _ _ _ _ _ _ Hdl) as (Hcd & Hdel & Hp2 & Hs2).
  split; [apply (cdel_gone _ _ _ Hw1 (snoc_not_nil here k) Hcd)|].
  cbn [rapp no_reports r_deletions r_process r_step app]. rewrite Hdel, Hp2, Hs2. auto.
Qed.

(* the mothers of an update: the keys its '_divide' operations divide *)
Lemma mothers_in (ops : list (sop D)) m : In m (mothers D ops) <-> exists ds ch, In (OpDivide D m ds ch) ops.
Proof.
  unfold mothers. rewrite in_flat_map. split.
  - intros (o & Ho & Hm). destruct o; cbn in Hm; try contradiction.
    destruct Hm as [<-|[]]. eexists _, _. exact Ho.
  - intros (ds & ch & Ho). exists (OpDivide D m ds ch). split; [exact Ho|left; reflexivity].
Qed.

Lemma existsb_eqb_in (k : key) ms : existsb (N.eqb k) ms = true <-> In k ms.
Proof.
  rewrite existsb_exists. split.
  - intros (x & Hx & He). apply N.eqb_eq in He. subst x. exact Hx.
  - intros Hk. exists k. split; [exact Hk|apply N.eqb_refl].
Qed.

Lemma op_rank_upd_mother (ms : list key) k v : In k ms -> op_rank D ms (OpUpd D k v) = 3%nat.
Proof. intros Hk. cbn [op_rank]. rewrite (proj2 (existsb_eqb_in k ms) Hk). reflexivity. Qed.

Lemma op_rank_upd_other (ms : list key) k v : ~ In k ms -> op_rank D ms (OpUpd D k v) = 5%nat.
Proof.
  intros Hk. cbn [op_rank]. destruct (existsb (N.eqb k) ms) eqn:E; [|reflexivity].
  apply existsb_eqb_in in E. contradiction.
Qed.

Lemma in_mothers_dec (ms : list key) k : In k ms \/ ~ In k ms.
Proof.
  destruct (existsb (N.eqb k) ms) eqn:E.
  - left. apply existsb_eqb_in. exact E.
  - right. intros Hk. apply existsb_eqb_in in Hk. congruence.
Qed.

(* in general: in the order an update is applied in, no value update comes before an _add, a _move or a
   _generate, none comes before a _divide but the entry of a mother the update divides, and no _delete
   comes before a value update *)
Theorem order_ops_upd_position (ops : list (sop D)) i j : (i < j < length (order_ops D ops))%nat ->
  (forall k v, nth i (order_ops D ops) (OpDelete D 0%N) = OpUpd D k v ->
     match nth j (order_ops D ops) (OpDelete D 0%N) with
     | OpUpd _ _ _ | OpDelete _ _ | OpDeletePath _ _ => True
     | OpDivide _ _ _ _ => In k (mothers D ops)
     | _ => False
     end) /\
  (forall k v, nth j (order_ops D ops) (OpDelete D 0%N) = OpUpd D k v ->
     match nth i (order_ops D ops) (OpDelete D 0%N) with
     | OpDelete _ _ | OpDeletePath _ _ => False
     | _ => True
     end).
Proof.
  intros Hij. pose proof (order_ops_sorted D ops i j Hij) as Hs. split; intros k v He; rewrite He in Hs.
  - destruct (in_mothers_dec (mothers D ops) k) as [Hk|Hk].
    + rewrite (op_rank_upd_mother _ k v Hk) in Hs.
      destruct (nth j (order_ops D ops) (OpDelete D 0%N)); cbn [op_rank] in Hs; try exact I; try exact Hk; lia.
    + rewrite (op_rank_upd_other _ k v Hk) in Hs.
      destruct (nth j (order_ops D ops) (OpDelete D 0%N)); cbn [op_rank] in Hs; try exact I; lia.
  - destruct (in_mothers_dec (mothers D ops) k) as [Hk|Hk];
      [rewrite (op_rank_upd_mother _ k v Hk) in Hs|rewrite (op_rank_upd_other _ k v Hk) in Hs];
      destruct (nth i (order_ops D ops) (OpDelete D 0%N)); cbn [op_rank] in Hs; try exact I; lia.
Qed.

(* a '_divide' of the applied order divides one of the mothers of the update *)
Lemma order_ops_divide_mother (ops : list (sop D)) j m ds ch : (j < length (order_ops D ops))%nat ->
  nth j (order_ops D ops) (OpDelete D 0%N) = OpDivide D m ds ch -> In m (mothers D ops).
Proof.
  intros Hj He. apply mothers_in. exists ds, ch.
  apply (Permutation_in _ (order_ops_perm D ops)). rewrite <- He. apply nth_In. exact Hj.
Qed.

(* the entry of a child that the same update divides is applied before her division (she is still there) *)
Theorem order_ops_mother_before_divide (ops : list (sop D)) i j m v ds ch :
  (i < length (order_ops D ops))%nat -> (j < length (order_ops D ops))%nat ->
  nth i (order_ops D ops) (OpDelete D 0%N) = OpUpd D m v ->
  nth j (order_ops D ops) (OpDelete D 0%N) = OpDivide D m ds ch ->
  (i < j)%nat.
Proof.
  intros Hi Hj Ei Ej. pose proof (order_ops_divide_mother ops j m ds ch Hj Ej) as Hm.
  destruct (Nat.lt_trichotomy i j) as [Hlt|[->|Hgt]]; [exact Hlt| |].
  - rewrite Ei in Ej. discriminate Ej.
  - pose proof (order_ops_sorted D ops j i (conj Hgt Hi)) as Hs. rewrite Ei, Ej in Hs.
    rewrite (op_rank_upd_mother _ m v Hm) in Hs. cbn [op_rank] in Hs. lia.
Qed.

(* the entries of the other children are applied after every '_divide' *)
Theorem order_ops_other_upd_after_divide (ops : list (sop D)) i j k v m ds ch :
  (i < length (order_ops D ops))%nat -> (j < length (order_ops D ops))%nat ->
  nth i (order_ops D ops) (OpDelete D 0%N) = OpUpd D k v -> ~ In k (mothers D ops) ->
  nth j (order_ops D ops) (OpDelete D 0%N) = OpDivide D m ds ch ->
  (j < i)%nat.
Proof.
  intros Hi Hj Ei Hk Ej.
  destruct (Nat.lt_trichotomy i j) as [Hlt|[->|Hgt]]; [| |exact Hgt].
  - pose proof (order_ops_sorted D ops i j (conj Hlt Hj)) as Hs. rewrite Ei, Ej in Hs.
    rewrite (op_rank_upd_other _ k v Hk) in Hs. cbn [op_rank] in Hs. lia.
  - rewrite Ei in Ej. discriminate Ej.
Qed.

(* the pinned order (for the record): the entry of the mother came after her division -- and was dropped,
   because she was no longer there (upd_missing_skipped) *)
Theorem order_ops_pinned_mother_after_divide (ops : list (sop D)) i j m v ds ch :
  (i < length (order_ops_pinned D ops))%nat -> (j < length (order_ops_pinned D ops))%nat ->
  nth i (order_ops_pinned D ops) (OpDelete D 0%N) = OpUpd D m v ->
  nth j (order_ops_pinned D ops) (OpDelete D 0%N) = OpDivide D m ds ch ->
  (j < i)%nat.
Proof.
  intros Hi Hj Ei Ej.
  destruct (Nat.lt_trichotomy i j) as [Hlt|[->|Hgt]]; [| |exact Hgt].
  - pose proof (order_ops_pinned_sorted D ops i j (conj Hlt Hj)) as Hs. rewrite Ei, Ej in Hs.
    cbn [op_rank_pinned] in Hs. lia.
  - rewrite Ei in Ej. discriminate Ej.
Qed.

(* the two orders differ: the pinned order divides the mother first, the repaired one updates her first *)
Theorem order_ops_pinned_refuted (m : key) (v : tree Z) ds ch :
  order_ops_pinned D [OpUpd D m v; OpDivide D m ds ch] = [OpDivide D m ds ch; OpUpd D m v] /\
  order_ops_pinned D [OpDivide D m ds ch; OpUpd D m v] = [OpDivide D m ds ch; OpUpd D m v] /\
  order_ops D [OpUpd D m v; OpDivide D m ds ch] = [OpUpd D m v; OpDivide D m ds ch] /\
  order_ops D [OpDivide D m ds ch; OpUpd D m v] = [OpUpd D m v; OpDivide D m ds ch].
Proof.
  split; [reflexivity|]. split; [reflexivity|].
  unfold order_ops, mothers. cbn [flat_map app fold_left insert_op op_rank existsb].
  rewrite N.eqb_refl. cbn. split; reflexivity.
Qed.

End UpdKit.

(* ================= 4. the concrete kit of Model/StructC.v ================= *)
(* ex_root (Consistent2_proofs): a holder process (key 12) and an empty colony (key 10, a glob whose sub-schema
   declares s.n).  One update for the colony adds the key 30 with s.n = 7 and carries the value update
   {30: {s: {n: 5}}}: the value update is listed FIRST and still lands on the fresh child: s.n = 7 + 5 *)
Definition upd_sn (z : Z) : tree Z := Nd [(kS, Nd [(kN, Lf z)])].

Example ex_add_upd :
  exists t' rp,
    kapply_ops vfixed ex_root [10%N] [OpUpd N 30%N (upd_sn 5); OpAdd N 30%N (upd_sn 7)] 200%N = Ok (t', rp, 203%N) /\
    cget t' [10%N; 30%N; kS; kN] = Some (CVar 202%N 12%Z DSplit) /\
    sig_at t' [10%N; 30%N] = Some (200%N, None) /\ sig_at t' [12%N] = sig_at ex_root [12%N] /\
    r_deletions rp = [] /\ r_process rp = [] /\ r_step rp = [] /\ r_expire rp = true.
Proof. eexists. eexists. split; [vm_compute; reflexivity|]. vm_compute. repeat split; reflexivity. Qed.

(* the listing order does not matter *)
Example ex_add_upd_orders :
  kapply_ops vfixed ex_root [10%N] [OpUpd N 30%N (upd_sn 5); OpAdd N 30%N (upd_sn 7)] 200%N =
  kapply_ops vfixed ex_root [10%N] [OpAdd N 30%N (upd_sn 7); OpUpd N 30%N (upd_sn 5)] 200%N.
Proof. vm_compute. reflexivity. Qed.

(* a value update of a key the colony does not hold is skipped; on its own it reports nothing (no expiry) *)
Example ex_upd_missing :
  kapply_ops vfixed ex_root [10%N] [OpUpd N 31%N (upd_sn 5)] 200%N = Ok (ex_root, rapp no_reports upd_report, 200%N).
Proof. vm_compute. reflexivity. Qed.

(* update and delete of the same key in one update, the delete listed first: the child is gone, the deletion is
   reported *)
Example ex_upd_delete :
  exists t1 rp1 t2 rp2,
    kapply_ops vfixed ex_root [10%N] [OpAdd N 30%N (upd_sn 7)] 200%N = Ok (t1, rp1, 203%N) /\
    kapply_ops vfixed t1 [10%N] [OpDelete N 30%N; OpUpd N 30%N (upd_sn 5)] 203%N = Ok (t2, rp2, 203%N) /\
    cget t1 [10%N; 30%N; kS; kN] = Some (CVar 202%N 7%Z DSplit) /\
    cget t2 [10%N; 30%N] = None /\ r_deletions rp2 = [[10%N; 30%N]] /\ t2 = ex_root.
Proof.
  eexists. eexists. eexists. eexists. split; [vm_compute; reflexivity|]. split; [vm_compute; reflexivity|].
  vm_compute. repeat split; reflexivity.
Qed.

Print Assumptions tget_get_in.
Print Assumptions cadd_fold_lookup.
Print Assumptions cadd_spec.
Print Assumptions cadd_spec_explicit.
Print Assumptions cadd_cget_none.
Print Assumptions cadd_var.
Print Assumptions cadd_sig_at.
Print Assumptions cadd_spec_needs_wf.
Print Assumptions cadd_fuel_enough.
Print Assumptions upd_applies.
Print Assumptions upd_applies_lookup.
Print Assumptions upd_missing_skipped.
Print Assumptions upd_sig_at.
Print Assumptions upd_var.
Print Assumptions upd_frame.
Print Assumptions apply_ops_two.
Print Assumptions upd_after_add.
Print Assumptions upd_after_add_lands.
Print Assumptions upd_before_delete_order.
Print Assumptions upd_before_delete.
Print Assumptions order_ops_upd_position.
Print Assumptions order_ops_mother_before_divide.
Print Assumptions order_ops_other_upd_after_divide.
Print Assumptions order_ops_pinned_mother_after_divide.
Print Assumptions order_ops_pinned_refuted.
Print Assumptions ex_add_upd.
Print Assumptions ex_add_upd_orders.
Print Assumptions ex_upd_missing.
Print Assumptions ex_upd_delete.
