(* Update conditions of steps (Engine.run_steps -> _calculate_update: a step whose update_condition is false is not
   asked for an update; the engine files an EmptyDefer, whose application changes nothing).
   On Model/Steps.v: the step function of a gated step is `if cond then step_fn else nothing`, with `nothing` an update
   whose application is the identity. *)
From Coq Require Import List NArith ZArith Bool Lia.
From Viv Require Import Base.Assoc Base.Tree Model.Paths Model.Steps Proofs.Steps_proofs.
Import ListNotations.

Section Gated.
Variables (Sg U : Type).
Variable step_fn : node -> Sg -> U.
Variable apply1 : Sg -> list node -> node -> U -> Sg * list node.
Variable cond : node -> Sg -> bool.            (* update_condition(0, view of s) *)
Variable nothing : U.                          (* EmptyDefer: the empty update *)
Hypothesis nothing_noop : forall s live n, apply1 s live n nothing = (s, live).

Definition gated (n : node) (s : Sg) : U := if cond n s then step_fn n s else nothing.

(* applying the updates of steps whose conditions are all false changes neither the state nor the set of live steps *)
Lemma fold_all_false (l : list node) s0 : forall s live,
  (forall n, In n l -> cond n s0 = false) ->
  fold_left (fun acc nu => apply1 (fst acc) (snd acc) (fst nu) (snd nu)) (map (fun n => (n, gated n s0)) l) (s, live) = (s, live).
Proof.
  unfold gated. induction l as [|n r IH]; intros s live H; [reflexivity|].
  cbn [map fold_left fst snd]. rewrite (H n (or_introl eq_refl)).
  rewrite nothing_noop. apply IH. intros m Hm. apply H. right. exact Hm.
Qed.

(* A PHASE IN WHICH EVERY CONDITION IS FALSE CONTRIBUTES NOTHING: state and live steps are what they were *)
Theorem phase_all_false (ls : list (list node)) : forall s live log,
  (forall n, cond n s = false) ->
  let '(s', live', _) := run_layers Sg U gated apply1 ls s live log in s' = s /\ live' = live.
Proof.
  induction ls as [|l rest IH]; intros s live log H; cbn [run_layers]; [split; reflexivity|].
  rewrite (fold_all_false _ s s live (fun n _ => H n)). apply IH. exact H.
Qed.

(* one layer: the steps whose condition is false do not matter - the layer has the effect of its sub-list of steps
   whose condition holds (all computed from the same state, as always) *)
Lemma fold_skip_false (l : list node) s0 : forall s live,
  fold_left (fun acc nu => apply1 (fst acc) (snd acc) (fst nu) (snd nu)) (map (fun n => (n, gated n s0)) l) (s, live) =
  fold_left (fun acc nu => apply1 (fst acc) (snd acc) (fst nu) (snd nu))
            (map (fun n => (n, step_fn n s0)) (filter (fun n => cond n s0) l)) (s, live).
Proof.
  unfold gated. induction l as [|n r IH]; intros s live; [reflexivity|].
  cbn [map fold_left filter fst snd]. destruct (cond n s0) eqn:E.
  - cbn [map fold_left fst snd]. destruct (apply1 s live n (step_fn n s0)) as [s1 l1]. apply IH.
  - rewrite nothing_noop. apply IH.
Qed.

Theorem layer_only_true_steps_count (l : list node) rest s live log :
  fst (run_layers Sg U gated apply1 (l :: rest) s live log) =
  fst (let running := filter (fun n => nmem n live) l in
       let '(s', live') := fold_left (fun acc nu => apply1 (fst acc) (snd acc) (fst nu) (snd nu))
                                      (map (fun n => (n, step_fn n s)) (filter (fun n => cond n s) running)) (s, live) in
       run_layers Sg U gated apply1 rest s' live' (log ++ map (fun n => ERun Sg n s) running)).
Proof.
  cbn [run_layers]. rewrite fold_skip_false. reflexivity.
Qed.

End Gated.

Print Assumptions phase_all_false.
Print Assumptions layer_only_true_steps_count.
