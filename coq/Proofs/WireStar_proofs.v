(* Read/write symmetry THROUGH GLOB PORTS (C06, the '*' part of Model/Wire.v).

   Proofs/Wire_proofs.v proves rw_symmetry_partial for topologies without '*' entries and variable
   paths through NAMED schema entries.  Here the same statement is proved for schemas with glob
   nodes `SNode _ [(PStar, sub)]` (one entry per current child of the node the port leads to) wired
   by a tuple path, by no entry at all below a '_path' dict, or by a '*' sub-topology
   (`TPath`, or `TDict` with '_path' beside and/or inside the '*' entry), at any depth.

   Contents
   - wfs (glob-aware wf_pair + tp_ok), svar_path (glob-aware var_path), pstar_schema;
   - rw_dict_star_inv: inverting a one-variable update is ONE placement at the path the view shows,
     for any inverse built so far;  rw_symmetry_star_gen / rw_symmetry_star / _pinned_single / _top;
   - wf_pair_wfs, rw_symmetry_partial_from_star: the named-only theorem is an instance;
   - the shapes: rw_symmetry_star_path, _dict (_beside, _inside, _both), and _path_flat / _dict_flat;
   - StarEx: the hypotheses on stores built by `generate`, two children;
   - StarCx: counterexamples for what wfs excludes (unlisted sub-variable inside a '*' dict: the write
     is DROPPED; leaf children behind a '*' dict: the write RAISES; a named entry beside '*'; no entry);
   - two variables in one update: rw_symmetry_star_two (different children), rw_symmetry_star_two_top,
     rw_symmetry_star_two_vars (one child, two variables);
   - a named port wired into a glob child and the glob port ('*': tuple path) writing one variable:
     star_path_collision_merges (repaired: multi-update), star_path_collision_refuted_pinned (pinned: the
     first update is lost), star_path_collision_tuple_port, star_path_collision_view. *)
From Coq Require Import List NArith ZArith Bool Lia.
From Viv Require Import Base.Assoc Base.Tree Model.Paths Model.Wire Proofs.Paths_proofs Proofs.Wire_proofs.
Import ListNotations.

(* ================= the glob-aware well-formed domain ================= *)

(* a glob node: exactly one entry, keyed '*' *)
Definition glob_of {X} (c : list (pkey * X)) : option X :=
  match c with [(PStar, sub)] => Some sub | _ => None end.

(* vp leads to a declared variable: through PK keys of named nodes, through ANY key (a child) of a glob node *)
Fixpoint svar_path (s : schema) (vp : list key) {struct vp} : bool :=
  match s, vp with
  | SVar _, [] => true
  | SNode _ c, k :: r =>
    match glob_of c with
    | Some sub => svar_path sub r
    | None => match plook (PK k) c with Some sub => svar_path sub r | None => false end
    end
  | _, _ => false
  end.

(* schema below a tuple path (identity wiring): variables, named nodes with unique keys, glob nodes; no '**' *)
Fixpoint pstar_schema (s : schema) : bool :=
  match s with
  | SVar _ => true
  | SAll => false
  | SNode _ c =>
    match c with
    | [(PStar, sub)] => pstar_schema sub
    | _ =>
      (fix go (c : list (pkey * schema)) : bool :=
         match c with
         | [] => true
         | (PK k, sub) :: r => pstar_schema sub && negb (existsb (fun kv => pkey_eqb (fst kv) (PK k)) r) && go r
         | (PStar, _) :: _ => false
         end) c
    end
  end.

(* tp_ok_star / wf_pair with globs.  A schema node is either a glob node or has named, unique keys.
   - named node: the topology dict has named unique keys (no '*'); every declared key has an entry (a
     tuple path above an identity-wired schema, or a dict above a node), or, below '_path', no entry;
   - glob node: the topology dict is empty (only below '_path': the children of the node itself), or is
     exactly one '*' entry: a tuple path, or a dict (with or without '_path') that lists EVERY key of
     the sub-schema (need_all = true: inverse_topology has consumed the '_path' of a '*' dict, so
     unlisted keys are dropped, see star_unlisted_counterexample). *)
Fixpoint wfs (s : schema) (tp : list (pkey * topo)) (need_all : bool) {struct s} : bool :=
  match s with
  | SNode _ c =>
    match c with
    | [(PStar, sub)] =>
      match tp with
      | [] => negb need_all && pstar_schema sub
      | [(PStar, TPath _)] => pstar_schema sub
      | [(PStar, TDict _ c'')] => match sub with SNode _ _ => wfs sub c'' true | _ => false end
      | _ => false
      end
    | _ =>
      keys_ok tp &&
      (fix go (c : list (pkey * schema)) : bool :=
         match c with
         | [] => true
         | (PK k, sub) :: r =>
           negb (existsb (fun kv => pkey_eqb (fst kv) (PK k)) r) &&
           match plook (PK k) tp with
           | Some (TPath _) => pstar_schema sub
           | Some (TDict p' c') =>
             match sub with
             | SNode _ _ => wfs sub c' (match p' with Some _ => false | None => true end)
             | _ => false
             end
           | None => negb need_all && pstar_schema sub
           end && go r
         | (PStar, _) :: _ => false
         end) c
    end
  | _ => false
  end.

(* ---- unfolding lemmas ---- *)
Definition pstar_go :=
  fix go (c : list (pkey * schema)) : bool :=
    match c with
    | [] => true
    | (PK k, sub) :: r => pstar_schema sub && negb (existsb (fun kv => pkey_eqb (fst kv) (PK k)) r) && go r
    | (PStar, _) :: _ => false
    end.

Lemma pstar_schema_node o c :
  pstar_schema (SNode o c) = match glob_of c with Some sub => pstar_schema sub | None => pstar_go c end.
Proof. destruct c as [|[[k|] s0] [|x r]]; reflexivity. Qed.

Lemma pstar_go_inv c : pstar_go c = true ->
  keys_ok c = true /\ forall k sub, plook (PK k) c = Some sub -> pstar_schema sub = true.
Proof.
  induction c as [|[pk sub0] r IH]; intros H.
  - split; auto. cbn. discriminate.
  - destruct pk as [k0|]; [|discriminate]. cbn [pstar_go] in H. fold pstar_go in H.
    apply andb_true_iff in H as [H H3]. apply andb_true_iff in H as [H1 H2].
    destruct (IH H3) as [Hk Hs]. split.
    + cbn. rewrite H2. exact Hk.
    + intros k sub. cbn [plook]. rewrite pkey_eqb_PK. destruct (N.eqb k0 k).
      * intros [= <-]. exact H1.
      * apply Hs.
Qed.

Definition wfs_glob (sub : schema) (tp : list (pkey * topo)) (need_all : bool) : bool :=
  match tp with
  | [] => negb need_all && pstar_schema sub
  | [(PStar, TPath _)] => pstar_schema sub
  | [(PStar, TDict _ c'')] => match sub with SNode _ _ => wfs sub c'' true | _ => false end
  | _ => false
  end.

Definition wfs_entry (tp : list (pkey * topo)) (need_all : bool) (k : key) (sub : schema) : bool :=
  match plook (PK k) tp with
  | Some (TPath _) => pstar_schema sub
  | Some (TDict p' c') =>
    match sub with
    | SNode _ _ => wfs sub c' (match p' with Some _ => false | None => true end)
    | _ => false
    end
  | None => negb need_all && pstar_schema sub
  end.

Definition wfs_go (tp : list (pkey * topo)) (need_all : bool) :=
  fix go (c : list (pkey * schema)) : bool :=
    match c with
    | [] => true
    | (PK k, sub) :: r =>
      negb (existsb (fun kv => pkey_eqb (fst kv) (PK k)) r) && wfs_entry tp need_all k sub && go r
    | (PStar, _) :: _ => false
    end.

Lemma wfs_node o c tp na :
  wfs (SNode o c) tp na =
  match glob_of c with Some sub => wfs_glob sub tp na | None => keys_ok tp && wfs_go tp na c end.
Proof. destruct c as [|[[k|] s0] [|x r]]; reflexivity. Qed.

Lemma wfs_go_inv tp na c : wfs_go tp na c = true ->
  keys_ok c = true /\ forall k sub, plook (PK k) c = Some sub -> wfs_entry tp na k sub = true.
Proof.
  induction c as [|[pk sub0] r IH]; intros H.
  - split; auto. cbn. discriminate.
  - destruct pk as [k0|]; [|discriminate]. cbn [wfs_go] in H. fold (wfs_go tp na) in H.
    apply andb_true_iff in H as [H H3]. apply andb_true_iff in H as [H1 H2].
    destruct (IH H3) as [Hk Hs]. split.
    + cbn. rewrite H1. exact Hk.
    + intros k sub. cbn [plook]. rewrite pkey_eqb_PK. destruct (N.eqb k0 k) eqn:E.
      * apply N.eqb_eq in E. subst k0. intros [= <-]. exact H2.
      * apply Hs.
Qed.

Lemma glob_of_Some {X} (c : list (pkey * X)) sub : glob_of c = Some sub -> c = [(PStar, sub)].
Proof. destruct c as [|[[k|] s0] [|x r]]; cbn; try discriminate. now intros [= ->]. Qed.

Lemma glob_of_plook {X} (c : list (pkey * X)) k sub : plook (PK k) c = Some sub -> glob_of c = None.
Proof. destruct c as [|[[k0|] s0] [|x r]]; cbn; try discriminate; auto. Qed.

(* ================= the read view through a glob node ================= *)

(* where the '*' entry of a glob's topology leads, and the sub-topology every child gets *)
Definition star_path (tp : list (pkey * topo)) : list seg :=
  match plook PStar tp with
  | Some (TDict (Some q) _) => q
  | Some (TPath p) => p
  | _ => []
  end.

Definition star_sub (tp : list (pkey * topo)) : list (pkey * topo) :=
  match plook PStar tp with Some (TDict _ c') => c' | _ => [] end.

Definition gfold (t : store) (b : list key) (sub : schema) (c' : list (pkey * topo)) :=
  fold_left (fun acc' ch =>
               rbind acc' (fun l => rbind (view t (b ++ [ch]) sub c') (fun v => Ok (aset ch v l)))).

Lemma vgo_glob t a tp sub acc :
  vgo t a tp [(PStar, sub)] acc =
  match rbind (walk t a (star_path tp)) (fun b => gfold t b sub (star_sub tp) (child_keys t b) (Ok acc)) with
  | Ok acc' => Ok (VNode acc')
  | Err e => Err e
  end.
Proof.
  unfold star_path, star_sub, gfold.
  change (vgo t a tp [(PStar, sub)] acc) with
    (match rbind (match plook PStar tp with
                  | Some (TDict p' c') => rbind (walk t a (match p' with Some q => q | None => [] end)) (fun b => Ok (b, c'))
                  | Some (TPath p) => rbind (walk t a p) (fun b => Ok (b, []))
                  | None => Ok (a, [])
                  end)
                 (fun bc =>
                    fold_left (fun acc' ch =>
                                 rbind acc' (fun l =>
                                   rbind (view t (fst bc ++ [ch]) sub (snd bc)) (fun v => Ok (aset ch v l))))
                              (child_keys t (fst bc)) (Ok acc))
     with Ok acc' => Ok (VNode acc') | Err e => Err e end).
  destruct (plook PStar tp) as [[p|[q|] c']|].
  - destruct (walk t a p); reflexivity.
  - destruct (walk t a q); reflexivity.
  - reflexivity.
  - reflexivity.
Qed.

Lemma gfold_err t b sub c' ks e : gfold t b sub c' ks (Err e) = Err e.
Proof. induction ks as [|k ks IH]; cbn; auto. Qed.

Lemma gfold_spec t b sub c' : forall ks acc l,
  gfold t b sub c' ks (Ok acc) = Ok l ->
  forall ch x, alookup ch l = Some x ->
               alookup ch acc = Some x \/ (In ch ks /\ view t (b ++ [ch]) sub c' = Ok x).
Proof.
  induction ks as [|k0 ks IH]; intros acc l Hf ch x Hl.
  - cbn in Hf. injection Hf as <-. now left.
  - unfold gfold in Hf. cbn [fold_left rbind] in Hf. fold (gfold t b sub c') in Hf.
    destruct (view t (b ++ [k0]) sub c') as [v0|e] eqn:Ev; cbn [rbind] in Hf.
    + destruct (IH _ _ Hf ch x Hl) as [Ha|[Hin Hv]].
      * destruct (N.eq_dec k0 ch) as [->|Hne].
        -- rewrite alookup_aset_eq in Ha. injection Ha as <-. right. split; [now left|exact Ev].
        -- rewrite (alookup_aset_neq _ _ _ _ Hne) in Ha. now left.
      * right. split; [now right|exact Hv].
    + rewrite gfold_err in Hf. discriminate.
Qed.

(* the view of a glob node: the entry of a child *)
Lemma view_glob_get t b o sub tp v ch rest r :
  view t b (SNode o [(PStar, sub)]) tp = Ok v -> vget v (ch :: rest) = Some (VRef r) ->
  o = false /\ is_leaf_at t b = false /\
  exists b2 x, walk t b (star_path tp) = Ok b2 /\ In ch (child_keys t b2) /\
               view t (b2 ++ [ch]) sub (star_sub tp) = Ok x /\ vget x rest = Some (VRef r).
Proof.
  intros Hv Hg. destruct o.
  - rewrite view_out in Hv. destruct (is_leaf_at t b); injection Hv as <-; discriminate.
  - rewrite view_node in Hv. destruct (is_leaf_at t b); [injection Hv as <-; discriminate|].
    repeat split; auto. rewrite vgo_glob in Hv.
    destruct (walk t b (star_path tp)) as [b2|e] eqn:Ew; [|discriminate]. cbn [rbind] in Hv.
    destruct (gfold t b2 sub (star_sub tp) (child_keys t b2) (Ok [])) as [l|e] eqn:Ef; [|discriminate].
    injection Hv as <-. cbn [vget] in Hg.
    destruct (alookup ch l) as [x|] eqn:El; [|discriminate].
    destruct (gfold_spec _ _ _ _ _ _ _ Ef ch x El) as [Ha|[Hin Hx]]; [discriminate|].
    exists b2, x. auto.
Qed.

(* below a tuple path (empty sub-topology) the wiring is the identity, through globs too *)
Lemma view_pstar_var t : forall vp s b v r, pstar_schema s = true -> view t b s [] = Ok v ->
  vget v vp = Some (VRef r) -> svar_path s vp = true -> r = b ++ vp.
Proof.
  induction vp as [|k rest IH]; intros s b v r Hp Hv Hg Hvp.
  - cbn in Hg. injection Hg as ->. destruct s as [d| |o c]; try discriminate.
    rewrite view_SVar in Hv. destruct (is_leaf_at t b); [|discriminate].
    injection Hv as <-. now rewrite app_nil_r.
  - destruct s as [d| |o c]; try discriminate.
    rewrite pstar_schema_node in Hp. cbn [svar_path] in Hvp.
    destruct (glob_of c) as [sub|] eqn:Eg.
    + apply glob_of_Some in Eg. subst c.
      destruct (view_glob_get _ _ _ _ _ _ _ _ _ Hv Hg) as [_ [_ [b2 [x [Hw [_ [Hx Hgx]]]]]]].
      cbn in Hw. injection Hw as <-. cbn in Hx.
      rewrite (IH _ _ _ _ Hp Hx Hgx Hvp). now rewrite <- app_assoc.
    + apply pstar_go_inv in Hp as [Hk Hs].
      destruct (view_node_get _ _ _ _ _ _ _ _ _ Hk Hv Hg) as [-> [Hl [sub [b2 [x [Hpl [Hw [Hx Hgx]]]]]]]].
      rewrite Hpl in Hvp.
      unfold entry_path, entry_sub in *. cbn [plook] in *. apply walk_Dn in Hw. subst b2.
      rewrite (IH _ _ _ _ (Hs _ _ Hpl) Hx Hgx Hvp). now rewrite <- app_assoc.
Qed.

(* ================= the write path through a '*' entry ================= *)

Lemma inv_topo_skip fixed outer cu q c inv :
  inv_topo fixed true outer (UD cu) (TDict q c) inv = inv_topo fixed false outer (UD cu) (TDict None c) inv.
Proof. reflexivity. Qed.

(* the mode of the '*' tuple-path case: the repaired code merges like every other port (mode 1), the pinned
   code deep_merges dicts and overwrites scalars (mode 2) *)
Definition star_mode (fixed : bool) : nat := if fixed then 1%nat else 2%nat.

Lemma lgo_star_path1 fixed inner ch val p inv :
  lgo fixed inner [(ch, val)] [(PStar, TPath p)] inv =
  rbind (abs_keys (normalize (inner ++ p ++ [Dn ch]))) (fun tgt => place_mode (star_mode fixed) inv tgt val).
Proof.
  unfold lgo, star_mode. cbn [fold_left fst snd rbind].
  destruct (abs_keys (normalize (inner ++ p ++ [Dn ch]))) as [tgt|e]; cbn [rbind]; [|reflexivity].
  destruct (place_mode (if fixed then 1%nat else 2%nat) inv tgt val); reflexivity.
Qed.

Lemma lgo_star_dict1 fixed inner ch val q c'' inv :
  lgo fixed inner [(ch, val)] [(PStar, TDict q c'')] inv =
  inv_topo fixed true ((match q with Some q0 => normalize (inner ++ q0) | None => inner end) ++ [Dn ch])
           val (TDict q c'') inv.
Proof.
  unfold lgo. cbn [fold_left fst snd rbind].
  destruct (inv_topo fixed true _ val (TDict q c'') inv); reflexivity.
Qed.

Definition mode_of (fixed : bool) : nat := if fixed then 1%nat else 0%nat.

Lemma place_mode_of fixed : place fixed = place_mode (mode_of fixed).
Proof. reflexivity. Qed.

(* placing a one-variable update into the empty inverse, in any mode *)
Lemma place_mode_single m b rest z :
  place_mode m [] b (usingle rest (UV z)) = Ok (usingle_top (b ++ rest) (UV z)).
Proof.
  destruct rest as [|k rest].
  - rewrite app_nil_r. cbn [usingle]. unfold place_mode.
    destruct b as [|b0 b']; [reflexivity|].
    set (b := b0 :: b'). assert (Hb : b <> []) by discriminate.
    destruct (Nat.eqb m 1).
    + rewrite (uupdate_in_nil (removelast b) _ (UD [(last b 0%N, UV z)])).
      * rewrite <- (removelast_last_N b Hb) at 3. rewrite usingle_top_app. reflexivity.
      * reflexivity.
      * intros _. eauto.
    + now apply uupdate_in_empty_single.
  - rewrite usingle_cons_UD. unfold place_mode.
    rewrite (uupdate_in_nil b _ (UD (usingle_top (k :: rest) (UV z)))).
    + rewrite usingle_top_app. reflexivity.
    + reflexivity.
    + intros _. eauto.
Qed.

Lemma normalize_snoc_Dn x k : normalize (x ++ [Dn k]) = normalize x ++ [Dn k].
Proof. unfold normalize. rewrite norm_go_app. reflexivity. Qed.

Lemma dn_snoc b k : dn b ++ [Dn k] = dn (b ++ [k]).
Proof. now rewrite dn_app. Qed.

Lemma rbind_ok_id {A} (x : res A) : rbind x (fun a => Ok a) = x.
Proof. destruct x; reflexivity. Qed.

(* ---- C06 through globs: the generalised read/write symmetry, one dict level at a time ----
   Inverting the one-variable update of vp through the topology dict (p', c') is ONE placement of the
   value at the absolute path r that the view shows for vp -- whatever `inverse` already holds. *)
Lemma rw_dict_star_inv fixed (t : store) z : forall vp s c' p' a b v r,
  wfs s c' (match p' with Some _ => false | None => true end) = true ->
  svar_path s vp = true ->
  walk t a (match p' with Some q => q | None => [] end) = Ok b ->
  view t b s c' = Ok v -> vget v vp = Some (VRef r) ->
  exists m bb rst, r = bb ++ rst /\
    forall inv, inv_topo fixed false (dn a) (usingle vp (UV z)) (TDict p' c') inv
                = place_mode m inv bb (usingle rst (UV z)).
Proof.
  induction vp as [|k rest IH]; intros s c' p' a b v r Hwf Hvp Hw Hv Hg.
  { destruct s; discriminate. }
  destruct s as [d| |o c]; try discriminate.
  rewrite wfs_node in Hwf. cbn [svar_path] in Hvp.
  assert (Hinner : match p' with Some q => normalize (dn a ++ q) | None => dn a end = dn b).
  { destruct p' as [q|]; [exact (walk_is_lexical t _ _ _ Hw)|]. cbn in Hw. now injection Hw as ->. }
  cbn [usingle].
  destruct (glob_of c) as [sub|] eqn:Eg.
  - (* ---- a glob node: k is a child ---- *)
    apply glob_of_Some in Eg. subst c.
    destruct (view_glob_get _ _ _ _ _ _ _ _ _ Hv Hg) as [_ [_ [b2 [x [Hw2 [_ [Hx Hgx]]]]]]].
    unfold wfs_glob in Hwf.
    destruct c' as [|[[kk|] X] [|y c'r]]; try discriminate; try (destruct X; discriminate).
    + (* no '*' entry: only below '_path'; the children of the node itself, identity wiring *)
      destruct p' as [q|]; [|discriminate]. cbn [negb andb] in Hwf.
      cbn in Hw2. injection Hw2 as <-. cbn in Hx.
      exists (mode_of fixed), (b ++ [k]), rest. split.
      { now rewrite (view_pstar_var _ _ _ _ _ _ Hwf Hx Hgx Hvp), <- app_assoc. }
      intros inv. rewrite inv_topo_dict. cbv zeta. rewrite Hinner.
      cbn [lgo has_star plook rbind fold_left fst snd].
      rewrite normalize_dn_snoc, abs_keys_dn. reflexivity.
    + destruct X as [p|q'' c''].
      * (* '*': a tuple path *)
        unfold star_path, star_sub in Hw2, Hx. cbn [plook pkey_eqb] in Hw2, Hx.
        exists (star_mode fixed), (b2 ++ [k]), rest. split.
        { now rewrite (view_pstar_var _ _ _ _ _ _ Hwf Hx Hgx Hvp). }
        intros inv. rewrite inv_topo_dict. cbv zeta. rewrite Hinner.
        assert (Hlisted : lgo fixed (dn b) [(k, usingle rest (UV z))] [(PStar, TPath p)] inv
                          = place_mode (star_mode fixed) inv (b2 ++ [k]) (usingle rest (UV z))).
        { rewrite lgo_star_path1. rewrite app_assoc, normalize_snoc_Dn.
          rewrite (walk_is_lexical _ _ _ _ Hw2), dn_snoc, abs_keys_dn. reflexivity. }
        rewrite Hlisted. destruct p'; reflexivity.
      * (* '*': a dict, '_path' inside or not *)
        destruct sub as [d| |o2 c2]; try discriminate.
        unfold star_path, star_sub in Hw2, Hx. cbn [plook pkey_eqb] in Hw2, Hx.
        destruct rest as [|k2 rest2]; [destruct (glob_of c2); discriminate|].
        assert (Hinner2 : match q'' with Some q0 => normalize (dn b ++ q0) | None => dn b end = dn b2).
        { destruct q'' as [q0|]; [exact (walk_is_lexical t _ _ _ Hw2)|]. cbn in Hw2. now injection Hw2 as ->. }
        destruct (IH (SNode o2 c2) c'' None (b2 ++ [k]) (b2 ++ [k]) x r Hwf Hvp eq_refl Hx Hgx)
          as [m [bb [rst [Hr Hinv]]]].
        exists m, bb, rst. split; [exact Hr|].
        intros inv. rewrite inv_topo_dict. cbv zeta. rewrite Hinner.
        assert (Hlisted : lgo fixed (dn b) [(k, usingle (k2 :: rest2) (UV z))] [(PStar, TDict q'' c'')] inv
                          = place_mode m inv bb (usingle rst (UV z))).
        { rewrite lgo_star_dict1, Hinner2, dn_snoc.
          rewrite usingle_cons_UD, inv_topo_skip, <- usingle_cons_UD. apply Hinv. }
        rewrite Hlisted. destruct p'; reflexivity.
  - (* ---- a named node ---- *)
    apply andb_true_iff in Hwf as [Hkc' Hwf].
    destruct (wfs_go_inv _ _ _ Hwf) as [Hk Hent].
    destruct (view_node_get _ _ _ _ _ _ _ _ _ Hk Hv Hg) as [-> [Hl [sub [b2 [x [Hpl [Hw2 [Hx Hgx]]]]]]]].
    rewrite Hpl in Hvp.
    specialize (Hent _ _ Hpl). unfold wfs_entry in Hent.
    unfold entry_path, entry_sub in Hw2, Hx.
    destruct (plook (PK k) c') as [[p|q'' c'']|] eqn:Ec'.
    + (* a tuple path *)
      exists (mode_of fixed), b2, rest. split.
      { now rewrite (view_pstar_var _ _ _ _ _ _ Hent Hx Hgx Hvp). }
      intros inv. rewrite inv_topo_dict. cbv zeta. rewrite Hinner.
      unfold has_star. rewrite (keys_ok_no_star _ Hkc').
      assert (Hlisted : lgo fixed (dn b) [(k, usingle rest (UV z))] c' inv
                        = place_mode (mode_of fixed) inv b2 (usingle rest (UV z))).
      { rewrite (lgo_hit _ _ _ _ _ _ _ Hkc' Ec'). rewrite inv_topo_path.
        rewrite (walk_is_lexical _ _ _ _ Hw2), abs_keys_dn. reflexivity. }
      rewrite Hlisted. destruct p' as [q|]; auto.
      destruct (place_mode (mode_of fixed) inv b2 (usingle rest (UV z))); [|reflexivity].
      cbn [rbind fold_left fst]. rewrite Ec'. reflexivity.
    + (* a nested dict *)
      destruct sub as [d| |o2 c2]; try discriminate.
      destruct (IH (SNode o2 c2) c'' q'' b b2 x r Hent Hvp Hw2 Hx Hgx) as [m [bb [rst [Hr Hinv]]]].
      exists m, bb, rst. split; [exact Hr|].
      intros inv. rewrite inv_topo_dict. cbv zeta. rewrite Hinner.
      unfold has_star. rewrite (keys_ok_no_star _ Hkc').
      rewrite (lgo_hit _ _ _ _ _ _ _ Hkc' Ec'), Hinv.
      destruct p' as [q|]; auto.
      destruct (place_mode m inv bb (usingle rst (UV z))); [|reflexivity].
      cbn [rbind fold_left fst]. rewrite Ec'. reflexivity.
    + (* not listed: '_path' dicts map the sub-key to itself *)
      destruct p' as [q|]; [|discriminate]. cbn [negb andb] in Hent.
      apply walk_Dn in Hw2. subst b2.
      exists (mode_of fixed), (b ++ [k]), rest. split.
      { now rewrite (view_pstar_var _ _ _ _ _ _ Hent Hx Hgx Hvp). }
      intros inv. rewrite inv_topo_dict. cbv zeta. rewrite Hinner.
      unfold has_star. rewrite (keys_ok_no_star _ Hkc').
      rewrite (lgo_miss _ _ _ _ _ _ Hkc' Ec').
      cbn [rbind fold_left fst snd]. rewrite Ec'.
      rewrite normalize_dn_snoc, abs_keys_dn. reflexivity.
Qed.

Lemma rw_dict_star fixed (t : store) z vp s c' p' a b v r :
  wfs s c' (match p' with Some _ => false | None => true end) = true ->
  svar_path s vp = true ->
  walk t a (match p' with Some q => q | None => [] end) = Ok b ->
  view t b s c' = Ok v -> vget v vp = Some (VRef r) ->
  inv_topo fixed false (dn a) (usingle vp (UV z)) (TDict p' c') [] = Ok (usingle_top r (UV z)).
Proof.
  intros Hwf Hvp Hw Hv Hg.
  destruct (rw_dict_star_inv fixed t z vp s c' p' a b v r Hwf Hvp Hw Hv Hg) as [m [bb [rst [-> Hinv]]]].
  rewrite Hinv. apply place_mode_single.
Qed.

(* ================= C06 through glob ports: the theorems ================= *)

(* the general statement: any variable path of a glob-aware well-formed schema / topology pair *)
Theorem rw_symmetry_star_gen fixed t a c tp v vp r z :
  wfs (SNode false c) tp true = true -> svar_path (SNode false c) vp = true ->
  view t a (SNode false c) tp = Ok v -> vget v vp = Some (VRef r) ->
  invert fixed a (usingle_top vp (UV z)) tp = Ok (usingle_top r (UV z)).
Proof.
  intros Hwf Hvp Hv Hg. unfold invert.
  destruct vp as [|k rest]; [discriminate|]. rewrite <- usingle_cons_UD.
  apply (rw_dict_star fixed t z (k :: rest) (SNode false c) tp None a a v r); auto.
Qed.

(* a glob port k below the (named) top level of the ports schema: child ch, variable path rest of sub *)
Theorem rw_symmetry_star t a c tp v k ch rest sub r z :
  wfs (SNode false c) tp true = true ->
  plook (PK k) c = Some (SNode false [(PStar, sub)]) -> svar_path sub rest = true ->
  view t a (SNode false c) tp = Ok v -> vget v (k :: ch :: rest) = Some (VRef r) ->
  invert true a (usingle_top (k :: ch :: rest) (UV z)) tp = Ok (usingle_top r (UV z)).
Proof.
  intros Hwf Hpl Hvp Hv Hg. apply (rw_symmetry_star_gen true t a c tp v); auto.
  cbn [svar_path]. rewrite (glob_of_plook _ _ _ Hpl), Hpl. exact Hvp.
Qed.

Theorem rw_symmetry_star_pinned_single t a c tp v k ch rest sub r z :
  wfs (SNode false c) tp true = true ->
  plook (PK k) c = Some (SNode false [(PStar, sub)]) -> svar_path sub rest = true ->
  view t a (SNode false c) tp = Ok v -> vget v (k :: ch :: rest) = Some (VRef r) ->
  invert false a (usingle_top (k :: ch :: rest) (UV z)) tp = Ok (usingle_top r (UV z)).
Proof.
  intros Hwf Hpl Hvp Hv Hg. apply (rw_symmetry_star_gen false t a c tp v); auto.
  cbn [svar_path]. rewrite (glob_of_plook _ _ _ Hpl), Hpl. exact Hvp.
Qed.

(* the ports schema itself is a glob: {'*': sub} *)
Theorem rw_symmetry_star_top t a tp v ch rest sub r z :
  wfs (SNode false [(PStar, sub)]) tp true = true -> svar_path sub rest = true ->
  view t a (SNode false [(PStar, sub)]) tp = Ok v -> vget v (ch :: rest) = Some (VRef r) ->
  invert true a (usingle_top (ch :: rest) (UV z)) tp = Ok (usingle_top r (UV z)).
Proof.
  intros Hwf Hvp Hv Hg. apply (rw_symmetry_star_gen true t a [(PStar, sub)] tp v); auto.
Qed.

(* ================= the named-only theorem of Wire_proofs.v is an instance ================= *)

Lemma keys_ok_glob_none {X} (c : list (pkey * X)) : keys_ok c = true -> glob_of c = None.
Proof. destruct c as [|[[k|] s0] [|x r]]; cbn; auto; discriminate. Qed.

(* an induction principle for schemas that reaches the children *)
Fixpoint schema_ind_star (P : schema -> Prop)
    (HVar : forall d, P (SVar d)) (HAll : P SAll)
    (HNode : forall o c, Forall (fun kv => P (snd kv)) c -> P (SNode o c)) (s : schema) : P s :=
  match s with
  | SVar d => HVar d
  | SAll => HAll
  | SNode o c => HNode o c ((fix go (l : list (pkey * schema)) : Forall (fun kv => P (snd kv)) l :=
                               match l with
                               | [] => Forall_nil _
                               | kv :: r => Forall_cons kv (schema_ind_star P HVar HAll HNode (snd kv)) (go r)
                               end) c)
  end.

Lemma plain_pstar s : plain_schema s = true -> pstar_schema s = true.
Proof.
  induction s as [d| |o c IHc] using schema_ind_star; intros H; try discriminate; [reflexivity|].
  rewrite pstar_schema_node.
  destruct (plain_node_inv _ _ H) as [Hk _]. rewrite (keys_ok_glob_none _ Hk).
  cbn [plain_schema] in H. clear Hk. induction c as [|[[k|] sub] r IHr]; try discriminate; [reflexivity|].
  cbn [pstar_go]. fold pstar_go.
  apply andb_true_iff in H as [H H3]. apply andb_true_iff in H as [H1 H2].
  inversion IHc as [|? ? Hsub Hrest]; subst. cbn [snd] in Hsub.
  rewrite (Hsub H1), H2, (IHr Hrest H3). reflexivity.
Qed.

Lemma wf_pair_wfs s : forall tp na, wf_pair s tp na = true -> tp_ok tp = true -> wfs s tp na = true.
Proof.
  induction s as [d| |o c IHc] using schema_ind_star; intros tp na Hwf Hok; try discriminate.
  rewrite wfs_node.
  destruct (wf_node_inv _ _ _ _ Hwf) as [Hk _]. rewrite (keys_ok_glob_none _ Hk).
  destruct (tp_ok_inv _ Hok) as [Hkt Hsub]. rewrite Hkt. cbn [andb].
  cbn [wf_pair] in Hwf. clear Hk. induction c as [|[[k|] sub] r IHr]; try discriminate; [reflexivity|].
  cbn [wfs_go]. fold (wfs_go tp na).
  apply andb_true_iff in Hwf as [H H3]. apply andb_true_iff in H as [H1 H2].
  inversion IHc as [|? ? Hs Hrest]; subst. cbn [snd] in Hs.
  rewrite H1, (IHr Hrest H3), andb_true_r. cbn [andb].
  unfold wfs_entry. destruct (plook (PK k) tp) as [[p|p' c']|] eqn:E.
  - now apply plain_pstar.
  - destruct sub as [d| |o2 c2]; try discriminate. apply Hs; auto.
    specialize (Hsub _ _ E). now rewrite topo_ok_dict in Hsub.
  - apply andb_true_iff in H2 as [-> H2]. now apply plain_pstar.
Qed.

Lemma var_path_svar : forall vp s, var_path s vp = true -> svar_path s vp = true.
Proof.
  induction vp as [|k r IH]; intros [d| |o c] H; try discriminate; [reflexivity|].
  cbn [var_path] in H. cbn [svar_path].
  destruct (plook (PK k) c) as [sub|] eqn:E; [|discriminate].
  rewrite (glob_of_plook _ _ _ E). auto.
Qed.

(* rw_symmetry_partial, re-derived from the glob-aware theorem *)
Corollary rw_symmetry_partial_from_star t a c tp v vp r z :
  tp_ok tp = true ->
  wf_pair (SNode false c) tp true = true -> var_path (SNode false c) vp = true ->
  view t a (SNode false c) tp = Ok v -> vget v vp = Some (VRef r) ->
  invert true a (usingle_top vp (UV z)) tp = Ok (usingle_top r (UV z)).
Proof.
  intros Hok Hwf Hvp Hv Hg. apply (rw_symmetry_star_gen true t a c tp v); auto.
  - now apply wf_pair_wfs.
  - now apply var_path_svar.
Qed.

(* ================= the three shapes of a glob port's topology entry ================= *)

Lemma wfs_single_port k S X :
  wfs (SNode false [(PK k, S)]) [(PK k, X)] true = wfs_entry [(PK k, X)] true k S.
Proof. rewrite wfs_node. cbn. now rewrite andb_true_r. Qed.

Lemma svar_path_single_port k S ch rest sub :
  S = SNode false [(PStar, sub)] ->
  svar_path (SNode false [(PK k, S)]) (k :: ch :: rest) = svar_path sub rest.
Proof. intros ->. cbn. now rewrite N.eqb_refl. Qed.

(* (1) the port is a tuple path: the children of the node at p, identity wiring below *)
Theorem rw_symmetry_star_path t a k p sub v ch rest r z :
  pstar_schema sub = true -> svar_path sub rest = true ->
  view t a (SNode false [(PK k, SNode false [(PStar, sub)])]) [(PK k, TPath p)] = Ok v ->
  vget v (k :: ch :: rest) = Some (VRef r) ->
  invert true a (usingle_top (k :: ch :: rest) (UV z)) [(PK k, TPath p)] = Ok (usingle_top r (UV z)).
Proof.
  intros Hp Hvp Hv Hg. eapply rw_symmetry_star_gen; eauto.
  - rewrite wfs_single_port. unfold wfs_entry. cbn [plook pkey_eqb]. rewrite N.eqb_refl.
    rewrite pstar_schema_node. exact Hp.
  - now rewrite (svar_path_single_port k _ ch rest sub eq_refl).
Qed.

(* (2), (3) and both: '_path' beside the '*' entry (p' = Some p), inside it (q' = Some q), in both places or
   in neither; the '*' dict c' must wire EVERY key of the children's sub-schema (wfs ... true) *)
Theorem rw_symmetry_star_dict t a k p' q' o2 c2 c' v ch rest r z :
  wfs (SNode o2 c2) c' true = true -> svar_path (SNode o2 c2) rest = true ->
  view t a (SNode false [(PK k, SNode false [(PStar, SNode o2 c2)])])
       [(PK k, TDict p' [(PStar, TDict q' c')])] = Ok v ->
  vget v (k :: ch :: rest) = Some (VRef r) ->
  invert true a (usingle_top (k :: ch :: rest) (UV z)) [(PK k, TDict p' [(PStar, TDict q' c')])]
  = Ok (usingle_top r (UV z)).
Proof.
  intros Hp Hvp Hv Hg. eapply rw_symmetry_star_gen; eauto.
  - rewrite wfs_single_port. unfold wfs_entry. cbn [plook pkey_eqb]. rewrite N.eqb_refl.
    rewrite wfs_node. cbn [glob_of wfs_glob]. exact Hp.
  - now rewrite (svar_path_single_port k _ ch rest (SNode o2 c2) eq_refl).
Qed.

Theorem rw_symmetry_star_beside t a k p o2 c2 c' v ch rest r z :
  wfs (SNode o2 c2) c' true = true -> svar_path (SNode o2 c2) rest = true ->
  view t a (SNode false [(PK k, SNode false [(PStar, SNode o2 c2)])])
       [(PK k, TDict (Some p) [(PStar, TDict None c')])] = Ok v ->
  vget v (k :: ch :: rest) = Some (VRef r) ->
  invert true a (usingle_top (k :: ch :: rest) (UV z)) [(PK k, TDict (Some p) [(PStar, TDict None c')])]
  = Ok (usingle_top r (UV z)).
Proof. apply rw_symmetry_star_dict. Qed.

Theorem rw_symmetry_star_inside t a k q o2 c2 c' v ch rest r z :
  wfs (SNode o2 c2) c' true = true -> svar_path (SNode o2 c2) rest = true ->
  view t a (SNode false [(PK k, SNode false [(PStar, SNode o2 c2)])])
       [(PK k, TDict None [(PStar, TDict (Some q) c')])] = Ok v ->
  vget v (k :: ch :: rest) = Some (VRef r) ->
  invert true a (usingle_top (k :: ch :: rest) (UV z)) [(PK k, TDict None [(PStar, TDict (Some q) c')])]
  = Ok (usingle_top r (UV z)).
Proof. apply rw_symmetry_star_dict. Qed.

Theorem rw_symmetry_star_both t a k p q o2 c2 c' v ch rest r z :
  wfs (SNode o2 c2) c' true = true -> svar_path (SNode o2 c2) rest = true ->
  view t a (SNode false [(PK k, SNode false [(PStar, SNode o2 c2)])])
       [(PK k, TDict (Some p) [(PStar, TDict (Some q) c')])] = Ok v ->
  vget v (k :: ch :: rest) = Some (VRef r) ->
  invert true a (usingle_top (k :: ch :: rest) (UV z)) [(PK k, TDict (Some p) [(PStar, TDict (Some q) c')])]
  = Ok (usingle_top r (UV z)).
Proof. apply rw_symmetry_star_dict. Qed.

(* the premises for `sub` a flat schema of variables whose '*' dict lists every variable as a tuple path
   (renaming / redirecting allowed) *)
Fixpoint flat_vars (c : list (pkey * schema)) : bool :=
  match c with
  | [] => true
  | (PK k, SVar _) :: r => negb (existsb (fun kv => pkey_eqb (fst kv) (PK k)) r) && flat_vars r
  | _ => false
  end.

Definition lists_all (c : list (pkey * schema)) (c' : list (pkey * topo)) : bool :=
  keys_ok c' &&
  forallb (fun kv => match fst kv with
                     | PK k => match plook (PK k) c' with Some (TPath _) => true | _ => false end
                     | PStar => false
                     end) c.

Lemma flat_glob_none c : flat_vars c = true -> glob_of c = None.
Proof. destruct c as [|[[k|] s0] [|x r]]; cbn; auto; discriminate. Qed.

Lemma flat_pstar o c : flat_vars c = true -> pstar_schema (SNode o c) = true.
Proof.
  intros H. rewrite pstar_schema_node, (flat_glob_none _ H).
  induction c as [|[[k|] [d| |o2 c2]] r IH]; try discriminate; auto.
  cbn [flat_vars] in H. apply andb_true_iff in H as [H1 H2].
  cbn [pstar_go]. fold pstar_go. rewrite H1, (IH H2). reflexivity.
Qed.

Lemma flat_wfs o c c' : flat_vars c = true -> lists_all c c' = true -> wfs (SNode o c) c' true = true.
Proof.
  intros H HL. rewrite wfs_node, (flat_glob_none _ H).
  apply andb_true_iff in HL as [-> HL]. cbn [andb].
  induction c as [|[[k|] [d| |o2 c2]] r IH]; try discriminate; auto.
  cbn [flat_vars] in H. apply andb_true_iff in H as [H1 H2].
  cbn [forallb fst] in HL. apply andb_true_iff in HL as [HL1 HL2].
  cbn [wfs_go]. fold (wfs_go c' true). rewrite H1, (IH H2 HL2), andb_true_r. cbn [andb].
  unfold wfs_entry. destruct (plook (PK k) c') as [[p|p' c'']|]; try discriminate. reflexivity.
Qed.

Lemma flat_svar o c x d : flat_vars c = true -> plook (PK x) c = Some (SVar d) ->
  svar_path (SNode o c) [x] = true.
Proof. intros H Hp. cbn [svar_path]. now rewrite (flat_glob_none _ H), Hp. Qed.

(* shapes (2), (3) for a flat sub-schema: the statement asked for *)
Theorem rw_symmetry_star_dict_flat t a k p' q' subc c' v ch x d r z :
  flat_vars subc = true -> lists_all subc c' = true -> plook (PK x) subc = Some (SVar d) ->
  view t a (SNode false [(PK k, SNode false [(PStar, SNode false subc)])])
       [(PK k, TDict p' [(PStar, TDict q' c')])] = Ok v ->
  vget v [k; ch; x] = Some (VRef r) ->
  invert true a (usingle_top [k; ch; x] (UV z)) [(PK k, TDict p' [(PStar, TDict q' c')])]
  = Ok (usingle_top r (UV z)).
Proof.
  intros Hf HL Hx. apply rw_symmetry_star_dict.
  - now apply flat_wfs.
  - eapply flat_svar; eauto.
Qed.

Theorem rw_symmetry_star_path_flat t a k p subc v ch x d r z :
  flat_vars subc = true -> plook (PK x) subc = Some (SVar d) ->
  view t a (SNode false [(PK k, SNode false [(PStar, SNode false subc)])]) [(PK k, TPath p)] = Ok v ->
  vget v [k; ch; x] = Some (VRef r) ->
  invert true a (usingle_top [k; ch; x] (UV z)) [(PK k, TPath p)] = Ok (usingle_top r (UV z)).
Proof.
  intros Hf Hx. apply rw_symmetry_star_path.
  - now apply flat_pstar.
  - eapply flat_svar; eauto.
Qed.

(* ================= concrete stores: the hypotheses are satisfiable ================= *)
(* Stores are built by Store.generate (Model/Wire.v): a first process declares the two children 1 and 2 of
   node 10; the process under test lives at [30] and reaches node 10 through its glob port 7.  The
   children's sub-schema declares the variables 5 and 6. *)
Module StarEx.
Open Scope N_scope.

Definition d0 : vdecl := {| dd := Some 0%Z; dv := None; du := None; ds := None |}.
Definition subc : list (pkey * schema) := [(PK 5, SVar d0); (PK 6, SVar d0)].
Definition sch : list (pkey * schema) := [(PK 7, SNode false [(PStar, SNode false subc)])].
Definition p0 : proc :=
  {| pr_parent := [10]; pr_schema := SNode false [(PK 1, SNode false []); (PK 2, SNode false [])]; pr_topo := [] |}.
Definition gen_store (c : list (pkey * schema)) (tp : list (pkey * topo)) : store :=
  match generate [p0; {| pr_parent := [30]; pr_schema := SNode false c; pr_topo := tp |}] (Nd []) with
  | Ok (t, _) => t
  | Err _ => Nd []
  end.

(* (1) a tuple path *)
Definition tp_path : list (pkey * topo) := [(PK 7, TPath [Up; Dn 10])].
(* (2) '_path' beside the '*'; variable 5 renamed to 20, variable 6 redirected to the shared node [40] *)
Definition tp_beside : list (pkey * topo) :=
  [(PK 7, TDict (Some [Up; Dn 10]) [(PStar, TDict None [(PK 5, TPath [Dn 20]); (PK 6, TPath [Up; Up; Dn 40])])])].
(* (3) '_path' inside the '*' *)
Definition tp_inside : list (pkey * topo) :=
  [(PK 7, TDict None [(PStar, TDict (Some [Up; Dn 10]) [(PK 5, TPath [Dn 20]); (PK 6, TPath [Dn 21])])])].
(* '_path' in both places *)
Definition tp_both : list (pkey * topo) :=
  [(PK 7, TDict (Some [Up]) [(PStar, TDict (Some [Dn 10]) [(PK 5, TPath [Dn 20]); (PK 6, TPath [Up; Up; Dn 40; Dn 41])])])].

Definition leaf0 : lf := {| l_val := Some 0%Z; l_def := Some 0%Z; l_units := None; l_ser := None |}.

Example store_path :
  gen_store sch tp_path =
  Nd [(10, Nd [(1, Nd [(5, Lf leaf0); (6, Lf leaf0)]); (2, Nd [(5, Lf leaf0); (6, Lf leaf0)])]); (30, Nd [])].
Proof. vm_compute. reflexivity. Qed.

Example store_beside :
  gen_store sch tp_beside =
  Nd [(10, Nd [(1, Nd [(20, Lf leaf0)]); (2, Nd [(20, Lf leaf0)])]); (30, Nd []); (40, Lf leaf0)].
Proof. vm_compute. reflexivity. Qed.

Example rw_symmetry_star_path_sat :
  let t := gen_store sch tp_path in
  pstar_schema (SNode false subc) = true /\ svar_path (SNode false subc) [6] = true /\
  view t [30] (SNode false sch) tp_path
  = Ok (VNode [(7, VNode [(1, VNode [(5, VRef [10; 1; 5]); (6, VRef [10; 1; 6])]);
                          (2, VNode [(5, VRef [10; 2; 5]); (6, VRef [10; 2; 6])])])]) /\
  invert true [30] (usingle_top [7; 2; 6] (UV 9%Z)) tp_path = Ok (usingle_top [10; 2; 6] (UV 9%Z)).
Proof.
  cbv zeta. split; [reflexivity|]. split; [reflexivity|]. split; [vm_compute; reflexivity|].
  eapply (rw_symmetry_star_path (gen_store sch tp_path) [30] 7 [Up; Dn 10] (SNode false subc) _ 2 [6]);
    vm_compute; reflexivity.
Qed.

Example rw_symmetry_star_beside_sat :
  let t := gen_store sch tp_beside in
  flat_vars subc = true /\
  lists_all subc [(PK 5, TPath [Dn 20]); (PK 6, TPath [Up; Up; Dn 40])] = true /\
  view t [30] (SNode false sch) tp_beside
  = Ok (VNode [(7, VNode [(1, VNode [(5, VRef [10; 1; 20]); (6, VRef [40])]);
                          (2, VNode [(5, VRef [10; 2; 20]); (6, VRef [40])])])]) /\
  invert true [30] (usingle_top [7; 2; 5] (UV 9%Z)) tp_beside = Ok (usingle_top [10; 2; 20] (UV 9%Z)) /\
  invert true [30] (usingle_top [7; 1; 6] (UV 9%Z)) tp_beside = Ok (usingle_top [40] (UV 9%Z)).
Proof.
  cbv zeta. split; [reflexivity|]. split; [reflexivity|]. split; [vm_compute; reflexivity|]. split.
  - eapply (rw_symmetry_star_dict_flat (gen_store sch tp_beside) [30] 7 _ _ subc _ _ 2 5 d0);
      vm_compute; reflexivity.
  - eapply (rw_symmetry_star_dict_flat (gen_store sch tp_beside) [30] 7 _ _ subc _ _ 1 6 d0);
      vm_compute; reflexivity.
Qed.

Example rw_symmetry_star_inside_sat :
  let t := gen_store sch tp_inside in
  wfs (SNode false sch) tp_inside true = true /\
  view t [30] (SNode false sch) tp_inside
  = Ok (VNode [(7, VNode [(1, VNode [(5, VRef [10; 1; 20]); (6, VRef [10; 1; 21])]);
                          (2, VNode [(5, VRef [10; 2; 20]); (6, VRef [10; 2; 21])])])]) /\
  invert true [30] (usingle_top [7; 2; 6] (UV 9%Z)) tp_inside = Ok (usingle_top [10; 2; 21] (UV 9%Z)).
Proof.
  cbv zeta. split; [reflexivity|]. split; [vm_compute; reflexivity|].
  eapply (rw_symmetry_star_inside (gen_store sch tp_inside) [30] 7 _ false subc _ _ 2 [6]);
    vm_compute; reflexivity.
Qed.

Example rw_symmetry_star_both_sat :
  let t := gen_store sch tp_both in
  wfs (SNode false sch) tp_both true = true /\
  view t [30] (SNode false sch) tp_both
  = Ok (VNode [(7, VNode [(1, VNode [(5, VRef [10; 1; 20]); (6, VRef [40; 41])]);
                          (2, VNode [(5, VRef [10; 2; 20]); (6, VRef [40; 41])])])]) /\
  invert true [30] (usingle_top [7; 2; 6] (UV 9%Z)) tp_both = Ok (usingle_top [40; 41] (UV 9%Z)).
Proof.
  cbv zeta. split; [reflexivity|]. split; [vm_compute; reflexivity|].
  eapply (rw_symmetry_star_both (gen_store sch tp_both) [30] 7 _ _ false subc _ _ 2 [6]);
    vm_compute; reflexivity.
Qed.

(* the general theorem: a glob at the TOP of the ports schema, a nested dict and a nested glob in the
   children's sub-schema.  Process at [10]; its ports are the children of [10] themselves. *)
Definition sub_n : schema :=
  SNode false [(PK 5, SVar d0);
               (PK 8, SNode false [(PK 9, SVar d0)]);
               (PK 3, SNode false [(PStar, SNode false [(PK 4, SVar d0)])])].
Definition tp_top : list (pkey * topo) :=
  [(PStar, TDict None [(PK 5, TPath [Dn 20]);
                       (PK 8, TDict (Some [Dn 22]) [(PK 9, TPath [Dn 23])]);
                       (PK 3, TPath [Dn 24])])].
Definition store_n : store :=
  Nd [(10, Nd [(1, Nd [(20, Lf leaf0); (22, Nd [(23, Lf leaf0)]);
                       (24, Nd [(60, Nd [(4, Lf leaf0)]); (61, Nd [(4, Lf leaf0)])])]);
               (2, Nd [(20, Lf leaf0); (22, Nd [(23, Lf leaf0)]); (24, Nd [])])])].

Example rw_symmetry_star_top_sat :
  wfs (SNode false [(PStar, sub_n)]) tp_top true = true /\
  svar_path sub_n [8; 9] = true /\ svar_path sub_n [3; 61; 4] = true /\
  view store_n [10] (SNode false [(PStar, sub_n)]) tp_top
  = Ok (VNode [(1, VNode [(5, VRef [10; 1; 20]); (8, VNode [(9, VRef [10; 1; 22; 23])]);
                          (3, VNode [(60, VNode [(4, VRef [10; 1; 24; 60; 4])]);
                                     (61, VNode [(4, VRef [10; 1; 24; 61; 4])])])]);
               (2, VNode [(5, VRef [10; 2; 20]); (8, VNode [(9, VRef [10; 2; 22; 23])]); (3, VNode [])])]) /\
  invert true [10] (usingle_top [2; 8; 9] (UV 9%Z)) tp_top = Ok (usingle_top [10; 2; 22; 23] (UV 9%Z)) /\
  invert true [10] (usingle_top [1; 3; 61; 4] (UV 9%Z)) tp_top = Ok (usingle_top [10; 1; 24; 61; 4] (UV 9%Z)).
Proof.
  split; [reflexivity|]. split; [reflexivity|]. split; [reflexivity|]. split; [vm_compute; reflexivity|]. split.
  - eapply (rw_symmetry_star_top store_n [10] tp_top _ 2 [8; 9] sub_n); vm_compute; reflexivity.
  - eapply (rw_symmetry_star_top store_n [10] tp_top _ 1 [3; 61; 4] sub_n); vm_compute; reflexivity.
Qed.

End StarEx.

(* ================= what the premises exclude: machine-checked counterexamples ================= *)
Module StarCx.
Import StarEx.
Open Scope N_scope.

(* (a) A sub-variable that the '*' dict does not list.  Intended statement (FALSE): rw_symmetry_star_inside
   with, as for a NAMED port wired by a '_path' dict (wf_pair ... false in Wire_proofs.v), only a subset of
   the sub-schema's keys listed in c':
     Theorem rw_symmetry_star_inside_subset t a k q o2 c2 c' v ch rest r z :
       wfs (SNode o2 c2) c' false = true -> svar_path (SNode o2 c2) rest = true ->
       view t a (SNode false [(PK k, SNode false [(PStar, SNode o2 c2)])])
            [(PK k, TDict None [(PStar, TDict (Some q) c')])] = Ok v ->
       vget v (k :: ch :: rest) = Some (VRef r) ->
       invert true a (usingle_top (k :: ch :: rest) (UV z)) [(PK k, TDict None [(PStar, TDict (Some q) c')])]
       = Ok (usingle_top r (UV z)).
   schema_topology READS the unlisted variable 6 of every child at its default place [10; ch; 6] (and
   generate creates it there), but inverse_topology has consumed the '_path' of the '*' dict
   (skip_path) and DROPS the update of the variable: the process's write is lost silently.
   rw_symmetry_star_inside is the true variant: premise added = every key of the sub-schema is listed
   (wfs ... true). *)
Definition tp_unlisted : list (pkey * topo) :=
  [(PK 7, TDict None [(PStar, TDict (Some [Up; Dn 10]) [(PK 5, TPath [Dn 20])])])].

Example star_unlisted_counterexample :
  let t := gen_store sch tp_unlisted in
  t = Nd [(10, Nd [(1, Nd [(20, Lf leaf0); (6, Lf leaf0)]); (2, Nd [(20, Lf leaf0); (6, Lf leaf0)])]); (30, Nd [])] /\
  wfs (SNode false subc) [(PK 5, TPath [Dn 20])] false = true /\
  svar_path (SNode false subc) [6] = true /\
  view t [30] (SNode false sch) tp_unlisted
  = Ok (VNode [(7, VNode [(1, VNode [(5, VRef [10; 1; 20]); (6, VRef [10; 1; 6])]);
                          (2, VNode [(5, VRef [10; 2; 20]); (6, VRef [10; 2; 6])])])]) /\
  invert true [30] (usingle_top [7; 2; 6] (UV 9%Z)) tp_unlisted = Ok [] /\
  invert true [30] (usingle_top [7; 2; 6] (UV 9%Z)) tp_unlisted <> Ok (usingle_top [10; 2; 6] (UV 9%Z)).
Proof. cbv zeta. repeat split; try (vm_compute; reflexivity). vm_compute. discriminate. Qed.

(* the same sub-schema / sub-topology pair behind a NAMED port with '_path' is symmetric (rw_symmetry_partial):
   the unlisted variable maps to itself in both directions *)
Example named_unlisted_is_symmetric :
  let c := [(PK 7, SNode false subc)] in
  let tp := [(PK 7, TDict (Some [Up; Dn 10; Dn 2]) [(PK 5, TPath [Dn 20])])] in
  let t := gen_store sch tp_unlisted in
  view t [30] (SNode false c) tp = Ok (VNode [(7, VNode [(5, VRef [10; 2; 20]); (6, VRef [10; 2; 6])])]) /\
  invert true [30] (usingle_top [7; 6] (UV 9%Z)) tp = Ok (usingle_top [10; 2; 6] (UV 9%Z)).
Proof. cbv zeta. split; vm_compute; reflexivity. Qed.

(* (b) Children that are VARIABLES (sub = SVar) behind a '*' DICT: the view refers to each leaf child, the
   write path raises (inverse_topology indexes the scalar update with the '*' dict).  Behind a '*' tuple
   path the same children are symmetric.  Intended statement (FALSE): rw_symmetry_star_dict with
   `sub := SVar d`, `rest := []`.  The theorems require sub to be a node when the '*' entry is a dict. *)
Definition sch_leaf : list (pkey * schema) := [(PK 7, SNode false [(PStar, SVar d0)])].
Definition store_leaf : store := Nd [(10, Nd [(1, Lf leaf0); (2, Lf leaf0)]); (30, Nd [])].

Example star_leaf_children_counterexample :
  let tp := [(PK 7, TDict None [(PStar, TDict (Some [Up; Dn 10]) [])])] in
  svar_path (SVar d0) [] = true /\
  view store_leaf [30] (SNode false sch_leaf) tp = Ok (VNode [(7, VNode [(1, VRef [10; 1]); (2, VRef [10; 2])])]) /\
  invert true [30] (usingle_top [7; 2] (UV 9%Z)) tp = Err EOther.
Proof. cbv zeta. repeat split; vm_compute; reflexivity. Qed.

Example star_leaf_children_path_ok :
  let tp := [(PK 7, TPath [Up; Dn 10])] in
  let tp' := [(PK 7, TDict None [(PStar, TPath [Up; Dn 10])])] in
  view store_leaf [30] (SNode false sch_leaf) tp = Ok (VNode [(7, VNode [(1, VRef [10; 1]); (2, VRef [10; 2])])]) /\
  invert true [30] (usingle_top [7; 2] (UV 9%Z)) tp = Ok (usingle_top [10; 2] (UV 9%Z)) /\
  view store_leaf [30] (SNode false sch_leaf) tp' = Ok (VNode [(7, VNode [(1, VRef [10; 1]); (2, VRef [10; 2])])]) /\
  invert true [30] (usingle_top [7; 2] (UV 9%Z)) tp' = Ok (usingle_top [10; 2] (UV 9%Z)).
Proof.
  cbv zeta. split; [vm_compute; reflexivity|]. split.
  - eapply (rw_symmetry_star_path store_leaf [30] 7 _ (SVar d0) _ 2 []); vm_compute; reflexivity.
  - split; [vm_compute; reflexivity|].
    eapply (rw_symmetry_star_gen true store_leaf [30] sch_leaf _ _ [7; 2]); vm_compute; reflexivity.
Qed.

(* (c) A NAMED entry beside the '*' entry whose key is the name of a child: the view of a glob node only
   looks at the '*' entry, inverse_topology obeys both, so the child's update is written twice (once to
   the place the named entry points to).  wfs requires the dict of a glob node to be the '*' entry alone. *)
Definition tp_sibling : list (pkey * topo) :=
  [(PK 7, TDict (Some [Up; Dn 10])
              [(PK 2, TPath [Up; Dn 50]); (PStar, TDict None [(PK 5, TPath [Dn 20]); (PK 6, TPath [Dn 21])])])].

Example star_named_sibling_counterexample :
  let t := gen_store sch tp_sibling in
  view t [30] (SNode false sch) tp_sibling
  = Ok (VNode [(7, VNode [(1, VNode [(5, VRef [10; 1; 20]); (6, VRef [10; 1; 21])]);
                          (2, VNode [(5, VRef [10; 2; 20]); (6, VRef [10; 2; 21])])])]) /\
  invert true [30] (usingle_top [7; 2; 6] (UV 9%Z)) tp_sibling
  = Ok [(50, UD [(6, UV 9%Z)]); (10, UD [(2, UD [(21, UV 9%Z)])])] /\
  invert true [30] (usingle_top [7; 2; 6] (UV 9%Z)) tp_sibling <> Ok (usingle_top [10; 2; 21] (UV 9%Z)).
Proof. cbv zeta. repeat split; try (vm_compute; reflexivity). vm_compute. discriminate. Qed.

(* (d) A glob node whose topology dict has neither '_path' nor a '*' entry (here: the ports schema itself is
   {'*': sub} and the topology is {}): the view shows the children of the process's own parent node, the
   write path drops every update.  Same rule as for named ports (need_all); wfs excludes it. *)
Definition store_own : store := Nd [(10, Nd [(1, Nd [(5, Lf leaf0); (6, Lf leaf0)]); (2, Nd [(5, Lf leaf0); (6, Lf leaf0)])])].

Example star_missing_entry_counterexample :
  view store_own [10] (SNode false [(PStar, SNode false subc)]) []
  = Ok (VNode [(1, VNode [(5, VRef [10; 1; 5]); (6, VRef [10; 1; 6])]);
               (2, VNode [(5, VRef [10; 2; 5]); (6, VRef [10; 2; 6])])]) /\
  invert true [10] (usingle_top [2; 6] (UV 9%Z)) [] = Ok [] /\
  wfs (SNode false [(PStar, SNode false subc)]) [] true = false.
Proof. repeat split; vm_compute; reflexivity. Qed.

(* ... while below a '_path' dict an absent '*' entry is fine (the children of the node at '_path') *)
Example star_missing_entry_below_path_ok :
  let c := [(PK 7, SNode false [(PStar, SNode false subc)])] in
  let tp := [(PK 7, TDict (Some [Up; Dn 10]) [])] in
  let t := gen_store sch tp_path in
  view t [30] (SNode false c) tp
  = Ok (VNode [(7, VNode [(1, VNode [(5, VRef [10; 1; 5]); (6, VRef [10; 1; 6])]);
                          (2, VNode [(5, VRef [10; 2; 5]); (6, VRef [10; 2; 6])])])]) /\
  invert true [30] (usingle_top [7; 2; 6] (UV 9%Z)) tp = Ok (usingle_top [10; 2; 6] (UV 9%Z)).
Proof.
  cbv zeta. split; [vm_compute; reflexivity|].
  eapply (rw_symmetry_star_gen true (gen_store sch tp_path) [30] sch _ _ [7; 2; 6]); vm_compute; reflexivity.
Qed.

End StarCx.

(* ================= two glob variables in one update ================= *)

Lemma usingle_UD c d : usingle c (UD d) = UD (usingle_top c (UD d)).
Proof. destruct c; reflexivity. Qed.

Lemma uupdate_in_cons2 d h h' r f :
  uupdate_in d (h :: h' :: r) f =
  match (match alookup h d with Some s => s | None => UD [] end) with
  | UD dc => rbind (uupdate_in dc (h' :: r) f) (fun dc' => Ok (aset h (UD dc') d))
  | _ => Err ETypeThroughLeaf
  end.
Proof. reflexivity. Qed.

(* update_in descends an existing spine *)
Lemma uupdate_in_spine_app c1 : forall d p f, p <> [] ->
  uupdate_in (usingle_top c1 (UD d)) (c1 ++ p) f
  = rbind (uupdate_in d p f) (fun d' => Ok (usingle_top c1 (UD d'))).
Proof.
  induction c1 as [|h c1 IH]; intros d p f Hp.
  - cbn [app]. rewrite usingle_top_nil_UD. symmetry. apply rbind_ok_id.
  - cbn [app]. destruct (c1 ++ p) as [|h' r] eqn:E.
    { apply app_eq_nil in E as [_ ->]. congruence. }
    rewrite uupdate_in_cons2.
    change (usingle_top (h :: c1) (UD d)) with [(h, usingle c1 (UD d))].
    rewrite usingle_UD. cbn [alookup]. rewrite N.eqb_refl.
    rewrite <- E, (IH d p f Hp).
    destruct (uupdate_in d p f) as [d'|e]; cbn [rbind]; [|reflexivity].
    cbn [aset]. rewrite N.eqb_refl.
    change (usingle_top (h :: c1) (UD d')) with [(h, usingle c1 (UD d'))].
    now rewrite usingle_UD.
Qed.

(* ... and forks off it where the paths diverge *)
Lemma uupdate_in_diverge h1 w1 h2 p f u : h1 <> h2 -> f (UD []) = Ok u ->
  uupdate_in [(h1, w1)] (h2 :: p) f = Ok [(h1, w1); (h2, usingle p u)].
Proof.
  intros Hne Hf. apply N.eqb_neq in Hne. destruct p as [|h' r].
  - cbn. rewrite Hne, Hf. reflexivity.
  - rewrite uupdate_in_cons2. cbn [alookup]. rewrite Hne.
    rewrite (uupdate_in_nil (h' :: r) f u Hf) by discriminate.
    cbn [rbind aset]. rewrite Hne. reflexivity.
Qed.

Lemma uupdate_in_fork cp h1 w1 h2 p f u : h1 <> h2 -> f (UD []) = Ok u ->
  uupdate_in (usingle_top cp (UD [(h1, w1)])) (cp ++ h2 :: p) f
  = Ok (usingle_top cp (UD [(h1, w1); (h2, usingle p u)])).
Proof.
  intros Hne Hf. rewrite uupdate_in_spine_app by discriminate.
  now rewrite (uupdate_in_diverge _ _ _ _ _ _ Hne Hf).
Qed.

(* deep_merge / deep_merge_multi_update of two spines that share a prefix *)
Lemma dmmu_fork mb cp2 : forall n h1 w1 h2 w2, h1 <> h2 -> (length cp2 < n)%nat ->
  dmmu mb n (usingle_top (cp2 ++ [h1]) w1) (usingle_top (cp2 ++ [h2]) w2)
  = usingle_top cp2 (UD [(h1, w1); (h2, w2)]).
Proof.
  induction cp2 as [|g cp2 IH]; intros n h1 w1 h2 w2 Hne Hn.
  - destruct n as [|n]; [inversion Hn|]. apply N.eqb_neq in Hne.
    cbn. rewrite Hne. reflexivity.
  - destruct n as [|n]; [inversion Hn|]. cbn [length] in Hn.
    cbn [app].
    change (usingle_top (g :: cp2 ++ [h1]) w1) with [(g, usingle (cp2 ++ [h1]) w1)].
    change (usingle_top (g :: cp2 ++ [h2]) w2) with [(g, usingle (cp2 ++ [h2]) w2)].
    rewrite (usingle_ne_UD (cp2 ++ [h1])), (usingle_ne_UD (cp2 ++ [h2])) by (destruct cp2; discriminate).
    cbn [dmmu fold_left alookup]. rewrite N.eqb_refl. cbn [aset]. rewrite N.eqb_refl.
    rewrite (IH n h1 w1 h2 w2 Hne) by lia.
    change (usingle_top (g :: cp2) (UD [(h1, w1); (h2, w2)])) with [(g, usingle cp2 (UD [(h1, w1); (h2, w2)]))].
    now rewrite usingle_UD.
Qed.

Lemma usize_usingle p u : usize (usingle p u) = (length p + usize u)%nat.
Proof. induction p as [|k p IH]; auto. cbn [usingle usize length]. rewrite IH. lia. Qed.

Lemma last_app_cons (l : list key) x l' d : last (l ++ x :: l') d = last (x :: l') d.
Proof.
  induction l as [|y l IH]; auto. cbn [app]. rewrite <- IH.
  destruct (l ++ x :: l') eqn:E; [destruct l; discriminate|reflexivity].
Qed.

Lemma place_mode_scalar m inv bb z : bb <> [] ->
  place_mode m inv bb (UV z) =
  if Nat.eqb m 1 then
    uupdate_in inv (removelast bb) (fun cur =>
      match cur with
      | UD cc => Ok (UD (dmmu true 2 cc [(last bb 0%N, UV z)]))
      | _ => Err EOther
      end)
  else uupdate_in inv bb (fun _ => Ok (UV z)).
Proof. destruct bb; [congruence|reflexivity]. Qed.

(* a second one-variable placement into the inverse that holds a first one, at a diverging path: both are
   kept, whatever the mode and wherever the tuple path of the second one ends (bb) *)
Lemma place_mode_fork m cp h1 w1 h2 t2 bb rst z : h1 <> h2 -> bb ++ rst = cp ++ h2 :: t2 ->
  place_mode m (usingle_top cp (UD [(h1, w1)])) bb (usingle rst (UV z))
  = Ok (usingle_top cp (UD [(h1, w1); (h2, usingle t2 (UV z))])).
Proof.
  intros Hne Heq.
  assert (Hcase : (exists cp2, cp = bb ++ cp2 /\ rst = cp2 ++ h2 :: t2) \/
                  (exists t2a, bb = cp ++ h2 :: t2a /\ t2 = t2a ++ rst)).
  { apply app_eq_app in Heq as [l [[Hbb Ht]|[Hcp Hrst]]].
    - destruct l as [|x l].
      + left. exists []. rewrite app_nil_r in *. cbn in Ht. auto.
      + right. injection Ht as <- Ht. exists l. auto.
    - left. exists l. auto. }
  destruct Hcase as [[cp2 [-> ->]]|[t2a [-> ->]]].
  - (* the value reaches below the fork: the merge forks *)
    set (vc := usingle_top (cp2 ++ h2 :: t2) (UV z)).
    assert (Hv : usingle (cp2 ++ h2 :: t2) (UV z) = UD vc).
    { apply usingle_ne_UD. destruct cp2; discriminate. }
    rewrite Hv. unfold place_mode.
    rewrite usingle_top_app, usingle_UD.
    set (d0 := usingle_top cp2 (UD [(h1, w1)])).
    rewrite (uupdate_in_spine bb _ d0 (usingle_top cp2 (UD [(h1, w1); (h2, usingle t2 (UV z))]))).
    + now rewrite usingle_top_app, usingle_UD.
    + f_equal. f_equal. unfold d0, vc.
      change (UD [(h1, w1)]) with (usingle [h1] w1). rewrite <- usingle_top_app.
      replace (cp2 ++ h2 :: t2) with ((cp2 ++ [h2]) ++ t2) by now rewrite <- app_assoc.
      rewrite (usingle_top_app (cp2 ++ [h2]) t2).
      apply dmmu_fork; auto.
      rewrite <- (usingle_ne_UD (cp2 ++ [h2])) by (destruct cp2; discriminate).
      rewrite usize_usingle, app_length. cbn [length]. lia.
  - (* the tuple path ends below the fork: a fresh spine beside the first *)
    destruct rst as [|k rst].
    + rewrite app_nil_r. cbn [usingle].
      rewrite place_mode_scalar by (destruct cp; discriminate).
      destruct (Nat.eqb m 1).
      * rewrite last_app_cons, removelast_app by discriminate.
        destruct t2a as [|x t2a].
        -- cbn [removelast]. rewrite app_nil_r.
           apply uupdate_in_spine. apply N.eqb_neq in Hne. cbn. rewrite Hne. reflexivity.
        -- change (removelast (h2 :: x :: t2a)) with (h2 :: removelast (x :: t2a)).
           rewrite (uupdate_in_fork cp h1 w1 h2 _ _ (UD [(last (h2 :: x :: t2a) 0%N, UV z)]) Hne) by reflexivity.
           change (last (h2 :: x :: t2a) 0%N) with (last (x :: t2a) 0%N).
           change (UD [(last (x :: t2a) 0%N, UV z)]) with (usingle [last (x :: t2a) 0%N] (UV z)).
           rewrite <- usingle_app, removelast_last_N by discriminate. reflexivity.
      * now apply uupdate_in_fork.
    + rewrite usingle_cons_UD. unfold place_mode.
      rewrite (uupdate_in_fork cp h1 w1 h2 t2a _ (UD (usingle_top (k :: rst) (UV z))) Hne) by reflexivity.
      now rewrite <- usingle_cons_UD, <- usingle_app.
Qed.

(* the loops of inverse_topology over the update's keys are sequential: at a glob level (no named entries in
   the topology dict) a multi-key update is inverted key by key *)
Lemma rfold_bind {A B} (G : B -> A -> res A) l : forall x,
  fold_left (fun acc kv => rbind acc (G kv)) l x
  = rbind x (fun a => fold_left (fun acc kv => rbind acc (G kv)) l (Ok a)).
Proof.
  intros [a|e]; [reflexivity|]. induction l as [|kv l IH]; auto.
Qed.

Lemma glob_level_split fixed outer kv1 cu p' c' inv :
  c' = [] \/ (exists X, c' = [(PStar, X)]) ->
  inv_topo fixed false outer (UD (kv1 :: cu)) (TDict p' c') inv
  = rbind (inv_topo fixed false outer (UD [kv1]) (TDict p' c') inv)
          (fun inv' => inv_topo fixed false outer (UD cu) (TDict p' c') inv').
Proof.
  intros [->|[X ->]].
  - rewrite !inv_topo_dict. cbv zeta. cbn [lgo has_star plook].
    destruct p' as [q|]; [|reflexivity]. cbn [rbind].
    cbn [fold_left]. rewrite rfold_bind. cbn [rbind].
    match goal with |- rbind ?x _ = rbind ?y _ => destruct x as [i|e] end; [|reflexivity].
    cbn [rbind]. rewrite inv_topo_dict. reflexivity.
  - assert (Hs : forall cu0 i, inv_topo fixed false outer (UD cu0) (TDict p' [(PStar, X)]) i
                               = lgo fixed (match p' with Some q => normalize (outer ++ q) | None => outer end)
                                     cu0 [(PStar, X)] i).
    { intros cu0 i. rewrite inv_topo_dict. cbv zeta. destruct p'; reflexivity. }
    rewrite !Hs. set (inner := match p' with Some q => normalize (outer ++ q) | None => outer end).
    destruct X as [p|q'' c''].
    + unfold lgo. cbn [fold_left]. rewrite rfold_bind. cbn [rbind].
      match goal with |- match rbind ?x _ with _ => _ end = _ => destruct x as [i|e] end; [|reflexivity].
      cbn [rbind]. rewrite Hs. reflexivity.
    + unfold lgo. cbn [fold_left]. rewrite rfold_bind. cbn [rbind].
      match goal with |- match rbind ?x _ with _ => _ end = _ => destruct x as [i|e] end; [|reflexivity].
      cbn [rbind]. rewrite Hs. reflexivity.
Qed.

Lemma wfs_glob_shape sub c' na : wfs_glob sub c' na = true -> c' = [] \/ (exists X, c' = [(PStar, X)]).
Proof.
  unfold wfs_glob. destruct c' as [|[[kk|] X] [|y c'r]]; try discriminate; eauto.
  destruct X; discriminate.
Qed.

(* two variables below one glob node, in different places of the store: the inverse holds both *)
Lemma rw_glob_two fixed (t : store) o sub c' p' a b v ch1 rest1 ch2 rest2 r1 r2 z1 z2 cp h1 t1 h2 t2 :
  wfs (SNode o [(PStar, sub)]) c' (match p' with Some _ => false | None => true end) = true ->
  svar_path sub rest1 = true -> svar_path sub rest2 = true ->
  walk t a (match p' with Some q => q | None => [] end) = Ok b ->
  view t b (SNode o [(PStar, sub)]) c' = Ok v ->
  vget v (ch1 :: rest1) = Some (VRef r1) -> vget v (ch2 :: rest2) = Some (VRef r2) ->
  r1 = cp ++ h1 :: t1 -> r2 = cp ++ h2 :: t2 -> h1 <> h2 ->
  inv_topo fixed false (dn a) (UD [(ch1, usingle rest1 (UV z1)); (ch2, usingle rest2 (UV z2))]) (TDict p' c') []
  = Ok (usingle_top cp (UD [(h1, usingle t1 (UV z1)); (h2, usingle t2 (UV z2))])).
Proof.
  intros Hwf Hvp1 Hvp2 Hw Hv Hg1 Hg2 Hr1 Hr2 Hne.
  assert (Hshape : c' = [] \/ (exists X, c' = [(PStar, X)])).
  { rewrite wfs_node in Hwf. cbn [glob_of] in Hwf. eapply wfs_glob_shape; eauto. }
  rewrite (glob_level_split _ _ _ _ _ _ _ Hshape).
  destruct (rw_dict_star_inv fixed t z1 (ch1 :: rest1) _ c' p' a b v r1 Hwf Hvp1 Hw Hv Hg1)
    as [m1 [bb1 [rst1 [E1 Hinv1]]]].
  destruct (rw_dict_star_inv fixed t z2 (ch2 :: rest2) _ c' p' a b v r2 Hwf Hvp2 Hw Hv Hg2)
    as [m2 [bb2 [rst2 [E2 Hinv2]]]].
  cbn [usingle] in Hinv1, Hinv2.
  rewrite Hinv1, place_mode_single, <- E1. cbn [rbind].
  rewrite Hinv2, Hr1.
  rewrite usingle_top_app. change (usingle (h1 :: t1) (UV z1)) with (UD [(h1, usingle t1 (UV z1))]).
  apply place_mode_fork; auto. now rewrite <- E2.
Qed.

Lemma fork_unique (cp : list key) : forall cp' h1 t1 h2 t2 h1' t1' h2' t2',
  cp ++ h1 :: t1 = cp' ++ h1' :: t1' -> cp ++ h2 :: t2 = cp' ++ h2' :: t2' -> h1 <> h2 -> h1' <> h2' ->
  cp = cp' /\ h1 = h1' /\ t1 = t1' /\ h2 = h2' /\ t2 = t2'.
Proof.
  induction cp as [|x cp IH]; intros [|y cp'] h1 t1 h2 t2 h1' t1' h2' t2' E1 E2 Hne Hne'; cbn in E1, E2.
  - injection E1 as -> ->. injection E2 as -> ->. auto.
  - injection E1 as -> _. injection E2 as -> _. congruence.
  - injection E1 as -> _. injection E2 as -> _. congruence.
  - injection E1 as -> E1. injection E2 as E2.
    destruct (IH _ _ _ _ _ _ _ _ _ E1 E2 Hne Hne') as [-> H]. auto.
Qed.

Lemma place_nil_two fixed b k1 v1 k2 v2 : k1 <> k2 ->
  place fixed [] b (UD [(k1, v1); (k2, v2)]) = Ok (usingle_top b (UD [(k1, v1); (k2, v2)])).
Proof.
  intros Hne. apply N.eqb_neq in Hne. unfold place, place_mode.
  apply uupdate_in_nil; [|intros _; eauto].
  f_equal. f_equal. cbn. rewrite Hne. reflexivity.
Qed.

(* ---- C06 companion: two variables behind one glob port, wired to different places of the store ----
   (different children ch1 <> ch2; rest1 and rest2 may be the same variable).  cp is the common prefix of
   the two absolute paths.  The absolute update holds exactly the two writes. *)
Theorem rw_symmetry_star_two fixed t a c tp v k ch1 rest1 ch2 rest2 sub r1 r2 z1 z2 cp h1 t1 h2 t2 :
  wfs (SNode false c) tp true = true ->
  plook (PK k) c = Some (SNode false [(PStar, sub)]) ->
  svar_path sub rest1 = true -> svar_path sub rest2 = true ->
  view t a (SNode false c) tp = Ok v ->
  vget v (k :: ch1 :: rest1) = Some (VRef r1) -> vget v (k :: ch2 :: rest2) = Some (VRef r2) ->
  ch1 <> ch2 -> r1 = cp ++ h1 :: t1 -> r2 = cp ++ h2 :: t2 -> h1 <> h2 ->
  invert fixed a [(k, UD [(ch1, usingle rest1 (UV z1)); (ch2, usingle rest2 (UV z2))])] tp
  = Ok (usingle_top cp (UD [(h1, usingle t1 (UV z1)); (h2, usingle t2 (UV z2))])).
Proof.
  intros Hwf Hpl Hvp1 Hvp2 Hv Hg1 Hg2 Hch Hr1 Hr2 Hne.
  unfold invert. rewrite inv_topo_dict. cbv zeta.
  rewrite wfs_node, (glob_of_plook _ _ _ Hpl) in Hwf.
  apply andb_true_iff in Hwf as [Hkt Hwf].
  destruct (wfs_go_inv _ _ _ Hwf) as [Hk Hent].
  destruct (view_node_get _ _ _ _ _ _ _ _ _ Hk Hv Hg1) as [_ [Hl [s1 [b2 [x [Hpl1 [Hw2 [Hx Hgx1]]]]]]]].
  destruct (view_node_get _ _ _ _ _ _ _ _ _ Hk Hv Hg2) as [_ [_ [s2 [b2' [x' [Hpl2 [Hw2' [Hx' Hgx2]]]]]]]].
  rewrite Hpl in Hpl1, Hpl2. injection Hpl1 as <-. injection Hpl2 as <-.
  rewrite Hw2 in Hw2'. injection Hw2' as <-. rewrite Hx in Hx'. injection Hx' as <-.
  specialize (Hent _ _ Hpl). unfold wfs_entry in Hent.
  cbv iota.
  unfold entry_path, entry_sub in Hw2, Hx.
  destruct (plook (PK k) tp) as [[p|q c'']|] eqn:Etp; [| |discriminate].
  - (* (1) a tuple path: the whole update of the port moves to the node *)
    rewrite (lgo_hit _ _ _ _ _ _ _ Hkt Etp), inv_topo_path.
    rewrite (walk_is_lexical _ _ _ _ Hw2), abs_keys_dn. cbn [rbind].
    rewrite (place_nil_two _ _ _ _ _ _ Hch).
    rewrite pstar_schema_node in Hent. cbn [glob_of] in Hent.
    destruct (view_glob_get _ _ _ _ _ _ _ _ _ Hx Hgx1) as [_ [_ [b3 [y1 [Hw3 [_ [Hy1 Hgy1]]]]]]].
    destruct (view_glob_get _ _ _ _ _ _ _ _ _ Hx Hgx2) as [_ [_ [b3' [y2 [Hw3' [_ [Hy2 Hgy2]]]]]]].
    cbn in Hw3, Hw3'. injection Hw3 as <-. injection Hw3' as <-. cbn in Hy1, Hy2.
    pose proof (view_pstar_var _ _ _ _ _ _ Hent Hy1 Hgy1 Hvp1) as E1.
    pose proof (view_pstar_var _ _ _ _ _ _ Hent Hy2 Hgy2 Hvp2) as E2.
    rewrite <- app_assoc in E1, E2. cbn [app] in E1, E2.
    rewrite Hr1 in E1. rewrite Hr2 in E2.
    destruct (fork_unique _ _ _ _ _ _ _ _ _ _ E1 E2 Hne Hch) as [-> [-> [-> [-> ->]]]].
    reflexivity.
  - (* (2), (3): a dict with a '*' entry (or, below '_path', none) *)
    rewrite (lgo_hit _ _ _ _ _ _ _ Hkt Etp).
    eapply (rw_glob_two fixed t false sub c'' q a b2 x); eauto.
Qed.

(* the same when the ports schema itself is the glob *)
Theorem rw_symmetry_star_two_top fixed t a tp v ch1 rest1 ch2 rest2 sub r1 r2 z1 z2 cp h1 t1 h2 t2 :
  wfs (SNode false [(PStar, sub)]) tp true = true ->
  svar_path sub rest1 = true -> svar_path sub rest2 = true ->
  view t a (SNode false [(PStar, sub)]) tp = Ok v ->
  vget v (ch1 :: rest1) = Some (VRef r1) -> vget v (ch2 :: rest2) = Some (VRef r2) ->
  r1 = cp ++ h1 :: t1 -> r2 = cp ++ h2 :: t2 -> h1 <> h2 ->
  invert fixed a [(ch1, usingle rest1 (UV z1)); (ch2, usingle rest2 (UV z2))] tp
  = Ok (usingle_top cp (UD [(h1, usingle t1 (UV z1)); (h2, usingle t2 (UV z2))])).
Proof.
  intros Hwf Hvp1 Hvp2 Hv Hg1 Hg2 Hr1 Hr2 Hne. unfold invert.
  eapply (rw_glob_two fixed t false sub tp None a a v); eauto.
Qed.

(* ---- two variables of the SAME child ---- *)

Lemma place_mode_nil_two m b k1 v1 k2 v2 : k1 <> k2 ->
  place_mode m [] b (UD [(k1, v1); (k2, v2)]) = Ok (usingle_top b (UD [(k1, v1); (k2, v2)])).
Proof.
  intros Hne. apply N.eqb_neq in Hne. unfold place_mode.
  apply uupdate_in_nil; [|intros _; eauto].
  f_equal. f_equal. cbn. rewrite Hne. reflexivity.
Qed.

(* the loop over the named entries of a topology dict only sees the update through alookup *)
Lemma lgo_ext fixed inner cu cu' c : forall inv, keys_ok c = true ->
  (forall k, plook (PK k) c <> None -> alookup k cu = alookup k cu') ->
  lgo fixed inner cu c inv = lgo fixed inner cu' c inv.
Proof.
  induction c as [|[[k0|] s0] r IH]; intros inv Hk Hext; [reflexivity| |discriminate].
  cbn [keys_ok] in Hk. apply andb_true_iff in Hk as [_ Hk].
  rewrite !lgo_PK. rewrite (Hext k0) by (cbn; rewrite N.eqb_refl; discriminate).
  assert (Hext' : forall k, plook (PK k) r <> None -> alookup k cu = alookup k cu').
  { intros k Hp. apply Hext. cbn [plook]. rewrite pkey_eqb_PK. destruct (N.eqb k0 k); [discriminate|exact Hp]. }
  destruct (alookup k0 cu') as [v0|]; [|now apply IH].
  destruct (inv_topo fixed false inner v0 s0 inv); [now apply IH|reflexivity].
Qed.

(* a two-key update through named entries: one key after the other, in the order of the topology dict *)
Lemma lgo_two_split fixed inner x1 v1 x2 v2 c : forall inv s1 s2, keys_ok c = true -> x1 <> x2 ->
  plook (PK x1) c = Some s1 -> plook (PK x2) c = Some s2 ->
  lgo fixed inner [(x1, v1); (x2, v2)] c inv
  = rbind (lgo fixed inner [(x1, v1)] c inv) (fun i => lgo fixed inner [(x2, v2)] c i) \/
  lgo fixed inner [(x1, v1); (x2, v2)] c inv
  = rbind (lgo fixed inner [(x2, v2)] c inv) (fun i => lgo fixed inner [(x1, v1)] c i).
Proof.
  induction c as [|[[k0|] s0] r IH]; intros inv s1 s2 Hk Hne Hp1 Hp2; [discriminate| |discriminate].
  pose proof Hk as Hk0. cbn [keys_ok] in Hk. apply andb_true_iff in Hk as [Hk1 Hk].
  apply negb_true_iff in Hk1. apply existsb_plook in Hk1.
  cbn [plook] in Hp1, Hp2. rewrite pkey_eqb_PK in Hp1, Hp2.
  rewrite !lgo_PK. cbn [alookup].
  destruct (N.eqb k0 x1) eqn:E1; [|destruct (N.eqb k0 x2) eqn:E2].
  - (* the entry of x1 comes first *)
    left. apply N.eqb_eq in E1. subst k0. rewrite N.eqb_refl.
    assert (E21 : N.eqb x2 x1 = false) by (apply N.eqb_neq; congruence).
    apply N.eqb_neq in Hne. rewrite Hne in Hp2.
    destruct (inv_topo fixed false inner v1 s0 inv) as [i|e]; [|reflexivity].
    rewrite (lgo_miss _ _ _ _ _ _ Hk Hk1). cbn [rbind].
    rewrite lgo_PK. cbn [alookup]. rewrite E21.
    apply lgo_ext; auto. intros k Hp. cbn [alookup].
    destruct (N.eqb x1 k) eqn:E; auto. apply N.eqb_eq in E. subst k. congruence.
  - (* the entry of x2 comes first *)
    right. apply N.eqb_eq in E2. subst k0. rewrite N.eqb_refl.
    assert (E12 : N.eqb x1 x2 = false) by now apply N.eqb_neq. rewrite E12.
    destruct (inv_topo fixed false inner v2 s0 inv) as [i|e]; [|reflexivity].
    rewrite (lgo_miss _ _ _ _ _ _ Hk Hk1). cbn [rbind].
    rewrite lgo_PK. cbn [alookup]. rewrite E12.
    apply lgo_ext; auto. intros k Hp. cbn [alookup].
    destruct (N.eqb x1 k) eqn:E; auto.
    destruct (N.eqb x2 k) eqn:E'; auto. apply N.eqb_eq in E'. subst k. congruence.
  - (* another entry *)
    rewrite (N.eqb_sym x1 k0), (N.eqb_sym x2 k0), E1, E2.
    destruct (IH inv s1 s2 Hk Hne Hp1 Hp2) as [H|H]; [left|right]; rewrite H.
    + destruct (lgo fixed inner [(x1, v1)] r inv) as [i|e]; [|reflexivity]. cbn [rbind].
      rewrite lgo_PK. cbn [alookup]. now rewrite (N.eqb_sym x2 k0), E2.
    + destruct (lgo fixed inner [(x2, v2)] r inv) as [i|e]; [|reflexivity]. cbn [rbind].
      rewrite lgo_PK. cbn [alookup]. now rewrite (N.eqb_sym x1 k0), E1.
Qed.

Lemma inv_topo_named_None fixed outer cu c inv : keys_ok c = true ->
  inv_topo fixed false outer (UD cu) (TDict None c) inv = lgo fixed outer cu c inv.
Proof. intros _. rewrite inv_topo_dict. reflexivity. Qed.

(* two variables below one named node wired by a dict without '_path' (the dict of a '*' entry): both kept *)
Lemma rw_named_two fixed (t : store) o c c'' b v x1 rest1 x2 rest2 r1 r2 z1 z2 cp h1 t1 h2 t2 :
  glob_of c = None ->
  wfs (SNode o c) c'' true = true ->
  svar_path (SNode o c) (x1 :: rest1) = true -> svar_path (SNode o c) (x2 :: rest2) = true ->
  view t b (SNode o c) c'' = Ok v ->
  vget v (x1 :: rest1) = Some (VRef r1) -> vget v (x2 :: rest2) = Some (VRef r2) ->
  x1 <> x2 -> r1 = cp ++ h1 :: t1 -> r2 = cp ++ h2 :: t2 -> h1 <> h2 ->
  inv_topo fixed false (dn b) (UD [(x1, usingle rest1 (UV z1)); (x2, usingle rest2 (UV z2))]) (TDict None c'') []
  = Ok (usingle_top cp (UD [(h1, usingle t1 (UV z1)); (h2, usingle t2 (UV z2))])) \/
  inv_topo fixed false (dn b) (UD [(x1, usingle rest1 (UV z1)); (x2, usingle rest2 (UV z2))]) (TDict None c'') []
  = Ok (usingle_top cp (UD [(h2, usingle t2 (UV z2)); (h1, usingle t1 (UV z1))])).
Proof.
  intros Hg Hwf Hvp1 Hvp2 Hv Hg1 Hg2 Hx Hr1 Hr2 Hne.
  destruct (rw_dict_star_inv fixed t z1 (x1 :: rest1) _ c'' None b b v r1 Hwf Hvp1 eq_refl Hv Hg1)
    as [m1 [bb1 [rst1 [E1 Hinv1]]]].
  destruct (rw_dict_star_inv fixed t z2 (x2 :: rest2) _ c'' None b b v r2 Hwf Hvp2 eq_refl Hv Hg2)
    as [m2 [bb2 [rst2 [E2 Hinv2]]]].
  cbn [usingle] in Hinv1, Hinv2.
  pose proof Hwf as Hwf0. rewrite wfs_node, Hg in Hwf0. apply andb_true_iff in Hwf0 as [Hkc Hgo].
  destruct (wfs_go_inv _ _ _ Hgo) as [_ Hent].
  cbn [svar_path] in Hvp1, Hvp2. rewrite Hg in Hvp1, Hvp2.
  destruct (plook (PK x1) c) as [sub1|] eqn:Ep1; [|discriminate].
  destruct (plook (PK x2) c) as [sub2|] eqn:Ep2; [|discriminate].
  pose proof (Hent _ _ Ep1) as He1. pose proof (Hent _ _ Ep2) as He2. unfold wfs_entry in He1, He2.
  destruct (plook (PK x1) c'') as [s1|] eqn:Es1; [|discriminate].
  destruct (plook (PK x2) c'') as [s2|] eqn:Es2; [|discriminate].
  rewrite (inv_topo_named_None _ _ _ _ _ Hkc).
  assert (Hs1 : forall i, lgo fixed (dn b) [(x1, usingle rest1 (UV z1))] c'' i
                          = place_mode m1 i bb1 (usingle rst1 (UV z1))).
  { intros i. rewrite <- Hinv1. now rewrite inv_topo_named_None. }
  assert (Hs2 : forall i, lgo fixed (dn b) [(x2, usingle rest2 (UV z2))] c'' i
                          = place_mode m2 i bb2 (usingle rst2 (UV z2))).
  { intros i. rewrite <- Hinv2. now rewrite inv_topo_named_None. }
  destruct (lgo_two_split fixed (dn b) x1 (usingle rest1 (UV z1)) x2 (usingle rest2 (UV z2)) c'' [] s1 s2
                          Hkc Hx Es1 Es2) as [H|H]; [left|right]; rewrite H.
  - rewrite Hs1, place_mode_single, <- E1. cbn [rbind]. rewrite Hs2, Hr1.
    rewrite usingle_top_app. change (usingle (h1 :: t1) (UV z1)) with (UD [(h1, usingle t1 (UV z1))]).
    apply place_mode_fork; auto. now rewrite <- E2.
  - rewrite Hs2, place_mode_single, <- E2. cbn [rbind]. rewrite Hs1, Hr2.
    rewrite usingle_top_app. change (usingle (h2 :: t2) (UV z2)) with (UD [(h2, usingle t2 (UV z2))]).
    apply place_mode_fork; auto. now rewrite <- E1.
Qed.

(* ---- C06 companion: two different variables of ONE child behind a glob port ----
   The two writes are both in the absolute update; their ORDER in the dict is the order of the update for
   tuple-path wiring and the order of the entries of the '*' dict otherwise, hence the disjunction. *)
Theorem rw_symmetry_star_two_vars fixed t a c tp v k ch x1 rest1 x2 rest2 o2 c2 r1 r2 z1 z2 cp h1 t1 h2 t2 :
  wfs (SNode false c) tp true = true ->
  plook (PK k) c = Some (SNode false [(PStar, SNode o2 c2)]) -> glob_of c2 = None ->
  svar_path (SNode o2 c2) (x1 :: rest1) = true -> svar_path (SNode o2 c2) (x2 :: rest2) = true ->
  view t a (SNode false c) tp = Ok v ->
  vget v (k :: ch :: x1 :: rest1) = Some (VRef r1) -> vget v (k :: ch :: x2 :: rest2) = Some (VRef r2) ->
  x1 <> x2 -> r1 = cp ++ h1 :: t1 -> r2 = cp ++ h2 :: t2 -> h1 <> h2 ->
  invert fixed a [(k, UD [(ch, UD [(x1, usingle rest1 (UV z1)); (x2, usingle rest2 (UV z2))])])] tp
  = Ok (usingle_top cp (UD [(h1, usingle t1 (UV z1)); (h2, usingle t2 (UV z2))])) \/
  invert fixed a [(k, UD [(ch, UD [(x1, usingle rest1 (UV z1)); (x2, usingle rest2 (UV z2))])])] tp
  = Ok (usingle_top cp (UD [(h2, usingle t2 (UV z2)); (h1, usingle t1 (UV z1))])).
Proof.
  intros Hwf Hpl Hg2 Hvp1 Hvp2 Hv Hg1' Hg2' Hx Hr1 Hr2 Hne.
  set (two := [(x1, usingle rest1 (UV z1)); (x2, usingle rest2 (UV z2))]).
  unfold invert. rewrite inv_topo_dict. cbv zeta.
  rewrite wfs_node, (glob_of_plook _ _ _ Hpl) in Hwf.
  apply andb_true_iff in Hwf as [Hkt Hwf].
  destruct (wfs_go_inv _ _ _ Hwf) as [Hk Hent].
  destruct (view_node_get _ _ _ _ _ _ _ _ _ Hk Hv Hg1') as [_ [Hl [s1 [b2 [x [Hpl1 [Hw2 [Hx1 Hgx1]]]]]]]].
  destruct (view_node_get _ _ _ _ _ _ _ _ _ Hk Hv Hg2') as [_ [_ [s2 [b2' [x' [Hpl2 [Hw2' [Hx2 Hgx2]]]]]]]].
  rewrite Hpl in Hpl1, Hpl2. injection Hpl1 as <-. injection Hpl2 as <-.
  rewrite Hw2 in Hw2'. injection Hw2' as <-. rewrite Hx1 in Hx2. injection Hx2 as <-.
  specialize (Hent _ _ Hpl). unfold wfs_entry in Hent.
  cbv iota.
  unfold entry_path, entry_sub in Hw2, Hx1.
  destruct (view_glob_get _ _ _ _ _ _ _ _ _ Hx1 Hgx1) as [_ [_ [b3 [y1 [Hw3 [_ [Hy1 Hgy1]]]]]]].
  destruct (view_glob_get _ _ _ _ _ _ _ _ _ Hx1 Hgx2) as [_ [_ [b3' [y2 [Hw3' [_ [Hy2 Hgy2]]]]]]].
  rewrite Hw3 in Hw3'. injection Hw3' as <-. rewrite Hy1 in Hy2. injection Hy2 as <-.
  (* the whole dict of the child lands at one node bb: the left disjunct *)
  assert (Hwhole : forall bb, r1 = bb ++ x1 :: rest1 -> r2 = bb ++ x2 :: rest2 ->
            usingle_top bb (UD two) = usingle_top cp (UD [(h1, usingle t1 (UV z1)); (h2, usingle t2 (UV z2))])).
  { intros bb E1 E2. rewrite Hr1 in E1. rewrite Hr2 in E2.
    destruct (fork_unique _ _ _ _ _ _ _ _ _ _ E1 E2 Hne Hx) as [-> [-> [-> [-> ->]]]]. reflexivity. }
  destruct (plook (PK k) tp) as [[p|q c']|] eqn:Etp; [| |discriminate].
  - (* (1) a tuple path *)
    left. rewrite (lgo_hit _ _ _ _ _ _ _ Hkt Etp), inv_topo_path.
    rewrite (walk_is_lexical _ _ _ _ Hw2), abs_keys_dn. cbn [rbind].
    rewrite pstar_schema_node in Hent. cbn [glob_of] in Hent.
    cbn in Hw3. injection Hw3 as <-. cbn in Hy1.
    pose proof (view_pstar_var _ _ _ _ _ _ Hent Hy1 Hgy1 Hvp1) as E1.
    pose proof (view_pstar_var _ _ _ _ _ _ Hent Hy1 Hgy2 Hvp2) as E2.
    unfold place, place_mode.
    rewrite (uupdate_in_nil b2 _ (UD [(ch, UD two)])); [|reflexivity|intros _; eauto].
    change (UD [(ch, UD two)]) with (usingle [ch] (UD two)). rewrite <- usingle_top_app.
    f_equal. now apply Hwhole.
  - (* a dict *)
    rewrite (lgo_hit _ _ _ _ _ _ _ Hkt Etp).
    assert (Hinner : match q with Some q0 => normalize (dn a ++ q0) | None => dn a end = dn b2).
    { destruct q as [q0|]; [exact (walk_is_lexical t _ _ _ Hw2)|]. cbn in Hw2. now injection Hw2 as ->. }
    rewrite inv_topo_dict. cbv zeta. rewrite Hinner.
    rewrite wfs_node in Hent. cbn [glob_of] in Hent. unfold wfs_glob in Hent.
    destruct c' as [|[[kk|] X] [|y c'r]]; try discriminate; try (destruct X; discriminate).
    + (* no '*' entry, below '_path' *)
      left. destruct q as [q0|]; [|discriminate]. cbn [negb andb] in Hent.
      cbn in Hw3. injection Hw3 as <-. cbn in Hy1.
      pose proof (view_pstar_var _ _ _ _ _ _ Hent Hy1 Hgy1 Hvp1) as E1.
      pose proof (view_pstar_var _ _ _ _ _ _ Hent Hy1 Hgy2 Hvp2) as E2.
      cbn [lgo has_star plook rbind fold_left fst snd].
      rewrite normalize_dn_snoc, abs_keys_dn. cbn [rbind].
      unfold two in *. rewrite (place_nil_two _ _ _ _ _ _ Hx). f_equal. now apply Hwhole.
    + destruct X as [p|q'' c''].
      * (* '*': a tuple path *)
        left. unfold star_path, star_sub in Hw3, Hy1. cbn [plook pkey_eqb] in Hw3, Hy1.
        pose proof (view_pstar_var _ _ _ _ _ _ Hent Hy1 Hgy1 Hvp1) as E1.
        pose proof (view_pstar_var _ _ _ _ _ _ Hent Hy1 Hgy2 Hvp2) as E2.
        assert (Hlisted : lgo fixed (dn b2) [(ch, UD two)] [(PStar, TPath p)] []
                          = Ok (usingle_top (b3 ++ [ch]) (UD two))).
        { rewrite lgo_star_path1. rewrite app_assoc, normalize_snoc_Dn.
          rewrite (walk_is_lexical _ _ _ _ Hw3), dn_snoc, abs_keys_dn. cbn [rbind].
          unfold two. apply (place_mode_nil_two _ _ _ _ _ _ Hx). }
        rewrite Hlisted. change (has_star [(PStar, TPath p)]) with true.
        destruct q; cbv iota; f_equal; now apply Hwhole.
      * (* '*': a dict *)
        unfold star_path, star_sub in Hw3, Hy1. cbn [plook pkey_eqb] in Hw3, Hy1.
        assert (Hinner2 : match q'' with Some q0 => normalize (dn b2 ++ q0) | None => dn b2 end = dn b3).
        { destruct q'' as [q0|]; [exact (walk_is_lexical t _ _ _ Hw3)|]. cbn in Hw3. now injection Hw3 as ->. }
        assert (Hlisted : lgo fixed (dn b2) [(ch, UD two)] [(PStar, TDict q'' c'')] []
                          = inv_topo fixed false (dn (b3 ++ [ch])) (UD two) (TDict None c'') []).
        { rewrite lgo_star_dict1, Hinner2, dn_snoc. apply inv_topo_skip. }
        assert (Hres : forall R, lgo fixed (dn b2) [(ch, UD two)] [(PStar, TDict q'' c'')] [] = R ->
                  match q, has_star [(PStar, TDict q'' c'')] with
                  | Some _, false =>
                    rbind (lgo fixed (dn b2) [(ch, UD two)] [(PStar, TDict q'' c'')] []) (fun inv =>
                      fold_left (fun acc kv =>
                                   rbind acc (fun inv0 =>
                                     match plook (PK (fst kv)) [(PStar, TDict q'' c'')] with
                                     | Some _ => Ok inv0
                                     | None => rbind (abs_keys (normalize (dn b2 ++ [Dn (fst kv)]))) (fun tgt =>
                                                 place fixed inv0 tgt (snd kv))
                                     end)) [(ch, UD two)] (Ok inv))
                  | _, _ => lgo fixed (dn b2) [(ch, UD two)] [(PStar, TDict q'' c'')] []
                  end = R).
        { intros R <-. destruct q; reflexivity. }
        destruct (rw_named_two fixed t o2 c2 c'' (b3 ++ [ch]) y1 x1 rest1 x2 rest2 r1 r2 z1 z2
                               cp h1 t1 h2 t2 Hg2 Hent Hvp1 Hvp2 Hy1 Hgy1 Hgy2 Hx Hr1 Hr2 Hne) as [H|H];
          [left|right]; apply Hres; now rewrite Hlisted.
Qed.

Module StarTwoEx.
Import StarEx.
Open Scope N_scope.

(* variable 5 of child 1 and variable 6 of child 2, '_path' inside the '*': [10;1;20] and [10;2;21] *)
Example rw_symmetry_star_two_sat :
  let t := gen_store sch tp_inside in
  wfs (SNode false sch) tp_inside true = true /\
  (exists v, view t [30] (SNode false sch) tp_inside = Ok v /\
             vget v [7; 1; 5] = Some (VRef ([10] ++ 1 :: [20])) /\
             vget v [7; 2; 6] = Some (VRef ([10] ++ 2 :: [21]))) /\
  invert true [30] [(7, UD [(1, UD [(5, UV 8%Z)]); (2, UD [(6, UV 9%Z)])])] tp_inside
  = Ok [(10, UD [(1, UD [(20, UV 8%Z)]); (2, UD [(21, UV 9%Z)])])].
Proof.
  cbv zeta. split; [reflexivity|]. split.
  - eexists. split; [vm_compute; reflexivity|]. split; vm_compute; reflexivity.
  - apply (rw_symmetry_star_two true (gen_store sch tp_inside) [30] sch tp_inside
             (VNode [(7, VNode [(1, VNode [(5, VRef [10; 1; 20]); (6, VRef [10; 1; 21])]);
                                (2, VNode [(5, VRef [10; 2; 20]); (6, VRef [10; 2; 21])])])])
             7 1 [5] 2 [6] (SNode false subc) [10; 1; 20] [10; 2; 21] 8%Z 9%Z [10] 1 [20] 2 [21]);
      try (vm_compute; reflexivity); discriminate.
Qed.

(* the same variable of the two children, a tuple-path port *)
Example rw_symmetry_star_two_path_sat :
  let t := gen_store sch tp_path in
  invert true [30] [(7, UD [(1, UD [(6, UV 8%Z)]); (2, UD [(6, UV 9%Z)])])] tp_path
  = Ok [(10, UD [(1, UD [(6, UV 8%Z)]); (2, UD [(6, UV 9%Z)])])].
Proof.
  cbv zeta.
  apply (rw_symmetry_star_two true (gen_store sch tp_path) [30] sch tp_path
           (VNode [(7, VNode [(1, VNode [(5, VRef [10; 1; 5]); (6, VRef [10; 1; 6])]);
                              (2, VNode [(5, VRef [10; 2; 5]); (6, VRef [10; 2; 6])])])])
           7 1 [6] 2 [6] (SNode false subc) [10; 1; 6] [10; 2; 6] 8%Z 9%Z [10] 1 [6] 2 [6]);
    try (vm_compute; reflexivity); discriminate.
Qed.

(* outside the theorem (r1 = r2): the variable 6 of BOTH children is redirected to the shared node [40]
   (tp_beside).  The repaired inverse_topology keeps both writes as a multi-update, the pinned one keeps the
   last (the glob analogue of multi_port_scalar_direct / scalar_collision_pinned). *)
Example star_two_children_shared_variable :
  invert true [30] [(7, UD [(1, UD [(6, UV 8%Z)]); (2, UD [(6, UV 9%Z)])])] tp_beside
  = Ok [(40, UM [UV 8%Z; UV 9%Z])] /\
  invert false [30] [(7, UD [(1, UD [(6, UV 8%Z)]); (2, UD [(6, UV 9%Z)])])] tp_beside
  = Ok [(40, UV 9%Z)].
Proof. split; vm_compute; reflexivity. Qed.

(* two variables of one child; the '*' dict lists 6 before 5 here, so the write of 6 comes first *)
Example rw_symmetry_star_two_vars_sat :
  let tp := [(PK 7, TDict None [(PStar, TDict (Some [Up; Dn 10]) [(PK 6, TPath [Dn 21]); (PK 5, TPath [Dn 20])])])] in
  let t := gen_store sch tp in
  wfs (SNode false sch) tp true = true /\
  (exists v, view t [30] (SNode false sch) tp = Ok v /\
             vget v [7; 2; 5] = Some (VRef ([10; 2] ++ 20 :: [])) /\
             vget v [7; 2; 6] = Some (VRef ([10; 2] ++ 21 :: []))) /\
  invert true [30] [(7, UD [(2, UD [(5, UV 8%Z); (6, UV 9%Z)])])] tp
  = Ok [(10, UD [(2, UD [(21, UV 9%Z); (20, UV 8%Z)])])].
Proof.
  cbv zeta. split; [reflexivity|]. split.
  - eexists. split; [vm_compute; reflexivity|]. split; vm_compute; reflexivity.
  - set (tp := [(PK 7, TDict None [(PStar, TDict (Some [Up; Dn 10]) [(PK 6, TPath [Dn 21]); (PK 5, TPath [Dn 20])])])]).
    pose proof (rw_symmetry_star_two_vars true (gen_store sch tp) [30] sch tp
               (VNode [(7, VNode [(1, VNode [(5, VRef [10; 1; 20]); (6, VRef [10; 1; 21])]);
                                  (2, VNode [(5, VRef [10; 2; 20]); (6, VRef [10; 2; 21])])])])
               7 2 5 [] 6 [] false subc [10; 2; 20] [10; 2; 21] 8%Z 9%Z [10; 2] 20 [] 21 []) as T.
    assert (T' := T ltac:(vm_compute; reflexivity) ltac:(vm_compute; reflexivity) ltac:(vm_compute; reflexivity)
                    ltac:(vm_compute; reflexivity) ltac:(vm_compute; reflexivity) ltac:(vm_compute; reflexivity)
                    ltac:(vm_compute; reflexivity) ltac:(vm_compute; reflexivity)
                    ltac:(discriminate) ltac:(reflexivity) ltac:(reflexivity) ltac:(discriminate)).
    clear T. destruct T' as [H|H].
    + exfalso. revert H. vm_compute. discriminate.
    + exact H.
Qed.

End StarTwoEx.

(* ================= a named port and a glob port write the same variable of one child ================= *)
(* The '*' tuple-path case of inverse_topology: the pinned code deep_merges / assoc_paths the child's update
   into what an earlier port of the same process has already routed to the child's node (place_mode 2), so
   the earlier value is overwritten; the repaired code merges them as a multi-update like every other port
   (place_mode 1).  k1 is a named port wired INTO the child ch of the glob node, listed before the glob
   port k2. *)

Lemma abs_keys_snoc l : forall i k, abs_keys l = Ok i -> abs_keys (l ++ [Dn k]) = Ok (i ++ [k]).
Proof.
  induction l as [|[|k0] l IH]; intros i k H.
  - injection H as <-. reflexivity.
  - discriminate.
  - cbn in H. destruct (abs_keys l) as [i0|e] eqn:E; [|discriminate]. injection H as <-.
    cbn. now rewrite (IH i0 k eq_refl).
Qed.

Lemma abs_keys_child a p ch inner : abs_keys (normalize (dn a ++ p)) = Ok inner ->
  abs_keys (normalize (dn a ++ p ++ [Dn ch])) = Ok (inner ++ [ch]).
Proof. intros H. rewrite app_assoc, normalize_snoc_Dn. now apply abs_keys_snoc. Qed.

(* the common part: after the named port, the '*' tuple-path entry places the child's update in star_mode *)
Lemma star_path_collision_gen fixed a p k1 k2 ch x z1 z2 inner : k1 <> k2 ->
  abs_keys (normalize (dn a ++ p)) = Ok inner ->
  invert fixed a [(k1, UD [(x, UV z1)]); (k2, UD [(ch, UD [(x, UV z2)])])]
         [(PK k1, TPath (p ++ [Dn ch])); (PK k2, TDict None [(PStar, TPath p)])]
  = place_mode (star_mode fixed) (usingle_top (inner ++ [ch]) (UD [(x, UV z1)])) (inner ++ [ch]) (UD [(x, UV z2)]).
Proof.
  intros Hne Habs. pose proof (abs_keys_child a p ch inner Habs) as Hc.
  unfold invert. rewrite inv_topo_dict. cbv zeta. cbv iota.
  rewrite lgo_PK. cbn [alookup]. rewrite N.eqb_refl.
  rewrite inv_topo_path, Hc. cbn [rbind].
  change (UD [(x, UV z1)]) with (usingle [x] (UV z1)) at 1. rewrite place_single.
  rewrite lgo_PK. cbn [alookup]. apply N.eqb_neq in Hne. rewrite Hne, N.eqb_refl.
  rewrite lgo_nil_match.
  rewrite inv_topo_dict. cbv zeta. change (has_star [(PStar, TPath p)]) with true. cbv iota.
  rewrite lgo_star_path1, Hc. cbn [rbind].
  rewrite usingle_top_app. reflexivity.
Qed.

(* ---- the repaired code: both values arrive, as a multi-update of the child's variable ---- *)
Theorem star_path_collision_merges a p k1 k2 ch x z1 z2 inner : k1 <> k2 ->
  abs_keys (normalize (dn a ++ p)) = Ok inner ->
  invert true a [(k1, UD [(x, UV z1)]); (k2, UD [(ch, UD [(x, UV z2)])])]
         [(PK k1, TPath (p ++ [Dn ch])); (PK k2, TDict None [(PStar, TPath p)])]
  = Ok (usingle_top (inner ++ [ch; x]) (UM [UV z1; UV z2])).
Proof.
  intros Hne Habs. rewrite (star_path_collision_gen true _ _ _ _ _ _ _ _ _ Hne Habs).
  unfold star_mode, place_mode.
  rewrite (uupdate_in_spine (inner ++ [ch]) _ [(x, UV z1)] [(x, UM [UV z1; UV z2])]).
  - change [ch; x] with ([ch] ++ [x]). rewrite app_assoc, (usingle_top_app (inner ++ [ch]) [x]). reflexivity.
  - cbn. rewrite N.eqb_refl. cbn. rewrite ?N.eqb_refl. reflexivity.
Qed.

(* ---- the pinned code: only the glob port's value is left, the named port's update is lost ---- *)
Theorem star_path_collision_refuted_pinned a p k1 k2 ch x z1 z2 inner : k1 <> k2 ->
  abs_keys (normalize (dn a ++ p)) = Ok inner ->
  invert false a [(k1, UD [(x, UV z1)]); (k2, UD [(ch, UD [(x, UV z2)])])]
         [(PK k1, TPath (p ++ [Dn ch])); (PK k2, TDict None [(PStar, TPath p)])]
  = Ok (usingle_top (inner ++ [ch; x]) (UV z2)).
Proof.
  intros Hne Habs. rewrite (star_path_collision_gen false _ _ _ _ _ _ _ _ _ Hne Habs).
  unfold star_mode, place_mode.
  rewrite (uupdate_in_spine (inner ++ [ch]) _ [(x, UV z1)] [(x, UV z2)]).
  - change [ch; x] with ([ch] ++ [x]). rewrite app_assoc, (usingle_top_app (inner ++ [ch]) [x]). reflexivity.
  - cbn. rewrite N.eqb_refl. cbn. rewrite ?N.eqb_refl. reflexivity.
Qed.

(* so the merged statement is false for the pinned code whenever z1 is to be seen *)
Corollary star_path_collision_merges_false_pinned a p k1 k2 ch x z1 z2 inner : k1 <> k2 ->
  abs_keys (normalize (dn a ++ p)) = Ok inner ->
  invert false a [(k1, UD [(x, UV z1)]); (k2, UD [(ch, UD [(x, UV z2)])])]
         [(PK k1, TPath (p ++ [Dn ch])); (PK k2, TDict None [(PStar, TPath p)])]
  <> Ok (usingle_top (inner ++ [ch; x]) (UM [UV z1; UV z2])).
Proof.
  intros Hne Habs. rewrite (star_path_collision_refuted_pinned _ _ _ _ _ _ _ _ _ Hne Habs).
  intros H. injection H as H. apply usingle_top_inj in H; [discriminate|]. destruct inner; discriminate.
Qed.

(* the glob port wired by a plain tuple path (glob in the schema only): the port's whole dict goes through
   deep_merge_multi_update, so BOTH the pinned and the repaired code keep the two values *)
Theorem star_path_collision_tuple_port fixed a p k1 k2 ch x z1 z2 inner : k1 <> k2 ->
  abs_keys (normalize (dn a ++ p)) = Ok inner ->
  invert fixed a [(k1, UD [(x, UV z1)]); (k2, UD [(ch, UD [(x, UV z2)])])]
         [(PK k1, TPath (p ++ [Dn ch])); (PK k2, TPath p)]
  = Ok (usingle_top (inner ++ [ch; x]) (UM [UV z1; UV z2])).
Proof.
  intros Hne Habs. pose proof (abs_keys_child a p ch inner Habs) as Hc.
  unfold invert. rewrite inv_topo_dict. cbv zeta. cbv iota.
  rewrite lgo_PK. cbn [alookup]. rewrite N.eqb_refl.
  rewrite inv_topo_path, Hc. cbn [rbind].
  change (UD [(x, UV z1)]) with (usingle [x] (UV z1)) at 1. rewrite place_single.
  rewrite lgo_PK. cbn [alookup]. apply N.eqb_neq in Hne. rewrite Hne, N.eqb_refl.
  rewrite lgo_nil_match, inv_topo_path, Habs. cbn [rbind].
  rewrite <- app_assoc. cbn [app]. change [ch; x] with ([ch] ++ [x]).
  rewrite !usingle_top_app. cbn [usingle].
  unfold place, place_mode.
  rewrite (uupdate_in_spine inner _ [(ch, UD [(x, UV z1)])] [(ch, UD [(x, UM [UV z1; UV z2])])]); [reflexivity|].
  destruct fixed; cbn; rewrite !N.eqb_refl; cbn; rewrite ?N.eqb_refl; reflexivity.
Qed.

(* ---- tied to the read view: the two ports READ the same store node r, and the repaired write path delivers
   both values to r ---- *)
Lemma dn_inj (l1 : list key) : forall l2, dn l1 = dn l2 -> l1 = l2.
Proof.
  induction l1 as [|x l1 IH]; intros [|y l2] H; try discriminate; auto.
  cbn in H. injection H as -> H. f_equal. auto.
Qed.

Theorem star_path_collision_view t a c p k1 k2 ch x S1 sub v r1 r2 z1 z2 :
  let tp := [(PK k1, TPath (p ++ [Dn ch])); (PK k2, TDict None [(PStar, TPath p)])] in
  keys_ok c = true -> k1 <> k2 ->
  plook (PK k1) c = Some S1 -> pstar_schema S1 = true -> svar_path S1 [x] = true ->
  plook (PK k2) c = Some (SNode false [(PStar, sub)]) -> pstar_schema sub = true -> svar_path sub [x] = true ->
  view t a (SNode false c) tp = Ok v ->
  vget v [k1; x] = Some (VRef r1) -> vget v [k2; ch; x] = Some (VRef r2) ->
  r1 = r2 /\
  invert true a [(k1, UD [(x, UV z1)]); (k2, UD [(ch, UD [(x, UV z2)])])] tp
  = Ok (usingle_top r2 (UM [UV z1; UV z2])) /\
  invert false a [(k1, UD [(x, UV z1)]); (k2, UD [(ch, UD [(x, UV z2)])])] tp
  = Ok (usingle_top r2 (UV z2)).
Proof.
  intros tp Hk Hne Hp1 Hs1 Hv1 Hp2 Hs2 Hv2 Hv Hg1 Hg2.
  assert (Hne' : N.eqb k1 k2 = false) by now apply N.eqb_neq.
  destruct (view_node_get _ _ _ _ _ _ _ _ _ Hk Hv Hg1) as [_ [_ [s1 [b1 [y1 [Hq1 [Hw1 [Hy1 Hgy1]]]]]]]].
  destruct (view_node_get _ _ _ _ _ _ _ _ _ Hk Hv Hg2) as [_ [_ [s2 [b2 [y2 [Hq2 [Hw2 [Hy2 Hgy2]]]]]]]].
  rewrite Hp1 in Hq1. injection Hq1 as <-. rewrite Hp2 in Hq2. injection Hq2 as <-.
  unfold entry_path, entry_sub, tp in Hw1, Hy1, Hw2, Hy2. cbn [plook pkey_eqb] in Hw1, Hy1, Hw2, Hy2.
  rewrite N.eqb_refl in Hw1, Hy1. rewrite Hne', N.eqb_refl in Hw2, Hy2.
  cbn in Hw2. injection Hw2 as <-.
  destruct (view_glob_get _ _ _ _ _ _ _ _ _ Hy2 Hgy2) as [_ [_ [b3 [y3 [Hw3 [_ [Hy3 Hgy3]]]]]]].
  unfold star_path, star_sub in Hw3, Hy3. cbn [plook pkey_eqb] in Hw3, Hy3.
  pose proof (view_pstar_var _ _ _ _ _ _ Hs1 Hy1 Hgy1 Hv1) as E1.
  pose proof (view_pstar_var _ _ _ _ _ _ Hs2 Hy3 Hgy3 Hv2) as E2.
  pose proof (walk_is_lexical _ _ _ _ Hw3) as L3.
  pose proof (walk_is_lexical _ _ _ _ Hw1) as L1.
  rewrite app_assoc, normalize_snoc_Dn, L3, dn_snoc in L1. apply dn_inj in L1. subst b1.
  assert (Habs : abs_keys (normalize (dn a ++ p)) = Ok b3) by (rewrite L3; apply abs_keys_dn).
  rewrite <- app_assoc in E1, E2. cbn [app] in E1, E2.
  split; [congruence|]. subst r2. split.
  - apply star_path_collision_merges; auto.
  - apply star_path_collision_refuted_pinned; auto.
Qed.

Module StarCollisionEx.
Import StarEx.
Open Scope N_scope.

(* port 8 is wired into child 2 of node 10, port 7 is the glob over the children of node 10 *)
Definition sch2 : list (pkey * schema) :=
  [(PK 8, SNode false [(PK 6, SVar d0)]); (PK 7, SNode false [(PStar, SNode false subc)])].
Definition tp2 : list (pkey * topo) :=
  [(PK 8, TPath ([Up; Dn 10] ++ [Dn 2])); (PK 7, TDict None [(PStar, TPath [Up; Dn 10])])].

Example star_path_collision_sat :
  let t := gen_store sch2 tp2 in
  t = Nd [(10, Nd [(1, Nd [(5, Lf leaf0); (6, Lf leaf0)]); (2, Nd [(6, Lf leaf0); (5, Lf leaf0)])]); (30, Nd [])] /\
  view t [30] (SNode false sch2) tp2
  = Ok (VNode [(8, VNode [(6, VRef [10; 2; 6])]);
               (7, VNode [(1, VNode [(5, VRef [10; 1; 5]); (6, VRef [10; 1; 6])]);
                          (2, VNode [(5, VRef [10; 2; 5]); (6, VRef [10; 2; 6])])])]) /\
  invert true [30] [(8, UD [(6, UV 8%Z)]); (7, UD [(2, UD [(6, UV 9%Z)])])] tp2
  = Ok [(10, UD [(2, UD [(6, UM [UV 8%Z; UV 9%Z])])])] /\
  invert false [30] [(8, UD [(6, UV 8%Z)]); (7, UD [(2, UD [(6, UV 9%Z)])])] tp2
  = Ok [(10, UD [(2, UD [(6, UV 9%Z)])])].
Proof.
  cbv zeta. split; [vm_compute; reflexivity|]. split; [vm_compute; reflexivity|].
  pose proof (star_path_collision_view (gen_store sch2 tp2) [30] sch2 [Up; Dn 10] 8 7 2 6
                (SNode false [(PK 6, SVar d0)]) (SNode false subc)
                (VNode [(8, VNode [(6, VRef [10; 2; 6])]);
                        (7, VNode [(1, VNode [(5, VRef [10; 1; 5]); (6, VRef [10; 1; 6])]);
                                   (2, VNode [(5, VRef [10; 2; 5]); (6, VRef [10; 2; 6])])])])
                [10; 2; 6] [10; 2; 6] 8%Z 9%Z) as T.
  cbv zeta in T.
  assert (T' := T ltac:(reflexivity) ltac:(discriminate) ltac:(reflexivity) ltac:(reflexivity) ltac:(reflexivity)
                  ltac:(reflexivity) ltac:(reflexivity) ltac:(reflexivity)
                  ltac:(vm_compute; reflexivity) ltac:(reflexivity) ltac:(reflexivity)).
  destruct T' as [_ [H1 H2]]. split; [exact H1|exact H2].
Qed.

End StarCollisionEx.

Print Assumptions rw_dict_star_inv.
Print Assumptions rw_symmetry_star_gen.
Print Assumptions rw_symmetry_star.
Print Assumptions rw_symmetry_star_pinned_single.
Print Assumptions rw_symmetry_star_top.
Print Assumptions rw_symmetry_partial_from_star.
Print Assumptions rw_symmetry_star_path.
Print Assumptions rw_symmetry_star_dict.
Print Assumptions rw_symmetry_star_beside.
Print Assumptions rw_symmetry_star_inside.
Print Assumptions rw_symmetry_star_both.
Print Assumptions rw_symmetry_star_path_flat.
Print Assumptions rw_symmetry_star_dict_flat.
Print Assumptions place_mode_fork.
Print Assumptions rw_symmetry_star_two.
Print Assumptions rw_symmetry_star_two_top.
Print Assumptions rw_symmetry_star_two_vars.
Print Assumptions StarTwoEx.rw_symmetry_star_two_vars_sat.
Print Assumptions StarEx.rw_symmetry_star_path_sat.
Print Assumptions StarEx.rw_symmetry_star_beside_sat.
Print Assumptions StarEx.rw_symmetry_star_inside_sat.
Print Assumptions StarEx.rw_symmetry_star_both_sat.
Print Assumptions StarEx.rw_symmetry_star_top_sat.
Print Assumptions StarCx.star_unlisted_counterexample.
Print Assumptions StarCx.star_leaf_children_counterexample.
Print Assumptions StarCx.star_named_sibling_counterexample.
Print Assumptions StarCx.star_missing_entry_counterexample.
Print Assumptions StarTwoEx.rw_symmetry_star_two_sat.
Print Assumptions StarTwoEx.star_two_children_shared_variable.
Print Assumptions star_path_collision_merges.
Print Assumptions star_path_collision_refuted_pinned.
Print Assumptions star_path_collision_merges_false_pinned.
Print Assumptions star_path_collision_tuple_port.
Print Assumptions star_path_collision_view.
Print Assumptions StarCollisionEx.star_path_collision_sat.
