(* C10, the premise reports_coherent DISCHARGED.

   Consistent2_proofs (engine_consistent_ops, engine_consistent_history) and Fronts_engine_proofs
   (engine_reports_follow_ops, engine_front_follows_identity_ops, engine_front_history) carry, for an update of
   several operations, the premise
       reports_coherent rp     "two reports that put the same object at the same path agree on is_step()".
   With the object invariants of Fronts_engine_proofs (objs_unique: every process object sits at one process node;
   objs_below: the objects lie below the counter; the kit premises mk_child_mono / build_objs / copy_objs) the
   premise is a THEOREM about what the store reports, and more is true: within one update

       an object is reported with ONE RECORD (pinfo), at whatever paths and however often it is reported
                                                                              (apply_ops_reports_record),

   because a reported record is either the record of a node of the hierarchy the operation met (a move carries
   the records unchanged) or carries an object drawn from the counter by that very operation (change_record).

   1. obj_record; the step of one operation (change_record).
   2. the fold (ops_fold_record), apply_ops_record, apply_ops_reports_record, apply_ops_reports_coherent (and
      apply_op_reports_coherent for ONE operation, which needs no invariant at all).
   3. the premise-free corollaries: engine_consistent_ops_unique, engine_reports_follow_ops_unique,
      engine_front_follows_identity_ops_unique; histories WITHOUT the per-update coherence premise
      (engine_history_u, efront_history_u) are histories with it (engine_history_u_coherent,
      efront_history_u_coherent), hence engine_consistent_history_unique, engine_front_history_unique.
   4. the concrete kit (structc_...), histories of multi-operation updates by construction.
   5. the object invariant is NEEDED, for the coherence of the reports and for the consistency of the tables
      (reports_coherent_needs_unique). *)
From Coq Require Import List NArith ZArith Bool Lia.
From Viv Require Import Base.Assoc Base.Tree Model.Paths Model.Steps Model.Struct Model.StructC Model.Fronts
     Proofs.Struct_proofs Proofs.Consistent_proofs Proofs.MoveP_proofs Proofs.Consistent2_proofs Proofs.Fronts_proofs
     Proofs.Fronts_engine_proofs.
Import ListNotations.

(* ================= 1. an object has one record ================= *)
(* in a list of (path, record): the object determines the record (class is_step(), membership of the step list,
   flow and all) -- at whatever paths *)
Definition obj_record (l : list (list key * pinfo)) : Prop :=
  forall q pi q' pi', In (q, pi) l -> In (q', pi') l -> pi_obj pi = pi_obj pi' -> pi = pi'.

(* ... of what one update reports (process updates and step updates together) *)
Definition reports_record (rp : reports) : Prop := obj_record (r_process rp ++ r_step rp).

Lemma obj_record_coherent l : obj_record l -> news_coherent l.
Proof. intros H q pi pi' H1 H2 Ho. rewrite (H q pi q pi' H1 H2 Ho). reflexivity. Qed.

Lemma obj_record_sub l l' : (forall x, In x l' -> In x l) -> obj_record l -> obj_record l'.
Proof. intros Hsub H q pi q' pi' H1 H2. apply (H q pi q' pi' (Hsub _ H1) (Hsub _ H2)). Qed.

Lemma reports_record_coherent rp : reports_record rp -> reports_coherent rp.
Proof. apply obj_record_coherent. Qed.

(* in a hierarchy with unique objects *)
Lemma tree_obj_record t : cwf t -> objs_inj t -> obj_record (proc_nodes t []).
Proof.
  intros Hw Hinj q pi q' pi' H1 H2 Ho. pose proof (Hinj _ _ _ _ H1 H2 Ho) as He. subst q'.
  apply (nodup_fst_functional _ q pi pi' (proc_nodes_nodup t Hw []) H1 H2).
Qed.

(* the converse of upd_fit_reported: every report is one of the new nodes *)
Lemma upd_fit_reported_inv t t' rp news q pi : upd_fit t t' rp news ->
  In (q, pi) (r_process rp ++ r_step rp) -> In (q, pi) news.
Proof.
  intros (_ & _ & _ & _ & U5 & U6) Hin. apply in_app_or in Hin. destruct Hin as [Hin|Hin].
  - destruct (pi_step pi) eqn:Es.
    + apply (U6 q pi). apply in_step_adds. left. auto.
    + apply (U5 q pi Es). exact Hin.
  - apply (U6 q pi). apply in_step_adds. right. exact Hin.
Qed.

(* the coherence of the reports IS the coherence of the new nodes *)
Lemma reports_coherent_iff t t' rp news : upd_fit t t' rp news -> (reports_coherent rp <-> news_coherent news).
Proof.
  intros Hfit. split; [apply (reports_news_coherent t t' rp news Hfit)|].
  intros Hnc q pi pi' H1 H2.
  apply (Hnc q pi pi' (upd_fit_reported_inv _ _ _ _ _ _ Hfit H1) (upd_fit_reported_inv _ _ _ _ _ _ Hfit H2)).
Qed.

(* ONE OPERATION keeps "one record per object" over everything seen so far: the nodes of the hierarchy and the new
   nodes n0 of the operations before (all below the counter u), with the new nodes n1 of this one *)
Lemma change_record t t1 rp1 n0 n1 u u1 :
  node_change t t1 (r_deletions rp1) n1 -> reports_fit t rp1 n1 -> reports_src t rp1 u u1 -> (u <= u1)%N ->
  objs_below t u ->
  obj_record (proc_nodes t [] ++ n0) -> (forall q pi, In (q, pi) n0 -> (pi_obj pi < u)%N) ->
  obj_record (proc_nodes t1 [] ++ n0 ++ n1) /\ (forall q pi, In (q, pi) (n0 ++ n1) -> (pi_obj pi < u1)%N).
Proof.
  intros Hch Hrf [Hs1 Hs2] Hle Hbel Hrec Hb0.
  destruct (op_upd_fit t t1 rp1 n1 Hch Hrf) as [Hu _].
  pose proof (proj1 Hrf) as Hnn.
  assert (Hold : forall q pi, In (q, pi) (proc_nodes t [] ++ n0) -> (pi_obj pi < u)%N).
  { intros q pi Hin. apply in_app_or in Hin. destruct Hin as [Hin|Hin]; [apply (Hbel q pi Hin)|apply (Hb0 q pi Hin)]. }
  (* a new node of this operation: the record of a node it met (moved), or an object it drew from the counter *)
  assert (Hn1 : forall q pi, In (q, pi) n1 ->
            (exists q0, In (q0, pi) (proc_nodes t [] ++ n0)) \/ (In (q, pi) n1 /\ (u <= pi_obj pi < u1)%N)).
  { intros q pi Hin. destruct (Hs2 q pi (upd_fit_reported _ _ _ _ _ _ Hu Hin)) as [(q0 & d & Hq0 & _)|Hge].
    - left. exists q0. apply in_or_app. left. exact Hq0.
    - right. auto. }
  assert (Hall : forall q pi, In (q, pi) (proc_nodes t1 [] ++ n0 ++ n1) ->
            (exists q0, In (q0, pi) (proc_nodes t [] ++ n0)) \/ (In (q, pi) n1 /\ (u <= pi_obj pi < u1)%N)).
  { intros q pi Hin. apply in_app_or in Hin. destruct Hin as [Hin|Hin].
    - apply Hch in Hin. destruct Hin as [[Hin|Hin] _]; [left; exists q; apply in_or_app; left; exact Hin|apply (Hn1 q pi Hin)].
    - apply in_app_or in Hin.
      destruct Hin as [Hin|Hin]; [left; exists q; apply in_or_app; right; exact Hin|apply (Hn1 q pi Hin)]. }
  split.
  - intros q pi q' pi' H1 H2 Ho.
    destruct (Hall q pi H1) as [(a & Ha)|[Ha Hra]]; destruct (Hall q' pi' H2) as [(b & Hb)|[Hb Hrb]].
    + apply (Hrec a pi b pi' Ha Hb Ho).
    + exfalso. pose proof (Hold a pi Ha). lia.
    + exfalso. pose proof (Hold b pi' Hb). lia.
    + pose proof (Hs1 q pi q' pi' (upd_fit_reported _ _ _ _ _ _ Hu Ha) (upd_fit_reported _ _ _ _ _ _ Hu Hb) Ho) as He.
      subst q'. apply (nodup_fst_functional n1 q pi pi' Hnn Ha Hb).
  - intros q pi Hin. apply in_app_or in Hin. destruct Hin as [Hin|Hin].
    + pose proof (Hb0 q pi Hin). lia.
    + destruct (Hn1 q pi Hin) as [(a & Ha)|[_ Hr]]; [pose proof (Hold a pi Ha); lia|lia].
Qed.

(* ================= 2. the operations of the store ================= *)
Section KitC.
Variable mk_child : N -> cnode * N.
Variable D : Type.
Variable build : D -> N -> cnode * N.
Variable copy_procs : cnode -> N -> cnode * N.

(* the premises of Consistent2_proofs on the kit *)
Hypothesis mk_child_no_procs : forall u, proc_nodes (fst (mk_child u)) [] = [].
Hypothesis mk_child_cwf : forall u, cwf (fst (mk_child u)).
Hypothesis build_cwf : forall x n, cwf (fst (build x n)).
Hypothesis build_steps : forall x n p pi,
  In (p, pi) (proc_nodes (fst (build x n)) []) -> pi_in_steps pi = true -> pi_step pi = true.
Hypothesis copy_cwf : forall m n, cwf m -> cwf (fst (copy_procs m n)).
(* those of Fronts_engine_proofs: the objects are drawn from the counter *)
Hypothesis mk_child_mono : forall u, (u <= snd (mk_child u))%N.
Hypothesis build_objs : forall d u, fresh_sub (fst (build d u)) u (snd (build d u)).
Hypothesis copy_objs : forall m u, fresh_sub (fst (copy_procs m u)) u (snd (copy_procs m u)).

Notation apply_opv vr := (apply_op mk_child D build copy_procs vr).
Notation apply_opsv vr := (apply_ops mk_child D build copy_procs vr).
Notation ops_ok' := (ops_ok mk_child D build copy_procs).
Notation K5 thm :=
  (thm mk_child D build copy_procs mk_child_no_procs mk_child_cwf build_cwf build_steps copy_cwf).
Notation K8 thm :=
  (thm mk_child D build copy_procs mk_child_no_procs mk_child_cwf build_cwf build_steps copy_cwf
       mk_child_mono build_objs copy_objs).
Notation op_change' := (K5 op_change).
Notation apply_op_cwf' := (apply_op_cwf mk_child D build copy_procs mk_child_no_procs mk_child_cwf build_cwf copy_cwf).
Notation op_reports_src' :=
  (op_reports_src mk_child D build copy_procs mk_child_no_procs mk_child_cwf mk_child_mono build_objs copy_objs).

(* ---- ONE operation: no invariant is needed (no path is reported twice) ---- *)
Theorem apply_op_reports_coherent vr t here o uid t' rp uid' : cwf t -> op_ok D t here o ->
  apply_opv vr t here o uid = Ok (t', rp, uid') -> reports_coherent rp.
Proof.
  intros Hw Hok H. destruct (op_change' _ _ _ _ _ _ _ _ Hw Hok H) as (news & _ & Hrf).
  apply (single_reports_coherent t rp news Hrf).
Qed.

(* ---- one update carrying several operations ---- *)
Lemma ops_fold_record vr here l : forall t0 u0 t rp0 n0 uid t' rp uid',
  cwf t -> upd_fit t0 t rp0 n0 -> origin t0 u0 n0 -> (u0 <= uid)%N -> objs_inj t -> objs_below t uid ->
  obj_record (proc_nodes t [] ++ n0) -> (forall q pi, In (q, pi) n0 -> (pi_obj pi < uid)%N) ->
  ops_ok' vr t here l uid ->
  fold_left (fun acc o =>
               rbind acc (fun tru =>
                 let '(t', rp, uid') := tru in
                 rbind (apply_opv vr t' here o uid') (fun tru' =>
                   let '(t'', rp', uid'') := tru' in Ok (t'', rapp rp rp', uid''))))
            l (Ok (t, rp0, uid)) = Ok (t', rp, uid') ->
  cwf t' /\
  (exists news, upd_fit t0 t' rp news /\ origin t0 u0 news /\ obj_record (proc_nodes t' [] ++ news)) /\
  objs_inj t' /\ objs_below t' uid' /\ (u0 <= uid')%N.
Proof.
  induction l as [|o l IH]; intros t0 u0 t rp0 n0 uid t' rp uid' Hw Hfit Hor Hu0 Hinj Hbel Hrec Hb0 Hok H.
  - cbn in H. inversion H; subst. split; [exact Hw|]. split; [exists n0; auto|]. auto.
  - cbn [fold_left rbind] in H. destruct Hok as [Hok Hrest].
    destruct (apply_opv vr t here o uid) as [[[t1 rp1] u1]|e] eqn:Eo; cbn [rbind] in H.
    + destruct (op_change' _ _ _ _ _ _ _ _ Hw Hok Eo) as (n1 & Hch & Hrf).
      destruct (op_reports_src' _ _ _ _ _ _ _ _ Hw Hinj Hok Eo) as [Hsrc Hle].
      destruct (change_objs t t1 rp1 n1 uid u1 Hch Hrf Hsrc Hle Hinj Hbel) as [Hinj1 Hbel1].
      destruct (change_record t t1 rp1 n0 n1 uid u1 Hch Hrf Hsrc Hle Hbel Hrec Hb0) as [Hrec1 Hb1].
      assert (Hor1 : origin t0 u0 (n0 ++ n1)).
      { intros q pi Hin. apply in_app_or in Hin. destruct Hin as [Hin|Hin]; [apply (Hor q pi Hin)|].
        destruct (op_origin t t1 rp1 n1 uid u1 Hch Hrf Hsrc q pi Hin) as [(q0 & Hq0)|Hge]; [|right; lia].
        destruct Hfit as (U1 & _). destruct (U1 q0 pi Hq0) as [[Hin0 _]|Hn0].
        - left. exists q0. exact Hin0.
        - apply (Hor q0 pi Hn0). }
      assert (Hu1 : (u0 <= u1)%N) by lia.
      apply (IH t0 u0 t1 (rapp rp0 rp1) (n0 ++ n1) u1 t' rp uid'
                (apply_op_cwf' _ _ _ _ _ _ _ _ Hw Hok Eo) (upd_fit_step _ _ _ _ _ _ _ Hfit Hch Hrf)
                Hor1 Hu1 Hinj1 Hbel1 Hrec1 Hb1 (Hrest t1 rp1 u1 eq_refl) H).
    + rewrite fold_err in H by reflexivity. discriminate H.
Qed.

(* what one update of any shape did: apply_ops_objs, and one record per object over the final hierarchy and
   every node the update put somewhere *)
Theorem apply_ops_record vr t here ops uid t' rp uid' : cwf t -> objs_unique t -> objs_below t uid ->
  ops_ok' vr t here (order_ops D ops) uid ->
  apply_opsv vr t here ops uid = Ok (t', rp, uid') ->
  cwf t' /\
  (exists news, upd_fit t t' rp news /\ origin t uid news /\ obj_record (proc_nodes t' [] ++ news)) /\
  objs_unique t' /\ objs_below t' uid' /\ (uid <= uid')%N.
Proof.
  intros Hw Hun Hbel Hok H. unfold apply_ops in H. pose proof (objs_unique_inj t Hun) as Hinj.
  assert (Hrec0 : obj_record (proc_nodes t [] ++ [])) by (rewrite app_nil_r; apply (tree_obj_record t Hw Hinj)).
  destruct (ops_fold_record vr here _ t uid t no_reports [] uid t' rp uid' Hw (upd_fit_refl t)
              (fun q pi (Hin : In (q, pi) []) => match Hin with end) (N.le_refl uid) Hinj Hbel Hrec0
              (fun q pi (Hin : In (q, pi) []) => match Hin with end) Hok H)
    as (Hw' & Hex & Hinj' & Hbel' & Hle).
  split; [exact Hw'|]. split; [exact Hex|]. split; [apply (objs_inj_unique t' Hw' Hinj')|]. auto.
Qed.

(* ITEM 1.  Whatever the number of operations of the update: an object is reported with one record ... *)
Theorem apply_ops_reports_record vr t here ops uid t' rp uid' : cwf t -> objs_unique t -> objs_below t uid ->
  ops_ok' vr t here (order_ops D ops) uid ->
  apply_opsv vr t here ops uid = Ok (t', rp, uid') -> reports_record rp.
Proof.
  intros Hw Hun Hbel Hok H.
  destruct (apply_ops_record _ _ _ _ _ _ _ _ Hw Hun Hbel Hok H) as (_ & (news & Hfit & _ & Hrec) & _).
  apply (obj_record_sub (proc_nodes t' [] ++ news)); [|exact Hrec].
  intros [q pi] Hin. apply in_or_app. right. apply (upd_fit_reported_inv _ _ _ _ _ _ Hfit Hin).
Qed.

(* ... hence THE PREMISE of engine_consistent_ops / engine_reports_follow_ops / engine_history / efront_history *)
Theorem apply_ops_reports_coherent vr t here ops uid t' rp uid' : cwf t -> objs_unique t -> objs_below t uid ->
  ops_ok' vr t here (order_ops D ops) uid ->
  apply_opsv vr t here ops uid = Ok (t', rp, uid') -> reports_coherent rp.
Proof.
  intros Hw Hun Hbel Hok H.
  apply reports_record_coherent. apply (apply_ops_reports_record _ _ _ _ _ _ _ _ Hw Hun Hbel Hok H).
Qed.

(* ... and a reported record whose object is held by the final hierarchy is the record held there *)
Theorem apply_ops_reports_held_record vr t here ops uid t' rp uid' : cwf t -> objs_unique t -> objs_below t uid ->
  ops_ok' vr t here (order_ops D ops) uid ->
  apply_opsv vr t here ops uid = Ok (t', rp, uid') ->
  forall q pi q' pi', In (q, pi) (r_process rp ++ r_step rp) -> In (q', pi') (proc_nodes t' []) ->
    pi_obj pi = pi_obj pi' -> pi = pi'.
Proof.
  intros Hw Hun Hbel Hok H q pi q' pi' H1 H2 Ho.
  destruct (apply_ops_record _ _ _ _ _ _ _ _ Hw Hun Hbel Hok H) as (_ & (news & Hfit & _ & Hrec) & _).
  apply (Hrec q pi q' pi'); [|apply in_or_app; left; exact H2|exact Ho].
  apply in_or_app. right. apply (upd_fit_reported_inv _ _ _ _ _ _ Hfit H1).
Qed.

(* ================= 3. the theorems without the premise ================= *)
(* ITEM 2.  engine_consistent_ops without reports_coherent: the full engine step after one update of any shape
   keeps both tables equal to the process / step nodes of the hierarchy -- and keeps the object invariants *)
Theorem engine_consistent_ops_unique vr t here ops uid t' rp uid' b b' :
  cwf t -> objs_unique t -> objs_below t uid ->
  ops_ok' vr t here (order_ops D ops) uid -> consistent_procs t b -> consistent_steps t b ->
  apply_opsv vr t here ops uid = Ok (t', rp, uid') -> engine_apply b t' rp = Ok b' ->
  cwf t' /\ consistent_procs t' b' /\ consistent_steps t' b' /\
  objs_unique t' /\ objs_below t' uid' /\ (uid <= uid')%N.
Proof.
  intros Hw Hun Hbel Hok Hcp Hcs H Hb.
  pose proof (apply_ops_reports_coherent _ _ _ _ _ _ _ _ Hw Hun Hbel Hok H) as Hco.
  destruct (K5 engine_consistent_ops_any vr t here ops uid t' rp uid' b b' Hw Hok Hcp Hcs H Hco Hb)
    as (Hw' & Hcp' & Hcs').
  destruct (K8 apply_ops_objs _ _ _ _ _ _ _ _ Hw Hun Hbel Hok H) as (_ & _ & Hun' & Hbel' & Hle).
  auto 10.
Qed.

(* engine_reports_follow_ops without reports_coherent *)
Theorem engine_reports_follow_ops_unique vr t here ops uid t' rp uid' b b' :
  cwf t -> objs_unique t -> objs_below t uid ->
  ops_ok' vr t here (order_ops D ops) uid -> consistent_procs t b -> consistent_steps t b ->
  apply_opsv vr t here ops uid = Ok (t', rp, uid') -> engine_apply b t' rp = Ok b' ->
  reports_follow b (held_reports t' rp) /\ NoDup (map snd (b_procs b')) /\
  objs_unique t' /\ objs_below t' uid' /\ (uid <= uid')%N.
Proof.
  intros Hw Hun Hbel Hok Hcp Hcs H Hb.
  apply (K8 engine_reports_follow_ops vr t here ops uid t' rp uid' b b' Hw Hun Hbel Hok Hcp Hcs H
           (apply_ops_reports_coherent _ _ _ _ _ _ _ _ Hw Hun Hbel Hok H) Hb).
Qed.

(* histories of updates as the engine runs them, WITHOUT the per-update coherence premise of engine_history *)
Inductive engine_history_u (vr : variant)
  : list (list key * list (sop D)) -> cnode -> book -> N -> cnode -> book -> N -> Prop :=
| ehu_nil t b u : engine_history_u vr [] t b u t b u
| ehu_cons here ops h t b u t1 rp u1 b1 t' b' u' :
    ops_ok' vr t here (order_ops D ops) u -> apply_opsv vr t here ops u = Ok (t1, rp, u1) ->
    engine_apply b t1 rp = Ok b1 ->
    engine_history_u vr h t1 b1 u1 t' b' u' -> engine_history_u vr ((here, ops) :: h) t b u t' b' u'.

Lemma engine_history_forget vr h t b u t' b' u' :
  engine_history mk_child D build copy_procs vr h t b u t' b' u' -> engine_history_u vr h t b u t' b' u'.
Proof.
  intros Hh. induction Hh as [t b u|here ops h t b u t1 rp u1 b1 t' b' u' Hok Hop _ Hb _ IH].
  - constructor.
  - apply (ehu_cons vr here ops h t b u t1 rp u1 b1 t' b' u' Hok Hop Hb IH).
Qed.

(* from a well-formed, consistent state with unique objects the premise of engine_history holds at every update *)
Theorem engine_history_u_coherent vr h t b u t' b' u' : engine_history_u vr h t b u t' b' u' ->
  cwf t -> objs_unique t -> objs_below t u -> consistent_procs t b -> consistent_steps t b ->
  engine_history mk_child D build copy_procs vr h t b u t' b' u'.
Proof.
  intros Hh. induction Hh as [t b u|here ops h t b u t1 rp u1 b1 t' b' u' Hok Hop Hb Hh IH];
    intros Hw Hun Hbel Hcp Hcs.
  - constructor.
  - destruct (engine_consistent_ops_unique _ _ _ _ _ _ _ _ _ _ Hw Hun Hbel Hok Hcp Hcs Hop Hb)
      as (Hw1 & Hcp1 & Hcs1 & Hun1 & Hbel1 & _).
    apply (ehistory_cons mk_child D build copy_procs vr here ops h t b u t1 rp u1 b1 t' b' u' Hok Hop
             (apply_ops_reports_coherent _ _ _ _ _ _ _ _ Hw Hun Hbel Hok Hop) Hb (IH Hw1 Hun1 Hbel1 Hcp1 Hcs1)).
Qed.

(* engine_consistent_history without reports_coherent: along any history of updates (each of any number of
   operations, each operation meeting op_ok in the state it is applied to) the two tables follow the hierarchy, and
   the object invariants are kept *)
Theorem engine_consistent_history_unique vr h t b u t' b' u' : engine_history_u vr h t b u t' b' u' ->
  cwf t -> objs_unique t -> objs_below t u -> consistent_procs t b -> consistent_steps t b ->
  cwf t' /\ consistent_procs t' b' /\ consistent_steps t' b' /\
  objs_unique t' /\ objs_below t' u' /\ (u <= u')%N.
Proof.
  intros Hh. induction Hh as [t b u|here ops h t b u t1 rp u1 b1 t' b' u' Hok Hop Hb Hh IH];
    intros Hw Hun Hbel Hcp Hcs.
  - split; [exact Hw|]. split; [exact Hcp|]. split; [exact Hcs|]. split; [exact Hun|]. split; [exact Hbel|lia].
  - destruct (engine_consistent_ops_unique _ _ _ _ _ _ _ _ _ _ Hw Hun Hbel Hok Hcp Hcs Hop Hb)
      as (Hw1 & Hcp1 & Hcs1 & Hun1 & Hbel1 & Hle1).
    destruct (IH Hw1 Hun1 Hbel1 Hcp1 Hcs1) as (Hw' & Hcp' & Hcs' & Hun' & Hbel' & Hle').
    split; [exact Hw'|]. split; [exact Hcp'|]. split; [exact Hcs'|]. split; [exact Hun'|]. split; [exact Hbel'|lia].
Qed.

(* ---- the schedule entries ---- *)
Section FrontU.
Variable T : Type.

(* engine_front_follows_identity_ops without reports_coherent *)
Theorem engine_front_follows_identity_ops_unique vr t here ops uid t' rp uid' b b' (fr : fronts T) :
  cwf t -> objs_unique t -> objs_below t uid -> ops_ok' vr t here (order_ops D ops) uid ->
  consistent_procs t b -> consistent_steps t b -> wf_front T (b_procs b) fr ->
  apply_opsv vr t here ops uid = Ok (t', rp, uid') -> engine_apply b t' rp = Ok b' ->
  wf_front T (b_procs b') (front_apply T b fr (held_reports t' rp)) /\
  (forall ob, In ob (map snd (b_procs b')) ->
     entry_of T (b_procs b') (front_apply T b fr (held_reports t' rp)) ob = entry_of T (b_procs b) fr ob) /\
  (forall ob, In ob (map snd (b_procs b')) -> ~ In ob (map snd (b_procs b)) ->
     entry_of T (b_procs b') (front_apply T b fr (held_reports t' rp)) ob = None).
Proof.
  intros Hw Hun Hbel Hok Hcp Hcs Hwf H Hb.
  apply (K8 engine_front_follows_identity_ops T vr t here ops uid t' rp uid' b b' fr Hw Hun Hbel Hok Hcp Hcs Hwf H
           (apply_ops_reports_coherent _ _ _ _ _ _ _ _ Hw Hun Hbel Hok H) Hb).
Qed.

(* efront_history without the per-update coherence premise *)
Inductive efront_history_u (vr : variant)
  : list (list key * list (sop D)) -> cnode -> book -> N -> fronts T -> list book ->
    cnode -> book -> N -> fronts T -> Prop :=
| efu_nil t b u fr : efront_history_u vr [] t b u fr [] t b u fr
| efu_cons here ops h t b u fr t1 rp u1 b1 bs t' b' u' fr' :
    ops_ok' vr t here (order_ops D ops) u -> apply_opsv vr t here ops u = Ok (t1, rp, u1) ->
    engine_apply b t1 rp = Ok b1 ->
    efront_history_u vr h t1 b1 u1 (front_apply T b fr (held_reports t1 rp)) bs t' b' u' fr' ->
    efront_history_u vr ((here, ops) :: h) t b u fr (b1 :: bs) t' b' u' fr'.

Lemma efront_history_forget vr h t b u fr bs t' b' u' fr' :
  efront_history mk_child D build copy_procs T vr h t b u fr bs t' b' u' fr' ->
  efront_history_u vr h t b u fr bs t' b' u' fr'.
Proof.
  intros Hh. induction Hh as [t b u fr|here ops h t b u fr t1 rp u1 b1 bs t' b' u' fr' Hok Hop _ Hb _ IH].
  - constructor.
  - apply (efu_cons vr here ops h t b u fr t1 rp u1 b1 bs t' b' u' fr' Hok Hop Hb IH).
Qed.

Lemma efront_history_u_engine vr h t b u fr bs t' b' u' fr' :
  efront_history_u vr h t b u fr bs t' b' u' fr' -> engine_history_u vr h t b u t' b' u'.
Proof.
  intros Hh. induction Hh as [t b u fr|here ops h t b u fr t1 rp u1 b1 bs t' b' u' fr' Hok Hop Hb _ IH].
  - constructor.
  - apply (ehu_cons vr here ops h t b u t1 rp u1 b1 t' b' u' Hok Hop Hb IH).
Qed.

Theorem efront_history_u_coherent vr h t b u fr bs t' b' u' fr' :
  efront_history_u vr h t b u fr bs t' b' u' fr' ->
  cwf t -> objs_unique t -> objs_below t u -> consistent_procs t b -> consistent_steps t b ->
  efront_history mk_child D build copy_procs T vr h t b u fr bs t' b' u' fr'.
Proof.
  intros Hh. induction Hh as [t b u fr|here ops h t b u fr t1 rp u1 b1 bs t' b' u' fr' Hok Hop Hb Hh IH];
    intros Hw Hun Hbel Hcp Hcs.
  - constructor.
  - destruct (engine_consistent_ops_unique _ _ _ _ _ _ _ _ _ _ Hw Hun Hbel Hok Hcp Hcs Hop Hb)
      as (Hw1 & Hcp1 & Hcs1 & Hun1 & Hbel1 & _).
    apply (efh_cons mk_child D build copy_procs T vr here ops h t b u fr t1 rp u1 b1 bs t' b' u' fr' Hok Hop
             (apply_ops_reports_coherent _ _ _ _ _ _ _ _ Hw Hun Hbel Hok Hop) Hb (IH Hw1 Hun1 Hbel1 Hcp1 Hcs1)).
Qed.

(* engine_front_history without reports_coherent, END TO END: along any history of updates the well-formedness of
   the engine state (hierarchy, objects, tables, schedule entries) is kept, and a process object that is registered
   after every update of the history has at the end the schedule entry it started with *)
Theorem engine_front_history_unique vr h t b u fr bs t' b' u' fr' :
  efront_history_u vr h t b u fr bs t' b' u' fr' ->
  cwf t -> objs_unique t -> objs_below t u -> consistent_procs t b -> consistent_steps t b ->
  wf_front T (b_procs b) fr ->
  (cwf t' /\ objs_unique t' /\ objs_below t' u' /\ consistent_procs t' b' /\ consistent_steps t' b' /\
   wf_front T (b_procs b') fr') /\
  forall o, (forall bi, In bi bs -> In o (map snd (b_procs bi))) ->
    entry_of T (b_procs b') fr' o = entry_of T (b_procs b) fr o.
Proof.
  intros Hh Hw Hun Hbel Hcp Hcs Hwf.
  apply (K8 engine_front_history T vr h t b u fr bs t' b' u' fr'
           (efront_history_u_coherent _ _ _ _ _ _ _ _ _ _ _ Hh Hw Hun Hbel Hcp Hcs) Hw Hun Hbel Hcp Hcs Hwf).
Qed.

End FrontU.
End KitC.

(* ================= 4. the concrete kit of Model/StructC.v ================= *)
Local Notation KC thm :=
  (thm mk_child N build copy_procs structc_mk_child_no_procs structc_mk_child_cwf structc_build_cwf structc_build_steps
       structc_copy_cwf structc_mk_child_mono structc_build_objs structc_copy_objs).

Theorem structc_apply_ops_reports_record vr t here ops uid t' rp uid' :
  cwf t -> objs_unique t -> objs_below t uid ->
  ops_ok mk_child N build copy_procs vr t here (order_ops N ops) uid ->
  kapply_ops vr t here ops uid = Ok (t', rp, uid') -> reports_record rp.
Proof. apply (KC apply_ops_reports_record). Qed.

Theorem structc_apply_ops_reports_coherent vr t here ops uid t' rp uid' :
  cwf t -> objs_unique t -> objs_below t uid ->
  ops_ok mk_child N build copy_procs vr t here (order_ops N ops) uid ->
  kapply_ops vr t here ops uid = Ok (t', rp, uid') -> reports_coherent rp.
Proof. apply (KC apply_ops_reports_coherent). Qed.

Theorem structc_engine_consistent_ops_unique vr t here ops uid t' rp uid' b b' :
  cwf t -> objs_unique t -> objs_below t uid ->
  ops_ok mk_child N build copy_procs vr t here (order_ops N ops) uid ->
  consistent_procs t b -> consistent_steps t b ->
  kapply_ops vr t here ops uid = Ok (t', rp, uid') -> kengine_apply b t' rp = Ok b' ->
  cwf t' /\ consistent_procs t' b' /\ consistent_steps t' b' /\
  objs_unique t' /\ objs_below t' uid' /\ (uid <= uid')%N.
Proof. apply (KC engine_consistent_ops_unique). Qed.

Theorem structc_engine_reports_follow_ops_unique vr t here ops uid t' rp uid' b b' :
  cwf t -> objs_unique t -> objs_below t uid ->
  ops_ok mk_child N build copy_procs vr t here (order_ops N ops) uid ->
  consistent_procs t b -> consistent_steps t b ->
  kapply_ops vr t here ops uid = Ok (t', rp, uid') -> kengine_apply b t' rp = Ok b' ->
  reports_follow b (held_reports t' rp) /\ NoDup (map snd (b_procs b')) /\
  objs_unique t' /\ objs_below t' uid' /\ (uid <= uid')%N.
Proof. apply (KC engine_reports_follow_ops_unique). Qed.

Theorem structc_engine_consistent_history_unique vr h t b u t' b' u' :
  engine_history_u mk_child N build copy_procs vr h t b u t' b' u' ->
  cwf t -> objs_unique t -> objs_below t u -> consistent_procs t b -> consistent_steps t b ->
  cwf t' /\ consistent_procs t' b' /\ consistent_steps t' b' /\
  objs_unique t' /\ objs_below t' u' /\ (u <= u')%N.
Proof. apply (KC engine_consistent_history_unique). Qed.

Theorem structc_engine_front_follows_identity_ops_unique (T : Type) vr t here ops uid t' rp uid' b b' (fr : fronts T) :
  cwf t -> objs_unique t -> objs_below t uid ->
  ops_ok mk_child N build copy_procs vr t here (order_ops N ops) uid ->
  consistent_procs t b -> consistent_steps t b -> wf_front T (b_procs b) fr ->
  kapply_ops vr t here ops uid = Ok (t', rp, uid') -> kengine_apply b t' rp = Ok b' ->
  wf_front T (b_procs b') (front_apply T b fr (held_reports t' rp)) /\
  (forall ob, In ob (map snd (b_procs b')) ->
     entry_of T (b_procs b') (front_apply T b fr (held_reports t' rp)) ob = entry_of T (b_procs b) fr ob) /\
  (forall ob, In ob (map snd (b_procs b')) -> ~ In ob (map snd (b_procs b)) ->
     entry_of T (b_procs b') (front_apply T b fr (held_reports t' rp)) ob = None).
Proof. apply (KC engine_front_follows_identity_ops_unique). Qed.

Theorem structc_engine_front_history_unique (T : Type) vr h t b u (fr : fronts T) bs t' b' u' fr' :
  efront_history_u mk_child N build copy_procs T vr h t b u fr bs t' b' u' fr' ->
  cwf t -> objs_unique t -> objs_below t u -> consistent_procs t b -> consistent_steps t b ->
  wf_front T (b_procs b) fr ->
  (cwf t' /\ objs_unique t' /\ objs_below t' u' /\ consistent_procs t' b' /\ consistent_steps t' b' /\
   wf_front T (b_procs b') fr') /\
  forall o, (forall bi, In bi bs -> In o (map snd (b_procs bi))) ->
    entry_of T (b_procs b') fr' o = entry_of T (b_procs b) fr o.
Proof. apply (KC engine_front_history_unique). Qed.

(* ---- histories by construction: ops_ok and success only, nothing about the reports is computed ---- *)
Ltac run_engine_history_u :=
  repeat (eapply ehu_cons; [solve_ops_ok|vm_compute; reflexivity|vm_compute; reflexivity|]);
  apply ehu_nil.
Ltac run_efront_history_u :=
  repeat (eapply efu_cons; [solve_ops_ok|vm_compute; reflexivity|vm_compute; reflexivity|]);
  apply efu_nil.

(* the history of engine_history_example (three updates of two, two and one operations): compartment 20 is
   generated anew and the old one moved to the other colony; 21 is deleted and generated; the moved compartment is
   divided into two inheriting daughters *)
Example engine_history_unique_example :
  exists t' b' u',
    engine_history_u mk_child N build copy_procs vfixed
      [([10%N], [OpGenerate N 20%N 1%N (Nd []); OpMove N 20%N [11%N]]);
       ([10%N], [OpDelete N 21%N; OpGenerate N 21%N 3%N (Nd [])]);
       ([11%N], [OpDivide N 20%N [(21%N, None, Nd []); (22%N, None, Nd [])] []])]
      pin_root pin_book 200%N t' b' u' /\
    cwf t' /\ consistent_procs t' b' /\ consistent_steps t' b' /\ objs_unique t' /\ objs_below t' u' /\
    map fst (b_procs b') = [[12%N]; [10%N; 20%N; kCnt]; [11%N; 21%N; kCnt]; [11%N; 22%N; kCnt]] /\
    map fst (b_steps b') = [[10%N; 20%N; kDrv]].
Proof.
  eexists. eexists. eexists.
  match goal with |- ?H /\ _ => assert (Hh : H) by run_engine_history_u end.
  split; [exact Hh|]. destruct pin_root_ok as (Hw & Hcp & Hcs). destruct pin_root_objs as [Hun Hbel].
  destruct (structc_engine_consistent_history_unique _ _ _ _ _ _ _ _ Hh Hw Hun Hbel Hcp Hcs)
    as (Hw' & Hc1 & Hc2 & Hun' & Hbel' & _).
  split; [exact Hw'|]. split; [exact Hc1|]. split; [exact Hc2|]. split; [exact Hun'|]. split; [exact Hbel'|].
  split; vm_compute; reflexivity.
Qed.

(* two updates of two operations each, with the schedule entries alongside: compartment 20 is moved to the other
   colony while a new compartment is generated under its key; then a compartment 21 is generated and deleted at
   once.  The moved object 107 ends with the entry it started with. *)
Example structc_front_history_unique_example :
  exists t' b' u' bs fr',
    let fr0 : fronts (list key) := map (fun po => (fst po, fst po)) (b_procs pin_book) in
    efront_history_u mk_child N build copy_procs (list key) vfixed
      [([10%N], [OpMove N 20%N [11%N]; OpGenerate N 20%N 0%N (Nd [])]);
       ([10%N], [OpGenerate N 21%N 0%N (Nd []); OpDelete N 21%N])]
      pin_root pin_book 200%N fr0 bs t' b' u' fr' /\
    In ([11%N; 20%N; kCnt], 107%N) (b_procs b') /\
    consistent_procs t' b' /\ consistent_steps t' b' /\ objs_unique t' /\
    entry_of (list key) (b_procs b') fr' 107%N = Some [10%N; 20%N; kCnt].
Proof.
  eexists. eexists. eexists. eexists. eexists. cbv zeta.
  match goal with |- ?A /\ _ => assert (Hh : A) by run_efront_history_u end.
  split; [exact Hh|]. split; [vm_compute; tauto|].
  destruct pin_root_ok as (Hw & Hcp & Hcs). destruct pin_root_objs as [Hun Hbel].
  assert (Hwf : wf_front (list key) (b_procs pin_book) (map (fun po => (fst po, fst po)) (b_procs pin_book))).
  { split; [vm_compute; nd_keys|]. split; [vm_compute; repeat constructor; cbn; intuition discriminate|].
    split; [vm_compute; nd_keys|]. intros p e H. vm_compute in H. vm_compute.
    destruct H as [H|[H|[]]]; inversion H; subst; auto. }
  destruct (structc_engine_front_history_unique _ _ _ _ _ _ _ _ _ _ _ _ Hh Hw Hun Hbel Hcp Hcs Hwf)
    as [(_ & Hun' & _ & Hcp' & Hcs' & _) Hent].
  split; [exact Hcp'|]. split; [exact Hcs'|]. split; [exact Hun'|].
  rewrite (Hent 107%N); [vm_compute; reflexivity|].
  intros bi Hbi. repeat (destruct Hbi as [<-|Hbi]; [vm_compute; tauto|]). destruct Hbi.
Qed.

(* the round trip of Fronts_engine_proofs (rt_ops: object 107 is reported twice by one update, at 30/30/20/... and
   back at 30/20/...): its reports are coherent by the theorem, not by computation *)
Example rt_reports_coherent_by_theorem :
  forall t' rp u', kapply_ops vfixed rt_root [30%N] rt_ops 200%N = Ok (t', rp, u') ->
    reports_record rp /\ reports_coherent rp.
Proof.
  intros t' rp u' H.
  destruct rt_premises as (_ & _ & _ & _ & Hw & Hun & Hbel & _ & _ & Hok & _).
  split; [apply (structc_apply_ops_reports_record _ _ _ _ _ _ _ _ Hw Hun Hbel Hok H)
         |apply (structc_apply_ops_reports_coherent _ _ _ _ _ _ _ _ Hw Hun Hbel Hok H)].
Qed.

(* ================= 5. the object invariant is needed ================= *)
(* A hierarchy the model allows but no run produces (cwf says nothing about the objects: cwf_not_objs_unique): the
   SAME object 7 recorded as a Process at 1/5/9 and as a Step at 2/1/5/9.  One update of three nested moves
       1/5 -> 3/2/1/5,   3/2 -> 4/3/2,   2/1/5 -> 3/2/1/5
   reports object 7 at the path 3/2/1/5/9 once as a process and once as a step: the reports are NOT coherent, and
   the full engine step registers 3/2/1/5/9 in the process table although the hierarchy holds a Step there (the held
   filter compares objects only).  So neither apply_ops_reports_coherent nor engine_consistent_ops_unique holds
   without objs_unique: the premise reports_coherent of Consistent2_proofs could not be dropped for free, and
   object uniqueness is what replaces it. *)
Definition nu_P7 : pinfo := {| pi_step := false; pi_in_steps := false; pi_flow := None; pi_obj := 7%N |}.
Definition nu_S7 : pinfo := {| pi_step := true; pi_in_steps := true; pi_flow := None; pi_obj := 7%N |}.
Definition nu_root : cnode :=
  CDir 0 false [(1%N, CDir 1 false [(5%N, CDir 2 false [(9%N, CProc 3 nu_P7)])]);
                (2%N, CDir 4 false [(1%N, CDir 5 false [(5%N, CDir 6 false [(9%N, CProc 7 nu_S7)])])]);
                (3%N, CDir 8 false [(2%N, CDir 10 false [])]); (4%N, CDir 9 false [])].
Definition nu_book : book :=
  {| b_procs := [([1%N; 5%N; 9%N], 7%N)]; b_steps := [([2%N; 1%N; 5%N; 9%N], 7%N)]; b_graph := empty_graph;
     pub_processes := [([1%N; 5%N; 9%N], 7%N)]; pub_steps := [([2%N; 1%N; 5%N; 9%N], 7%N)];
     pub_topology := [[1%N; 5%N; 9%N]; [2%N; 1%N; 5%N; 9%N]]; pub_flow := [] |}.
Definition nu_ops : list (sop N) :=
  [OpMoveP N [1%N; 5%N] [3%N; 2%N]; OpMoveP N [3%N; 2%N] [4%N]; OpMoveP N [2%N; 1%N; 5%N] [3%N]].

Theorem reports_coherent_needs_unique :
  exists t' rp u' b',
    cwf nu_root /\ objs_below nu_root 100 /\ ~ objs_unique nu_root /\
    consistent_procs nu_root nu_book /\ consistent_steps nu_root nu_book /\
    ops_ok mk_child N build copy_procs vfixed nu_root [] (order_ops N nu_ops) 100%N /\
    kapply_ops vfixed nu_root [] nu_ops 100%N = Ok (t', rp, u') /\
    In ([3%N; 2%N; 1%N; 5%N; 9%N], nu_P7) (r_process rp) /\ In ([3%N; 2%N; 1%N; 5%N; 9%N], nu_S7) (r_step rp) /\
    ~ reports_coherent rp /\
    kengine_apply nu_book t' rp = Ok b' /\
    In ([3%N; 2%N; 1%N; 5%N; 9%N], 7%N) (b_procs b') /\ ~ In ([3%N; 2%N; 1%N; 5%N; 9%N], 7%N) (proc_paths t') /\
    ~ consistent_procs t' b'.
Proof.
  eexists. eexists. eexists. eexists.
  split; [unfold nu_root; wf_tree|].
  split.
  { intros q pi Hin. vm_compute in Hin.
    repeat (destruct Hin as [Hin|Hin]; [inversion Hin; subst; reflexivity|]). destruct Hin. }
  split; [intros H; vm_compute in H; inversion H as [|? ? Hn _]; apply Hn; left; reflexivity|].
  split; [split; [intros x; vm_compute; tauto|vm_compute; nd_keys]|].
  split; [split; [intros x; vm_compute; tauto|vm_compute; nd_keys]|].
  split; [solve_ops_ok|].
  split; [vm_compute; reflexivity|].
  split; [vm_compute; tauto|]. split; [vm_compute; tauto|].
  split.
  { intros Hco.
    assert (Hx : pi_step nu_P7 = pi_step nu_S7).
    { apply (Hco [3%N; 2%N; 1%N; 5%N; 9%N] nu_P7 nu_S7); [vm_compute; tauto|vm_compute; tauto|reflexivity]. }
    discriminate Hx. }
  split; [vm_compute; reflexivity|].
  split; [vm_compute; tauto|].
  assert (Hn : ~ In ([3%N; 2%N; 1%N; 5%N; 9%N], 7%N)
                 (proc_paths
                    (CDir 0 false
                       [(1%N, CDir 1 false []); (2%N, CDir 4 false [(1%N, CDir 5 false [])]);
                        (3%N, CDir 8 false [(2%N, CDir 102 false [(1%N, CDir 103 false [(5%N, CDir 6 false [(9%N, CProc 7 nu_S7)])])])]);
                        (4%N, CDir 9 false [(3%N, CDir 101 false [(2%N, CDir 10 false [(1%N, CDir 100 false
                           [(5%N, CDir 2 false [(9%N, CProc 3 nu_P7)])])])])])]))).
  { vm_compute. intros [H|[]]. discriminate H. }
  split; [exact Hn|].
  intros [Hss _]. apply Hn. apply Hss. vm_compute. tauto.
Qed.

Print Assumptions obj_record_coherent.
Print Assumptions tree_obj_record.
Print Assumptions upd_fit_reported_inv.
Print Assumptions reports_coherent_iff.
Print Assumptions change_record.
Print Assumptions apply_op_reports_coherent.
Print Assumptions apply_ops_record.
Print Assumptions apply_ops_reports_record.
Print Assumptions apply_ops_reports_coherent.
Print Assumptions apply_ops_reports_held_record.
Print Assumptions engine_consistent_ops_unique.
Print Assumptions engine_reports_follow_ops_unique.
Print Assumptions engine_history_forget.
Print Assumptions engine_history_u_coherent.
Print Assumptions engine_consistent_history_unique.
Print Assumptions engine_front_follows_identity_ops_unique.
Print Assumptions efront_history_forget.
Print Assumptions efront_history_u_engine.
Print Assumptions efront_history_u_coherent.
Print Assumptions engine_front_history_unique.
Print Assumptions structc_apply_ops_reports_record.
Print Assumptions structc_apply_ops_reports_coherent.
Print Assumptions structc_engine_consistent_ops_unique.
Print Assumptions structc_engine_reports_follow_ops_unique.
Print Assumptions structc_engine_consistent_history_unique.
Print Assumptions structc_engine_front_follows_identity_ops_unique.
Print Assumptions structc_engine_front_history_unique.
Print Assumptions engine_history_unique_example.
Print Assumptions structc_front_history_unique_example.
Print Assumptions rt_reports_coherent_by_theorem.
Print Assumptions reports_coherent_needs_unique.
