(* Proofs about Model/Struct.v (C09, C10). *)
From Coq Require Import List NArith ZArith Bool Lia Sorting.Permutation.
From Viv Require Import Base.Assoc Base.Tree Model.Paths Model.Steps Model.Struct.
Import ListNotations.

(* identity and content of a node: its uid, and its value when it is a variable *)
Definition csig (n : cnode) : N * option Z :=
  (cuid n, match n with CVar _ v _ => Some v | _ => None end).

Definition sig_at (t : cnode) (p : list key) : option (N * option Z) := option_map csig (cget t p).

(* keys are unique at every directory *)
Inductive cwf : cnode -> Prop :=
| cwf_var u v d : cwf (CVar u v d)
| cwf_proc u pi : cwf (CProc u pi)
| cwf_dir u g c : NoDup (akeys c) -> Forall (fun kv => cwf (snd kv)) c -> cwf (CDir u g c).

(* all uids of a tree *)
Fixpoint cuids (t : cnode) : list N :=
  cuid t :: match t with
            | CDir _ _ c => (fix go (c : list (key * cnode)) : list N :=
                               match c with [] => [] | (_, x) :: r => cuids x ++ go r end) c
            | _ => []
            end.

Section Kit.
Variable mk_child : N -> cnode * N.
Variable D : Type.
Variable build : D -> N -> cnode * N.
Variable copy_procs : cnode -> N -> cnode * N.

(* the subtrees named by an operation issued at the directory `here` *)
Definition named (here : list key) (o : sop D) : list (list key) :=
  match o with
  | OpAdd _ k _ => [here ++ [k]]
  | OpMove _ src tgt => [here ++ [src]; tgt ++ [src]]
  (* a nested source: the source subtree, and everything at or below the first key of the source under the
     target (the established intermediate directories and the attached node); the target node itself exists
     (movep_target_exists), so nothing is created above that key *)
  | OpMoveP _ src tgt => [here ++ src; tgt ++ firstn 1 src]
  | OpGenerate _ k _ _ => [here ++ [k]]
  | OpDivide _ m ds _ => (here ++ [m]) :: map (fun d => here ++ [fst (fst d)]) ds
  | OpDelete _ k => [here ++ [k]]
  | OpDeletePath _ p => [here ++ p]
  (* a plain value update of the child k: only the subtree of that child *)
  | OpUpd _ k _ => [here ++ [k]]
  end.

Definition outside (p : list key) (names : list (list key)) : Prop :=
  forall nm, In nm names -> starts_with p nm = false.

Notation apply_opv vr := (apply_op mk_child D build copy_procs vr).
Notation apply_opsv vr := (apply_ops mk_child D build copy_procs vr).

(* non-step process nodes / step nodes of the hierarchy, by path *)
Definition proc_paths (t : cnode) : list (list key * N) :=
  flat_map (fun pp => if pi_step (snd pp) then [] else [(fst pp, pi_obj (snd pp))]) (proc_nodes t []).
Definition step_paths (t : cnode) : list (list key * N) :=
  flat_map (fun pp => if pi_step (snd pp) then [(fst pp, pi_obj (snd pp))] else []) (proc_nodes t []).

(* the engine runs exactly what is in the hierarchy *)
Definition same_set {A} (a b : list A) : Prop := forall x, In x a <-> In x b.
Definition consistent_procs (t : cnode) (b : book) : Prop :=
  same_set (b_procs b) (proc_paths t) /\ NoDup (map fst (b_procs b)).
Definition consistent_steps (t : cnode) (b : book) : Prop :=
  same_set (b_steps b) (step_paths t) /\ NoDup (map fst (b_steps b)).


(* ================= generic helpers ================= *)
Lemma sw_nil p : starts_with p [] = true.
Proof. destruct p; reflexivity. Qed.
Lemma sw_nil_cons x pre : starts_with [] (x :: pre) = false.
Proof. reflexivity. Qed.
Lemma sw_cons y p x pre : starts_with (y :: p) (x :: pre) = N.eqb x y && starts_with p pre.
Proof. reflexivity. Qed.

Lemma cget_nil t : cget t [] = Some t.
Proof. reflexivity. Qed.
Lemma cget_cons u g c k r :
  cget (CDir u g c) (k :: r) = match alookup k c with Some ch => cget ch r | None => None end.
Proof. reflexivity. Qed.
Lemma sig_at_nil t : sig_at t [] = Some (csig t).
Proof. reflexivity. Qed.
Lemma sig_at_cons u g c k r :
  sig_at (CDir u g c) (k :: r) = match alookup k c with Some ch => sig_at ch r | None => None end.
Proof. unfold sig_at. rewrite cget_cons. destruct (alookup k c); reflexivity. Qed.
Lemma sig_at_None t q : sig_at t q = None -> cget t q = None.
Proof. unfold sig_at. destruct (cget t q); [discriminate|reflexivity]. Qed.
Lemma cget_None_sig t q : cget t q = None -> sig_at t q = None.
Proof. unfold sig_at. intros H. rewrite H. reflexivity. Qed.

(* the shape of a successful write *)
Lemma cset_shape t k r n t' :
  cset t (k :: r) n = Ok t' ->
  exists u g c x, t = CDir u g c /\ t' = CDir u g (aset k x c) /\
    ((r = [] /\ x = n) \/ (r <> [] /\ exists ch, alookup k c = Some ch /\ cset ch r n = Ok x)).
Proof.
  intros H. destruct t as [u v d|u pi|u g c]; try discriminate H.
  exists u, g, c. destruct r as [|k2 r2].
  - exists n. cbn in H. inversion H; subst. auto.
  - change (cset (CDir u g c) (k :: k2 :: r2) n)
      with (match alookup k c with
            | Some ch => rbind (cset ch (k2 :: r2) n) (fun ch' => Ok (CDir u g (aset k ch' c)))
            | None => Err EInvalidPath
            end) in H.
    destruct (alookup k c) as [ch|] eqn:El; [|discriminate H].
    destruct (cset ch (k2 :: r2) n) as [x|e] eqn:Ec; cbn [rbind] in H; [|discriminate H].
    exists x. inversion H; subst. split; [reflexivity|]. split; [reflexivity|].
    right. split; [discriminate|]. exists ch. auto.
Qed.

(* the shape of a successful removal *)
Lemma cdel_shape t k r t' :
  cdel t (k :: r) = Ok t' ->
  exists u g c, t = CDir u g c /\
    ((r = [] /\ t' = CDir u g (aremove k c)) \/
     (r <> [] /\ alookup k c = None /\ t' = t) \/
     (r <> [] /\ exists ch ch', alookup k c = Some ch /\ cdel ch r = Ok ch' /\ t' = CDir u g (aset k ch' c))).
Proof.
  intros H. destruct t as [u v d|u pi|u g c].
  - destruct r; discriminate H.
  - destruct r; discriminate H.
  - exists u, g, c. split; [reflexivity|]. destruct r as [|k2 r2].
    + cbn in H. inversion H; subst. auto.
    + change (cdel (CDir u g c) (k :: k2 :: r2))
        with (match alookup k c with
              | Some ch => rbind (cdel ch (k2 :: r2)) (fun ch' => Ok (CDir u g (aset k ch' c)))
              | None => Ok (CDir u g c)
              end) in H.
      right. destruct (alookup k c) as [ch|] eqn:El.
      * destruct (cdel ch (k2 :: r2)) as [x|e] eqn:Ec; cbn [rbind] in H; [|discriminate H].
        right. split; [discriminate|]. exists ch, x. inversion H; subst. auto.
      * left. inversion H; subst. split; [discriminate|]. auto.
Qed.

Lemma Forall_aset {V} (P : key * V -> Prop) k v (l : alist V) :
  (forall k', P (k', v)) -> Forall P l -> Forall P (aset k v l).
Proof.
  intros Hv Hl. induction l as [|[k0 v0] r IH]; cbn.
  - constructor; auto.
  - inversion Hl as [|? ? Hh Ht]; subst. destruct (N.eqb k0 k); constructor; auto.
Qed.

Lemma Forall_aremove {V} (P : key * V -> Prop) k (l : alist V) :
  Forall P l -> Forall P (aremove k l).
Proof.
  intros Hl. induction l as [|[k0 v0] r IH]; cbn; auto.
  inversion Hl as [|? ? Hh Ht]; subst. destruct (N.eqb k0 k); auto.
Qed.

Lemma cwf_child u g c k ch : cwf (CDir u g c) -> alookup k c = Some ch -> cwf ch.
Proof.
  intros Hw Hl. inversion Hw as [| |? ? ? Hnd Hall]; subst.
  apply alookup_In in Hl. rewrite Forall_forall in Hall. apply (Hall (k, ch) Hl).
Qed.

(* ---- tree surgery ---- *)
Lemma starts_with_refl p : starts_with p p = true.
Proof. induction p as [|x p IH]; [reflexivity|]. rewrite sw_cons, N.eqb_refl, IH. reflexivity. Qed.

Lemma starts_with_app p q : starts_with (p ++ q) p = true.
Proof.
  induction p as [|x p IH]; cbn [app]; [apply sw_nil|].
  rewrite sw_cons, N.eqb_refl. exact IH.
Qed.

Lemma cget_cset_same t p n t' : p <> [] -> cset t p n = Ok t' -> cget t' p = Some n.
Proof.
  revert t t'. induction p as [|k r IH]; intros t t' Hne H; [congruence|].
  apply cset_shape in H. destruct H as (u & g & c & x & -> & -> & Hc).
  rewrite cget_cons, alookup_aset_eq.
  destruct Hc as [[-> ->]|[Hr (ch & Hl & Hs)]]; [reflexivity|].
  apply (IH ch x Hr Hs).
Qed.

(* writing at p changes no node signature outside p (ancestors keep their uid) *)
Lemma cset_frame t p n t' q : cset t p n = Ok t' -> starts_with q p = false -> sig_at t' q = sig_at t q.
Proof.
  revert t t' q. induction p as [|k r IH]; intros t t' q H Hs.
  - rewrite sw_nil in Hs. discriminate Hs.
  - apply cset_shape in H. destruct H as (u & g & c & x & -> & -> & Hc).
    destruct q as [|k' q']; [reflexivity|].
    rewrite !sig_at_cons. rewrite sw_cons in Hs.
    destruct (N.eqb k k') eqn:E.
    + apply N.eqb_eq in E. subst k'. cbn [andb] in Hs. rewrite alookup_aset_eq.
      destruct Hc as [[-> ->]|[Hr (ch & Hl & Hset)]].
      * rewrite sw_nil in Hs. discriminate Hs.
      * rewrite Hl. apply (IH ch x q' Hset Hs).
    + apply N.eqb_neq in E. rewrite (alookup_aset_neq k k' x c E). reflexivity.
Qed.

Lemma cdel_gone t p t' : cwf t -> p <> [] -> cdel t p = Ok t' -> cget t' p = None.
Proof.
  revert t t'. induction p as [|k r IH]; intros t t' Hw Hne H; [congruence|].
  apply cdel_shape in H. destruct H as (u & g & c & -> & Hc).
  destruct Hc as [[-> ->]|[(Hr & Hl & ->)|(Hr & ch & ch' & Hl & Hd & ->)]].
  - rewrite cget_cons. inversion Hw as [| |? ? ? Hnd Hall]; subst.
    rewrite (alookup_aremove_eq k c Hnd). reflexivity.
  - rewrite cget_cons, Hl. reflexivity.
  - rewrite cget_cons, alookup_aset_eq. apply (IH ch ch'); auto. apply (cwf_child u g c k ch Hw Hl).
Qed.

Lemma cdel_frame t p t' q : cdel t p = Ok t' -> starts_with q p = false -> sig_at t' q = sig_at t q.
Proof.
  revert t t' q. induction p as [|k r IH]; intros t t' q H Hs.
  - rewrite sw_nil in Hs. discriminate Hs.
  - apply cdel_shape in H. destruct H as (u & g & c & -> & Hc).
    destruct q as [|k' q'].
    { destruct Hc as [[_ ->]|[(_ & _ & ->)|(_ & ch & ch' & _ & _ & ->)]]; reflexivity. }
    rewrite sw_cons in Hs.
    destruct Hc as [[-> ->]|[(Hr & Hl & ->)|(Hr & ch & ch' & Hl & Hd & ->)]]; [| reflexivity |].
    + rewrite sw_nil, andb_true_r in Hs. apply N.eqb_neq in Hs.
      rewrite !sig_at_cons, (alookup_aremove_neq k k' c Hs). reflexivity.
    + rewrite !sig_at_cons. destruct (N.eqb k k') eqn:E.
      * apply N.eqb_eq in E. subst k'. cbn [andb] in Hs. rewrite alookup_aset_eq, Hl.
        apply (IH ch ch' q' Hd Hs).
      * apply N.eqb_neq in E. rewrite (alookup_aset_neq k k' ch' c E). reflexivity.
Qed.

Lemma cset_cwf t p n t' : cwf t -> cwf n -> cset t p n = Ok t' -> cwf t'.
Proof.
  revert t t'. induction p as [|k r IH]; intros t t' Hw Hn H.
  - cbn in H. inversion H; subst. exact Hn.
  - apply cset_shape in H. destruct H as (u & g & c & x & -> & -> & Hc).
    assert (Hx : cwf x).
    { destruct Hc as [[_ ->]|[Hr (ch & Hl & Hs)]]; [exact Hn|].
      apply (IH ch x (cwf_child u g c k ch Hw Hl) Hn Hs). }
    inversion Hw as [| |? ? ? Hnd Hall]; subst. constructor.
    + apply aset_nodup. exact Hnd.
    + apply Forall_aset; auto.
Qed.

Lemma cdel_cwf t p t' : cwf t -> cdel t p = Ok t' -> cwf t'.
Proof.
  revert t t'. induction p as [|k r IH]; intros t t' Hw H; [discriminate H|].
  apply cdel_shape in H. destruct H as (u & g & c & -> & Hc).
  destruct Hc as [[-> ->]|[(Hr & Hl & ->)|(Hr & ch & ch' & Hl & Hd & ->)]]; [| exact Hw |].
  - inversion Hw as [| |? ? ? Hnd Hall]; subst. constructor.
    + apply aremove_nodup. exact Hnd.
    + apply Forall_aremove. exact Hall.
  - assert (Hx : cwf ch') by apply (IH ch ch' (cwf_child u g c k ch Hw Hl) Hd).
    inversion Hw as [| |? ? ? Hnd Hall]; subst. constructor.
    + apply aset_nodup. exact Hnd.
    + apply Forall_aset; auto.
Qed.

(* ---- prefixes ---- *)
Lemma sw_app_l pre a b : starts_with (pre ++ a) (pre ++ b) = starts_with a b.
Proof.
  induction pre as [|x pre IH]; cbn [app]; [reflexivity|].
  rewrite sw_cons, N.eqb_refl. exact IH.
Qed.

Lemma sw_true_iff p : forall q, starts_with q p = true <-> exists r, q = p ++ r.
Proof.
  induction p as [|x p IH]; intros q.
  - rewrite sw_nil. split; [intros _; exists q; reflexivity|reflexivity].
  - destruct q as [|y q].
    + rewrite sw_nil_cons. split; [discriminate|]. intros (r & Hr). discriminate Hr.
    + rewrite sw_cons, andb_true_iff, N.eqb_eq, IH. split.
      * intros [-> (r & ->)]. exists r. reflexivity.
      * intros (r & Hr). cbn [app] in Hr. inversion Hr; subst. split; [reflexivity|]. exists r. reflexivity.
Qed.

(* a prefix of an extension of a: comparable with a *)
Lemma sw_ext a : forall r b, starts_with (a ++ r) b = true -> starts_with a b = true \/ starts_with b a = true.
Proof.
  induction a as [|x a IH]; intros r b H.
  - right. apply sw_nil.
  - destruct b as [|y b]; [left; apply sw_nil|].
    cbn [app] in H. rewrite sw_cons in H. apply andb_true_iff in H. destruct H as [Hxy H].
    rewrite !sw_cons. rewrite Hxy. apply N.eqb_eq in Hxy. subst y. rewrite N.eqb_refl. cbn [andb].
    apply (IH r b H).
Qed.

Lemma sw_prefix_true q a b : starts_with q (a ++ b) = true -> starts_with q a = true.
Proof.
  rewrite !sw_true_iff. intros (r & ->). exists (b ++ r). rewrite app_assoc. reflexivity.
Qed.

Lemma sw_prefix_false q a b : starts_with q a = false -> starts_with q (a ++ b) = false.
Proof.
  intros H. destruct (starts_with q (a ++ b)) eqn:E; [|reflexivity].
  apply sw_prefix_true in E. congruence.
Qed.

Lemma cget_app t p : forall r, cget t (p ++ r) = match cget t p with Some x => cget x r | None => None end.
Proof.
  revert t. induction p as [|k p IH]; intros t r; [reflexivity|].
  cbn [app]. destruct t as [u v d|u pi|u g c]; try reflexivity.
  rewrite !cget_cons. destruct (alookup k c) as [ch|]; [apply IH|reflexivity].
Qed.

Lemma cwf_cget t p : forall x, cwf t -> cget t p = Some x -> cwf x.
Proof.
  revert t. induction p as [|k p IH]; intros t x Hw H.
  - cbn in H. inversion H; subst. exact Hw.
  - destruct t as [u v d|u pi|u g c]; try discriminate H.
    rewrite cget_cons in H. destruct (alookup k c) as [ch|] eqn:El; [|discriminate H].
    apply (IH ch x (cwf_child u g c k ch Hw El) H).
Qed.

(* removing at p leaves every subtree at a path incomparable with p as it is *)
Lemma cdel_cget_other t p t' q :
  cdel t p = Ok t' -> starts_with q p = false -> starts_with p q = false -> cget t' q = cget t q.
Proof.
  revert t t' q. induction p as [|k r IH]; intros t t' q H Hs1 Hs2.
  - rewrite sw_nil in Hs1. discriminate Hs1.
  - apply cdel_shape in H. destruct H as (u & g & c & -> & Hc).
    destruct q as [|k' q']; [rewrite sw_nil in Hs2; discriminate Hs2|].
    rewrite sw_cons in Hs1, Hs2.
    destruct Hc as [[-> ->]|[(Hr & Hl & ->)|(Hr & ch & ch' & Hl & Hd & ->)]]; [| reflexivity |].
    + rewrite sw_nil, andb_true_r in Hs1. apply N.eqb_neq in Hs1.
      rewrite !cget_cons, (alookup_aremove_neq k k' c Hs1). reflexivity.
    + rewrite !cget_cons. destruct (N.eqb k k') eqn:E.
      * apply N.eqb_eq in E. subst k'. rewrite N.eqb_refl in Hs2. cbn [andb] in Hs1, Hs2.
        rewrite alookup_aset_eq, Hl. apply (IH ch ch' q' Hd Hs1 Hs2).
      * apply N.eqb_neq in E. rewrite (alookup_aset_neq k k' ch' c E). reflexivity.
Qed.

(* ---- Store._establish_path ---- *)
Lemma cestablish_shape t k r uid t' uid' :
  cestablish t (k :: r) uid = Ok (t', uid') ->
  exists u g c x, t = CDir u g c /\ t' = CDir u g (aset k x c) /\
    ((exists ch, alookup k c = Some ch /\ cestablish ch r uid = Ok (x, uid')) \/
     (alookup k c = None /\ cestablish (CDir uid false []) r (N.succ uid) = Ok (x, uid'))).
Proof.
  intros H. destruct t as [u v d|u pi|u g c]; try discriminate H.
  exists u, g, c.
  change (cestablish (CDir u g c) (k :: r) uid)
    with (match alookup k c with
          | Some ch => rbind (cestablish ch r uid) (fun x => Ok (CDir u g (aset k (fst x) c), snd x))
          | None => rbind (cestablish (CDir uid false []) r (N.succ uid))
                          (fun x => Ok (CDir u g (aset k (fst x) c), snd x))
          end) in H.
  destruct (alookup k c) as [ch|] eqn:El.
  - destruct (cestablish ch r uid) as [[x u1]|e] eqn:Ec; cbn [rbind fst snd] in H; [|discriminate H].
    inversion H; subst. exists x. split; [reflexivity|]. split; [reflexivity|]. left. exists ch. auto.
  - destruct (cestablish (CDir uid false []) r (N.succ uid)) as [[x u1]|e] eqn:Ec;
      cbn [rbind fst snd] in H; [|discriminate H].
    inversion H; subst. exists x. split; [reflexivity|]. split; [reflexivity|]. right. auto.
Qed.

(* the walk only looks at the nodes ON the path: the subtree at any q that is not a prefix of p is as it was *)
Lemma cestablish_cget_off p : forall t uid t' uid' q,
  cestablish t p uid = Ok (t', uid') -> starts_with p q = false -> cget t' q = cget t q.
Proof.
  induction p as [|k r IH]; intros t uid t' uid' q H Hs.
  - cbn in H. inversion H; subst. reflexivity.
  - apply cestablish_shape in H. destruct H as (u & g & c & x & -> & -> & Hc).
    destruct q as [|k' q']; [rewrite sw_nil in Hs; discriminate Hs|].
    rewrite sw_cons in Hs. rewrite !cget_cons.
    destruct (N.eqb k' k) eqn:E.
    + apply N.eqb_eq in E. subst k'. cbn [andb] in Hs. rewrite alookup_aset_eq.
      destruct Hc as [(ch & Hl & He)|(Hl & He)]; rewrite Hl.
      * apply (IH _ _ _ _ _ He Hs).
      * rewrite (IH _ _ _ _ _ He Hs). destruct q'; [rewrite sw_nil in Hs; discriminate Hs|]. reflexivity.
    + apply N.eqb_neq in E. rewrite alookup_aset_neq by congruence. reflexivity.
Qed.

(* it only adds nodes: every node of t keeps its place, its uid and its value *)
Lemma cestablish_sig_keep p : forall t uid t' uid' q,
  cestablish t p uid = Ok (t', uid') -> cget t q <> None -> sig_at t' q = sig_at t q.
Proof.
  induction p as [|k r IH]; intros t uid t' uid' q H Hne.
  - cbn in H. inversion H; subst. reflexivity.
  - apply cestablish_shape in H. destruct H as (u & g & c & x & -> & -> & Hc).
    destruct q as [|k' q']; [reflexivity|].
    rewrite !sig_at_cons. rewrite cget_cons in Hne.
    destruct (N.eqb k' k) eqn:E.
    + apply N.eqb_eq in E. subst k'. rewrite alookup_aset_eq.
      destruct Hc as [(ch & Hl & He)|(Hl & He)]; rewrite Hl in Hne |- *.
      * apply (IH _ _ _ _ _ He Hne).
      * congruence.
    + apply N.eqb_neq in E. rewrite alookup_aset_neq by congruence. reflexivity.
Qed.

Theorem cestablish_keeps p t uid t' uid' q s :
  cestablish t p uid = Ok (t', uid') -> sig_at t q = Some s -> sig_at t' q = Some s.
Proof.
  intros H Hs. rewrite (cestablish_sig_keep p t uid t' uid' q H); [exact Hs|].
  intros Hn. apply cget_None_sig in Hn. congruence.
Qed.

(* outside the path, or at a node that exists: identity and value are kept *)
Lemma cestablish_frame p t uid t' uid' q :
  cestablish t p uid = Ok (t', uid') -> cget t q <> None \/ starts_with p q = false ->
  sig_at t' q = sig_at t q.
Proof.
  intros H [Hne|Hs]; [apply (cestablish_sig_keep p t uid t' uid' q H Hne)|].
  unfold sig_at. rewrite (cestablish_cget_off p t uid t' uid' q H Hs). reflexivity.
Qed.

Lemma cestablish_mono p : forall t uid t' uid', cestablish t p uid = Ok (t', uid') -> (uid <= uid')%N.
Proof.
  induction p as [|k r IH]; intros t uid t' uid' H.
  - cbn in H. inversion H; subst. lia.
  - apply cestablish_shape in H. destruct H as (u & g & c & x & -> & -> & Hc).
    destruct Hc as [(ch & Hl & He)|(Hl & He)]; apply IH in He; lia.
Qed.

Lemma cestablish_root p t uid t' uid' : cestablish t p uid = Ok (t', uid') -> csig t' = csig t.
Proof.
  intros H. destruct p as [|k r].
  - cbn in H. inversion H; subst. reflexivity.
  - apply cestablish_shape in H. destruct H as (u & g & c & x & -> & -> & _). reflexivity.
Qed.

(* the nodes it creates carry fresh uids: those from `uid` up to the returned counter *)
Theorem cestablish_fresh p : forall t uid t' uid' q n,
  cestablish t p uid = Ok (t', uid') -> cget t q = None -> cget t' q = Some n ->
  (uid <= cuid n < uid')%N.
Proof.
  induction p as [|k r IH]; intros t uid t' uid' q n H Hn Hs.
  - cbn in H. inversion H; subst. congruence.
  - apply cestablish_shape in H. destruct H as (u & g & c & x & -> & -> & Hc).
    destruct q as [|k' q']; [discriminate Hn|].
    rewrite cget_cons in Hn, Hs.
    destruct (N.eqb k' k) eqn:E.
    + apply N.eqb_eq in E. subst k'. rewrite alookup_aset_eq in Hs.
      destruct Hc as [(ch & Hl & He)|(Hl & He)]; rewrite Hl in Hn.
      * apply (IH _ _ _ _ _ _ He Hn Hs).
      * pose proof (cestablish_mono _ _ _ _ _ He) as Hm.
        destruct q' as [|k2 q2].
        -- cbn in Hs. inversion Hs; subst n.
           pose proof (cestablish_root _ _ _ _ _ He) as Hr. apply (f_equal fst) in Hr.
           cbn [csig fst cuid] in Hr. rewrite Hr. lia.
        -- assert (Hn2 : cget (CDir uid false []) (k2 :: q2) = None) by reflexivity.
           pose proof (IH _ _ _ _ _ _ He Hn2 Hs) as Hf. lia.
    + apply N.eqb_neq in E. rewrite alookup_aset_neq in Hs by congruence. congruence.
Qed.

(* afterwards the path exists: every proper prefix is a directory, the end node is there *)
Theorem cestablish_dirs p : forall t uid t' uid' q r,
  cestablish t p uid = Ok (t', uid') -> p = q ++ r -> r <> [] ->
  exists u g c, cget t' q = Some (CDir u g c).
Proof.
  induction p as [|k p' IH]; intros t uid t' uid' q r H Hp Hr.
  - destruct q; destruct r; try discriminate Hp. congruence.
  - apply cestablish_shape in H. destruct H as (u & g & c & x & -> & -> & Hc).
    destruct q as [|k' q'].
    + exists u, g, (aset k x c). reflexivity.
    + cbn [app] in Hp. inversion Hp; subst k' p'. rewrite cget_cons, alookup_aset_eq.
      destruct Hc as [(ch & Hl & He)|(Hl & He)]; apply (IH _ _ _ _ q' r He eq_refl Hr).
Qed.

Theorem cestablish_exists p : forall t uid t' uid',
  cestablish t p uid = Ok (t', uid') -> cget t' p <> None.
Proof.
  induction p as [|k r IH]; intros t uid t' uid' H; [discriminate|].
  apply cestablish_shape in H. destruct H as (u & g & c & x & -> & -> & Hc).
  rewrite cget_cons, alookup_aset_eq.
  destruct Hc as [(ch & Hl & He)|(Hl & He)]; apply (IH _ _ _ _ He).
Qed.

Lemma cestablish_cwf p : forall t uid t' uid', cwf t -> cestablish t p uid = Ok (t', uid') -> cwf t'.
Proof.
  induction p as [|k r IH]; intros t uid t' uid' Hw H.
  - cbn in H. inversion H; subst. exact Hw.
  - apply cestablish_shape in H. destruct H as (u & g & c & x & -> & -> & Hc).
    assert (Hx : cwf x).
    { destruct Hc as [(ch & Hl & He)|(Hl & He)].
      - apply (IH _ _ _ _ (cwf_child u g c k ch Hw Hl) He).
      - apply (IH _ _ _ _ (cwf_dir uid false [] (NoDup_nil _) (Forall_nil _)) He). }
    inversion Hw as [| |? ? ? Hnd Hall]; subst. constructor.
    + apply aset_nodup. exact Hnd.
    + apply Forall_aset; auto.
Qed.


(* ================= C09 ================= *)
Lemma fold_err {X A} (G : res A -> X -> res A) :
  (forall x e, G (Err e) x = Err e) -> forall l e, fold_left G l (Err e) = Err e.
Proof.
  intros HG l. induction l as [|x l IH]; intros e; cbn [fold_left]; [reflexivity|].
  rewrite HG. apply IH.
Qed.

(* a sequence of writes at paths satisfying P *)
Inductive cset_chain (P : list key -> Prop) : cnode -> cnode -> Prop :=
| chain_refl t : cset_chain P t t
| chain_step t p n t1 t2 : P p -> cset t p n = Ok t1 -> cset_chain P t1 t2 -> cset_chain P t t2.

Lemma cset_chain_frame P t t' q :
  cset_chain P t t' -> (forall p, P p -> starts_with q p = false) -> sig_at t' q = sig_at t q.
Proof.
  intros Hc HP. induction Hc as [t|t p n t1 t2 Hp Hs Hc IH]; [reflexivity|].
  rewrite IH. apply (cset_frame t p n t1 q Hs (HP p Hp)).
Qed.

Lemma cset_chain_weaken (P Q : list key -> Prop) t t' :
  (forall p, P p -> Q p) -> cset_chain P t t' -> cset_chain Q t t'.
Proof.
  intros HPQ Hc. induction Hc as [t|t p n t1 t2 Hp Hs Hc IH]; [constructor|].
  apply (chain_step Q t p n t1 t2 (HPQ p Hp) Hs IH).
Qed.

Lemma apply_op_dir vr t here o uid x :
  apply_opv vr t here o uid = Ok x -> exists u g c, cget t here = Some (CDir u g c).
Proof.
  unfold apply_op, dir_at. intros H.
  destruct (cget t here) as [[u v d|u pi|u g c]|]; try discriminate H.
  exists u, g, c. reflexivity.
Qed.

Ltac open_op H Hd :=
  let u := fresh "u" in let g := fresh "g" in let c := fresh "c" in
  destruct (apply_op_dir _ _ _ _ _ _ H) as (u & g & c & Hd);
  unfold apply_op, dir_at in H; rewrite Hd in H; cbn [rbind] in H.

Ltac dres H a E :=
  match type of H with
  | rbind ?X _ = _ => destruct X as [a|?] eqn:E; cbn [rbind] in H; [|discriminate H]
  | (match ?X with _ => _ end) = _ => destruct X as [a|?] eqn:E; cbn [rbind] in H; [|discriminate H]
  end.

Lemma add_inv vr t here k st uid t' rp uid' :
  apply_opv vr t here (OpAdd D k st) uid = Ok (t', rp, uid') ->
  exists nd, cset t (here ++ [k]) nd = Ok t'.
Proof.
  intros H. open_op H Hd.
  destruct (alookup k c) as [x|]; [discriminate H|].
  destruct (if g then mk_child uid else (CDir uid false [], N.succ uid)) as [ch uid1].
  dres H r Es. dres H t1 Ec. inversion H; subst. exists (fst r). exact Ec.
Qed.

Lemma delete_inv vr t here k uid t' rp uid' :
  apply_opv vr t here (OpDelete D k) uid = Ok (t', rp, uid') ->
  cdel t (here ++ [k]) = Ok t' /\ r_deletions rp = [here ++ [k]] /\ uid' = uid.
Proof.
  intros H. open_op H Hd. dres H t1 Ec. inversion H; subst. auto.
Qed.

Lemma deletepath_inv vr t here p uid t' rp uid' :
  apply_opv vr t here (OpDeletePath D p) uid = Ok (t', rp, uid') ->
  (cdel t (here ++ p) = Ok t' \/ t' = t) /\ uid' = uid.
Proof.
  intros H. open_op H Hd. destruct (v_fix_delete_path vr).
  - dres H t1 Ec. inversion H; subst. auto.
  - inversion H; subst. auto.
Qed.

(* a plain value update of a child: nothing happens when the key is no child; otherwise the child is replaced
   by `cadd` of it; nothing is reported and no uid is consumed *)
Lemma upd_inv vr t here k v uid t' rp uid' :
  apply_opv vr t here (OpUpd D k v) uid = Ok (t', rp, uid') ->
  exists u g c, cget t here = Some (CDir u g c) /\
    ((alookup k c = None /\ t' = t) \/
     (exists ch ch', alookup k c = Some ch /\ cadd (S (tdepth v)) ch v = Ok ch' /\
                     cset t (here ++ [k]) ch' = Ok t')) /\
    uid' = uid /\
    rp = {| r_topology := []; r_process := []; r_step := []; r_flow := [];
            r_deletions := []; r_expire := false |}.
Proof.
  intros H. open_op H Hd. exists u, g, c. split; [exact Hd|].
  destruct (alookup k c) as [ch|] eqn:El.
  - dres H ch' Ea. dres H t1 Ec. inversion H; subst.
    split; [right; exists ch, ch'; auto|]. auto.
  - inversion H; subst. split; [left; auto|]. auto.
Qed.

Lemma generate_inv vr t here k d init uid t' rp uid' :
  apply_opv vr t here (OpGenerate D k d init) uid = Ok (t', rp, uid') ->
  exists r, set_value mk_child (S (tdepth init)) (fst (build d uid)) init (snd (build d uid)) = Ok r
            /\ cset t (here ++ [k]) (fst r) = Ok t' /\ uid' = snd r.
Proof.
  intros H. open_op H Hd. destruct (build d uid) as [sub uid1]. cbn [fst snd].
  dres H r Es. dres H t1 Ec. inversion H; subst. exists r. auto.
Qed.

Lemma move_inv vr t here src tgt uid t' rp uid' :
  apply_opv vr t here (OpMove D src tgt) uid = Ok (t', rp, uid') ->
  exists u g c node t1, cget t here = Some (CDir u g c) /\ alookup src c = Some node /\
    cget t (tgt ++ [src]) = None /\ cdel t (here ++ [src]) = Ok t1 /\
    cset t1 (tgt ++ [src]) node = Ok t' /\ uid' = uid /\ r_deletions rp = [here ++ [src]].
Proof.
  intros H. open_op H Hd.
  destruct (alookup src c) as [node|] eqn:El; [|discriminate H].
  destruct (cget t (tgt ++ [src])) as [y|] eqn:Eg; [discriminate H|].
  dres H t1 Ed. dres H t2 Ec. inversion H; subst.
  exists u, g, c, node, t1. auto 10.
Qed.

(* a nested move: establish the leading part of the source path under the target, attach, delete the source *)
Lemma movep_inv vr t here src tgt uid t' rp uid' :
  apply_opv vr t here (OpMoveP D src tgt) uid = Ok (t', rp, uid') ->
  exists node t0 t1, src <> [] /\ cget t (here ++ src) = Some node /\ cget t (tgt ++ src) = None /\
    cestablish t (tgt ++ removelast src) uid = Ok (t0, uid') /\
    cset t0 (tgt ++ src) node = Ok t1 /\ cdel t1 (here ++ src) = Ok t' /\
    r_deletions rp = [here ++ src] /\
    r_process rp = filter (fun pp => negb (pi_step (snd pp))) (proc_nodes node (tgt ++ src)).
Proof.
  intros H. open_op H Hd.
  destruct src as [|s1 sr]; [discriminate H|].
  destruct (cget t (here ++ s1 :: sr)) as [node|] eqn:Eg; [|discriminate H].
  destruct (cget t tgt) as [tn|] eqn:Et; [|discriminate H].
  destruct (cget t (tgt ++ s1 :: sr)) as [y|] eqn:Eg2; [discriminate H|].
  dres H tu Ee. dres H t1 Ec. dres H t2 Ed. destruct tu as [t0 u0]. cbn [fst snd] in *.
  inversion H; subst. exists node, t0, t1. cbn [r_deletions r_process].
  split; [discriminate|]. auto 10.
Qed.

(* Store.move looks the target up with get_path: it is there *)
Lemma movep_target_exists vr t here src tgt uid t' rp uid' :
  apply_opv vr t here (OpMoveP D src tgt) uid = Ok (t', rp, uid') -> cget t tgt <> None.
Proof.
  intros H. open_op H Hd.
  destruct src as [|s1 sr]; [discriminate H|].
  destruct (cget t (here ++ s1 :: sr)) as [node|] eqn:Eg; [|discriminate H].
  destruct (cget t tgt) as [tn|] eqn:Et; [discriminate|discriminate H].
Qed.

Lemma snoc_not_nil {A} (l : list A) (x : A) : l ++ [x] <> [].
Proof. destruct l; discriminate. Qed.

Lemma app_not_nil_r {A} (l r : list A) : r <> [] -> l ++ r <> [].
Proof. intros Hr H. apply app_eq_nil in H. destruct H as [_ H]. exact (Hr H). Qed.

(* the frame of a nested move: outside the source and the attached subtree, at a node that exists or off the
   established path, identity and value are kept *)
Lemma movep_frame_gen vr t here src tgt uid t' rp uid' q :
  apply_opv vr t here (OpMoveP D src tgt) uid = Ok (t', rp, uid') ->
  starts_with q (here ++ src) = false -> starts_with q (tgt ++ src) = false ->
  cget t q <> None \/ starts_with (tgt ++ removelast src) q = false ->
  sig_at t' q = sig_at t q.
Proof.
  intros H Hs1 Hs2 Hor. apply movep_inv in H.
  destruct H as (node & t0 & t1 & _ & _ & _ & He & Hc & Hdl & _ & _).
  rewrite (cdel_frame _ _ _ q Hdl Hs1), (cset_frame _ _ _ _ q Hc Hs2).
  apply (cestablish_frame _ _ _ _ _ q He Hor).
Qed.

Lemma firstn1_prefix (l : list key) : l = firstn 1 l ++ skipn 1 l.
Proof. symmetry. apply firstn_skipn. Qed.

(* the target node is in place: nothing is created above the first key of the source *)
Lemma movep_frame_tight vr t here src tgt uid t' rp uid' q :
  apply_opv vr t here (OpMoveP D src tgt) uid = Ok (t', rp, uid') ->
  outside q (named here (OpMoveP D src tgt)) -> sig_at t' q = sig_at t q.
Proof.
  intros H Hout. pose proof (movep_target_exists _ _ _ _ _ _ _ _ _ H) as Htg. cbn [named] in Hout.
  assert (Hs1 : starts_with q (here ++ src) = false) by (apply Hout; left; reflexivity).
  assert (Hs2 : starts_with q (tgt ++ firstn 1 src) = false) by (apply Hout; right; left; reflexivity).
  apply (movep_frame_gen _ _ _ _ _ _ _ _ _ q H Hs1).
  - rewrite (firstn1_prefix src), app_assoc. apply sw_prefix_false. exact Hs2.
  - destruct (starts_with (tgt ++ removelast src) q) eqn:E; [left|right; reflexivity].
    pose proof E as E0. apply sw_ext in E. destruct E as [E|E].
    + (* q is a prefix of the target: it exists *)
      apply sw_true_iff in E. destruct E as (r & Hr). intros Hn. apply Htg.
      rewrite Hr, cget_app, Hn. reflexivity.
    + (* q = tgt ++ r with r a prefix of removelast src: r = [] as q is not under tgt ++ [s1] *)
      apply sw_true_iff in E. destruct E as (r & ->).
      destruct r as [|k r']; [rewrite app_nil_r; exact Htg|]. exfalso.
      rewrite sw_app_l in E0. destruct src as [|s1 [|s2 sr]]; [discriminate E0|discriminate E0|].
      change (removelast (s1 :: s2 :: sr)) with (s1 :: removelast (s2 :: sr)) in E0.
      rewrite sw_cons in E0. apply andb_true_iff in E0. destruct E0 as [Ek _].
      apply N.eqb_eq in Ek. subst k. cbn [firstn] in Hs2.
      rewrite sw_app_l, sw_cons, N.eqb_refl, sw_nil in Hs2. discriminate Hs2.
Qed.
Lemma divide_inv vr t here m ds ch uid t' rp uid' :
  apply_opv vr t here (OpDivide D m ds ch) uid = Ok (t', rp, uid') ->
  exists t1 rp1,
    cset_chain (fun p => exists d, In d ds /\ p = here ++ [fst (fst d)]) t t1 /\
    cdel t1 (here ++ [m]) = Ok t' /\ r_deletions rp = r_deletions rp1 ++ [here ++ [m]].
Proof.
  intros H. open_op H Hd.
  destruct (alookup m c) as [mo|] eqn:El; [|discriminate H].
  match type of H with
  | rbind ?X _ = _ => destruct X as [[[t1 rp1] u1]|e] eqn:Ego; cbn [rbind] in H; [|discriminate H]
  end.
  dres H t2 Ed. inversion H; subst. exists t1, rp1. split; [|auto].
  match type of Ego with
  | ?G _ ?sts0 _ ?rp0 _ = _ => revert Ego; generalize sts0 as sts, rp0 as rpa; set (go := G)
  end.
  clear H Hd Ed. revert t uid.
  induction ds as [|[[dk dd] dinit] ds' IH]; intros t uid sts rpa Ego.
  - cbn in Ego. inversion Ego; subst. constructor.
  - destruct sts as [|st sts'].
    + cbn in Ego. inversion Ego; subst. constructor.
    + unfold go in Ego. cbn [rbind] in Ego. fold go in Ego.
      destruct (match dd with Some d => build d uid | None => copy_procs mo uid end) as [sub uid1].
      dres Ego r Es. dres Ego t2 Ec.
      apply (chain_step _ t (here ++ [dk]) (fst r) t2 t1).
      * exists (dk, dd, dinit). split; [left; reflexivity|reflexivity].
      * exact Ec.
      * eapply cset_chain_weaken; [|apply (IH _ _ _ _ Ego)].
        intros p (d & Hin & ->). exists d. split; [right; exact Hin|reflexivity].
Qed.

(* frame: every node outside the named subtrees keeps its identity and its value *)
Theorem apply_op_frame vr t here o uid t' rp uid' q :
  apply_opv vr t here o uid = Ok (t', rp, uid') -> outside q (named here o) -> sig_at t' q = sig_at t q.
Proof.
  intros H Hout. destruct o as [k st|src tgt|src tgt|k d init|m ds ch|k|p|k v].
  - apply add_inv in H. destruct H as (nd & Hs).
    apply (cset_frame _ _ _ _ _ Hs). apply Hout. left. reflexivity.
  - apply move_inv in H. destruct H as (u & g & c & node & t1 & _ & _ & _ & Hdl & Hs & _ & _).
    rewrite (cset_frame _ _ _ _ q Hs) by (apply Hout; right; left; reflexivity).
    apply (cdel_frame _ _ _ _ Hdl). apply Hout. left. reflexivity.
  - apply (movep_frame_tight _ _ _ _ _ _ _ _ _ q H Hout).
  - apply generate_inv in H. destruct H as (r & _ & Hs & _).
    apply (cset_frame _ _ _ _ _ Hs). apply Hout. left. reflexivity.
  - apply divide_inv in H. destruct H as (t1 & rp1 & Hc & Hdl & _).
    rewrite (cdel_frame _ _ _ q Hdl) by (apply Hout; left; reflexivity).
    apply (cset_chain_frame _ _ _ _ Hc). intros p (d & Hin & ->).
    apply Hout. right. apply (in_map (fun d => here ++ [fst (fst d)]) ds d Hin).
  - apply delete_inv in H. destruct H as (Hdl & _ & _).
    apply (cdel_frame _ _ _ _ Hdl). apply Hout. left. reflexivity.
  - apply deletepath_inv in H. destruct H as ([Hdl| ->] & _); [|reflexivity].
    apply (cdel_frame _ _ _ _ Hdl). apply Hout. left. reflexivity.
  - apply upd_inv in H.
    destruct H as (u & g & c & _ & [(_ & ->)|(ch & ch' & _ & _ & Hs)] & _ & _); [reflexivity|].
    apply (cset_frame _ _ _ _ _ Hs). apply Hout. left. reflexivity.
Qed.

Lemma insert_op_perm ms (o : sop D) l : Permutation (insert_op D ms o l) (o :: l).
Proof.
  induction l as [|x r IH]; cbn [insert_op]; [apply Permutation_refl|].
  destruct (Nat.ltb (op_rank D ms o) (op_rank D ms x)); [apply Permutation_refl|].
  apply (perm_trans (perm_skip x IH)). apply perm_swap.
Qed.

Theorem order_ops_perm (ops : list (sop D)) : Permutation (order_ops D ops) ops.
Proof.
  unfold order_ops. generalize (mothers D ops) as ms. intros ms.
  assert (Hg : forall acc, Permutation (fold_left (fun acc o => insert_op D ms o acc) ops acc) (acc ++ ops)).
  { induction ops as [|o r IH]; intros acc; cbn [fold_left].
    - rewrite app_nil_r. apply Permutation_refl.
    - apply (perm_trans (IH (insert_op D ms o acc))).
      apply (perm_trans (Permutation_app_tail r (insert_op_perm ms o acc))).
      cbn [app]. apply Permutation_middle. }
  apply (Hg []).
Qed.

(* the pinned order (for the record) *)
Lemma insert_op_pinned_perm (o : sop D) l : Permutation (insert_op_pinned D o l) (o :: l).
Proof.
  induction l as [|x r IH]; cbn [insert_op_pinned]; [apply Permutation_refl|].
  destruct (Nat.ltb (op_rank_pinned D o) (op_rank_pinned D x)); [apply Permutation_refl|].
  apply (perm_trans (perm_skip x IH)). apply perm_swap.
Qed.

Theorem order_ops_pinned_perm (ops : list (sop D)) : Permutation (order_ops_pinned D ops) ops.
Proof.
  unfold order_ops_pinned.
  assert (Hg : forall acc, Permutation (fold_left (fun acc o => insert_op_pinned D o acc) ops acc) (acc ++ ops)).
  { induction ops as [|o r IH]; intros acc; cbn [fold_left].
    - rewrite app_nil_r. apply Permutation_refl.
    - apply (perm_trans (IH (insert_op_pinned D o acc))).
      apply (perm_trans (Permutation_app_tail r (insert_op_pinned_perm o acc))).
      cbn [app]. apply Permutation_middle. }
  apply (Hg []).
Qed.

Lemma ops_fold_frame vr here q l : forall t rp0 uid t' rp uid',
  fold_left (fun acc o =>
               rbind acc (fun tru =>
                 let '(t', rp, uid') := tru in
                 rbind (apply_opv vr t' here o uid') (fun tru' =>
                   let '(t'', rp', uid'') := tru' in Ok (t'', rapp rp rp', uid''))))
            l (Ok (t, rp0, uid)) = Ok (t', rp, uid') ->
  (forall o, In o l -> outside q (named here o)) -> sig_at t' q = sig_at t q.
Proof.
  induction l as [|o l IH]; intros t rp0 uid t' rp uid' H Hout.
  - cbn in H. inversion H; subst. reflexivity.
  - cbn [fold_left rbind] in H.
    destruct (apply_opv vr t here o uid) as [[[t1 rp1] u1]|e] eqn:Eo; cbn [rbind] in H.
    + rewrite (IH _ _ _ _ _ _ H) by (intros o' Hin; apply Hout; right; exact Hin).
      apply (apply_op_frame _ _ _ _ _ _ _ _ _ Eo). apply Hout. left. reflexivity.
    + rewrite fold_err in H by reflexivity. discriminate H.
Qed.

Theorem apply_ops_frame vr t here ops uid t' rp uid' q :
  apply_opsv vr t here ops uid = Ok (t', rp, uid') ->
  outside q (flat_map (named here) ops) -> sig_at t' q = sig_at t q.
Proof.
  intros H Hout. unfold apply_ops in H.
  apply (ops_fold_frame _ _ _ _ _ _ _ _ _ _ H).
  intros o Hin nm Hnm. apply Hout. apply in_flat_map. exists o. split; [|exact Hnm].
  apply (Permutation_in o (order_ops_perm ops) Hin).
Qed.

(* a whole history of updates: a node never named keeps identity and value throughout *)
Theorem history_frame vr (h : list (list key * list (sop D))) : forall t uid t' uid' q,
  fold_left (fun acc ho => match acc with
                           | Ok (t0, u0) => match apply_opsv vr t0 (fst ho) (snd ho) u0 with
                                            | Ok (t1, _, u1) => Ok (t1, u1)
                                            | Err e => Err e
                                            end
                           | Err e => Err e
                           end) h (Ok (t, uid)) = Ok (t', uid') ->
  outside q (flat_map (fun ho => flat_map (named (fst ho)) (snd ho)) h) -> sig_at t' q = sig_at t q.
Proof.
  induction h as [|ho h IH]; intros t uid t' uid' q H Hout.
  - cbn in H. inversion H; subst. reflexivity.
  - cbn [fold_left] in H.
    destruct (apply_opsv vr t (fst ho) (snd ho) uid) as [[[t1 rp1] u1]|e] eqn:Eo.
    + rewrite (IH _ _ _ _ q H).
      * apply (apply_ops_frame _ _ _ _ _ _ _ _ _ Eo).
        intros nm Hnm. apply Hout. cbn [flat_map]. apply in_or_app. left. exact Hnm.
      * intros nm Hnm. apply Hout. cbn [flat_map]. apply in_or_app. right. exact Hnm.
    + rewrite fold_err in H by reflexivity. discriminate H.
Qed.


(* _add: rejected on an existing key; otherwise the child exists afterwards *)
Theorem add_existing_rejected vr t here k st uid u g c x :
  cget t here = Some (CDir u g c) -> alookup k c = Some x ->
  apply_opv vr t here (OpAdd D k st) uid = Err EDuplicate.
Proof.
  intros Hd Hl. unfold apply_op, dir_at. rewrite Hd. cbn [rbind]. rewrite Hl. reflexivity.
Qed.

Theorem add_creates vr t here k st uid t' rp uid' :
  apply_opv vr t here (OpAdd D k st) uid = Ok (t', rp, uid') -> cget t' (here ++ [k]) <> None.
Proof.
  intros H. apply add_inv in H. destruct H as (nd & Hs).
  rewrite (cget_cset_same _ _ _ _ (snoc_not_nil here k) Hs). discriminate.
Qed.

(* _delete by key: exactly that child and everything below it disappears *)
Theorem delete_removes vr t here k uid t' rp uid' :
  cwf t -> apply_opv vr t here (OpDelete D k) uid = Ok (t', rp, uid') ->
  cget t' (here ++ [k]) = None /\ r_deletions rp = [here ++ [k]].
Proof.
  intros Hw H. apply delete_inv in H. destruct H as (Hdl & Hr & _).
  split; [|exact Hr]. apply (cdel_gone _ _ _ Hw (snoc_not_nil here k) Hdl).
Qed.

(* _delete by path tuple removes nothing in the current code: known finding K4 *)
Theorem delete_by_path_refuted t here p uid :
  cget t here <> None -> (exists u g c, cget t here = Some (CDir u g c)) ->
  exists rp, apply_opv vfixed t here (OpDeletePath D p) uid = Ok (t, rp, uid) /\ r_deletions rp = [].
Proof.
  intros _ (u & g & c & Hd). unfold apply_op, dir_at. rewrite Hd. cbn [rbind vfixed v_fix_delete_path].
  eexists. split; reflexivity.
Qed.

(* _generate: the built subtree, with the initial state set, sits under the key *)
Theorem generate_places vr t here k d init uid t' rp uid' :
  apply_opv vr t here (OpGenerate D k d init) uid = Ok (t', rp, uid') ->
  exists sub u1, set_value mk_child (S (tdepth init)) (fst (build d uid)) init (snd (build d uid)) = Ok (sub, u1)
                 /\ cget t' (here ++ [k]) = Some sub /\ uid' = u1.
Proof.
  intros H. apply generate_inv in H. destruct H as ([sub u1] & Hsv & Hs & Hu).
  exists sub, u1. split; [exact Hsv|]. split; [|exact Hu].
  apply (cget_cset_same _ _ _ _ (snoc_not_nil here k) Hs).
Qed.

(* _move: the very same subtree sits under the target; the source is gone *)
Theorem move_moves vr t here src tgt uid t' rp uid' node u g c :
  cwf t -> cget t here = Some (CDir u g c) -> alookup src c = Some node ->
  starts_with (tgt ++ [src]) (here ++ [src]) = false -> starts_with (here ++ [src]) (tgt ++ [src]) = false ->
  apply_opv vr t here (OpMove D src tgt) uid = Ok (t', rp, uid') ->
  cget t' (tgt ++ [src]) = Some node /\ cget t' (here ++ [src]) = None /\ uid' = uid /\
  r_deletions rp = [here ++ [src]].
Proof.
  intros Hw Hd Hl Hs1 Hs2 H. apply move_inv in H.
  destruct H as (u0 & g0 & c0 & node0 & t1 & Hd0 & Hl0 & Hg & Hdl & Hs & Hu & Hr).
  rewrite Hd in Hd0. inversion Hd0; subst u0 g0 c0. rewrite Hl in Hl0. inversion Hl0; subst node0.
  split; [apply (cget_cset_same _ _ _ _ (snoc_not_nil tgt src) Hs)|].
  split; [|auto].
  apply sig_at_None. rewrite (cset_frame _ _ _ _ _ Hs Hs2).
  apply cget_None_sig. apply (cdel_gone _ _ _ Hw (snoc_not_nil here src) Hdl).
Qed.

(* _divide: the mother is gone and the deletion is reported *)
Theorem divide_removes_mother vr t here m ds ch uid t' rp uid' :
  cwf t -> (forall d, In d ds -> fst (fst d) <> m) ->
  apply_opv vr t here (OpDivide D m ds ch) uid = Ok (t', rp, uid') ->
  In (here ++ [m]) (r_deletions rp).
Proof.
  intros _ _ H. apply divide_inv in H. destruct H as (t1 & rp1 & _ & _ & Hr).
  rewrite Hr. apply in_or_app. right. left. reflexivity.
Qed.

(* several operations in one update: sorted by rank (rk: the rank, of the repaired or of the pinned order) *)
Definition rank_le (rk : sop D -> nat) (a b : sop D) : Prop := (rk a <= rk b)%nat.
Inductive ssorted (rk : sop D -> nat) : list (sop D) -> Prop :=
| ssorted_nil : ssorted rk []
| ssorted_cons x r : ssorted rk r -> Forall (rank_le rk x) r -> ssorted rk (x :: r).

Lemma insert_op_sorted ms o l :
  ssorted (op_rank D ms) l -> ssorted (op_rank D ms) (insert_op D ms o l).
Proof.
  intros Hs. induction Hs as [|x r Hs IH Hall]; cbn [insert_op].
  - constructor; constructor.
  - destruct (Nat.ltb (op_rank D ms o) (op_rank D ms x)) eqn:E.
    + apply Nat.ltb_lt in E. constructor; [constructor; assumption|].
      constructor; [unfold rank_le; lia|].
      rewrite Forall_forall in Hall |- *. intros y Hy. specialize (Hall y Hy). unfold rank_le in *. lia.
    + apply Nat.ltb_ge in E. constructor; [exact IH|].
      rewrite Forall_forall in Hall |- *. intros y Hy.
      apply (Permutation_in y (insert_op_perm ms o r)) in Hy. destruct Hy as [<-|Hy]; [exact E|auto].
Qed.

Lemma order_ops_ssorted (ops : list (sop D)) : ssorted (op_rank D (mothers D ops)) (order_ops D ops).
Proof.
  unfold order_ops. generalize (mothers D ops) as ms. intros ms.
  assert (Hg : forall acc, ssorted (op_rank D ms) acc ->
                           ssorted (op_rank D ms) (fold_left (fun acc o => insert_op D ms o acc) ops acc)).
  { induction ops as [|o r IH]; intros acc Hacc; cbn [fold_left]; [exact Hacc|].
    apply IH. apply insert_op_sorted. exact Hacc. }
  apply Hg. constructor.
Qed.

Lemma insert_op_pinned_sorted o l :
  ssorted (op_rank_pinned D) l -> ssorted (op_rank_pinned D) (insert_op_pinned D o l).
Proof.
  intros Hs. induction Hs as [|x r Hs IH Hall]; cbn [insert_op_pinned].
  - constructor; constructor.
  - destruct (Nat.ltb (op_rank_pinned D o) (op_rank_pinned D x)) eqn:E.
    + apply Nat.ltb_lt in E. constructor; [constructor; assumption|].
      constructor; [unfold rank_le; lia|].
      rewrite Forall_forall in Hall |- *. intros y Hy. specialize (Hall y Hy). unfold rank_le in *. lia.
    + apply Nat.ltb_ge in E. constructor; [exact IH|].
      rewrite Forall_forall in Hall |- *. intros y Hy.
      apply (Permutation_in y (insert_op_pinned_perm o r)) in Hy. destruct Hy as [<-|Hy]; [exact E|auto].
Qed.

Lemma order_ops_pinned_ssorted (ops : list (sop D)) : ssorted (op_rank_pinned D) (order_ops_pinned D ops).
Proof.
  unfold order_ops_pinned.
  assert (Hg : forall acc, ssorted (op_rank_pinned D) acc ->
                           ssorted (op_rank_pinned D) (fold_left (fun acc o => insert_op_pinned D o acc) ops acc)).
  { induction ops as [|o r IH]; intros acc Hacc; cbn [fold_left]; [exact Hacc|].
    apply IH. apply insert_op_pinned_sorted. exact Hacc. }
  apply Hg. constructor.
Qed.

Lemma ssorted_nth rk (l : list (sop D)) dflt :
  ssorted rk l ->
  forall i j, (i < j < length l)%nat -> rank_le rk (nth i l dflt) (nth j l dflt).
Proof.
  intros Hs. induction Hs as [|x r Hs IH Hall]; intros i j Hij; cbn [length] in Hij; [lia|].
  destruct j as [|j']; [lia|]. destruct i as [|i']; cbn [nth].
  - rewrite Forall_forall in Hall. apply Hall. apply nth_In. lia.
  - apply IH. lia.
Qed.

Theorem order_ops_sorted (ops : list (sop D)) :
  forall i j, (i < j < length (order_ops D ops))%nat ->
  (op_rank D (mothers D ops) (nth i (order_ops D ops) (OpDelete D 0%N)) <=
   op_rank D (mothers D ops) (nth j (order_ops D ops) (OpDelete D 0%N)))%nat.
Proof.
  intros i j Hij. apply (ssorted_nth _ _ _ (order_ops_ssorted ops) i j Hij).
Qed.

(* the pinned order (for the record) *)
Theorem order_ops_pinned_sorted (ops : list (sop D)) :
  forall i j, (i < j < length (order_ops_pinned D ops))%nat ->
  (op_rank_pinned D (nth i (order_ops_pinned D ops) (OpDelete D 0%N)) <=
   op_rank_pinned D (nth j (order_ops_pinned D ops) (OpDelete D 0%N)))%nat.
Proof.
  intros i j Hij. apply (ssorted_nth _ _ _ (order_ops_pinned_ssorted ops) i j Hij).
Qed.

(* ---- C11: the split divider conserves the total, for every integer ---- *)
(* the whole conjunction is read in Z scope (the sum is a sum of integers) *)
Theorem split_conserves z b : (fst (split_z z b) + snd (split_z z b) = z
                              /\ (Z.abs (fst (split_z z b) - snd (split_z z b)) <= 1))%Z.
Proof.
  unfold split_z.
  pose proof (Z.div_mod z 2 ltac:(lia)) as Hdm.
  pose proof (Z.mod_pos_bound z 2 ltac:(lia)) as Hb.
  destruct b; cbn [fst snd]; lia.
Qed.

Theorem split_refuted_pinned : exists z b, (fst (split_z_pinned z b) + snd (split_z_pinned z b) <> z)%Z.
Proof. exists (-3)%Z, true. vm_compute. discriminate. Qed.


(* ================= C10 ================= *)
Lemma rfold_inv {X A} (G : res A -> X -> res A) (I : A -> Prop) l a a' :
  fold_left G l (Ok a) = Ok a' ->
  (forall x e, G (Err e) x = Err e) ->
  (forall a0 x a1, G (Ok a0) x = Ok a1 -> I a0 -> I a1) ->
  I a -> I a'.
Proof.
  intros H Herr Hstep. revert a H. induction l as [|x l IH]; intros a H Ha; cbn [fold_left] in H.
  - inversion H; subst. exact Ha.
  - destruct (G (Ok a) x) as [a1|e] eqn:E.
    + apply (IH a1 H). apply (Hstep a x a1 E Ha).
    + rewrite (fold_err G Herr) in H. discriminate H.
Qed.

Lemma rfold_reg {X A} (G : res A -> X -> res A) (Q : X -> A -> Prop) l a a' :
  fold_left G l (Ok a) = Ok a' ->
  (forall x e, G (Err e) x = Err e) ->
  (forall a0 x a1, G (Ok a0) x = Ok a1 -> Q x a1) ->
  (forall a0 x y a1, G (Ok a0) x = Ok a1 -> Q y a0 -> Q y a1) ->
  forall y, In y l -> Q y a'.
Proof.
  intros H Herr Hnew Hpres. revert a H. induction l as [|x l IH]; intros a H y Hin; [destruct Hin|].
  cbn [fold_left] in H. destruct (G (Ok a) x) as [a1|e] eqn:E.
  - destruct Hin as [<-|Hin].
    + apply (rfold_inv G (Q x) l a1 a' H Herr); [|apply (Hnew a x a1 E)].
      intros a0 x0 a2 E0 HQ. apply (Hpres a0 x0 x a2 E0 HQ).
    + apply (IH a1 H y Hin).
  - rewrite (fold_err G Herr) in H. discriminate H.
Qed.

Lemma dfold_procs (G : book -> list key -> book) ds :
  (forall bk d, b_procs (G bk d) = pdrop (b_procs bk) d) ->
  forall bk, b_procs (fold_left G ds bk) = fold_left pdrop ds (b_procs bk).
Proof.
  intros HG. induction ds as [|d ds IH]; intros bk; cbn [fold_left]; [reflexivity|].
  rewrite IH, HG. reflexivity.
Qed.

Lemma dfold_steps (G : book -> list key -> book) ds :
  (forall bk d, b_steps (G bk d) = pdrop (b_steps bk) d) ->
  forall bk, b_steps (fold_left G ds bk) = fold_left pdrop ds (b_steps bk).
Proof.
  intros HG. induction ds as [|d ds IH]; intros bk; cbn [fold_left]; [reflexivity|].
  rewrite IH, HG. reflexivity.
Qed.

Lemma pdrop_fold_in {A} ds : forall (l : list (list key * A)) p o,
  In (p, o) (fold_left pdrop ds l) <-> In (p, o) l /\ forall d, In d ds -> starts_with p d = false.
Proof.
  induction ds as [|d ds IH]; intros l p o; cbn [fold_left].
  - split; [intros H; split; [exact H|intros d []]|intros [H _]; exact H].
  - rewrite IH. unfold pdrop at 1. rewrite filter_In. cbn [fst]. rewrite negb_true_iff. split.
    + intros [[Hin Hd] Hds]. split; [exact Hin|]. intros d' [<-|Hd']; auto.
    + intros [Hin Hds]. split; [split; [exact Hin|]|]; intros; apply Hds; cbn [In]; auto.
Qed.

(* ---- Engine._delete_path over the reported deletions: the two tables ---- *)
Lemma book_delete_procs b ds : b_procs (book_delete b ds) = fold_left pdrop ds (b_procs b).
Proof. unfold book_delete. apply dfold_procs. reflexivity. Qed.

Lemma book_delete_steps b ds : b_steps (book_delete b ds) = fold_left pdrop ds (b_steps b).
Proof. unfold book_delete. apply dfold_steps. reflexivity. Qed.

(* ---- pset: `dict[path] = object` on an insertion-ordered table ---- *)
Lemma kpath_eqb_eq p : forall q, kpath_eqb p q = true -> p = q.
Proof.
  induction p as [|x p IH]; intros [|y q] H; try reflexivity; try discriminate H.
  change (kpath_eqb (x :: p) (y :: q)) with (N.eqb x y && kpath_eqb p q) in H.
  apply andb_true_iff in H. destruct H as [Hx Hp]. apply N.eqb_eq in Hx. subst y.
  rewrite (IH q Hp). reflexivity.
Qed.

Lemma kpath_eqb_refl p : kpath_eqb p p = true.
Proof.
  induction p as [|x p IH]; [reflexivity|].
  change (kpath_eqb (x :: p) (x :: p)) with (N.eqb x x && kpath_eqb p p).
  rewrite N.eqb_refl, IH. reflexivity.
Qed.

Lemma pset_keys_in {A} (l : list (list key * A)) p a : In p (map fst (pset l p a)).
Proof.
  induction l as [|[q b0] r IH]; cbn [pset map fst In]; [left; reflexivity|].
  destruct (kpath_eqb q p) eqn:E; cbn [map fst In].
  - left. apply kpath_eqb_eq. exact E.
  - right. exact IH.
Qed.

Lemma pset_keys_pres {A} (l : list (list key * A)) p a x : In x (map fst l) -> In x (map fst (pset l p a)).
Proof.
  induction l as [|[q b0] r IH]; cbn [pset map fst In]; [intros []|].
  intros Hin. destruct (kpath_eqb q p); cbn [map fst In]; [exact Hin|].
  destruct Hin as [Hq|Hin]; [left; exact Hq|right; apply IH; exact Hin].
Qed.

(* the assigned entry is there; entries of other paths stay; nothing else appears (no premise on the table) *)
Lemma pset_in_self {A} (l : list (list key * A)) p a : In (p, a) (pset l p a).
Proof.
  induction l as [|[q b0] r IH]; cbn [pset In]; [left; reflexivity|].
  destruct (kpath_eqb q p) eqn:E; cbn [In].
  - left. apply kpath_eqb_eq in E. subst q. reflexivity.
  - right. exact IH.
Qed.

Lemma pset_in_other {A} (l : list (list key * A)) p a q o : q <> p -> In (q, o) l -> In (q, o) (pset l p a).
Proof.
  intros Hne. induction l as [|[q0 b0] r IH]; cbn [pset In]; [intros []|].
  intros Hin. destruct (kpath_eqb q0 p) eqn:E; cbn [In].
  - destruct Hin as [Hq|Hin]; [|right; exact Hin]. inversion Hq; subst q0 b0.
    apply kpath_eqb_eq in E. congruence.
  - destruct Hin as [Hq|Hin]; [left; exact Hq|right; apply IH; exact Hin].
Qed.

Lemma pset_in_inv {A} (l : list (list key * A)) p a q o :
  In (q, o) (pset l p a) -> (q = p /\ o = a) \/ In (q, o) l.
Proof.
  induction l as [|[q0 b0] r IH]; cbn [pset In].
  - intros [H|[]]. inversion H; subst. left. auto.
  - destruct (kpath_eqb q0 p) eqn:E; cbn [In].
    + intros [H|H]; [|right; right; exact H]. inversion H; subst q0 o.
      apply kpath_eqb_eq in E. left. auto.
    + intros [H|H]; [right; left; exact H|]. destruct (IH H) as [H'|H']; [left; exact H'|right; right; exact H'].
Qed.

(* ---- what Engine.apply_update registers ---- *)
(* a reported process / step, its table entry, the assignment of one entry *)
Definition nonstep (pp : list key * pinfo) : bool := negb (pi_step (snd pp)).
Definition isstep (pp : list key * pinfo) : bool := pi_step (snd pp).
Definition entry (pp : list key * pinfo) : list key * N := (fst pp, pi_obj (snd pp)).
Definition psetf (acc : list (list key * N)) (pp : list key * pinfo) : list (list key * N) :=
  pset acc (fst pp) (pi_obj (snd pp)).

(* what Engine.apply_update files as a step: every Step found among the process updates (pinned Store.move
   reports moved steps there too; Store.insert reports there the Steps that were listed in the `processes`
   dict), then every entry of the step updates, whatever is_step() says.  The flow updates only supply the
   dependencies handed to _add_step_path: they change the graph (and can make it raise), not the table. *)
Definition step_adds (rp : reports) : list (list key * pinfo) := filter isstep (r_process rp) ++ r_step rp.

Lemma in_filter_nonstep l q pi : In (q, pi) (filter nonstep l) <-> In (q, pi) l /\ pi_step pi = false.
Proof. rewrite filter_In. unfold nonstep. cbn [snd]. rewrite negb_true_iff. reflexivity. Qed.

Lemma in_filter_isstep l q pi : In (q, pi) (filter isstep l) <-> In (q, pi) l /\ pi_step pi = true.
Proof. rewrite filter_In. unfold isstep. cbn [snd]. reflexivity. Qed.

Lemma in_step_adds rp q pi :
  In (q, pi) (step_adds rp) <-> (In (q, pi) (r_process rp) /\ pi_step pi = true) \/ In (q, pi) (r_step rp).
Proof. unfold step_adds. rewrite in_app_iff, in_filter_isstep. reflexivity. Qed.

Lemma add_step_procs bk p pi deps bk' : add_step bk p pi deps = Ok bk' -> b_procs bk' = b_procs bk.
Proof.
  unfold add_step. intros H. dres H g0 Eg. inversion H; subst. reflexivity.
Qed.

Lemma add_step_steps bk p pi deps bk' :
  add_step bk p pi deps = Ok bk' -> b_steps bk' = pset (b_steps bk) p (pi_obj pi).
Proof.
  unfold add_step. intros H. dres H g0 Eg. inversion H; subst. reflexivity.
Qed.

(* a fold of registrations, seen through one of the two tables *)
Lemma sfold_sel (proj : book -> list (list key * N)) (G : res book -> list key * pinfo -> res book)
      (sel : list key * pinfo -> bool) :
  (forall x e, G (Err e) x = Err e) ->
  (forall bk x bk1, G (Ok bk) x = Ok bk1 -> proj bk1 = if sel x then psetf (proj bk) x else proj bk) ->
  forall l bk b2, fold_left G l (Ok bk) = Ok b2 -> proj b2 = fold_left psetf (filter sel l) (proj bk).
Proof.
  intros Herr HG. induction l as [|x l IH]; intros bk b2 H.
  - cbn in H. inversion H; subst. reflexivity.
  - cbn [fold_left] in H. destruct (G (Ok bk) x) as [bk1|e] eqn:E;
      [|rewrite (fold_err G Herr) in H; discriminate H].
    rewrite (IH bk1 b2 H), (HG bk x bk1 E). cbn [filter]. destruct (sel x); reflexivity.
Qed.

Lemma filter_all {A} (l : list A) : filter (fun _ => true) l = l.
Proof. induction l as [|x l IH]; [reflexivity|]. cbn [filter]. rewrite IH. reflexivity. Qed.

Lemma filter_none {A} (l : list A) : filter (fun _ => false) l = [].
Proof. induction l as [|x l IH]; [reflexivity|]. exact IH. Qed.

(* the registration part, explicitly and without any premise: the non-step process updates are assigned to
   the process table in order, what is filed as a step (step_adds) to the step table in order *)
Theorem book_register_tables b rp b' :
  book_register b rp = Ok b' ->
  b_procs b' = fold_left psetf (filter nonstep (r_process rp)) (b_procs b) /\
  b_steps b' = fold_left psetf (step_adds rp) (b_steps b).
Proof.
  unfold book_register. intros H. dres H b2 E2.
  split.
  - assert (H2 : b_procs b2 = fold_left psetf (filter nonstep (r_process rp)) (b_procs b)).
    { refine (sfold_sel b_procs _ nonstep _ _ _ _ _ E2).
      - reflexivity.
      - intros bk x bk1 Hg. cbn [rbind] in Hg. unfold nonstep. destruct (pi_step (snd x)); cbn [negb].
        + apply add_step_procs in Hg. exact Hg.
        + inversion Hg; subst. reflexivity. }
    rewrite <- H2.
    assert (H3 : b_procs b' = fold_left psetf (filter (fun _ => false) (r_step rp)) (b_procs b2)).
    { refine (sfold_sel b_procs _ (fun _ => false) _ _ _ _ _ H).
      - reflexivity.
      - intros bk x bk1 Hg. cbn [rbind] in Hg. apply add_step_procs in Hg. exact Hg. }
    rewrite H3, filter_none. reflexivity.
  - assert (H2 : b_steps b2 = fold_left psetf (filter isstep (r_process rp)) (b_steps b)).
    { refine (sfold_sel b_steps _ isstep _ _ _ _ _ E2).
      - reflexivity.
      - intros bk x bk1 Hg. cbn [rbind] in Hg. unfold isstep. destruct (pi_step (snd x)).
        + apply add_step_steps in Hg. exact Hg.
        + inversion Hg; subst. reflexivity. }
    assert (H3 : b_steps b' = fold_left psetf (filter (fun _ => true) (r_step rp)) (b_steps b2)).
    { refine (sfold_sel b_steps _ (fun _ => true) _ _ _ _ _ H).
      - reflexivity.
      - intros bk x bk1 Hg. cbn [rbind] in Hg. apply add_step_steps in Hg. exact Hg. }
    rewrite H3, H2, filter_all. unfold step_adds. rewrite fold_left_app. reflexivity.
Qed.

(* Engine.apply_update, both tables, without any premise: first everything under a reported deletion goes,
   then the reported processes / steps are assigned in order (the last report of a path wins) *)
Theorem book_apply_tables b rp b' :
  book_apply b rp = Ok b' ->
  b_procs b' = fold_left psetf (filter nonstep (r_process rp)) (fold_left pdrop (r_deletions rp) (b_procs b)) /\
  b_steps b' = fold_left psetf (step_adds rp) (fold_left pdrop (r_deletions rp) (b_steps b)).
Proof.
  unfold book_apply. intros H. apply book_register_tables in H.
  rewrite book_delete_procs, book_delete_steps in H. exact H.
Qed.

Theorem book_apply_procs_eq b rp b' :
  book_apply b rp = Ok b' ->
  b_procs b' = fold_left psetf (filter nonstep (r_process rp)) (fold_left pdrop (r_deletions rp) (b_procs b)).
Proof. intros H. apply (book_apply_tables b rp b' H). Qed.

Theorem book_apply_steps_eq b rp b' :
  book_apply b rp = Ok b' ->
  b_steps b' = fold_left psetf (step_adds rp) (fold_left pdrop (r_deletions rp) (b_steps b)).
Proof. intros H. apply (book_apply_tables b rp b' H). Qed.

(* the pinned order, for the record: registered first, everything under a reported deletion dropped last *)
Theorem book_apply_pinned_tables b rp b' :
  book_apply_pinned b rp = Ok b' ->
  b_procs b' = fold_left pdrop (r_deletions rp) (fold_left psetf (filter nonstep (r_process rp)) (b_procs b)) /\
  b_steps b' = fold_left pdrop (r_deletions rp) (fold_left psetf (step_adds rp) (b_steps b)).
Proof.
  unfold book_apply_pinned. intros H. dres H b3 E3. inversion H; subst b'.
  apply book_register_tables in E3. destruct E3 as [Hp Hs].
  rewrite book_delete_procs, book_delete_steps, Hp, Hs. auto.
Qed.

(* ... where nothing registered survived under a deleted path, not even what the same update had put there *)
Theorem book_apply_pinned_drops b rp b' d p o :
  book_apply_pinned b rp = Ok b' -> In d (r_deletions rp) ->
  In (p, o) (b_procs b') \/ In (p, o) (b_steps b') -> starts_with p d = false.
Proof.
  intros H Hd Hin. apply book_apply_pinned_tables in H. destruct H as [Hp Hs]. rewrite Hp, Hs in Hin.
  destruct Hin as [Hin|Hin]; apply pdrop_fold_in in Hin; destruct Hin as [_ Hall]; apply (Hall d Hd).
Qed.

(* an entry of a table built by assignments is an entry of the table it started from or an assigned one *)
Lemma psetf_fold_inv adds : forall l q o,
  In (q, o) (fold_left psetf adds l) -> In (q, o) l \/ exists pi, In (q, pi) adds /\ o = pi_obj pi.
Proof.
  induction adds as [|[p pi] adds IH]; intros l q o Hin; cbn [fold_left] in Hin; [left; exact Hin|].
  destruct (IH _ _ _ Hin) as [H|(pi0 & H & Ho)].
  - unfold psetf in H. cbn [fst snd] in H. apply pset_in_inv in H. destruct H as [[-> ->]|H]; [|left; exact H].
    right. exists pi. split; [left; reflexivity|reflexivity].
  - right. exists pi0. split; [right; exact H|exact Ho].
Qed.

(* DELETIONS FIRST: after Engine.apply_update a registered process lies under a path the update deleted only if
   the same update (re-)registered it there -- what left its place is gone, what was put there stays *)
Theorem book_apply_drops b rp b' d p o :
  book_apply b rp = Ok b' -> In d (r_deletions rp) -> In (p, o) (b_procs b') -> starts_with p d = true ->
  exists pi, In (p, pi) (r_process rp) /\ pi_step pi = false /\ o = pi_obj pi.
Proof.
  intros H Hd Hin Hsw. rewrite (book_apply_procs_eq b rp b' H) in Hin.
  apply psetf_fold_inv in Hin. destruct Hin as [Hin|(pi & Hin & Ho)].
  - apply pdrop_fold_in in Hin. destruct Hin as [_ Hall]. rewrite (Hall d Hd) in Hsw. discriminate Hsw.
  - apply in_filter_nonstep in Hin. destruct Hin as [Hin Hs]. exists pi. auto.
Qed.

(* ... a registered step: only if the same update filed it, through the step updates or as a Step among the
   process updates *)
Theorem book_apply_drops_steps b rp b' d p o :
  book_apply b rp = Ok b' -> In d (r_deletions rp) -> In (p, o) (b_steps b') -> starts_with p d = true ->
  exists pi, (In (p, pi) (r_step rp) \/ In (p, pi) (r_process rp) /\ pi_step pi = true) /\ o = pi_obj pi.
Proof.
  intros H Hd Hin Hsw. rewrite (book_apply_steps_eq b rp b' H) in Hin.
  apply psetf_fold_inv in Hin. destruct Hin as [Hin|(pi & Hin & Ho)].
  - apply pdrop_fold_in in Hin. destruct Hin as [_ Hall]. rewrite (Hall d Hd) in Hsw. discriminate Hsw.
  - apply in_step_adds in Hin. exists pi. split; [|exact Ho]. destruct Hin as [Hin|Hin]; auto.
Qed.

(* the former statement, under the premise it now needs: no reported process lies under a reported deletion *)
Corollary book_apply_drops_unreported b rp b' d p o :
  (forall q pi, In (q, pi) (r_process rp) -> pi_step pi = false ->
                forall d0, In d0 (r_deletions rp) -> starts_with q d0 = false) ->
  book_apply b rp = Ok b' -> In d (r_deletions rp) -> In (p, o) (b_procs b') -> starts_with p d = false.
Proof.
  intros Hcl H Hd Hin. destruct (starts_with p d) eqn:E; [|reflexivity].
  destruct (book_apply_drops b rp b' d p o H Hd Hin E) as (pi & Hr & Hs & _).
  rewrite (Hcl p pi Hr Hs d Hd) in E. discriminate E.
Qed.

Corollary book_apply_drops_steps_unreported b rp b' d p o :
  (forall q pi, In (q, pi) (r_process rp ++ r_step rp) ->
                forall d0, In d0 (r_deletions rp) -> starts_with q d0 = false) ->
  book_apply b rp = Ok b' -> In d (r_deletions rp) -> In (p, o) (b_steps b') -> starts_with p d = false.
Proof.
  intros Hcl H Hd Hin. destruct (starts_with p d) eqn:E; [|reflexivity].
  destruct (book_apply_drops_steps b rp b' d p o H Hd Hin E) as (pi & Hr & _).
  assert (Hin' : In (p, pi) (r_process rp ++ r_step rp)).
  { apply in_or_app. destruct Hr as [Hr|[Hr _]]; auto. }
  rewrite (Hcl p pi Hin' d Hd) in E. discriminate E.
Qed.

(* every reported (non-step) process is registered -- also under a path the same update deleted *)
Lemma psetf_fold_keys adds : forall l p, In p (map fst l) \/ In p (map fst adds) -> In p (map fst (fold_left psetf adds l)).
Proof.
  induction adds as [|x adds IH]; intros l p H; cbn [fold_left].
  - destruct H as [H|[]]. exact H.
  - apply IH. cbn [map In] in H. destruct H as [H|[H|H]].
    + left. apply pset_keys_pres. exact H.
    + left. subst p. apply pset_keys_in.
    + right. exact H.
Qed.

Theorem book_apply_registers b rp b' p pi :
  book_apply b rp = Ok b' -> In (p, pi) (r_process rp) -> pi_step pi = false ->
  In p (map fst (b_procs b')).
Proof.
  intros H Hin Hst. rewrite (book_apply_procs_eq b rp b' H). apply psetf_fold_keys. right.
  apply in_map_iff. exists (p, pi). split; [reflexivity|]. apply in_filter_nonstep. auto.
Qed.

(* ... with its object, when the reports of that path agree on it (otherwise: the last one's) *)
Lemma psetf_fold_obj adds : forall l p o,
  (forall pi, In (p, pi) adds -> pi_obj pi = o) ->
  In (p, o) l \/ In p (map fst adds) -> In (p, o) (fold_left psetf adds l).
Proof.
  induction adds as [|[q pi] adds IH]; intros l p o Hfun H; cbn [fold_left].
  - destruct H as [H|[]]. exact H.
  - apply IH; [intros pi0 Hin0; apply Hfun; right; exact Hin0|].
    unfold psetf. cbn [fst snd]. destruct (list_eq_dec N.eq_dec q p) as [->|Hne].
    + left. rewrite (Hfun pi (or_introl eq_refl)). apply pset_in_self.
    + cbn [map fst In] in H. destruct H as [H|[H|H]]; [left|congruence|right; exact H].
      apply pset_in_other; [congruence|exact H].
Qed.

Theorem book_apply_registers_obj b rp b' p pi :
  book_apply b rp = Ok b' -> In (p, pi) (r_process rp) -> pi_step pi = false ->
  (forall pi', In (p, pi') (r_process rp) -> pi_step pi' = false -> pi_obj pi' = pi_obj pi) ->
  In (p, pi_obj pi) (b_procs b').
Proof.
  intros H Hin Hst Hfun. rewrite (book_apply_procs_eq b rp b' H). apply psetf_fold_obj.
  - intros pi' Hin'. apply in_filter_nonstep in Hin'. destruct Hin' as [Hin' Hs']. apply (Hfun pi' Hin' Hs').
  - right. apply in_map_iff. exists (p, pi). split; [reflexivity|]. apply in_filter_nonstep. auto.
Qed.

(* ---- the full engine step: only what the store still holds is registered ---- *)
Lemma held_deletions t rp : r_deletions (held_reports t rp) = r_deletions rp.
Proof. unfold held_reports. destruct (r_deletions rp) eqn:E; [exact E|reflexivity]. Qed.

Lemma held_process_in t rp pp :
  In pp (r_process (held_reports t rp)) <->
  In pp (r_process rp) /\ (r_deletions rp = [] \/ held_proc t pp = true).
Proof.
  unfold held_reports. destruct (r_deletions rp) as [|d ds]; cbn [r_process].
  - split; [intros H; auto|intros [H _]; exact H].
  - rewrite filter_In. split; [intros [H1 H2]; auto|intros [H1 [H2|H2]]; [discriminate H2|auto]].
Qed.

Lemma held_step_in t rp pp :
  In pp (r_step (held_reports t rp)) <->
  In pp (r_step rp) /\ (r_deletions rp = [] \/ held_proc t pp = true).
Proof.
  unfold held_reports. destruct (r_deletions rp) as [|d ds]; cbn [r_step].
  - split; [intros H; auto|intros [H _]; exact H].
  - rewrite filter_In. split; [intros [H1 H2]; auto|intros [H1 [H2|H2]]; [discriminate H2|auto]].
Qed.

(* what the full step leaves under a deleted path is held by the store: the node exists in the new hierarchy
   and holds that very object *)
Theorem engine_apply_drops b t' rp b' d p o :
  engine_apply b t' rp = Ok b' -> In d (r_deletions rp) -> In (p, o) (b_procs b') -> starts_with p d = true ->
  exists pi, In (p, pi) (r_process rp) /\ pi_step pi = false /\ o = pi_obj pi /\ held_proc t' (p, pi) = true.
Proof.
  unfold engine_apply. intros H Hd Hin Hsw.
  assert (Hd' : In d (r_deletions (held_reports t' rp))) by (rewrite held_deletions; exact Hd).
  destruct (book_apply_drops _ _ _ d p o H Hd' Hin Hsw) as (pi & Hr & Hs & Ho).
  apply held_process_in in Hr. destruct Hr as [Hr [Hnil|Hh]]; [rewrite Hnil in Hd; destruct Hd|].
  exists pi. auto.
Qed.

Theorem engine_apply_drops_steps b t' rp b' d p o :
  engine_apply b t' rp = Ok b' -> In d (r_deletions rp) -> In (p, o) (b_steps b') -> starts_with p d = true ->
  exists pi, (In (p, pi) (r_step rp) \/ In (p, pi) (r_process rp) /\ pi_step pi = true) /\ o = pi_obj pi /\
             held_proc t' (p, pi) = true.
Proof.
  unfold engine_apply. intros H Hd Hin Hsw.
  assert (Hd' : In d (r_deletions (held_reports t' rp))) by (rewrite held_deletions; exact Hd).
  destruct (book_apply_drops_steps _ _ _ d p o H Hd' Hin Hsw) as (pi & Hr & Ho).
  exists pi. destruct Hr as [Hr|[Hr Hs]].
  - apply held_step_in in Hr. destruct Hr as [Hr [Hnil|Hh]]; [rewrite Hnil in Hd; destruct Hd|]. auto.
  - apply held_process_in in Hr. destruct Hr as [Hr [Hnil|Hh]]; [rewrite Hnil in Hd; destruct Hd|]. auto.
Qed.

(* a reported process the store still holds is registered by the full step *)
Theorem engine_apply_registers b t' rp b' p pi :
  engine_apply b t' rp = Ok b' -> In (p, pi) (r_process rp) -> pi_step pi = false ->
  (r_deletions rp = [] \/ held_proc t' (p, pi) = true) -> In p (map fst (b_procs b')).
Proof.
  unfold engine_apply. intros H Hin Hst Hh.
  apply (book_apply_registers _ _ _ p pi H); [|exact Hst]. apply held_process_in. auto.
Qed.

End Kit.

Print Assumptions starts_with_refl.
Print Assumptions starts_with_app.
Print Assumptions cget_cset_same.
Print Assumptions cset_frame.
Print Assumptions cdel_gone.
Print Assumptions cdel_frame.
Print Assumptions cset_cwf.
Print Assumptions cdel_cwf.
Print Assumptions apply_op_frame.
Print Assumptions apply_ops_frame.
Print Assumptions history_frame.
Print Assumptions add_existing_rejected.
Print Assumptions add_creates.
Print Assumptions delete_removes.
Print Assumptions delete_by_path_refuted.
Print Assumptions generate_places.
Print Assumptions move_moves.
Print Assumptions divide_removes_mother.
Print Assumptions order_ops_perm.
Print Assumptions order_ops_sorted.
Print Assumptions order_ops_pinned_perm.
Print Assumptions order_ops_pinned_sorted.
Print Assumptions split_conserves.
Print Assumptions split_refuted_pinned.
Print Assumptions book_register_tables.
Print Assumptions book_apply_tables.
Print Assumptions book_apply_procs_eq.
Print Assumptions book_apply_steps_eq.
Print Assumptions book_apply_pinned_tables.
Print Assumptions book_apply_pinned_drops.
Print Assumptions book_apply_drops.
Print Assumptions book_apply_drops_steps.
Print Assumptions book_apply_drops_unreported.
Print Assumptions book_apply_drops_steps_unreported.
Print Assumptions book_apply_registers.
Print Assumptions book_apply_registers_obj.
Print Assumptions engine_apply_drops.
Print Assumptions engine_apply_drops_steps.
Print Assumptions engine_apply_registers.
