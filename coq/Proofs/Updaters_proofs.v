(* Proofs about Model/Updaters.v (C08). *)
From Coq Require Import List NArith ZArith Bool Lia.
From Viv Require Import Base.Assoc Base.Tree Model.Paths Model.Updaters.
Import ListNotations.
Open Scope Z_scope.

(* store trees and update dicts have unique keys at every level (they are Python dicts) *)
Inductive swf : snode -> Prop :=
| swf_leaf d v : swf (SLeaf d v)
| swf_branch c : NoDup (akeys c) -> Forall (fun kv => swf (snd kv)) c -> swf (SBranch c).

Inductive upd_wf : upd -> Prop :=
| uw_val u : upd_wf (UVal u)
| uw_dv u : upd_wf (UDv u)
| uw_with f x : upd_wf (UWith f x)
| uw_multi l : Forall upd_wf l -> upd_wf (UMulti l)
| uw_branch c : NoDup (akeys c) -> Forall (fun kv => upd_wf (snd kv)) c -> upd_wf (UBranch c).

(* applying a list of leaf-level updates one after the other *)
Definition leaf_fold (d : decl) (v : uval) (us : list upd) : res uval :=
  fold_left (fun acc u => rbind acc (fun v' => apply_leaf d v' u)) us (Ok v).

(* magnitude in base units *)
Definition base (v : uval) : Z := match v with UQty m s => m * s | _ => 0 end.

(* ================= infrastructure ================= *)

(* induction principle reaching the nested occurrences of upd *)
Section UpdInd.
  Variable P : upd -> Prop.
  Hypothesis HVal : forall u, P (UVal u).
  Hypothesis HDv : forall u, P (UDv u).
  Hypothesis HWith : forall f x, P (UWith f x).
  Hypothesis HMulti : forall l, Forall P l -> P (UMulti l).
  Hypothesis HBranch : forall c, Forall (fun kv => P (snd kv)) c -> P (UBranch c).
  Fixpoint upd_ind' (u : upd) : P u :=
    match u with
    | UVal x => HVal x
    | UDv x => HDv x
    | UWith f x => HWith f x
    | UMulti l => HMulti l ((fix go (l : list upd) : Forall P l :=
                               match l with
                               | [] => Forall_nil _
                               | x :: r => Forall_cons x (upd_ind' x) (go r)
                               end) l)
    | UBranch c => HBranch c ((fix go (l : list (key * upd)) : Forall (fun kv => P (snd kv)) l :=
                                 match l with
                                 | [] => Forall_nil _
                                 | kv :: r => Forall_cons kv (upd_ind' (snd kv)) (go r)
                                 end) c)
    end.
End UpdInd.

(* named versions of the local loops of apply_update / updates_at *)
Fixpoint multi_go (l : list upd) (s : snode) : res snode :=
  match l with
  | [] => Ok s
  | x :: r => match apply_update s x with Ok s' => multi_go r s' | Err e => Err e end
  end.

Fixpoint branch_go (c : list (key * upd)) (sc : list (key * snode)) : res snode :=
  match c with
  | [] => Ok (SBranch sc)
  | (k, x) :: r =>
    match alookup k sc with
    | Some child => match apply_update child x with
                    | Ok child' => branch_go r (aset k child' sc)
                    | Err e => Err e
                    end
    | None => branch_go r sc
    end
  end.

Fixpoint find_upd (c : list (key * upd)) (k : key) (p : list key) : list upd :=
  match c with
  | [] => []
  | (k', x) :: r => if N.eqb k' k then updates_at x p else find_upd r k p
  end.

Lemma apply_update_multi l : forall s, apply_update s (UMulti l) = multi_go l s.
Proof.
  induction l as [|x r IH]; intros s.
  - reflexivity.
  - cbn [multi_go]. change (apply_update s (UMulti (x :: r)))
      with (match apply_update s x with Ok s' => apply_update s' (UMulti r) | Err e => Err e end).
    destruct (apply_update s x) as [s1|e]; [apply IH|reflexivity].
Qed.

Lemma apply_update_branch c : forall sc, apply_update (SBranch sc) (UBranch c) = branch_go c sc.
Proof.
  induction c as [|[k x] r IH]; intros sc.
  - reflexivity.
  - cbn [branch_go].
    change (apply_update (SBranch sc) (UBranch ((k, x) :: r)))
      with (match alookup k sc with
            | Some child => match apply_update child x with
                            | Ok child' => apply_update (SBranch (aset k child' sc)) (UBranch r)
                            | Err e => Err e
                            end
            | None => apply_update (SBranch sc) (UBranch r)
            end).
    destruct (alookup k sc) as [child|]; [|apply IH].
    destruct (apply_update child x) as [child'|e]; [apply IH|reflexivity].
Qed.

Lemma updates_at_multi l p : updates_at (UMulti l) p = concat (map (fun u => updates_at u p) l).
Proof.
  induction l as [|x r IH].
  - reflexivity.
  - cbn [map concat]. rewrite <- IH. reflexivity.
Qed.

Lemma updates_at_branch c k p : updates_at (UBranch c) (k :: p) = find_upd c k p.
Proof.
  induction c as [|[k' x] r IH].
  - reflexivity.
  - cbn [find_upd].
    change (updates_at (UBranch ((k', x) :: r)) (k :: p))
      with (if N.eqb k' k then updates_at x p else updates_at (UBranch r) (k :: p)).
    destruct (N.eqb k' k); [reflexivity|apply IH].
Qed.

Lemma Forall_snd_aset {V} (Q : V -> Prop) k v (l : list (key * V)) :
  Q v -> Forall (fun kv => Q (snd kv)) l -> Forall (fun kv => Q (snd kv)) (aset k v l).
Proof.
  intros Hv Hl. induction Hl as [|[k0 v0] r H0 Hr IH]; cbn.
  - constructor; auto.
  - destruct (N.eqb k0 k); constructor; auto.
Qed.

Lemma Forall_snd_alookup {V} (Q : V -> Prop) k v (l : list (key * V)) :
  Forall (fun kv => Q (snd kv)) l -> alookup k l = Some v -> Q v.
Proof.
  intros Hl Hk. apply alookup_In in Hk. rewrite Forall_forall in Hl. exact (Hl _ Hk).
Qed.

(* ================= apply_update preserves well-formedness ================= *)

Lemma apply_update_swf_gen u : forall s s', swf s -> apply_update s u = Ok s' -> swf s'.
Proof.
  induction u as [x|x|f x|l IHl|c IHc] using upd_ind'; intros s s' Hs Happ.
  - destruct s as [d v|sc]; cbn [apply_update] in Happ; [|discriminate].
    destruct (apply_leaf d v (UVal x)); inversion Happ; constructor.
  - destruct s as [d v|sc]; cbn [apply_update] in Happ; [|discriminate].
    destruct (apply_leaf d v (UDv x)); inversion Happ; constructor.
  - destruct s as [d v|sc]; cbn [apply_update] in Happ; [|discriminate].
    destruct (apply_leaf d v (UWith f x)); inversion Happ; constructor.
  - rewrite apply_update_multi in Happ. revert s Hs Happ.
    induction IHl as [|x r Hx Hr IH]; intros s Hs Happ; cbn in Happ.
    + inversion Happ; subst; exact Hs.
    + destruct (apply_update s x) as [s1|e] eqn:E1; [|discriminate].
      apply (IH s1); [eapply Hx; eauto|exact Happ].
  - destruct s as [d v|sc]; [cbn in Happ; discriminate|].
    rewrite apply_update_branch in Happ.
    inversion Hs as [|sc0 Hnd Hall]; subst sc0. clear Hs.
    revert sc Hnd Hall Happ.
    induction IHc as [|[k x] r Hx Hr IH]; intros sc Hnd Hall Happ; cbn [branch_go] in Happ.
    + inversion Happ; subst. constructor; assumption.
    + cbn [snd] in Hx. destruct (alookup k sc) as [child|] eqn:Ek.
      * destruct (apply_update child x) as [child'|e] eqn:E1; [|discriminate].
        apply (IH (aset k child' sc)); [apply aset_nodup; exact Hnd| |exact Happ].
        apply Forall_snd_aset; [|exact Hall].
        eapply Hx; [|exact E1]. eapply Forall_snd_alookup; eauto.
      * apply (IH sc); assumption.
Qed.

Theorem apply_update_swf s u s' : swf s -> apply_update s u = Ok s' -> swf s'.
Proof. apply apply_update_swf_gen. Qed.

(* ================= shape: no node created, removed or re-declared ================= *)

Definition same_kind (a b : option snode) : Prop :=
  match a, b with
  | None, None => True
  | Some (SLeaf d _), Some (SLeaf d' _) => d = d'
  | Some (SBranch _), Some (SBranch _) => True
  | _, _ => False
  end.

Lemma same_kind_refl a : same_kind a a.
Proof. destruct a as [[d v|c]|]; cbn; auto. Qed.

Lemma same_kind_trans a b c : same_kind a b -> same_kind b c -> same_kind a c.
Proof.
  destruct a as [[d v|ca]|], b as [[d1 v1|cb]|], c as [[d2 v2|cc]|]; cbn; try tauto; congruence.
Qed.

Definition child_at (sc : list (key * snode)) (k : key) (p : list key) : option snode :=
  match alookup k sc with Some ch => snode_at ch p | None => None end.

Lemma snode_at_branch sc k p : snode_at (SBranch sc) (k :: p) = child_at sc k p.
Proof. reflexivity. Qed.

Lemma apply_update_kind u : forall s s' p, apply_update s u = Ok s' ->
  same_kind (snode_at s p) (snode_at s' p).
Proof.
  induction u as [x|x|f x|l IHl|c IHc] using upd_ind'; intros s s' p Happ.
  - destruct s as [d v|sc]; cbn [apply_update] in Happ; [|discriminate].
    destruct (apply_leaf d v (UVal x)); inversion Happ; subst. destruct p; cbn; auto.
  - destruct s as [d v|sc]; cbn [apply_update] in Happ; [|discriminate].
    destruct (apply_leaf d v (UDv x)); inversion Happ; subst. destruct p; cbn; auto.
  - destruct s as [d v|sc]; cbn [apply_update] in Happ; [|discriminate].
    destruct (apply_leaf d v (UWith f x)); inversion Happ; subst. destruct p; cbn; auto.
  - rewrite apply_update_multi in Happ. revert s Happ.
    induction IHl as [|x r Hx Hr IH]; intros s Happ; cbn [multi_go] in Happ.
    + inversion Happ; subst. apply same_kind_refl.
    + destruct (apply_update s x) as [s1|e] eqn:E1; [|discriminate].
      eapply same_kind_trans; [eapply Hx; exact E1|apply IH; exact Happ].
  - destruct s as [d v|sc]; [cbn in Happ; discriminate|].
    rewrite apply_update_branch in Happ.
    assert (Hgo : exists sc', s' = SBranch sc' /\
                   forall k p', same_kind (child_at sc k p') (child_at sc' k p')).
    { revert sc Happ.
      induction IHc as [|[k x] r Hx Hr IH]; intros sc Happ; cbn [branch_go] in Happ.
      - inversion Happ; subst. exists sc. split; [reflexivity|]. intros; apply same_kind_refl.
      - cbn [snd] in Hx. destruct (alookup k sc) as [child|] eqn:Ek.
        + destruct (apply_update child x) as [child'|e] eqn:E1; [|discriminate].
          destruct (IH _ Happ) as [sc' [-> Hsc']]. exists sc'. split; [reflexivity|].
          intros k0 p'. eapply same_kind_trans; [|apply Hsc'].
          unfold child_at. destruct (N.eq_dec k k0) as [<-|Hne].
          * rewrite alookup_aset_eq, Ek. eapply Hx; exact E1.
          * rewrite alookup_aset_neq by exact Hne. apply same_kind_refl.
        + apply IH; exact Happ. }
    destruct Hgo as [sc' [-> Hsc']].
    destruct p as [|k p']; [cbn; exact I|].
    rewrite !snode_at_branch. apply Hsc'.
Qed.

(* ================= characterisation ================= *)

Lemma fold_rbind_err {A B} (f : A -> B -> res A) l e :
  fold_left (fun acc u => rbind acc (fun a => f a u)) l (Err e) = Err e.
Proof. induction l as [|x r IH]; cbn; auto. Qed.

Lemma leaf_fold_nil d v : leaf_fold d v [] = Ok v.
Proof. reflexivity. Qed.

Lemma leaf_fold_one d v u : leaf_fold d v [u] = apply_leaf d v u.
Proof. reflexivity. Qed.

Lemma leaf_fold_app d v a b v1 : leaf_fold d v a = Ok v1 -> leaf_fold d v (a ++ b) = leaf_fold d v1 b.
Proof.
  unfold leaf_fold. intros H. rewrite fold_left_app, H. reflexivity.
Qed.

Lemma find_upd_notin c k p : ~ In k (akeys c) -> find_upd c k p = [].
Proof.
  induction c as [|[k' x] r IH]; cbn; intros Hnin; auto.
  destruct (N.eqb k' k) eqn:E.
  - apply N.eqb_eq in E. subst. exfalso. apply Hnin. now left.
  - apply IH. intros Hin. apply Hnin. now right.
Qed.

Definition char_at (u : upd) : Prop :=
  forall s s', swf s -> upd_wf u -> apply_update s u = Ok s' ->
  forall p d v, snode_at s p = Some (SLeaf d v) ->
    exists v', snode_at s' p = Some (SLeaf d v') /\ leaf_fold d v (updates_at u p) = Ok v'.

Lemma char_leaf_form u :
  (forall s, apply_update s u =
             match s with
             | SLeaf d v => match apply_leaf d v u with Ok v' => Ok (SLeaf d v') | Err e => Err e end
             | SBranch _ => Err EOther
             end) ->
  (forall p, updates_at u p = match p with [] => [u] | _ => [] end) ->
  char_at u.
Proof.
  intros Hau Hup s s' _ _ Happ p d v Hat. rewrite Hau in Happ.
  destruct s as [d0 v0|sc]; [|discriminate].
  destruct p as [|k p']; [|cbn in Hat; discriminate].
  cbn in Hat. inversion Hat; subst d0 v0.
  destruct (apply_leaf d v u) as [v'|e] eqn:E; [|discriminate].
  inversion Happ; subst s'. exists v'. split; [reflexivity|].
  rewrite Hup, leaf_fold_one. exact E.
Qed.

Lemma branch_go_char c :
  Forall (fun kv => char_at (snd kv)) c ->
  forall sc s', NoDup (akeys c) -> Forall (fun kv => upd_wf (snd kv)) c ->
    NoDup (akeys sc) -> Forall (fun kv => swf (snd kv)) sc ->
    branch_go c sc = Ok s' ->
    exists sc', s' = SBranch sc' /\
      forall k p d v, child_at sc k p = Some (SLeaf d v) ->
        exists v', child_at sc' k p = Some (SLeaf d v') /\ leaf_fold d v (find_upd c k p) = Ok v'.
Proof.
  intros IHc. induction IHc as [|[k x] r Hx Hr IH];
    intros sc s' Hndc Hwfc Hnd Hall Happ; cbn [branch_go] in Happ.
  - inversion Happ; subst. exists sc. split; [reflexivity|].
    intros k p d v Hat. exists v. split; [exact Hat|reflexivity].
  - cbn [snd] in Hx.
    cbn in Hndc. inversion Hndc as [|k0 l0 Hnin Hndr]; subst k0 l0.
    inversion Hwfc as [|kv0 l0 Hwx Hwr]; subst kv0 l0. cbn [snd] in Hwx.
    destruct (alookup k sc) as [child|] eqn:Ek.
    + destruct (apply_update child x) as [child'|e] eqn:E1; [|discriminate].
      assert (Hchild : swf child) by (eapply Forall_snd_alookup; eauto).
      assert (Hchild' : swf child') by (eapply apply_update_swf; eauto).
      destruct (IH (aset k child' sc) s' Hndr Hwr (aset_nodup _ _ _ Hnd)
                   (Forall_snd_aset _ _ _ _ Hchild' Hall) Happ) as [sc' [-> Hsc']].
      exists sc'. split; [reflexivity|].
      intros k0 p d v Hat. cbn [find_upd]. destruct (N.eqb k k0) eqn:E.
      * apply N.eqb_eq in E. subst k0. unfold child_at in Hat. rewrite Ek in Hat.
        destruct (Hx child child' Hchild Hwx E1 p d v Hat) as [v1 [Hat1 Hf1]].
        destruct (Hsc' k p d v1) as [v' [Hat' Hf']].
        { unfold child_at. rewrite alookup_aset_eq. exact Hat1. }
        rewrite (find_upd_notin r k p Hnin), leaf_fold_nil in Hf'. inversion Hf'; subst v'.
        exists v1. split; assumption.
      * apply N.eqb_neq in E. apply Hsc'. unfold child_at.
        rewrite alookup_aset_neq by exact E. exact Hat.
    + destruct (IH sc s' Hndr Hwr Hnd Hall Happ) as [sc' [-> Hsc']].
      exists sc'. split; [reflexivity|].
      intros k0 p d v Hat. cbn [find_upd]. destruct (N.eqb k k0) eqn:E.
      * apply N.eqb_eq in E. subst k0. unfold child_at in Hat. rewrite Ek in Hat. discriminate.
      * apply Hsc'. exact Hat.
Qed.

Lemma apply_update_char_gen u : char_at u.
Proof.
  induction u as [x|x|f x|l IHl|c IHc] using upd_ind'.
  - apply char_leaf_form; [intros [d v|sc]; reflexivity|intros [|k p]; reflexivity].
  - apply char_leaf_form; [intros [d v|sc]; reflexivity|intros [|k p]; reflexivity].
  - apply char_leaf_form; [intros [d v|sc]; reflexivity|intros [|k p]; reflexivity].
  - intros s s' Hs Hwf Happ p d v Hat.
    inversion Hwf as [| | |l0 Hwl|]; subst l0. clear Hwf.
    rewrite apply_update_multi in Happ. rewrite updates_at_multi.
    revert s v Hs Hwl Happ Hat.
    induction IHl as [|x r Hx Hr IH]; intros s v Hs Hwl Happ Hat; cbn [multi_go] in Happ.
    + inversion Happ; subst. exists v. split; [exact Hat|reflexivity].
    + inversion Hwl as [|x0 l0 Hwx Hwr]; subst x0 l0.
      destruct (apply_update s x) as [s1|e] eqn:E1; [|discriminate].
      destruct (Hx s s1 Hs Hwx E1 p d v Hat) as [v1 [Hat1 Hf1]].
      assert (Hs1 : swf s1) by (eapply apply_update_swf; eauto).
      destruct (IH s1 v1 Hs1 Hwr Happ Hat1) as [v' [Hat' Hf']].
      exists v'. split; [exact Hat'|].
      cbn [map concat]. rewrite (leaf_fold_app _ _ _ _ _ Hf1). exact Hf'.
  - intros s s' Hs Hwf Happ p d v Hat.
    inversion Hwf as [| | | |c0 Hndc Hwc]; subst c0. clear Hwf.
    destruct s as [d0 v0|sc]; [cbn in Happ; discriminate|].
    rewrite apply_update_branch in Happ.
    inversion Hs as [|sc0 Hnd Hall]; subst sc0.
    destruct (branch_go_char c IHc sc s' Hndc Hwc Hnd Hall Happ) as [sc' [-> Hsc']].
    destruct p as [|k p']; [cbn in Hat; discriminate|].
    rewrite snode_at_branch in Hat. rewrite snode_at_branch, updates_at_branch.
    apply Hsc'. exact Hat.
Qed.

(* ---- Store.apply_update, value part: full characterisation ---- *)
(* After a successful update, every leaf keeps its declaration and holds the fold of exactly the
   leaf-level updates addressed to it, in application order; hence untouched leaves are unchanged. *)
Theorem apply_update_char s u s' : swf s -> upd_wf u -> apply_update s u = Ok s' ->
  forall p d v, snode_at s p = Some (SLeaf d v) ->
    exists v', snode_at s' p = Some (SLeaf d v') /\ leaf_fold d v (updates_at u p) = Ok v'.
Proof. apply apply_update_char_gen. Qed.

Theorem apply_update_frame s u s' p : swf s -> upd_wf u -> apply_update s u = Ok s' ->
  updates_at u p = [] -> value_at s' p = value_at s p.
Proof.
  intros Hs Hwf Happ Hnil. unfold value_at.
  destruct (snode_at s p) as [[d v|sc]|] eqn:Es.
  - destruct (apply_update_char s u s' Hs Hwf Happ p d v Es) as [v' [Hat' Hf']].
    rewrite Hnil, leaf_fold_nil in Hf'. inversion Hf'; subst. rewrite Hat'. reflexivity.
  - pose proof (apply_update_kind u s s' p Happ) as Hk. rewrite Es in Hk.
    destruct (snode_at s' p) as [[d' v'|sc']|]; cbn in Hk; tauto.
  - pose proof (apply_update_kind u s s' p Happ) as Hk. rewrite Es in Hk.
    destruct (snode_at s' p) as [[d' v'|sc']|]; cbn in Hk; tauto.
Qed.

(* no node is created or removed by a value update *)
Theorem apply_update_shape s u s' p : swf s -> upd_wf u -> apply_update s u = Ok s' ->
  (snode_at s p = None <-> snode_at s' p = None).
Proof.
  intros _ _ Happ. pose proof (apply_update_kind u s s' p Happ) as Hk.
  destruct (snode_at s p) as [[d v|sc]|], (snode_at s' p) as [[d' v'|sc']|]; cbn in Hk;
    try tauto; split; discriminate.
Qed.

(* _multi_update = the updates one after the other; a batch is a left fold *)
Theorem multi_is_batch s l : apply_update s (UMulti l) = apply_batch s l.
Proof.
  rewrite apply_update_multi. unfold apply_batch. revert s.
  induction l as [|x r IH]; intros s; cbn [multi_go fold_left]; [reflexivity|].
  cbn [rbind]. destruct (apply_update s x) as [s1|e].
  - apply IH.
  - symmetry. apply (fold_rbind_err (fun s' u => apply_update s' u)).
Qed.

Theorem batch_is_fold us : forall s s', swf s -> Forall upd_wf us -> apply_batch s us = Ok s' ->
  forall p d v, snode_at s p = Some (SLeaf d v) ->
    exists v', snode_at s' p = Some (SLeaf d v') /\
               leaf_fold d v (concat (map (fun u => updates_at u p) us)) = Ok v'.
Proof.
  intros s s' Hs Hwf Happ p d v Hat. rewrite <- multi_is_batch in Happ.
  rewrite <- updates_at_multi.
  exact (apply_update_char s (UMulti us) s' Hs (uw_multi _ Hwf) Happ p d v Hat).
Qed.

(* ---- a single update to a single variable: f(v, u) with the declared or the named updater ---- *)
Theorem leaf_declared d v x v' : d_updater d <> DictValue ->
  apply_leaf d v (UVal x) = Ok v' -> rbind (apply_updater (d_updater d) v x) (to_units (d_units d)) = Ok v'.
Proof.
  intros Hne H. unfold apply_leaf in H. destruct (d_updater d); exact H.
Qed.

Theorem leaf_override d v f x :
  apply_leaf d v (UWith (Some f) (Some x)) = rbind (apply_updater f v x) (to_units (d_units d)).
Proof. reflexivity. Qed.

Theorem leaf_override_default d v f :
  apply_leaf d v (UWith (Some f) None) = rbind (apply_updater f v (d_default d)) (to_units (d_units d)).
Proof. reflexivity. Qed.

(* ---- laws of the updaters ---- *)
Theorem accumulate_int a b : apply_updater Accumulate (UZ a) (UZ b) = Ok (UZ (a + b)).
Proof. reflexivity. Qed.

Theorem accumulate_list a b : apply_updater Accumulate (UList a) (UList b) = Ok (UList (a ++ b)).
Proof. reflexivity. Qed.

Lemma zip_add_spec a : forall b r, zip_add a b = Some r ->
  length r = length a /\ length a = length b /\
  forall i, (i < length a)%nat -> nth i r 0 = nth i a 0 + nth i b 0.
Proof.
  induction a as [|x a' IH]; intros [|y b'] r H; cbn [zip_add] in H; try discriminate.
  - inversion H; subst. cbn. repeat split; auto. intros i Hi. inversion Hi.
  - destruct (zip_add a' b') as [r'|] eqn:E; [|discriminate]. inversion H; subst r.
    destruct (IH b' r' E) as [H1 [H2 H3]]. cbn [length]. repeat split; try congruence.
    intros [|i] Hi; cbn [nth]; [reflexivity|]. apply H3. apply Nat.succ_lt_mono. exact Hi.
Qed.

Lemma zip_add_total a : forall b, length a = length b -> exists r, zip_add a b = Some r.
Proof.
  induction a as [|x a' IH]; intros [|y b'] H; cbn in H; try discriminate.
  - exists []. reflexivity.
  - destruct (IH b') as [r' Hr']; [congruence|]. exists ((x + y) :: r'). cbn [zip_add]. rewrite Hr'. reflexivity.
Qed.

Theorem accumulate_array a b r : apply_updater Accumulate (UArr a) (UArr b) = Ok (UArr r) ->
  length r = length a /\ length a = length b /\ forall i, (i < length a)%nat -> nth i r 0 = nth i a 0 + nth i b 0.
Proof.
  cbn [apply_updater py_add]. intros H. destruct (zip_add a b) as [r'|] eqn:E; [|discriminate].
  inversion H; subst r'. apply zip_add_spec. exact E.
Qed.

Theorem accumulate_array_total a b : length a = length b -> exists r, apply_updater Accumulate (UArr a) (UArr b) = Ok (UArr r).
Proof.
  intros H. destruct (zip_add_total a b H) as [r Hr]. exists r.
  cbn [apply_updater py_add]. rewrite Hr. reflexivity.
Qed.

Theorem set_law v u : apply_updater Set_ v u = Ok u.
Proof. reflexivity. Qed.

Theorem null_law v u : apply_updater Null v u = Ok v.
Proof. reflexivity. Qed.

Theorem nonneg_int a b : apply_updater NonnegAccumulate (UZ a) (UZ b) = Ok (UZ (Z.max 0 (a + b))).
Proof.
  cbn [apply_updater py_add]. do 2 f_equal.
  destruct (0 <=? a + b) eqn:E; [apply Z.leb_le in E|apply Z.leb_gt in E]; lia.
Qed.

Lemma nth_map_clip l : forall i, (i < length l)%nat ->
  nth i (map (fun x => if x <? 0 then 0 else x) l) 0 = Z.max 0 (nth i l 0).
Proof.
  induction l as [|x r IH]; intros i Hi; cbn [length] in Hi; [inversion Hi|].
  destruct i as [|i]; cbn [map nth].
  - destruct (x <? 0) eqn:E; [apply Z.ltb_lt in E|apply Z.ltb_ge in E]; lia.
  - apply IH. apply Nat.succ_lt_mono. exact Hi.
Qed.

Theorem nonneg_array a b r : apply_updater NonnegAccumulate (UArr a) (UArr b) = Ok (UArr r) ->
  length r = length a /\ forall i, (i < length a)%nat -> nth i r 0 = Z.max 0 (nth i a 0 + nth i b 0).
Proof.
  cbn [apply_updater py_add]. intros H. destruct (zip_add a b) as [r'|] eqn:E; [|discriminate].
  inversion H; subst r. destruct (zip_add_spec a b r' E) as [H1 [H2 H3]].
  split; [rewrite map_length; exact H1|].
  intros i Hi. rewrite nth_map_clip by (rewrite H1; exact Hi). rewrite H3 by exact Hi. reflexivity.
Qed.

(* merge: keys of v and u; u wins on shared non-dict keys; nested dicts deep-merged; the rest unchanged *)
Definition merge_step (acc : list (key * tree Z)) (kn : key * tree Z) : list (key * tree Z) :=
  match alookup (fst kn) acc, snd kn with
  | Some (Nd vc), Nd nc => aset (fst kn) (deep_merge (Nd vc) (Nd nc)) acc
  | _, n => aset (fst kn) n acc
  end.

Lemma merge_dict_cons c kn n : merge_dict c (kn :: n) = merge_dict (merge_step c kn) n.
Proof. reflexivity. Qed.

Lemma merge_step_aset c kn : exists t, merge_step c kn = aset (fst kn) t c.
Proof.
  unfold merge_step. destruct (alookup (fst kn) c) as [[x|vc]|], (snd kn) as [y|nc]; eexists; reflexivity.
Qed.

Theorem merge_law c n k : NoDup (akeys n) ->
  alookup k (merge_dict c n) =
  match alookup k n with
  | None => alookup k c
  | Some (Nd nc) => match alookup k c with
                    | Some (Nd vc) => Some (deep_merge (Nd vc) (Nd nc))
                    | _ => Some (Nd nc)
                    end
  | Some (Lf x) => Some (Lf x)
  end.
Proof.
  revert c. induction n as [|[k0 t] r IH]; intros c Hnd.
  - reflexivity.
  - cbn in Hnd. inversion Hnd as [|k1 l1 Hnin Hndr]; subst k1 l1.
    rewrite merge_dict_cons, (IH _ Hndr). cbn [alookup].
    destruct (N.eqb k0 k) eqn:E.
    + apply N.eqb_eq in E. subst k0.
      apply alookup_None_notin in Hnin. rewrite Hnin.
      unfold merge_step. cbn [fst snd].
      destruct (alookup k c) as [[x|vc]|], t as [y|nc]; apply alookup_aset_eq.
    + apply N.eqb_neq in E.
      assert (Hc : alookup k (merge_step c (k0, t)) = alookup k c).
      { destruct (merge_step_aset c (k0, t)) as [t' ->]. cbn [fst].
        apply alookup_aset_neq. exact E. }
      rewrite Hc. reflexivity.
Qed.

Theorem merge_keys c n k : In k (akeys (merge_dict c n)) <-> In k (akeys c) \/ In k (akeys n).
Proof.
  revert c. induction n as [|kn r IH]; intros c.
  - cbn. tauto.
  - rewrite merge_dict_cons, IH. destruct (merge_step_aset c kn) as [t ->].
    rewrite akeys_aset_incl. unfold akeys. cbn [map In].
    split; intros H; intuition (subst; auto).
Qed.

Theorem merge_nodup c n : NoDup (akeys c) -> NoDup (akeys (merge_dict c n)).
Proof.
  revert c. induction n as [|kn r IH]; intros c Hnd.
  - exact Hnd.
  - rewrite merge_dict_cons. apply IH. destruct (merge_step_aset c kn) as [t ->].
    apply aset_nodup. exact Hnd.
Qed.

(* the pinned (pre-repair) merge set unmentioned keys to None and dropped new keys *)
Theorem merge_refuted_pinned : exists c n none k k',
  alookup k n = None /\ alookup k c <> None /\ alookup k (merge_dict_pinned c n none) = Some none /\
  alookup k' n <> None /\ alookup k' (merge_dict_pinned c n none) = None.
Proof.
exists [(1%N, Lf 0)], [(2%N, Lf 5)], (Lf 99), 1%N, 2%N. cbn.
  repeat split; discriminate.
Qed.

(* dict_value *)
(* (the value type is not determined by the statement: stated for any V; the model uses V = tree Z) *)
Theorem dict_value_add {V : Type} (c l : list (key * V)) k : alookup k (fold_left (fun a kv => aset (fst kv) (snd kv) a) l c) =
  match alookup k (rev l) with Some s => Some s | None => alookup k c end.
Proof.
  induction l as [|[k0 v0] l' IH] using rev_ind.
  - reflexivity.
  - rewrite fold_left_app, rev_app_distr. cbn [fold_left rev app fst snd alookup].
    destruct (N.eqb k0 k) eqn:E.
    + apply N.eqb_eq in E. subst k0. apply alookup_aset_eq.
    + apply N.eqb_neq in E. rewrite alookup_aset_neq by exact E. exact IH.
Qed.

Theorem dict_value_delete c k c' : NoDup (akeys c) -> dv_step (Ok c) (DDel [k]) = Ok c' ->
  alookup k c <> None /\ alookup k c' = None /\ forall k', k' <> k -> alookup k' c' = alookup k' c.
Proof.
  intros Hnd H. cbn in H. destruct (alookup k c) as [t|] eqn:E; [|discriminate].
  inversion H; subst c'. split; [discriminate|]. split.
  - apply alookup_aremove_eq. exact Hnd.
  - intros k' Hne. apply alookup_aremove_neq. congruence.
Qed.

Theorem dict_value_delete_missing c k : alookup k c = None -> dv_step (Ok c) (DDel [k]) = Err EKeyError.
Proof. intros H. cbn. rewrite H. reflexivity. Qed.

Theorem dict_value_unknown_key c k v : alookup k c = None -> dv_step (Ok c) (DKey k v) = Err EOther.
Proof. intros H. cbn. rewrite H. reflexivity. Qed.

Theorem dict_value_key c k v inner : alookup k c = Some (Nd inner) ->
  dv_step (Ok c) (DKey k v) = Ok (aset k (Nd (fold_left (fun a kv => aset (fst kv) (snd kv) a) v inner)) c).
Proof. intros H. cbn [dv_step rbind]. rewrite H. reflexivity. Qed.

(* units: a variable with declared units always holds a quantity in those units afterwards, and
   accumulating a compatible quantity adds the base magnitudes *)
Lemma to_units_some du w v' : to_units (Some du) w = Ok v' -> exists m, v' = UQty m du.
Proof.
  unfold to_units. destruct w as [z|l|l|t|m s|]; try discriminate.
  destruct ((0 <? du) && (s mod du =? 0))%bool; [|discriminate].
  intros H. inversion H. eexists; reflexivity.
Qed.

Lemma rbind_to_units_some (r : res uval) du v' :
  rbind r (to_units (Some du)) = Ok v' -> exists m, v' = UQty m du.
Proof.
  destruct r as [w|e]; cbn [rbind]; [apply to_units_some|discriminate].
Qed.

Theorem units_normalised d v u v' du : d_units d = Some du -> apply_leaf d v u = Ok v' -> exists m, v' = UQty m du.
Proof.
  intros Hu H. unfold apply_leaf in H. rewrite Hu in H.
  destruct u as [x|dv|[f|] [x|]|l|c]; try discriminate.
  - destruct (d_updater d); try discriminate; eapply rbind_to_units_some; exact H.
  - destruct (d_updater d); try discriminate; eapply rbind_to_units_some; exact H.
  - eapply rbind_to_units_some; exact H.
  - eapply rbind_to_units_some; exact H.
Qed.

Theorem units_accumulate d mv mu su v' du : d_units d = Some du -> d_updater d = Accumulate ->
  apply_leaf d (UQty mv du) (UVal (UQty mu su)) = Ok v' -> base v' = mv * du + mu * su.
Proof.
  intros Hu Hf H. unfold apply_leaf in H. rewrite Hu, Hf in H.
  cbn [apply_updater py_add] in H.
  destruct ((0 <? du) && (su mod du =? 0))%bool eqn:E; [|discriminate].
  cbn [rbind to_units] in H. rewrite Z.mod_same in H.
  2:{ apply andb_prop in E as [E1 _]. apply Z.ltb_lt in E1. lia. }
  apply andb_prop in E as [E1 E2]. rewrite E1 in H. cbn [andb Z.eqb] in H.
  apply Z.ltb_lt in E1. apply Z.eqb_eq in E2.
  inversion H; subst v'. cbn [base].
  rewrite Z.div_same by lia.
  pose proof (Z_div_exact_full_2 su du ltac:(lia) E2) as Hex.
  set (q := su / du) in *. clearbody q. subst su. ring.
Qed.

Print Assumptions apply_update_char.
Print Assumptions apply_update_swf.
Print Assumptions apply_update_frame.
Print Assumptions apply_update_shape.
Print Assumptions multi_is_batch.
Print Assumptions batch_is_fold.
Print Assumptions leaf_declared.
Print Assumptions leaf_override.
Print Assumptions leaf_override_default.
Print Assumptions accumulate_int.
Print Assumptions accumulate_list.
Print Assumptions accumulate_array.
Print Assumptions accumulate_array_total.
Print Assumptions set_law.
Print Assumptions null_law.
Print Assumptions nonneg_int.
Print Assumptions nonneg_array.
Print Assumptions merge_law.
Print Assumptions merge_keys.
Print Assumptions merge_nodup.
Print Assumptions merge_refuted_pinned.
Print Assumptions dict_value_add.
Print Assumptions dict_value_delete.
Print Assumptions dict_value_delete_missing.
Print Assumptions dict_value_unknown_key.
Print Assumptions dict_value_key.
Print Assumptions units_normalised.
Print Assumptions units_accumulate.
