(* Proofs about Model/Updaters.v (C08). *)
From Coq Require Import List NArith ZArith Bool Lia.
From Viv Require Import Base.Assoc Base.Tree Model.Paths Model.Updaters.
Import ListNotations.
Open Scope Z_scope.

(* store trees and update dicts have unique keys at every level (they are Python dicts) *)
Inductive swf : snode -> Prop :=
| swf_leaf d v : swf (SLeaf d v)
| swf_branch c : NoDup (akeys c) -> Forall (fun kv => swf (snd kv)) c -> swf (SBranch c).

Inductive upd_wf : upd -> Prop :=
| uw_val u : upd_wf (UVal u)
| uw_dv u : upd_wf (UDv u)
| uw_with f x : upd_wf (UWith f x)
| uw_multi l : Forall upd_wf l -> upd_wf (UMulti l)
| uw_branch c : NoDup (akeys c) -> Forall (fun kv => upd_wf (snd kv)) c -> upd_wf (UBranch c).

(* applying a list of leaf-level updates one after the other *)
Definition leaf_fold (d : decl) (v : uval) (us : list upd) : res uval :=
  fold_left (fun acc u => rbind acc (fun v' => apply_leaf d v' u)) us (Ok v).

(* magnitude in base units *)
Definition base (v : uval) : Z := match v with UQty m s => m * s | _ => 0 end.

